import Zc.Model.SurviveFlush
import Zc.Proofs.SurviveRoute
import Zc.Proofs.SurviveTimersC
/-! The multicast answer queue flush is total under the invariants (C15): every record object behind an id
in the queues is a record the registry handed out when it was safe (`TblSafe`), so the batch is a safe
message and `packets()` returns; `Queue.ready` keeps the clock-free queue invariant `QShape`. -/
namespace Zc.Survive.Route
open Zc Zc.Wire Zc.Survive Zc.Survive.Comp

/-! ### `Queue.ready` keeps `QShape` -/

theorem popReady_suffix (now : Int) : ∀ (gs : List Reply.Group) (acc : Reply.Dict),
    ∃ pre, gs = pre ++ (Reply.popReady now gs acc).1 := by
  intro gs
  induction gs with
  | nil => intro acc; exact ⟨[], rfl⟩
  | cons g rest ih =>
    intro acc
    unfold Reply.popReady
    split
    · obtain ⟨pre, hpre⟩ := ih (acc.update g.answers)
      exact ⟨g :: pre, by rw [List.cons_append, ← hpre]⟩
    · exact ⟨[], rfl⟩

theorem QShape.ready {q : Reply.Queue} (h : QShape q) (now : Int) : QShape (q.ready now).1 := by
  obtain ⟨h1, h2⟩ := h
  unfold Reply.Queue.ready
  cases hg : q.groups with
  | nil =>
    dsimp only
    exact ⟨by simp [hg], by simp⟩
  | cons g gs =>
    dsimp only
    split
    · exact ⟨by simp [hg], by rw [hg] at h2; simpa using h2⟩
    · obtain ⟨pre, hpre⟩ := popReady_suffix now (g :: gs) []
      generalize hp : Reply.popReady now (g :: gs) [] = pr at hpre
      obtain ⟨rest, batch⟩ := pr
      dsimp only at hpre ⊢
      have hpw : rest.Pairwise (fun a b => a.sa < b.sa) := by
        rw [hg, hpre] at h2
        exact (List.pairwise_append.mp h2).2.1
      have htimer : ∀ gs' : List Reply.Group, (gs' = [] ↔ rest = []) →
          (gs' = [] ↔ (match rest with | [] => none | h :: _ => some (now + Gen.Reply.q_ready_rearm_delay h.sa now) : Option Int) = none) := by
        intro gs' hiff
        rw [hiff]
        cases rest with
        | nil => simp
        | cons a t => simp
      split
      · exact ⟨htimer rest Iff.rfl, hpw⟩
      · refine ⟨htimer _ (by unfold Reply.removeAnswers; simp), ?_⟩
        unfold Reply.removeAnswers
        exact List.Pairwise.map _ (fun a b hab => hab) hpw

/-! ### the table of record objects -/

/-- every record object behind an id is a record the encoder accepts -/
def TblSafe (tbl : List Rec) : Prop := ∀ r ∈ tbl, RecSafe (wireOfRec r) 0

section
variable (lower : String → String)

theorem intern_safe {tbl : List Rec} (h : TblSafe tbl) {r : Rec} (hr : RecSafe (wireOfRec r) 0) : TblSafe (intern lower tbl r) := by
  unfold intern
  split
  · exact h
  · intro x hx
    simp only [List.mem_append, List.mem_singleton] at hx
    rcases hx with hx | rfl
    · exact h x hx
    · exact hr

theorem internAll_safe : ∀ (rs : List Rec) (tbl : List Rec), TblSafe tbl → (∀ r ∈ rs, RecSafe (wireOfRec r) 0) →
    TblSafe (internAll lower tbl rs) := by
  intro rs
  induction rs with
  | nil => intro tbl h _; exact h
  | cons r t ih =>
    intro tbl h hr
    unfold internAll
    simp only [List.foldl_cons]
    exact ih _ (intern_safe lower h (hr r List.mem_cons_self)) (fun x hx => hr x (List.mem_cons_of_mem _ hx))

theorem batchRecs_sub (tbl : List Rec) (batch : Reply.Dict) : ∀ x ∈ dictRecords (batchRecs tbl batch), x ∈ tbl := by
  intro x hx
  unfold dictRecords batchRecs at hx
  rw [List.mem_flatMap] at hx
  obtain ⟨p, hp, hxp⟩ := hx
  rw [List.mem_filterMap] at hp
  obtain ⟨e, _, he⟩ := hp
  cases hr : tbl[e.1]? with
  | none => rw [hr] at he; simp at he
  | some r =>
    rw [hr] at he
    simp only [Option.map_some, Option.some.injEq] at he
    subst he
    simp only [List.mem_cons] at hxp
    rcases hxp with rfl | hxp
    · exact List.mem_of_getElem? hr
    · rw [List.mem_filterMap] at hxp
      obtain ⟨a, _, ha⟩ := hxp
      exact List.mem_of_getElem? ha

/-- **the queue flush never raises**: the table stays, both queues keep `QShape` -/
theorem queueFlush_ok (delay : Bool) (st : RState) (now : Ms) (ht : TblSafe st.recs) (ho : QShape st.outQ) (hd : QShape st.delayQ) :
    ∃ st' pks, queueFlush lower delay st now = .ok (st', pks) ∧ st'.recs = st.recs ∧ st'.history = st.history ∧
      QShape st'.outQ ∧ QShape st'.delayQ := by
  unfold queueFlush
  dsimp only
  have hst : ∀ st' : RState, st' = (if delay then { st with delayQ := ((if delay then st.delayQ else st.outQ).ready now).1 }
        else { st with outQ := ((if delay then st.delayQ else st.outQ).ready now).1 }) →
      st'.recs = st.recs ∧ st'.history = st.history ∧ QShape st'.outQ ∧ QShape st'.delayQ := by
    intro st' hs
    subst hs
    cases delay
    · exact ⟨rfl, rfl, by simpa using QShape.ready ho now, hd⟩
    · exact ⟨rfl, rfl, ho, by simpa using QShape.ready hd now⟩
  cases hr2 : ((if delay then st.delayQ else st.outQ).ready now).2 with
  | none => exact ⟨_, [], rfl, hst _ rfl⟩
  | some batch =>
    dsimp only
    have hsafe : SetSafe (setOf lower (batchRecs st.recs batch)) :=
      setOf_safe lower _ (fun x hx => ht x (batchRecs_sub st.recs batch x hx))
    obtain ⟨pk, hpk⟩ := packets_total _ (multicastMsg_safe _ hsafe)
    rw [hpk]
    exact ⟨_, [pk], rfl, hst _ rfl⟩

end

/-! ### the extra invariant of the composite over the routing residue -/

section
variable (lower : String → String) (possible : String → List String) (ettl : Nat)
variable (attrib : Question → Rec → Bool) (orc : Oracle)
variable {ρ₀ ω : Type} (B : Base ρ₀ ω) (I₀ : ρ₀ → Prop)

/-- the four answer sets of the block being handled consist of safe records -/
def RoutedSafe (sel : Routed) : Prop :=
  ∀ x ∈ dictRecords sel.ucast ++ dictRecords sel.mcastNow ++ dictRecords sel.aggregate ++ dictRecords sel.aggregateLast,
    RecSafe (wireOfRec x) 0

/-- the table behind the queues' ids is safe, and so are the answer sets waiting for `async_add` -/
def FInv (d : CState (ρ₀ × RState)) : Prop :=
  TblSafe d.rest.2.recs ∧ ∀ sel, d.pending = some sel → RoutedSafe sel

theorem ingest_finv {d d' : CState (ρ₀ × RState)} {k : Pkt} {o : List (COut ω)}
    (h : Comp.ingest lower possible (rest lower attrib orc B) d k = .ok (d', o)) : d'.rest.2 = d.rest.2 ∧ d'.pending = d.pending := by
  unfold Comp.ingest at h
  split at h
  · cases h
  · split at h
    · simp only [Except.ok.injEq, Prod.mk.injEq] at h; rw [← h.1]; exact ⟨rfl, rfl⟩
    · split at h
      · cases h
      · split at h
        · cases h
        · rename_i rest' oo hl
          simp only [Except.ok.injEq, Prod.mk.injEq] at h
          rw [← h.1]
          refine ⟨?_, rfl⟩
          simp only [rest] at hl
          split at hl
          · cases hl
          · simp only [Except.ok.injEq, Prod.mk.injEq] at hl
            rw [← hl.1]

theorem route_recs (st : RState) (c : Cache) (ks : List Survive.Pkt) (u : Bool) (dict : DictRS) :
    (route lower attrib st c ks u dict).1.recs = internAll lower st.recs (dictRecords dict) ∧
    ∀ x ∈ dictRecords (route lower attrib st c ks u dict).2.ucast ++ dictRecords (route lower attrib st c ks u dict).2.mcastNow ++
          dictRecords (route lower attrib st c ks u dict).2.aggregate ++ dictRecords (route lower attrib st c ks u dict).2.aggregateLast,
      x ∈ dictRecords dict := by
  unfold route
  dsimp only
  split
  · exact ⟨rfl, by intro x hx; simp [emptyRouted, dictRecords] at hx⟩
  · refine ⟨rfl, ?_⟩
    intro x hx
    simp only [List.mem_append] at hx
    rcases hx with ((hx | hx) | hx) | hx <;> exact decode_sub lower _ _ _ x hx

theorem answer_finv {d d' : CState (ρ₀ × RState)} {ks : List Pkt} {u : Bool} {qa : Option QA}
    (hI : CInv lower ettl (Inv I₀) d) (hF : FInv d)
    (h : answer lower ettl (rest lower attrib orc B) d ks u = .ok (d', qa)) : FInv d' := by
  unfold answer at h
  rcases Zc.respond_ok lower ettl hI.reg (ks.map msgOf) with ⟨_, hr⟩ | ⟨_, hr⟩
  · rw [hr] at h
    simp only [Except.ok.injEq, Prod.mk.injEq] at h
    rw [← h.1]
    exact ⟨hF.1, by intro sel hs; cases hs⟩
  · have hown := respond_records_own lower ettl hI.reg hI.fresh (ks.map msgOf) hr
    have hdict : ∀ x ∈ dictRecords (answerMap lower ettl d.reg (ks.map msgOf)), RecSafe (wireOfRec x) 0 := by
      intro x hx
      obtain ⟨s, hs, hxs⟩ := hown x hx
      exact hI.safe s hs x hxs
    rw [hr] at h
    dsimp only at h
    simp only [rest] at h
    simp only [Except.ok.injEq, Prod.mk.injEq] at h
    rw [← h.1]
    obtain ⟨hrecs, hsub⟩ := route_recs lower attrib d.rest.2 d.cache ks u (answerMap lower ettl d.reg (ks.map msgOf))
    refine ⟨?_, ?_⟩
    · show TblSafe (route lower attrib d.rest.2 d.cache ks u _).1.recs
      rw [hrecs]
      exact internAll_safe lower _ _ hF.1 hdict
    · intro sel hs
      simp only [Option.some.injEq] at hs
      subst hs
      intro x hx
      exact hdict x (hsub x hx)

theorem enqueue_finv {d : CState (ρ₀ × RState)} (hF : FInv d) (t : Ms) (q : QA) :
    FInv (Comp.enqueue (rest lower attrib orc B) d t q).1 := by
  unfold Comp.enqueue
  cases hp : d.pending with
  | none => exact ⟨hF.1, by intro sel hs; rw [hp] at hs; cases hs⟩
  | some sel =>
    dsimp only
    refine ⟨?_, by intro sel' hs; cases hs⟩
    have hsel := hF.2 sel hp
    show TblSafe (enqueue lower orc d.rest.2 t sel).recs
    unfold enqueue
    dsimp only
    apply internAll_safe lower _ _ hF.1
    intro x hx
    apply hsel x
    simp only [List.mem_append] at hx ⊢
    rcases hx with hx | hx
    · exact Or.inl (Or.inr hx)
    · exact Or.inr hx

/-- the full invariant of the composite over the routing residue, with its timer and flush blocks -/
def CFInv (d : CState (ρ₀ × RState)) : Prop := CTInv lower ettl (Inv I₀) d ∧ FInv d

theorem comp_downOK_F (glue : TextGlue) (hB : BaseOK B I₀) :
    DownOK (down lower possible ettl (rest lower attrib orc B)) (CFInv lower ettl I₀) QASafe := by
  have hD := comp_downOK_T lower possible ettl (rest lower attrib orc B) (Inv I₀) glue
    (listenersOK lower attrib orc B I₀ hB) (routeOK lower attrib orc B I₀) (queueOK lower attrib orc B I₀)
  refine ⟨?_, ?_, ?_⟩
  · intro d k hI hk
    obtain ⟨d', o, h, hI'⟩ := hD.ingest d k hI.1 hk
    obtain ⟨e1, e2⟩ := ingest_finv lower possible attrib orc B h
    exact ⟨d', o, h, hI', by unfold FInv; rw [e1, e2]; exact hI.2⟩
  · intro d ks u hI hne hk
    obtain ⟨d', qa, h, hI', hS⟩ := hD.answer d ks u hI.1 hne hk
    exact ⟨d', qa, h, ⟨hI', answer_finv lower ettl attrib orc B I₀ hI.1.1 hI.2 h⟩, hS⟩
  · intro d t q hI
    exact ⟨hD.enqueue d t q hI.1, enqueue_finv lower attrib orc B hI.2 t q⟩

/-! ### the flush block and the other blocks -/

theorem flushStep_ok {d : CState (ρ₀ × RState)} (hI : CFInv lower ettl I₀ d) (delay : Bool) (now : Ms) :
    ∃ d' pks, flushStep lower d delay now = .ok (d', pks) ∧ CFInv lower ettl I₀ d' := by
  obtain ⟨⟨hC, hT⟩, hF⟩ := hI
  obtain ⟨h0, ho, hd⟩ := hC.rest
  obtain ⟨st', pks, hq, e1, _, ho', hd'⟩ := queueFlush_ok lower delay d.rest.2 now hF.1 ho hd
  unfold flushStep
  rw [hq]
  refine ⟨_, pks, rfl, ⟨⟨?_, ?_⟩, ?_⟩⟩
  · exact ⟨hC.cache, hC.reg, hC.names, hC.fields, hC.fresh, hC.safe, hC.scheds, hC.browsers, ⟨h0, ho', hd'⟩⟩
  · exact ⟨hT.types, hT.heap, hT.lookups⟩
  · exact ⟨by show TblSafe st'.recs; rw [e1]; exact hF.1, hF.2⟩

variable (sz : QueryGen.QOut → Nat)

theorem browserFire_rest {ρ : Type} {d d' : CState ρ} {i : Nat} {done : Bool} {now : Ms} {pks : List (List Bytes)}
    (h : browserFire lower sz d i done now = .ok (d', pks)) : d'.rest = d.rest ∧ d'.pending = d.pending := by
  unfold browserFire at h
  split at h
  · simp only [Except.ok.injEq, Prod.mk.injEq] at h; rw [← h.1]; exact ⟨rfl, rfl⟩
  · split at h
    · simp only [Except.ok.injEq, Prod.mk.injEq] at h; rw [← h.1]; exact ⟨rfl, rfl⟩
    · cases h
    · dsimp only at h
      split at h
      · cases h
      · simp only [Except.ok.injEq, Prod.mk.injEq] at h; rw [← h.1]; exact ⟨rfl, rfl⟩

theorem lookupQuery_rest {ρ : Type} {d d' : CState ρ} {j : Nat} {now : Ms} {qu : Bool} {pks : List (List Bytes)}
    (h : lookupQuery lower d j now qu = .ok (d', pks)) : d' = d := by
  unfold lookupQuery at h
  split at h
  · simp only [Except.ok.injEq, Prod.mk.injEq] at h; exact h.1.symm
  · dsimp only at h
    split at h
    · simp only [Except.ok.injEq, Prod.mk.injEq] at h; exact h.1.symm
    · split at h
      · cases h
      · simp only [Except.ok.injEq, Prod.mk.injEq] at h; exact h.1.symm

theorem timerStep_rest {ρ : Type} {d d' : CState ρ} {tb : TimerBlock} {pks : List (List Bytes)}
    (h : timerStep lower sz d tb = .ok (d', pks)) : d'.rest = d.rest ∧ d'.pending = d.pending := by
  cases tb with
  | browserFire i done now =>
    simp only [timerStep] at h
    split at h
    · exact browserFire_rest lower sz h
    · simp only [Except.ok.injEq, Prod.mk.injEq] at h; rw [← h.1]; exact ⟨rfl, rfl⟩
  | lookupQuery j now qu =>
    simp only [timerStep] at h
    split at h
    · rw [lookupQuery_rest lower h]; exact ⟨rfl, rfl⟩
    · simp only [Except.ok.injEq, Prod.mk.injEq] at h; rw [← h.1]; exact ⟨rfl, rfl⟩

/-- **every modelled non-receive block preserves the full invariant without raising**, given that the residual ones do -/
theorem otherF_ok {β : Type} (glue : TextGlue)
    (other' : CState (ρ₀ × RState) → β → Except PyExc (CState (ρ₀ × RState) × List (COut ω)))
    (hO : ∀ d b, CFInv lower ettl I₀ d → ∃ d' o, other' d b = .ok (d', o) ∧ CFInv lower ettl I₀ d') :
    ∀ d (b : TimerBlock ⊕ (FlushBlock ⊕ β)), CFInv lower ettl I₀ d →
      ∃ d' o, otherF lower sz other' d b = .ok (d', o) ∧ CFInv lower ettl I₀ d' := by
  intro d b hI
  cases b with
  | inl tb =>
    obtain ⟨d', pks, h, hI', hT'⟩ := timerStep_ok lower ettl (Inv I₀) sz glue hI.1.1 hI.1.2 tb
    obtain ⟨e1, e2⟩ := timerStep_rest lower sz h
    refine ⟨d', pks.map COut.sent, by simp only [otherF, otherT, h], ⟨hI', hT'⟩, ?_⟩
    unfold FInv
    rw [e1, e2]
    exact hI.2
  | inr b =>
    cases b with
    | inl fb =>
      obtain ⟨d', pks, h, hI'⟩ := flushStep_ok lower ettl I₀ hI fb.delay fb.now
      exact ⟨d', pks.map COut.sent, by simp only [otherF, h], hI'⟩
    | inr b => exact hO d b hI

end

end Zc.Survive.Route
