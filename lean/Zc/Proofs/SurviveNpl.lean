import Zc.Proofs.SurviveText
/-! `NamePartTooLongException` has exactly two sources in the encoder: a label longer than 63 bytes
(`_write_utf`) and a character string longer than 255 bytes (`write_character_string`, HINFO only).
A message all of whose labels are at most 63 bytes long and which carries no HINFO record therefore
never makes `DNSOutgoing.packets()` raise it — whatever else is wrong with the message.  This is the
statement that covers the *site* of D8b: the browsers' and lookups' query builders put cached PTR /
SRV / TXT / address records into the known-answer section. -/
namespace Zc.Survive
open Zc Zc.Wire Zc.Wire.Encode

/-- the computation does not end in `NamePartTooLongException` -/
def NoNpl {α : Type} (x : Except PyExc α) : Prop := x ≠ .error .namePartTooLong

theorem NoNpl.ok {α : Type} (a : α) : NoNpl (.ok a : Except PyExc α) := by intro h; cases h

theorem NoNpl.bind {α β : Type} {x : Except PyExc α} {f : α → Except PyExc β} (hx : NoNpl x) (hf : ∀ a, x = .ok a → NoNpl (f a)) :
    NoNpl (x >>= f) := by
  cases x with
  | error e =>
    intro h
    have h' : (Except.error e : Except PyExc β) = .error .namePartTooLong := h
    cases h'
    exact hx rfl
  | ok a => exact hf a rfl

theorem NoNpl.of_err {α : Type} {x : Except PyExc α} (h : ∀ e, x = .error e → e ≠ .namePartTooLong) : NoNpl x := by
  intro hx; exact h _ hx rfl

theorem noNpl_byteOf (v : Nat) : NoNpl (byteOf v) := NoNpl.of_err (fun e h => by rw [byteOf_err h]; decide)
theorem noNpl_shortOf (v : Nat) : NoNpl (shortOf v) := by unfold shortOf; split <;> (intro h; cases h)
theorem noNpl_intOf (v : Nat) : NoNpl (intOf v) := by unfold intOf; split <;> (intro h; cases h)

theorem noNpl_writeName (n : WName) (size : Nat) (names : Names) (h : ∀ x ∈ n, x.length ≤ 63) : NoNpl (writeName size names n) :=
  NoNpl.of_err (fun e he => by rw [writeName_err n size names e h he]; decide)

theorem noNpl_nsecBitmap (ts : List Nat) : NoNpl (nsecBitmap ts) := by
  unfold nsecBitmap
  have hfold : ∀ (l : List Nat) (acc : Except PyExc (List Nat × Nat)), NoNpl acc → NoNpl (l.foldl nsecStep acc) := by
    intro l
    induction l with
    | nil => intro acc h; exact h
    | cons t r ih =>
      intro acc h
      simp only [List.foldl_cons]
      apply ih
      unfold nsecStep
      apply NoNpl.bind h
      intro a _
      obtain ⟨bm, _⟩ := a
      dsimp only
      split
      · intro h'; cases h'
      · exact NoNpl.ok _
  have := hfold ts (.ok (List.replicate 32 0, 0)) (NoNpl.ok _)
  split
  · rename_i e he; intro h'; cases h'; exact this (by rw [he])
  · split <;> (intro h'; cases h')

/-- labels of the names inside a piece of rdata are short, and it is not an HINFO -/
def RDataLabels : ERData → Prop
  | .ptr t => ∀ x ∈ t, x.length ≤ 63
  | .srv _ _ _ t => ∀ x ∈ t, x.length ≤ 63
  | .nsec n _ => ∀ x ∈ n, x.length ≤ 63
  | .hinfo _ _ => False
  | _ => True

theorem noNpl_encRData (size : Nat) (names : Names) (rd : ERData) (h : RDataLabels rd) : NoNpl (encRData size names rd) := by
  cases rd with
  | addr a => exact NoNpl.ok _
  | txt t => exact NoNpl.ok _
  | hinfo c o => exact absurd h id
  | ptr t => exact noNpl_writeName t size names h
  | srv p w q t =>
    unfold encRData
    refine NoNpl.bind (noNpl_shortOf p) (fun _ _ => NoNpl.bind (noNpl_shortOf w) (fun _ _ => NoNpl.bind (noNpl_shortOf q) (fun _ _ => ?_)))
    refine NoNpl.bind (noNpl_writeName t _ names h) (fun a _ => ?_)
    obtain ⟨nb, n'⟩ := a
    exact NoNpl.ok _
  | nsec n ts =>
    unfold encRData
    refine NoNpl.bind (noNpl_nsecBitmap ts) (fun _ _ => NoNpl.bind (noNpl_writeName n size names h) (fun a _ => ?_))
    obtain ⟨nb, n'⟩ := a
    exact NoNpl.bind (noNpl_byteOf 0) (fun _ _ => NoNpl.bind (noNpl_byteOf _) (fun _ _ => NoNpl.ok _))

def RecLabels (r : ERecord) : Prop := (∀ x ∈ r.name, x.length ≤ 63) ∧ RDataLabels r.rdata

theorem noNpl_encRecord (mc : Bool) (size : Nat) (names : Names) (r : ERecord) (now : Ms) (h : RecLabels r) :
    NoNpl (encRecord mc size names r now) := by
  unfold encRecord
  refine NoNpl.bind (noNpl_writeName r.name size names h.1) (fun a _ => ?_)
  obtain ⟨nb, names1⟩ := a
  refine NoNpl.bind (noNpl_shortOf _) (fun _ _ => NoNpl.bind (noNpl_shortOf _) (fun _ _ => ?_))
  dsimp only
  refine NoNpl.bind ?_ (fun _ _ => NoNpl.bind (noNpl_encRData _ names1 r.rdata h.2) (fun a _ => ?_))
  · split
    · intro h'; cases h'
    · exact noNpl_intOf _
  · obtain ⟨rd, names2⟩ := a
    exact NoNpl.bind (noNpl_shortOf _) (fun _ _ => NoNpl.ok _)

theorem noNpl_encQuestion (mc : Bool) (size : Nat) (names : Names) (q : EQuestion) (h : ∀ x ∈ q.name, x.length ≤ 63) :
    NoNpl (encQuestion mc size names q) := by
  unfold encQuestion
  refine NoNpl.bind (noNpl_writeName q.name size names h) (fun a _ => ?_)
  obtain ⟨nb, n'⟩ := a
  exact NoNpl.bind (noNpl_shortOf _) (fun _ _ => NoNpl.bind (noNpl_shortOf _) (fun _ _ => NoNpl.ok _))

theorem noNpl_writeQuestions (mc : Bool) : ∀ (qs : List EQuestion) (st : St), (∀ q ∈ qs, ∀ x ∈ q.name, x.length ≤ 63) →
    NoNpl (writeQuestions mc st qs) := by
  intro qs
  induction qs with
  | nil => intro st _; exact NoNpl.ok _
  | cons q rest ih =>
    intro st h
    unfold writeQuestions
    refine NoNpl.bind ?_ (fun a _ => ?_)
    · unfold writeQuestion
      refine NoNpl.bind (noNpl_encQuestion mc _ _ q (h q List.mem_cons_self)) (fun a _ => ?_)
      obtain ⟨b, n'⟩ := a
      exact NoNpl.ok _
    · obtain ⟨st1, ok⟩ := a
      dsimp only
      split
      · refine NoNpl.bind (ih st1 (fun q' hq' => h q' (List.mem_cons_of_mem _ hq'))) (fun a _ => ?_)
        obtain ⟨st2, n⟩ := a
        exact NoNpl.ok _
      · exact NoNpl.ok _

theorem noNpl_writeAnswers (mc : Bool) : ∀ (rs : List (ERecord × Ms)) (st : St), (∀ x ∈ rs, RecLabels x.1) →
    NoNpl (writeAnswers mc st rs) := by
  intro rs
  induction rs with
  | nil => intro st _; exact NoNpl.ok _
  | cons x rest ih =>
    intro st h
    obtain ⟨r, now⟩ := x
    unfold writeAnswers
    refine NoNpl.bind ?_ (fun a _ => ?_)
    · unfold writeRecord
      refine NoNpl.bind (noNpl_encRecord mc _ _ r now (h (r, now) List.mem_cons_self)) (fun a _ => ?_)
      obtain ⟨b, n'⟩ := a
      exact NoNpl.ok _
    · obtain ⟨st1, ok⟩ := a
      dsimp only
      split
      · refine NoNpl.bind (ih st1 (fun y hy => h y (List.mem_cons_of_mem _ hy))) (fun a _ => ?_)
        obtain ⟨st2, n⟩ := a
        exact NoNpl.ok _
      · exact NoNpl.ok _

theorem noNpl_writeRecords (mc : Bool) (rs : List ERecord) (st : St) (h : ∀ r ∈ rs, RecLabels r) : NoNpl (writeRecords mc st rs) := by
  unfold writeRecords
  apply noNpl_writeAnswers
  intro x hx
  obtain ⟨r, hr, rfl⟩ := List.mem_map.mp hx
  exact h r hr

/-- every label of the message is at most 63 bytes long and it carries no HINFO record -/
structure MsgLabels (m : Msg) : Prop where
  questions : ∀ q ∈ m.questions, ∀ x ∈ q.name, x.length ≤ 63
  answers : ∀ x ∈ m.answers, RecLabels x.1
  authorities : ∀ r ∈ m.authorities, RecLabels r
  additionals : ∀ r ∈ m.additionals, RecLabels r

theorem noNpl_onePacket (m : Msg) (hm : MsgLabels m) (o : Offsets) : NoNpl (onePacket m o) := by
  unfold onePacket
  refine NoNpl.bind (noNpl_writeQuestions _ _ _ (fun q hq => hm.questions q (List.mem_of_mem_drop hq))) (fun a _ => ?_)
  obtain ⟨s1, qw⟩ := a
  refine NoNpl.bind (noNpl_writeAnswers _ _ _ (fun x hx => hm.answers x (List.mem_of_mem_drop hx))) (fun a _ => ?_)
  obtain ⟨s2, aw⟩ := a
  refine NoNpl.bind (noNpl_writeRecords _ _ _ (fun r hr => hm.authorities r (List.mem_of_mem_drop hr))) (fun a _ => ?_)
  obtain ⟨s3, auw⟩ := a
  refine NoNpl.bind (noNpl_writeRecords _ _ _ (fun r hr => hm.additionals r (List.mem_of_mem_drop hr))) (fun a _ => ?_)
  obtain ⟨s4, adw⟩ := a
  dsimp only
  split
  · exact NoNpl.ok _
  · intro h; cases h

/-- **`packets()` never raises `NamePartTooLongException` on a message with short labels and no HINFO** -/
theorem noNpl_packets (m : Msg) (hm : MsgLabels m) : NoNpl (packets m) := by
  unfold packets
  generalize m.questions.length + m.answers.length + m.authorities.length + m.additionals.length + 1 = fuel
  generalize (⟨0, 0, 0, 0⟩ : Offsets) = o
  induction fuel generalizing o with
  | zero => exact NoNpl.ok _
  | succ fuel ih =>
    unfold packetsLoop
    refine NoNpl.bind (noNpl_onePacket m hm o) (fun a _ => ?_)
    obtain ⟨pkt, o', progress, more⟩ := a
    dsimp only
    split
    · exact NoNpl.ok _
    · split
      · exact NoNpl.bind (ih o') (fun _ _ => NoNpl.ok _)
      · exact NoNpl.ok _

end Zc.Survive
