import Zc.Model.Responder
import Zc.Model.RespSpec
import Zc.GenFacts.Responder
import Zc.Proofs.Registry
import Zc.Props.C20
/-! Lemmas for C03: the record builders are the specification's records, memo freshness, known-answer
suppression, and the `dict` algebra of the answer maps. -/
namespace Zc
open Zc.GenFacts.Responder

/-! ### the builders construct the specification's records -/

theorem Svc.clsShared_eq : Svc.clsShared = (1, false) := by
  unfold Svc.clsShared; rw [class_shared.1, class_shared.2]
theorem Svc.clsUnique_eq : Svc.clsUnique = (1, true) := by
  unfold Svc.clsUnique; rw [class_unique.1, class_unique.2]

theorem Svc.buildPtr_eq (s : Svc) : s.buildPtr = RespSpec.ptrOf s := by
  simp [Svc.buildPtr, RespSpec.ptrOf, Svc.clsShared_eq, typePtr_eq]
theorem Svc.buildSrv_eq (s : Svc) : s.buildSrv = RespSpec.srvOf s := by
  simp [Svc.buildSrv, RespSpec.srvOf, Svc.clsUnique_eq, typeSrv_eq]
theorem Svc.buildTxt_eq (s : Svc) : s.buildTxt = RespSpec.txtOf s := by
  simp [Svc.buildTxt, RespSpec.txtOf, Svc.clsUnique_eq, typeTxt_eq]
def Svc.addrRec (s : Svc) (v : Nat) (packed : Bytes) : Rec :=
  ⟨s.server, Gen.Responder.addr_type_of_version v, (Svc.clsUnique).1, (Svc.clsUnique).2, s.hostTtl, 0, RData.addr packed none⟩
theorem Svc.buildAddr_fun (s : Svc) (v : Nat) : s.buildAddr v = fun packed => s.addrRec v packed := rfl
theorem Svc.buildAddrs_eq (s : Svc) : s.buildAddrs = RespSpec.addrsOf s := by
  simp [Svc.buildAddrs, Svc.buildAddr_fun, Svc.addrRec, RespSpec.addrsOf, Svc.clsUnique_eq, addr_type_v4, addr_type_v6]
theorem enumPtr_eq (ettl : Nat) (t : String) : enumPtr ettl t = RespSpec.enumPtr ettl t := by
  simp [enumPtr, RespSpec.enumPtr, Svc.clsShared_eq, typePtr_eq, enumName_eq, RespSpec.enumName]

theorem RespSpec.addrsOf_type (s : Svc) (a : Rec) (h : a ∈ RespSpec.addrsOf s) :
    (a.type = 1 ∧ s.v4 ≠ []) ∨ (a.type = 28 ∧ s.v6 ≠ []) := by
  simp only [RespSpec.addrsOf, List.mem_append, List.mem_map] at h
  rcases h with ⟨x, hx, rfl⟩ | ⟨x, hx, rfl⟩
  · left; exact ⟨rfl, List.ne_nil_of_mem hx⟩
  · right; exact ⟨rfl, List.ne_nil_of_mem hx⟩

theorem Svc.missingTypes_eq (s : Svc) : Svc.missingTypes (RespSpec.addrsOf s) = RespSpec.missing s := by
  unfold Svc.missingTypes RespSpec.missing
  rw [addressRecordTypes_eq]
  have h1 : (RespSpec.addrsOf s).any (fun a => a.type == 1) = !s.v4.isEmpty := by
    cases h4 : s.v4 <;> simp [RespSpec.addrsOf, h4, List.any_map, Function.comp_def]
  have h2 : (RespSpec.addrsOf s).any (fun a => a.type == 28) = !s.v6.isEmpty := by
    cases h6 : s.v6 <;> simp [RespSpec.addrsOf, h6, List.any_map, Function.comp_def]
  simp only [List.filter, h1, h2]
  cases h4 : s.v4 <;> cases h6 : s.v6 <;> simp

theorem Svc.buildNsec_eq (s : Svc) (h : RespSpec.missing s ≠ []) :
    RespSpec.nsecOf s = [s.buildNsec (RespSpec.missing s)] := by
  have : (RespSpec.missing s).isEmpty = false := by simpa using h
  simp [RespSpec.nsecOf, Svc.buildNsec, this, Svc.clsUnique_eq, typeNsec_eq]

/-! ### memo freshness -/

section
variable (lower : String → String)

/-- what `_get_address_and_nsec_records` builds from the fields alone -/
def Svc.freshAN (s : Svc) : List Rec := (s.clearMemo).buildAN lower

/-- every filled memo slot holds what the builder would construct from today's fields -/
structure MemoOk (s : Svc) : Prop where
  ptr : s.ptrMemo = none ∨ s.ptrMemo = some s.buildPtr
  srv : s.srvMemo = none ∨ s.srvMemo = some s.buildSrv
  txt : s.txtMemo = none ∨ s.txtMemo = some s.buildTxt
  addr : s.addrMemo = none ∨ s.addrMemo = some s.buildAddrs
  an : s.anMemo = none ∨ s.anMemo = some (s.freshAN lower)

theorem MemoOk.clear (s : Svc) : MemoOk lower s.clearMemo :=
  ⟨Or.inl rfl, Or.inl rfl, Or.inl rfl, Or.inl rfl, Or.inl rfl⟩

variable {lower}

theorem MemoOk.ptr_eq {s : Svc} (h : MemoOk lower s) : s.ptr = s.buildPtr := by
  unfold Svc.ptr; rcases h.ptr with e | e <;> simp [e]
theorem MemoOk.srv_eq {s : Svc} (h : MemoOk lower s) : s.srv = s.buildSrv := by
  unfold Svc.srv; rcases h.srv with e | e <;> simp [e]
theorem MemoOk.txt_eq {s : Svc} (h : MemoOk lower s) : s.txt = s.buildTxt := by
  unfold Svc.txt; rcases h.txt with e | e <;> simp [e]
theorem MemoOk.addrs_eq {s : Svc} (h : MemoOk lower s) : s.addrs = s.buildAddrs := by
  unfold Svc.addrs; rcases h.addr with e | e <;> simp [e]

theorem Svc.freshAN_eq (s : Svc) :
    s.freshAN lower = (let base := recSet lower s.buildAddrs
                       let missing := Svc.missingTypes s.buildAddrs
                       if missing.isEmpty then base else recInsert lower base (s.buildNsec missing)) := rfl

theorem MemoOk.buildAN_eq {s : Svc} (h : MemoOk lower s) : s.buildAN lower = s.freshAN lower := by
  rw [Svc.freshAN_eq]; unfold Svc.buildAN; rw [h.addrs_eq]

theorem MemoOk.an_eq {s : Svc} (h : MemoOk lower s) : s.an lower = s.freshAN lower := by
  unfold Svc.an; rcases h.an with e | e <;> simp [e, h.buildAN_eq]

theorem MemoOk.warmPtr {s : Svc} (h : MemoOk lower s) : MemoOk lower s.warmPtr :=
  ⟨Or.inr (by simp [Svc.warmPtr, h.ptr_eq, Svc.buildPtr]), h.srv, h.txt, h.addr, h.an⟩
theorem MemoOk.warmSrv {s : Svc} (h : MemoOk lower s) : MemoOk lower s.warmSrv :=
  ⟨h.ptr, Or.inr (by simp [Svc.warmSrv, h.srv_eq, Svc.buildSrv]), h.txt, h.addr, h.an⟩
theorem MemoOk.warmTxt {s : Svc} (h : MemoOk lower s) : MemoOk lower s.warmTxt :=
  ⟨h.ptr, h.srv, Or.inr (by simp [Svc.warmTxt, h.txt_eq, Svc.buildTxt]), h.addr, h.an⟩
theorem MemoOk.warmAddrs {s : Svc} (h : MemoOk lower s) : MemoOk lower s.warmAddrs :=
  ⟨h.ptr, h.srv, h.txt, Or.inr (by simp [Svc.warmAddrs, h.addrs_eq, Svc.buildAddrs, Svc.buildAddr_fun, Svc.addrRec]), h.an⟩
theorem MemoOk.warmAN {s : Svc} (h : MemoOk lower s) : MemoOk lower (s.warmAN lower) := by
  unfold Svc.warmAN
  by_cases e : s.anMemo.isSome
  · simp [e, h]
  · simp only [e]
    exact ⟨h.ptr, h.srv, h.txt, Or.inr (by simp [h.addrs_eq, Svc.buildAddrs, Svc.buildAddr_fun, Svc.addrRec]),
           Or.inr (by simp [h.buildAN_eq, Svc.freshAN, Svc.clearMemo])⟩

/-- reading is invariant under filling: the answers of one query do not depend on which earlier question of
the same query already filled a memo -/
theorem Svc.read_warm (s : Svc) :
    s.warmPtr.ptr = s.ptr ∧ s.warmSrv.srv = s.srv ∧ s.warmTxt.txt = s.txt ∧ s.warmAddrs.addrs = s.addrs
    ∧ (s.warmAN lower).an lower = s.an lower ∧ (s.warmAN lower).addrs = s.addrs ∧ s.warmAddrs.an lower = s.an lower := by
  refine ⟨by simp [Svc.warmPtr, Svc.ptr], by simp [Svc.warmSrv, Svc.srv], by simp [Svc.warmTxt, Svc.txt],
          by simp [Svc.warmAddrs, Svc.addrs], ?_, ?_, ?_⟩
  · unfold Svc.warmAN Svc.an
    cases e : s.anMemo <;> simp [e]
  · unfold Svc.warmAN
    cases e : s.anMemo <;> simp [Svc.addrs, e]
  · unfold Svc.an Svc.buildAN
    simp [Svc.warmAddrs, Svc.addrs, Svc.buildNsec]

end

/-! ### sets of records -/
section
variable (lower : String → String)

theorem mem_recInsert {l : List Rec} {r x : Rec} (h : x ∈ recInsert lower l r) : x ∈ l ∨ x = r := by
  unfold recInsert at h
  by_cases e : l.any (fun o => o.beq lower r)
  · simp [e] at h; exact Or.inl h
  · simp [e] at h; exact h

theorem mem_recSet_aux (l acc : List Rec) (x : Rec) (h : x ∈ l.foldl (recInsert lower) acc) : x ∈ acc ∨ x ∈ l := by
  induction l generalizing acc with
  | nil => exact Or.inl h
  | cons a r ih =>
    rcases ih _ h with h1 | h1
    · rcases mem_recInsert lower h1 with h2 | h2
      · exact Or.inl h2
      · exact Or.inr (by simp [h2])
    · exact Or.inr (by simp [h1])

theorem mem_recSet {l : List Rec} {x : Rec} (h : x ∈ recSet lower l) : x ∈ l := by
  rcases mem_recSet_aux lower l [] x h with h1 | h1
  · simp at h1
  · exact h1

/-! ### identity is an equivalence (C20) -/
theorem beq_refl (a : Rec) : a.beq lower a = true := (C20_equivalence lower).1 a
theorem beq_symm {a b : Rec} (h : a.beq lower b = true) : b.beq lower a = true := (C20_equivalence lower).2.1 a b h
theorem beq_trans {a b c : Rec} (h1 : a.beq lower b = true) (h2 : b.beq lower c = true) : a.beq lower c = true :=
  (C20_equivalence lower).2.2 a b c h1 h2

/-! ### known-answer suppression -/

/-- the implementation suppresses only on the evidence of a listing above half the TTL … -/
theorem suppresses_supAny {known : List Rec} {r : Rec} (h : suppresses lower known r = true) :
    RespSpec.supAny lower known r = true := by
  unfold suppresses at h
  cases hf : known.reverse.find? (fun o => o.beq lower r) with
  | none => simp [hf] at h
  | some o =>
    simp only [hf] at h
    have hm : o ∈ known := by simpa using List.mem_of_find?_eq_some hf
    have hp := List.find?_some hf
    have := (suppresses_ttl_iff r.ttl o.ttl).mp h
    unfold RespSpec.supAny
    rw [List.any_eq_true]
    exact ⟨o, hm, by simp [hp, this]⟩

/-- … and always when every listing is above half -/
theorem supAll_suppresses {known : List Rec} {r : Rec} (h : RespSpec.supAll lower known r = true) :
    suppresses lower known r = true := by
  unfold RespSpec.supAll at h
  rw [Bool.and_eq_true, List.any_eq_true, List.all_eq_true] at h
  obtain ⟨⟨k, hk, hkb⟩, hall⟩ := h
  unfold suppresses
  cases hf : known.reverse.find? (fun o => o.beq lower r) with
  | none =>
    have := List.find?_eq_none.mp hf k (by simpa using hk)
    simp [hkb] at this
  | some o =>
    have hm : o ∈ known := by simpa using List.mem_of_find?_eq_some hf
    have hp := List.find?_some hf
    have h2 := hall o hm
    simp only [hp, Bool.not_true, Bool.false_or, decide_eq_true_eq] at h2
    exact (suppresses_ttl_iff r.ttl o.ttl).mpr h2

/-! ### the `dict` algebra of answer maps -/

def keysOf (d : DictRS) : List Rec := d.map (·.1)

theorem dictSet_mem {d : DictRS} {k : Rec} {v : List Rec} {p : Rec × List Rec} (h : p ∈ dictSet lower d k v) :
    p ∈ d ∨ (p.2 = v ∧ (p.1 = k ∨ (p.1 ∈ keysOf d ∧ p.1.beq lower k = true))) := by
  induction d with
  | nil => simp [dictSet] at h; right; simp [h]
  | cons q r ih =>
    obtain ⟨a, b⟩ := q
    cases e : a.beq lower k with
    | true =>
      simp only [dictSet, e, ↓reduceIte, List.mem_cons] at h
      rcases h with h | h
      · right; subst h; exact ⟨rfl, Or.inr ⟨by simp [keysOf], e⟩⟩
      · left; simp [h]
    | false =>
      simp only [dictSet, e, Bool.false_eq_true, ↓reduceIte, List.mem_cons] at h
      rcases h with h | h
      · left; simp [h]
      · rcases ih h with h1 | ⟨h1, h2⟩
        · left; simp [h1]
        · right; refine ⟨h1, ?_⟩
          rcases h2 with h2 | ⟨h2, h3⟩
          · exact Or.inl h2
          · exact Or.inr ⟨by simp only [keysOf, List.map_cons, List.mem_cons] at h2 ⊢; exact Or.inr h2, h3⟩

theorem dictSet_keys_mono {d : DictRS} {k : Rec} {v : List Rec} {a : Rec} (h : a ∈ keysOf d) :
    a ∈ keysOf (dictSet lower d k v) := by
  induction d with
  | nil => simp [keysOf] at h
  | cons q r ih =>
    obtain ⟨x, y⟩ := q
    cases e : x.beq lower k with
    | true => simpa [dictSet, e, keysOf] using h
    | false =>
      simp only [keysOf, List.map_cons, List.mem_cons] at h
      simp only [dictSet, e, Bool.false_eq_true, ↓reduceIte, keysOf, List.map_cons, List.mem_cons]
      rcases h with h | h
      · exact Or.inl h
      · exact Or.inr (ih (by simpa [keysOf] using h))

theorem dictSet_has (d : DictRS) (k : Rec) (v : List Rec) :
    ∃ a ∈ keysOf (dictSet lower d k v), a.beq lower k = true := by
  induction d with
  | nil => exact ⟨k, by simp [dictSet, keysOf], beq_refl lower k⟩
  | cons q r ih =>
    obtain ⟨x, y⟩ := q
    cases e : x.beq lower k with
    | true => exact ⟨x, by simp [dictSet, e, keysOf], e⟩
    | false =>
      obtain ⟨a, ha, hb⟩ := ih
      refine ⟨a, ?_, hb⟩
      simp only [dictSet, e, Bool.false_eq_true, ↓reduceIte, keysOf, List.map_cons, List.mem_cons]
      exact Or.inr ha

/-- a predicate on entries that only looks at the key's identity -/
def KeyCongr (Q : Rec × List Rec → Prop) : Prop := ∀ a a' v, a'.beq lower a = true → Q (a, v) → Q (a', v)

theorem dictUpdate_spec (Q : Rec × List Rec → Prop) (hQ : KeyCongr lower Q) (e d : DictRS)
    (hd : ∀ p ∈ d, Q p) (he : ∀ p ∈ e, Q p) : ∀ p ∈ dictUpdate lower d e, Q p := by
  induction e generalizing d with
  | nil => simpa [dictUpdate] using hd
  | cons q r ih =>
    simp only [dictUpdate, List.foldl_cons]
    apply ih
    · intro p hp
      rcases dictSet_mem lower hp with h | ⟨h1, h2 | ⟨_, h3⟩⟩
      · exact hd p h
      · have := he q (by simp)
        have e2 : p = q := Prod.ext h2 h1
        rw [e2]; exact this
      · have := he q (by simp)
        have e2 : p = (p.1, q.2) := Prod.ext rfl h1
        rw [e2]; exact hQ q.1 p.1 q.2 h3 this
    · intro p hp; exact he p (by simp [hp])

theorem dictUpdate_keys {e d : DictRS} {a : Rec} (h : a ∈ keysOf (dictUpdate lower d e)) : a ∈ keysOf d ∨ a ∈ keysOf e := by
  induction e generalizing d with
  | nil => left; simpa [dictUpdate] using h
  | cons q r ih =>
    simp only [dictUpdate, List.foldl_cons] at h
    rcases ih h with h1 | h1
    · simp only [keysOf, List.mem_map] at h1
      obtain ⟨p, hp, rfl⟩ := h1
      rcases dictSet_mem lower hp with h2 | ⟨_, h2 | ⟨h2, _⟩⟩
      · left; exact List.mem_map.mpr ⟨p, h2, rfl⟩
      · right; simp [keysOf, h2]
      · left; exact h2
    · right; simp only [keysOf, List.map_cons, List.mem_cons] at h1 ⊢; exact Or.inr h1

theorem dictUpdate_keys_mono {e d : DictRS} {a : Rec} (h : a ∈ keysOf d) : a ∈ keysOf (dictUpdate lower d e) := by
  induction e generalizing d with
  | nil => simpa [dictUpdate] using h
  | cons q r ih =>
    simp only [dictUpdate, List.foldl_cons]
    exact ih (dictSet_keys_mono lower h)

/-- having a key of a given identity -/
def hasId (d : DictRS) (r : Rec) : Prop := ∃ a ∈ keysOf d, a.beq lower r = true

theorem dictUpdate_has {e d : DictRS} {p : Rec × List Rec} (h : p ∈ e) : hasId lower (dictUpdate lower d e) p.1 := by
  induction e generalizing d with
  | nil => simp at h
  | cons q r ih =>
    simp only [dictUpdate, List.foldl_cons]
    rcases List.mem_cons.mp h with h1 | h1
    · subst h1
      obtain ⟨a, ha, hb⟩ := dictSet_has lower d p.1 p.2
      exact ⟨a, dictUpdate_keys_mono lower ha, hb⟩
    · exact ih h1

theorem dictUpdate_has_mono {e d : DictRS} {r : Rec} (h : hasId lower d r) : hasId lower (dictUpdate lower d e) r := by
  obtain ⟨a, ha, hb⟩ := h
  exact ⟨a, dictUpdate_keys_mono lower ha, hb⟩

/-! `mergeAll` -/

theorem foldl_dictUpdate_spec (Q : Rec × List Rec → Prop) (hQ : KeyCongr lower Q) (ds : List DictRS) (init : DictRS)
    (hi : ∀ p ∈ init, Q p) (hd : ∀ e ∈ ds, ∀ p ∈ e, Q p) : ∀ p ∈ ds.foldl (dictUpdate lower) init, Q p := by
  induction ds generalizing init with
  | nil => simpa using hi
  | cons e r ih =>
    simp only [List.foldl_cons]
    apply ih
    · exact dictUpdate_spec lower Q hQ e init hi (hd e (by simp))
    · intro e' he'; exact hd e' (by simp [he'])

theorem mergeAll_spec (Q : Rec × List Rec → Prop) (hQ : KeyCongr lower Q) (ds : List DictRS)
    (hd : ∀ e ∈ ds, ∀ p ∈ e, Q p) : ∀ p ∈ mergeAll lower ds, Q p :=
  foldl_dictUpdate_spec lower Q hQ ds [] (by simp) hd

theorem foldl_dictUpdate_keys (ds : List DictRS) (init : DictRS) (a : Rec)
    (h : a ∈ keysOf (ds.foldl (dictUpdate lower) init)) : a ∈ keysOf init ∨ ∃ e ∈ ds, a ∈ keysOf e := by
  induction ds generalizing init with
  | nil => left; simpa using h
  | cons e r ih =>
    simp only [List.foldl_cons] at h
    rcases ih _ h with h1 | ⟨e', he', h1⟩
    · rcases dictUpdate_keys lower h1 with h2 | h2
      · exact Or.inl h2
      · exact Or.inr ⟨e, by simp, h2⟩
    · exact Or.inr ⟨e', by simp [he'], h1⟩

theorem mergeAll_keys {ds : List DictRS} {a : Rec} (h : a ∈ keysOf (mergeAll lower ds)) : ∃ e ∈ ds, a ∈ keysOf e := by
  rcases foldl_dictUpdate_keys lower ds [] a h with h1 | h1
  · simp [keysOf] at h1
  · exact h1

theorem foldl_dictUpdate_has_mono (ds : List DictRS) (init : DictRS) (r : Rec) (h : hasId lower init r) :
    hasId lower (ds.foldl (dictUpdate lower) init) r := by
  induction ds generalizing init with
  | nil => simpa using h
  | cons e r' ih => simp only [List.foldl_cons]; exact ih _ (dictUpdate_has_mono lower h)

theorem mergeAll_has {ds : List DictRS} {e : DictRS} {p : Rec × List Rec} (he : e ∈ ds) (hp : p ∈ e) :
    hasId lower (mergeAll lower ds) p.1 := by
  unfold mergeAll
  generalize ([] : DictRS) = init
  induction ds generalizing init with
  | nil => simp at he
  | cons e' r ih =>
    simp only [List.foldl_cons]
    rcases List.mem_cons.mp he with h1 | h1
    · subst h1; exact foldl_dictUpdate_has_mono lower r _ p.1 (dictUpdate_has lower hp)
    · exact ih h1 _

/-- identity-level membership passes through a further merge -/
theorem mergeAll_hasId {ds : List DictRS} {e : DictRS} {r : Rec} (he : e ∈ ds) (hr : hasId lower e r) :
    hasId lower (mergeAll lower ds) r := by
  obtain ⟨a, ha, hb⟩ := hr
  simp only [keysOf, List.mem_map] at ha
  obtain ⟨p, hp, rfl⟩ := ha
  obtain ⟨a', ha', hb'⟩ := mergeAll_has lower he hp
  exact ⟨a', ha', beq_trans lower hb' hb⟩

end
end Zc
