import Zc.Proofs.SurviveDecode
/-! Numeric fields of decoded records are in the ranges the encoder accepts (C15, timer blocks that
build packets from cache content): the type is a 16-bit number, the TTL a 32-bit number, SRV
priority / weight / port 16-bit numbers, and every byte string sliced out of the datagram (address,
TXT, HINFO strings) is at most as long as the datagram. -/
namespace Zc.Survive
open Zc Zc.Wire Zc.Wire.DecodeLib

/-- the numeric fields of one decoded record, `n` = length of the datagram -/
def WRecOK (n : Nat) (w : WRecord) : Prop :=
  w.rtype < 65536 ∧ w.ttl < 4294967296 ∧
    ((∀ c o, w.rdata = .hinfo c o → w.rtype = 13) ∧ (∀ nn ts, w.rdata = .nsec nn ts → w.rtype = 47)) ∧
    match w.rdata with
    | .addr a => a.length ≤ n
    | .txt t => t.length ≤ n
    | .srv p wt q _ => p < 65536 ∧ wt < 65536 ∧ q < 65536
    | .hinfo c o => c.length ≤ n ∧ o.length ≤ n
    | _ => True

theorem byteAt_lt2 {buf : Bytes} {i v : Nat} (h : byteAt buf i = .ok v) : v < 256 := by
  unfold byteAt at h
  split at h
  · rename_i b _
    simp at h; subst h
    exact b.toNat_lt
  · simp at h

theorem two_ok2 {buf : Bytes} {i j : Nat} {f : Nat → Nat → Nat} {v : Nat} (h : two buf i j f = .ok v) :
    ∃ a b, a < 256 ∧ b < 256 ∧ v = f a b := by
  unfold two at h
  cases ha : byteAt buf i with
  | error e => rw [ha] at h; simp [bind, Except.bind] at h
  | ok a =>
    cases hb : byteAt buf j with
    | error e => rw [ha, hb] at h; simp [bind, Except.bind] at h
    | ok b =>
      rw [ha, hb] at h
      simp [bind, Except.bind, pure, Except.pure] at h
      exact ⟨a, b, byteAt_lt2 ha, byteAt_lt2 hb, h.symm⟩

theorem slice_le_buf (buf : Bytes) (a b : Nat) : (slice buf a b).length ≤ buf.length := by
  unfold slice
  simp only [List.length_take, List.length_drop]
  omega

theorem bind_ok {α β : Type} {x : Except PyExc α} {f : α → Except PyExc β} {b : β}
    (h : (x >>= f) = .ok b) : ∃ a, x = .ok a ∧ f a = .ok b := by
  cases x with
  | error e => simp [bind, Except.bind] at h
  | ok a => exact ⟨a, rfl, by simpa [bind, Except.bind] using h⟩

theorem readFixed_bounds {buf : Bytes} {o t c ttl len : Nat} (h : readFixed buf o = .ok (t, c, ttl, len)) :
    t < 65536 ∧ ttl < 4294967296 := by
  unfold readFixed at h
  obtain ⟨t', ht, h⟩ := bind_ok h
  obtain ⟨c', _, h⟩ := bind_ok h
  obtain ⟨b4, h4, h⟩ := bind_ok h
  obtain ⟨b5, h5, h⟩ := bind_ok h
  obtain ⟨b6, h6, h⟩ := bind_ok h
  obtain ⟨b7, h7, h⟩ := bind_ok h
  obtain ⟨l', _, h⟩ := bind_ok h
  simp only [pure, Except.pure, Except.ok.injEq, Prod.mk.injEq] at h
  obtain ⟨rfl, _, rfl, _⟩ := h
  obtain ⟨a, b, ha, hb, rfl⟩ := two_ok2 ht
  have := byteAt_lt2 h4; have := byteAt_lt2 h5; have := byteAt_lt2 h6; have := byteAt_lt2 h7
  constructor
  · rw [GenFacts.Incoming.r_type_eq a b hb]; omega
  · rw [GenFacts.Incoming.r_ttl_eq b4 b5 b6 b7 (by assumption) (by assumption) (by assumption)]; omega

theorem readSrvFixed_bounds {buf : Bytes} {o p w q : Nat} (h : readSrvFixed buf o = .ok (p, w, q)) :
    p < 65536 ∧ w < 65536 ∧ q < 65536 := by
  unfold readSrvFixed at h
  obtain ⟨p', hp, h⟩ := bind_ok h
  obtain ⟨w', hw, h⟩ := bind_ok h
  obtain ⟨q', hq, h⟩ := bind_ok h
  simp only [pure, Except.pure, Except.ok.injEq, Prod.mk.injEq] at h
  obtain ⟨rfl, rfl, rfl⟩ := h
  obtain ⟨a1, b1, _, hb1, rfl⟩ := two_ok2 hp
  obtain ⟨a2, b2, _, hb2, rfl⟩ := two_ok2 hw
  obtain ⟨a3, b3, _, hb3, rfl⟩ := two_ok2 hq
  rw [GenFacts.Incoming.srv_priority_eq a1 b1 hb1, GenFacts.Incoming.srv_weight_eq a2 b2 hb2, GenFacts.Incoming.srv_port_eq a3 b3 hb3]
  omega

/-- the rdata-dependent part of `WRecOK` -/
def RDataOK' (n : Nat) : WRData → Prop
  | .addr a => a.length ≤ n
  | .txt t => t.length ≤ n
  | .srv p wt q _ => p < 65536 ∧ wt < 65536 ∧ q < 65536
  | .hinfo c o => c.length ≤ n ∧ o.length ≤ n
  | _ => True

theorem readCStr_len {buf : Bytes} {st st' : St} {s : Bytes} (h : readCStr buf st = (st', .ok s)) : s.length ≤ buf.length := by
  unfold readCStr at h
  split at h
  · cases h
  · simp only [Prod.mk.injEq, Except.ok.injEq] at h
    rw [← h.2]
    exact slice_le_buf _ _ _

theorem readRData_fields (cfg : Cfg) (buf : Bytes) (t length : Nat) (st : St) :
    ∀ st' rd, readRData cfg buf t length st = (st', .ok (some rd)) → RDataOK' buf.length rd := by
  intro st' rd h
  unfold readRData at h
  split at h
  · simp only [Prod.mk.injEq, Except.ok.injEq, Option.some.injEq] at h
    rw [← h.2]
    exact slice_le_buf _ _ _
  split at h
  · split at h
    · cases h
    · simp only [Prod.mk.injEq, Except.ok.injEq, Option.some.injEq] at h
      rw [← h.2]; trivial
  split at h
  · simp only [Prod.mk.injEq, Except.ok.injEq, Option.some.injEq] at h
    rw [← h.2]
    exact slice_le_buf _ _ _
  split at h
  · dsimp only at h
    split at h
    · cases h
    · rename_i p w q hsrv
      split at h
      · cases h
      · simp only [Prod.mk.injEq, Except.ok.injEq, Option.some.injEq] at h
        rw [← h.2]
        exact readSrvFixed_bounds hsrv
  split at h
  · split at h
    · cases h
    · rename_i st1 cpu hc
      split at h
      · cases h
      · rename_i st2 os ho
        simp only [Prod.mk.injEq, Except.ok.injEq, Option.some.injEq] at h
        rw [← h.2]
        exact ⟨readCStr_len hc, readCStr_len ho⟩
  split at h
  · simp only [Prod.mk.injEq, Except.ok.injEq, Option.some.injEq] at h
    rw [← h.2]
    exact slice_le_buf _ _ _
  split at h
  · dsimp only at h
    split at h
    · cases h
    · split at h
      · cases h
      · simp only [Prod.mk.injEq, Except.ok.injEq, Option.some.injEq] at h
        rw [← h.2]; trivial
  · simp at h

/-- an HINFO object has type 13, an NSEC object type 47 (so records of the types the query builders ask the cache
for — PTR, SRV, TXT, A, AAAA — are neither) -/
def KindW (t : Nat) (rd : WRData) : Prop :=
  (∀ c o, rd = .hinfo c o → t = 13) ∧ (∀ n ts, rd = .nsec n ts → t = 47)

theorem readRData_kind (cfg : Cfg) (buf : Bytes) (t length : Nat) (st : St) :
    ∀ st' rd, readRData cfg buf t length st = (st', .ok (some rd)) → KindW t rd := by
  intro st' rd h
  have triv : ∀ {x : WRData}, (∀ c o, x ≠ .hinfo c o) → (∀ n ts, x ≠ .nsec n ts) → KindW t x :=
    fun h1 h2 => ⟨fun c o he => absurd he (h1 c o), fun n ts he => absurd he (h2 n ts)⟩
  unfold readRData at h
  by_cases h1 : Gen.Incoming.is_a t = true
  · rw [if_pos h1] at h
    simp only [Prod.mk.injEq, Except.ok.injEq, Option.some.injEq] at h
    rw [← h.2]; exact triv (by intro c o he; cases he) (by intro n ts he; cases he)
  rw [if_neg h1] at h
  by_cases h2 : Gen.Incoming.is_ptr t = true
  · rw [if_pos h2] at h
    split at h
    · cases h
    · simp only [Prod.mk.injEq, Except.ok.injEq, Option.some.injEq] at h
      rw [← h.2]; exact triv (by intro c o he; cases he) (by intro n ts he; cases he)
  rw [if_neg h2] at h
  by_cases h3 : Gen.Incoming.is_txt t = true
  · rw [if_pos h3] at h
    simp only [Prod.mk.injEq, Except.ok.injEq, Option.some.injEq] at h
    rw [← h.2]; exact triv (by intro c o he; cases he) (by intro n ts he; cases he)
  rw [if_neg h3] at h
  by_cases h4 : Gen.Incoming.is_srv t = true
  · rw [if_pos h4] at h
    dsimp only at h
    split at h
    · cases h
    · split at h
      · cases h
      · simp only [Prod.mk.injEq, Except.ok.injEq, Option.some.injEq] at h
        rw [← h.2]; exact triv (by intro c o he; cases he) (by intro n ts he; cases he)
  rw [if_neg h4] at h
  by_cases h5 : Gen.Incoming.is_hinfo t = true
  · rw [if_pos h5] at h
    split at h
    · cases h
    · split at h
      · cases h
      · simp only [Prod.mk.injEq, Except.ok.injEq, Option.some.injEq] at h
        rw [← h.2]
        exact ⟨(fun _ _ _ => (GenFacts.Incoming.is_hinfo_iff t).mp h5), (by intro n ts he; cases he)⟩
  rw [if_neg h5] at h
  by_cases h6 : Gen.Incoming.is_aaaa t = true
  · rw [if_pos h6] at h
    simp only [Prod.mk.injEq, Except.ok.injEq, Option.some.injEq] at h
    rw [← h.2]; exact triv (by intro c o he; cases he) (by intro n ts he; cases he)
  rw [if_neg h6] at h
  by_cases h7 : Gen.Incoming.is_nsec t = true
  · rw [if_pos h7] at h
    dsimp only at h
    split at h
    · cases h
    · split at h
      · cases h
      · simp only [Prod.mk.injEq, Except.ok.injEq, Option.some.injEq] at h
        rw [← h.2]
        exact ⟨(by intro c o he; cases he), (fun _ _ _ => (GenFacts.Incoming.is_nsec_iff t).mp h7)⟩
  rw [if_neg h7] at h
  simp at h

theorem readRecords_fields (cfg : Cfg) (buf : Bytes) : ∀ (n : Nat) (st : St),
    ∀ w ∈ (readRecords cfg buf n st).2.1, WRecOK buf.length w := by
  intro n
  induction n with
  | zero => intro st w hw; simp [readRecords] at hw
  | succ n ih =>
    intro st
    unfold readRecords
    generalize readName cfg buf st = r
    obtain ⟨st1, res⟩ := r
    cases res with
    | error e => intro w hw; simp at hw
    | ok domain =>
      dsimp only
      cases hq : readFixed buf st1.off with
      | error e => intro w hw; simp at hw
      | ok v =>
        obtain ⟨t, c, ttl, length⟩ := v
        dsimp only
        have hb := readFixed_bounds hq
        cases hrd : readRData cfg buf t length { st1 with off := st1.off + Gen.Incoming.r_len } with
        | mk st3 res =>
          cases res with
          | error e =>
            dsimp only
            split
            · exact ih _
            · intro w hw; simp at hw
          | ok rdo =>
            cases rdo with
            | none => exact ih _
            | some rd =>
              dsimp only
              intro w hw
              simp only [List.mem_cons] at hw
              rcases hw with rfl | hw
              · have hf := readRData_fields cfg buf t length _ st3 rd hrd
                have hkind := readRData_kind cfg buf t length _ st3 rd hrd
                refine ⟨hb.1, hb.2, hkind, ?_⟩
                cases rd <;> exact hf
              · exact ih _ w hw

theorem others_records (cfg : Cfg) (buf : Bytes) (h : Hdr) (qs : List WQuestion) (st : St) (v1 v2 v3 : Bool) :
    ∀ p, (others cfg buf h qs st v1 v2 v3).parsed? = some p → ∀ w ∈ p.records, WRecOK buf.length w := by
  unfold others readOthers
  dsimp only
  have hf := readRecords_fields cfg buf (Gen.Incoming.r_loop_count (Gen.Incoming.others_count h.nan h.nau h.nad)) st
  generalize readRecords cfg buf (Gen.Incoming.r_loop_count (Gen.Incoming.others_count h.nan h.nau h.nad)) st = r at hf
  obtain ⟨st', rs, e⟩ := r
  simp only at hf
  cases e with
  | none => dsimp only; intro p hp; simp [Run.parsed?] at hp; subst hp; exact hf
  | some e =>
    dsimp only
    split
    · intro p hp; simp [Run.parsed?] at hp; subst hp; exact hf
    · split
      · intro p hp; simp [Run.parsed?] at hp
      · intro p hp; simp [Run.parsed?] at hp; subst hp; exact hf

/-- **every record on the decoded object has encoder-range numeric fields** -/
theorem parseWith_records (cfg : Cfg) (buf : Bytes) : ∀ p, (parseWith cfg buf).parsed? = some p → ∀ w ∈ p.records, WRecOK buf.length w := by
  intro p hp
  unfold parseWith at hp
  dsimp only at hp
  repeat' split at hp
  all_goals first
    | (simp [Run.parsed?] at hp; done)
    | exact others_records _ _ _ _ _ _ _ _ p hp

end Zc.Survive
