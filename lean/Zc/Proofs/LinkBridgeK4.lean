import Zc.Proofs.LinkBridgeK4d
import Zc.Proofs.LinkBridgeK4f
import Zc.Proofs.History
/-! # K4 from C03 + C11 + C12

`K4_of_responders`: if every host's responder — as the link trace shows it — is the projection of an accepted history of the
C11/C12 reply model with the D5 purge (`Bridge.KRun`; acceptance is `LoopAx`) whose candidates are what C03's answer computation
yields on a state of C03's registry model, then the link trace satisfies K4's monitor.

What is *proved*: the listener's guards (a dropped duplicate was answered less than a second before: `KRun.dup_source`), C03's
completeness and additionals for a pointer question (`pointer_offered`, `strategy_ptrFull`), C11's routing (`query_routes`: every
unsuppressed answer is multicast, or unicast to the asker of a QU question), C12's windows with liveness (`KRun.fresh_answered`:
at once, by `t + 500`, by `t + 1200`), the D5 purge sparing registered services, and the link items of the datagram (`posFull`).

What `ResponderRun` *assumes* — the projection glue, each clause named:
`rx` (a processed delivery is a datagram block of the history, from the sender's address, of admissible size), `isQuery` / `query`
(a datagram with a pointer question parses as a query; its candidates are C03's on a registry state reached by a history without
pending attribute writes, all records interned in the table of record objects), `item` (the link item `query ty known qu` describes
the question, the QU flag and the known answers; the registry holds the services the link trace shows registered — the C03 registry
and the `reg` / `unreg` events are two views of one object), `outs` (every datagram of the history is a send of the link trace
carrying those records, none with TTL 0 — for the blocks inside the window), `purge` (the purge strikes only pointers of services unregistered at that instant),
`NoTC` (no truncated queries), `PurgeKeeps`, and `covers` (the history goes beyond the window: with `LoopAx` that is the liveness
of the queue timers). -/
namespace Zc.Bridge
open Zc Zc.Reply Zc.GenFacts.Responder

variable (lower : String → String)

/-- `s` is registered at `t` as far as the link trace knows: a `reg` at least 350 ms (the probing phase) before, no `unreg` since -/
def RegisteredAt (tr : Link.Trace) (s : Link.Svc) (t : Int) : Prop :=
  ∃ r ∈ Link.regs tr, r.2 = s ∧ r.1 + 350 ≤ t ∧ ∀ u ∈ Link.unregs tr, u.2 = s → ¬ (r.1 < u.1 ∧ u.1 ≤ t)

/-- among the ids: the SRV and the TXT record of the instance `al`, and an address record -/
def FullIds (tbl : List Rec) (al : String) (v : List RecId) : Prop :=
  (∃ i ∈ v, ∃ r, tbl[i]? = some r ∧ r.type = Gen.typeSrv ∧ lower r.name = lower al) ∧
  (∃ i ∈ v, ∃ r, tbl[i]? = some r ∧ r.type = Gen.typeTxt ∧ lower r.name = lower al) ∧
  (∃ i ∈ v, ∃ r, tbl[i]? = some r ∧ (r.type = Gen.typeA ∨ r.type = Gen.typeAaaa))

/-- C03's part of one query block: the registry the look-ups ran on is a state of C03's registry model reached by the history `ops`
with no pending attribute write; every registered service has an address; the candidates handed to the reply model are the
strategies' answers (`itemsOfQuestions`), known-answer suppression already applied; all their records are in the table -/
structure FromRegistry (ettl : Nat) (tbl : List Rec) (p : Pkt) (ops : List RegOp) (qs : List Question) (kn : List Rec) : Prop where
  clean : dirty lower ops = []
  addr : AllAddr (Registry.run lower ettl ops)
  items : itemsOfQuestions lower ettl tbl (Registry.run lower ettl ops) kn qs = .ok p.items
  known : p.known = []
  inTable : ∀ q ∈ qs, ∀ st ∈ pureStrategies lower (Registry.run lower ettl ops) q, ∀ e ∈ st.answer lower ettl kn,
    inTbl lower tbl e.1 = true ∧ ∀ x ∈ e.2, inTbl lower tbl x = true

/-- the link item `query ty known qu` of a datagram describes the packet the responder parsed: a PTR question for the type with
that QU bit; the parser's QU flag is set if the question is QU (`C11_has_qu`); every known answer that names a service of this host
is listed; and the registry holds the services the link trace shows registered -/
structure ItemOf (tr : Link.Trace) (N : Naming) (ettl : Nat) (t : Int) (hasQu : Bool) (ops : List RegOp) (qs : List Question)
    (kn : List Rec) (ty : Nat) (known : List Link.Svc) (qu : Bool) : Prop where
  quFlag : qu = true → hasQu = true
  question : ∃ q ∈ qs, q.type = 12 ∧ N.tyId (lower q.name) = ty ∧ q.unique = qu
  knownListed : ∀ o ∈ kn, ∀ alias, WfPtr o alias → N.tyId (lower o.name) = ty →
    ∀ s ∈ Link.svcsOf tr, s.owner = N.host → s.ty = ty → s.idx = N.svcId (lower alias) → s ∈ known
  registered : ∀ s ∈ Link.svcsOf tr, s.owner = N.host → s.ty = ty → RegisteredAt tr s t →
    ∃ z ∈ (Registry.run lower ettl ops).services, sigmaZ lower N z = s ∧ lower z.type ≠ RespSpec.enumName ∧
      lower z.type ≠ lower RespSpec.enumName

/-- host `N.host`'s responder, as the link trace `tr` shows it up to `endT`, is the projection of the accepted history `ks` (trace
`rt`) of the reply model with the D5 purge -/
structure ResponderRun (tr : Link.Trace) (endT : Int) (N : Naming) (ettl : Nat) (tbl : List Rec) (hostOf : Nat → Nat)
    (content : Nat → List Link.Item) (c0 : Int) (ks : List KEv) (h' : Host) (c' : Int) (rt : List (Host × KEv × StepOut)) : Prop where
  tyInj : Function.Injective N.tyId
  svInj : Function.Injective N.svcId
  run : KRun {} c0 ks h' c' rt
  covers : endT < c'
  noTC : NoTC ks
  purgeKeeps : PurgeKeeps rt
  rx : ∀ e ∈ Link.dlvs tr, e.h = N.host → ∃ x ∈ rt, ∃ addr port dataId size hasQu kind seen draws,
    x.2.1 = .blk (.rx e.t addr port dataId size hasQu kind seen draws) ∧ hostOf addr = e.src ∧ content dataId = e.items ∧
    Gen.Reply.l_oversize size = false
  isQuery : ∀ x ∈ rt, ∀ t addr port dataId size hasQu kind seen draws,
    x.2.1 = .blk (.rx t addr port dataId size hasQu kind seen draws) →
    ∀ ty known qu, Link.Item.query ty known qu ∈ content dataId → ∃ p, kind = .query p
  query : ∀ x ∈ rt, ∀ t addr port dataId size hasQu p seen draws,
    x.2.1 = .blk (.rx t addr port dataId size hasQu (.query p) seen draws) →
    ∃ ops qs kn, FromRegistry lower ettl tbl p ops qs kn ∧
      ∀ ty known qu, Link.Item.query ty known qu ∈ content dataId → ItemOf lower tr N ettl t hasQu ops qs kn ty known qu
  outs : ∀ x ∈ rt, x.2.1.time ≤ endT → ∀ o ∈ x.2.2.outs, ∃ sd ∈ Link.sends tr, ∃ pk : Register.Pkt,
    sd.h = N.host ∧ sd.t = x.2.1.time ∧ sd.dst = dstOfOut hostOf o ∧ sd.items = itemsOf lower N pk ∧ OutOfPkt lower tbl o pk ∧
    ∀ r ∈ pk.answers ++ pk.additionals, 0 < r.ttl ∧ inTbl lower tbl r = true
  purge : ∀ x ∈ rt, ∀ t W, x.2.1 = .purge t W → ∀ i ∈ W, ∀ r alias, tbl[i]? = some r → WfPtr r alias →
    ∃ u ∈ Link.unregs tr, u.2 = sigR lower N r alias ∧ u.1 = t

/-- every host's responder is such a projection -/
def Responders (tr : Link.Trace) (endT : Int) : Prop :=
  ∀ hid : Nat, ∃ (N : Naming) (ettl : Nat) (tbl : List Rec) (hostOf : Nat → Nat) (content : Nat → List Link.Item) (c0 : Int)
    (ks : List KEv) (h' : Host) (c' : Int) (rt : List (Host × KEv × StepOut)),
    N.host = hid ∧ ResponderRun lower tr endT N ettl tbl hostOf content c0 ks h' c' rt

/-! ### ids and records -/

theorem getElem?_of_idOf {tbl : List Rec} {r r0 : Rec} {i : Nat} (hin : inTbl lower tbl r = true) (hi : idOf lower tbl r = i)
    (h0 : tbl[i]? = some r0) : r0.beq lower r = true := by
  have h1 := idOf_lt lower hin
  have h2 := idOf_beq lower h1
  subst hi
  rw [List.getElem?_eq_getElem h1] at h0
  cases h0
  exact h2

theorem fullIds_of_fullRecs {tbl : List Rec} {al al0 : String} {v : List Rec} (h : FullRecs lower al v)
    (hin : ∀ x ∈ v, inTbl lower tbl x = true) (he : lower al = lower al0) : FullIds lower tbl al0 (v.map (idOf lower tbl)) := by
  obtain ⟨⟨x1, hx1, t1, n1⟩, ⟨x2, hx2, t2, n2⟩, ⟨x3, hx3, t3⟩⟩ := h
  have one : ∀ x ∈ v, ∃ r, tbl[idOf lower tbl x]? = some r ∧ r.type = x.type ∧ lower r.name = lower x.name := by
    intro x hx
    have h1 := idOf_lt lower (hin x hx)
    have h2 := beq_type_name lower (idOf_beq lower h1)
    exact ⟨_, List.getElem?_eq_getElem h1, h2.1, h2.2⟩
  refine ⟨?_, ?_, ?_⟩
  · obtain ⟨r, hr, e1, e2⟩ := one x1 hx1
    exact ⟨_, List.mem_map_of_mem hx1, r, hr, by rw [e1]; exact t1, by rw [e2, n1, he]⟩
  · obtain ⟨r, hr, e1, e2⟩ := one x2 hx2
    exact ⟨_, List.mem_map_of_mem hx2, r, hr, by rw [e1]; exact t2, by rw [e2, n2, he]⟩
  · obtain ⟨r, hr, e1, _⟩ := one x3 hx3
    exact ⟨_, List.mem_map_of_mem hx3, r, hr, by rw [e1]; exact t3⟩

theorem fullFor_of_fullIds {tbl : List Rec} {al al0 : String} {v : List RecId} (pk : Register.Pkt) (h : FullIds lower tbl al0 v)
    (hcov : ∀ i ∈ v, ∃ r ∈ pk.answers ++ pk.additionals, idOf lower tbl r = i)
    (hin : ∀ r ∈ pk.answers ++ pk.additionals, inTbl lower tbl r = true) (he : lower al = lower al0) :
    fullFor lower pk al = true := by
  obtain ⟨⟨i1, hi1, r1, g1, t1, n1⟩, ⟨i2, hi2, r2, g2, t2, n2⟩, ⟨i3, hi3, r3, g3, t3⟩⟩ := h
  have one : ∀ i ∈ v, ∀ r0, tbl[i]? = some r0 → ∃ r ∈ pk.answers ++ pk.additionals, r.type = r0.type ∧ lower r.name = lower r0.name := by
    intro i hi r0 h0
    obtain ⟨r, hr, hid⟩ := hcov i hi
    have hb := getElem?_of_idOf lower (hin r hr) hid h0
    have := beq_type_name lower hb
    exact ⟨r, hr, this.1.symm, this.2.symm⟩
  unfold fullFor
  simp only [Bool.and_eq_true, List.any_eq_true, decide_eq_true_eq, Bool.or_eq_true]
  refine ⟨⟨?_, ?_⟩, ?_⟩
  · obtain ⟨r, hr, e1, e2⟩ := one i1 hi1 r1 g1
    exact ⟨r, hr, by rw [e1]; exact t1, by rw [e2, n1, he]⟩
  · obtain ⟨r, hr, e1, e2⟩ := one i2 hi2 r2 g2
    exact ⟨r, hr, by rw [e1]; exact t2, by rw [e2, n2, he]⟩
  · obtain ⟨r, hr, e1, _⟩ := one i3 hi3 r3 g3
    exact ⟨r, hr, by rw [e1]; exact t3⟩

theorem mem_map_idOf {tbl : List Rec} {l : List Rec} {i : RecId} (h : i ∈ l.map (idOf lower tbl)) : ∃ r ∈ l, idOf lower tbl r = i := by
  rw [List.mem_map] at h; exact h

/-- the datagram behind a reply out carries a record for each of its ids -/
theorem outOfPkt_covers {tbl : List Rec} {o : Out} {pk : Register.Pkt} (h : OutOfPkt lower tbl o pk) :
    (∀ a d, o = Out.mcast a d → ∀ i, (i ∈ a → ∃ r ∈ pk.answers, idOf lower tbl r = i) ∧ (i ∈ d → ∃ r ∈ pk.additionals, idOf lower tbl r = i)) ∧
    (∀ ad po id nq a d, o = Out.ucast ad po id nq a d →
      ∀ i, (i ∈ a → ∃ r ∈ pk.answers, idOf lower tbl r = i) ∧ (i ∈ d → ∃ r ∈ pk.additionals, idOf lower tbl r = i)) := by
  constructor
  · intro a d ho i
    subst ho
    obtain ⟨h1, h2⟩ := h
    exact ⟨fun hi => mem_map_idOf lower (by rw [h1]; exact hi), fun hi => mem_map_idOf lower (by rw [h2]; exact hi)⟩
  · intro ad po id nq a d ho i
    subst ho
    obtain ⟨h1, h2⟩ := h
    exact ⟨fun hi => mem_map_idOf lower (by rw [h1]; exact hi), fun hi => mem_map_idOf lower (by rw [h2]; exact hi)⟩

/-! ### the candidates of every query of the history -/

section core
variable {tr : Link.Trace} {endT : Int} {N : Naming} {ettl : Nat} {tbl : List Rec} {hostOf : Nat → Nat}
  {content : Nat → List Link.Item} {c0 : Int} {ks : List KEv} {h' : Host} {c' : Int} {rt : List (Host × KEv × StepOut)}

/-- in every query of the history, a candidate whose id is that of `z`'s pointer carries the complete set -/
theorem candVs_of_run (hR : ResponderRun lower tr endT N ettl tbl hostOf content c0 ks h' c' rt) {z : Zc.Svc} {e0 : Rec}
    (hb0 : e0.beq lower (RespSpec.ptrOf z) = true) (hne : lower z.type ≠ lower RespSpec.enumName) :
    CandVs (idOf lower tbl e0) (FullIds lower tbl z.name) ks := by
  intro t addr port dataId size hasQu p seen draws hmem p' hp' it hit c hc hid
  simp only [List.mem_singleton] at hp'
  subst hp'
  rw [← hR.run.evs, List.mem_map] at hmem
  obtain ⟨x, hx, hxe⟩ := hmem
  obtain ⟨ops, qs, kn, hF, _⟩ := hR.query x hx t addr port dataId size hasQu p' seen draws hxe
  have hspec := run_spec lower ettl ops
  have hm : AllFresh lower (Registry.run lower ettl ops) := fun s hs => hspec.fresh s hs (by rw [hF.clean]; simp)
  have hitems := hF.items
  rw [itemsOfQuestions_eq lower ettl kn tbl hspec.inv qs] at hitems
  have hitems' : p'.items = pureItems lower ettl kn tbl (Registry.run lower ettl ops) qs := (Except.ok.inj hitems).symm
  rw [hitems'] at hit
  obtain ⟨q, hq, st, hst, rfl⟩ := mem_pureItems lower ettl kn hit
  obtain ⟨e, he, h1, h2, _⟩ := mem_candsOf lower hc
  obtain ⟨hin1, hin2⟩ := hF.inTable q hq st hst e he
  have hbe : e.1.beq lower e0 = true := same_id_beq lower hin1 (by rw [← h1]; exact hid)
  have hbz := beq_trans lower hbe hb0
  obtain ⟨al, hw, _, hal, hname⟩ := wfptr_of_beq lower N hbz
  have hfull := strategy_ptrFull lower ettl kn hm hF.addr hst e he al hw.1 (by rw [hname]; exact hne)
  rw [h2]
  exact fullIds_of_fullRecs lower hfull hin2 hal

/-- **a fresh query block for the type of a registered service is answered on the link** -/
theorem fresh_sent (hR : ResponderRun lower tr endT N ettl tbl hostOf content c0 ks h' c' rt)
    {x : Host × KEv × StepOut} (hx : x ∈ rt) {t : Int} {addr port dataId size : Nat} {hasQu : Bool} {kind : RxKind} {seen : SeenMap}
    {draws : List Int} (hev : x.2.1 = .blk (.rx t addr port dataId size hasQu kind seen draws)) (hf : Fresh x.1 t dataId size)
    {ty : Nat} {known : List Link.Svc} {qu : Bool} (hq : Link.Item.query ty known qu ∈ content dataId)
    {s : Link.Svc} (hs : s ∈ Link.svcsOf tr) (hown : s.owner = N.host) (hty : s.ty = ty) (hk : s ∉ known)
    {t1 : Int} (hreg : (t1, s) ∈ Link.regs tr) (ht1 : t1 + 350 ≤ t)
    (hun : ∀ u ∈ Link.unregs tr, u.2 = s → ¬ (t1 < u.1 ∧ u.1 ≤ t + 1200)) (hend : t + 1200 ≤ endT) :
    ∃ sd ∈ Link.sends tr, sd.h = N.host ∧ t ≤ sd.t ∧ sd.t ≤ t + 1200 ∧ Link.posFull s sd.items = true ∧
      (sd.dst = none ∨ (qu = true ∧ hasQu = true ∧ sd.dst = some (hostOf addr))) := by
  obtain ⟨p, rfl⟩ := hR.isQuery x hx t addr port dataId size hasQu kind seen draws hev ty known qu hq
  obtain ⟨ops, qs, kn, hF, hI⟩ := hR.query x hx t addr port dataId size hasQu p seen draws hev
  have hI := hI ty known qu hq
  have hspec := run_spec lower ettl ops
  have hm : AllFresh lower (Registry.run lower ettl ops) := fun s hs => hspec.fresh s hs (by rw [hF.clean]; simp)
  -- the registry holds the service
  obtain ⟨z, hz, hzs, hne1, hne2⟩ := hI.registered s hs hown hty
    ⟨(t1, s), hreg, rfl, ht1, fun u hu hus hc => hun u hu hus ⟨hc.1, by omega⟩⟩
  obtain ⟨q, hqm, hq12, hqty, hqu⟩ := hI.question
  have hn : lower q.name = lower z.type := by
    apply hR.tyInj
    rw [hqty, ← hty, ← hzs]; rfl
  -- the known answers do not suppress its pointer
  have hsup : Zc.suppresses lower kn (RespSpec.ptrOf z) = false := by
    cases hsu : Zc.suppresses lower kn (RespSpec.ptrOf z)
    · rfl
    · exfalso
      obtain ⟨o, ho, hob⟩ := suppresses_some lower hsu
      obtain ⟨al, hw, hsig, _, _⟩ := wfptr_of_beq lower N hob
      rw [hzs] at hsig
      apply hk
      apply hI.knownListed o ho al hw (by rw [← hty, ← hsig]; rfl) s hs hown hty
      rw [← hsig]; rfl
  obtain ⟨st, hst, e0, he0, hb0⟩ := pointer_offered lower ettl kn hspec.inv hm hz hq12 hn hne1 hsup
  obtain ⟨hin0, _⟩ := hF.inTable q hqm st hst e0 he0
  -- the candidate handed to the reply model
  have hitems := hF.items
  rw [itemsOfQuestions_eq lower ettl kn tbl hspec.inv qs] at hitems
  have hitems' : p.items = pureItems lower ettl kn tbl (Registry.run lower ettl ops) qs := (Except.ok.inj hitems).symm
  have hit : ({ qu := q.unique, cands := candsOf lower tbl (st.answer lower ettl kn) } : QItem) ∈ p.items := by
    rw [hitems']
    unfold pureItems
    exact List.mem_flatMap.mpr ⟨q, hqm, List.mem_map_of_mem hst⟩
  have hc : ({ id := idOf lower tbl e0.1, ttl := e0.1.ttl, adds := e0.2.map (idOf lower tbl), sup := false } : Cand) ∈
      candsOf lower tbl (st.answer lower ettl kn) := by
    unfold candsOf
    exact List.mem_map_of_mem (f := fun p : Rec × List Rec =>
      ({ id := idOf lower tbl p.1, ttl := p.1.ttl, adds := p.2.map (idOf lower tbl), sup := false } : Cand)) he0
  -- no purge in the window strikes the pointer
  have hidlt := idOf_lt lower hin0
  have hsp : ∀ y ∈ rt, ∀ tp W, y.2.1 = .purge tp W → t ≤ tp → tp ≤ t + 1200 → idOf lower tbl e0.1 ∉ W := by
    intro y hy tp W hyp h1 h2 hW
    obtain ⟨al, hw, hsig, _, _⟩ := wfptr_of_beq lower N (beq_trans lower (idOf_beq lower hidlt) hb0)
    obtain ⟨u, hu, hus, hut⟩ := hR.purge y hy tp W hyp _ hW _ al (List.getElem?_eq_getElem hidlt) hw
    rw [hsig, hzs] at hus
    exact hun u hu hus ⟨by omega, by omega⟩
  have hans := hR.run.fresh_answered (k := idOf lower tbl e0.1) (V := FullIds lower tbl z.name) hR.noTC
    (candVs_of_run lower hR hb0 hne2) hR.purgeKeeps hx hev hf hit hc rfl (by simp [Reply.suppresses]) hsp
    (by have := hR.covers; omega)
  obtain ⟨y, hy, hy1, hy2, o, ho, hcase⟩ := hans
  obtain ⟨sd, hsd, pk, g1, g2, g3, g4, g5, g6⟩ := hR.outs y hy (by omega) o ho
  have hpos : ∀ r ∈ pk.answers ++ pk.additionals, 0 < r.ttl := fun r hr => (g6 r hr).1
  have hin : ∀ r ∈ pk.answers ++ pk.additionals, inTbl lower tbl r = true := fun r hr => (g6 r hr).2
  obtain ⟨cm, cu⟩ := outOfPkt_covers lower g5
  -- the datagram carries the pointer, positive and complete
  have finish : ∀ (a d : List RecId) (dd : Dict) (v : List RecId),
      (∀ i, (i ∈ a → ∃ r ∈ pk.answers, idOf lower tbl r = i) ∧ (i ∈ d → ∃ r ∈ pk.additionals, idOf lower tbl r = i)) →
      a = dd.keys → d = additionalsOf dd → (idOf lower tbl e0.1, v) ∈ dd → FullIds lower tbl z.name v →
      Link.posFull s sd.items = true := by
    intro a d dd v hcov ha hd hmem hfull
    obtain ⟨r, hr, hrid⟩ := (hcov (idOf lower tbl e0.1)).1 (by rw [ha]; exact Dict.mem_keys_of_mem hmem)
    have hr' : r ∈ pk.answers ++ pk.additionals := List.mem_append_left _ hr
    have hbr : r.beq lower (RespSpec.ptrOf z) = true := beq_trans lower (same_id_beq lower (hin r hr') hrid) hb0
    obtain ⟨al, hw, hsig, hal, _⟩ := wfptr_of_beq lower N hbr
    have hff : fullFor lower pk al = true := by
      apply fullFor_of_fullIds lower pk hfull _ hin hal
      intro i hi
      rcases additionalsOf_covers hmem i hi with h1 | h1
      · obtain ⟨r', hr', e'⟩ := (hcov i).1 (by rw [ha]; exact h1)
        exact ⟨r', List.mem_append_left _ hr', e'⟩
      · obtain ⟨r', hr', e'⟩ := (hcov i).2 (by rw [hd]; exact h1)
        exact ⟨r', List.mem_append_right _ hr', e'⟩
    have := posFull_itemsOf lower N hR.svInj pk r al hr' hw hpos hff
    rw [hsig, hzs] at this
    rw [g4]; exact this
  refine ⟨sd, hsd, g1, by rw [g2]; exact hy1, by rw [g2]; exact hy2, ?_, ?_⟩
  · rcases hcase with ⟨b, v, rfl, hmem, hfull⟩ | ⟨_, id, nq, dd, v, rfl, hmem, hfull⟩
    · exact finish _ _ b v (cm _ _ rfl) rfl rfl hmem hfull
    · exact finish _ _ dd v (cu _ _ _ _ _ _ rfl) rfl rfl hmem hfull
  · rcases hcase with ⟨b, v, rfl, _, _⟩ | ⟨hqu', id, nq, dd, v, rfl, _, _⟩
    · left; rw [g3]; rfl
    · right
      have hqq : qu = true := by rw [← hqu]; exact hqu'
      exact ⟨hqq, hI.quFlag hqq, by rw [g3]; rfl⟩

end core

/-- **K4 from C03 + C11 + C12**: on a link trace whose hosts' responders are projections of accepted histories of the reply model
with the D5 purge, fed by C03's answer computation, every PTR question for the type of a registered service that does not list it
is answered — PTR with TTL > 0, SRV, TXT and an address in one datagram — within `[a − 1000, a + 1200]`, by multicast or (QU)
by unicast to the asker. -/
theorem K4_of_responders (tr : Link.Trace) (endT : Int) (hR : Responders lower tr endT) : Link.K4 Link.Cfg.paper tr endT = true := by
  unfold Link.K4
  rw [List.all_eq_true]
  intro e he
  by_cases hend : ¬ e.t + 1200 ≤ endT
  · simp only [Bool.or_eq_true, Bool.not_eq_true', Link.dec_false]
    left; exact hend
  have hend : e.t + 1200 ≤ endT := by omega
  rw [Bool.or_eq_true]
  right
  rw [List.all_eq_true]
  intro it hit
  cases it with
  | ptr _ _ _ => rfl
  | query ty known qu =>
    simp only [List.all_eq_true]
    intro s hs
    cases hcond : (s.owner == e.h && s.ty == ty && !(known.contains s) && Link.regThrough Link.Cfg.paper tr s (e.t - 1000) (e.t + 1200)) with
    | false => rfl
    | true =>
      simp only [Bool.not_true, Bool.false_or]
      simp only [Bool.and_eq_true, beq_iff_eq, Bool.not_eq_true', Link.regThrough, List.any_eq_true, decide_eq_true_eq,
        List.all_eq_true, Bool.and_eq_false_imp] at hcond
      obtain ⟨⟨⟨hown, hty⟩, hkn⟩, r, hr, ⟨hrs, hrt⟩, hru⟩ := hcond
      have hk : s ∉ known := by
        intro hm
        have : known.contains s = true := List.contains_iff_mem.mpr hm
        rw [hkn] at this; cases this
      obtain ⟨N, ettl, tbl, hostOf, content, c0, ks, h', c', rt, hN, hRun⟩ := hR e.h
      obtain ⟨x, hx, addr, port, dataId, size, hasQu, kind, seen, draws, hev, hsrc, hcont, hsz⟩ := hRun.rx e he hN.symm
      have hq : Link.Item.query ty known qu ∈ content dataId := by rw [hcont]; exact hit
      have hreg : (r.1, s) ∈ Link.regs tr := by rw [← hrs]; exact hr
      have hun : ∀ (t0 : Int), t0 ≤ e.t → ∀ u ∈ Link.unregs tr, u.2 = s → ¬ (r.1 < u.1 ∧ u.1 ≤ t0 + 1200) := by
        intro t0 ht0 u hu hus hc
        have := hru u hu ⟨hus, hc.1⟩
        simp only [Link.dec_false] at this
        omega
      simp only [Link.answersTo, List.any_eq_true, Bool.and_eq_true, beq_iff_eq, decide_eq_true_eq, Bool.or_eq_true,
        Option.isNone_iff_eq_none]
      by_cases hf : Fresh x.1 e.t dataId size
      · -- processed: answered from `e.t` on
        obtain ⟨sd, hsd, g1, g2, g3, g4, g5⟩ := fresh_sent lower hRun hx hev hf hq hs (by rw [hown, hN]) hty hk hreg
          (by omega) (hun e.t (Int.le_refl _)) hend
        refine ⟨sd, hsd, ⟨⟨⟨⟨by rw [g1, hN], by omega⟩, by omega⟩, g4⟩, ?_⟩⟩
        rcases g5 with g5 | ⟨g5, _, g6⟩
        · exact Or.inl g5
        · exact Or.inr ⟨g5, by rw [g6, hsrc]⟩
      · -- dropped as a duplicate: the datagram with the same bytes processed less than a second earlier was answered, by multicast
        obtain ⟨x0, hx0, t0, addr0, port0, size0, kind0, seen0, draws0, hev0, hf0, hlo, hhi⟩ :=
          hRun.run.dup_source hRun.noTC hRun.purgeKeeps hx hev hsz hf
        obtain ⟨sd, hsd, g1, g2, g3, g4, g5⟩ := fresh_sent lower hRun hx0 hev0 hf0 hq hs (by rw [hown, hN]) hty hk hreg
          (by omega) (hun t0 hhi) (by omega)
        refine ⟨sd, hsd, ⟨⟨⟨⟨by rw [g1, hN], by omega⟩, by omega⟩, g4⟩, ?_⟩⟩
        rcases g5 with g5 | ⟨_, g6, _⟩
        · exact Or.inl g5
        · cases g6

end Zc.Bridge
