import Zc.Proofs.Listener
/-! `TimerInv` ("a TC timer is armed only for an address that has a deferred packet") for the listener
machine of C16 — the invariant C16 first left open.

C15 proves it (as the `timer` half of `Survive.LInv`) for the *concrete* host `Zc.Survive` (real decoder,
encoder, a `Down` record).  C16's machine is the same listener over an *arbitrary* handler, so C15's
theorem is not an instance of what is needed here (nor the other way round); what is shared is the
bookkeeping of `_deferred`/`_timers`.  This file therefore
* proves the invariant for every `Handler` with the same association-list lemmas as C15, and
* `Proofs/ListenerBridge.lean` shows that the two invariants are literally the same predicate under the forgetful map
  `Survive.State → Listener.State` (`timerInv_forget`), so `C15`'s `LInv.timer` and `C16`'s `TimerInv` cannot drift apart
  (kept out of C16's import chain: C16 must build even when C15's decoder proofs are being reworked). -/
namespace Zc.Listener

variable {σ ω β : Type} (H : Handler σ ω β)

/-! ### association lists (the statements of C15's `Survive.alGet_alSet_ne` / `alGet_alErase_ne` / `alGet_append_single`,
repeated here so that C16 does not depend on C15's decoder/encoder proof chain; `Proofs/ListenerBridge.lean` ties the
two invariants together) -/

theorem alGet_alSet_ne {α} {k k' : Addr} (v : α) (l : List (Addr × α)) (h : k' ≠ k) :
    alGet k' (alSet k v l) = alGet k' l := by
  induction l with
  | nil => simp [alSet, alGet, Ne.symm h]
  | cons p r ih =>
    obtain ⟨k2, v2⟩ := p
    by_cases h2 : k2 = k
    · subst h2
      simp [alSet, alGet, Ne.symm h]
    · by_cases h3 : k2 = k'
      · subst h3
        simp [alSet, alGet, h]
      · simp [alSet, alGet, h2, h3, ih]

theorem alGet_alErase_ne {α} {k k' : Addr} (l : List (Addr × α)) (h : k' ≠ k) :
    alGet k' (alErase k l) = alGet k' l := by
  induction l with
  | nil => simp [alErase, alGet]
  | cons p r ih =>
    obtain ⟨k2, v2⟩ := p
    by_cases h2 : k2 = k
    · subst h2
      have : alGet k' (alErase k2 r) = alGet k' r := ih
      simpa [alErase, List.filter, alGet, Ne.symm h] using this
    · have : alGet k' (alErase k r) = alGet k' r := ih
      by_cases h3 : k2 = k'
      · subst h3
        simp [alErase, List.filter, alGet, h]
      · simpa [alErase, List.filter, alGet, h2, h3] using this

theorem alGet_append_single {α} {k k' : Addr} (v : α) (l : List (Addr × α)) :
    alGet k' (l ++ [(k, v)]) = match alGet k' l with | some x => some x | none => if k = k' then some v else none := by
  induction l with
  | nil => simp [alGet]
  | cons p r ih =>
    obtain ⟨k2, v2⟩ := p
    by_cases h2 : k2 = k'
    · simp [alGet, h2]
    · simpa [alGet, h2] using ih

theorem TimerInv.init (d : σ) : TimerInv (State.init d) := by
  intro a t h
  simp [State.init, alGet] at h

/-- erasing an address from both dicts keeps the invariant -/
theorem timerInv_erase (s : State σ) (addr : Addr) (hs : TimerInv s) (d : σ) :
    TimerInv { s with timers := alErase addr s.timers, deferred := alErase addr s.deferred, down := d } := by
  intro a t ht
  simp only at ht ⊢
  by_cases ha : a = addr
  · subst ha; rw [alGet_alErase_self] at ht; simp at ht
  · rw [alGet_alErase_ne _ ha] at ht
    rw [alGet_alErase_ne _ ha]
    exact hs a t ht

theorem respondMsg_inv (s : State σ) (m : Packet) (a : Addr) (p : Nat) (hs : TimerInv s) :
    TimerInv (respondMsg H s m a p).1 := by
  simp only [respondMsg]
  exact timerInv_erase s a hs _

theorem queryOrDefer_inv (s : State σ) (m : MsgInfo) (pk : Packet) (a : Addr) (p r : Nat) (hs : TimerInv s) :
    TimerInv (queryOrDefer H s m pk a p r).1 := by
  unfold queryOrDefer
  split
  · exact respondMsg_inv H s pk a p hs
  · dsimp only
    split
    · exact hs
    · intro x t ht
      simp only at ht ⊢
      by_cases hx : x = a
      · subst hx
        rw [alGet_alSet]
        cases (alGet x s.deferred).getD [] with
        | nil => exact ⟨pk, [], rfl⟩
        | cons y ys => exact ⟨y, ys ++ [pk], rfl⟩
      · rw [alGet_append_single] at ht
        rw [alGet_alErase_ne _ hx] at ht
        rw [alGet_alSet_ne _ _ hx]
        cases hg : alGet x s.timers with
        | none => rw [hg] at ht; simp [Ne.symm hx] at ht
        | some t' => exact hs x t' hg

/-- changing only the guard fields / the downstream state keeps the invariant -/
theorem timerInv_congr {s s' : State σ} (h1 : s'.timers = s.timers) (h2 : s'.deferred = s.deferred) (hs : TimerInv s) :
    TimerInv s' := by
  intro a t ht
  rw [h1] at ht
  rw [h2]
  exact hs a t ht

theorem process_inv (s : State σ) (d : Bytes) (a : Addr) (p : Nat) (now : Ms) (r : Nat) (hs : TimerInv s) :
    TimerInv (process H s d a p now r).1 := by
  unfold process
  simp only []
  have h0 : TimerInv { s with data := some d, lastTime := now, lastMsg := some (H.parse d) } :=
    timerInv_congr (s := s) rfl rfl hs
  split
  · exact h0
  · split
    · exact timerInv_congr (s := s) rfl rfl hs
    · split
      · exact h0
      · exact queryOrDefer_inv H _ _ _ a p r h0

theorem recv_inv (s : State σ) (d : Bytes) (a : Addr) (p : Nat) (now : Ms) (r : Nat) (hs : TimerInv s) :
    TimerInv (recv H s d a p now r).1 := by
  unfold recv
  split
  · exact hs
  · split
    · exact hs
    · exact process_inv H s d a p now r hs

/-- under the invariant an armed timer always finds a packet: `_respond_query(None, …)` does not raise -/
theorem tcFire_ok (s : State σ) (a : Addr) (t : TcTimer) (hs : TimerInv s) (ht : alGet a s.timers = some t) :
    ∃ r, tcFire H s a = .ok r ∧ TimerInv r.1 := by
  obtain ⟨p, ps, hd⟩ := hs a t ht
  simp only [tcFire, ht, respond, hd, Option.getD_some, Option.toList_none, List.append_nil]
  exact ⟨_, rfl, timerInv_erase s a hs _⟩

theorem step_inv (s s' : State σ) (b : Block β) (o : List ω) (hs : TimerInv s) (h : step H s b = .ok (s', o)) :
    TimerInv s' := by
  cases b with
  | recv d a p n r =>
    simp only [step, Except.ok.injEq, Prod.mk.injEq] at h
    obtain ⟨rfl, _⟩ := h
    exact recv_inv H s d a p n r hs
  | tcFire a =>
    simp only [step, tcFire] at h
    split at h
    · simp [Except.map] at h
    · rename_i t ht
      obtain ⟨r, hr, hi⟩ := tcFire_ok H s a t hs ht
      simp only [tcFire, ht] at hr
      simp only [hr, Except.map, Except.ok.injEq, Prod.mk.injEq] at h
      obtain ⟨rfl, _⟩ := h
      exact hi
  | other x =>
    simp only [step, Except.ok.injEq, Prod.mk.injEq] at h
    obtain ⟨rfl, _⟩ := h
    exact timerInv_congr (s := s) rfl rfl hs

/-- a step can only fail by firing a timer that is not armed (`keyError`: not a block the loop produces) -/
theorem step_error (s : State σ) (b : Block β) (e : PyExc) (hs : TimerInv s) (h : step H s b = .error e) : e = .keyError := by
  cases b with
  | recv d a p n r => simp [step] at h
  | tcFire a =>
    simp only [step, tcFire] at h
    split at h
    · simp only [Except.map, Except.error.injEq] at h
      exact h.symm
    · rename_i t ht
      obtain ⟨r, hr, _⟩ := tcFire_ok H s a t hs ht
      simp only [tcFire, ht] at hr
      simp [hr, Except.map] at h
  | other x => simp [step] at h

theorem run_inv (bs : List (Block β)) : ∀ (s : State σ), TimerInv s →
    (∃ s' o, run H s bs = .ok (s', o) ∧ TimerInv s') ∨ run H s bs = .error .keyError := by
  induction bs with
  | nil => intro s hs; exact Or.inl ⟨s, [], rfl, hs⟩
  | cons b rest ih =>
    intro s hs
    simp only [run, bind, Except.bind]
    cases h1 : step H s b with
    | error e =>
      have := step_error H s b e hs h1
      subst this
      exact Or.inr rfl
    | ok v =>
      obtain ⟨s1, o1⟩ := v
      have i1 := step_inv H s s1 b o1 hs h1
      rcases ih s1 i1 with ⟨s2, o2, h2, i2⟩ | h2
      · exact Or.inl ⟨s2, o1 ++ o2, by simp [h2, pure, Except.pure], i2⟩
      · exact Or.inr (by simp [h2])

end Zc.Listener
