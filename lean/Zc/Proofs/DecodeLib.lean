import Zc.Model.Wire.DecodeSpec
import Zc.GenFacts.Incoming
/-! Invariants of the decoder model `Zc.Wire.DecodeLib` (C02): which exceptions can be raised,
how the work counters and `self.offset` move. -/
namespace Zc.Wire.DecodeLib
open Zc Zc.Wire
open Zc.GenFacts.Incoming

/-- the only exceptions the decoder's own code raises -/
def Benign (e : PyExc) : Prop := e = .decodeError ∨ e = .indexError

theorem caught_of_benign {e : PyExc} (h : Benign e) : caught e = true := by
  rcases h with rfl | rfl
  · exact caught_decode
  · exact caught_index

theorem byteAt_err {buf : Bytes} {i : Nat} {e : PyExc} (h : byteAt buf i = .error e) : Benign e := by
  unfold byteAt at h
  split at h <;> simp_all [Benign]

theorem byteAt_ok_lt {buf : Bytes} {i v : Nat} (h : byteAt buf i = .ok v) : i < buf.length := by
  unfold byteAt at h
  split at h
  · rename_i b hb
    exact (List.getElem?_eq_some_iff.mp hb).1
  · simp at h

/-- the configuration bounds pointer hops (the D2 repair) and the interpreter allows that depth -/
structure CfgOK (cfg : Cfg) : Prop where
  hop : ∀ n, cfg.hopLimit n = false → n < 128
  recOk : 129 ≤ cfg.recLimit

theorem libCfg_ok : CfgOK libCfg := ⟨hop_limit, by decide⟩

/-! ### the literal-label loop -/

/-- what one run of the literal-label loop from `off` guarantees: at most `len - off` label reads;
a terminator or pointer lies inside the packet at or behind `off`; errors are benign -/
def LitOK (buf : Bytes) (off : Nat) (r : Lit × Nat) : Prop :=
  r.2 ≤ buf.length - off ∧
  (match r.1 with
   | .fin _ e => off < buf.length ∧ off < e
   | .ptr _ poff _ => off ≤ poff ∧ poff < buf.length
   | .err e => Benign e)

theorem LitOK.cons {buf : Bytes} {off off' : Nat} {label : Label} {r : Lit × Nat}
    (h : LitOK buf off' r) (h1 : off < off') (h2 : off < buf.length) : LitOK buf off (Lit.cons label r) := by
  obtain ⟨l, n⟩ := r
  obtain ⟨hr, hl⟩ := h
  cases l <;> simp only [Lit.cons, LitOK] at hr hl ⊢
  · omega
  · omega
  · exact ⟨by omega, hl⟩

theorem lit_spec (cfg : Cfg) (buf : Bytes) : ∀ (fuel off : Nat), buf.length - off + 1 ≤ fuel →
    LitOK buf off (lit cfg buf fuel off) := by
  intro fuel
  induction fuel with
  | zero => intro off h; omega
  | succ fuel ih =>
    intro off hf
    unfold lit
    by_cases hin : Gen.Incoming.in_packet off buf.length = true
    · have hlt := in_packet_lt hin
      rw [if_pos hin]
      cases hb : byteAt buf off with
      | error e => exact ⟨by simp, byteAt_err hb⟩
      | ok length =>
        simp only []
        by_cases h0 : Gen.Incoming.is_end length = true
        · rw [if_pos h0]
          exact ⟨by simp, hlt, by rw [header_len]; omega⟩
        · rw [if_neg h0]
          by_cases h1 : Gen.Incoming.is_label length = true
          · rw [if_pos h1]
            split
            · refine ⟨?_, by simp [Benign]⟩
              show 1 ≤ buf.length - off
              omega
            · have hadv := label_advance_eq length
              exact (ih (off + Gen.Incoming.label_advance length) (by omega)).cons (by omega) hlt
          · rw [if_neg h1]
            by_cases h2 : Gen.Incoming.is_unknown length = true
            · rw [if_pos h2]
              exact ⟨by simp, by simp [Benign]⟩
            · rw [if_neg h2]
              exact ⟨by simp, by simp, hlt⟩
    · rw [if_neg hin]
      exact ⟨by simp, by simp [Benign]⟩

/-! ### one name: `_decode_labels_at_offset` -/

/-- how one (nested) activation at `depth` may move the counters -/
structure Cnt (len depth : Nat) (st st' : St) : Prop where
  names : st'.names = st.names
  off_eq : st'.off = st.off
  acts : st.acts ≤ st'.acts
  actsB : st'.acts + depth ≤ st.acts + 130
  reads : st.reads ≤ st'.reads
  readsB : st'.reads + len * st.acts ≤ st.reads + len * st'.acts
  depthB : st'.maxDepth ≤ max st.maxDepth 129

theorem Cnt.base {len depth r : Nat} {st : St} (hr : r ≤ len) (hd : depth ≤ 129) :
    Cnt len depth st { st with acts := st.acts + 1, reads := st.reads + r, maxDepth := max st.maxDepth depth } := by
  refine ⟨rfl, rfl, by simp, by simp; omega, by simp, ?_, by simp; omega⟩
  simp only [Nat.mul_succ]
  omega

theorem Cnt.step {len depth r : Nat} {st st' : St} (hr : r ≤ len) (hd : depth ≤ 129)
    (h : Cnt len (depth + 1) { st with acts := st.acts + 1, reads := st.reads + r, maxDepth := max st.maxDepth depth } st') :
    Cnt len depth st st' := by
  obtain ⟨h1, h2, h3, h4, h5, h6, h7⟩ := h
  simp only [Nat.mul_succ] at h1 h2 h3 h4 h5 h6 h7
  refine ⟨h1, h2, by omega, by omega, by omega, by omega, by omega⟩

theorem Cnt.cache {len depth : Nat} {st st' : St} (c : List (Nat × WName)) (h : Cnt len depth st st') :
    Cnt len depth st { st' with cache := c } := ⟨h.names, h.off_eq, h.acts, h.actsB, h.reads, h.readsB, h.depthB⟩

theorem finish_fst (ls ll : WName) (poff : Nat) (seen : List Nat) (st : St) : (finish ls ll poff seen st).1 = st := by
  unfold finish; split <;> rfl

theorem finish_err {ls ll : WName} {poff : Nat} {seen : List Nat} {st : St} {e : PyExc}
    (h : (finish ls ll poff seen st).2 = .error e) : Benign e := by
  unfold finish at h; split at h <;> simp_all [Benign]

theorem finish_ok {ls ll : WName} {poff : Nat} {seen : List Nat} {st : St} {v : WName × Nat × List Nat}
    (h : (finish ls ll poff seen st).2 = .ok v) : v.2.1 = poff + 2 := by
  unfold finish at h; split at h
  · simp at h
  · simp at h; rw [← h, pointer_len]

/-- the guarantee of one `_decode_labels_at_offset` activation (and everything nested in it) -/
def DecOK (buf : Bytes) (off depth : Nat) (st : St) (r : St × Except PyExc (WName × Nat × List Nat)) : Prop :=
  Cnt buf.length depth st r.1 ∧ (∀ e, r.2 = .error e → Benign e) ∧ (∀ v, r.2 = .ok v → off < buf.length ∧ off < v.2.1)

theorem decodeAt_spec {cfg : Cfg} (hc : CfgOK cfg) (buf : Bytes) :
    ∀ (fuel off depth : Nat) (seen : List Nat) (st : St),
      depth ≤ seen.length + 1 → seen.length ≤ 128 → 131 ≤ fuel + depth →
      DecOK buf off depth st (decodeAt cfg buf fuel off depth seen st) := by
  intro fuel
  induction fuel with
  | zero => intro off depth seen st h1 h2 h3; omega
  | succ fuel ih =>
    intro off depth seen st h1 h2 h3
    have hd : depth ≤ 129 := by omega
    have hrec := hc.recOk
    unfold decodeAt
    rw [if_neg (by omega)]
    have hl := lit_spec cfg buf (buf.length + 1) off (by omega)
    generalize lit cfg buf (buf.length + 1) off = lr at hl
    obtain ⟨l, r⟩ := lr
    obtain ⟨hr, hl⟩ := hl
    have hr' : r ≤ buf.length := by simp only at hr; omega
    have hbase := Cnt.base (st := st) hr' hd
    cases l with
    | err e => exact ⟨hbase, by intro e' h; simp at h; subst h; exact hl, by intro v h; simp at h⟩
    | fin ls e =>
      simp only at hl
      exact ⟨hbase, by intro e' h; simp at h, by intro v h; simp at h; subst h; exact hl⟩
    | ptr ls poff b0 =>
      simp only at hl ⊢
      have hfin : ∀ (ll : WName) (sn : List Nat) (st' : St), Cnt buf.length depth st st' →
          DecOK buf off depth st (finish ls ll poff sn st') := by
        intro ll sn st' hcnt
        refine ⟨by rw [finish_fst]; exact hcnt, fun e h => finish_err h, fun v h => ?_⟩
        have := finish_ok h
        omega
      cases hb : byteAt buf (poff + 1) with
      | error e => exact ⟨hbase, by intro e' h; simp at h; subst h; exact byteAt_err hb, by intro v h; simp at h⟩
      | ok b1 =>
        simp only []
        have hbad : ∀ (s : St), Cnt buf.length depth st s →
            DecOK buf off depth st (s, (.error .decodeError : Except PyExc (WName × Nat × List Nat))) :=
          fun s hs => ⟨hs, by intro e' h; simp at h; subst h; simp [Benign], by intro v h; simp at h⟩
        split
        · exact hbad _ hbase
        · split
          · exact hbad _ hbase
          · split
            · exact hbad _ hbase
            · split
              · exact hfin _ _ _ hbase
              · split
                · exact hbad _ hbase
                · rename_i hhop
                  have hlen := hc.hop _ (by simpa using hhop)
                  have := ih (Gen.Incoming.link b0 b1) (depth + 1) (Gen.Incoming.link b0 b1 :: seen)
                    { st with acts := st.acts + 1, reads := st.reads + r, maxDepth := max st.maxDepth depth }
                    (by simp; omega) (by simp; omega) (by omega)
                  obtain ⟨hcnt, herr, _⟩ := this
                  have hcnt' := Cnt.step hr' hd hcnt
                  split
                  · rename_i st' e heq
                    rw [heq] at hcnt' herr
                    exact ⟨hcnt', by intro e' h; simp at h; subst h; exact herr _ rfl, by intro v h; simp at h⟩
                  · rename_i st' ll x seen' heq
                    rw [heq] at hcnt'
                    exact hfin _ _ _ (hcnt'.cache _)

/-! ### effects on the counters -/

/-- effect of a piece of parsing on the counters: they only grow, each `_read_name` accounts for at
most 129 activations, each activation for at most `len` label reads, nesting stays within 129, and at
most `k` names were read -/
structure Eff (len : Nat) (st st' : St) (k : Nat) : Prop where
  names : st.names ≤ st'.names
  namesB : st'.names ≤ st.names + k
  acts : st.acts ≤ st'.acts
  reads : st.reads ≤ st'.reads
  actsB : st'.acts + 129 * st.names ≤ st.acts + 129 * st'.names
  readsB : st'.reads + len * st.acts ≤ st.reads + len * st'.acts
  depthB : st'.maxDepth ≤ max st.maxDepth 129

theorem Eff.trans {len k k' : Nat} {a b c : St} (h : Eff len a b k) (h' : Eff len b c k') : Eff len a c (k + k') := by
  obtain ⟨h1, h2, h3, h4, h5, h6, h7⟩ := h
  obtain ⟨g1, g2, g3, g4, g5, g6, g7⟩ := h'
  exact ⟨by omega, by omega, by omega, by omega, by omega, by omega, by omega⟩

theorem Eff.mono {len k k' : Nat} {a b : St} (h : Eff len a b k) (hk : k ≤ k') : Eff len a b k' :=
  ⟨h.names, by have := h.namesB; omega, h.acts, h.reads, h.actsB, h.readsB, h.depthB⟩

/-- only `self.offset` / the cache changed -/
def SameCnt (st st' : St) : Prop :=
  st'.names = st.names ∧ st'.acts = st.acts ∧ st'.reads = st.reads ∧ st'.maxDepth = st.maxDepth

theorem Eff.of_same {len : Nat} {st st' : St} (h : SameCnt st st') : Eff len st st' 0 := by
  obtain ⟨h1, h2, h3, h4⟩ := h
  refine ⟨by omega, by omega, by omega, by omega, ?_, ?_, by omega⟩
  · rw [h1, h2]; exact Nat.le_refl _
  · rw [h2, h3]; exact Nat.le_refl _

theorem Eff.refl (len : Nat) (st : St) : Eff len st st 0 := Eff.of_same ⟨rfl, rfl, rfl, rfl⟩

theorem Eff.same_right {len k : Nat} {a b c : St} (h : Eff len a b k) (h' : SameCnt b c) : Eff len a c k := by
  have := h.trans (Eff.of_same (len := len) h')
  simpa using this

theorem Eff.same_left {len k : Nat} {a b c : St} (h' : SameCnt a b) (h : Eff len b c k) : Eff len a c k := by
  have := (Eff.of_same (len := len) h').trans h
  simpa using this

theorem Eff.setOff (len : Nat) (st : St) (o k : Nat) : Eff len st { st with off := o } k := by
  have h : Eff len st { st with off := o } 0 := Eff.of_same ⟨rfl, rfl, rfl, rfl⟩
  exact h.mono (Nat.zero_le _)

/-! ### `_read_name` -/

theorem readName_spec {cfg : Cfg} (hc : CfgOK cfg) (buf : Bytes) (st : St) :
    Eff buf.length st (readName cfg buf st).1 1 ∧
    (∀ e, (readName cfg buf st).2 = .error e → Benign e) ∧
    (∀ n, (readName cfg buf st).2 = .ok n →
      st.off < buf.length ∧ st.off < (readName cfg buf st).1.off ∧ nameLen n ≤ 253) := by
  unfold readName
  dsimp only
  have h := decodeAt_spec hc buf (nameFuel buf) st.off 1 [] { st with names := st.names + 1 }
    (by simp) (by simp) (by unfold nameFuel; omega)
  generalize decodeAt cfg buf (nameFuel buf) st.off 1 [] { st with names := st.names + 1 } = r at h
  obtain ⟨st', res⟩ := r
  obtain ⟨⟨c1, c2, c3, c4, c5, c6, c7⟩, herr, hok⟩ := h
  simp only at c1 c2 c3 c4 c5 c6 c7 herr hok
  have heff : Eff buf.length st st' 1 :=
    ⟨by omega, by omega, by omega, by omega, by omega, by omega, by omega⟩
  cases res with
  | error e => exact ⟨heff, fun e' h => by simp at h; subst h; exact herr _ rfl, fun n h => by simp at h⟩
  | ok v =>
    obtain ⟨labels, e, sn⟩ := v
    have ho := hok _ rfl
    simp only at ho ⊢
    have heff' : Eff buf.length st { st' with off := e, cache := (st.off, labels) :: st'.cache } 1 :=
      heff.same_right ⟨rfl, rfl, rfl, rfl⟩
    split
    · exact ⟨heff', fun e' h => by simp at h; subst h; simp [Benign], fun n h => by simp at h⟩
    · rename_i hlen
      refine ⟨heff', fun e' h => by simp at h, fun n h => ?_⟩
      simp at h; subst h
      exact ⟨ho.1, ho.2, name_short (by simpa using hlen)⟩

/-! ### fixed-size fields -/

theorem bind_err {α β : Type} {x : Except PyExc α} {f : α → Except PyExc β} {e : PyExc}
    (h : (x >>= f) = .error e) : x = .error e ∨ ∃ a, x = .ok a ∧ f a = .error e := by
  cases x with
  | error e' => left; simpa [bind, Except.bind] using h
  | ok a => right; exact ⟨a, rfl, by simpa [bind, Except.bind] using h⟩

theorem two_err {buf : Bytes} {i j : Nat} {f : Nat → Nat → Nat} {e : PyExc} (h : two buf i j f = .error e) : Benign e := by
  unfold two at h
  rcases bind_err h with h | ⟨_, _, h⟩
  · exact byteAt_err h
  rcases bind_err h with h | ⟨_, _, h⟩
  · exact byteAt_err h
  simp [pure, Except.pure] at h

theorem readQFixed_err {buf : Bytes} {o : Nat} {e : PyExc} (h : readQFixed buf o = .error e) : Benign e := by
  unfold readQFixed at h
  rcases bind_err h with h | ⟨_, _, h⟩
  · exact two_err h
  rcases bind_err h with h | ⟨_, _, h⟩
  · exact two_err h
  simp [pure, Except.pure] at h

theorem readSrvFixed_err {buf : Bytes} {o : Nat} {e : PyExc} (h : readSrvFixed buf o = .error e) : Benign e := by
  unfold readSrvFixed at h
  rcases bind_err h with h | ⟨_, _, h⟩
  · exact two_err h
  rcases bind_err h with h | ⟨_, _, h⟩
  · exact two_err h
  rcases bind_err h with h | ⟨_, _, h⟩
  · exact two_err h
  simp [pure, Except.pure] at h

theorem readFixed_err {buf : Bytes} {o : Nat} {e : PyExc} (h : readFixed buf o = .error e) : Benign e := by
  unfold readFixed at h
  rcases bind_err h with h | ⟨_, _, h⟩
  · exact two_err h
  rcases bind_err h with h | ⟨_, _, h⟩
  · exact two_err h
  rcases bind_err h with h | ⟨_, _, h⟩
  · exact byteAt_err h
  rcases bind_err h with h | ⟨_, _, h⟩
  · exact byteAt_err h
  rcases bind_err h with h | ⟨_, _, h⟩
  · exact byteAt_err h
  rcases bind_err h with h | ⟨_, _, h⟩
  · exact byteAt_err h
  rcases bind_err h with h | ⟨_, _, h⟩
  · exact two_err h
  simp [pure, Except.pure] at h

/-! ### questions -/

/-- all the names of a question list are at most 253 characters long -/
def QShort (qs : List WQuestion) : Prop := ∀ q ∈ qs, nameLen q.name ≤ 253

theorem readQuestions_spec {cfg : Cfg} (hc : CfgOK cfg) (buf : Bytes) : ∀ (n : Nat) (st : St),
    Eff buf.length st (readQuestions cfg buf n st).1 (buf.length - st.off + 1) ∧
    (∀ e, (readQuestions cfg buf n st).2.2 = some e → Benign e) ∧
    QShort (readQuestions cfg buf n st).2.1 := by
  intro n
  induction n with
  | zero =>
    intro st
    unfold readQuestions
    exact ⟨(Eff.refl _ _).mono (by omega), by simp, by simp [QShort]⟩
  | succ n ih =>
    intro st
    unfold readQuestions
    have h := readName_spec hc buf st
    generalize readName cfg buf st = r at h
    obtain ⟨st1, res⟩ := r
    obtain ⟨heff, herr, hok⟩ := h
    simp only at heff herr hok
    cases res with
    | error e => exact ⟨heff.mono (by omega), by intro e' h; simp at h; subst h; exact herr _ rfl, by simp [QShort]⟩
    | ok name =>
      obtain ⟨ho1, ho2, hshort⟩ := hok _ rfl
      simp only []
      have heff2 : Eff buf.length st { st1 with off := st1.off + Gen.Incoming.q_len } 1 :=
        heff.same_right ⟨rfl, rfl, rfl, rfl⟩
      cases hq : readQFixed buf st1.off with
      | error e => exact ⟨heff2.mono (by omega), by intro e' h; simp at h; subst h; exact readQFixed_err hq, by simp [QShort]⟩
      | ok tc =>
        obtain ⟨t, c⟩ := tc
        simp only []
        obtain ⟨i1, i2, i3⟩ := ih { st1 with off := st1.off + Gen.Incoming.q_len }
        refine ⟨(heff2.trans i1).mono ?_, i2, ?_⟩
        · simp only; omega
        · intro q hq
          simp only [List.mem_cons] at hq
          rcases hq with rfl | hq
          · exact hshort
          · exact i3 q hq

/-! ### rdata -/

theorem readCStr_spec (buf : Bytes) (st : St) :
    SameCnt st (readCStr buf st).1 ∧ (∀ e, (readCStr buf st).2 = .error e → Benign e) ∧
    (∀ s, (readCStr buf st).2 = .ok s → st.off ≤ (readCStr buf st).1.off) := by
  unfold readCStr
  cases hb : byteAt buf st.off with
  | error e => exact ⟨⟨rfl, rfl, rfl, rfl⟩, by intro e' h; simp at h; subst h; exact byteAt_err hb, by intro s h; simp at h⟩
  | ok n => exact ⟨⟨rfl, rfl, rfl, rfl⟩, by intro e' h; simp at h, by intro s _; simp only; omega⟩

theorem readBitmap_spec (buf : Bytes) (end_ : Nat) : ∀ (fuel : Nat) (st : St), buf.length - st.off + 1 ≤ fuel →
    SameCnt st (readBitmap buf end_ fuel st).1 ∧ (∀ e, (readBitmap buf end_ fuel st).2 = .error e → Benign e) ∧
    (∀ ts, (readBitmap buf end_ fuel st).2 = .ok ts → st.off ≤ (readBitmap buf end_ fuel st).1.off) := by
  intro fuel
  induction fuel with
  | zero => intro st h; omega
  | succ fuel ih =>
    intro st hf
    unfold readBitmap
    dsimp only
    split
    · cases hb : byteAt buf st.off with
      | error e => exact ⟨⟨rfl, rfl, rfl, rfl⟩, by intro e' h; simp at h; subst h; exact byteAt_err hb, by intro s h; simp at h⟩
      | ok window =>
        have hlt := byteAt_ok_lt hb
        simp only []
        cases hb2 : byteAt buf (st.off + 1) with
        | error e => exact ⟨⟨rfl, rfl, rfl, rfl⟩, by intro e' h; simp at h; subst h; exact byteAt_err hb2, by intro s h; simp at h⟩
        | ok blen =>
          simp only []
          have hadv := bitmap_advance_eq blen
          have := ih { st with off := st.off + Gen.Incoming.bitmap_advance blen } (by simp only; omega)
          generalize readBitmap buf end_ fuel { st with off := st.off + Gen.Incoming.bitmap_advance blen } = r at this
          obtain ⟨st', res⟩ := r
          obtain ⟨hs, he, ho⟩ := this
          cases res with
          | error e => exact ⟨hs, by intro e' h; simp at h; subst h; exact he _ rfl, by intro s h; simp at h⟩
          | ok rest =>
            refine ⟨hs, by intro e' h; simp at h, ?_⟩
            intro ts _
            have := ho _ rfl
            simp only at this ⊢
            omega
    · exact ⟨⟨rfl, rfl, rfl, rfl⟩, by intro e' h; simp at h, by intro s _; exact Nat.le_refl _⟩

/-- the names inside a piece of rdata are at most 253 characters long -/
def RdShort (rd : Option WRData) : Prop := ∀ rd', rd = some rd' → ∀ n ∈ DecodeSpec.rdataNames rd', nameLen n ≤ 253

/-- guarantee of `_read_record`: at most one more name; benign errors; on success the offset did
not move backwards and the names are short -/
def RDataOK (buf : Bytes) (st : St) (r : St × Except PyExc (Option WRData)) : Prop :=
  Eff buf.length st r.1 1 ∧ (∀ e, r.2 = .error e → Benign e) ∧ (∀ rd, r.2 = .ok rd → st.off ≤ r.1.off ∧ RdShort rd)

theorem RDataOK.plain {buf : Bytes} {st st' : St} {rd : WRData} (hs : SameCnt st st') (ho : st.off ≤ st'.off)
    (hn : DecodeSpec.rdataNames rd = []) : RDataOK buf st (st', .ok (some rd)) := by
  refine ⟨(Eff.of_same hs).mono (by omega), by intro e h; simp at h, ?_⟩
  intro rd' h
  simp at h; subst h
  refine ⟨ho, ?_⟩
  intro rd'' h n hn'
  simp at h; subst h
  rw [hn] at hn'
  simp at hn'

theorem RDataOK.fail {buf : Bytes} {st st' : St} {e : PyExc} (he : Eff buf.length st st' 1) (hb : Benign e) :
    RDataOK buf st (st', .error e) :=
  ⟨he, by intro e' h; simp at h; subst h; exact hb, by intro rd h; simp at h⟩

theorem readRData_spec {cfg : Cfg} (hc : CfgOK cfg) (buf : Bytes) (t length : Nat) (st : St) :
    RDataOK buf st (readRData cfg buf t length st) := by
  unfold readRData
  split
  · exact RDataOK.plain ⟨rfl, rfl, rfl, rfl⟩ (by simp [readString]) rfl
  split
  · -- PTR / CNAME
    have h := readName_spec hc buf st
    generalize readName cfg buf st = r at h
    obtain ⟨st1, res⟩ := r
    obtain ⟨heff, herr, hok⟩ := h
    cases res with
    | error e => exact RDataOK.fail heff (herr _ rfl)
    | ok n =>
      obtain ⟨_, ho, hs⟩ := hok _ rfl
      refine ⟨heff, by intro e h; simp at h, ?_⟩
      intro rd h
      simp at h; subst h
      refine ⟨by simp only at ho ⊢; omega, ?_⟩
      intro rd' h n' hn
      simp at h; subst h
      simp [DecodeSpec.rdataNames] at hn; subst hn
      exact hs
  split
  · exact RDataOK.plain ⟨rfl, rfl, rfl, rfl⟩ (by simp [readString]) rfl
  split
  · -- SRV
    dsimp only
    cases hq : readSrvFixed buf st.off with
    | error e => exact RDataOK.fail (Eff.setOff _ _ _ _) (readSrvFixed_err hq)
    | ok pwq =>
      obtain ⟨p, w, q⟩ := pwq
      simp only []
      have h := readName_spec hc buf { st with off := st.off + Gen.Incoming.srv_len }
      generalize readName cfg buf { st with off := st.off + Gen.Incoming.srv_len } = r at h
      obtain ⟨st1, res⟩ := r
      obtain ⟨heff, herr, hok⟩ := h
      simp only at heff
      have heff' : Eff buf.length st st1 1 := by
        have := (Eff.setOff buf.length st (st.off + Gen.Incoming.srv_len) 0).trans heff
        simpa using this
      cases res with
      | error e => exact RDataOK.fail heff' (herr _ rfl)
      | ok n =>
        obtain ⟨_, ho, hs⟩ := hok _ rfl
        refine ⟨heff', by intro e h; simp at h, ?_⟩
        intro rd h
        simp at h; subst h
        refine ⟨by simp only at ho ⊢; omega, ?_⟩
        intro rd' h n' hn
        simp at h; subst h
        simp [DecodeSpec.rdataNames] at hn; subst hn
        exact hs
  split
  · -- HINFO
    have h := readCStr_spec buf st
    generalize readCStr buf st = r at h
    obtain ⟨st1, res⟩ := r
    obtain ⟨hs1, herr1, hok1⟩ := h
    cases res with
    | error e => exact RDataOK.fail ((Eff.of_same hs1).mono (by omega)) (herr1 _ rfl)
    | ok cpu =>
      simp only []
      have h := readCStr_spec buf st1
      generalize readCStr buf st1 = r at h
      obtain ⟨st2, res⟩ := r
      obtain ⟨hs2, herr2, hok2⟩ := h
      have hs12 : SameCnt st st2 := by
        obtain ⟨a1, a2, a3, a4⟩ := hs1
        obtain ⟨b1, b2, b3, b4⟩ := hs2
        simp only at a1 a2 a3 a4 b1 b2 b3 b4
        exact ⟨by omega, by omega, by omega, by omega⟩
      cases res with
      | error e => exact RDataOK.fail ((Eff.of_same hs12).mono (by omega)) (herr2 _ rfl)
      | ok os =>
        have o1 := hok1 _ rfl
        have o2 := hok2 _ rfl
        exact RDataOK.plain hs12 (by simp only at o1 o2 ⊢; omega) rfl
  split
  · exact RDataOK.plain ⟨rfl, rfl, rfl, rfl⟩ (by simp [readString]) rfl
  split
  · -- NSEC
    dsimp only
    have h := readName_spec hc buf st
    generalize readName cfg buf st = r at h
    obtain ⟨st1, res⟩ := r
    obtain ⟨heff, herr, hok⟩ := h
    cases res with
    | error e => exact RDataOK.fail heff (herr _ rfl)
    | ok n =>
      obtain ⟨_, ho, hs⟩ := hok _ rfl
      simp only []
      have hb := readBitmap_spec buf (Gen.Incoming.nsec_end st.off length) (buf.length + 1) st1 (by omega)
      generalize readBitmap buf (Gen.Incoming.nsec_end st.off length) (buf.length + 1) st1 = r at hb
      obtain ⟨st2, res⟩ := r
      obtain ⟨hs2, herr2, hok2⟩ := hb
      have heff' : Eff buf.length st st2 1 := heff.same_right hs2
      cases res with
      | error e => exact RDataOK.fail heff' (herr2 _ rfl)
      | ok ts =>
        have o2 := hok2 _ rfl
        refine ⟨heff', by intro e h; simp at h, ?_⟩
        intro rd h
        simp at h; subst h
        refine ⟨by simp only at ho o2 ⊢; omega, ?_⟩
        intro rd' h n' hn
        simp at h; subst h
        simp [DecodeSpec.rdataNames] at hn; subst hn
        exact hs
  · -- unknown type: skipped
    refine ⟨Eff.setOff _ _ _ _, by intro e h; simp at h, ?_⟩
    intro rd h
    simp at h; subst h
    exact ⟨by simp, by intro rd' h; simp at h⟩

/-! ### the record loop -/

/-- owner names and rdata names of a record list are at most 253 characters long -/
def RecShort (rs : List WRecord) : Prop :=
  ∀ r ∈ rs, nameLen r.name ≤ 253 ∧ ∀ n ∈ DecodeSpec.rdataNames r.rdata, nameLen n ≤ 253

theorem readRecords_spec {cfg : Cfg} (hc : CfgOK cfg) (buf : Bytes) : ∀ (n : Nat) (st : St),
    Eff buf.length st (readRecords cfg buf n st).1 (2 * (buf.length - st.off) + 1) ∧
    (∀ e, (readRecords cfg buf n st).2.2 = some e → Benign e) ∧
    RecShort (readRecords cfg buf n st).2.1 := by
  intro n
  induction n with
  | zero =>
    intro st
    unfold readRecords
    exact ⟨(Eff.refl _ _).mono (by omega), by simp, by simp [RecShort]⟩
  | succ n ih =>
    intro st
    unfold readRecords
    have h := readName_spec hc buf st
    generalize readName cfg buf st = r at h
    obtain ⟨st1, res⟩ := r
    obtain ⟨heff, herr, hok⟩ := h
    simp only at heff herr hok
    cases res with
    | error e => exact ⟨heff.mono (by omega), by intro e' h; simp at h; subst h; exact herr _ rfl, by simp [RecShort]⟩
    | ok domain =>
      obtain ⟨ho1, ho2, hshort⟩ := hok _ rfl
      dsimp only
      have heff2 : Eff buf.length st { st1 with off := st1.off + Gen.Incoming.r_len } 1 :=
        heff.same_right ⟨rfl, rfl, rfl, rfl⟩
      cases hq : readFixed buf st1.off with
      | error e => exact ⟨heff2.mono (by omega), by intro e' h; simp at h; subst h; exact readFixed_err hq, by simp [RecShort]⟩
      | ok v =>
        obtain ⟨t, c, ttl, length⟩ := v
        dsimp only
        have hrd := readRData_spec hc buf t length { st1 with off := st1.off + Gen.Incoming.r_len }
        generalize readRData cfg buf t length { st1 with off := st1.off + Gen.Incoming.r_len } = r at hrd
        obtain ⟨st3, res⟩ := r
        obtain ⟨heff3, herr3, hok3⟩ := hrd
        simp only at heff3 herr3 hok3
        have hend := r_end_eq (st1.off + Gen.Incoming.r_len) length
        cases res with
        | error e =>
          dsimp only
          rw [if_pos (caught_of_benign (herr3 _ rfl))]
          obtain ⟨i1, i2, i3⟩ := ih { st3 with off := Gen.Incoming.r_end (st1.off + Gen.Incoming.r_len) length }
          have hset := Eff.setOff buf.length st3 (Gen.Incoming.r_end (st1.off + Gen.Incoming.r_len) length) 0
          refine ⟨(((heff2.trans heff3).trans hset).trans i1).mono ?_, i2, i3⟩
          simp only [r_len_eq] at hend ⊢; omega
        | ok rdo =>
          obtain ⟨ho3, hs3⟩ := hok3 _ rfl
          have hrl := r_len_eq
          cases rdo with
          | none =>
            dsimp only
            obtain ⟨i1, i2, i3⟩ := ih st3
            refine ⟨((heff2.trans heff3).trans i1).mono ?_, i2, i3⟩
            omega
          | some rd =>
            dsimp only
            obtain ⟨i1, i2, i3⟩ := ih st3
            refine ⟨((heff2.trans heff3).trans i1).mono ?_, i2, ?_⟩
            · omega
            · intro r hr
              simp only [List.mem_cons] at hr
              rcases hr with rfl | hr
              · exact ⟨hshort, hs3 _ rfl⟩
              · exact i3 r hr

/-! ### the whole object -/

theorem readHeader_spec (buf : Bytes) (st : St) :
    (readHeader buf st).1 = { st with off := st.off + Gen.Incoming.hdr_len } ∧
    ∀ e, (readHeader buf st).2.2 = some e → Benign e := by
  unfold readHeader
  dsimp only
  repeat' split
  all_goals
    refine ⟨rfl, ?_⟩
    intro e h
    simp at h
    try (subst h; exact two_err ‹_›)

theorem namesShort_of {v : Bool} {h : Hdr} {qs : List WQuestion} {rs : List WRecord}
    (hq : QShort qs) (hr : RecShort rs) : DecodeSpec.namesShort ⟨v, h, qs, rs⟩ = true := by
  simp only [DecodeSpec.namesShort, DecodeSpec.namesOf, List.all_eq_true, List.mem_append, List.mem_map,
    List.mem_flatMap, List.mem_cons, decide_eq_true_eq]
  intro n hn
  rcases hn with ⟨q, hq', rfl⟩ | ⟨r, hr', hn⟩
  · exact hq q hq'
  · rcases hn with rfl | hn
    · exact (hr r hr').1
    · exact (hr r hr').2 n hn

/-- what the C02 theorems need of a run that started in state `st0` -/
structure RunOK (buf : Bytes) (st0 : St) (k : Nat) (r : Run) : Prop where
  noEscape : r.escaped = none
  eff : Eff buf.length st0 r.st k
  short : ∀ p, r.parsed? = some p → DecodeSpec.namesShort p = true

theorem others_spec {cfg : Cfg} (hc : CfgOK cfg) (buf : Bytes) (h : Hdr) (qs : List WQuestion) (st : St)
    (v1 v2 v3 : Bool) (hq : QShort qs) :
    RunOK buf st (2 * (buf.length - st.off) + 1) (others cfg buf h qs st v1 v2 v3) := by
  unfold others readOthers
  dsimp only
  obtain ⟨i1, i2, i3⟩ := readRecords_spec hc buf (Gen.Incoming.r_loop_count (Gen.Incoming.others_count h.nan h.nau h.nad)) st
  generalize readRecords cfg buf (Gen.Incoming.r_loop_count (Gen.Incoming.others_count h.nan h.nau h.nad)) st = r at i1 i2 i3
  obtain ⟨st', rs, e⟩ := r
  simp only at i1 i2 i3
  cases e with
  | none =>
    dsimp only
    exact ⟨rfl, i1, by intro p hp; simp [Run.parsed?] at hp; subst hp; exact namesShort_of hq i3⟩
  | some e =>
    dsimp only
    rw [if_pos (caught_of_benign (i2 _ rfl))]
    exact ⟨rfl, i1, by intro p hp; simp [Run.parsed?] at hp; subst hp; exact namesShort_of hq i3⟩

theorem RunOK.prepend {buf : Bytes} {a b : St} {k k' k'' : Nat} {r : Run} (h : Eff buf.length a b k)
    (hr : RunOK buf b k' r) (hk : k + k' ≤ k'') : RunOK buf a k'' r :=
  ⟨hr.noEscape, (h.trans hr.eff).mono hk, hr.short⟩

theorem parseWith_spec {cfg : Cfg} (hc : CfgOK cfg) (buf : Bytes) :
    RunOK buf {} (3 * buf.length + 2) (parseWith cfg buf) := by
  unfold parseWith
  dsimp only
  obtain ⟨hst, herr⟩ := readHeader_spec buf {}
  generalize readHeader buf {} = hr at hst herr
  obtain ⟨st1, hd, e⟩ := hr
  simp only at hst herr
  have heff1 : Eff buf.length {} st1 0 := by rw [hst]; exact Eff.setOff _ _ _ _
  have hoff1 : st1.off = 12 := by rw [hst]; simp [hdr_len_eq]
  cases e with
  | some e =>
    dsimp only
    rw [if_pos (caught_of_benign (herr _ rfl))]
    exact RunOK.prepend heff1 (others_spec hc buf hd [] st1 _ _ _ (by simp [QShort])) (by omega)
  | none =>
    dsimp only
    obtain ⟨q1, q2, q3⟩ := readQuestions_spec hc buf (Gen.Incoming.q_loop_count hd.nq) st1
    generalize readQuestions cfg buf (Gen.Incoming.q_loop_count hd.nq) st1 = qr at q1 q2 q3
    obtain ⟨st2, qs, e⟩ := qr
    simp only at q1 q2 q3
    have heff2 := heff1.trans q1
    cases e with
    | some e =>
      dsimp only
      rw [if_pos (caught_of_benign (q2 _ rfl))]
      exact RunOK.prepend heff2 (others_spec hc buf hd qs st2 _ _ _ q3) (by omega)
    | none =>
      dsimp only
      split
      · exact RunOK.prepend heff2 (others_spec hc buf hd qs st2 _ _ _ q3) (by omega)
      · exact RunOK.prepend heff2 (others_spec hc buf hd qs st2 _ _ _ q3) (by omega)

end Zc.Wire.DecodeLib
