import Zc.Proofs.Sched
/-! Helper lemmas for the chain theorem of a **refreshed** record (C10, second review): the type name carried by the entries of one
instance, the `when` of the entry a pointer update leaves, and monotonicity of `Chain` in the horizon. -/
namespace Zc.Sched
open Zc.GenFacts.Browser

/-- the block is not a pointer update of instance `a` under a type other than `n` -/
def Op.named (a n : String) : Op → Bool
  | .ptr a' n' .. => !(a' == a) || n' == n
  | _ => true

/-- every heap entry (cancelled or not) of instance `a` asks the type `n` -/
def NameInv (a n : String) (h : List Q) : Prop := ∀ q ∈ h, q.alias = a → q.name = n

theorem popReady_popped_mem (e : Int) {l : List Q} {q : Q} (hq : q ∈ (popReady e l).1) : q ∈ l := by
  induction l with
  | nil => simp [popReady] at hq
  | cons h t ih =>
    unfold popReady at hq
    split at hq
    · exact List.mem_cons_of_mem _ (ih hq)
    · split at hq
      · simp at hq
      · rcases List.mem_cons.1 hq with rfl | hq
        · exact List.mem_cons_self
        · exact List.mem_cons_of_mem _ (ih hq)

/-- every entry after a pointer update is the new first query or carries the alias and name of an entry that was there -/
theorem mem_reschedule_heap (c : Cfg) (s : S) (a n : String) (ttl : Nat) (cr : Int) {q : Q}
    (hq : q ∈ (reschedule c s a n ttl cr).heap) :
    q = firstQuery a n ttl cr ∨ ∃ y ∈ s.heap, q.alias = y.alias ∧ q.name = y.name := by
  unfold reschedule at hq
  split at hq
  · split at hq
    · right
      have hq' : q ∈ relife a ttl (firstQuery a n ttl cr).expire s.heap := hq
      rcases List.mem_map.1 hq' with ⟨y, hy, rfl⟩
      refine ⟨y, hy, ?_, ?_⟩ <;> (split <;> rfl)
    · simp only [schedule_heap] at hq
      rcases mem_insert.1 hq with rfl | hq
      · exact Or.inl rfl
      · right
        have hq' : q ∈ cancelAlias a s.heap := hq
        rcases List.mem_map.1 hq' with ⟨y, hy, rfl⟩
        refine ⟨y, hy, ?_, ?_⟩ <;> (split <;> rfl)
  · simp only [schedule_heap] at hq
    rcases mem_insert.1 hq with rfl | hq
    · exact Or.inl rfl
    · exact Or.inr ⟨q, hq, rfl, rfl⟩

theorem fireReady_true (c : Cfg) (s : S) (now : Int) : fireReady c s now true = ({ s with armed := none }, []) := by
  simp [fireReady]

theorem nameinv_step (c : Cfg) {a n : String} {s : S} (h : NameInv a n s.heap) {t : Int} {op : Op} {s1 : S} {o1 : List Send}
    (hn : op.named a n = true) (hst : step c s t op = some (s1, o1)) : NameInv a n s1.heap := by
  cases op with
  | start d =>
    simp only [step] at hst
    split at hst
    · simp only [Option.some.injEq, Prod.mk.injEq] at hst
      rw [← hst.1]; exact h
    · simp at hst
  | stop =>
    simp only [step, Option.some.injEq, Prod.mk.injEq] at hst
    rw [← hst.1]; intro q hq; simp at hq
  | ptr a' n' ttl cr =>
    simp only [step, Option.some.injEq, Prod.mk.injEq] at hst
    rw [← hst.1]
    intro q hq hqa
    rcases mem_reschedule_heap c s a' n' ttl cr hq with rfl | ⟨y, hy, h1, h2⟩
    · have ha' : a' = a := hqa
      subst ha'
      simpa [Op.named] using hn
    · rw [h2]; exact h y hy (by rw [← h1]; exact hqa)
  | cancel a' =>
    simp only [step, Option.some.injEq, Prod.mk.injEq] at hst
    rw [← hst.1]
    intro q hq hqa
    have hq' : q ∈ cancelAlias a' s.heap := hq
    rcases List.mem_map.1 hq' with ⟨y, hy, rfl⟩
    have e1 : (if (!y.cancelled && y.alias == a') = true then { y with cancelled := true } else y).alias = y.alias := by split <;> rfl
    have e2 : (if (!y.cancelled && y.alias == a') = true then { y with cancelled := true } else y).name = y.name := by split <;> rfl
    rw [e2]; exact h y hy (by rw [← e1]; exact hqa)
  | fire d =>
    simp only [step] at hst
    split at hst
    · split at hst
      · simp only [Option.some.injEq] at hst
        have := fireStartup_heap c s t d
        rw [hst] at this
        have e : s1.heap = s.heap := this
        rw [e]; exact h
      · simp at hst
    · split at hst
      · simp only [Option.some.injEq] at hst
        cases d with
        | true =>
          rw [fireReady_true] at hst
          simp only [Prod.mk.injEq] at hst
          rw [← hst.1]; exact h
        | false =>
          have := fireReady_heap c s t
          rw [hst] at this
          have e : s1.heap = insertAll (popReady t s.heap).2 ((popReady t s.heap).1.filterMap (rescueOf t)) := this
          rw [e]
          intro q hq hqa
          rcases mem_insertAll.1 hq with hq | hq
          · rcases List.mem_filterMap.1 hq with ⟨y, hy, hres⟩
            rw [rescueOf_eq] at hres
            split at hres
            · simp at hres
            · simp only [Option.some.injEq] at hres
              subst hres
              exact h y (popReady_popped_mem t hy) hqa
          · exact h q (popReady_rest_mem t hq) hqa
      · simp at hst
    · simp at hst

theorem nameinv_exec (c : Cfg) (a n : String) : ∀ (evs : List (Int × Op)) (s : S) (clk : Int) (s' : S) (outs : List Send),
    NameInv a n s.heap → (∀ e ∈ evs, e.2.named a n = true) → exec c s clk evs = some (s', outs) → NameInv a n s'.heap := by
  intro evs
  induction evs with
  | nil =>
    intro s clk s' outs h0 _ hex
    simp only [exec, Option.some.injEq, Prod.mk.injEq] at hex
    rw [← hex.1]; exact h0
  | cons e es ih =>
    intro s clk s' outs h0 hn hex
    obtain ⟨t, op⟩ := e
    obtain ⟨_, s1, o1, o2, hst, hex2, _⟩ := exec_cons hex
    exact ih s1 t s' o2 (nameinv_step c h0 (hn (t, op) (by simp)) hst) (fun e he => hn e (List.mem_cons_of_mem _ he)) hex2

theorem exists_entry_of_cnt_pos {a : String} {h : List Q} (hc : 0 < cnt a h) : ∃ q ∈ h, isEntry a q = true := by
  unfold cnt at hc
  obtain ⟨q, hq⟩ := List.exists_mem_of_length_pos hc
  exact ⟨q, (List.mem_filter.1 hq).1, (List.mem_filter.1 hq).2⟩

/-- where the entry of a refreshed instance is scheduled: at the new 75 % time, or where the instance's previous entry was
(the churn rule keeps it) -/
theorem reschedule_entry_when (c : Cfg) {s : S} (hu : Uniq s.heap) (a n : String) (ttl : Nat) (cr : Int) :
    ∀ q ∈ (reschedule c s a n ttl cr).heap, isEntry a q = true →
      q.when = cr + 750 * ttl ∨ ∃ cur, current a s.heap = some cur ∧ q.when = cur.when := by
  have hfw := firstQuery_when a n ttl cr
  unfold reschedule
  split
  · rename_i cur hcur
    split
    · intro q hq hp
      have hq' : q ∈ relife a ttl (firstQuery a n ttl cr).expire s.heap := hq
      rcases List.mem_map.1 hq' with ⟨y, hy, rfl⟩
      by_cases hy' : (!y.cancelled && y.alias == a) = true
      · have : y = cur := uniq_current (hu a) hcur hy hy'
        subst this
        right
        refine ⟨y, hcur, ?_⟩
        simp only [hy', if_true]
      · simp only [hy'] at hp
        simp only [Bool.false_eq_true, if_false] at hp
        exact absurd hp hy'
    · simp only [schedule_heap]
      intro q hq hp
      rcases mem_insert.1 hq with rfl | hq
      · exact Or.inl hfw
      · have := cnt_pos_of_mem hq hp
        rw [cnt_cancel_same] at this; omega
  · rename_i hnone
    simp only [schedule_heap]
    intro q hq hp
    rcases mem_insert.1 hq with rfl | hq
    · exact Or.inl hfw
    · have := cnt_pos_of_mem hq hp
      rw [cnt_zero_of_current_none hnone] at this; omega

/-- a chain that holds for a history horizon `H` holds for every earlier horizon -/
theorem chain_mono_H {c : Cfg} {name : String} {ttl : Nat} {expire H H' : Int} {outs : List Send} (hH : H' ≤ H) :
    ∀ {n : Nat} {w : Int}, Chain c name ttl expire H outs n w → Chain c name ttl expire H' outs n w
  | 0, _, _ => trivial
  | n + 1, w, h => by
    rcases h with h | ⟨o, ho, h1, h2, h3, h4⟩
    · exact Or.inl (by omega)
    · refine Or.inr ⟨o, ho, h1, h2, h3, ?_⟩
      rcases h4 with h4 | h4
      · exact Or.inl h4
      · exact Or.inr (chain_mono_H hH h4)

/-! ### composing histories; the block that reports an expiry -/

theorem exec_append_intro (c : Cfg) : ∀ (e1 : List (Int × Op)) (s : S) (clk : Int) (e2 : List (Int × Op)) (s1 : S) (o1 : List Send)
    (s' : S) (o2 : List Send),
    exec c s clk e1 = some (s1, o1) → exec c s1 (lastTime clk e1) e2 = some (s', o2) →
    exec c s clk (e1 ++ e2) = some (s', o1 ++ o2) := by
  intro e1
  induction e1 with
  | nil =>
    intro s clk e2 s1 o1 s' o2 h1 h2
    simp only [exec, Option.some.injEq, Prod.mk.injEq] at h1
    obtain ⟨rfl, rfl⟩ := h1
    simpa [lastTime] using h2
  | cons e es ih =>
    intro s clk e2 s1 o1 s' o2 h1 h2
    obtain ⟨t, op⟩ := e
    obtain ⟨hen, sa, p1, p2, hst, hex, rfl⟩ := exec_cons h1
    have := ih sa t e2 s1 p2 s' o2 hex (by simpa [lastTime] using h2)
    have h3 := exec_cons_intro hen hst this
    simpa [List.append_assoc] using h3

/-- whether a history is accepted, and what it sends, does not depend on *which* instance its last `cancel` block names -/
theorem exec_swap_last_cancel (c : Cfg) (es : List (Int × Op)) (s : S) (clk te : Int) (a b : String) (s' : S) (outs : List Send)
    (h : exec c s clk (es ++ [(te, .cancel a)]) = some (s', outs)) :
    ∃ s'', exec c s clk (es ++ [(te, .cancel b)]) = some (s'', outs) := by
  obtain ⟨s1, o1, o2, h1, h2, rfl⟩ := exec_append c es s clk _ s' outs h
  obtain ⟨hen, s2, p1, p2, hst, hex2, rfl⟩ := exec_cons h2
  simp only [step, Option.some.injEq, Prod.mk.injEq] at hst
  simp only [exec, Option.some.injEq, Prod.mk.injEq] at hex2
  rw [← hst.2, ← hex2.2]
  have hlast : exec c s1 (lastTime clk es) [(te, Op.cancel b)] = some ({ s1 with heap := cancelAlias b s1.heap }, [] ++ []) :=
    exec_cons_intro (op := .cancel b) hen rfl (by simp [exec])
  exact ⟨_, exec_append_intro c es s clk _ s1 o1 _ _ h1 hlast⟩

theorem append_bang_ne (a : String) : ((a ++ "!") == a) = false := by
  have : a ++ "!" ≠ a := by
    intro h
    have := congrArg String.length h
    simp at this
  simp [this]

end Zc.Sched
