import Zc.GenFacts.Reply
/-! The routing decision of `_QueryResponse` stated outright (C12 / C11): which of the four sets
(`_ucast`, `_mcast_now`, `_mcast_aggregate`, `_mcast_aggregate_last_second`) a record ends up in. -/
namespace Zc.Reply
open GenFacts

theorem mem_setAdd (s : List RecId) (k x : RecId) : x ∈ setAdd s k ↔ x ∈ s ∨ x = k := by
  unfold setAdd
  split
  · rename_i h
    have hk : k ∈ s := by simpa using h
    constructor
    · exact Or.inl
    · rintro (h | rfl); exact h; exact hk
  · simp

/-! ### the two per-record cascades -/

/-- the property's "is one of SRV, A, AAAA, NSEC" -/
def immediateType (t : Nat) : Prop := t = 33 ∨ t = 1 ∨ t = 28 ∨ t = 47

theorem immediate_test (nq q0 : Nat) :
    (Gen.Reply.mc_test_single_question (nq : Int) && Gen.Reply.mc_test_immediate_type (q0 : Int)) = true ↔ nq = 1 ∧ immediateType q0 := by
  rw [Bool.and_eq_true, GenFacts.mc_test_single_question, GenFacts.mc_test_immediate_type]
  unfold immediateType; omega

theorem mcRoute_now (probe inLast : Bool) (nq q0 : Nat) :
    mcRoute probe inLast nq q0 = .now ↔ probe = true ∨ (inLast = false ∧ nq = 1 ∧ immediateType q0) := by
  unfold mcRoute
  rw [GenFacts.mc_test_probe, GenFacts.mc_test_last_second]
  cases probe
  · cases inLast
    · simp only [Bool.false_eq_true, if_false]
      by_cases h : (Gen.Reply.mc_test_single_question (nq : Int) && Gen.Reply.mc_test_immediate_type (q0 : Int)) = true
      · rw [if_pos h]; have := (immediate_test nq q0).mp h; simp [this]
      · rw [if_neg h]; have := (not_congr (immediate_test nq q0)).mp h; simp [this]
    · simp
  · simp

theorem mcRoute_lastSecond (probe inLast : Bool) (nq q0 : Nat) :
    mcRoute probe inLast nq q0 = .lastSecond ↔ probe = false ∧ inLast = true := by
  unfold mcRoute
  rw [GenFacts.mc_test_probe, GenFacts.mc_test_last_second]
  cases probe
  · cases inLast
    · simp only [Bool.false_eq_true, if_false]
      split <;> simp
    · simp
  · simp

theorem mcRoute_aggregate (probe inLast : Bool) (nq q0 : Nat) :
    mcRoute probe inLast nq q0 = .aggregate ↔ probe = false ∧ inLast = false ∧ ¬ (nq = 1 ∧ immediateType q0) := by
  unfold mcRoute
  rw [GenFacts.mc_test_probe, GenFacts.mc_test_last_second]
  cases probe
  · cases inLast
    · simp only [Bool.false_eq_true, if_false]
      by_cases h : (Gen.Reply.mc_test_single_question (nq : Int) && Gen.Reply.mc_test_immediate_type (q0 : Int)) = true
      · rw [if_pos h]; have := (immediate_test nq q0).mp h; simp [this]
      · rw [if_neg h]; have := (not_congr (immediate_test nq q0)).mp h; simp [this]
    · simp
  · simp

theorem quRoute_spec (probe within : Bool) :
    quRoute probe within = ((probe || within), !within) := by
  unfold quRoute
  rw [GenFacts.qu_test_probe, GenFacts.qu_test_mcast_now, GenFacts.qu_test_ucast]
  cases probe <;> cases within <;> simp

/-! ### what the cache tests mean -/

theorem inLastSecond_iff (seen : Option Seen) (now : Int) :
    inLastSecond seen now = true ↔ ∃ s, seen = some s ∧ now - s.created < 1000 := by
  unfold inLastSecond
  rw [GenFacts.in_last_second]
  cases seen <;> simp

theorem withinQuarter_iff (seen : Option Seen) (now : Int) :
    withinQuarter seen now = true ↔ ∃ s, seen = some s ∧ now < s.created + 250 * (s.ttl : Int) := by
  unfold withinQuarter
  rw [GenFacts.within_quarter]
  cases seen with
  | none => simp
  | some s => simp [GenFacts.is_recent]

/-! ### the three entry points -/

/-- membership in one of the sets after folding a per-record step over a dict -/
theorem foldl_mem {f : QR → RecId × List RecId → QR} {π : QR → List RecId} {P : RecId → Prop}
    (hstep : ∀ acc e x, x ∈ π (f acc e) ↔ x ∈ π acc ∨ (x = e.1 ∧ P e.1)) :
    ∀ (l : Dict) (acc : QR) (x : RecId), x ∈ π (l.foldl f acc) ↔ x ∈ π acc ∨ (x ∈ l.keys ∧ P x) := by
  intro l
  induction l with
  | nil => intro acc x; simp [Dict.keys]
  | cons e l ih =>
    intro acc x
    simp only [List.foldl_cons]
    rw [ih, hstep]
    simp only [Dict.keys, List.map_cons, List.mem_cons]
    constructor
    · rintro ((h | ⟨h1, h2⟩) | ⟨h1, h2⟩)
      · exact Or.inl h
      · subst h1; exact Or.inr ⟨Or.inl rfl, h2⟩
      · exact Or.inr ⟨Or.inr h1, h2⟩
    · rintro (h | ⟨h1 | h1, h2⟩)
      · exact Or.inl (Or.inl h)
      · subst h1; exact Or.inl (Or.inr ⟨rfl, h2⟩)
      · exact Or.inr ⟨h1, h2⟩

/-- a field the step never touches -/
theorem foldl_const {α : Type} {f : QR → RecId × List RecId → QR} {π : QR → α}
    (hstep : ∀ acc e, π (f acc e) = π acc) : ∀ (l : Dict) (acc : QR), π (l.foldl f acc) = π acc := by
  intro l
  induction l with
  | nil => intro acc; rfl
  | cons e l ih => intro acc; simp only [List.foldl_cons]; rw [ih, hstep]

/-- `add_mcast_question_response`: where each answer goes -/
theorem addMcast_sets (probe : Bool) (seen : SeenMap) (now : Int) (nq q0 : Nat) (answers : Dict) (qr : QR) (r : RecId) :
    (r ∈ (qr.addMcast probe seen now nq q0 answers).mcastNow ↔
        r ∈ qr.mcastNow ∨ (r ∈ answers.keys ∧ mcRoute probe (inLastSecond (seen.get r) now) nq q0 = .now)) ∧
    (r ∈ (qr.addMcast probe seen now nq q0 answers).mcastLast ↔
        r ∈ qr.mcastLast ∨ (r ∈ answers.keys ∧ mcRoute probe (inLastSecond (seen.get r) now) nq q0 = .lastSecond)) ∧
    (r ∈ (qr.addMcast probe seen now nq q0 answers).mcastAgg ↔
        r ∈ qr.mcastAgg ∨ (r ∈ answers.keys ∧ mcRoute probe (inLastSecond (seen.get r) now) nq q0 = .aggregate)) ∧
    (qr.addMcast probe seen now nq q0 answers).ucast = qr.ucast := by
  unfold QR.addMcast
  refine ⟨?_, ?_, ?_, ?_⟩
  · refine foldl_mem (π := QR.mcastNow) (P := fun k => mcRoute probe (inLastSecond (seen.get k) now) nq q0 = .now) ?_ _ _ _
    intro acc e x
    cases h : mcRoute probe (inLastSecond (seen.get e.1) now) nq q0 <;> simp [mem_setAdd]
  · refine foldl_mem (π := QR.mcastLast) (P := fun k => mcRoute probe (inLastSecond (seen.get k) now) nq q0 = .lastSecond) ?_ _ _ _
    intro acc e x
    cases h : mcRoute probe (inLastSecond (seen.get e.1) now) nq q0 <;> simp [mem_setAdd]
  · refine foldl_mem (π := QR.mcastAgg) (P := fun k => mcRoute probe (inLastSecond (seen.get k) now) nq q0 = .aggregate) ?_ _ _ _
    intro acc e x
    cases h : mcRoute probe (inLastSecond (seen.get e.1) now) nq q0 <;> simp [mem_setAdd]
  · refine foldl_const (π := QR.ucast) ?_ _ _
    intro acc e
    cases h : mcRoute probe (inLastSecond (seen.get e.1) now) nq q0 <;> simp

/-- `add_qu_question_response`: where each answer goes -/
theorem addQu_sets (probe : Bool) (seen : SeenMap) (now : Int) (answers : Dict) (qr : QR) (r : RecId) :
    (r ∈ (qr.addQu probe seen now answers).ucast ↔
        r ∈ qr.ucast ∨ (r ∈ answers.keys ∧ (probe = true ∨ withinQuarter (seen.get r) now = true))) ∧
    (r ∈ (qr.addQu probe seen now answers).mcastNow ↔
        r ∈ qr.mcastNow ∨ (r ∈ answers.keys ∧ withinQuarter (seen.get r) now = false)) ∧
    (qr.addQu probe seen now answers).mcastAgg = qr.mcastAgg ∧
    (qr.addQu probe seen now answers).mcastLast = qr.mcastLast := by
  unfold QR.addQu
  refine ⟨?_, ?_, ?_, ?_⟩
  · refine foldl_mem (π := QR.ucast) (P := fun k => probe = true ∨ withinQuarter (seen.get k) now = true) ?_ _ _ _
    intro acc e x
    simp only [quRoute_spec]
    cases probe <;> cases withinQuarter (seen.get e.1) now <;> simp [mem_setAdd]
  · refine foldl_mem (π := QR.mcastNow) (P := fun k => withinQuarter (seen.get k) now = false) ?_ _ _ _
    intro acc e x
    simp only [quRoute_spec]
    cases probe <;> cases withinQuarter (seen.get e.1) now <;> simp [mem_setAdd]
  · refine foldl_const (π := QR.mcastAgg) ?_ _ _
    intro acc e; simp only
  · refine foldl_const (π := QR.mcastLast) ?_ _ _
    intro acc e; simp only

/-- `add_ucast_question_response`: every answer is unicast -/
theorem addUcast_sets (answers : Dict) (qr : QR) (r : RecId) :
    (r ∈ (qr.addUcast answers).ucast ↔ r ∈ qr.ucast ∨ r ∈ answers.keys) ∧
    (qr.addUcast answers).mcastNow = qr.mcastNow ∧ (qr.addUcast answers).mcastAgg = qr.mcastAgg ∧
    (qr.addUcast answers).mcastLast = qr.mcastLast := by
  refine ⟨?_, rfl, rfl, rfl⟩
  unfold QR.addUcast
  simp only
  generalize qr.ucast = s
  induction answers.keys generalizing s with
  | nil => simp
  | cons k ks ih =>
    simp only [List.foldl_cons, List.mem_cons]
    rw [ih, mem_setAdd]
    constructor
    · rintro ((h | h) | h); exact Or.inl h; exact Or.inr (Or.inl h); exact Or.inr (Or.inr h)
    · rintro (h | h | h); exact Or.inl (Or.inl h); exact Or.inl (Or.inr h); exact Or.inr h

end Zc.Reply
