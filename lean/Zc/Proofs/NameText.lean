import Zc.Model.NameText
import Zc.GenFacts.NameText
import Zc.Proofs.Utf8Scalar
/-! Lemmas about the text layer of names (`Zc.Model.NameText`): `split`/`join`, per-label UTF-8,
`write_name`'s label list versus `_read_name`'s text.  Core Lean only. -/
namespace Zc.NameText
open Zc Zc.Wire

/-! ## `split` / `join` -/
section generic
variable {α : Type} [DecidableEq α] (sep : α)

theorem splitOn_ne_nil (s : List α) : splitOn sep s ≠ [] := by
  cases s with
  | nil => simp [splitOn]
  | cons c r =>
    unfold splitOn
    split
    · simp
    · split <;> simp

theorem splitOn_cons_sep (r : List α) : splitOn sep (sep :: r) = [] :: splitOn sep r := by
  rw [splitOn]; simp

theorem splitOn_cons_ne {c : α} (h : c ≠ sep) {r l : List α} {ls : List (List α)} (hr : splitOn sep r = l :: ls) :
    splitOn sep (c :: r) = (c :: l) :: ls := by
  rw [splitOn]; simp [h, hr]

/-- **`sep.join(s.split(sep)) == s`**, for every `s` -/
theorem joinWith_splitOn (s : List α) : joinWith sep (splitOn sep s) = s := by
  induction s with
  | nil => simp [splitOn, joinWith]
  | cons c r ih =>
    cases hr : splitOn sep r with
    | nil => exact absurd hr (splitOn_ne_nil sep r)
    | cons l ls =>
      rw [hr] at ih
      by_cases hc : c = sep
      · subst hc
        rw [splitOn_cons_sep, hr]
        simp [joinWith, ih]
      · rw [splitOn_cons_ne sep hc hr]
        cases ls with
        | nil => simp only [joinWith] at ih ⊢; rw [ih]
        | cons l' ls' => simp only [joinWith, List.cons_append] at ih ⊢; rw [ih]

/-- no piece of a split contains the separator -/
theorem splitOn_mem_no_sep : ∀ (s : List α) (l : List α), l ∈ splitOn sep s → sep ∉ l := by
  intro s
  induction s with
  | nil => intro l hl; simp [splitOn] at hl; subst hl; simp
  | cons c r ih =>
    intro l hl
    cases hr : splitOn sep r with
    | nil => exact absurd hr (splitOn_ne_nil sep r)
    | cons p ps =>
      by_cases hc : c = sep
      · subst hc
        rw [splitOn_cons_sep, hr] at hl
        rcases List.mem_cons.mp hl with rfl | hl
        · simp
        · exact ih l (by rw [hr]; exact hl)
      · rw [splitOn_cons_ne sep hc hr] at hl
        rcases List.mem_cons.mp hl with rfl | hl
        · have := ih p (by rw [hr]; exact List.mem_cons_self)
          intro hm
          rcases List.mem_cons.mp hm with h | h
          · exact hc h.symm
          · exact this h
        · exact ih l (by rw [hr]; exact List.mem_cons_of_mem _ hl)

/-- the pieces are made of elements of the input -/
theorem splitOn_mem_sub : ∀ (s : List α) (l : List α), l ∈ splitOn sep s → ∀ x ∈ l, x ∈ s := by
  intro s
  induction s with
  | nil => intro l hl x hx; simp [splitOn] at hl; subst hl; simp at hx
  | cons c r ih =>
    intro l hl x hx
    cases hr : splitOn sep r with
    | nil => exact absurd hr (splitOn_ne_nil sep r)
    | cons p ps =>
      by_cases hc : c = sep
      · subst hc
        rw [splitOn_cons_sep, hr] at hl
        rcases List.mem_cons.mp hl with rfl | hl
        · simp at hx
        · exact List.mem_cons_of_mem _ (ih l (by rw [hr]; exact hl) x hx)
      · rw [splitOn_cons_ne sep hc hr] at hl
        rcases List.mem_cons.mp hl with rfl | hl
        · rcases List.mem_cons.mp hx with rfl | hx
          · exact List.mem_cons_self
          · exact List.mem_cons_of_mem _ (ih p (by rw [hr]; exact List.mem_cons_self) x hx)
        · exact List.mem_cons_of_mem _ (ih l (by rw [hr]; exact List.mem_cons_of_mem _ hl) x hx)

theorem splitOn_of_no_sep (l : List α) (h : sep ∉ l) : splitOn sep l = [l] := by
  induction l with
  | nil => simp [splitOn]
  | cons c r ih =>
    have hc : c ≠ sep := fun e => h (by simp [e])
    have hr : sep ∉ r := fun e => h (List.mem_cons_of_mem _ e)
    exact splitOn_cons_ne sep hc (ih hr)

theorem splitOn_append_sep (a b : List α) : splitOn sep (a ++ sep :: b) = splitOn sep a ++ splitOn sep b := by
  induction a with
  | nil => simp [splitOn_cons_sep, splitOn]
  | cons c a ih =>
    by_cases hc : c = sep
    · subst hc
      simp only [List.cons_append]
      rw [splitOn_cons_sep, splitOn_cons_sep, ih]; simp
    · cases ha : splitOn sep a with
      | nil => exact absurd ha (splitOn_ne_nil sep a)
      | cons l ls =>
        simp only [List.cons_append]
        rw [splitOn_cons_ne sep hc ha, splitOn_cons_ne sep hc (l := l) (ls := ls ++ splitOn sep b) (by rw [ih, ha]; simp)]
        simp

omit [DecidableEq α] in
theorem joinWith_cons (l : List α) {rest : List (List α)} (h : rest ≠ []) :
    joinWith sep (l :: rest) = l ++ sep :: joinWith sep rest := by
  cases rest with
  | nil => exact absurd rfl h
  | cons l' ls => simp [joinWith]

/-- splitting a join splits every element (a non-empty list of pieces) -/
theorem splitOn_joinWith_flatMap : ∀ (ls : List (List α)), ls ≠ [] →
    splitOn sep (joinWith sep ls) = ls.flatMap (splitOn sep) := by
  intro ls
  induction ls with
  | nil => intro h; exact absurd rfl h
  | cons l rest ih =>
    intro _
    cases rest with
    | nil => simp [joinWith]
    | cons l' ls' =>
      rw [joinWith_cons sep l (by simp), splitOn_append_sep, ih (by simp)]
      simp

/-- **`sep.join(ls).split(sep) == ls`** when `ls` is non-empty and no element contains the separator -/
theorem splitOn_joinWith (ls : List (List α)) (hne : ls ≠ []) (h : ∀ l ∈ ls, sep ∉ l) :
    splitOn sep (joinWith sep ls) = ls := by
  rw [splitOn_joinWith_flatMap sep ls hne]
  clear hne
  induction ls with
  | nil => rfl
  | cons l rest ih =>
    rw [List.flatMap_cons, splitOn_of_no_sep sep l (h l List.mem_cons_self), ih (fun x hx => h x (List.mem_cons_of_mem _ hx))]
    rfl

/-- … and only then -/
theorem splitOn_joinWith_iff (ls : List (List α)) :
    splitOn sep (joinWith sep ls) = ls ↔ ls ≠ [] ∧ ∀ l ∈ ls, sep ∉ l := by
  constructor
  · intro h
    refine ⟨?_, ?_⟩
    · intro e; rw [e] at h; exact splitOn_ne_nil sep _ h
    · intro l hl
      rw [← h] at hl
      exact splitOn_mem_no_sep sep _ l hl
  · intro ⟨h1, h2⟩
    exact splitOn_joinWith sep ls h1 h2

omit [DecidableEq α] in
/-- characters of a join: every piece plus one separator each, minus one -/
theorem length_joinWith : ∀ (ls : List (List α)), ls ≠ [] →
    (joinWith sep ls).length + 1 = (ls.map (fun l => l.length + 1)).sum := by
  intro ls
  induction ls with
  | nil => intro h; exact absurd rfl h
  | cons l rest ih =>
    intro _
    cases rest with
    | nil => simp [joinWith]
    | cons l' ls' =>
      rw [joinWith_cons sep l (by simp)]
      have := ih (by simp)
      simp only [List.length_append, List.length_cons, List.map_cons, List.sum_cons] at this ⊢
      omega

/-- `split` commutes with a map that keeps the separator apart -/
theorem splitOn_map {β : Type} [DecidableEq β] (f : α → β) (hf : ∀ c, f c = f sep ↔ c = sep) (s : List α) :
    splitOn (f sep) (s.map f) = (splitOn sep s).map (List.map f) := by
  induction s with
  | nil => simp [splitOn]
  | cons c r ih =>
    cases hr : splitOn sep r with
    | nil => exact absurd hr (splitOn_ne_nil sep r)
    | cons l ls =>
      rw [hr] at ih
      by_cases hc : c = sep
      · subst hc
        simp only [List.map_cons]
        rw [splitOn_cons_sep, splitOn_cons_sep, ih, hr]; simp
      · have hfc : f c ≠ f sep := fun e => hc ((hf c).mp e)
        simp only [List.map_cons]
        rw [splitOn_cons_ne sep hc hr,
          splitOn_cons_ne (f sep) hfc (l := l.map f) (ls := ls.map (List.map f)) (by rw [ih]; rfl)]
        rfl

end generic

/-! ### the same for `'.'` -/

theorem splitDot_ne_nil (s : Text) : splitDot s ≠ [] := splitOn_ne_nil dot s

/-- **`'.'.join(s.split('.')) == s`** -/
theorem joinDot_splitDot (s : Text) : joinDot (splitDot s) = s := joinWith_splitOn dot s

theorem splitDot_mem_no_dot {s l : Text} (h : l ∈ splitDot s) : dot ∉ l := splitOn_mem_no_sep dot s l h

/-- **`'.'.join(ls).split('.') == ls` iff `ls` is non-empty and no label contains a dot** -/
theorem splitDot_joinDot_iff (ls : List Text) : splitDot (joinDot ls) = ls ↔ ls ≠ [] ∧ ∀ l ∈ ls, dot ∉ l :=
  splitOn_joinWith_iff dot ls

theorem splitDot_joinDot (ls : List Text) (hne : ls ≠ []) (h : ∀ l ∈ ls, dot ∉ l) : splitDot (joinDot ls) = ls :=
  splitOn_joinWith dot ls hne h

/-! ### one trailing dot -/

theorem endsWithDot_iff (s : Text) : endsWithDot s = true ↔ ∃ t, s = t ++ [dot] := by
  unfold endsWithDot
  rw [beq_iff_eq, List.getLast?_eq_some_iff]

theorem stripTrailingDot_append_dot (t : Text) : stripTrailingDot (t ++ [dot]) = t := by
  unfold stripTrailingDot
  rw [if_pos ((endsWithDot_iff _).mpr ⟨t, rfl⟩)]
  simp

theorem endsWithDot_append_dot (t : Text) : endsWithDot (t ++ [dot]) = true := (endsWithDot_iff _).mpr ⟨t, rfl⟩

/-- a name that ends with a dot is its own canonical spelling -/
theorem canonical_of_endsWithDot {s : Text} (h : endsWithDot s = true) : canonical s = s := by
  obtain ⟨t, rfl⟩ := (endsWithDot_iff s).mp h
  unfold canonical
  rw [stripTrailingDot_append_dot]

/-- a name without trailing dot comes back with one -/
theorem canonical_of_not_endsWithDot {s : Text} (h : endsWithDot s = false) : canonical s = s ++ [dot] := by
  unfold canonical stripTrailingDot
  rw [h]; rfl

theorem stripTrailingDot_canonical (s : Text) : stripTrailingDot (canonical s) = stripTrailingDot s := by
  unfold canonical
  rw [stripTrailingDot_append_dot]

/-! ## characters and code points, `encode` / `decode` per label -/

theorem isScalar_iff_valid (n : Nat) : Utf8.IsScalar n ↔ n.isValidChar := by
  unfold Utf8.IsScalar Nat.isValidChar; omega

/-- a `Char` is a Unicode scalar value -/
theorem toNat_scalar (c : Char) : Utf8.IsScalar c.toNat := (isScalar_iff_valid _).mpr c.valid

theorem toNat_ofNat {n : Nat} (h : Utf8.IsScalar n) : (Char.ofNat n).toNat = n := by
  have hv := (isScalar_iff_valid n).mp h
  simp [Char.ofNat, hv, Char.ofNatAux, Char.toNat]

theorem map_toNat_map_ofNat : ∀ {cps : List Nat}, (∀ c ∈ cps, Utf8.IsScalar c) → (cps.map Char.ofNat).map Char.toNat = cps := by
  intro cps
  induction cps with
  | nil => intro _; rfl
  | cons c r ih =>
    intro h
    simp only [List.map_cons]
    rw [toNat_ofNat (h c List.mem_cons_self), ih (fun x hx => h x (List.mem_cons_of_mem _ hx))]

theorem map_ofNat_map_toNat (s : Text) : (s.map Char.toNat).map Char.ofNat = s := by
  induction s with
  | nil => rfl
  | cons c r ih => simp only [List.map_cons, Char.ofNat_toNat, ih]

theorem text_scalar (s : Text) : ∀ c ∈ s.map Char.toNat, Utf8.IsScalar c := by
  intro c hc
  obtain ⟨x, _, rfl⟩ := List.mem_map.mp hc
  exact toNat_scalar x

/-- **`s.encode('utf-8').decode('utf-8', 'replace') == s`** for every `str` without lone surrogates -/
theorem decodeLabel_encodeText (s : Text) : decodeLabel (encodeText s) = s := by
  unfold decodeLabel encodeText
  rw [Utf8.decode_encode _ (text_scalar s)]
  exact map_ofNat_map_toNat s

theorem encodeText_injective {a b : Text} (h : encodeText a = encodeText b) : a = b := by
  have := congrArg decodeLabel h
  rwa [decodeLabel_encodeText, decodeLabel_encodeText] at this

/-- what `encode` makes of a decoded label is the encoding of its code points (they are scalar values) -/
theorem toNat_decodeLabel (l : Label) : (decodeLabel l).map Char.toNat = Utf8.decodeReplace l :=
  map_toNat_map_ofNat (Utf8.decodeReplace_scalar l)

/-- every encoded `str` is text in the sense of C01 / C02 (`Utf8.IsText`) -/
theorem encodeText_isText (s : Text) : Utf8.IsText (encodeText s) := ⟨s.map Char.toNat, text_scalar s, rfl⟩

theorem encodeText_nil : encodeText [] = [] := rfl

theorem encodeText_append (a b : Text) : encodeText (a ++ b) = encodeText a ++ encodeText b := by
  simp [encodeText, Utf8.encode]

theorem utf8Len_append (a b : Text) : utf8Len (a ++ b) = utf8Len a + utf8Len b := by
  simp [utf8Len, encodeText_append]

theorem utf8Len_dot : utf8Len [dot] = 1 := by decide

theorem utf8Len_cons_dot (b : Text) : utf8Len (dot :: b) = 1 + utf8Len b := by
  have := utf8Len_append [dot] b
  rw [utf8Len_dot] at this
  exact this

/-- bytes of a join: every piece plus one byte per dot -/
theorem utf8Len_joinDot : ∀ (ls : List Text), ls ≠ [] → utf8Len (joinDot ls) + 1 = (ls.map (fun l => utf8Len l + 1)).sum := by
  intro ls
  induction ls with
  | nil => intro h; exact absurd rfl h
  | cons l rest ih =>
    intro _
    cases rest with
    | nil => simp [joinDot, joinWith]
    | cons l' ls' =>
      unfold joinDot at ih ⊢
      rw [joinWith_cons dot l (by simp), utf8Len_append, utf8Len_cons_dot]
      have := ih (by simp)
      simp only [List.map_cons, List.sum_cons] at this ⊢
      omega

theorem charCount_eq (l : Label) : Utf8.charCount l = (decodeLabel l).length := by
  simp [Utf8.charCount, decodeLabel]

theorem map_decode_map_encode (ls : List Text) : (ls.map encodeText).map decodeLabel = ls := by
  induction ls with
  | nil => rfl
  | cons l r ih => simp only [List.map_cons, decodeLabel_encodeText, ih]

/-! ## `write_name`'s labels against `_read_name`'s text -/

/-- **Text-level round trip of one name**, for *every* `str` (empty labels, no trailing dot, dots anywhere):
splitting and encoding it as `write_name` does, then decoding each label with `'replace'` and joining as
`_read_name` does, gives the name back — with exactly one trailing dot (`canonical`). -/
theorem textOfLabels_labelsOfText (s : Text) : textOfLabels (labelsOfText s) = canonical s := by
  unfold textOfLabels labelsOfText canonical
  rw [map_decode_map_encode, joinDot_splitDot]

/-- for a fully-qualified name (trailing dot) the string itself comes back -/
theorem textOfLabels_labelsOfText_fq {s : Text} (h : endsWithDot s = true) : textOfLabels (labelsOfText s) = s := by
  rw [textOfLabels_labelsOfText, canonical_of_endsWithDot h]

/-- **`len(name)` of the decoded name is the model's `nameLen`**: the quantity `_read_name` compares with
`MAX_NAME_LENGTH` (and the 253 of C02's statement) is a number of characters of the joined text -/
theorem textOfLabels_length (n : WName) : (textOfLabels n).length = nameLen n := by
  unfold textOfLabels nameLen
  cases n with
  | nil => rfl
  | cons l rest =>
    have h := length_joinWith dot ((l :: rest).map decodeLabel) (by simp)
    simp only [List.length_append, List.length_singleton, List.isEmpty_cons, Bool.false_eq_true, if_false]
    unfold joinDot
    rw [h, List.map_map]
    congr 1
    apply List.map_congr_left
    intro x _
    simp [charCount_eq]

theorem char_ofNat_dot : Char.ofNat 0x2E = dot := by decide

theorem char_ofNat_eq_dot (c : Nat) : Char.ofNat c = Char.ofNat 0x2E ↔ c = 0x2E := by
  constructor
  · intro h
    by_cases hv : Utf8.IsScalar c
    · have := congrArg Char.toNat h
      rwa [toNat_ofNat hv, toNat_ofNat (by decide)] at this
    · exfalso
      have hv' : ¬ c.isValidChar := fun e => hv ((isScalar_iff_valid c).mpr e)
      have h0 : (Char.ofNat c).toNat = 0 := by simp [Char.ofNat, hv', Char.toNat]
      have := congrArg Char.toNat h
      rw [h0, toNat_ofNat (by decide)] at this
      omega
  · rintro rfl; rfl

/-- splitting decoded text at `'.'` is splitting its code points at U+002E -/
theorem splitDot_decodeLabel (l : Label) :
    splitDot (decodeLabel l) = (splitOn 0x2E (Utf8.decodeReplace l)).map (List.map Char.ofNat) := by
  unfold splitDot decodeLabel
  rw [← char_ofNat_dot]
  exact splitOn_map 0x2E Char.ofNat char_ofNat_eq_dot _

/-- the labels `write_name` writes for the text of one decoded label: its code points split at U+002E, each piece encoded -/
theorem pieces_decodeLabel (l : Label) :
    (splitDot (decodeLabel l)).map encodeText = (splitOn 0x2E (Utf8.decodeReplace l)).map Utf8.encode := by
  rw [splitDot_decodeLabel, List.map_map]
  apply List.map_congr_left
  intro p hp
  simp only [Function.comp, encodeText]
  rw [map_toNat_map_ofNat]
  intro c hc
  exact Utf8.decodeReplace_scalar l c (splitOn_mem_sub 0x2E _ p hp c hc)

theorem flatMap_congr' {α β : Type} {f g : α → List β} : ∀ {l : List α}, (∀ x ∈ l, f x = g x) → l.flatMap f = l.flatMap g := by
  intro l
  induction l with
  | nil => intro _; rfl
  | cons a r ih =>
    intro h
    rw [List.flatMap_cons, List.flatMap_cons, h a List.mem_cons_self, ih (fun x hx => h x (List.mem_cons_of_mem _ hx))]

/-- **what `write_name` makes of a name `_read_name` returned**: the root name becomes the one empty label
`['']`; otherwise every wire label is decoded, split at its dots, and the pieces are encoded — so a wire
label containing `2e` comes back as several labels, and bytes that were not UTF-8 come back as `ef bf bd`. -/
theorem labelsOfText_textOfLabels (n : WName) :
    labelsOfText (textOfLabels n) =
      if n.isEmpty then [[]] else n.flatMap (fun l => (splitOn 0x2E (Utf8.decodeReplace l)).map Utf8.encode) := by
  unfold labelsOfText textOfLabels
  rw [stripTrailingDot_append_dot]
  cases n with
  | nil => rfl
  | cons l rest =>
    simp only [List.isEmpty_cons, Bool.false_eq_true, if_false]
    unfold joinDot splitDot
    rw [splitOn_joinWith_flatMap dot _ (by simp), List.flatMap_map, List.map_flatMap]
    exact flatMap_congr' (fun x _ => pieces_decodeLabel x)

/-- decode side, the unambiguous case: labels that are text and whose text has no dot are recovered exactly -/
theorem labelsOfText_textOfLabels_of_text (n : WName) (hne : n ≠ [])
    (h : ∀ l ∈ n, Utf8.IsText l ∧ dot ∉ decodeLabel l) : labelsOfText (textOfLabels n) = n := by
  unfold labelsOfText textOfLabels
  rw [stripTrailingDot_append_dot, splitDot_joinDot _ (by simpa using hne)
    (by intro x hx; obtain ⟨l, hl, rfl⟩ := List.mem_map.mp hx; exact (h l hl).2), List.map_map]
  conv => rhs; rw [← List.map_id n]
  apply List.map_congr_left
  intro l hl
  obtain ⟨⟨cps, hs, rfl⟩, _⟩ := h l hl
  simp only [Function.comp, id, encodeText, decodeLabel]
  rw [Utf8.decode_encode _ hs, map_toNat_map_ofNat hs]

/-! ## the names table: text keys (library) against label-list keys (encoder model) -/

/-- the encoder model's table for a `str`-keyed table: every key split and encoded -/
def tblOf (t : TNames) : Encode.Names := t.map (fun p => (keyLabels p.1, p.2))

theorem map_encodeText_injective : ∀ {a b : List Text}, a.map encodeText = b.map encodeText → a = b := by
  intro a
  induction a with
  | nil => intro b h; cases b with | nil => rfl | cons _ _ => simp at h
  | cons x xs ih =>
    intro b h
    cases b with
    | nil => simp at h
    | cons y ys =>
      simp only [List.map_cons, List.cons.injEq] at h
      rw [encodeText_injective h.1, ih h.2]

/-- **Key agreement.**  Two text keys are the same `str` iff the encoder model's label-list keys are equal:
`k ↦ [p.encode() for p in k.split('.')]` is injective on all of `str` -/
theorem keyLabels_injective {a b : Text} (h : keyLabels a = keyLabels b) : a = b := by
  unfold keyLabels at h
  have h2 := map_encodeText_injective h
  rw [← joinDot_splitDot a, ← joinDot_splitDot b, h2]

/-- the key of a suffix `'.'.join(labels[count:])` is the label-list suffix -/
theorem keyLabels_joinDot (ls : List Text) (hne : ls ≠ []) (h : ∀ l ∈ ls, dot ∉ l) : keyLabels (joinDot ls) = ls.map encodeText := by
  unfold keyLabels
  rw [splitDot_joinDot ls hne h]

/-- `self.names.get(key, 0)` on the text table is the model's lookup on the label-list table -/
theorem lookup_agrees (names : TNames) (k : Text) : Encode.lookupName (tblOf names) (keyLabels k) = lookupText names k := by
  unfold Encode.lookupName lookupText tblOf
  induction names with
  | nil => rfl
  | cons p r ih =>
    simp only [List.map_cons, List.find?_cons]
    by_cases hk : p.1 = k
    · simp [hk]
    · have hne : keyLabels p.1 ≠ keyLabels k := fun e => hk (keyLabels_injective e)
      simp only [hk, hne, decide_false]
      exact ih

theorem utfOf_ok_length {l : Label} {lb : Bytes} (h : Encode.utfOf l = .ok lb) : lb.length = l.length + 1 := by
  unfold Encode.utfOf at h
  split at h
  · simp at h
  · unfold Encode.byteOf at h
    split at h
    · simp only [bind, Except.bind, pure, Except.pure, Except.ok.injEq] at h
      rw [← h]; simp
    · simp [bind, Except.bind] at h

/-- image of a text-level result under the key translation -/
def onTbl (r : Except PyExc (Bytes × TNames)) : Except PyExc (Bytes × Encode.Names) := r.map (fun x => (x.1, tblOf x.2))

/-- the loop over the remaining labels: the offsets the library computes from text lengths are the
offsets at which the encoder model registers the suffixes, and the keys correspond -/
theorem writeRest_refines (start nlen : Nat) : ∀ (rest : List Text) (names : TNames) (size : Nat),
    (∀ l ∈ rest, dot ∉ l) → start ≤ size → (rest ≠ [] → size + utf8Len (joinDot rest) = start + nlen) →
    onTbl (writeRest start nlen names rest) = Encode.writeName size (tblOf names) (rest.map encodeText) := by
  intro rest
  induction rest with
  | nil =>
    intro names size _ _ _
    simp [writeRest, Encode.writeName, onTbl, Encode.byteOf, bind, Except.bind, pure, Except.pure, Except.map]
  | cons l rest ih =>
    intro names size hd hs hsz
    have hkey : keyLabels (joinDot (l :: rest)) = (l :: rest).map encodeText := keyLabels_joinDot _ (by simp) hd
    have hlook := lookup_agrees names (joinDot (l :: rest))
    rw [hkey] at hlook
    have hsz' := hsz (by simp)
    unfold writeRest
    simp only [List.map_cons] at hlook ⊢
    unfold Encode.writeName
    rw [hlook]
    cases hl : lookupText names (joinDot (l :: rest)) with
    | some idx =>
      simp only
      cases hlk : Encode.linkOf idx with
      | error e => simp [onTbl, Except.map, bind, Except.bind]
      | ok b => simp [onTbl, Except.map, bind, Except.bind, pure, Except.pure]
    | none =>
      simp only
      cases hu : Encode.utfOf (encodeText l) with
      | error e => simp [onTbl, Except.map, bind, Except.bind]
      | ok lb =>
        have hlen := utfOf_ok_length hu
        have hoff : (Gen.NameText.suffix_offset start nlen (utf8Len (joinDot (l :: rest)))).toNat = size := by
          rw [GenFacts.NameText.suffix_offset_eq _ _ _ (by omega)]; omega
        rw [hoff]
        have hrec := ih ((joinDot (l :: rest), size) :: names) (size + lb.length)
          (fun x hx => hd x (List.mem_cons_of_mem _ hx)) (by omega)
          (by
            intro hne
            unfold joinDot at hsz' ⊢
            rw [joinWith_cons dot l hne, utf8Len_append, utf8Len_cons_dot] at hsz'
            unfold utf8Len at hsz' ⊢
            omega)
        have htbl : tblOf ((joinDot (l :: rest), size) :: names) = (encodeText l :: rest.map encodeText, size) :: tblOf names := by
          simp only [tblOf, List.map_cons, hkey]
        rw [htbl] at hrec
        simp only [bind, Except.bind]
        rw [← hrec]
        cases writeRest start nlen ((joinDot (l :: rest), size) :: names) rest with
        | error e => simp [onTbl, Except.map]
        | ok v => simp [onTbl, Except.map, pure, Except.pure]

/-- **Compression-table agreement.**  `DNSOutgoing.write_name` as the library runs it — a `dict` keyed by the
*text* of the stripped name and of each proper suffix (`'.'.join(labels[count:])`), offsets computed as
`start_size + len(name.encode()) - len(partial_name.encode())` — appends exactly the bytes, raises exactly the
exception, and leaves exactly the table (keys translated by `k ↦ [p.encode() for p in k.split('.')]`, which is
injective) that the encoder model `Encode.writeName` produces on the label list `labelsOfText name`.  For every
`str`, every table and every offset: this is the assumption under which `Wire.Encode` keys its table by label lists. -/
theorem writeNameText_refines (size : Nat) (names : TNames) (name : Text) :
    onTbl (writeNameText size names name) = Encode.writeName size (tblOf names) (labelsOfText name) := by
  unfold writeNameText labelsOfText
  have hlook := lookup_agrees names (stripTrailingDot name)
  have hjoin := joinDot_splitDot (stripTrailingDot name)
  have hdot : ∀ l ∈ splitDot (stripTrailingDot name), dot ∉ l := fun l hl => splitDot_mem_no_dot hl
  have hkey : keyLabels (stripTrailingDot name) = (splitDot (stripTrailingDot name)).map encodeText := rfl
  rw [hkey] at hlook
  simp only
  cases hsp : splitDot (stripTrailingDot name) with
  | nil => exact absurd hsp (splitDot_ne_nil _)
  | cons l0 rest =>
    rw [hsp] at hlook hjoin hdot
    simp only [List.map_cons] at hlook ⊢
    unfold Encode.writeName
    rw [hlook]
    cases hl : lookupText names (stripTrailingDot name) with
    | some idx =>
      simp only
      cases hlk : Encode.linkOf idx with
      | error e => simp [onTbl, Except.map, bind, Except.bind]
      | ok b => simp [onTbl, Except.map, bind, Except.bind, pure, Except.pure]
    | none =>
      simp only
      cases hu : Encode.utfOf (encodeText l0) with
      | error e => simp [onTbl, Except.map, bind, Except.bind]
      | ok lb =>
        have hlen := utfOf_ok_length hu
        have hrec := writeRest_refines size (utf8Len (stripTrailingDot name)) rest ((stripTrailingDot name, size) :: names)
          (size + lb.length) (fun x hx => hdot x (List.mem_cons_of_mem _ hx)) (by omega)
          (by
            intro hne
            rw [← hjoin]
            unfold joinDot
            rw [joinWith_cons dot l0 hne, utf8Len_append, utf8Len_cons_dot]
            unfold utf8Len
            omega)
        have htbl : tblOf ((stripTrailingDot name, size) :: names) = (encodeText l0 :: rest.map encodeText, size) :: tblOf names := by
          simp only [tblOf, List.map_cons, keyLabels, hsp]
        rw [htbl] at hrec
        simp only [bind, Except.bind]
        rw [← hrec]
        cases writeRest size (utf8Len (stripTrailingDot name)) ((stripTrailingDot name, size) :: names) rest with
        | error e => simp [onTbl, Except.map]
        | ok v => simp [onTbl, Except.map, pure, Except.pure]

end Zc.NameText
