import Zc.Model.NameText
import Zc.GenFacts.NameText
import Zc.Proofs.Utf8RoundTrip
/-! Lemmas about the text layer of names (`Zc.Model.NameText`): `split`/`join`, per-label UTF-8,
`write_name`'s label list versus `_read_name`'s text.  Core Lean only. -/
namespace Zc.NameText
open Zc Zc.Wire

/-! ## `split` / `join` -/
section generic
variable {α : Type} [DecidableEq α] (sep : α)

theorem splitOn_ne_nil (s : List α) : splitOn sep s ≠ [] := by
  cases s with
  | nil => simp [splitOn]
  | cons c r =>
    unfold splitOn
    split
    · simp
    · split <;> simp

theorem splitOn_cons_sep (r : List α) : splitOn sep (sep :: r) = [] :: splitOn sep r := by
  rw [splitOn]; simp

theorem splitOn_cons_ne {c : α} (h : c ≠ sep) {r l : List α} {ls : List (List α)} (hr : splitOn sep r = l :: ls) :
    splitOn sep (c :: r) = (c :: l) :: ls := by
  rw [splitOn]; simp [h, hr]

/-- **`sep.join(s.split(sep)) == s`**, for every `s` -/
theorem joinWith_splitOn (s : List α) : joinWith sep (splitOn sep s) = s := by
  induction s with
  | nil => simp [splitOn, joinWith]
  | cons c r ih =>
    cases hr : splitOn sep r with
    | nil => exact absurd hr (splitOn_ne_nil sep r)
    | cons l ls =>
      rw [hr] at ih
      by_cases hc : c = sep
      · subst hc
        rw [splitOn_cons_sep, hr]
        simp [joinWith, ih]
      · rw [splitOn_cons_ne sep hc hr]
        cases ls with
        | nil => simp only [joinWith] at ih ⊢; rw [ih]
        | cons l' ls' => simp only [joinWith, List.cons_append] at ih ⊢; rw [ih]

/-- no piece of a split contains the separator -/
theorem splitOn_mem_no_sep : ∀ (s : List α) (l : List α), l ∈ splitOn sep s → sep ∉ l := by
  intro s
  induction s with
  | nil => intro l hl; simp [splitOn] at hl; subst hl; simp
  | cons c r ih =>
    intro l hl
    cases hr : splitOn sep r with
    | nil => exact absurd hr (splitOn_ne_nil sep r)
    | cons p ps =>
      by_cases hc : c = sep
      · subst hc
        rw [splitOn_cons_sep, hr] at hl
        rcases List.mem_cons.mp hl with rfl | hl
        · simp
        · exact ih l (by rw [hr]; exact hl)
      · rw [splitOn_cons_ne sep hc hr] at hl
        rcases List.mem_cons.mp hl with rfl | hl
        · have := ih p (by rw [hr]; exact List.mem_cons_self)
          intro hm
          rcases List.mem_cons.mp hm with h | h
          · exact hc h.symm
          · exact this h
        · exact ih l (by rw [hr]; exact List.mem_cons_of_mem _ hl)

theorem splitOn_of_no_sep (l : List α) (h : sep ∉ l) : splitOn sep l = [l] := by
  induction l with
  | nil => simp [splitOn]
  | cons c r ih =>
    have hc : c ≠ sep := fun e => h (by simp [e])
    have hr : sep ∉ r := fun e => h (List.mem_cons_of_mem _ e)
    exact splitOn_cons_ne sep hc (ih hr)

theorem splitOn_append_sep (a b : List α) : splitOn sep (a ++ sep :: b) = splitOn sep a ++ splitOn sep b := by
  induction a with
  | nil => simp [splitOn_cons_sep, splitOn]
  | cons c a ih =>
    by_cases hc : c = sep
    · subst hc
      simp only [List.cons_append]
      rw [splitOn_cons_sep, splitOn_cons_sep, ih]; simp
    · cases ha : splitOn sep a with
      | nil => exact absurd ha (splitOn_ne_nil sep a)
      | cons l ls =>
        simp only [List.cons_append]
        rw [splitOn_cons_ne sep hc ha, splitOn_cons_ne sep hc (l := l) (ls := ls ++ splitOn sep b) (by rw [ih, ha]; simp)]
        simp

omit [DecidableEq α] in
theorem joinWith_cons (l : List α) {rest : List (List α)} (h : rest ≠ []) :
    joinWith sep (l :: rest) = l ++ sep :: joinWith sep rest := by
  cases rest with
  | nil => exact absurd rfl h
  | cons l' ls => simp [joinWith]

/-- splitting a join splits every element (a non-empty list of pieces) -/
theorem splitOn_joinWith_flatMap : ∀ (ls : List (List α)), ls ≠ [] →
    splitOn sep (joinWith sep ls) = ls.flatMap (splitOn sep) := by
  intro ls
  induction ls with
  | nil => intro h; exact absurd rfl h
  | cons l rest ih =>
    intro _
    cases rest with
    | nil => simp [joinWith]
    | cons l' ls' =>
      rw [joinWith_cons sep l (by simp), splitOn_append_sep, ih (by simp)]
      simp

/-- **`sep.join(ls).split(sep) == ls`** when `ls` is non-empty and no element contains the separator -/
theorem splitOn_joinWith (ls : List (List α)) (hne : ls ≠ []) (h : ∀ l ∈ ls, sep ∉ l) :
    splitOn sep (joinWith sep ls) = ls := by
  rw [splitOn_joinWith_flatMap sep ls hne]
  clear hne
  induction ls with
  | nil => rfl
  | cons l rest ih =>
    rw [List.flatMap_cons, splitOn_of_no_sep sep l (h l List.mem_cons_self), ih (fun x hx => h x (List.mem_cons_of_mem _ hx))]
    rfl

/-- … and only then -/
theorem splitOn_joinWith_iff (ls : List (List α)) :
    splitOn sep (joinWith sep ls) = ls ↔ ls ≠ [] ∧ ∀ l ∈ ls, sep ∉ l := by
  constructor
  · intro h
    refine ⟨?_, ?_⟩
    · intro e; rw [e] at h; exact splitOn_ne_nil sep _ h
    · intro l hl
      rw [← h] at hl
      exact splitOn_mem_no_sep sep _ l hl
  · intro ⟨h1, h2⟩
    exact splitOn_joinWith sep ls h1 h2

omit [DecidableEq α] in
/-- characters of a join: every piece plus one separator each, minus one -/
theorem length_joinWith : ∀ (ls : List (List α)), ls ≠ [] →
    (joinWith sep ls).length + 1 = (ls.map (fun l => l.length + 1)).sum := by
  intro ls
  induction ls with
  | nil => intro h; exact absurd rfl h
  | cons l rest ih =>
    intro _
    cases rest with
    | nil => simp [joinWith]
    | cons l' ls' =>
      rw [joinWith_cons sep l (by simp)]
      have := ih (by simp)
      simp only [List.length_append, List.length_cons, List.map_cons, List.sum_cons] at this ⊢
      omega

/-- `split` commutes with a map that keeps the separator apart -/
theorem splitOn_map {β : Type} [DecidableEq β] (f : α → β) (hf : ∀ c, f c = f sep ↔ c = sep) (s : List α) :
    splitOn (f sep) (s.map f) = (splitOn sep s).map (List.map f) := by
  induction s with
  | nil => simp [splitOn]
  | cons c r ih =>
    cases hr : splitOn sep r with
    | nil => exact absurd hr (splitOn_ne_nil sep r)
    | cons l ls =>
      rw [hr] at ih
      by_cases hc : c = sep
      · subst hc
        simp only [List.map_cons]
        rw [splitOn_cons_sep, splitOn_cons_sep, ih, hr]; simp
      · have hfc : f c ≠ f sep := fun e => hc ((hf c).mp e)
        simp only [List.map_cons]
        rw [splitOn_cons_ne sep hc hr,
          splitOn_cons_ne (f sep) hfc (l := l.map f) (ls := ls.map (List.map f)) (by rw [ih]; rfl)]
        rfl

end generic

/-! ### the same for `'.'` -/

theorem splitDot_ne_nil (s : Text) : splitDot s ≠ [] := splitOn_ne_nil dot s

/-- **`'.'.join(s.split('.')) == s`** -/
theorem joinDot_splitDot (s : Text) : joinDot (splitDot s) = s := joinWith_splitOn dot s

theorem splitDot_mem_no_dot {s l : Text} (h : l ∈ splitDot s) : dot ∉ l := splitOn_mem_no_sep dot s l h

/-- **`'.'.join(ls).split('.') == ls` iff `ls` is non-empty and no label contains a dot** -/
theorem splitDot_joinDot_iff (ls : List Text) : splitDot (joinDot ls) = ls ↔ ls ≠ [] ∧ ∀ l ∈ ls, dot ∉ l :=
  splitOn_joinWith_iff dot ls

theorem splitDot_joinDot (ls : List Text) (hne : ls ≠ []) (h : ∀ l ∈ ls, dot ∉ l) : splitDot (joinDot ls) = ls :=
  splitOn_joinWith dot ls hne h

/-! ### one trailing dot -/

theorem endsWithDot_iff (s : Text) : endsWithDot s = true ↔ ∃ t, s = t ++ [dot] := by
  unfold endsWithDot
  rw [beq_iff_eq, List.getLast?_eq_some_iff]

theorem stripTrailingDot_append_dot (t : Text) : stripTrailingDot (t ++ [dot]) = t := by
  unfold stripTrailingDot
  rw [if_pos ((endsWithDot_iff _).mpr ⟨t, rfl⟩)]
  simp

theorem endsWithDot_append_dot (t : Text) : endsWithDot (t ++ [dot]) = true := (endsWithDot_iff _).mpr ⟨t, rfl⟩

/-- a name that ends with a dot is its own canonical spelling -/
theorem canonical_of_endsWithDot {s : Text} (h : endsWithDot s = true) : canonical s = s := by
  obtain ⟨t, rfl⟩ := (endsWithDot_iff s).mp h
  unfold canonical
  rw [stripTrailingDot_append_dot]

/-- a name without trailing dot comes back with one -/
theorem canonical_of_not_endsWithDot {s : Text} (h : endsWithDot s = false) : canonical s = s ++ [dot] := by
  unfold canonical stripTrailingDot
  rw [h]; rfl

theorem stripTrailingDot_canonical (s : Text) : stripTrailingDot (canonical s) = stripTrailingDot s := by
  unfold canonical
  rw [stripTrailingDot_append_dot]

end Zc.NameText
