import Zc.Model.SurviveRoute
import Zc.Proofs.SurviveComp
import Zc.Proofs.Response
import Zc.Proofs.QueueRun
/-! `RouteOK` and `QueueOK` (C15's residual assumptions 2 and 3) proved for the instance
`Zc.Survive.Route.rest` built from the reply model of C12/C11.

The instance's functions are total by construction; what "returns normally" has to mean for a
totalised model is that its *defaults are unreachable*.  The Python raise sites considered, and what
discharges each:

| site | why it cannot raise |
|---|---|
| `self._cache.async_get_unique(record)` in `_has_mcast_within_one_quarter_ttl` / `_has_mcast_record_in_last_second` | `dict.get` twice (no `KeyError`); keyed by record `__hash__`/`__eq__`, total by C20; modelled by the real cache model `Cache.getUnique`, a total function |
| `maybe_entry.is_recent(now)`, `now - maybe_entry.created` | arithmetic on an entry that exists (`is not None` tested first; model: `Option` match) |
| `self._questions[0]` in `add_mcast_question_response` | guarded by `len(self._questions) == 1` (model: `nq`/`q0type`, no indexing) |
| `{r: self._additionals[r] for r in self._ucast}` … in `answers()` (**`KeyError` site**) | `answers_wf`: every member of the four sets is a key of `_additionals` — the model's `Dict.get` default is unreachable |
| `msgs[0]`, `packets[0]` | C15's `LInv` (`handleAssembled` has the `IndexError` explicitly) |
| `question_history.add_question_at_time` | dict assignment keyed by `DNSQuestion` (hashable, C20) |
| ids without a record (model only) | `route_keys_decoded` / `route_adds_decoded`: every id the routing hands out decodes to a record of the block's answer map |
| `RAND_INT(20, 120)` in `async_add` | `ValueError` only if lo > hi: `GenFacts.drawLo_eq`, `drawHi_eq` |
| `self.queue[-1]` in `async_add` | guarded by `len(self.queue)`; `Queue.add_spec` shows the model's `none` branch is never taken |
| `loop.call_at` | raises only on a closed loop (C17: after `close` no block runs); not modelled |
-/
namespace Zc.Survive.Route
open Zc Zc.Survive Zc.Survive.Comp

/-! ### the queue invariant that needs no clock -/

/-- one timer iff the queue is non-empty; groups strictly ordered by `send_after`.  (The timed invariant
`Reply.QInv` — timer due inside the head group's window — additionally needs the event-loop axioms, which
C15's host model does not provide: its `now` is arbitrary.  See `enqueue_timed`.) -/
def QShape (q : Reply.Queue) : Prop :=
  (q.groups = [] ↔ q.timer = none) ∧ q.groups.Pairwise (fun a b => a.sa < b.sa)

theorem QShape.init : QShape {} := ⟨by simp, List.Pairwise.nil⟩

theorem QShape.add {q : Reply.Queue} (h : QShape q) (p : Reply.QP) (c now d : Int) (a : Reply.Dict) :
    QShape (q.add p c now d a) := by
  obtain ⟨h1, h2⟩ := h
  rcases Reply.Queue.add_spec p q c now d a with ⟨_, heq⟩ | ⟨init, last, hq, _, heq⟩ | ⟨init, last, hq, hlt, heq⟩
  · rw [heq]; exact ⟨by simp, by simp⟩
  · rw [heq]
    have hne : q.timer ≠ none := by
      intro ht; have := h1.mpr ht; rw [hq] at this; simp at this
    refine ⟨by simp [hne], ?_⟩
    rw [hq] at h2
    rw [List.pairwise_append] at h2 ⊢
    refine ⟨h2.1, by simp, ?_⟩
    intro x hx y hy
    simp at hy; subst hy
    exact h2.2.2 x hx last (by simp)
  · rw [heq]
    have hne : q.timer ≠ none := by
      intro ht; have := h1.mpr ht; rw [hq] at this; simp at this
    refine ⟨by simp [hne, hq], ?_⟩
    rw [List.pairwise_append]
    refine ⟨h2, by simp, ?_⟩
    intro x hx y hy
    simp at hy; subst hy
    show x.sa < now + (d + p.addl)
    rw [hq] at hx h2
    rcases List.mem_append.mp hx with hx | hx
    · have := (List.pairwise_append.mp h2).2.2 x hx last (by simp); omega
    · simp at hx; subst hx; exact hlt

/-! ### `answers()`: the `KeyError` site -/

section wf
open Zc.Reply

/-- every member of `_ucast`, `_mcast_now`, `_mcast_aggregate`, `_mcast_aggregate_last_second` is a key of `_additionals` -/
def WF (qr : QR) : Prop := ∀ r, qr.mem r → r ∈ qr.additionals.keys

theorem addQu_additionals (probe : Bool) (seen : SeenMap) (now : Int) (answers : Dict) (qr : QR) (x : RecId) :
    x ∈ (qr.addQu probe seen now answers).additionals.keys ↔ x ∈ qr.additionals.keys ∨ x ∈ answers.keys := by
  unfold QR.addQu
  have := foldl_mem (π := fun q : QR => q.additionals.keys) (P := fun _ => True)
    (f := fun (qr : QR) e =>
      let (u, m) := quRoute probe (withinQuarter (seen.get e.1) now)
      { qr with additionals := qr.additionals.set e.1 e.2
                ucast := if u then setAdd qr.ucast e.1 else qr.ucast
                mcastNow := if m then setAdd qr.mcastNow e.1 else qr.mcastNow }) ?_ answers qr x
  · simpa using this
  · intro acc e y
    simp only [Dict.keys_set, and_true]

theorem addMcast_additionals (probe : Bool) (seen : SeenMap) (now : Int) (nq q0 : Nat) (answers : Dict) (qr : QR) :
    (qr.addMcast probe seen now nq q0 answers).additionals = qr.additionals.update answers := by
  unfold QR.addMcast
  refine foldl_const (π := QR.additionals) ?_ _ _
  intro acc e
  cases mcRoute probe (inLastSecond (seen.get e.1) now) nq q0 <;> rfl

theorem WF.route {qr : QR} (h : WF qr) (us probe : Bool) (seen : SeenMap) (now : Int) (nq q0 : Nat) (qu : Bool) (answers : Dict) :
    WF (qr.route us probe seen now nq q0 qu answers) := by
  intro r hr
  obtain ⟨s1, s2, s3, s4⟩ := route_subset us probe seen now nq q0 qr qu answers r
  have hsrc : qr.mem r ∨ r ∈ answers.keys := by
    rcases hr with hr | hr | hr | hr
    · rcases s1 hr with h' | h'; exact Or.inl (Or.inl h'); exact Or.inr h'
    · rcases s2 hr with h' | h'; exact Or.inl (Or.inr (Or.inl h')); exact Or.inr h'
    · rcases s3 hr with h' | h'; exact Or.inl (Or.inr (Or.inr (Or.inl h'))); exact Or.inr h'
    · rcases s4 hr with h' | h'; exact Or.inl (Or.inr (Or.inr (Or.inr h'))); exact Or.inr h'
  have hold : qr.mem r → r ∈ qr.additionals.keys := h r
  -- the additionals of the result contain the old keys and the keys of `answers`
  have hkeys : ∀ x, (x ∈ qr.additionals.keys ∨ x ∈ answers.keys) → x ∈ (qr.route us probe seen now nq q0 qu answers).additionals.keys := by
    intro x hx
    simp only [QR.route]
    split
    · exact (addQu_additionals probe seen now answers qr x).mpr hx
    · cases us
      · simp only [Bool.false_eq_true, if_false]
        rw [addMcast_additionals]; exact (Dict.keys_update _ _ _).mpr hx
      · simp only [if_true]
        rw [addMcast_additionals]
        refine (Dict.keys_update _ _ _).mpr (Or.inl ?_)
        exact (Dict.keys_update _ _ _).mpr hx
  rcases hsrc with h' | h'
  · exact hkeys r (Or.inl (hold h'))
  · exact hkeys r (Or.inr h')

/-- **no `KeyError` in `_QueryResponse.answers()`**: after routing any number of strategies from the empty
response, every record of the four sets has its additionals -/
theorem answers_wf (us probe : Bool) (seen : SeenMap) (now : Int) (nq q0 : Nat) (known : List (RecId × Nat)) (items : List QItem) :
    WF (items.foldl (fun (qr : QR) it => qr.route us probe seen now nq q0 it.qu (answerSet known it)) {}) := by
  have key : ∀ (l : List QItem) (acc : QR), WF acc →
      WF (l.foldl (fun (qr : QR) it => qr.route us probe seen now nq q0 it.qu (answerSet known it)) acc) := by
    intro l
    induction l with
    | nil => intro acc h; exact h
    | cons it l ih => intro acc h; exact ih _ (h.route us probe seen now nq q0 it.qu _)
  apply key
  intro r hr
  rcases hr with hr | hr | hr | hr <;> cases hr

end wf

/-! ### routing hands out only records of the answer map it was given -/

section
variable (lower : String → String)

theorem recOfId_mem {tbl : List Rec} {dict : DictRS} {i : Nat} {r : Rec} (h : recOfId lower tbl dict i = some r) :
    r ∈ dictRecords dict := List.mem_of_find?_eq_some h

theorem decode_sub (tbl : List Rec) (dict : DictRS) (d : Reply.Dict) :
    ∀ x ∈ dictRecords (decode lower tbl dict d), x ∈ dictRecords dict := by
  intro x hx
  unfold dictRecords decode at hx
  rw [List.mem_flatMap] at hx
  obtain ⟨p, hp, hxp⟩ := hx
  rw [List.mem_filterMap] at hp
  obtain ⟨e, _, he⟩ := hp
  cases hr : recOfId lower tbl dict e.1 with
  | none => rw [hr] at he; simp at he
  | some r =>
    rw [hr] at he
    simp only [Option.map_some, Option.some.injEq] at he
    subst he
    simp only [List.mem_cons] at hxp
    rcases hxp with rfl | hxp
    · exact recOfId_mem lower hr
    · rw [List.mem_filterMap] at hxp
      obtain ⟨a, _, ha⟩ := hxp
      exact recOfId_mem lower ha

theorem recOfId_of_mem (tbl : List Rec) (dict : DictRS) {r : Rec} (h : r ∈ dictRecords dict) :
    (recOfId lower tbl dict (idOf lower tbl r)).isSome = true := by
  unfold recOfId
  rw [List.find?_isSome]
  exact ⟨r, h, by simp⟩

variable (attrib : Question → Rec → Bool)

/-- a candidate of a question of one of the packets is an entry of the answer map, with its additionals -/
theorem cand_of_toPkt {tbl : List Rec} {dict : DictRS} {ks : List Survive.Pkt} {p : Reply.Pkt} {it : Reply.QItem} {c : Reply.Cand}
    (hp : p ∈ ks.map (toPkt lower attrib tbl dict)) (hit : it ∈ p.items) (hc : c ∈ it.cands) :
    ∃ e ∈ dict, c.id = idOf lower tbl e.1 ∧ c.adds = e.2.map (idOf lower tbl) := by
  obtain ⟨k, _, rfl⟩ := List.mem_map.mp hp
  simp only [toPkt, toItems, List.mem_map] at hit
  obtain ⟨wq, _, rfl⟩ := hit
  simp only [List.mem_map, List.mem_filter] at hc
  obtain ⟨e, ⟨he, _⟩, rfl⟩ := hc
  exact ⟨e, he, rfl, rfl⟩

/-- **every id the routing hands out decodes**: it is the id of a key of the answer map -/
theorem route_keys_decoded {tbl : List Rec} {dict : DictRS} {ks : List Survive.Pkt} {u : Bool} {seen : Reply.SeenMap} {qa : Reply.QA}
    (h : Reply.asyncResponse (ks.map (toPkt lower attrib tbl dict)) u seen = some qa) (r : Nat)
    (hr : r ∈ qa.ucast.keys ∨ r ∈ qa.mcastNow.keys ∨ r ∈ qa.mcastAgg.keys ∨ r ∈ qa.mcastLast.keys) :
    (recOfId lower tbl dict r).isSome = true := by
  obtain ⟨p, hp, it, hit, c, hc, rfl, _⟩ := Reply.asyncResponse_sources h r hr
  obtain ⟨e, he, hid, _⟩ := cand_of_toPkt lower attrib hp hit hc
  rw [hid]
  apply recOfId_of_mem
  unfold dictRecords
  exact List.mem_flatMap.mpr ⟨e, he, List.mem_cons_self⟩

end

/-! ### … and so does every additional -/

section vals
open Zc.Reply

/-- the value lists of a dict -/
def vals (d : Dict) : List (List RecId) := d.map (·.2)

theorem vals_set (d : Dict) (k : RecId) (v w : List RecId) (h : w ∈ vals (d.set k v)) : w ∈ vals d ∨ w = v := by
  unfold Dict.set at h
  split at h
  · simp only [vals, List.map_map, List.mem_map, Function.comp] at h ⊢
    obtain ⟨e, he, hw⟩ := h
    split at hw
    · exact Or.inr hw.symm
    · exact Or.inl ⟨e, he, hw⟩
  · simp only [vals, List.map_append, List.map_cons, List.map_nil, List.mem_append, List.mem_singleton] at h
    exact h

theorem vals_update (d o : Dict) (w : List RecId) (h : w ∈ vals (d.update o)) : w ∈ vals d ∨ w ∈ vals o := by
  unfold Dict.update at h
  induction o generalizing d with
  | nil => exact Or.inl h
  | cons e o ih =>
    simp only [List.foldl_cons] at h
    rcases ih _ h with h' | h'
    · rcases vals_set _ _ _ _ h' with h'' | h''
      · exact Or.inl h''
      · exact Or.inr (by simp [vals, h''])
    · exact Or.inr (by simp only [vals, List.map_cons, List.mem_cons] at h' ⊢; exact Or.inr h')

theorem vals_answerSet (known : List (RecId × Nat)) (it : QItem) (w : List RecId) (h : w ∈ vals (answerSet known it)) :
    ∃ c ∈ it.cands, w = c.adds := by
  unfold answerSet at h
  have key : ∀ (l : List Cand) (d : Dict), w ∈ vals (l.foldl (fun d c => d.set c.id c.adds) d) → w ∈ vals d ∨ ∃ c ∈ l, w = c.adds := by
    intro l
    induction l with
    | nil => intro d h; exact Or.inl h
    | cons c l ih =>
      intro d h
      simp only [List.foldl_cons] at h
      rcases ih _ h with h' | ⟨c', hc', e⟩
      · rcases vals_set _ _ _ _ h' with h'' | h''
        · exact Or.inl h''
        · exact Or.inr ⟨c, by simp, h''⟩
      · exact Or.inr ⟨c', by simp [hc'], e⟩
  rcases key _ _ h with h' | ⟨c, hc, e⟩
  · simp [vals] at h'
  · exact ⟨c, (List.mem_filter.mp hc).1, e⟩

theorem vals_addQu (probe : Bool) (seen : SeenMap) (now : Int) (answers : Dict) (qr : QR) (w : List RecId)
    (h : w ∈ vals (qr.addQu probe seen now answers).additionals) : w ∈ vals qr.additionals ∨ w ∈ vals answers := by
  unfold QR.addQu at h
  have key : ∀ (l : Dict) (acc : QR),
      w ∈ vals (l.foldl (fun (qr : QR) e =>
        let (u, m) := quRoute probe (withinQuarter (seen.get e.1) now)
        { qr with additionals := qr.additionals.set e.1 e.2
                  ucast := if u then setAdd qr.ucast e.1 else qr.ucast
                  mcastNow := if m then setAdd qr.mcastNow e.1 else qr.mcastNow }) acc).additionals →
      w ∈ vals acc.additionals ∨ w ∈ vals l := by
    intro l
    induction l with
    | nil => intro acc h; exact Or.inl h
    | cons e l ih =>
      intro acc h
      simp only [List.foldl_cons] at h
      rcases ih _ h with h' | h'
      · rcases vals_set _ _ _ _ h' with h'' | h''
        · exact Or.inl h''
        · exact Or.inr (by simp [vals, h''])
      · exact Or.inr (by simp only [vals, List.map_cons, List.mem_cons] at h' ⊢; exact Or.inr h')
  exact key _ _ h

theorem vals_route (us probe : Bool) (seen : SeenMap) (now : Int) (nq q0 : Nat) (qr : QR) (qu : Bool) (answers : Dict) (w : List RecId)
    (h : w ∈ vals (qr.route us probe seen now nq q0 qu answers).additionals) : w ∈ vals qr.additionals ∨ w ∈ vals answers := by
  simp only [QR.route] at h
  split at h
  · exact vals_addQu probe seen now answers qr w h
  · cases us
    · simp only [Bool.false_eq_true, if_false] at h
      rw [addMcast_additionals] at h
      exact vals_update _ _ _ h
    · simp only [if_true] at h
      rw [addMcast_additionals] at h
      rcases vals_update _ _ _ h with h' | h'
      · exact vals_update _ _ _ h'
      · exact Or.inr h'

theorem get_vals (d : Dict) (k : RecId) : d.get k = [] ∨ d.get k ∈ vals d := by
  unfold Dict.get
  cases hf : d.find? (fun e => e.1 == k) with
  | none => exact Or.inl rfl
  | some e => exact Or.inr (List.mem_map_of_mem (List.mem_of_find?_eq_some hf))

/-- every additionals list `async_response` hands out is empty or the additionals of a candidate -/
theorem asyncResponse_adds {pkts : List Reply.Pkt} {us : Bool} {seen : SeenMap} {qa : Reply.QA}
    (h : asyncResponse pkts us seen = some qa) (e : RecId × List RecId)
    (he : e ∈ qa.ucast ∨ e ∈ qa.mcastNow ∨ e ∈ qa.mcastAgg ∨ e ∈ qa.mcastLast) :
    e.2 = [] ∨ ∃ p ∈ pkts, ∃ it ∈ p.items, ∃ c ∈ it.cands, e.2 = c.adds := by
  unfold asyncResponse at h
  simp only at h
  split at h
  · cases h
  · cases hf : pkts.head? with
    | none => rw [hf] at h; cases h
    | some first =>
      cases hl : pkts.getLast? with
      | none => rw [hf, hl] at h; cases h
      | some last =>
        rw [hf, hl] at h
        simp only [Option.some.injEq] at h
        subst h
        have hfold : ∀ (items : List QItem) (acc : QR) (w : List RecId),
            w ∈ vals (items.foldl (fun (qr : QR) it => qr.route us (pkts.any (·.isProbe)) seen last.now first.nq first.q0type it.qu
              (answerSet ((pkts.filter (fun p => !p.isProbe)).flatMap (·.known)) it)) acc).additionals →
            w ∈ vals acc.additionals ∨ ∃ it ∈ items, ∃ c ∈ it.cands, w = c.adds := by
          intro items
          induction items with
          | nil => intro acc w hw; exact Or.inl hw
          | cons it items ih =>
            intro acc w hw
            simp only [List.foldl_cons] at hw
            rcases ih _ w hw with h' | ⟨it', hit', c, hc, e⟩
            · rcases vals_route _ _ _ _ _ _ _ _ _ _ h' with h'' | h''
              · exact Or.inl h''
              · obtain ⟨c, hc, e⟩ := vals_answerSet _ _ _ h''
                exact Or.inr ⟨it, by simp, c, hc, e⟩
            · exact Or.inr ⟨it', by simp [hit'], c, hc, e⟩
        have hget : ∃ r, e.2 = Dict.get (List.foldl (fun (qr : QR) it => qr.route us (pkts.any (·.isProbe)) seen last.now first.nq first.q0type it.qu
              (answerSet ((pkts.filter (fun p => !p.isProbe)).flatMap (·.known)) it)) {} (pkts.flatMap (·.items))).additionals r := by
          simp only [QR.answers, List.mem_map] at he
          rcases he with ⟨r, _, rfl⟩ | ⟨r, _, rfl⟩ | ⟨r, _, rfl⟩ | ⟨r, _, rfl⟩ <;> exact ⟨r, rfl⟩
        obtain ⟨r, hr⟩ := hget
        rcases get_vals _ r with h0 | h1
        · exact Or.inl (hr.trans h0)
        · rw [← hr] at h1
          rcases hfold _ _ _ h1 with h' | ⟨it, hit, c, hc, e'⟩
          · simp [vals] at h'
          · obtain ⟨p, hp, hip⟩ := List.mem_flatMap.mp hit
            exact Or.inr ⟨p, hp, it, hip, c, hc, e'⟩

end vals

section
variable (lower : String → String) (attrib : Question → Rec → Bool)

/-- **every additional the routing hands out decodes**: it is the id of an additional of the answer map -/
theorem route_adds_decoded {tbl : List Rec} {dict : DictRS} {ks : List Survive.Pkt} {u : Bool} {seen : Reply.SeenMap} {qa : Reply.QA}
    (h : Reply.asyncResponse (ks.map (toPkt lower attrib tbl dict)) u seen = some qa) (e : Nat × List Nat)
    (he : e ∈ qa.ucast ∨ e ∈ qa.mcastNow ∨ e ∈ qa.mcastAgg ∨ e ∈ qa.mcastLast) :
    ∀ a ∈ e.2, (recOfId lower tbl dict a).isSome = true := by
  intro a ha
  rcases asyncResponse_adds h e he with h0 | ⟨p, hp, it, hit, c, hc, hadds⟩
  · rw [h0] at ha; cases ha
  · obtain ⟨d, hd, _, hcadds⟩ := cand_of_toPkt lower attrib hp hit hc
    rw [hadds, hcadds, List.mem_map] at ha
    obtain ⟨x, hx, rfl⟩ := ha
    apply recOfId_of_mem
    unfold dictRecords
    exact List.mem_flatMap.mpr ⟨d, hd, List.mem_cons_of_mem _ hx⟩

end

/-! ### the two residual assumptions, proved -/

section
variable (lower : String → String) (attrib : Question → Rec → Bool) (orc : Oracle)
variable {ρ₀ ω : Type} (B : Base ρ₀ ω) (I₀ : ρ₀ → Prop)

/-- the invariant of the interpreted residue: the base's own, and the shape of both queues -/
def Inv (r : ρ₀ × RState) : Prop := I₀ r.1 ∧ QShape r.2.outQ ∧ QShape r.2.delayQ

/-- what is still assumed: the listeners that are neither browsers nor lookups return normally -/
def BaseOK : Prop :=
  ∀ r0 now pairs c1 c2 n, I₀ r0 → ∃ r1 o, B.listeners r0 now pairs c1 c2 n = .ok (r1, o) ∧ I₀ r1

theorem listenersOK (hB : BaseOK B I₀) : ListenersOK (rest lower attrib orc B) (Inv I₀) := by
  intro r0 now pairs c1 c2 n hI
  obtain ⟨r1, o, h1, h2⟩ := hB r0.1 now pairs c1 c2 n hI.1
  refine ⟨(r1, r0.2), o, ?_, h2, hI.2⟩
  simp only [rest, h1]

/-- **`RouteOK`** (residual assumption 2 of C15's composition) holds of the reply model: the routing returns,
keeps the invariant, and the unicast reply and the immediate multicast carry only records of the answer map -/
theorem routeOK : RouteOK (rest lower attrib orc B) (Inv I₀) := by
  intro r0 c ks u dict hI
  refine ⟨_, _, rfl, ?_, ?_⟩
  · refine ⟨hI.1, ?_, ?_⟩
    · show QShape (route lower attrib r0.2 c ks u dict).1.outQ
      unfold route; dsimp only; split <;> exact hI.2.1
    · show QShape (route lower attrib r0.2 c ks u dict).1.delayQ
      unfold route; dsimp only; split <;> exact hI.2.2
  · intro x hx
    have : ∀ sel, sel = (route lower attrib r0.2 c ks u dict).2 →
        ∀ y ∈ dictRecords sel.ucast ++ dictRecords sel.mcastNow, y ∈ dictRecords dict := by
      intro sel hsel y hy
      unfold route at hsel
      dsimp only at hsel
      split at hsel
      · subst hsel; simp [emptyRouted, dictRecords] at hy
      · subst hsel
        rcases List.mem_append.mp hy with hy | hy <;> exact decode_sub lower _ _ _ y hy
    exact this _ rfl x hx

/-- **`QueueOK`** (residual assumption 3): the two `async_add` calls keep the invariant, whatever the draws,
the stamp and the loop time are -/
theorem queueOK : QueueOK (rest lower attrib orc B) (Inv I₀) := by
  intro r0 t sel hI
  refine ⟨hI.1, ?_, ?_⟩
  · show QShape (enqueue lower orc r0.2 t sel).outQ
    unfold enqueue; dsimp only
    split
    · exact hI.2.1
    · exact hI.2.1.add _ _ _ _ _
  · show QShape (enqueue lower orc r0.2 t sel).delayQ
    unfold enqueue; dsimp only
    split
    · exact hI.2.2
    · exact hI.2.2.add _ _ _ _ _

/-- with the event-loop axioms (C12's `QEv.enabled`, here for the one `add` each queue receives) the *timed*
invariant of C12 is preserved as well: the timer stays due inside the head group's window -/
theorem enqueue_timed {st : RState} {t : Ms} {sel : Routed} {hO hD : List Reply.AddRec} {clock : Int}
    (h1 : Reply.QInv Reply.outQP hO clock st.outQ) (h2 : Reply.QInv Reply.delayQP hD clock st.delayQ)
    (hc : clock ≤ (orc st t).2.2) (ht : t ≤ (orc st t).2.2)
    (hd1 : Reply.drawLo ≤ (orc st t).1 ∧ (orc st t).1 ≤ Reply.drawHi)
    (hd2 : Reply.drawLo ≤ (orc st t).2.1 ∧ (orc st t).2.1 ≤ Reply.drawHi)
    (hdue1 : ∀ d, st.outQ.timer = some d → (orc st t).2.2 ≤ d) (hdue2 : ∀ d, st.delayQ.timer = some d → (orc st t).2.2 ≤ d) :
    (∃ hO', Reply.QInv Reply.outQP hO' (orc st t).2.2 (enqueue lower orc st t sel).outQ) ∧
    (∃ hD', Reply.QInv Reply.delayQP hD' (orc st t).2.2 (enqueue lower orc st t sel).delayQ) := by
  constructor
  · unfold enqueue; dsimp only
    split
    · exact ⟨hO, ⟨h1.sk.mono hc hdue1, h1.origin, fun a ha => by have := h1.hist a ha; omega⟩⟩
    · exact ⟨_, h1.add Reply.outQP_ok hc ht hd1.1 hd1.2 hdue1⟩
  · unfold enqueue; dsimp only
    split
    · exact ⟨hD, ⟨h2.sk.mono hc hdue2, h2.origin, fun a ha => by have := h2.hist a ha; omega⟩⟩
    · exact ⟨_, h2.add Reply.delayQP_ok hc ht hd2.1 hd2.2 hdue2⟩

end

end Zc.Survive.Route
