import Zc.Model.Dns
/-! Helper lemmas for C20's case clause: ASCII lowering identifies ASCII case variants. -/
namespace Zc

theorem toLower_toUpper (c : Char) : Char.toLower (Char.toUpper c) = Char.toLower c := by
  unfold Char.toUpper
  split
  · rename_i h
    have h1 : 97 ≤ c.val.toNat := by have := h.1; simpa [UInt32.le_iff_toNat_le] using this
    have h2 : c.val.toNat ≤ 122 := by have := h.2; simpa [UInt32.le_iff_toNat_le] using this
    unfold Char.toLower
    split
    · split
      · rename_i hc
        have : c.val.toNat ≤ 90 := by have := hc.2; simpa [UInt32.le_iff_toNat_le] using this
        omega
      · simp only [Char.ext_iff, ← UInt32.toNat_inj, UInt32.toNat_add, Char.reduceVal, UInt32.reduceToNat, UInt32.reduceSub]
        omega
    · rename_i hu
      exfalso; apply hu
      simp only [ge_iff_le, UInt32.le_iff_toNat_le, UInt32.toNat_add, Char.reduceVal, UInt32.reduceToNat, UInt32.reduceSub]
      omega
  · rfl

theorem asciiLower_asciiUpper (s : String) : asciiLower (asciiUpper s) = asciiLower s := by
  unfold asciiLower asciiUpper
  rw [String.map_map]
  congr 1
  funext c
  exact toLower_toUpper c

/-! ### duplicate removal among a reply's additionals -/

/-- one step of `replyAdditionals` -/
def replyStep (lower : String → String) (answers : List Rec) (sent : List Rec) (x : Rec) : List Rec :=
  if (answers ++ sent).any (fun o => o.beq lower x) then sent else sent ++ [x]

theorem replyAdditionals_eq (lower : String → String) (answers adds : List Rec) :
    replyAdditionals lower answers adds = adds.foldl (replyStep lower answers) [] := rfl

/-- invariant of the fold: what has been taken so far (`sent`) stays a prefix; every member of the result is a member of
`sent ++ adds`; members are pairwise non-identical and non-identical to every answer (given that of `sent`); every element
of `adds` is identical to an answer or to a member of the result -/
theorem replyFold_spec (lower : String → String) (answers : List Rec) :
    ∀ (adds sent : List Rec),
      (∀ x ∈ sent, ∀ o ∈ answers, o.beq lower x = false) →
      sent.Pairwise (fun o x => o.beq lower x = false) →
      let res := adds.foldl (replyStep lower answers) sent
      (∀ x ∈ res, x ∈ sent ∨ x ∈ adds)
      ∧ (∀ x ∈ sent, x ∈ res)
      ∧ (∀ x ∈ res, ∀ o ∈ answers, o.beq lower x = false)
      ∧ res.Pairwise (fun o x => o.beq lower x = false)
      ∧ (∀ x ∈ adds, (∃ o ∈ answers, o.beq lower x = true) ∨ (∃ o ∈ res, o.beq lower x = true)) := by
  intro adds
  induction adds with
  | nil =>
    intro sent h1 h2
    exact ⟨fun x hx => Or.inl hx, fun x hx => hx, h1, h2, fun x hx => absurd hx (by simp)⟩
  | cons a rest ih =>
    intro sent h1 h2
    simp only [List.foldl_cons]
    by_cases hc : (answers ++ sent).any (fun o => o.beq lower a) = true
    · have hs : replyStep lower answers sent a = sent := by simp [replyStep, hc]
      rw [hs]
      obtain ⟨r1, r2, r3, r4, r5⟩ := ih sent h1 h2
      refine ⟨fun x hx => ?_, r2, r3, r4, fun x hx => ?_⟩
      · rcases r1 x hx with h | h
        · exact Or.inl h
        · exact Or.inr (List.mem_cons_of_mem _ h)
      · rcases List.mem_cons.1 hx with rfl | h
        · rw [List.any_eq_true] at hc
          obtain ⟨o, ho, hb⟩ := hc
          rcases List.mem_append.1 ho with h | h
          · exact Or.inl ⟨o, h, hb⟩
          · exact Or.inr ⟨o, r2 o h, hb⟩
        · exact r5 x h
    · have hs : replyStep lower answers sent a = sent ++ [a] := by simp [replyStep, hc]
      rw [hs]
      have hall : ∀ o ∈ answers ++ sent, o.beq lower a = false := by
        intro o ho
        cases hb : o.beq lower a with
        | false => rfl
        | true => exact absurd (List.any_eq_true.2 ⟨o, ho, hb⟩) hc
      have h1' : ∀ x ∈ sent ++ [a], ∀ o ∈ answers, o.beq lower x = false := by
        intro x hx o ho
        rcases List.mem_append.1 hx with h | h
        · exact h1 x h o ho
        · rw [List.mem_singleton.1 h]; exact hall o (List.mem_append_left _ ho)
      have h2' : (sent ++ [a]).Pairwise (fun o x => o.beq lower x = false) := by
        rw [List.pairwise_append]
        refine ⟨h2, List.pairwise_singleton _ _, fun o ho x hx => ?_⟩
        rw [List.mem_singleton.1 hx]; exact hall o (List.mem_append_right _ ho)
      obtain ⟨r1, r2, r3, r4, r5⟩ := ih (sent ++ [a]) h1' h2'
      refine ⟨fun x hx => ?_, fun x hx => r2 x (List.mem_append_left _ hx), r3, r4, fun x hx => ?_⟩
      · rcases r1 x hx with h | h
        · rcases List.mem_append.1 h with h | h
          · exact Or.inl h
          · exact Or.inr (by rw [List.mem_singleton.1 h]; exact List.mem_cons_self)
        · exact Or.inr (List.mem_cons_of_mem _ h)
      · rcases List.mem_cons.1 hx with rfl | h
        · refine Or.inr ⟨x, r2 x (by simp), ?_⟩
          -- reflexivity of identity
          simp [Rec.beq]
        · exact r5 x h

end Zc
