import Zc.Proofs.LinkBridgeCheck
import Zc.Proofs.LinkBridgeK3c
import Zc.Proofs.LinkBridgeK5
import Zc.Proofs.LinkBridgeK4
/-! Evaluators for the projection hypotheses of `C07_convergence_from_models_partial` on a **concrete** link trace and **concrete**
model runs (the witnesses of the existential quantifiers in `Bridge.HostRun`, `Bridge.BrowserRun`, `Bridge.RefreshRun`,
`Bridge.CacheRun`, `Bridge.ResponderRun`), clause by clause.  The driver commands `c07host`, `c07browser`, `c07cache`, `c07resp`
(`Driver/C07.lean`) parse a block log of a real host and print these Booleans.

What is evaluated is the clause as the structure states it, with the quantifier over instances restricted to the instances that
occur in the trace where the structure quantifies over all of `Link.Svc`.  Not evaluated (they stay named in the output as `-`):
injectivity of the naming on names that do not occur; `WFHistory` / `NoFlush` of `CacheRun` (the driver synthesises well-formed
names); `ResponderRun.query` (`FromRegistry`, `ItemOf`: C03's registry behind each query block).  Soundness is proved for the
host clauses (`hostEval_sound`). -/
namespace Zc.Bridge
open Zc

/-! ### `HostRun` -/
section host
open Zc.Goodbye Zc.Register
variable (lower : String → String) (N : Naming)

/-- index of the first block that the machine, or the clock, rejects -/
def rejAt : Host → Int → List (Int × Block × Option Nat) → Nat → Option Nat
  | _, _, [], _ => none
  | h, T, (t, b, _) :: rest, i =>
    if T ≤ t ∧ (blockTime b = none ∨ blockTime b = some t) then
      match h.step lower b with
      | none => some i
      | some (h', _) => rejAt h' t rest (i + 1)
    else some i

structure HostEval where
  disc : Bool
  spaced : Bool
  distinct : Bool
  fair : Bool
  opened : Bool
  sendsIn : Bool
  sendsOut : Bool
  regsIn : Bool
  regsOut : Bool
  updsIn : Bool
  updsOut : Bool
  unregsIn : Bool
  unregsOut : Bool

def HostEval.all (e : HostEval) : Bool :=
  e.disc && e.spaced && e.distinct && e.fair && e.opened && e.sendsIn && e.sendsOut && e.regsIn && e.regsOut && e.updsIn
  && e.updsOut && e.unregsIn && e.unregsOut

def hostEval (tr : Link.Trace) (endT : Int) (steps : List Step) : HostEval :=
  let E := events lower N steps
  { disc := steps.all fun st => decide (Disc lower st) && decide (Disc2 lower st) && decide (Disc3 st)
    spaced := spacedB lower N [] steps
    distinct := distinctCallsB lower N steps
    fair := fairB steps endT
    opened := openB steps
    sendsIn := (Link.sends tr).all fun sd => !(sd.h == N.host) || (Link.ptrSvcs sd.items).isEmpty ||
      (Link.sends E).any fun sd' => sd'.t == sd.t && sd'.items == sd.items && sd'.dst == sd.dst
    sendsOut := (Link.sends E).all fun sd' =>
      (Link.sends tr).any fun sd => sd.h == N.host && sd.t == sd'.t && sd.items == sd'.items && sd.dst == sd'.dst
    regsIn := (Link.regs tr).all fun x => !(x.2.owner == N.host) || (Link.regs E).contains x
    regsOut := (Link.regs E).all fun x => (Link.regs tr).contains x
    updsIn := (Link.upds tr).all fun x => !(x.2.owner == N.host) || (Link.upds E).contains x
    updsOut := (Link.upds E).all fun x => (Link.upds tr).contains x
    unregsIn := (Link.unregs tr).all fun x => !(x.2.owner == N.host) || (Link.unregs E).contains x
    unregsOut := (Link.unregs E).all fun x => (Link.unregs tr).contains x }

/-- a run on which every clause evaluates to `true` is a `HostRun`, given that the naming is injective -/
theorem hostEval_sound (tr : Link.Trace) (endT : Int) (steps : List Step) (T0 : Int)
    (hty : Function.Injective N.tyId) (hsv : Function.Injective N.svcId) (hrun : IsRun lower Host.init T0 steps)
    (h : (hostEval lower N tr endT steps).all = true) : HostRun lower tr endT N steps T0 := by
  simp only [HostEval.all, hostEval, Bool.and_eq_true] at h
  obtain ⟨⟨⟨⟨⟨⟨⟨⟨⟨⟨⟨⟨h1, h2⟩, h3⟩, h4⟩, h5⟩, h6⟩, h7⟩, h8⟩, h9⟩, h10⟩, h11⟩, h12⟩, h13⟩ := h
  refine { tyInj := hty, svInj := hsv, run := hrun, disc := ?_, spaced := spaced_of_spacedB lower N [] steps h2,
           distinct := distinctCalls_of_B lower N steps h3, fair := fair_of_fairB steps endT h4, opened := open_of_openB steps h5,
           sendsIn := ?_, sendsOut := ?_, regsIn := ?_, regsOut := ?_, updsIn := ?_, updsOut := ?_, unregsIn := ?_, unregsOut := ?_ }
  · intro st hst
    have := List.all_eq_true.mp h1 st hst
    simp only [Bool.and_eq_true, decide_eq_true_eq] at this
    exact ⟨this.1.1, this.1.2, this.2⟩
  · intro sd hsd hh hne
    have := List.all_eq_true.mp h6 sd hsd
    simp only [hh, beq_self_eq_true, Bool.not_true, Bool.false_or, Bool.or_eq_true, List.isEmpty_iff, List.any_eq_true,
      Bool.and_eq_true, beq_iff_eq] at this
    rcases this with h | ⟨sd', hsd', ⟨ht, hi⟩, hd⟩
    · exact absurd h hne
    · exact ⟨sd', hsd', ht, hi, hd⟩
  · intro sd' hsd'
    have := List.all_eq_true.mp h7 sd' hsd'
    simp only [List.any_eq_true, Bool.and_eq_true, beq_iff_eq] at this
    obtain ⟨sd, hsd, ⟨⟨hh, ht⟩, hi⟩, hd⟩ := this
    exact ⟨sd, hsd, hh, ht, hi, hd⟩
  · intro x hx hown
    have := List.all_eq_true.mp h8 x hx
    simpa [hown] using this
  · intro x hx
    have := List.all_eq_true.mp h9 x hx
    simpa using this
  · intro x hx hown
    have := List.all_eq_true.mp h10 x hx
    simpa [hown] using this
  · intro x hx
    have := List.all_eq_true.mp h11 x hx
    simpa using this
  · intro x hx hown
    have := List.all_eq_true.mp h12 x hx
    simpa [hown] using this
  · intro x hx
    have := List.all_eq_true.mp h13 x hx
    simpa using this

end host

/-! ### `BrowserRun` and `RefreshRun` -/
section browser
open Zc.Sched Zc.C10

instance (tr : Link.Trace) (b : Link.Br) (o : Send) : Decidable (WireAsk tr b o) := by unfold WireAsk; infer_instance
instance (tr : Link.Trace) (b : Link.Br) (s : Link.Svc) (o : Send) : Decidable (WireAskWithout tr b s o) := by
  unfold WireAskWithout; infer_instance

/-- `P x tail` for some element `x` of the list with the elements after it -/
def tailsAny {α : Type} (P : α → List α → Bool) : List α → Bool
  | [] => false
  | x :: r => P x r || tailsAny P r

/-- `P x tail` for every element `x` of the list with the elements after it -/
def tailsAll {α : Type} (P : α → List α → Bool) : List α → Bool
  | [] => true
  | x :: r => P x r && tailsAll P r

def oneNameB (a n : String) (evs : List (Int × Op)) : Bool :=
  evs.all fun e => match e.2 with | .ptr a' n' _ _ => !(a' == a) || n' == n | _ => true

def supersededB (h : Nat) (s : Link.Svc) (l2 : List Link.DlvE) (x : Link.DlvE) (e : Nat) (τ : Int) : Bool :=
  (l2.any fun y => y.h == h && (Link.ptrOf s y.items).isSome && decide (y.t ≤ τ)) || decide (x.t + 1000 * (e : Int) ≤ τ + 999)

def learnedB (a n : String) (e : Nat) (x : Link.DlvE) (later : Int → Bool) (pre0 evs : List (Int × Op)) : Bool :=
  let after := fun (l : List (Int × Op)) => l.all fun op => !(op.2.touches a) || later op.1
  (tailsAny (fun op post =>
        (match op.2 with
          | .ptr a' n' e' cr => a' == a && n' == n && e' == e && cr == op.1 && decide (x.t - 999 ≤ cr) && decide (cr ≤ x.t)
          | _ => false)
        && after post) evs)
  || (tailsAny (fun op post =>
        (match op.2 with
          | .ptr a' n' e' cr => a' == a && n' == n && e' == e && decide (x.t - 999 ≤ cr) && decide (cr ≤ x.t)
          | _ => false)
        && (post.all fun o => !(o.2.touches a)) && after evs) pre0)

structure BrowserEval where
  run : Bool
  nIn : Bool
  idle : Bool
  active : Bool
  covers : Bool
  /-- `BrowserRun.wire` -/
  wire : Bool
  /-- the rate limit is the default one (`RefreshRun` is stated for it) -/
  rate : Bool
  names : Bool
  learned : Bool
  wireWithout : Bool

/-- the clauses of `BrowserRun` and `RefreshRun` for the history `pre0 ++ (tb, start d) :: evs`; `aliasOf` names the instances.
The quantifier over instances is restricted to the instances of PTR items delivered to the host. -/
def browserEval (tr : Link.Trace) (endT tb : Int) (b : Link.Br) (types : List String) (n : String) (minDelay : Nat) (tS : Int)
    (pre0 : List (Int × Op)) (d : Nat) (evs : List (Int × Op)) (aliasOf : Link.Svc → String) : BrowserEval :=
  let outs : Option (List Send) :=
    match Sched2.exec2 (browserCfg types minDelay none) {} tS (pre0 ++ (tb, .start d) :: evs) with
    | .ok (_, o) => some o
    | .error _ => none
  let os := outs.getD []
  let svcs := (Link.dlvSvcs tr).filter fun s => s.ty == b.ty
  let perPtr (f : Link.Svc → Link.DlvE → List Link.DlvE → Nat → Bool) : Bool :=
    tailsAll (fun x l2 => !(x.h == b.host) || (Link.ptrSvcs x.items).all fun s =>
      match Link.ptrOf s x.items with
      | some (ttl, _) => !(s.ty == b.ty && decide (0 < ttl)) || f s x l2 (max ttl 1125)
      | none => true) (Link.dlvs tr)
  { run := outs.isSome
    nIn := types.contains n
    idle := pre0.all fun e => e.2.idle
    active := evs.all fun e => e.2.active
    covers := decide (endT < lastTime tb evs)
    wire := os.all fun o => !(o.types.contains n && decide (o.t ≤ endT)) || decide (WireAsk tr b o)
    rate := minDelay == 10000
    names := svcs.all fun s => oneNameB (aliasOf s) n (pre0 ++ evs)
    learned := perPtr fun s x l2 e =>
      !((l2.all fun y => !(y.h == b.host && (Link.ptrOf s y.items).isSome) || decide (tb < y.t))
        && decide (tb < x.t + 1000 * (e : Int)))
      || learnedB (aliasOf s) n e x (supersededB b.host s l2 x e) pre0 evs
    wireWithout := perPtr fun s x l2 e =>
      os.all fun o => !(o.types.contains n && decide (tb + 120 < o.t) && decide (x.t + 500 * (e : Int) ≤ o.t) && decide (o.t ≤ endT)
          && l2.all fun y => !(y.h == b.host && (Link.ptrOf s y.items).isSome) || decide (o.t < y.t))
        || decide (WireAskWithout tr b s o) }

/-! #### soundness -/

theorem tailsAll_spec {α : Type} (P : α → List α → Bool) : ∀ (l : List α), tailsAll P l = true →
    ∀ l1 x l2, l = l1 ++ x :: l2 → P x l2 = true
  | [], _, l1, x, l2, h => by cases l1 <;> simp at h
  | a :: r, hp, l1, x, l2, h => by
    simp only [tailsAll, Bool.and_eq_true] at hp
    cases l1 with
    | nil =>
      simp only [List.nil_append, List.cons.injEq] at h
      obtain ⟨rfl, rfl⟩ := h
      exact hp.1
    | cons c l1' =>
      simp only [List.cons_append, List.cons.injEq] at h
      exact tailsAll_spec P r hp.2 l1' x l2 h.2

theorem tailsAny_spec {α : Type} (P : α → List α → Bool) : ∀ (l : List α), tailsAny P l = true →
    ∃ l1 x l2, l = l1 ++ x :: l2 ∧ P x l2 = true
  | [], h => by simp [tailsAny] at h
  | a :: r, h => by
    simp only [tailsAny, Bool.or_eq_true] at h
    rcases h with h | h
    · exact ⟨[], a, r, rfl, h⟩
    · obtain ⟨l1, x, l2, rfl, hp⟩ := tailsAny_spec P r h
      exact ⟨a :: l1, x, l2, rfl, hp⟩

theorem oneName_of_B {a n : String} {evs : List (Int × Op)} (h : oneNameB a n evs = true) : OneName a n evs := by
  intro e he a' n' ttl cr heq hb
  have := List.all_eq_true.mp h e he
  rw [heq] at this
  simp only [hb, Bool.not_true, Bool.false_or, beq_iff_eq] at this
  exact this

theorem superseded_of_B {h : Nat} {s : Link.Svc} {l2 : List Link.DlvE} {x : Link.DlvE} {e : Nat} {τ : Int}
    (hb : supersededB h s l2 x e τ = true) : Superseded h s l2 x e τ := by
  simp only [supersededB, Bool.or_eq_true, List.any_eq_true, Bool.and_eq_true, beq_iff_eq, decide_eq_true_eq] at hb
  rcases hb with ⟨y, hy, ⟨h1, h2⟩, h3⟩ | hb
  · exact Or.inl ⟨y, hy, h1, h2, h3⟩
  · exact Or.inr hb

theorem learned_of_B {a n : String} {e : Nat} {x : Link.DlvE} {later : Int → Bool} {pre0 evs : List (Int × Op)}
    (h : learnedB a n e x later pre0 evs = true) : Learned a n e x (fun τ => later τ = true) pre0 evs := by
  have hafter : ∀ l : List (Int × Op), (l.all fun op => !(op.2.touches a) || later op.1) = true →
      ∀ op ∈ l, op.2.touches a = true → later op.1 = true := by
    intro l hl op hop ht
    have := List.all_eq_true.mp hl op hop
    simpa [ht] using this
  simp only [learnedB, Bool.or_eq_true] at h
  rcases h with h | h
  · obtain ⟨pre, op, post, rfl, hp⟩ := tailsAny_spec _ _ h
    simp only [Bool.and_eq_true] at hp
    obtain ⟨hop, hpost⟩ := hp
    obtain ⟨t', o⟩ := op
    cases o with
    | ptr a' n' e' cr =>
      simp only [Bool.and_eq_true, beq_iff_eq, decide_eq_true_eq] at hop
      obtain ⟨⟨⟨⟨⟨rfl, rfl⟩, rfl⟩, rfl⟩, h1⟩, h2⟩ := hop
      exact ⟨cr, h1, h2, Or.inl ⟨pre, post, rfl, hafter post hpost⟩⟩
    | start _ => simp at hop
    | cancel _ => simp at hop
    | fire _ => simp at hop
    | stop => simp at hop
  · obtain ⟨pre0a, op, pre0b, rfl, hp⟩ := tailsAny_spec _ _ h
    simp only [Bool.and_eq_true] at hp
    obtain ⟨⟨hop, hun⟩, hevs⟩ := hp
    obtain ⟨t', o⟩ := op
    cases o with
    | ptr a' n' e' cr =>
      simp only [Bool.and_eq_true, beq_iff_eq, decide_eq_true_eq] at hop
      obtain ⟨⟨⟨⟨rfl, rfl⟩, rfl⟩, h1⟩, h2⟩ := hop
      refine ⟨cr, h1, h2, Or.inr ⟨pre0a, t', pre0b, rfl, ?_, hafter evs hevs⟩⟩
      intro op hop'
      have := List.all_eq_true.mp hun op hop'
      simpa using this
    | start _ => simp at hop
    | cancel _ => simp at hop
    | fire _ => simp at hop
    | stop => simp at hop

/-- `Learned` is monotone in what it allows later -/
theorem Learned.mono {a n : String} {e : Nat} {x : Link.DlvE} {P Q : Int → Prop} {pre0 evs : List (Int × Op)}
    (hPQ : ∀ τ, P τ → Q τ) (h : Learned a n e x P pre0 evs) : Learned a n e x Q pre0 evs := by
  obtain ⟨cr, hc1, hc2, h⟩ := h
  refine ⟨cr, hc1, hc2, ?_⟩
  rcases h with ⟨pre, post, h1, h2⟩ | ⟨pre0a, t', pre0b, h1, h2, h3⟩
  · exact Or.inl ⟨pre, post, h1, fun op hop ht => hPQ _ (h2 op hop ht)⟩
  · exact Or.inr ⟨pre0a, t', pre0b, h1, h2, fun op hop ht => hPQ _ (h3 op hop ht)⟩

/-- the history on which `run … covers`, `wire` evaluate to `true` is a `BrowserRun` -/
theorem browserEval_sound (tr : Link.Trace) (endT tb : Int) (b : Link.Br) (types : List String) (n : String) (minDelay : Nat)
    (tS : Int) (pre0 : List (Int × Op)) (d : Nat) (evs : List (Int × Op)) (aliasOf : Link.Svc → String)
    (h : let e := browserEval tr endT tb b types n minDelay tS pre0 d evs aliasOf
         (e.run && e.nIn && e.idle && e.active && e.covers && e.wire) = true) :
    BrowserRun tr endT tb b := by
  simp only [browserEval, Bool.and_eq_true] at h
  obtain ⟨⟨⟨⟨⟨h1, h2⟩, h3⟩, h4⟩, h5⟩, h6⟩ := h
  cases hx : Sched2.exec2 (browserCfg types minDelay none) {} tS (pre0 ++ (tb, .start d) :: evs) with
  | error err => rw [hx] at h1; simp at h1
  | ok r =>
    obtain ⟨s', outs⟩ := r
    rw [hx] at h6
    simp only [Option.getD_some] at h6
    refine ⟨⟨types, n, minDelay, tS, pre0, d, evs, s', outs, by simpa using h2, ?_, ?_, hx, by simpa using h5, ?_⟩⟩
    · intro e he; exact List.all_eq_true.mp h3 e he
    · intro e he; exact List.all_eq_true.mp h4 e he
    · intro o ho hn ht
      have := List.all_eq_true.mp h6 o ho
      simpa [hn, ht] using this

/-- … and, with the default rate limit and `names`, `learned`, `wireWithout`, a `RefreshRun` -/
theorem browserEval_sound_refresh (tr : Link.Trace) (endT tb : Int) (b : Link.Br) (types : List String) (n : String)
    (tS : Int) (pre0 : List (Int × Op)) (d : Nat) (evs : List (Int × Op)) (aliasOf : Link.Svc → String)
    (h : let e := browserEval tr endT tb b types n 10000 tS pre0 d evs aliasOf
         (e.run && e.nIn && e.idle && e.active && e.covers && e.names && e.learned && e.wireWithout) = true) :
    RefreshRun tr endT tb b := by
  simp only [browserEval, Bool.and_eq_true] at h
  obtain ⟨⟨⟨⟨⟨⟨⟨h1, h2⟩, h3⟩, h4⟩, h5⟩, h6⟩, h7⟩, h8⟩ := h
  cases hx : Sched2.exec2 (browserCfg types 10000 none) {} tS (pre0 ++ (tb, .start d) :: evs) with
  | error err => rw [hx] at h1; simp at h1
  | ok r =>
    obtain ⟨s', outs⟩ := r
    rw [hx] at h8
    simp only [Option.getD_some] at h8
    -- reading one entry of the per-PTR checks
    have per : ∀ (f : Link.Svc → Link.DlvE → List Link.DlvE → Nat → Bool),
        tailsAll (fun x l2 => !(x.h == b.host) || (Link.ptrSvcs x.items).all fun s =>
          match Link.ptrOf s x.items with
          | some (ttl, _) => !(s.ty == b.ty && decide (0 < ttl)) || f s x l2 (max ttl 1125)
          | none => true) (Link.dlvs tr) = true →
        ∀ (s : Link.Svc) (x : Link.DlvE) (l1 l2 : List Link.DlvE) (ttl : Nat) (full : Bool), s.ty = b.ty →
          Link.dlvs tr = l1 ++ x :: l2 → x.h = b.host → Link.ptrOf s x.items = some (ttl, full) → 0 < ttl →
          f s x l2 (max ttl 1125) = true := by
      intro f hf s x l1 l2 ttl full hty hd hxh hp httl
      have h0 := tailsAll_spec _ _ hf l1 x l2 hd
      simp only [hxh, beq_self_eq_true, Bool.not_true, Bool.false_or] at h0
      have h1 := List.all_eq_true.mp h0 s (Link.ptrOf_mem hp)
      rw [hp] at h1
      simpa [hty, httl] using h1
    refine ⟨⟨types, n, tS, pre0, d, evs, s', outs, aliasOf, by simpa using h2, ?_, ?_, hx, by simpa using h5, ?_, ?_, ?_⟩⟩
    · intro e he; exact List.all_eq_true.mp h3 e he
    · intro e he; exact List.all_eq_true.mp h4 e he
    · intro s hty hs
      apply oneName_of_B
      exact List.all_eq_true.mp h6 s (List.mem_filter.mpr ⟨hs, by simpa using hty⟩)
    · intro s x l1 l2 ttl full hty hd hxh hp httl hl2 halive
      have hf := per (fun s x l2 e =>
          !((l2.all fun y => !(y.h == b.host && (Link.ptrOf s y.items).isSome) || decide (tb < y.t))
            && decide (tb < x.t + 1000 * (e : Int)))
          || learnedB (aliasOf s) n e x (supersededB b.host s l2 x e) pre0 evs) h7 s x l1 l2 ttl full hty hd hxh hp httl
      simp only [Bool.or_eq_true, Bool.not_eq_true', Bool.and_eq_false_iff, decide_eq_false_iff_not] at hf
      rcases hf with (hf | hf) | hf
      · exfalso
        rw [← Bool.not_eq_true, List.all_eq_true] at hf
        apply hf
        intro y hy
        by_cases hc : (y.h == b.host && (Link.ptrOf s y.items).isSome) = true
        · simp only [Bool.and_eq_true, beq_iff_eq] at hc
          have := hl2 y hy hc.1 hc.2
          simp [hc.1, hc.2, this]
        · simp only [Bool.not_eq_true] at hc
          simp [hc]
      · exact absurd halive hf
      · exact Learned.mono (fun τ hτ => superseded_of_B hτ) (learned_of_B hf)
    · intro s x l1 l2 ttl full hty hd hxh hp httl o ho hn hfirst hlo hhi hl2
      have hf := per (fun s x l2 e =>
          outs.all fun o => !(o.types.contains n && decide (tb + 120 < o.t) && decide (x.t + 500 * (e : Int) ≤ o.t) && decide (o.t ≤ endT)
              && l2.all fun y => !(y.h == b.host && (Link.ptrOf s y.items).isSome) || decide (o.t < y.t))
            || decide (WireAskWithout tr b s o)) h8 s x l1 l2 ttl full hty hd hxh hp httl
      have ho' := List.all_eq_true.mp hf o ho
      simp only [Bool.or_eq_true, Bool.not_eq_true', Bool.and_eq_false_iff, decide_eq_false_iff_not, decide_eq_true_eq] at ho'
      rcases ho' with ((((ho' | ho') | ho') | ho') | ho') | ho'
      · simp [hn] at ho'
      · exact absurd hfirst ho'
      · exact absurd hlo ho'
      · exact absurd hhi ho'
      · exfalso
        rw [← Bool.not_eq_true, List.all_eq_true] at ho'
        apply ho'
        intro y hy
        by_cases hc : (y.h == b.host && (Link.ptrOf s y.items).isSome) = true
        · simp only [Bool.and_eq_true, beq_iff_eq] at hc
          have := hl2 y hy hc.1 hc.2
          simp [hc.1, hc.2, this]
        · simp only [Bool.not_eq_true] at hc
          simp [hc]
      · exact ho'

end browser

/-! ### `CacheRun` -/
section cache
variable (lower : String → String) (possible : String → List String)

structure CacheEval where
  cb : Bool
  cbOther : Bool
  cacheUp : Bool
  cacheDown : Bool

/-- the three trace-facing clauses of `CacheRun` (`cb`, `cbOther`, `cache` in its two directions) at the instants and for the
instances K5 looks at -/
def cacheEval (tr : Link.Trace) (endT tb : Int) (b : Link.Br) (types : List String) (tyName : String)
    (aliasOf : Link.Svc → String) (pre evs : List Event) : CacheEval :=
  let at_ (f : Int → Link.Trace → Link.Svc → Bool) : Bool :=
    (k5Instants tr endT).all fun T =>
      let p := tr.filter fun e => e.t ≤ T
      !(decide (tb ≤ T) && Link.neverClosed p b.host) || (k5Svcs p).all fun s => f T p s
  { cb := at_ fun T p s => !(s.ty == b.ty) ||
      Link.live p b s == reportedLive lower (browserRunFrom lower possible pre tb types (cut T evs)).batches tyName (aliasOf s)
    cbOther := at_ fun _ p s => s.ty == b.ty || !(Link.live p b s)
    cacheUp := at_ fun T p s => !(s.ty == b.ty) || !(Link.heldFresh Link.Cfg.paper p b.host s T) ||
      (track lower (ptrRec tyName (aliasOf s)) (pre ++ [.purge tb] ++ cut T evs)).isSome
    cacheDown := at_ fun T p s => !(s.ty == b.ty) ||
      !(track lower (ptrRec tyName (aliasOf s)) (pre ++ [.purge tb] ++ cut T evs)).isSome ||
      Link.heldGrace Link.Cfg.paper p b.host s T }

end cache

/-! ### `ResponderRun` -/
section responder
open Zc.Reply
variable (lower : String → String) (N : Naming)

structure RespEval where
  run : Bool
  covers : Bool
  noTC : Bool
  purgeKeeps : Bool
  rx : Bool
  isQuery : Bool
  outs : Bool
  purge : Bool

/-- the items of the datagram with link id `d`, as the trace shows it being sent -/
def contentOf (tr : Link.Trace) (d : Nat) : List Link.Item :=
  (((Link.sends tr).find? fun sd => sd.d == d).map (·.items)).getD []

def recsAt (tbl : List Rec) (ids : List RecId) : List Rec := ids.filterMap fun i => tbl[i]?

/-- the clauses of `ResponderRun` except `query` (C03's registry behind each query block), for the history `ks` started at clock
`c0`; `content` is `contentOf tr`, `hostOf` maps the querier's address to its host -/
def respEval (tr : Link.Trace) (endT : Int) (tbl : List Rec) (hostOf : Nat → Nat) (c0 : Int) (ks : List KEv) : RespEval :=
  match krun {} c0 ks with
  | .error _ => { run := false, covers := false, noTC := false, purgeKeeps := false, rx := false, isQuery := false, outs := false,
                  purge := false }
  | .ok (_, c', rt) =>
    { run := true
      covers := decide (endT < c')
      noTC := ks.all fun k => match k with
        | .blk (.rx _ _ _ _ _ _ (.query p) _ _) => !p.truncated
        | _ => true
      purgeKeeps := rt.all fun x => match x.2.1 with
        | .purge _ W => [true, false].all fun d => (x.1.q d).groups.all fun g => g.answers.all fun e =>
            W.contains e.1 || e.2.all fun i => !(W.contains i)
        | _ => true
      rx := (Link.dlvs tr).all fun e => !(e.h == N.host) || rt.any fun x => match x.2.1 with
        | .blk (.rx t addr _ dataId size _ _ _ _) =>
          t == e.t && hostOf addr == e.src && contentOf tr dataId == e.items && !(Gen.Reply.l_oversize size)
        | _ => false
      isQuery := rt.all fun x => match x.2.1 with
        | .blk (.rx _ _ _ dataId _ _ kind _ _) =>
          !((contentOf tr dataId).any fun it => match it with | .query .. => true | _ => false) ||
            (match kind with | .query _ => true | _ => false)
        | _ => true
      outs := rt.all fun x => !(decide (x.2.1.time ≤ endT)) || x.2.2.outs.all fun o =>
        let ids : List RecId × List RecId := match o with | .mcast a d => (a, d) | .ucast _ _ _ _ a d => (a, d)
        let pk : Register.Pkt := { flags := 0, questions := [], answers := recsAt tbl ids.1, authorities := [],
                                   additionals := recsAt tbl ids.2 }
        (pk.answers.length == ids.1.length && pk.additionals.length == ids.2.length
          && (pk.answers ++ pk.additionals).all fun r => decide (0 < r.ttl))
        && (Link.sends tr).any fun sd => sd.h == N.host && sd.t == x.2.1.time && sd.dst == dstOfOut hostOf o
            && sd.items == itemsOf lower N pk
      purge := rt.all fun x => match x.2.1 with
        | .purge t W => W.all fun i => match tbl[i]? with
          | some r => (match r.rdata with
            | .ptr alias => !(r.type == Gen.typePtr && r.class_ == Gen.Dns.class_of Gen.classIn) ||
                (Link.unregs tr).any fun u => u.2 == sigR lower N r alias && u.1 == t
            | _ => true)
          | none => true
        | _ => true }

end responder

end Zc.Bridge
