import Zc.Proofs.LinkBridgeCheck
import Zc.Proofs.LinkBridgeK3c
import Zc.Proofs.LinkBridgeK5
import Zc.Proofs.LinkBridgeK4
/-! Evaluators for the projection hypotheses of `C07_convergence_from_models_partial` on a **concrete** link trace and **concrete**
model runs (the witnesses of the existential quantifiers in `Bridge.HostRun`, `Bridge.BrowserRun`, `Bridge.RefreshRun`,
`Bridge.CacheRun`, `Bridge.ResponderRun`), clause by clause.  The driver commands `c07host`, `c07browser`, `c07cache`, `c07resp`
(`Driver/C07.lean`) parse a block log of a real host and print these Booleans.

What is evaluated is the clause as the structure states it, with the quantifier over instances restricted to the instances that
occur in the trace where the structure quantifies over all of `Link.Svc`.  Not evaluated (they stay named in the output as `-`):
injectivity of the naming on names that do not occur; `WFHistory` / `NoFlush` of `CacheRun` (the driver synthesises well-formed
names); `ResponderRun.query` (`FromRegistry`, `ItemOf`: C03's registry behind each query block).  Soundness is proved for the
host clauses (`hostEval_sound`). -/
namespace Zc.Bridge
open Zc

/-! ### `HostRun` -/
section host
open Zc.Goodbye Zc.Register
variable (lower : String → String) (N : Naming)

/-- index of the first block that the machine, or the clock, rejects -/
def rejAt : Host → Int → List (Int × Block × Option Nat) → Nat → Option Nat
  | _, _, [], _ => none
  | h, T, (t, b, _) :: rest, i =>
    if T ≤ t ∧ (blockTime b = none ∨ blockTime b = some t) then
      match h.step lower b with
      | none => some i
      | some (h', _) => rejAt h' t rest (i + 1)
    else some i

structure HostEval where
  disc : Bool
  spaced : Bool
  distinct : Bool
  fair : Bool
  opened : Bool
  sendsIn : Bool
  sendsOut : Bool
  regsIn : Bool
  regsOut : Bool
  updsIn : Bool
  updsOut : Bool
  unregsIn : Bool
  unregsOut : Bool

def HostEval.all (e : HostEval) : Bool :=
  e.disc && e.spaced && e.distinct && e.fair && e.opened && e.sendsIn && e.sendsOut && e.regsIn && e.regsOut && e.updsIn
  && e.updsOut && e.unregsIn && e.unregsOut

def hostEval (tr : Link.Trace) (endT : Int) (steps : List Step) : HostEval :=
  let E := events lower N steps
  { disc := steps.all fun st => decide (Disc lower st) && decide (Disc2 lower st) && decide (Disc3 st)
    spaced := spacedB lower N [] steps
    distinct := distinctCallsB lower N steps
    fair := fairB steps endT
    opened := openB steps
    sendsIn := (Link.sends tr).all fun sd => !(sd.h == N.host) || (Link.ptrSvcs sd.items).isEmpty ||
      (Link.sends E).any fun sd' => sd'.t == sd.t && sd'.items == sd.items && sd'.dst == sd.dst
    sendsOut := (Link.sends E).all fun sd' =>
      (Link.sends tr).any fun sd => sd.h == N.host && sd.t == sd'.t && sd.items == sd'.items && sd.dst == sd'.dst
    regsIn := (Link.regs tr).all fun x => !(x.2.owner == N.host) || (Link.regs E).contains x
    regsOut := (Link.regs E).all fun x => (Link.regs tr).contains x
    updsIn := (Link.upds tr).all fun x => !(x.2.owner == N.host) || (Link.upds E).contains x
    updsOut := (Link.upds E).all fun x => (Link.upds tr).contains x
    unregsIn := (Link.unregs tr).all fun x => !(x.2.owner == N.host) || (Link.unregs E).contains x
    unregsOut := (Link.unregs E).all fun x => (Link.unregs tr).contains x }

/-- a run on which every clause evaluates to `true` is a `HostRun`, given that the naming is injective -/
theorem hostEval_sound (tr : Link.Trace) (endT : Int) (steps : List Step) (T0 : Int)
    (hty : Function.Injective N.tyId) (hsv : Function.Injective N.svcId) (hrun : IsRun lower Host.init T0 steps)
    (h : (hostEval lower N tr endT steps).all = true) : HostRun lower tr endT N steps T0 := by
  simp only [HostEval.all, hostEval, Bool.and_eq_true] at h
  obtain ⟨⟨⟨⟨⟨⟨⟨⟨⟨⟨⟨⟨h1, h2⟩, h3⟩, h4⟩, h5⟩, h6⟩, h7⟩, h8⟩, h9⟩, h10⟩, h11⟩, h12⟩, h13⟩ := h
  refine { tyInj := hty, svInj := hsv, run := hrun, disc := ?_, spaced := spaced_of_spacedB lower N [] steps h2,
           distinct := distinctCalls_of_B lower N steps h3, fair := fair_of_fairB steps endT h4, opened := open_of_openB steps h5,
           sendsIn := ?_, sendsOut := ?_, regsIn := ?_, regsOut := ?_, updsIn := ?_, updsOut := ?_, unregsIn := ?_, unregsOut := ?_ }
  · intro st hst
    have := List.all_eq_true.mp h1 st hst
    simp only [Bool.and_eq_true, decide_eq_true_eq] at this
    exact ⟨this.1.1, this.1.2, this.2⟩
  · intro sd hsd hh hne
    have := List.all_eq_true.mp h6 sd hsd
    simp only [hh, beq_self_eq_true, Bool.not_true, Bool.false_or, Bool.or_eq_true, List.isEmpty_iff, List.any_eq_true,
      Bool.and_eq_true, beq_iff_eq] at this
    rcases this with h | ⟨sd', hsd', ⟨ht, hi⟩, hd⟩
    · exact absurd h hne
    · exact ⟨sd', hsd', ht, hi, hd⟩
  · intro sd' hsd'
    have := List.all_eq_true.mp h7 sd' hsd'
    simp only [List.any_eq_true, Bool.and_eq_true, beq_iff_eq] at this
    obtain ⟨sd, hsd, ⟨⟨hh, ht⟩, hi⟩, hd⟩ := this
    exact ⟨sd, hsd, hh, ht, hi, hd⟩
  · intro x hx hown
    have := List.all_eq_true.mp h8 x hx
    simpa [hown] using this
  · intro x hx
    have := List.all_eq_true.mp h9 x hx
    simpa using this
  · intro x hx hown
    have := List.all_eq_true.mp h10 x hx
    simpa [hown] using this
  · intro x hx
    have := List.all_eq_true.mp h11 x hx
    simpa using this
  · intro x hx hown
    have := List.all_eq_true.mp h12 x hx
    simpa [hown] using this
  · intro x hx
    have := List.all_eq_true.mp h13 x hx
    simpa using this

end host

/-! ### `BrowserRun` and `RefreshRun` -/
section browser
open Zc.Sched Zc.C10

instance (tr : Link.Trace) (b : Link.Br) (o : Send) : Decidable (WireAsk tr b o) := by unfold WireAsk; infer_instance
instance (tr : Link.Trace) (b : Link.Br) (s : Link.Svc) (o : Send) : Decidable (WireAskWithout tr b s o) := by
  unfold WireAskWithout; infer_instance

/-- `P x tail` for some element `x` of the list with the elements after it -/
def tailsAny {α : Type} (P : α → List α → Bool) : List α → Bool
  | [] => false
  | x :: r => P x r || tailsAny P r

/-- `P x tail` for every element `x` of the list with the elements after it -/
def tailsAll {α : Type} (P : α → List α → Bool) : List α → Bool
  | [] => true
  | x :: r => P x r && tailsAll P r

def oneNameB (a n : String) (evs : List (Int × Op)) : Bool :=
  evs.all fun e => match e.2 with | .ptr a' n' _ _ => !(a' == a) || n' == n | _ => true

def supersededB (h : Nat) (s : Link.Svc) (l2 : List Link.DlvE) (x : Link.DlvE) (e : Nat) (τ : Int) : Bool :=
  (l2.any fun y => y.h == h && (Link.ptrOf s y.items).isSome && decide (y.t ≤ τ)) || decide (x.t + 1000 * (e : Int) ≤ τ)

def learnedB (a n : String) (e : Nat) (x : Link.DlvE) (later : Int → Bool) (pre0 evs : List (Int × Op)) : Bool :=
  let after := fun (l : List (Int × Op)) => l.all fun op => !(op.2.touches a) || later op.1
  (tailsAny (fun op post => op == (x.t, Op.ptr a n e x.t) && after post) evs)
  || (tailsAny (fun op post =>
        (match op.2 with | .ptr a' n' e' cr => a' == a && n' == n && e' == e && cr == x.t | _ => false)
        && (post.all fun o => !(o.2.touches a)) && after evs) pre0)

structure BrowserEval where
  run : Bool
  nIn : Bool
  idle : Bool
  active : Bool
  covers : Bool
  /-- `BrowserRun.wire` -/
  wire : Bool
  /-- the rate limit is the default one (`RefreshRun` is stated for it) -/
  rate : Bool
  names : Bool
  learned : Bool
  wireWithout : Bool

/-- the clauses of `BrowserRun` and `RefreshRun` for the history `pre0 ++ (tb, start d) :: evs`; `aliasOf` names the instances.
The quantifier over instances is restricted to the instances of PTR items delivered to the host. -/
def browserEval (tr : Link.Trace) (endT tb : Int) (b : Link.Br) (types : List String) (n : String) (minDelay : Nat) (tS : Int)
    (pre0 : List (Int × Op)) (d : Nat) (evs : List (Int × Op)) (aliasOf : Link.Svc → String) : BrowserEval :=
  let outs : Option (List Send) :=
    match Sched2.exec2 (browserCfg types minDelay none) {} tS (pre0 ++ (tb, .start d) :: evs) with
    | .ok (_, o) => some o
    | .error _ => none
  let os := outs.getD []
  let svcs := (Link.dlvSvcs tr).filter fun s => s.ty == b.ty
  let perPtr (f : Link.Svc → Link.DlvE → List Link.DlvE → Nat → Bool) : Bool :=
    tailsAll (fun x l2 => !(x.h == b.host) || (Link.ptrSvcs x.items).all fun s =>
      match Link.ptrOf s x.items with
      | some (ttl, _) => !(s.ty == b.ty && decide (0 < ttl)) || f s x l2 (max ttl 1125)
      | none => true) (Link.dlvs tr)
  { run := outs.isSome
    nIn := types.contains n
    idle := pre0.all fun e => e.2.idle
    active := evs.all fun e => e.2.active
    covers := decide (endT < lastTime tb evs)
    wire := os.all fun o => !(o.types.contains n && decide (o.t ≤ endT)) || decide (WireAsk tr b o)
    rate := minDelay == 10000
    names := svcs.all fun s => oneNameB (aliasOf s) n (pre0 ++ evs)
    learned := perPtr fun s x l2 e =>
      !((l2.all fun y => !(y.h == b.host && (Link.ptrOf s y.items).isSome) || decide (tb < y.t))
        && decide (tb < x.t + 1000 * (e : Int)))
      || learnedB (aliasOf s) n e x (supersededB b.host s l2 x e) pre0 evs
    wireWithout := perPtr fun s x l2 e =>
      os.all fun o => !(o.types.contains n && decide (x.t + 500 * (e : Int) ≤ o.t) && decide (o.t ≤ endT)
          && l2.all fun y => !(y.h == b.host && (Link.ptrOf s y.items).isSome) || decide (o.t < y.t))
        || decide (WireAskWithout tr b s o) }

end browser

/-! ### `CacheRun` -/
section cache
variable (lower : String → String) (possible : String → List String)

structure CacheEval where
  cb : Bool
  cbOther : Bool
  cacheUp : Bool
  cacheDown : Bool

/-- the three trace-facing clauses of `CacheRun` (`cb`, `cbOther`, `cache` in its two directions) at the instants and for the
instances K5 looks at -/
def cacheEval (tr : Link.Trace) (endT tb : Int) (b : Link.Br) (types : List String) (tyName : String)
    (aliasOf : Link.Svc → String) (pre evs : List Event) : CacheEval :=
  let at_ (f : Int → Link.Trace → Link.Svc → Bool) : Bool :=
    (k5Instants tr endT).all fun T =>
      let p := tr.filter fun e => e.t ≤ T
      !(decide (tb ≤ T) && Link.neverClosed p b.host) || (k5Svcs p).all fun s => f T p s
  { cb := at_ fun T p s => !(s.ty == b.ty) ||
      Link.live p b s == reportedLive lower (browserRunFrom lower possible pre tb types (cut T evs)).batches tyName (aliasOf s)
    cbOther := at_ fun _ p s => s.ty == b.ty || !(Link.live p b s)
    cacheUp := at_ fun T p s => !(s.ty == b.ty) || !(Link.heldFresh Link.Cfg.paper p b.host s T) ||
      (track lower (ptrRec tyName (aliasOf s)) (pre ++ [.purge tb] ++ cut T evs)).isSome
    cacheDown := at_ fun T p s => !(s.ty == b.ty) ||
      !(track lower (ptrRec tyName (aliasOf s)) (pre ++ [.purge tb] ++ cut T evs)).isSome ||
      Link.heldGrace Link.Cfg.paper p b.host s T }

end cache

/-! ### `ResponderRun` -/
section responder
open Zc.Reply
variable (lower : String → String) (N : Naming)

structure RespEval where
  run : Bool
  covers : Bool
  noTC : Bool
  purgeKeeps : Bool
  rx : Bool
  isQuery : Bool
  outs : Bool
  purge : Bool

/-- the items of the datagram with link id `d`, as the trace shows it being sent -/
def contentOf (tr : Link.Trace) (d : Nat) : List Link.Item :=
  (((Link.sends tr).find? fun sd => sd.d == d).map (·.items)).getD []

def recsAt (tbl : List Rec) (ids : List RecId) : List Rec := ids.filterMap fun i => tbl[i]?

/-- the clauses of `ResponderRun` except `query` (C03's registry behind each query block), for the history `ks` started at clock
`c0`; `content` is `contentOf tr`, `hostOf` maps the querier's address to its host -/
def respEval (tr : Link.Trace) (endT : Int) (tbl : List Rec) (hostOf : Nat → Nat) (c0 : Int) (ks : List KEv) : RespEval :=
  match krun {} c0 ks with
  | .error _ => { run := false, covers := false, noTC := false, purgeKeeps := false, rx := false, isQuery := false, outs := false,
                  purge := false }
  | .ok (_, c', rt) =>
    { run := true
      covers := decide (endT < c')
      noTC := ks.all fun k => match k with
        | .blk (.rx _ _ _ _ _ _ (.query p) _ _) => !p.truncated
        | _ => true
      purgeKeeps := rt.all fun x => match x.2.1 with
        | .purge _ W => [true, false].all fun d => (x.1.q d).groups.all fun g => g.answers.all fun e =>
            W.contains e.1 || e.2.all fun i => !(W.contains i)
        | _ => true
      rx := (Link.dlvs tr).all fun e => !(e.h == N.host) || rt.any fun x => match x.2.1 with
        | .blk (.rx t addr _ dataId size _ _ _ _) =>
          t == e.t && hostOf addr == e.src && contentOf tr dataId == e.items && !(Gen.Reply.l_oversize size)
        | _ => false
      isQuery := rt.all fun x => match x.2.1 with
        | .blk (.rx _ _ _ dataId _ _ kind _ _) =>
          !((contentOf tr dataId).any fun it => match it with | .query .. => true | _ => false) ||
            (match kind with | .query _ => true | _ => false)
        | _ => true
      outs := rt.all fun x => !(decide (x.2.1.time ≤ endT)) || x.2.2.outs.all fun o =>
        let ids : List RecId × List RecId := match o with | .mcast a d => (a, d) | .ucast _ _ _ _ a d => (a, d)
        let pk : Register.Pkt := { flags := 0, questions := [], answers := recsAt tbl ids.1, authorities := [],
                                   additionals := recsAt tbl ids.2 }
        (pk.answers.length == ids.1.length && pk.additionals.length == ids.2.length
          && (pk.answers ++ pk.additionals).all fun r => decide (0 < r.ttl))
        && (Link.sends tr).any fun sd => sd.h == N.host && sd.t == x.2.1.time && sd.dst == dstOfOut hostOf o
            && sd.items == itemsOf lower N pk
      purge := rt.all fun x => match x.2.1 with
        | .purge t W => W.all fun i => match tbl[i]? with
          | some r => (match r.rdata with
            | .ptr alias => !(r.type == Gen.typePtr && r.class_ == Gen.Dns.class_of Gen.classIn) ||
                (Link.unregs tr).any fun u => u.2 == sigR lower N r alias && u.1 == t
            | _ => true)
          | none => true
        | _ => true }

end responder

end Zc.Bridge
