import Zc.Proofs.LinkBridgeK4a
/-! K4, reply-model level, part 2: runs of the reply model with the D5 purge (`Bridge.KRun`).

* C12's run-level invariant `HInv` survives the purge (it is about the skeleton of the groups and the *origin* of their keys; a purge
  removes entries and leaves windows and the timer alone), so C12's liveness argument goes through for every record the purges spare
  (`KRun.live`);
* without truncated queries (`NoTC`) nothing is ever deferred, so a fresh query is assembled alone in its arrival block;
* the duplicate guard: a datagram the listener drops as a duplicate follows a *processed* datagram with the same bytes less than a
  second earlier, whose parser saw no QU question (`KRun.dup_source`). -/
namespace Zc.Bridge
open Zc Zc.Reply GenFacts

/-! ### the purge -/

theorem mem_purgeDict {W : List RecId} {d : Dict} {e : RecId × List RecId} (h : e ∈ purgeDict W d) :
    ∃ e0 ∈ d, e0.1 = e.1 ∧ e.1 ∉ W ∧ e.2 = e0.2.filter (fun a => !W.contains a) := by
  unfold purgeDict Dict.withdraw at h
  rw [List.mem_map] at h
  obtain ⟨e0, he0, rfl⟩ := h
  rw [List.mem_filter, GenFacts.q_remove_keep] at he0
  refine ⟨e0, he0.1, rfl, ?_, rfl⟩
  simpa using he0.2

theorem keys_purgeDict (W : List RecId) (d : Dict) (x : RecId) : x ∈ (purgeDict W d).keys ↔ x ∈ d.keys ∧ x ∉ W := by
  simp only [Dict.keys, List.mem_map]
  constructor
  · rintro ⟨e, he, rfl⟩
    obtain ⟨e0, he0, h1, h2, _⟩ := mem_purgeDict he
    exact ⟨⟨e0, he0, h1⟩, h2⟩
  · rintro ⟨⟨e0, he0, rfl⟩, hx⟩
    refine ⟨(e0.1, e0.2.filter (fun a => !W.contains a)), ?_, rfl⟩
    unfold purgeDict Dict.withdraw
    rw [List.mem_map]
    exact ⟨e0, List.mem_filter.mpr ⟨he0, by rw [GenFacts.q_remove_keep]; simpa using hx⟩, rfl⟩

theorem map_sk_purgeQ (W : List RecId) (q : Queue) : (purgeQ W q).groups.map Group.sk = q.groups.map Group.sk := by
  simp [purgeQ, Queue.removeRecords, Group.sk, Function.comp_def]

theorem mem_purgeQ {W : List RecId} {q : Queue} {g' : Group} (h : g' ∈ (purgeQ W q).groups) :
    ∃ g ∈ q.groups, g' = { g with answers := purgeDict W g.answers } := by
  simp only [purgeQ, Queue.removeRecords, List.mem_map] at h
  obtain ⟨g, hg, rfl⟩ := h
  exact ⟨g, hg, rfl⟩

theorem _root_.Zc.Reply.QInv.purge {p : QP} {hist : List AddRec} {clock : Int} {q : Queue} (hI : QInv p hist clock q) (W : List RecId) :
    QInv p hist clock (purgeQ W q) := by
  refine ⟨?_, ?_, hI.hist⟩
  · show SkInv p clock ((purgeQ W q).groups.map Group.sk) q.timer
    rw [map_sk_purgeQ]; exact hI.sk
  · intro g' hg' r hr
    obtain ⟨g, hg, rfl⟩ := mem_purgeQ hg'
    obtain ⟨a, ha, h1, h2, h3⟩ := hI.origin g hg r ((keys_purgeDict W g.answers r).mp hr).1
    exact ⟨a, ha, h1, h2, h3⟩

theorem _root_.Zc.Reply.HInv.purge {hO hD : List AddRec} {clock : Int} {h : Host} (hI : HInv hO hD clock h) {t : Int} (hc : clock ≤ t)
    (hn : h.notOverdue t = true) (W : List RecId) : HInv hO hD t (purgeH W h) := by
  obtain ⟨hdo, hdd, _⟩ := notOverdue_spec hn
  exact ⟨(hI.outQ.mono hc hdo).purge W, (hI.delayQ.mono hc hdd).purge W, hI.deferred.congr rfl hc, hI.timers⟩

theorem purgeH_q (W : List RecId) (h : Host) (d : Bool) : (purgeH W h).q d = purgeQ W (h.q d) := by
  cases d <;> rfl

/-- a record the purge spares stays in its group -/
theorem purgeQ_keeps {W : List RecId} {q : Queue} {g : Group} {r : RecId} (hg : g ∈ q.groups) (hr : r ∈ g.answers.keys) (hW : r ∉ W) :
    ∃ g' ∈ (purgeQ W q).groups, r ∈ g'.answers.keys ∧ g'.born = g.born := by
  refine ⟨{ g with answers := purgeDict W g.answers }, ?_, (keys_purgeDict W g.answers r).mpr ⟨hr, hW⟩, rfl⟩
  simp only [purgeQ, Queue.removeRecords, List.mem_map]
  exact ⟨g, hg, rfl⟩

/-! ### runs -/

theorem KRun.of_krun : ∀ (ks : List KEv) (h : Host) (c : Int) (h' : Host) (c' : Int) (tr : List (Host × KEv × StepOut)),
    krun h c ks = .ok (h', c', tr) → KRun h c ks h' c' tr := by
  intro ks
  induction ks with
  | nil =>
    intro h c h' c' tr hr
    simp only [krun, Except.ok.injEq, Prod.mk.injEq] at hr
    obtain ⟨rfl, rfl, rfl⟩ := hr
    exact KRun.nil _ _
  | cons k ks ih =>
    intro h c h' c' tr hr
    simp only [krun] at hr
    split at hr
    · cases hr
    · rename_i hlt
      cases hs : kstep h k with
      | error m => rw [hs] at hr; cases hr
      | ok r =>
        rw [hs] at hr
        simp only at hr
        cases hrest : krun r.host k.time ks with
        | error m => rw [hrest] at hr; cases hr
        | ok v =>
          obtain ⟨h2, c2, tl⟩ := v
          rw [hrest] at hr
          simp only [Except.ok.injEq, Prod.mk.injEq] at hr
          obtain ⟨rfl, rfl, rfl⟩ := hr
          exact KRun.cons (by omega) hs (ih _ _ _ _ _ hrest)

theorem KRun.times {h : Host} {c : Int} {ks : List KEv} {h' : Host} {c' : Int} {tr : List (Host × KEv × StepOut)}
    (hr : KRun h c ks h' c' tr) : c ≤ c' ∧ ∀ y ∈ tr, c ≤ y.2.1.time ∧ y.2.1.time ≤ c' := by
  induction hr with
  | nil h c => simp
  | @cons h c k ks r h' c' tr hc _ _ ih =>
    refine ⟨by omega, ?_⟩
    intro y hy
    rcases List.mem_cons.mp hy with rfl | hy
    · exact ⟨hc, ih.1⟩
    · have := ih.2 y hy; exact ⟨by omega, this.2⟩

/-- the events of a run are the events of its trace -/
theorem KRun.evs {h : Host} {c : Int} {ks : List KEv} {h' : Host} {c' : Int} {tr : List (Host × KEv × StepOut)}
    (hr : KRun h c ks h' c' tr) : tr.map (·.2.1) = ks := by
  induction hr with
  | nil h c => rfl
  | cons _ _ _ ih => simp [ih]

/-- a block of a run splits it: a run up to the block's state, the block, a run from its result -/
theorem KRun.split {h : Host} {c : Int} {ks : List KEv} {h' : Host} {c' : Int} {tr : List (Host × KEv × StepOut)}
    (hr : KRun h c ks h' c' tr) {x : Host × KEv × StepOut} (hx : x ∈ tr) :
    ∃ ks1 cx tr1 ks2 tr2, KRun h c ks1 x.1 cx tr1 ∧ cx ≤ x.2.1.time ∧ kstep x.1 x.2.1 = .ok x.2.2 ∧
      KRun x.2.2.host x.2.1.time ks2 h' c' tr2 ∧ tr = tr1 ++ x :: tr2 ∧ ks = ks1 ++ x.2.1 :: ks2 := by
  induction hr with
  | nil h c => cases hx
  | @cons h c k ks r h' c' tr hc hs hrest ih =>
    rcases List.mem_cons.mp hx with rfl | hx
    · exact ⟨[], c, [], ks, tr, KRun.nil _ _, hc, hs, hrest, rfl, rfl⟩
    · obtain ⟨ks1, cx, tr1, ks2, tr2, h1, h2, h3, h4, h5, h6⟩ := ih hx
      exact ⟨k :: ks1, cx, (h, k, r) :: tr1, ks2, tr2, KRun.cons hc hs h1, h2, h3, h4, by rw [h5]; rfl, by rw [h6]; rfl⟩

/-! ### what the listener decides about an arriving datagram -/

/-- the listener's state after it has remembered a datagram -/
def remember (l : Listener) (dataId : Nat) (t : Int) (hasQu : Bool) : Listener :=
  { l with lastData := some dataId, lastTime := t, lastMsgQu := some hasQu }

/-- the datagram passes the size guard and the duplicate guard -/
def Fresh (h : Host) (t : Int) (dataId size : Nat) : Prop :=
  Gen.Reply.l_oversize size = false ∧
  Gen.Reply.l_duplicate (h.lis.lastData == some dataId) t h.lis.lastTime h.lis.lastMsgQu.isNone (h.lis.lastMsgQu.getD false) = false

instance (h : Host) (t : Int) (dataId size : Nat) : Decidable (Fresh h t dataId size) := by unfold Fresh; infer_instance

theorem decide_rx_stale {h : Host} {t : Int} {addr port dataId size : Nat} {hasQu : Bool} {kind : RxKind} {seen : SeenMap}
    {draws : List Int} (hf : ¬ Fresh h t dataId size) :
    h.decide (.rx t addr port dataId size hasQu kind seen draws) = .ok (.idle h.lis) := by
  unfold Fresh at hf
  simp only [Host.decide]
  by_cases h1 : Gen.Reply.l_oversize (size : Int) = true
  · rw [if_pos h1]
  · rw [if_neg h1]
    have h1' : Gen.Reply.l_oversize (size : Int) = false := by simpa using h1
    have h2 : Gen.Reply.l_duplicate (h.lis.lastData == some dataId) t h.lis.lastTime h.lis.lastMsgQu.isNone (h.lis.lastMsgQu.getD false) = true := by
      cases hd : Gen.Reply.l_duplicate (h.lis.lastData == some dataId) t h.lis.lastTime h.lis.lastMsgQu.isNone (h.lis.lastMsgQu.getD false)
      · exact absurd ⟨h1', hd⟩ hf
      · rfl
    rw [if_pos h2]

/-- a fresh, untruncated query is handed to `_respond_query` in its arrival block -/
theorem decide_rx_query {h : Host} {t : Int} {addr port dataId size : Nat} {hasQu : Bool} {p : Pkt} {seen : SeenMap}
    {draws : List Int} {a : Act} (hf : Fresh h t dataId size) (htc : p.truncated = false)
    (hd : h.decide (.rx t addr port dataId size hasQu (.query p) seen draws) = .ok a) :
    p.now = t ∧ a = .answer ((remember h.lis dataId t hasQu).take (some p) addr).1 ((remember h.lis dataId t hasQu).take (some p) addr).2 addr port := by
  obtain ⟨h1, h2⟩ := hf
  simp only [Host.decide, h1, h2, Bool.false_eq_true, if_false] at hd
  by_cases hn : p.now = t
  · simp only [hn, ne_eq, not_true_eq_false, if_false, htc, GenFacts.l_not_truncated, Bool.not_false, if_true] at hd
    cases hd
    exact ⟨hn, rfl⟩
  · simp [hn] at hd

/-- what the listener decides about a fresh datagram that is not a truncated query: it remembers it and either does nothing more
(invalid, or a response — the record manager's business) or hands the query to `_respond_query` -/
theorem decide_rx_fresh {h : Host} {t : Int} {addr port dataId size : Nat} {hasQu : Bool} {kind : RxKind} {seen : SeenMap}
    {draws : List Int} {a : Act} (hf : Fresh h t dataId size) (hk : ∀ p, kind = .query p → p.truncated = false)
    (hd : h.decide (.rx t addr port dataId size hasQu kind seen draws) = .ok a) :
    a = .idle (remember h.lis dataId t hasQu) ∨
    (∃ p, kind = .query p ∧ p.now = t ∧
      a = .answer ((remember h.lis dataId t hasQu).take (some p) addr).1 ((remember h.lis dataId t hasQu).take (some p) addr).2 addr port) := by
  cases kind with
  | invalid =>
    obtain ⟨h1, h2⟩ := hf
    simp only [Host.decide, h1, h2, Bool.false_eq_true, if_false] at hd
    cases hd; exact Or.inl rfl
  | response =>
    obtain ⟨h1, h2⟩ := hf
    simp only [Host.decide, h1, h2, Bool.false_eq_true, if_false] at hd
    cases hd; exact Or.inl rfl
  | query p =>
    obtain ⟨h1, h2⟩ := decide_rx_query hf (hk p rfl) hd
    exact Or.inr ⟨p, rfl, h1, h2⟩

/-- a deferral means a truncated query -/
theorem decide_defer_truncated {h : Host} {e : Ev} {lis : Listener} {d : Int} (hd : h.decide e = .ok (.defer lis d)) :
    ∃ t addr port dataId size hasQu p seen draws, e = .rx t addr port dataId size hasQu (.query p) seen draws ∧ p.truncated = true := by
  cases e with
  | rx t addr port dataId size hasQu kind seen draws =>
    simp only [Host.decide] at hd
    repeat' split at hd
    all_goals first
      | (cases hd; done)
      | skip
    rename_i _ _ _ _ htr _ _ _ _ _ _
    refine ⟨t, addr, port, dataId, size, hasQu, _, seen, draws, rfl, ?_⟩
    rw [GenFacts.l_not_truncated] at htr
    simpa using htr
  | tcfire t addr seen draws =>
    simp only [Host.decide] at hd
    repeat' split at hd
    all_goals cases hd
  | qfire t d =>
    simp only [Host.decide] at hd
    repeat' split at hd
    all_goals cases hd
  | qremove t d recs =>
    simp only [Host.decide] at hd
    cases hd

end Zc.Bridge
