import Zc.Model.CacheSpec
import Zc.Props.C20
/-! Helper lemmas: record identity as a key (`Rec.ident`), the association-list dictionary `Index`. -/
namespace Zc

section
variable (lower : String → String)

/-- what `__eq__`/`__hash__` identify (C20): the key under which a record lives in a dict -/
def Rec.ident (r : Rec) : Kind × String × Nat × Nat × RData := (r.rdata.kind, r.specIdent lower)

theorem beq_iff_ident (a b : Rec) : a.beq lower b = true ↔ a.ident lower = b.ident lower := by
  rw [C20_eq_iff]; simp [Rec.ident]

theorem beq_false_iff_ident (a b : Rec) : a.beq lower b = false ↔ a.ident lower ≠ b.ident lower := by
  rw [Ne, ← beq_iff_ident]; simp

theorem beq_refl (a : Rec) : a.beq lower a = true := (beq_iff_ident lower a a).2 rfl

theorem beq_comm (a b : Rec) : a.beq lower b = b.beq lower a := by
  rw [Bool.eq_iff_iff, beq_iff_ident, beq_iff_ident]; exact eq_comm

@[simp] theorem ident_setLife (r : Rec) (c : Ms) (t : Nat) : (r.setLife c t).ident lower = r.ident lower := rfl

theorem ident_name {a b : Rec} (h : a.ident lower = b.ident lower) : lower a.name = lower b.name := by
  simp only [Rec.ident, Rec.specIdent, Prod.mk.injEq] at h; exact h.2.1

theorem ident_type {a b : Rec} (h : a.ident lower = b.ident lower) : a.type = b.type := by
  simp only [Rec.ident, Rec.specIdent, Prod.mk.injEq] at h; exact h.2.2.1

theorem ident_class {a b : Rec} (h : a.ident lower = b.ident lower) : a.class_ = b.class_ := by
  simp only [Rec.ident, Rec.specIdent, Prod.mk.injEq] at h; exact h.2.2.2.1

theorem ident_kind {a b : Rec} (h : a.ident lower = b.ident lower) : a.rdata.kind = b.rdata.kind := by
  simp only [Rec.ident, Prod.mk.injEq] at h; exact h.1

theorem ident_serverKey {a b : Rec} (h : a.ident lower = b.ident lower) : a.serverKey lower = b.serverKey lower := by
  simp only [Rec.ident, Rec.specIdent, Prod.mk.injEq] at h
  have h4 := h.2.2.2.2
  cases ha : a.rdata <;> cases hb : b.rdata <;> simp_all [Rec.serverKey, RData.ident]

@[simp] theorem serverKey_setLife (r : Rec) (c : Ms) (t : Nat) : (r.setLife c t).serverKey lower = r.serverKey lower := rfl
@[simp] theorem name_setLife (r : Rec) (c : Ms) (t : Nat) : (r.setLife c t).name = r.name := rfl
@[simp] theorem type_setLife (r : Rec) (c : Ms) (t : Nat) : (r.setLife c t).type = r.type := rfl
@[simp] theorem class_setLife (r : Rec) (c : Ms) (t : Nat) : (r.setLife c t).class_ = r.class_ := rfl
@[simp] theorem rdata_setLife (r : Rec) (c : Ms) (t : Nat) : (r.setLife c t).rdata = r.rdata := rfl
@[simp] theorem unique_setLife (r : Rec) (c : Ms) (t : Nat) : (r.setLife c t).unique = r.unique := rfl
@[simp] theorem created_setLife (r : Rec) (c : Ms) (t : Nat) : (r.setLife c t).created = c := rfl
@[simp] theorem ttl_setLife (r : Rec) (c : Ms) (t : Nat) : (r.setLife c t).ttl = t := rfl

end

/-! ### `Index` -/
namespace Index

@[simp] theorem find?_nil (k : String) : find? [] k = none := rfl

theorem find?_cons (k' k : String) (b : Bucket) (t : Index) :
    find? ((k', b) :: t) k = if k' = k then some b else find? t k := rfl

theorem find?_set_self (m : Index) (k : String) (b : Bucket) : find? (set m k b) k = some b := by
  induction m with
  | nil => simp [set, find?_cons]
  | cons kb t ih =>
    obtain ⟨k', b'⟩ := kb
    by_cases h : k' = k <;> simp [set, find?_cons, h, ih]

theorem find?_set_ne (m : Index) {k k' : String} (b : Bucket) (h : k' ≠ k) : find? (set m k b) k' = find? m k' := by
  induction m with
  | nil => simp [set, find?_cons, h.symm]
  | cons kb t ih =>
    obtain ⟨k2, b2⟩ := kb
    by_cases h2 : k2 = k
    · subst h2; simp [set, find?_cons, h.symm]
    · simp only [set, h2, if_false, find?_cons, ih]

theorem find?_erase_self (m : Index) (k : String) : find? (erase m k) k = none := by
  induction m with
  | nil => rfl
  | cons kb t ih =>
    obtain ⟨k2, b2⟩ := kb
    by_cases h2 : k2 = k
    · subst h2; simpa [erase, List.filter_cons] using ih
    · simpa [erase, List.filter_cons, h2, find?_cons] using ih

theorem find?_erase_ne (m : Index) {k k' : String} (h : k' ≠ k) : find? (erase m k) k' = find? m k' := by
  induction m with
  | nil => rfl
  | cons kb t ih =>
    obtain ⟨k2, b2⟩ := kb
    by_cases h2 : k2 = k
    · subst h2
      have : find? (erase t k2) k' = find? t k' := ih
      simpa [erase, List.filter_cons, find?_cons, h.symm] using this
    · have : find? (erase t k) k' = find? t k' := ih
      simp only [erase, List.filter_cons, bne_iff_ne, ne_eq, h2, not_false_eq_true, if_true, find?_cons] at this ⊢
      rw [this]

theorem mem_keys_iff (m : Index) (k : String) : k ∈ keys m ↔ (find? m k).isSome = true := by
  induction m with
  | nil => simp [keys]
  | cons kb t ih =>
    obtain ⟨k2, b2⟩ := kb
    by_cases h2 : k2 = k
    · simp [keys, find?_cons, h2]
    · have ih' : k ∈ List.map Prod.fst t ↔ (find? t k).isSome = true := ih
      simp [keys, find?_cons, h2, ih', Ne.symm h2]

theorem keys_set (m : Index) (k : String) (b : Bucket) :
    keys (set m k b) = if k ∈ keys m then keys m else keys m ++ [k] := by
  induction m with
  | nil => simp [set, keys]
  | cons kb t ih =>
    obtain ⟨k2, b2⟩ := kb
    by_cases h2 : k2 = k
    · subst h2; simp [set, keys]
    · have ih' : List.map Prod.fst (set t k b) = if k ∈ List.map Prod.fst t then List.map Prod.fst t else List.map Prod.fst t ++ [k] := ih
      simp only [set, h2, if_false, keys, List.map_cons, List.mem_cons, ih', Ne.symm h2, false_or]
      split <;> simp

theorem nodup_keys_set (m : Index) (k : String) (b : Bucket) (h : (keys m).Nodup) : (keys (set m k b)).Nodup := by
  rw [keys_set]
  split
  · exact h
  · rename_i hk
    rw [List.nodup_append]
    refine ⟨h, by simp, ?_⟩
    intro a ha b hb
    simp at hb; subst hb
    intro heq; subst heq; exact hk ha

theorem nodup_keys_erase (m : Index) (k : String) (h : (keys m).Nodup) : (keys (erase m k)).Nodup := by
  unfold keys erase at *
  exact (List.Sublist.map _ List.filter_sublist).nodup h

theorem find?_mapRecs (f : Rec → Rec) (m : Index) (k : String) :
    find? (mapRecs f m) k = (find? m k).map (List.map f) := by
  induction m with
  | nil => rfl
  | cons kb t ih =>
    obtain ⟨k2, b2⟩ := kb
    have ih' : find? (List.map (fun kb => (kb.1, List.map f kb.2)) t) k = Option.map (List.map f) (find? t k) := ih
    by_cases h2 : k2 = k <;> simp [mapRecs, find?_cons, h2, ih']

theorem keys_mapRecs (f : Rec → Rec) (m : Index) : keys (mapRecs f m) = keys m := by
  simp [keys, mapRecs, List.map_map, Function.comp_def]

theorem get_set_self (m : Index) (k : String) (b : Bucket) : get (set m k b) k = b := by
  simp [get, find?_set_self]

theorem get_set_ne (m : Index) {k k' : String} (b : Bucket) (h : k' ≠ k) : get (set m k b) k' = get m k' := by
  simp [get, find?_set_ne m b h]

theorem get_erase_self (m : Index) (k : String) : get (erase m k) k = [] := by
  simp [get, find?_erase_self]

theorem get_erase_ne (m : Index) {k k' : String} (h : k' ≠ k) : get (erase m k) k' = get m k' := by
  simp [get, find?_erase_ne m h]

theorem get_mapRecs (f : Rec → Rec) (m : Index) (k : String) : get (mapRecs f m) k = (get m k).map f := by
  simp only [get, find?_mapRecs]
  cases find? m k <;> simp

theorem find?_of_mem (m : Index) (h : (keys m).Nodup) {k : String} {b : Bucket} (hm : (k, b) ∈ m) : find? m k = some b := by
  induction m with
  | nil => simp at hm
  | cons kb t ih =>
    obtain ⟨k2, b2⟩ := kb
    simp only [keys, List.map_cons, List.nodup_cons] at h
    rcases List.mem_cons.1 hm with heq | hin
    · cases heq; simp [find?_cons]
    · have hk : k ∈ List.map Prod.fst t := List.mem_map.2 ⟨(k, b), hin, rfl⟩
      have hne : k2 ≠ k := fun e => h.1 (e ▸ hk)
      simp only [find?_cons, hne, if_false]
      exact ih h.2 hin

theorem mem_of_find? (m : Index) {k : String} {b : Bucket} (h : find? m k = some b) : (k, b) ∈ m := by
  induction m with
  | nil => simp at h
  | cons kb t ih =>
    obtain ⟨k2, b2⟩ := kb
    by_cases h2 : k2 = k
    · simp [find?_cons, h2] at h; subst h2; subst h; simp
    · simp only [find?_cons, h2, if_false] at h
      exact List.mem_cons_of_mem _ (ih h)

end Index
end Zc
