import Zc.Model.BrowserReentrant
import Zc.Proofs.Reentrant
/-! The completion loop of a browser whose handlers re-enter the record manager (`Zc/Model/BrowserReentrant.lean`, D24b). -/
namespace Zc

/-! ### the loop, generic in the state the handlers run on -/

section
variable {σ : Type}

/-- `fire`, remembering which pending changes the *outer* loop handed to it -/
def tracedFire (fire : σ → ((String × String) × Change) → σ × Option PyExc) :
    (σ × PendingCh) → ((String × String) × Change) → (σ × PendingCh) × Option PyExc :=
  fun st ev => (((fire st.1 ev).1, st.2 ++ [ev]), (fire st.1 ev).2)

theorem detachedFold_trace (fire : σ → ((String × String) × Change) → σ × Option PyExc) (hfire : ∀ s ev, (fire s ev).2 = none)
    (L : PendingCh) : ∀ (s : σ) (tr : PendingCh),
      (L.foldl (fun (acc : (σ × PendingCh) × Option PyExc) ev =>
          match acc.2 with
          | some _ => acc
          | none => tracedFire fire acc.1 ev) ((s, tr), none)).2 = none
      ∧ (L.foldl (fun (acc : (σ × PendingCh) × Option PyExc) ev =>
          match acc.2 with
          | some _ => acc
          | none => tracedFire fire acc.1 ev) ((s, tr), none)).1.2 = tr ++ L := by
  induction L with
  | nil => intro s tr; simp
  | cons ev t ih =>
    intro s tr
    simp only [List.foldl_cons]
    have : tracedFire fire (s, tr) ev = (((fire s ev).1, tr ++ [ev]), none) := by
      unfold tracedFire; rw [hfire]
    rw [this]
    obtain ⟨h1, h2⟩ := ih (fire s ev).1 (tr ++ [ev])
    exact ⟨h1, by rw [h2]; simp⟩

/-- **with the pending changes detached, the completion loop delivers each of them exactly once, in order, whatever the handlers do**
— in particular whatever they do to this browser's `_pending_handlers` through nested notifications (`get`/`set` are arbitrary):
the changes the loop hands to `fire` are exactly the ones that were pending when it started, and the loop itself does not raise -/
theorem completeLoop_detached_once (get : σ → PendingCh) (set : σ → PendingCh → σ)
    (fire : σ → ((String × String) × Change) → σ × Option PyExc) (hfire : ∀ s ev, (fire s ev).2 = none) (s : σ) :
    (completeLoop true (fun st : σ × PendingCh => get st.1) (fun st p => (set st.1 p, st.2)) (tracedFire fire) (s, [])).2 = none
    ∧ (completeLoop true (fun st : σ × PendingCh => get st.1) (fun st p => (set st.1 p, st.2)) (tracedFire fire) (s, [])).1.2 = get s := by
  unfold completeLoop
  simp only [if_true]
  obtain ⟨h1, h2⟩ := detachedFold_trace fire hfire (get s) (set s []) []
  exact ⟨h1, h2.trans (by simp)⟩

/-- an invariant of the handlers' state carries through the detached loop -/
theorem completeLoop_detached_inv (P : σ → Prop) (get : σ → PendingCh) (set : σ → PendingCh → σ)
    (fire : σ → ((String × String) × Change) → σ × Option PyExc)
    (hset : ∀ s p, P s → P (set s p)) (hfire : ∀ s ev, P s → P (fire s ev).1 ∧ (fire s ev).2 = none) (s : σ) (hs : P s) :
    P (completeLoop true get set fire s).1 ∧ (completeLoop true get set fire s).2 = none := by
  unfold completeLoop
  simp only [if_true]
  have gen : ∀ (L : PendingCh) (s : σ), P s →
      P (L.foldl (fun (acc : σ × Option PyExc) ev => match acc.2 with | some _ => acc | none => fire acc.1 ev) (s, none)).1
      ∧ (L.foldl (fun (acc : σ × Option PyExc) ev => match acc.2 with | some _ => acc | none => fire acc.1 ev) (s, none)).2 = none := by
    intro L
    induction L with
    | nil => intro s hs; exact ⟨hs, rfl⟩
    | cons ev t ih =>
      intro s hs
      simp only [List.foldl_cons]
      obtain ⟨h1, h2⟩ := hfire s ev hs
      have : fire s ev = ((fire s ev).1, none) := Prod.ext rfl h2
      rw [this]
      exact ih _ h1
  exact gen (get s) (set s []) (hset s [] hs)

end

/-! ### the composite: browsers whose handlers create browsers -/

section
variable (lower : String → String) (possible : String → List String)

/-- nothing is propagating and the cache is sound -/
def HostR.OK (S : HostR) : Prop := S.err = none ∧ Cache.Sound lower S.cache

variable {lower}

theorem HostR.OK.setPending {S : HostR} (h : HostR.OK lower S) (bid : Nat) (p : PendingCh) : HostR.OK lower (S.setPending bid p) := h

theorem updateAllR_ok {S : HostR} (h : HostR.OK lower S) (depth : Nat) (now : Ms) (us : List (Rec × Option Rec)) :
    HostR.OK lower (updateAllR lower possible depth now us S) := h

/-- **with the repair no handler plan can make the completion rounds raise** (D24b): on a sound cache, browsers whose service
handlers create browsers — each creation purging the expired records and running its own nested rounds over every listener, the
creating browser included, to any nesting depth — deliver their callbacks without an exception, and the cache stays sound -/
theorem hostR_ok (fuel : Nat) :
    (∀ depth now nb types (S : HostR), HostR.OK lower S → HostR.OK lower (createR lower possible true fuel depth now nb types S))
    ∧ (∀ depth now bid (S : HostR) ev, HostR.OK lower S →
        HostR.OK lower (fireR lower possible true fuel depth now bid S ev).1 ∧ (fireR lower possible true fuel depth now bid S ev).2 = none)
    ∧ (∀ depth now bid (S : HostR), HostR.OK lower S → HostR.OK lower (completeOneR lower possible true fuel depth now bid S))
    ∧ (∀ depth now (S : HostR), HostR.OK lower S → HostR.OK lower (completeAllR lower possible true fuel depth now S)) := by
  induction fuel with
  | zero =>
    refine ⟨?_, ?_, ?_, ?_⟩
    · intro depth now nb types S h; unfold createR; exact h
    · intro depth now bid S ev h; unfold fireR; exact ⟨h, h.1⟩
    · intro depth now bid S h; unfold completeOneR; exact h
    · intro depth now S h; unfold completeAllR; exact h
  | succ n ih =>
    obtain ⟨ihC, ihF, ihO, ihA⟩ := ih
    refine ⟨?_, ?_, ?_, ?_⟩
    · -- createR
      intro depth now nb types S h
      unfold createR
      simp only [add_listener_purges_first_eq, if_true, add_listener_purge_expire_now_eq, add_listener_purge_updates_now_eq,
        add_listener_replay_now_eq]
      -- the one clock reading of this creation
      generalize S.reading now = t
      obtain ⟨c', ex, he, hs', _, _⟩ := h.2.expire t
      rw [he]
      simp only []
      have h2 : HostR.OK lower (if ex.isEmpty = true then ({ S with tick := S.tick.map (· + 1), cache := c' } : HostR)
          else completeAllR lower possible true n depth now
            (updateAllR lower possible depth t (ex.map (fun r => (r, some r)))
              { S with tick := S.tick.map (· + 1), cache := c', log := S.log ++ [NestEv.purge depth t ex] })) := by
        split
        · exact ⟨h.1, hs'⟩
        · exact ihA depth now _ (updateAllR_ok (possible := possible)
            (S := { S with tick := S.tick.map (· + 1), cache := c', log := S.log ++ [NestEv.purge depth t ex] }) ⟨h.1, hs'⟩ depth t _)
      generalize (if ex.isEmpty = true then ({ S with tick := S.tick.map (· + 1), cache := c' } : HostR)
          else completeAllR lower possible true n depth now
            (updateAllR lower possible depth t (ex.map (fun r => (r, some r)))
              { S with tick := S.tick.map (· + 1), cache := c', log := S.log ++ [NestEv.purge depth t ex] })) = S2 at *
      rw [h2.1]
      simp only []
      split
      · exact ⟨rfl, h2.2⟩
      · exact ihO depth now nb _ ⟨rfl, h2.2⟩
    · -- fireR
      intro depth now bid S ev h
      unfold fireR
      simp only []
      split
      · exact ⟨h, rfl⟩
      · rename_i p _
        have h1 := ihC (depth + 1) now p.newBid p.types
          { S with cbs := S.cbs ++ [(bid, { change := ev.2, type := ev.1.2, name := ev.1.1 })],
                   plans := S.plans.filter (fun q => !(q.same p)), log := S.log ++ [NestEv.made depth bid p.newBid] } h
        exact ⟨h1, h1.1⟩
    · -- completeOneR
      intro depth now bid S h
      unfold completeOneR
      simp only []
      obtain ⟨h1, h2⟩ := completeLoop_detached_inv (HostR.OK lower) (fun S => S.getPending bid) (fun S p => S.setPending bid p)
        (fireR lower possible true n depth now bid) (fun s p hs => hs.setPending bid p) (fun s ev hs => ihF depth now bid s ev hs) S h
      rw [h2]
      exact h1
    · -- completeAllR
      intro depth now S h
      unfold completeAllR
      simp only []
      have gen : ∀ (ids : List Nat) (S : HostR), HostR.OK lower S →
          HostR.OK lower (ids.foldl (fun S bid => match S.err with | some _ => S | none => completeOneR lower possible true n depth now bid S) S) := by
        intro ids
        induction ids with
        | nil => intro S hS; exact hS
        | cons b t iht =>
          intro S hS
          simp only [List.foldl_cons, hS.1]
          exact iht _ (ihO depth now b S hS)
      exact gen _ _ h

end
end Zc
