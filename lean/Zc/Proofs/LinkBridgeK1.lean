import Zc.Proofs.LinkBridgeK2
/-! K1 for the C08/C09 host machine (`Zc.Goodbye.Host`: the `register` / `update` blocks spawn C09's `announceTask`), under the
event-loop axiom `Fair`: three complete announcements after every `reg` / `upd` that is not followed by another call for the
service. -/
namespace Zc.Bridge
open Zc Zc.Goodbye Zc.Register

variable (lower : String → String) (N : Naming)

/-! ### along a run -/

theorem run_tail' : ∀ (pre : List Step) (st : Step) (post : List Step) (h : Host) (T : Int),
    IsRun lower h T (pre ++ st :: post) → IsRun lower st.post st.t post := by
  intro pre
  induction pre with
  | nil =>
    intro st post h T hrun
    cases hrun with
    | cons _ h' _ t b out ad _ hs hT hbt hrest => exact hrest
  | cons s0 pre' ih =>
    intro st post h T hrun
    cases hrun with
    | cons _ h' _ t b out ad _ hs hT hbt hrest => exact ih st post h' t hrest

theorem run_wf : ∀ (steps : List Step) (h : Host) (T : Int), IsRun lower h T steps → WF lower h → ∀ st ∈ steps, WF lower st.pre := by
  intro steps
  induction steps with
  | nil => intro h T _ _ st hst; cases hst
  | cons s0 rest ih =>
    intro h T hrun hw st hst
    cases hrun with
    | cons _ h' _ t b out ad _ hs hT hbt hrest =>
      rcases List.mem_cons.mp hst with rfl | hst
      · exact hw
      · exact ih h' t hrest (wf_step lower h h' b out hw hs) st hst

/-! ### the registry entry of an announced service persists while no call for it happens -/

/-- the registry holds the service under its name with info object `oid` -/
def Ent (s : Register.Svc) (oid : Nat) (h : Host) : Prop :=
  ∃ e, regGet lower h.reg (key lower s) = some e ∧ e.oid = oid ∧ sigma lower N e.svc = sigma lower N s

theorem Ent_registered (s : Register.Svc) (oid : Nat) (h : Host) (he : Ent lower N s oid h) :
    registeredAs lower h.reg s oid = true := by
  obtain ⟨e, hg, ho, _⟩ := he
  simp [registeredAs, hg, ho]

theorem Ent_sig (s : Register.Svc) (oid : Nat) (h : Host) (he : Ent lower N s oid h) : sigma lower N s ∈ sig lower N h := by
  obtain ⟨e, hg, _, hs⟩ := he
  unfold sig
  rw [List.mem_map]
  exact ⟨e, List.mem_of_find?_eq_some hg, hs⟩

theorem regGet_key (reg : List Entry) (k : String) (e : Entry) (h : regGet lower reg k = some e) : key lower e.svc = k := by
  have := List.find?_some h
  simpa using this

theorem regGet_append_some (reg : List Entry) (k : String) (e x : Entry) (h : regGet lower reg k = some e) :
    regGet lower (reg ++ [x]) k = some e := by
  unfold regGet at h ⊢
  rw [List.find?_append, h]
  rfl

theorem regGet_append_none (reg : List Entry) (x : Entry) (h : regGet lower reg (key lower x.svc) = none) :
    regGet lower (reg ++ [x]) (key lower x.svc) = some x := by
  unfold regGet at h ⊢
  rw [List.find?_append, h]
  simp

/-- a step that yields neither `unreg` nor `upd` of the service keeps its registry entry -/
theorem Ent_step (hsv : Function.Injective N.svcId) (s : Register.Svc) (oid : Nat) (st : Step)
    (hs : st.pre.step lower st.b = some (st.post, st.out)) (hd : Disc lower st)
    (he : Ent lower N s oid st.pre)
    (hno : sigma lower N s ∉ removes lower N st ∧ sigma lower N s ∉ updSvcs lower N st) : Ent lower N s oid st.post := by
  obtain ⟨t, b, h, h', out, ad⟩ := st
  obtain ⟨e, hg, ho, hes⟩ := he
  have hem : e ∈ h.reg := List.mem_of_find?_eq_some hg
  have hek : key lower e.svc = key lower s := regGet_key lower h.reg _ e hg
  simp only at hs hd hno hg hem ⊢
  have hsig : sigma lower N s ∈ sig lower N h := by
    unfold sig; rw [List.mem_map]; exact ⟨e, hem, hes⟩
  -- if the service is no longer in the registry afterwards it was removed
  have gone : sigma lower N s ∉ sig lower N h' → False := by
    intro hn
    apply hno.1
    simp only [removes, List.mem_filter, Bool.not_eq_true', List.contains_eq_mem, decide_eq_false_iff_not]
    exact ⟨hsig, hn⟩
  have sameKey : ∀ s2 : Register.Svc, sigma lower N s2 = sigma lower N s → key lower s2 = key lower s := by
    intro s2 h2
    unfold sigma at h2
    simp only [Link.Svc.mk.injEq, true_and] at h2
    exact hsv h2.2
  cases b with
  | register s2 oid2 now =>
    simp only [Host.step] at hs
    split at hs
    · simp at hs
    rename_i hfree
    split at hs
    · simp at hs
    simp only [Option.some.injEq, Prod.mk.injEq] at hs
    obtain ⟨rfl, _⟩ := hs
    exact ⟨e, regGet_append_some lower h.reg _ e _ hg, ho, hes⟩
  | update s2 oid2 now =>
    simp only [Host.step] at hs
    split at hs
    · simp at hs
    simp only [Option.some.injEq, Prod.mk.injEq] at hs
    obtain ⟨rfl, _⟩ := hs
    by_cases hk : key lower s2 = key lower s
    · exfalso
      apply hno.2
      have hd' : lower e.svc.type = lower s2.type := hd e hem (by rw [hek, hk])
      have h2 : sigma lower N s2 = sigma lower N s := by
        rw [← hes]; exact (sigma_of_key lower N e.svc s2 (by rw [hek, hk]) hd').symm
      simp only [updSvcs]
      rw [h2]
      simp [hsig]
    · refine ⟨e, ?_, ho, hes⟩
      apply regGet_append_some
      rw [regGet_remove_ne lower h.reg _ _ (fun hh => hk hh.symm)]
      exact hg
  | unregister s2 oid2 now =>
    simp only [Host.step, unregRemove_eq, Option.some.injEq, Prod.mk.injEq] at hs
    obtain ⟨rfl, _⟩ := hs
    by_cases hk : key lower s2 = key lower s
    · exfalso
      apply gone
      simp only [sig, List.mem_map]
      rintro ⟨e', he', hes'⟩
      have hk' := sameKey e'.svc hes'
      unfold regRemove at he'
      rw [List.mem_filter] at he'
      simp [hk', hk] at he'
    · refine ⟨e, ?_, ho, hes⟩
      rw [regGet_remove_ne lower h.reg _ _ (fun hh => hk hh.symm)]
      exact hg
  | unregisterAll now =>
    simp only [Host.step] at hs
    split at hs
    · simp only [Option.some.injEq, Prod.mk.injEq] at hs
      obtain ⟨rfl, _⟩ := hs
      exact ⟨e, hg, ho, hes⟩
    · simp only [Option.some.injEq, Prod.mk.injEq] at hs
      obtain ⟨rfl, _⟩ := hs
      exact (gone (by simp [sig])).elim
  | task oid2 ttl ad due =>
    have := step_reg_other lower h h' _ out hs trivial
    exact ⟨e, by rw [this]; exact hg, ho, hes⟩
  | answer rs =>
    have := step_reg_other lower h h' _ out hs trivial
    exact ⟨e, by rw [this]; exact hg, ho, hes⟩
  | enqueue delayed now draw answers =>
    have := step_reg_other lower h h' _ out hs trivial
    exact ⟨e, by rw [this]; exact hg, ho, hes⟩
  | ready delayed now =>
    have := step_reg_other lower h h' _ out hs trivial
    exact ⟨e, by rw [this]; exact hg, ho, hes⟩
  | allStep due =>
    have := step_reg_other lower h h' _ out hs trivial
    exact ⟨e, by rw [this]; exact hg, ho, hes⟩
  | close =>
    have := step_reg_other lower h h' _ out hs trivial
    exact ⟨e, by rw [this]; exact hg, ho, hes⟩

theorem Ent_along (hsv : Function.Injective N.svcId) (s : Register.Svc) (oid : Nat) :
    ∀ (steps : List Step) (h : Host) (T : Int), IsRun lower h T steps → Ent lower N s oid h →
      (∀ st ∈ steps, Disc lower st) →
      ∀ pre st post, steps = pre ++ st :: post →
        (∀ m ∈ pre, sigma lower N s ∉ removes lower N m ∧ sigma lower N s ∉ updSvcs lower N m) → Ent lower N s oid st.pre := by
  intro steps
  induction steps with
  | nil => intro h T _ _ _ pre st post hsplit; cases pre <;> simp at hsplit
  | cons s0 rest ih =>
    intro h T hrun he hd pre st post hsplit hno
    cases hrun with
    | cons _ h' _ t b out ad _ hs hT hbt hrest =>
      cases pre with
      | nil =>
        simp only [List.nil_append, List.cons.injEq] at hsplit
        obtain ⟨rfl, _⟩ := hsplit
        exact he
      | cons p0 pre' =>
        simp only [List.cons_append, List.cons.injEq] at hsplit
        obtain ⟨rfl, hrest'⟩ := hsplit
        have he' := Ent_step lower N hsv s oid ⟨t, b, h, h', out, ad⟩ hs (hd _ (by simp)) he (hno _ (by simp))
        exact ih h' t hrest he' (fun st hst => hd st (by simp [hst])) pre' st post hrest' (fun m hm => hno m (by simp [hm]))

/-! ### the announcement datagram is complete -/

theorem ptrItem_non_ptr (p : Pkt) (r : Rec) (h : r.rdata.kind ≠ .ptr) : ptrItem lower N p r = none := by
  unfold ptrItem
  cases hrd : r.rdata <;> simp_all [RData.kind]

theorem filterMap_ptrItem_addrNsec (p : Pkt) (s : Register.Svc) (o : Option Nat) :
    (s.addrNsec o).filterMap (ptrItem lower N p) = [] := by
  rw [List.filterMap_eq_nil_iff]
  intro r hr
  apply ptrItem_non_ptr
  rcases mem_addrNsec s o r hr with ⟨a, rfl⟩ | ⟨a, rfl⟩ | rfl <;> simp [mkRec, Svc.nsec, RData.kind]

/-- the items of an announcement: exactly the service's pointer -/
theorem itemsOf_broadcast (s : Register.Svc) (o : Option Nat) :
    itemsOf lower N (broadcastPkt s o true) =
      [.ptr (sigma lower N s) (ttlOf o s.otherTtl) (fullFor lower (broadcastPkt s o true) s.name)] := by
  have hsrv : ptrItem lower N (broadcastPkt s o true) (s.srv o) = none := ptrItem_non_ptr lower N _ _ (by simp [Svc.srv, mkRec, RData.kind])
  have htxt : ptrItem lower N (broadcastPkt s o true) (s.txt o) = none := ptrItem_non_ptr lower N _ _ (by simp [Svc.txt, mkRec, RData.kind])
  have hptr : ptrItem lower N (broadcastPkt s o true) (s.ptr o) =
      some (.ptr (sigma lower N s) (ttlOf o s.otherTtl) (fullFor lower (broadcastPkt s o true) s.name)) := by
    simp [ptrItem, Svc.ptr, mkRec, sigma]
  unfold itemsOf
  simp only [broadcastPkt, broadcastAnswers, Zc.GenFacts.Register.add_addresses_eq, if_true, List.append_nil,
    List.filterMap_append, List.filterMap_cons, List.filterMap_nil]
  rw [filterMap_ptrItem_addrNsec]
  simp only [broadcastPkt, broadcastAnswers, Zc.GenFacts.Register.add_addresses_eq, if_true] at hsrv htxt hptr
  rw [hptr, hsrv, htxt]
  rfl

theorem fullFor_broadcast (s : Register.Svc) (o : Option Nat) (ha : s.v4 ≠ [] ∨ s.v6 ≠ []) :
    fullFor lower (broadcastPkt s o true) s.name = true := by
  unfold fullFor
  simp only [broadcastPkt, broadcastAnswers, Zc.GenFacts.Register.add_addresses_eq, if_true, List.append_nil, Bool.and_eq_true,
    List.any_eq_true, Bool.or_eq_true, decide_eq_true_eq]
  refine ⟨⟨⟨s.srv o, by simp, by simp [Svc.srv, mkRec]⟩, ⟨s.txt o, by simp, by simp [Svc.txt, mkRec]⟩⟩, ?_⟩
  rcases ha with ha | ha
  · obtain ⟨a, l, hal⟩ := List.exists_cons_of_ne_nil ha
    refine ⟨mkRec s.server Gen.typeA Gen.classInUnique (ttlOf o s.hostTtl) (.addr a none), ?_, Or.inl (by simp [mkRec])⟩
    simp [Svc.addrNsec, Svc.addrs, hal]
  · obtain ⟨a, l, hal⟩ := List.exists_cons_of_ne_nil ha
    refine ⟨mkRec s.server Gen.typeAaaa Gen.classInUnique (ttlOf o s.hostTtl) (.addr a none), ?_, Or.inr (by simp [mkRec])⟩
    simp [Svc.addrNsec, Svc.addrs, hal]

theorem posFull_broadcast (s : Register.Svc) (hp : 0 < s.otherTtl) (ha : s.v4 ≠ [] ∨ s.v6 ≠ []) :
    Link.posFull (sigma lower N s) (itemsOf lower N (broadcastPkt s none true)) = true := by
  rw [itemsOf_broadcast]
  simp [Link.posFull, Link.ptrOf, ttlOf, hp, fullFor_broadcast lower s none ha]

/-! ### executing an announcement task -/

theorem exec_announce (st : Step) (τ : Register.Task) (hs : st.pre.step lower st.b = some (st.post, st.out))
    (hb : st.b = .task τ.oid τ.ttl τ.addresses τ.due)
    (hf : findTask st.pre.tasks τ.oid τ.ttl τ.addresses τ.due = some τ) (httl : τ.ttl = none)
    (hreg : registeredAs lower st.pre.reg τ.svc τ.oid = true) (hopen : st.pre.done = false) :
    st.out = [broadcastPkt τ.svc none τ.addresses] ∧
    (τ.i + 1 < 3 → ({ τ with i := τ.i + 1, due := τ.due + τ.interval } : Register.Task) ∈ st.post.tasks) := by
  rw [hb] at hs
  simp only [Host.step, hf] at hs
  simp only [Task.step, httl, hreg, Option.isNone_none, Zc.GenFacts.Goodbye.announce_stops_eq, Bool.not_true, Bool.and_false,
    Bool.false_eq_true, if_false, Zc.GenFacts.Register.broadcast_count_eq] at hs
  by_cases hi : τ.i + 1 < 3
  · simp only [hi, if_true, Option.some.injEq, Prod.mk.injEq] at hs
    obtain ⟨hpost, hout⟩ := hs
    refine ⟨?_, fun _ => ?_⟩
    · rw [← hout]; simp [emit, Zc.GenFacts.Goodbye.send_is_noop_eq, hopen]
    · rw [← hpost]; simp [httl]
  · simp only [hi, if_false, Option.some.injEq, Prod.mk.injEq] at hs
    obtain ⟨_, hout⟩ := hs
    exact ⟨by rw [← hout]; simp [emit, Zc.GenFacts.Goodbye.send_is_noop_eq, hopen], fun h => absurd h hi⟩

theorem mcastAt_of_out' (steps : List Step) (st : Step) (hst : st ∈ steps) (hdst : dstOf st.b st.adst = none) (p : Pkt)
    (hp : p ∈ st.out) (s : Link.Svc) (hs : s.owner = N.host) (q : List Link.Item → Bool) (hb : q (itemsOf lower N p) = true) :
    Link.mcastAt (events lower N steps) s.owner st.t q = true := by
  rw [Link.mcastAt_iff]
  refine ⟨⟨st.t, N.host, 0, none, itemsOf lower N p⟩, ?_, hs.symm, rfl, rfl, hb⟩
  obtain ⟨pre, post, rfl⟩ := List.append_of_mem hst
  rw [events_append, events_cons, sends_append, sends_append, sends_stepEvents]
  exact List.mem_append_right _ (List.mem_append_left _ (List.mem_map.mpr ⟨p, hp, by rw [hdst]⟩))

/-- an `unreg` / `upd` produced by a step is a register-event of the projected trace at the instant of the step -/
theorem regEvs_of_step (steps : List Step) (st : Step) (hst : st ∈ steps) (s : Link.Svc)
    (h : s ∈ removes lower N st ∨ s ∈ updSvcs lower N st) : (st.t, s) ∈ Link.regEvs (events lower N steps) := by
  obtain ⟨pre, post, rfl⟩ := List.append_of_mem hst
  rw [Link.mem_regEvs]
  rcases h with h | h
  · refine ⟨⟨st.t, .unreg s⟩, ?_, rfl, Or.inr (Or.inr rfl)⟩
    rw [events_append, events_cons]
    apply List.mem_append_right
    apply List.mem_append_left
    simp only [stepEvents, List.mem_append, List.mem_map]
    exact Or.inl (Or.inl (Or.inr ⟨s, h, rfl⟩))
  · refine ⟨⟨st.t, .upd s⟩, ?_, rfl, Or.inr (Or.inl rfl)⟩
    rw [events_append, events_cons]
    apply List.mem_append_right
    apply List.mem_append_left
    simp only [stepEvents, List.mem_append, List.mem_map]
    exact Or.inl (Or.inr ⟨s, h, rfl⟩)

/-! ### the chain of announcements -/

theorem run_split_le : ∀ (pre : List Step) (st : Step) (post : List Step) (h : Host) (T : Int),
    IsRun lower h T (pre ++ st :: post) → ∀ m ∈ pre, m.t ≤ st.t := by
  intro pre
  induction pre with
  | nil => intro st post h T _ m hm; cases hm
  | cons s0 pre' ih =>
    intro st post h T hrun m hm
    cases hrun with
    | cons _ h' _ t b out ad _ hs hT hbt hrest =>
      rcases List.mem_cons.mp hm with rfl | hm
      · exact run_time_ge lower _ h' t hrest st (by simp)
      · exact ih st post h' t hrest m hm

/-- the `register` / `update` block leaves the service in the registry under its info object, with its announcement task -/
theorem announce_step (st : Step) (hs : st.pre.step lower st.b = some (st.post, st.out)) (s : Register.Svc) (oid : Nat) (now : Int)
    (hb : st.b = .register s oid now ∨ st.b = .update s oid now) :
    Ent lower N s oid st.post ∧ announceTask s oid now ∈ st.post.tasks := by
  rcases hb with hb | hb
  · rw [hb] at hs
    simp only [Host.step] at hs
    split at hs
    · simp at hs
    rename_i hfree
    split at hs
    · simp at hs
    simp only [Option.some.injEq, Prod.mk.injEq] at hs
    obtain ⟨hpost, _⟩ := hs
    rw [← hpost]
    refine ⟨⟨⟨s, oid⟩, ?_, rfl, rfl⟩, by simp⟩
    apply regGet_append_none lower st.pre.reg ⟨s, oid⟩
    cases hg : regGet lower st.pre.reg (key lower s) with
    | none => rfl
    | some e => simp [hg] at hfree
  · rw [hb] at hs
    simp only [Host.step] at hs
    split at hs
    · simp at hs
    simp only [Option.some.injEq, Prod.mk.injEq] at hs
    obtain ⟨hpost, _⟩ := hs
    rw [← hpost]
    refine ⟨⟨⟨s, oid⟩, ?_, rfl, rfl⟩, by simp⟩
    exact regGet_append_none lower _ ⟨s, oid⟩ (regGet_remove_eq lower st.pre.reg (key lower s))

/-- a broadcast-task step at `t` puts a complete, positive pointer to `σ` on the wire -/
def AnnAt (steps : List Step) (t : Int) (σ : Link.Svc) : Prop :=
  ∃ st ∈ steps, (∃ oid ttl ad due, st.b = .task oid ttl ad due) ∧ st.t = t ∧
    ∃ p ∈ st.out, Link.posFull σ (itemsOf lower N p) = true

theorem AnnAt_mcast (steps : List Step) (t : Int) (s : Register.Svc) (h : AnnAt lower N steps t (sigma lower N s)) :
    Link.mcastAt (events lower N steps) N.host t (Link.posFull (sigma lower N s)) = true := by
  obtain ⟨st, hst, ⟨oid, ttl, ad, due, hb⟩, rfl, p, hp, hq⟩ := h
  exact mcastAt_of_out' lower N steps st hst (by rw [hb]; exact Zc.GenFacts.Link.dstOf_task _ _ _ _ _) p hp (sigma lower N s) rfl _ hq

/-- **three complete announcements** after a `register` / `update` block at `t` that is followed by no call for the service up to
`t + 450`, under the event-loop axiom -/
theorem announce_chain (hsv : Function.Injective N.svcId) (steps : List Step) (T0 endT : Int)
    (hrun : IsRun lower Host.init T0 steps)
    (hd : ∀ st ∈ steps, Disc lower st ∧ Disc2 lower st ∧ Disc3 st) (hfair : Fair steps endT) (hopen : Open steps)
    (hdist : DistinctCalls lower N steps)
    (pre : List Step) (stk : Step) (post : List Step) (hsplit : steps = pre ++ stk :: post)
    (s : Register.Svc) (oid : Nat) (now : Int) (hb : stk.b = .register s oid now ∨ stk.b = .update s oid now)
    (t0 : Int) (ht0 : t0 ≤ stk.t) (hk : t0 < stk.t ∨ regEvOf lower N stk (sigma lower N s))
    (hend : stk.t + 450 ≤ endT)
    (hnol : Link.laterRegEv (events lower N steps) (sigma lower N s) t0 (stk.t + 450) = false) :
    AnnAt lower N steps stk.t (sigma lower N s) ∧ AnnAt lower N steps (stk.t + 225) (sigma lower N s)
    ∧ AnnAt lower N steps (stk.t + 450) (sigma lower N s) := by
  have hstep := run_step_of_mem lower steps Host.init T0 hrun
  have hstk : stk ∈ steps := by rw [hsplit]; simp
  have hnow : now = stk.t := by
    rcases hb with hb | hb <;> exact (hstep stk hstk).2 now (by rw [hb]; rfl)
  obtain ⟨hent, htask⟩ := announce_step lower N stk (hstep stk hstk).1 s oid now hb
  have hpos : 0 < s.otherTtl := by
    have := (hd stk hstk).2.1
    rcases hb with hb | hb <;> simp only [Disc2, hb] at this <;> exact this.1
  have haddr : s.v4 ≠ [] ∨ s.v6 ≠ [] := by
    have := (hd stk hstk).2.2
    rcases hb with hb | hb <;> simp only [Disc3, hb] at this <;> exact this
  have htail : IsRun lower stk.post stk.t post := run_tail' lower pre stk post Host.init T0 (hsplit ▸ hrun)
  have hdtail : ∀ st ∈ post, Disc lower st := fun st hst => (hd st (by rw [hsplit]; simp [hst])).1
  -- no step of the tail up to t + 450 touches the service
  have quiet : ∀ m ∈ post, m.t ≤ stk.t + 450 →
      sigma lower N s ∉ removes lower N m ∧ sigma lower N s ∉ updSvcs lower N m := by
    intro m hm hle
    have hmS : m ∈ steps := by rw [hsplit]; simp [hm]
    have hge : stk.t ≤ m.t := run_time_ge lower post stk.post stk.t htail m hm
    have key : ∀ (h' : sigma lower N s ∈ removes lower N m ∨ sigma lower N s ∈ updSvcs lower N m), False := by
      intro h'
      have hev := regEvs_of_step lower N steps m hmS _ h'
      by_cases hlt : t0 < m.t
      · have : Link.laterRegEv (events lower N steps) (sigma lower N s) t0 (stk.t + 450) = true := by
          unfold Link.laterRegEv
          rw [List.any_eq_true]
          exact ⟨_, hev, by simp; omega⟩
        rw [hnol] at this
        cases this
      · have hmt : m.t = stk.t := by omega
        rcases hk with hk | hk
        · omega
        · exact hdist pre stk post hsplit m hm hmt _ hk (Or.inr h')
    exact ⟨fun h' => key (Or.inl h'), fun h' => key (Or.inr h')⟩
  -- one announcement: a pending task of the service, due within the window, is executed and continues
  have hop : ∀ (preX : List Step) (X : Step) (postX m : List Step) (τ : Register.Task), steps = preX ++ X :: postX →
      post = m ++ postX → τ ∈ X.post.tasks → τ.ttl = none → τ.svc = s → τ.oid = oid → τ.addresses = true →
      τ.interval = Gen.registerTime → τ.due ≤ stk.t + 450 →
      AnnAt lower N steps τ.due (sigma lower N s) ∧
      (τ.i + 1 < 3 → ∃ preY Y postY m' τ', steps = preY ++ Y :: postY ∧ post = m' ++ postY ∧ τ' ∈ Y.post.tasks ∧ τ'.ttl = none ∧
        τ'.svc = s ∧ τ'.oid = oid ∧ τ'.addresses = true ∧ τ'.interval = Gen.registerTime ∧ τ'.due = τ.due + 225 ∧ τ'.i = τ.i + 1) := by
    intro preX X postX m τ hspX hsuf hτ httl hsvc hoid hadr hint hdue
    obtain ⟨p1, Y, p2, hpX, hbY, hfY⟩ := hfair.1 preX X postX hspX τ hτ (by omega)
    have hYS : Y ∈ steps := by rw [hspX, hpX]; simp
    have hYt : τ.due = Y.t := (hstep Y hYS).2 τ.due (by rw [hbY]; rfl)
    have hpostY : post = (m ++ p1) ++ Y :: p2 := by rw [hsuf, hpX]; simp
    have hentY : Ent lower N s oid Y.pre := by
      apply Ent_along lower N hsv s oid post stk.post stk.t htail hent hdtail (m ++ p1) Y p2 hpostY
      intro m' hm'
      have hm'p : m' ∈ post := by rw [hpostY]; exact List.mem_append_left _ hm'
      have := run_split_le lower (m ++ p1) Y p2 stk.post stk.t (hpostY ▸ htail) m' hm'
      exact quiet m' hm'p (by omega)
    have hreg : registeredAs lower Y.pre.reg τ.svc τ.oid = true := by
      rw [hsvc, hoid]; exact Ent_registered lower N s oid Y.pre hentY
    have hex := exec_announce lower Y τ (hstep Y hYS).1 hbY hfY httl hreg (hopen Y hYS)
    refine ⟨?_, fun hi => ⟨preX ++ X :: p1, Y, p2, m ++ p1 ++ [Y], _, ?_, ?_, hex.2 hi, httl, hsvc, hoid, hadr, hint, ?_, rfl⟩⟩
    · exact ⟨Y, hYS, ⟨_, _, _, _, hbY⟩, hYt.symm, broadcastPkt τ.svc none τ.addresses, by rw [hex.1]; simp,
        by rw [hsvc, hadr]; exact posFull_broadcast lower N s hpos haddr⟩
    · rw [hspX, hpX]; simp
    · rw [hpostY]; simp
    · simp only [hint, Zc.GenFacts.Register.registerTime_eq]; rfl
  have h0 := hop pre stk post [] (announceTask s oid now) hsplit (by simp) htask rfl rfl rfl rfl rfl
    (by simp only [announceTask, hnow]; omega)
  obtain ⟨a0, next0⟩ := h0
  obtain ⟨pre1, st1, post1, m1, τ1, hs1, hm1, hτ1, ht1, hv1, ho1, had1, hi1, hd1, hii1⟩ := next0 (by simp [announceTask])
  obtain ⟨a1, next1⟩ := hop pre1 st1 post1 m1 τ1 hs1 hm1 hτ1 ht1 hv1 ho1 had1 hi1
    (by rw [hd1]; simp only [announceTask, hnow]; omega)
  obtain ⟨pre2, st2, post2, m2, τ2, hs2, hm2, hτ2, ht2, hv2, ho2, had2, hi2, hd2, _⟩ := next1 (by rw [hii1]; simp [announceTask])
  obtain ⟨a2, _⟩ := hop pre2 st2 post2 m2 τ2 hs2 hm2 hτ2 ht2 hv2 ho2 had2 hi2
    (by rw [hd2, hd1]; simp only [announceTask, hnow]; omega)
  rw [hd1] at a1
  rw [hd2, hd1] at a2
  simp only [announceTask, hnow] at a0 a1 a2
  refine ⟨a0, a1, ?_⟩
  have e : stk.t + 225 + 225 = stk.t + 450 := by omega
  rw [e] at a2
  exact a2

/-! ### `reg` / `upd` events come from `register` / `update` blocks -/

theorem adds_cases (st : Step) (hs : st.pre.step lower st.b = some (st.post, st.out)) (s : Link.Svc)
    (ha : s ∈ adds lower N st) :
    ∃ s' oid now, (st.b = .register s' oid now ∨ st.b = .update s' oid now) ∧ s = sigma lower N s' := by
  obtain ⟨t, b, h, h', out, ad⟩ := st
  simp only [adds, List.mem_filter, Bool.not_eq_true', List.contains_eq_mem, decide_eq_false_iff_not, sig, List.mem_map] at ha
  obtain ⟨⟨e, he, hes⟩, hnot⟩ := ha
  simp only at hs he hnot ⊢
  have keep : h'.reg = h.reg → False := fun hreg => hnot ⟨e, by rw [← hreg]; exact he, hes⟩
  have sub : (∀ x ∈ h'.reg, x ∈ h.reg) → False := fun hsub => hnot ⟨e, hsub e he, hes⟩
  cases b with
  | register s' oid now =>
    refine ⟨s', oid, now, Or.inl rfl, ?_⟩
    simp only [Host.step] at hs
    split at hs
    · simp at hs
    split at hs
    · simp at hs
    simp only [Option.some.injEq, Prod.mk.injEq] at hs
    obtain ⟨rfl, _⟩ := hs
    rcases List.mem_append.mp he with he | he
    · exact (hnot ⟨e, he, hes⟩).elim
    · simp only [List.mem_singleton] at he
      rw [← hes, he]
  | update s' oid now =>
    refine ⟨s', oid, now, Or.inr rfl, ?_⟩
    simp only [Host.step] at hs
    split at hs
    · simp at hs
    simp only [Option.some.injEq, Prod.mk.injEq] at hs
    obtain ⟨rfl, _⟩ := hs
    rcases List.mem_append.mp he with he | he
    · unfold regRemove at he
      exact (hnot ⟨e, (List.mem_filter.mp he).1, hes⟩).elim
    · simp only [List.mem_singleton] at he
      rw [← hes, he]
  | unregister s' oid now =>
    exfalso
    simp only [Host.step, unregRemove_eq, Option.some.injEq, Prod.mk.injEq] at hs
    obtain ⟨rfl, _⟩ := hs
    apply sub
    intro x hx
    unfold regRemove at hx
    exact (List.mem_filter.mp hx).1
  | unregisterAll now =>
    exfalso
    simp only [Host.step] at hs
    split at hs
    · simp only [Option.some.injEq, Prod.mk.injEq] at hs
      obtain ⟨rfl, _⟩ := hs
      exact keep rfl
    · simp only [Option.some.injEq, Prod.mk.injEq] at hs
      obtain ⟨rfl, _⟩ := hs
      simp at he
  | task oid2 ttl ad due => exact (keep (step_reg_other lower h h' _ out hs trivial)).elim
  | answer rs => exact (keep (step_reg_other lower h h' _ out hs trivial)).elim
  | enqueue delayed now draw answers => exact (keep (step_reg_other lower h h' _ out hs trivial)).elim
  | ready delayed now => exact (keep (step_reg_other lower h h' _ out hs trivial)).elim
  | allStep due => exact (keep (step_reg_other lower h h' _ out hs trivial)).elim
  | close => exact (keep (step_reg_other lower h h' _ out hs trivial)).elim

theorem updSvcs_cases (st : Step) (s : Link.Svc) (hu : s ∈ updSvcs lower N st) :
    ∃ s' oid now, st.b = .update s' oid now ∧ s = sigma lower N s' := by
  unfold updSvcs at hu
  split at hu
  · rename_i s' oid now hb
    split at hu
    · simp only [List.mem_singleton] at hu
      exact ⟨s', oid, now, hb, hu⟩
    · cases hu
  · cases hu

theorem mem_regs_events : ∀ (l : List Step) (x : Int × Link.Svc), x ∈ Link.regs (events lower N l) →
    ∃ st ∈ l, x.2 ∈ adds lower N st ∧ x.1 = st.t - 350 := by
  intro l
  induction l with
  | nil => intro x h; simp [events_nil, Link.regs] at h
  | cons st rest ih =>
    intro x h
    rw [events_cons, regs_append, List.mem_append] at h
    rcases h with h | h
    · rw [regs_stepEvents, List.mem_map] at h
      obtain ⟨s, hs, rfl⟩ := h
      exact ⟨st, by simp, hs, rfl⟩
    · obtain ⟨st', hst', h1, h2⟩ := ih x h
      exact ⟨st', by simp [hst'], h1, h2⟩

theorem mem_upds_events : ∀ (l : List Step) (x : Int × Link.Svc), x ∈ Link.upds (events lower N l) →
    ∃ st ∈ l, x.2 ∈ updSvcs lower N st ∧ x.1 = st.t := by
  intro l
  induction l with
  | nil => intro x h; simp [events_nil, Link.upds] at h
  | cons st rest ih =>
    intro x h
    rw [events_cons, upds_append, List.mem_append] at h
    rcases h with h | h
    · rw [upds_stepEvents, List.mem_map] at h
      obtain ⟨s, hs, rfl⟩ := h
      exact ⟨st, by simp, hs, rfl⟩
    · obtain ⟨st', hst', h1, h2⟩ := ih x h
      exact ⟨st', by simp [hst'], h1, h2⟩

/-- the announcements that follow a `reg` of the projected trace -/
theorem K1_core_reg (hsv : Function.Injective N.svcId) (steps : List Step) (T0 endT : Int)
    (hrun : IsRun lower Host.init T0 steps)
    (hd : ∀ st ∈ steps, Disc lower st ∧ Disc2 lower st ∧ Disc3 st) (hfair : Fair steps endT) (hopen : Open steps)
    (hdist : DistinctCalls lower N steps) (r : Int × Link.Svc) (hr : r ∈ Link.regs (events lower N steps))
    (hend : r.1 + 800 ≤ endT) (hl : Link.laterRegEv (events lower N steps) r.2 r.1 (r.1 + 800) = false) :
    r.2.owner = N.host ∧ AnnAt lower N steps (r.1 + 350) r.2 ∧ AnnAt lower N steps (r.1 + 575) r.2
      ∧ AnnAt lower N steps (r.1 + 800) r.2 := by
  have hstep := run_step_of_mem lower steps Host.init T0 hrun
  obtain ⟨st, hst, hadd, hrt⟩ := mem_regs_events lower N steps r hr
  obtain ⟨s', oid, now, hb, hrs⟩ := adds_cases lower N st (hstep st hst).1 r.2 hadd
  obtain ⟨pre, post, hsplit⟩ := List.append_of_mem hst
  have h3 := announce_chain lower N hsv steps T0 endT hrun hd hfair hopen hdist pre st post hsplit s' oid now hb r.1
    (by omega) (Or.inl (by omega)) (by omega)
    (by rw [← hrs]; have e : st.t + 450 = r.1 + 800 := by omega
        rw [e]; exact hl)
  have e1 : r.1 + 350 = st.t := by omega
  have e2 : r.1 + 575 = st.t + 225 := by omega
  have e3 : r.1 + 800 = st.t + 450 := by omega
  rw [e1, e2, e3, hrs]
  exact ⟨rfl, h3⟩

/-- the announcements that follow an `upd` of the projected trace -/
theorem K1_core_upd (hsv : Function.Injective N.svcId) (steps : List Step) (T0 endT : Int)
    (hrun : IsRun lower Host.init T0 steps)
    (hd : ∀ st ∈ steps, Disc lower st ∧ Disc2 lower st ∧ Disc3 st) (hfair : Fair steps endT) (hopen : Open steps)
    (hdist : DistinctCalls lower N steps) (u : Int × Link.Svc) (hu : u ∈ Link.upds (events lower N steps))
    (hend : u.1 + 450 ≤ endT) (hl : Link.laterRegEv (events lower N steps) u.2 u.1 (u.1 + 450) = false) :
    u.2.owner = N.host ∧ AnnAt lower N steps u.1 u.2 ∧ AnnAt lower N steps (u.1 + 225) u.2
      ∧ AnnAt lower N steps (u.1 + 450) u.2 := by
  obtain ⟨st, hst, hup, hut⟩ := mem_upds_events lower N steps u hu
  obtain ⟨s', oid, now, hb, hus⟩ := updSvcs_cases lower N st u.2 hup
  obtain ⟨pre, post, hsplit⟩ := List.append_of_mem hst
  have h3 := announce_chain lower N hsv steps T0 endT hrun hd hfair hopen hdist pre st post hsplit s' oid now (Or.inr hb) u.1
    (by omega) (Or.inr (Or.inr (Or.inr (by rw [← hus]; exact hup)))) (by omega)
    (by rw [← hus, ← hut]; exact hl)
  rw [hut, hus]
  exact ⟨rfl, h3⟩

/-- the shape of K1 for one call, from three multicasts -/
theorem K1for_of_mcasts (tr : Link.Trace) (endT : Int) (offs : List Int) (last : Int) (t : Int) (s : Link.Svc)
    (hlast : Link.lastOr offs 0 = last)
    (h : t + last ≤ endT → Link.laterRegEv tr s t (t + last) = false →
      ∀ off ∈ offs, Link.mcastAt tr s.owner (t + off) (Link.posFull s) = true) :
    Link.K1for tr endT offs t s = true := by
  unfold Link.K1for
  rw [hlast]
  by_cases hend : t + last ≤ endT
  · cases hl : Link.laterRegEv tr s t (t + last) with
    | true => simp
    | false =>
      have := h hend hl
      simp only [Bool.or_false, Bool.or_eq_true, List.all_eq_true]
      exact Or.inr this
  · simp [hend]

/-- **K1 from the C08/C09 host machine**, under the event-loop axiom `Fair`.  On the link trace of a timed run of
`Zc.Goodbye.Host` whose calls obey the API discipline — `Disc` (update / unregister with the registered type), `Disc2` (TTLs > 0),
`Disc3` (at least one address: without one the announcement carries an NSEC record only), `DistinctCalls` (two calls for one
service never share an instant) — and whose pending tasks the event loop runs when they are due (`Fair`) while the transport is
open (`Open`), every `reg s` at `t` (the `register` block runs at `t + 350`, after probing) that is followed by no call for `s`
up to `t + 800` is followed by complete multicast announcements at `t + 350`, `t + 575`, `t + 800`, and every `upd s` at `t` by
announcements at `t`, `t + 225`, `t + 450`. -/
theorem K1_of_run (hsv : Function.Injective N.svcId) (steps : List Step) (T0 endT : Int)
    (hrun : IsRun lower Host.init T0 steps)
    (hd : ∀ st ∈ steps, Disc lower st ∧ Disc2 lower st ∧ Disc3 st) (hfair : Fair steps endT) (hopen : Open steps)
    (hdist : DistinctCalls lower N steps) :
    Link.K1 Link.Cfg.paper (events lower N steps) endT = true := by
  unfold Link.K1
  rw [Bool.and_eq_true, List.all_eq_true, List.all_eq_true]
  constructor
  · intro r hr
    apply K1for_of_mcasts _ _ _ 800 _ _ (by decide)
    intro hend hl off hoff
    obtain ⟨hown, a0, a1, a2⟩ := K1_core_reg lower N hsv steps T0 endT hrun hd hfair hopen hdist r hr hend hl
    simp only [List.mem_cons, List.not_mem_nil, or_false] at hoff
    rcases hoff with rfl | rfl | rfl
    · obtain ⟨st, hst, ⟨_, _, _, _, hbk⟩, ht, p, hp, hq⟩ := a0
      rw [← ht]
      exact mcastAt_of_out' lower N steps st hst (by rw [hbk]; exact Zc.GenFacts.Link.dstOf_task _ _ _ _ _) p hp r.2 hown _ hq
    · obtain ⟨st, hst, ⟨_, _, _, _, hbk⟩, ht, p, hp, hq⟩ := a1
      rw [← ht]
      exact mcastAt_of_out' lower N steps st hst (by rw [hbk]; exact Zc.GenFacts.Link.dstOf_task _ _ _ _ _) p hp r.2 hown _ hq
    · obtain ⟨st, hst, ⟨_, _, _, _, hbk⟩, ht, p, hp, hq⟩ := a2
      rw [← ht]
      exact mcastAt_of_out' lower N steps st hst (by rw [hbk]; exact Zc.GenFacts.Link.dstOf_task _ _ _ _ _) p hp r.2 hown _ hq
  · intro u hu
    apply K1for_of_mcasts _ _ _ 450 _ _ (by decide)
    intro hend hl off hoff
    obtain ⟨hown, a0, a1, a2⟩ := K1_core_upd lower N hsv steps T0 endT hrun hd hfair hopen hdist u hu hend hl
    simp only [List.mem_cons, List.not_mem_nil, or_false] at hoff
    rcases hoff with rfl | rfl | rfl
    · obtain ⟨st, hst, ⟨_, _, _, _, hbk⟩, ht, p, hp, hq⟩ := a0
      rw [Int.add_zero, ← ht]
      exact mcastAt_of_out' lower N steps st hst (by rw [hbk]; exact Zc.GenFacts.Link.dstOf_task _ _ _ _ _) p hp u.2 hown _ hq
    · obtain ⟨st, hst, ⟨_, _, _, _, hbk⟩, ht, p, hp, hq⟩ := a1
      rw [← ht]
      exact mcastAt_of_out' lower N steps st hst (by rw [hbk]; exact Zc.GenFacts.Link.dstOf_task _ _ _ _ _) p hp u.2 hown _ hq
    · obtain ⟨st, hst, ⟨_, _, _, _, hbk⟩, ht, p, hp, hq⟩ := a2
      rw [← ht]
      exact mcastAt_of_out' lower N steps st hst (by rw [hbk]; exact Zc.GenFacts.Link.dstOf_task _ _ _ _ _) p hp u.2 hown _ hq

/-! ### host-local lifting -/

/-- host `N.host`'s part of the link trace `tr` is the projection of a disciplined, fair timed run `steps` of the C08/C09 host
machine that is open until the end of the window: its sends **that carry a pointer record** — instant, items and destination
(`Bridge.dstOf`: the multicast group for everything the host sends on its own initiative, by the generated leaves of `Zc.Gen.Link`);
the questions a host sends are its browsers' and its probes', not this machine's — and the `reg` / `upd` / `unreg` events of its
services.  (`taskMcast` and `ByeMulticast`, formerly hypotheses, are theorems now: `AnnAt_mcast_tr`,
`byeMulticast_of_generated`.) -/
structure HostRun (tr : Link.Trace) (endT : Int) (N : Naming) (steps : List Step) (T0 : Int) : Prop where
  tyInj : Function.Injective N.tyId
  svInj : Function.Injective N.svcId
  run : IsRun lower Host.init T0 steps
  disc : ∀ st ∈ steps, Disc lower st ∧ Disc2 lower st ∧ Disc3 st
  spaced : Spaced lower N [] steps
  distinct : DistinctCalls lower N steps
  fair : Fair steps endT
  opened : Open steps
  sendsIn : ∀ sd ∈ Link.sends tr, sd.h = N.host → Link.ptrSvcs sd.items ≠ [] →
    ∃ sd' ∈ Link.sends (events lower N steps), sd'.t = sd.t ∧ sd'.items = sd.items ∧ sd'.dst = sd.dst
  sendsOut : ∀ sd' ∈ Link.sends (events lower N steps),
    ∃ sd ∈ Link.sends tr, sd.h = N.host ∧ sd.t = sd'.t ∧ sd.items = sd'.items ∧ sd.dst = sd'.dst
  regsIn : ∀ x ∈ Link.regs tr, x.2.owner = N.host → x ∈ Link.regs (events lower N steps)
  regsOut : ∀ x ∈ Link.regs (events lower N steps), x ∈ Link.regs tr
  updsIn : ∀ x ∈ Link.upds tr, x.2.owner = N.host → x ∈ Link.upds (events lower N steps)
  updsOut : ∀ x ∈ Link.upds (events lower N steps), x ∈ Link.upds tr
  unregsIn : ∀ x ∈ Link.unregs tr, x.2.owner = N.host → x ∈ Link.unregs (events lower N steps)
  unregsOut : ∀ x ∈ Link.unregs (events lower N steps), x ∈ Link.unregs tr

/-- every host of the link trace is such a run -/
def Hosts (tr : Link.Trace) (endT : Int) : Prop :=
  ∀ hid : Nat, ∃ (N : Naming) (steps : List Step) (T0 : Int), N.host = hid ∧ HostRun lower tr endT N steps T0

theorem Hosts_Generated (tr : Link.Trace) (endT : Int) (hg : Hosts lower tr endT) : Generated lower tr endT := by
  intro hid
  obtain ⟨N, steps, T0, hN, h⟩ := hg hid
  subst hN
  exact ⟨N, steps, T0, rfl, h.tyInj, h.svInj, h.run, fun st hst => ⟨(h.disc st hst).1, (h.disc st hst).2.1⟩, h.spaced, h.fair,
    h.opened, h.sendsIn, h.sendsOut, h.regsOut, h.unregsIn, h.unregsOut⟩

theorem mem_regEvs_union (tr : Link.Trace) (t : Int) (s : Link.Svc) :
    (t, s) ∈ Link.regEvs tr ↔ (t, s) ∈ Link.regs tr ∨ (t, s) ∈ Link.upds tr ∨ (t, s) ∈ Link.unregs tr := by
  rw [Link.mem_regEvs, Link.mem_regs, Link.mem_upds, Link.mem_unregs]
  constructor
  · rintro ⟨⟨t', e⟩, he, rfl, h | h | h⟩ <;> simp only at h <;> subst h
    · exact Or.inl he
    · exact Or.inr (Or.inl he)
    · exact Or.inr (Or.inr he)
  · rintro (h | h | h)
    · exact ⟨_, h, rfl, Or.inl rfl⟩
    · exact ⟨_, h, rfl, Or.inr (Or.inl rfl)⟩
    · exact ⟨_, h, rfl, Or.inr (Or.inr rfl)⟩

theorem laterRegEv_false_of (tr tr' : Link.Trace) (s : Link.Svc) (t t2 : Int)
    (hsub : ∀ x ∈ Link.regEvs tr', x ∈ Link.regEvs tr) (h : Link.laterRegEv tr s t t2 = false) :
    Link.laterRegEv tr' s t t2 = false := by
  unfold Link.laterRegEv at h ⊢
  rw [List.any_eq_false] at h ⊢
  intro x hx
  exact h x (hsub x hx)

/-- an announcement of the run is a multicast of the link trace -/
theorem AnnAt_mcast_tr (tr : Link.Trace) (endT : Int) (steps : List Step) (T0 : Int) (h : HostRun lower tr endT N steps T0)
    (t : Int) (σ : Link.Svc) (ha : AnnAt lower N steps t σ) : Link.mcastAt tr N.host t (Link.posFull σ) = true := by
  obtain ⟨st, hst, ⟨oid, ttl, ad, due, hb⟩, rfl, p, hp, hq⟩ := ha
  have hm := mcastAt_of_out' lower N steps st hst (by rw [hb]; exact Zc.GenFacts.Link.dstOf_task _ _ _ _ _) p hp ⟨N.host, 0, 0⟩ rfl
    (Link.posFull σ) hq
  rw [Link.mcastAt_iff] at hm ⊢
  obtain ⟨sd', hsd', _, e2, e3, e4⟩ := hm
  obtain ⟨sd, hsd, g1, g2, g3, g4⟩ := h.sendsOut sd' hsd'
  exact ⟨sd, hsd, g1, by rw [g2, e2], by rw [g4, e3], by rw [g3]; exact e4⟩

/-- K1 is host-local: it holds on a link trace whose hosts are fair runs of the machine -/
theorem K1_of_hosts (tr : Link.Trace) (endT : Int) (hg : Hosts lower tr endT) : Link.K1 Link.Cfg.paper tr endT = true := by
  have sub : ∀ (N : Naming) (steps : List Step) (T0 : Int), HostRun lower tr endT N steps T0 →
      ∀ x ∈ Link.regEvs (events lower N steps), x ∈ Link.regEvs tr := by
    intro N steps T0 h x hx
    obtain ⟨t, s⟩ := x
    rw [mem_regEvs_union] at hx ⊢
    rcases hx with hx | hx | hx
    · exact Or.inl (h.regsOut _ hx)
    · exact Or.inr (Or.inl (h.updsOut _ hx))
    · exact Or.inr (Or.inr (h.unregsOut _ hx))
  unfold Link.K1
  rw [Bool.and_eq_true, List.all_eq_true, List.all_eq_true]
  constructor
  · intro r hr
    apply K1for_of_mcasts _ _ _ 800 _ _ (by decide)
    intro hend hl off hoff
    obtain ⟨N, steps, T0, hN, h⟩ := hg r.2.owner
    have hl' := laterRegEv_false_of tr (events lower N steps) r.2 r.1 (r.1 + 800) (sub N steps T0 h) hl
    obtain ⟨_, a0, a1, a2⟩ := K1_core_reg lower N h.svInj steps T0 endT h.run h.disc h.fair h.opened h.distinct r
      (h.regsIn r hr hN.symm) hend hl'
    rw [← hN]
    simp only [List.mem_cons, List.not_mem_nil, or_false] at hoff
    rcases hoff with rfl | rfl | rfl
    · exact AnnAt_mcast_tr lower N tr endT steps T0 h _ _ a0
    · exact AnnAt_mcast_tr lower N tr endT steps T0 h _ _ a1
    · exact AnnAt_mcast_tr lower N tr endT steps T0 h _ _ a2
  · intro u hu
    apply K1for_of_mcasts _ _ _ 450 _ _ (by decide)
    intro hend hl off hoff
    obtain ⟨N, steps, T0, hN, h⟩ := hg u.2.owner
    have hl' := laterRegEv_false_of tr (events lower N steps) u.2 u.1 (u.1 + 450) (sub N steps T0 h) hl
    obtain ⟨_, a0, a1, a2⟩ := K1_core_upd lower N h.svInj steps T0 endT h.run h.disc h.fair h.opened h.distinct u
      (h.updsIn u hu hN.symm) hend hl'
    rw [← hN]
    simp only [List.mem_cons, List.not_mem_nil, or_false] at hoff
    rcases hoff with rfl | rfl | rfl
    · rw [Int.add_zero]; exact AnnAt_mcast_tr lower N tr endT steps T0 h _ _ a0
    · exact AnnAt_mcast_tr lower N tr endT steps T0 h _ _ a1
    · exact AnnAt_mcast_tr lower N tr endT steps T0 h _ _ a2

end Zc.Bridge
