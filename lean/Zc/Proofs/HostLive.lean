import Zc.Proofs.HostSafe
/-! Safety and liveness of the two outgoing queues over runs of the whole host (`HRun`): the host-level counterparts of
`Run.safe` / `Run.live`, with the `add`s of a run identified as the assembled queries that caused them. -/
namespace Zc.Reply
open GenFacts

/-- the aggregation (`false`) or the protected (`true`) queue of the host, with its parameters -/
def Host.q (h : Host) (d : Bool) : Queue := if d then h.delayQ else h.outQ
def qpOf (d : Bool) : QP := if d then delayQP else outQP

theorem qpOf_ok (d : Bool) : (qpOf d).ok := by cases d; exact outQP_ok; exact delayQP_ok

theorem HInv.q {hO hD : List AddRec} {clock : Int} {h : Host} (hI : HInv hO hD clock h) (d : Bool) :
    QInv (qpOf d) (if d then hD else hO) clock (h.q d) := by
  cases d
  · exact hI.outQ
  · exact hI.delayQ

/-- ghost: the `async_add`s the blocks of a trace perform on queue `d` (recomputed from each block's pre-state) -/
def traceAdds (d : Bool) : Host → List (Ev × StepOut) → List AddRec
  | _, [] => []
  | h, (e, r) :: tr =>
    (match h.decide e with | .ok a => actAdds d e.time e.seen a | .error _ => []) ++ traceAdds d r.host tr

/-- **the invariant holds along every run that satisfies the loop facts** -/
theorem HRun.inv {h : Host} {c : Int} {evs : List Ev} {h' : Host} {c' : Int} {tr : List (Ev × StepOut)} (hr : HRun h c evs h' c' tr) :
    ∀ hO hD, HInv hO hD c h → HInv (hO ++ traceAdds false h tr) (hD ++ traceAdds true h tr) c' h' := by
  induction hr with
  | nil h c => intro hO hD hI; simpa [traceAdds] using hI
  | @cons h clock e es r h' c' tr hax hs _ ih =>
    intro hO hD hI
    obtain ⟨a, hd, hp⟩ := step_decide hs
    have := ih _ _ (hI.step hax hd hp)
    simpa [traceAdds, hd, List.append_assoc] using this

theorem HRun.times {h : Host} {c : Int} {evs : List Ev} {h' : Host} {c' : Int} {tr : List (Ev × StepOut)} (hr : HRun h c evs h' c' tr) :
    c ≤ c' ∧ ∀ p ∈ tr, c ≤ p.1.time := by
  induction hr with
  | nil h c => simp
  | @cons h clock e es r h' c' tr hax _ _ ih =>
    have := hax.monotone
    refine ⟨by omega, ?_⟩
    intro p hp
    rcases List.mem_cons.mp hp with rfl | hp
    · exact this
    · have := ih.2 p hp; omega

/-- what a block does to queue `d`: nothing, one `add` (an assembled query), its timer callback, or a withdrawal
(`async_remove_answers`) -/
theorem step_queue_effect (d : Bool) {h : Host} {e : Ev} {r : StepOut} {a : Act} (hd : h.decide e = .ok a)
    (hp : h.perform e.time e.seen e.draws a = .ok r) :
    (r.host.q d = h.q d ∧ (∀ s, e = .qfire s d → False)) ∨
    (∃ c now dr ans, r.host.q d = (h.q d).add (qpOf d) c now dr ans ∧ (∀ s, e = .qfire s d → False)) ∨
    (∃ s, e = .qfire s d ∧ r.host.q d = ((h.q d).ready s).1 ∧
      r.outs = (match ((h.q d).ready s).2 with | some b => [Out.ofMcast b] | none => [])) ∨
    (∃ s recs, e = .qremove s d recs ∧ r.host.q d = (h.q d).removeRecords recs) := by
  cases a with
  | remove d' recs =>
    obtain ⟨t, rfl⟩ := decide_remove hd
    obtain ⟨_, _, hf, ht⟩ := perform_remove hp
    cases d <;> cases d'
    · obtain ⟨e1, _⟩ := hf rfl
      right; right; right; exact ⟨t, recs, rfl, e1⟩
    · obtain ⟨_, e2⟩ := ht rfl
      left; exact ⟨e2, by intro s hs; cases hs⟩
    · obtain ⟨_, e2⟩ := hf rfl
      left; exact ⟨e2, by intro s hs; cases hs⟩
    · obtain ⟨e1, _⟩ := ht rfl
      right; right; right; exact ⟨t, recs, rfl, e1⟩
  | idle lis =>
    obtain ⟨hr, _⟩ := perform_idle hp
    left; rw [hr]
    refine ⟨by cases d <;> rfl, ?_⟩
    intro s hs; subst hs; cases decide_qfire hd
  | defer lis dd =>
    obtain ⟨hr, _⟩ := perform_defer hp
    obtain ⟨t, addr, port, dataId, size, hasQu, p, seen, draws, lis1, rfl, _⟩ := decide_defer hd
    left; rw [hr]
    exact ⟨by cases d <;> rfl, by intro s hs; cases hs⟩
  | answer lis pkts addr port =>
    have hnq : ∀ s, e = .qfire s d → False := by
      intro s hs; subst hs; cases decide_qfire hd
    obtain ⟨rest, hasm⟩ := perform_answer hp
    cases hqa : asyncResponse pkts (Gen.Reply.ucast_source port) e.seen with
    | none =>
      obtain ⟨_, hr⟩ := assemble_none hasm hqa
      left; rw [hr]; exact ⟨by cases d <;> rfl, hnq⟩
    | some qa =>
      obtain ⟨first, _, _, _, hq1, hq2⟩ := assemble_spec hasm hqa
      cases d
      · by_cases hE : qa.mcastAgg.isEmpty = true
        · left; exact ⟨hq1.1 hE, hnq⟩
        · obtain ⟨dr, _, _, heq⟩ := hq1.2 (by simpa using hE)
          right; left; exact ⟨_, _, dr, _, heq, hnq⟩
      · by_cases hE : qa.mcastLast.isEmpty = true
        · left; exact ⟨hq2.1 hE, hnq⟩
        · obtain ⟨dr, _, _, heq⟩ := hq2.2 (by simpa using hE)
          right; left; exact ⟨_, _, dr, _, heq, hnq⟩
  | ready d' =>
    obtain ⟨t, rfl⟩ := decide_ready hd
    obtain ⟨_, hf, ht⟩ := perform_ready hp
    cases d <;> cases d'
    · obtain ⟨e1, _, e3⟩ := hf rfl
      right; right; left; exact ⟨t, rfl, e1, e3⟩
    · obtain ⟨_, e2, _⟩ := ht rfl
      left; exact ⟨e2, by intro s hs; cases hs⟩
    · obtain ⟨_, e2, _⟩ := hf rfl
      left; exact ⟨e2, by intro s hs; cases hs⟩
    · obtain ⟨e1, _, e3⟩ := ht rfl
      right; right; left; exact ⟨t, rfl, e1, e3⟩

/-- **safety over host runs**: whatever a queue's timer callback multicasts in a run lies inside the window of an `add` of
that run (or of the history before it) for each of its records; the batch carries no record twice -/
theorem HRun.safe (d : Bool) {h : Host} {c : Int} {evs : List Ev} {h' : Host} {c' : Int} {tr : List (Ev × StepOut)}
    (hr : HRun h c evs h' c' tr) :
    ∀ hO hD, HInv hO hD c h → ∀ p ∈ tr, ∀ s, p.1 = .qfire s d → ∀ o ∈ p.2.outs,
      ∃ b, o = Out.ofMcast b ∧ b.keys.Nodup ∧ ∀ x ∈ b.keys, ∃ a ∈ (if d then hD else hO) ++ traceAdds d h tr,
        x ∈ a.keys ∧ a.clock ≤ s ∧ a.now + drawLo + (qpOf d).addl ≤ s ∧ s ≤ a.clock + (qpOf d).agg + (qpOf d).addl := by
  induction hr with
  | nil h c => intro hO hD _ p hp; cases hp
  | @cons h clock e es r h' c' tr hax hs _ ih =>
    intro hO hD hI p hp s hps o ho
    obtain ⟨a, hd, hperf⟩ := step_decide hs
    have hI' := hI.step hax hd hperf
    rcases List.mem_cons.mp hp with rfl | hp
    · -- the batch of this very block
      simp only at hps ho
      rcases step_queue_effect d hd hperf with ⟨_, hn⟩ | ⟨_, _, _, _, _, hn⟩ | ⟨s', hes, _, houts⟩ | ⟨s', recs, hes, _⟩
      · exact absurd hps (fun hh => hn s hh)
      · exact absurd hps (fun hh => hn s hh)
      rotate_left
      · rw [hes] at hps; cases hps
      · rw [hes] at hps
        have hss : s' = s := by cases hps; rfl
        subst hss
        rw [houts] at ho
        have hdue : firesOK h (.qfire s' d) := hes ▸ hax.firesWhenDue
        have hc : clock ≤ s' := by have := hax.monotone; rw [hes] at this; exact this
        simp only [firesOK] at hdue
        have hq := (hI.q d).ready (q := h.q d) hc (by cases d <;> simpa [Host.q] using hdue)
        cases hb : ((h.q d).ready s').2 with
        | none => rw [hb] at ho; cases ho
        | some b =>
          rw [hb] at ho
          simp only [List.mem_singleton] at ho
          obtain ⟨hn, hw, _⟩ := hq.2 b hb
          refine ⟨b, ho, hn, fun x hx => ?_⟩
          obtain ⟨ad, had, h1, h2, h3, h4⟩ := hw x hx
          exact ⟨ad, List.mem_append_left _ had, h1, h2, h3, h4⟩
    · obtain ⟨b, hob, hn, hw⟩ := ih _ _ hI' p hp s hps o ho
      refine ⟨b, hob, hn, fun x hx => ?_⟩
      obtain ⟨ad, had, hrest⟩ := hw x hx
      refine ⟨ad, ?_, hrest⟩
      have hstep : traceAdds d h ((e, r) :: tr) = actAdds d e.time e.seen a ++ traceAdds d r.host tr := by
        simp [traceAdds, hd]
      rw [hstep]
      cases d <;> simp only [Bool.false_eq_true, if_false, if_true, List.append_assoc] at had ⊢ <;> exact had

/-- record `x` is withdrawn from queue `d` by a block of the trace (`async_remove_answers` naming it: its service was unregistered)
**no later than `D`** -/
def withdrawnInTrace (d : Bool) (tr : List (Ev × StepOut)) (x : RecId) (D : Int) : Prop :=
  ∃ p ∈ tr, ∃ s recs, p.1 = .qremove s d recs ∧ x ∈ recs ∧ s ≤ D

/-- **liveness over host runs**: a record queued in queue `d` is multicast by that queue's timer callback before its group's
deadline, or is still queued at the end of the run, or was withdrawn by an `async_remove_answers` block of the run that ran no later
than that deadline (while the record's group was still waiting) -/
theorem HRun.live (d : Bool) {h : Host} {c : Int} {evs : List Ev} {h' : Host} {c' : Int} {tr : List (Ev × StepOut)}
    (hr : HRun h c evs h' c' tr) :
    ∀ hO hD, HInv hO hD c h → ∀ (x : RecId) (D : Int),
      (∃ g ∈ (h.q d).groups, x ∈ g.answers.keys ∧ g.born + (qpOf d).agg + (qpOf d).addl ≤ D) →
      (∃ p ∈ tr, ∃ s b, p.1 = .qfire s d ∧ Out.ofMcast b ∈ p.2.outs ∧ x ∈ b.keys ∧ s ≤ D) ∨
      (∃ g ∈ (h'.q d).groups, x ∈ g.answers.keys ∧ g.born + (qpOf d).agg + (qpOf d).addl ≤ D) ∨
      withdrawnInTrace d tr x D := by
  induction hr with
  | nil h c => intro hO hD _ x D hq; exact Or.inr (Or.inl hq)
  | @cons h clock e es r h' c' tr hax hs _ ih =>
    intro hO hD hI x D ⟨g, hg, hx, hD'⟩
    obtain ⟨a, hd, hperf⟩ := step_decide hs
    have hI' := hI.step hax hd hperf
    have cont : (∃ g ∈ (r.host.q d).groups, x ∈ g.answers.keys ∧ g.born + (qpOf d).agg + (qpOf d).addl ≤ D) →
        (∃ p ∈ (e, r) :: tr, ∃ s b, p.1 = .qfire s d ∧ Out.ofMcast b ∈ p.2.outs ∧ x ∈ b.keys ∧ s ≤ D) ∨
        (∃ g ∈ (h'.q d).groups, x ∈ g.answers.keys ∧ g.born + (qpOf d).agg + (qpOf d).addl ≤ D) ∨
        withdrawnInTrace d ((e, r) :: tr) x D := by
      intro hq
      rcases ih _ _ hI' x D hq with ⟨p, hp, rest⟩ | hfin | ⟨p, hp, rest⟩
      · exact Or.inl ⟨p, List.mem_cons_of_mem _ hp, rest⟩
      · exact Or.inr (Or.inl hfin)
      · exact Or.inr (Or.inr ⟨p, List.mem_cons_of_mem _ hp, rest⟩)
    rcases step_queue_effect d hd hperf with ⟨heq, _⟩ | ⟨cc, now, dr, ans, heq, _⟩ | ⟨s, hes, heq, houts⟩ | ⟨s, recs, hes, heq⟩
    rotate_right
    · by_cases hrm : x ∈ recs
      · -- the block runs no later than the queue's armed timer, which is due no later than the group's deadline
        have hsD : s ≤ D := by
          have hq := hI.q d
          have hne : (h.q d).groups.map Group.sk ≠ [] := by
            intro hnil; rw [List.map_eq_nil_iff] at hnil; rw [hnil] at hg; cases hg
          obtain ⟨dd, hdd⟩ := hq.sk.nonempty_timer hne
          have hle := (hq.sk.timer_le hdd g.sk (List.mem_map_of_mem hg)).1
          obtain ⟨h1, h2, _⟩ := notOverdue_spec hax.noTimerPassed
          have ht : e.time = s := by rw [hes]; rfl
          have : e.time ≤ dd := by
            cases d
            · exact h1 dd (by simpa [Host.q] using hdd)
            · exact h2 dd (by simpa [Host.q] using hdd)
          simp only [Sk.deadline, Group.sk] at hle
          omega
        exact Or.inr (Or.inr ⟨(e, r), List.mem_cons_self, s, recs, hes, hrm, hsD⟩)
      · obtain ⟨g', hg', hx', hb⟩ := Queue.remove_keeps (h.q d) recs hg hx hrm
        exact cont ⟨g', by rw [heq]; exact hg', hx', by rw [hb]; exact hD'⟩
    · exact cont ⟨g, by rw [heq]; exact hg, hx, hD'⟩
    · obtain ⟨g', hg', hx', hb⟩ := Queue.add_keeps (qpOf d) (h.q d) cc now dr ans hg hx
      exact cont ⟨g', by rw [heq]; exact hg', hx', by rw [hb]; exact hD'⟩
    · have hdue : firesOK h (.qfire s d) := hes ▸ hax.firesWhenDue
      simp only [firesOK] at hdue
      have hdue' : (h.q d).timer = some s := by cases d <;> simpa [Host.q] using hdue
      obtain ⟨hle, hk⟩ := Queue.ready_keeps (hI.q d) hdue' hg hx
      rcases hk with ⟨b, hb, hxb⟩ | ⟨g', hg', hx', hbn⟩
      · refine Or.inl ⟨(e, r), List.mem_cons_self, s, b, hes, ?_, hxb, by omega⟩
        rw [houts, hb]; simp
      · exact cont ⟨g', by rw [heq]; exact hg', hx', by rw [hbn]; exact hD'⟩

/-- each block of a trace with the state it started from -/
def traceStates : Host → List (Ev × StepOut) → List (Host × Ev × StepOut)
  | _, [] => []
  | h, (e, r) :: tr => (h, e, r) :: traceStates r.host tr

/-- an assembled query of a run: in state `hp` the block of event `e` calls `handle_assembled_query(pkts, addr, port)`,
`async_response` returns `qa`, and `first` is the first packet -/
structure Assembled (hp : Host) (e : Ev) (pkts : List Pkt) (port : Nat) (first : Pkt) (qa : QA) : Prop where
  decided : ∃ lis addr, hp.decide e = .ok (.answer lis pkts addr port)
  first : pkts.head? = some first
  response : asyncResponse pkts (Gen.Reply.ucast_source port) e.seen = some qa

/-- **every `add` of a run is an assembled query of that run**: its loop time is the block's, its stamp the first packet's
arrival, its records what `async_response` classified as aggregate (`d = false`) / seen-in-the-last-second (`d = true`) -/
theorem traceAdds_origin (d : Bool) : ∀ (tr : List (Ev × StepOut)) (h : Host) (ad : AddRec), ad ∈ traceAdds d h tr →
    ∃ x ∈ traceStates h tr, ∃ pkts port first qa, Assembled x.1 x.2.1 pkts port first qa ∧
      ad = ⟨x.2.1.time, first.now, (if d then qa.mcastLast else qa.mcastAgg).keys⟩ := by
  intro tr
  induction tr with
  | nil => intro h ad had; cases had
  | cons p tr ih =>
    intro h ad had
    obtain ⟨e, r⟩ := p
    simp only [traceAdds, List.mem_append] at had
    rcases had with had | had
    · refine ⟨(h, e, r), List.mem_cons_self, ?_⟩
      cases hd : h.decide e with
      | error m => rw [hd] at had; cases had
      | ok a =>
        rw [hd] at had
        cases a with
        | idle _ => cases had
        | defer _ _ => cases had
        | ready _ => cases had
        | remove _ _ => cases had
        | answer lis pkts addr port =>
          simp only [actAdds] at had
          cases hf : pkts.head? with
          | none => rw [hf] at had; cases had
          | some first =>
            cases hqa : asyncResponse pkts (Gen.Reply.ucast_source port) e.seen with
            | none => rw [hf, hqa] at had; cases had
            | some qa =>
              rw [hf, hqa] at had
              simp only at had
              by_cases hE : (if d then qa.mcastLast else qa.mcastAgg).isEmpty = true
              · rw [if_pos hE] at had; cases had
              · rw [if_neg hE] at had
                simp only [List.mem_singleton] at had
                exact ⟨pkts, port, first, qa, ⟨⟨lis, addr, hd⟩, hf, hqa⟩, had⟩
    · obtain ⟨x, hx, rest⟩ := ih r.host ad had
      exact ⟨x, List.mem_cons_of_mem _ hx, rest⟩

end Zc.Reply
