import Zc.Proofs.CacheExpire
/-! The record manager over the indexed cache simulates the record manager over the flat reference
store, datagram by datagram and over whole histories. -/
namespace Zc

section
variable (lower : String → String)

/-- accumulators of the two runs: caches in refinement, work lists equal -/
structure AccRel (a : IngestAcc Cache) (b : IngestAcc (List Rec)) : Prop where
  cache : Refines lower a.cache b.cache
  updates : a.updates = b.updates
  addrAdds : a.addrAdds = b.addrAdds
  otherAdds : a.otherAdds = b.otherAdds
  removes : a.removes = b.removes
  uniqueTypes : a.uniqueTypes = b.uniqueTypes

/-- what the listeners can see of the two runs is the same -/
def OutRel (co : IngestOut Cache) (so : IngestOut (List Rec)) : Prop :=
  Refines lower co.cache so.cache ∧ co.notify = so.notify
  ∧ (match co.call1, so.call1 with
     | none, none => True
     | some x, some y => x.1 = y.1 ∧ Refines lower x.2 y.2
     | _, _ => False)
  ∧ (match co.call2, so.call2 with
     | none, none => True
     | some x, some y => Refines lower x y
     | _, _ => False)

variable {lower}

theorem AccRel.step {a : IngestAcc Cache} {b : IngestAcc (List Rec)} (h : AccRel lower a b) (now : Ms) (r : Rec) :
    AccRel lower (ingestStep lower (Cache.ops lower) now a r) (ingestStep lower (Flat.ops lower) now b r) := by
  obtain ⟨hc, hu, ha, ho, hr, ht⟩ := h
  have hg : (Cache.ops lower).getUnique a.cache (floorPtr r) = (Flat.ops lower).getUnique b.cache (floorPtr r) :=
    hc.getUnique _
  unfold ingestStep
  simp only [hg, hu, ha, ho, hr, ht]
  cases (Flat.ops lower).getUnique b.cache (floorPtr r) <;> cases (floorPtr r).isExpired now <;> simp only []
  · split <;> exact ⟨hc, rfl, rfl, rfl, rfl, rfl⟩
  · exact ⟨hc, rfl, rfl, rfl, rfl, rfl⟩
  · exact ⟨hc.resetTtl _, rfl, rfl, rfl, rfl, rfl⟩
  · exact ⟨hc, rfl, rfl, rfl, rfl, rfl⟩

theorem AccRel.foldl {a : IngestAcc Cache} {b : IngestAcc (List Rec)} (h : AccRel lower a b) (now : Ms) (rs : List Rec) :
    AccRel lower (rs.foldl (ingestStep lower (Cache.ops lower) now) a) (rs.foldl (ingestStep lower (Flat.ops lower) now) b) := by
  induction rs generalizing a b with
  | nil => exact h
  | cons r t ih => exact ih (h.step now r)

theorem Refines.ingestPre {c : Cache} {s : List Rec} (h : Refines lower c s) (now : Ms) (recs : List Rec) :
    AccRel lower (ingestPre lower (Cache.ops lower) c now recs) (ingestPre lower (Flat.ops lower) s now recs) := by
  have h0 : AccRel lower ({ cache := c } : IngestAcc Cache) ({ cache := s } : IngestAcc (List Rec)) :=
    ⟨h, rfl, rfl, rfl, rfl, rfl⟩
  have hf := h0.foldl now (stamp now recs)
  obtain ⟨hc, hu, ha, ho, hr, ht⟩ := hf
  unfold Zc.ingestPre
  refine ⟨?_, hu, ha, ho, hr, ht⟩
  dsimp only
  rw [ht]
  split
  · exact hc
  · exact hc.markFlush _ _ _

theorem Refines.addAll_aux {c : Cache} {s : List Rec} (h : Refines lower c s) (b0 : Bool) (rs : List Rec) :
    Refines lower
      (rs.foldl (fun (acc : Cache × Bool) r => (((Cache.ops lower).add acc.1 r).1, acc.2 || ((Cache.ops lower).add acc.1 r).2)) (c, b0)).1
      (rs.foldl (fun (acc : List Rec × Bool) r => (((Flat.ops lower).add acc.1 r).1, acc.2 || ((Flat.ops lower).add acc.1 r).2)) (s, b0)).1
    ∧ (rs.foldl (fun (acc : Cache × Bool) r => (((Cache.ops lower).add acc.1 r).1, acc.2 || ((Cache.ops lower).add acc.1 r).2)) (c, b0)).2
      = (rs.foldl (fun (acc : List Rec × Bool) r => (((Flat.ops lower).add acc.1 r).1, acc.2 || ((Flat.ops lower).add acc.1 r).2)) (s, b0)).2 := by
  induction rs generalizing c s b0 with
  | nil => exact ⟨h, rfl⟩
  | cons r t ih =>
    have hr := h.add r
    simp only [List.foldl_cons]
    have : ((Cache.ops lower).add c r).2 = ((Flat.ops lower).add s r).2 := hr.2
    rw [this]
    exact ih hr.1 _

theorem Refines.addAll {c : Cache} {s : List Rec} (h : Refines lower c s) (rs : List Rec) :
    Refines lower (Zc.addAll (Cache.ops lower) c rs).1 (Zc.addAll (Flat.ops lower) s rs).1
    ∧ (Zc.addAll (Cache.ops lower) c rs).2 = (Zc.addAll (Flat.ops lower) s rs).2 :=
  h.addAll_aux false rs

theorem Refines.livePairs {c : Cache} {s : List Rec} (h : Refines lower c s) (us : List (Rec × Bool)) :
    livePairs (Cache.ops lower) c us = livePairs (Flat.ops lower) s us := by
  unfold Zc.livePairs
  apply List.map_congr_left
  intro u _
  have : (Cache.ops lower).getUnique c u.1 = (Flat.ops lower).getUnique s u.1 := h.getUnique _
  rw [this]

/-- the D24 filter reads the cache through `async_get_unique` only: both stores keep the same withdrawn records -/
theorem Refines.keptRemoves {c : Cache} {s : List Rec} (h : Refines lower c s) (rs : List Rec) :
    keptRemoves (Cache.ops lower) c rs = keptRemoves (Flat.ops lower) s rs := by
  unfold Zc.keptRemoves Zc.keptRemovesWith
  apply List.filter_congr
  intro r _
  have : (Cache.ops lower).getUnique c r = (Flat.ops lower).getUnique s r := h.getUnique _
  rw [this]

/-- one datagram: both runs raise the same exception, or neither does and all observations agree -/
theorem Refines.ingest {c : Cache} {s : List Rec} (h : Refines lower c s) (now : Ms) (recs : List Rec) :
    match Zc.ingest lower (Cache.ops lower) c now recs, Zc.ingest lower (Flat.ops lower) s now recs with
    | .ok co, .ok so => OutRel lower co so
    | .error e, .error e' => e = e'
    | _, _ => False := by
  obtain ⟨hc, hu, ha, ho, hr, ht⟩ := h.ingestPre now recs
  have h2 := hc.addAll (Zc.ingestPre lower (Cache.ops lower) c now recs).addrAdds
  rw [ha] at h2
  have h3 := h2.1.addAll (Zc.ingestPre lower (Cache.ops lower) c now recs).otherAdds
  rw [ho] at h3
  have hk := h3.1.keptRemoves (Zc.ingestPre lower (Flat.ops lower) s now recs).removes
  have h4 := h3.1.removeAll (Zc.keptRemoves (Flat.ops lower)
    (Zc.addAll (Flat.ops lower) (Zc.addAll (Flat.ops lower) (Zc.ingestPre lower (Flat.ops lower) s now recs).cache
      (Zc.ingestPre lower (Flat.ops lower) s now recs).addrAdds).1 (Zc.ingestPre lower (Flat.ops lower) s now recs).otherAdds).1
    (Zc.ingestPre lower (Flat.ops lower) s now recs).removes)
  unfold Zc.ingest
  simp only [ha, ho, hr, hu, hk]
  generalize Zc.ingestPre lower (Cache.ops lower) c now recs = A at *
  generalize Zc.ingestPre lower (Flat.ops lower) s now recs = B at *
  generalize Zc.keptRemoves (Flat.ops lower) (Zc.addAll (Flat.ops lower) (Zc.addAll (Flat.ops lower) B.cache B.addrAdds).1 B.otherAdds).1 B.removes = K at *
  cases hA : Zc.removeAll (Cache.ops lower) (Zc.addAll (Cache.ops lower) (Zc.addAll (Cache.ops lower) A.cache B.addrAdds).1 B.otherAdds).1 K <;>
  cases hB : Zc.removeAll (Flat.ops lower) (Zc.addAll (Flat.ops lower) (Zc.addAll (Flat.ops lower) B.cache B.addrAdds).1 B.otherAdds).1 K <;>
  simp only [hA, hB] at h4
  · simpa [bind, Except.bind] using h4
  · simp only [bind, Except.bind, pure, Except.pure]
    refine ⟨h4, by rw [h2.2, h3.2], ?_, ?_⟩
    · by_cases he : B.updates.isEmpty = true
      · simp [he]
      · simp only [he, Bool.false_eq_true, if_false]
        exact ⟨hc.livePairs _, hc⟩
    · by_cases he : B.updates.isEmpty = true
      · simp [he]
      · simp only [he, Bool.false_eq_true, if_false]
        exact h4

/-! ### the reference store stays well-formed -/

theorem Flat.WF.map {s : List Rec} (h : Flat.WF lower s) (f : Rec → Rec) (hf : ∀ e, (f e).ident lower = e.ident lower) :
    Flat.WF lower (s.map f) := by
  unfold Flat.WF at *
  rw [List.pairwise_map]
  exact h.imp (fun hab => by rw [hf, hf]; exact hab)

theorem Flat.WF.add {s : List Rec} (h : Flat.WF lower s) (r : Rec) : Flat.WF lower (Flat.add lower s r).1 := by
  unfold Flat.WF Flat.add at *
  rw [List.pairwise_append]
  refine ⟨List.Pairwise.filter _ h, by simp, ?_⟩
  intro a ha b hb
  simp only [List.mem_singleton] at hb
  subst hb
  have := (List.mem_filter.1 ha).2
  simp only [Bool.not_eq_true', beq_false_iff_ident] at this
  exact this

theorem Flat.WF.remove {s s' : List Rec} (h : Flat.WF lower s) (r : Rec) (hr : Flat.remove lower s r = .ok s') : Flat.WF lower s' := by
  unfold Flat.remove at hr
  split at hr
  · cases hr; exact List.Pairwise.filter _ h
  · cases hr

omit lower in
/-- the loop touches the cache only through `reset_ttl` -/
theorem ingestStep_cache {σ : Type} (lower : String → String) (ops : CacheOps σ) (now : Ms) (a : IngestAcc σ) (r : Rec) :
    (ingestStep lower ops now a r).cache = a.cache ∨ (ingestStep lower ops now a r).cache = ops.resetTtl a.cache (floorPtr r) := by
  unfold ingestStep
  dsimp only
  cases ops.getUnique a.cache (floorPtr r) <;> cases (floorPtr r).isExpired now <;> dsimp only
  · left; split <;> rfl
  · left; rfl
  · right; rfl
  · left; rfl

theorem Flat.WF.step {a : IngestAcc (List Rec)} (h : Flat.WF lower a.cache) (now : Ms) (r : Rec) :
    Flat.WF lower (ingestStep lower (Flat.ops lower) now a r).cache := by
  rcases ingestStep_cache lower (Flat.ops lower) now a r with h1 | h1 <;> rw [h1]
  · exact h
  · exact h.map _ (fun e => by split <;> simp)

theorem Flat.WF.foldl {a : IngestAcc (List Rec)} (h : Flat.WF lower a.cache) (now : Ms) (rs : List Rec) :
    Flat.WF lower (rs.foldl (ingestStep lower (Flat.ops lower) now) a).cache := by
  induction rs generalizing a with
  | nil => exact h
  | cons r t ih => exact ih (h.step now r)

theorem Flat.WF.ingestPre {s : List Rec} (h : Flat.WF lower s) (now : Ms) (recs : List Rec) :
    Flat.WF lower (Zc.ingestPre lower (Flat.ops lower) s now recs).cache := by
  have hf := Flat.WF.foldl (a := ({ cache := s } : IngestAcc (List Rec))) h now (stamp now recs)
  unfold Zc.ingestPre
  simp only []
  split
  · exact hf
  · exact hf.map _ (fun e => by split <;> simp)

theorem Flat.WF.addAll_aux {s : List Rec} (h : Flat.WF lower s) (b0 : Bool) (rs : List Rec) :
    Flat.WF lower (rs.foldl (fun (acc : List Rec × Bool) r => (((Flat.ops lower).add acc.1 r).1, acc.2 || ((Flat.ops lower).add acc.1 r).2)) (s, b0)).1 := by
  induction rs generalizing s b0 with
  | nil => exact h
  | cons r t ih => exact ih (h.add r) _

theorem Flat.WF.removeAll {s s' : List Rec} (h : Flat.WF lower s) (rs : List Rec)
    (hr : Zc.removeAll (Flat.ops lower) s rs = .ok s') : Flat.WF lower s' := by
  induction rs generalizing s with
  | nil => simp only [Zc.removeAll, List.foldlM_nil, pure, Except.pure] at hr; cases hr; exact h
  | cons r t ih =>
    simp only [Zc.removeAll, List.foldlM_cons] at hr ih
    cases h1 : (Flat.ops lower).remove s r with
    | error e => rw [h1] at hr; cases hr
    | ok s1 =>
      rw [h1] at hr
      exact ih (h.remove r h1) hr

theorem Flat.WF.ingest {s : List Rec} (h : Flat.WF lower s) (now : Ms) (recs : List Rec) (o : IngestOut (List Rec))
    (ho : Zc.ingest lower (Flat.ops lower) s now recs = .ok o) : Flat.WF lower o.cache := by
  unfold Zc.ingest at ho
  simp only [] at ho
  have h1 := h.ingestPre now recs
  have h2 := Flat.WF.addAll_aux h1 false (Zc.ingestPre lower (Flat.ops lower) s now recs).addrAdds
  have h3 := Flat.WF.addAll_aux h2 false (Zc.ingestPre lower (Flat.ops lower) s now recs).otherAdds
  cases h4 : Zc.removeAll (Flat.ops lower)
      (Zc.addAll (Flat.ops lower) (Zc.addAll (Flat.ops lower) (Zc.ingestPre lower (Flat.ops lower) s now recs).cache
        (Zc.ingestPre lower (Flat.ops lower) s now recs).addrAdds).1 (Zc.ingestPre lower (Flat.ops lower) s now recs).otherAdds).1
      (Zc.keptRemoves (Flat.ops lower)
        (Zc.addAll (Flat.ops lower) (Zc.addAll (Flat.ops lower) (Zc.ingestPre lower (Flat.ops lower) s now recs).cache
          (Zc.ingestPre lower (Flat.ops lower) s now recs).addrAdds).1 (Zc.ingestPre lower (Flat.ops lower) s now recs).otherAdds).1
        (Zc.ingestPre lower (Flat.ops lower) s now recs).removes) with
  | error e => rw [h4] at ho; cases ho
  | ok s4 =>
    rw [h4] at ho
    simp only [bind, Except.bind, pure, Except.pure, Except.ok.injEq] at ho
    subst ho
    exact Flat.WF.removeAll h3 _ h4

/-! ### histories -/

theorem Refines.stepEvent {c : Cache} {s : List Rec} (h : Refines lower c s) (hw : Flat.WF lower s) (ev : Event) :
    Refines lower (stepEvent lower (Cache.ops lower) c ev) (stepEvent lower (Flat.ops lower) s ev)
    ∧ Flat.WF lower (stepEvent lower (Flat.ops lower) s ev) := by
  cases ev with
  | datagram now recs =>
    have hi := h.ingest now recs
    have hwf := hw.ingest now recs
    simp only [Zc.stepEvent]
    cases hA : Zc.ingest lower (Cache.ops lower) c now recs <;> cases hB : Zc.ingest lower (Flat.ops lower) s now recs <;>
      simp only [hA, hB] at hi
    · exact ⟨h, hw⟩
    · exact ⟨hi.1, hwf _ hB⟩
  | purge now =>
    obtain ⟨c', l, hc, _, hr⟩ := h.expire hw now
    simp only [Zc.stepEvent, hc, Flat.expire_eq hw now]
    exact ⟨hr, List.Pairwise.filter _ hw⟩

theorem Refines.runEvents {c : Cache} {s : List Rec} (h : Refines lower c s) (hw : Flat.WF lower s) (evs : List Event) :
    Refines lower (runEvents lower (Cache.ops lower) c evs) (runEvents lower (Flat.ops lower) s evs)
    ∧ Flat.WF lower (runEvents lower (Flat.ops lower) s evs) := by
  induction evs generalizing c s with
  | nil => exact ⟨h, hw⟩
  | cons ev t ih =>
    have := h.stepEvent hw ev
    exact ih this.1 this.2

end
end Zc
