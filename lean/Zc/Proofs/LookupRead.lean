import Zc.Proofs.Lookup
/-! C18 — "had not expired **when they were read**", block by block.

`Prov` (`Proofs/Lookup.lean`) says of a reached info object that each field equals that of *some* record that was unexpired in *some*
block of the run.  That is weaker than the sentence: a record that sat in the cache, unexpired, at an earlier block would justify a
field assigned later from its expired self.  `AssignedIn` pins the read to the block that changed the field: across one block every
field group is either **unchanged** or equals that of a record **this block read** (its cache snapshot or its record list) that was
**unexpired at this block's time**. -/
namespace Zc.Lookup
open Zc Zc.GenFacts.Lookup

variable (lower : String → String)

/-- the SRV-derived fields -/
def SrvSame (i i' : Info) : Prop :=
  i'.server = i.server ∧ i'.serverKey = i.serverKey ∧ i'.port = i.port ∧ i'.weight = i.weight ∧ i'.priority = i.priority

/-- what a block that read `reads` at time `now` did to the info object -/
structure AssignedIn (reads : List Rec) (now : Int) (i i' : Info) : Prop where
  key : i'.key = i.key
  srv : SrvSame i i' ∨ ∃ r ∈ reads, r.isExpired now = false ∧ SrvFrom lower i' r
  txt : i'.text = i.text ∨ ∃ r ∈ reads, r.isExpired now = false ∧ lower r.name = i'.key ∧ r.rdata = .txt i'.text
  addr : ∀ a ∈ i'.v4 ++ i'.v6, (a ∈ i.v4 ++ i.v6 ∧ i'.serverKey = i.serverKey) ∨
    ∃ r ∈ reads, ∃ sc k, r.isExpired now = false ∧ r.rdata = .addr a sc ∧ i'.serverKey = some k ∧ (lower r.name = k ∨ lower r.name = lower k)

theorem AssignedIn.refl (reads : List Rec) (now : Int) (i : Info) : AssignedIn lower reads now i i :=
  ⟨rfl, Or.inl ⟨rfl, rfl, rfl, rfl, rfl⟩, Or.inl rfl, fun _ ha => Or.inl ⟨ha, rfl⟩⟩

theorem AssignedIn.mono {reads reads' : List Rec} {now : Int} {i i' : Info} (h : AssignedIn lower reads now i i')
    (hsub : ∀ x ∈ reads, x ∈ reads') : AssignedIn lower reads' now i i' := by
  refine ⟨h.key, ?_, ?_, ?_⟩
  · rcases h.srv with h1 | ⟨r, hr, h2⟩
    · exact Or.inl h1
    · exact Or.inr ⟨r, hsub r hr, h2⟩
  · rcases h.txt with h1 | ⟨r, hr, h2⟩
    · exact Or.inl h1
    · exact Or.inr ⟨r, hsub r hr, h2⟩
  · intro a ha
    rcases h.addr a ha with h1 | ⟨r, hr, h2⟩
    · exact Or.inl h1
    · exact Or.inr ⟨r, hsub r hr, h2⟩

theorem SrvFrom.congr {i i' : Info} {r : Rec} (h : SrvFrom lower i r) (hk : i'.key = i.key) (hs : SrvSame i i') : SrvFrom lower i' r := by
  obtain ⟨p, w, port, srv, h1, h2, h3, h4, h5, h6, h7⟩ := h
  obtain ⟨s1, s2, s3, s4, s5⟩ := hs
  exact ⟨p, w, port, srv, h1, by rw [hk]; exact h2, by rw [s1]; exact h3, by rw [s2]; exact h4, by rw [s3]; exact h5,
    by rw [s4]; exact h6, by rw [s5]; exact h7⟩

theorem AssignedIn.trans {reads : List Rec} {now : Int} {i i' i'' : Info} (h1 : AssignedIn lower reads now i i')
    (h2 : AssignedIn lower reads now i' i'') : AssignedIn lower reads now i i'' := by
  refine ⟨h2.key.trans h1.key, ?_, ?_, ?_⟩
  · rcases h2.srv with s2 | s2
    · rcases h1.srv with s1 | ⟨r, hr, he, hf⟩
      · exact Or.inl ⟨s2.1.trans s1.1, s2.2.1.trans s1.2.1, s2.2.2.1.trans s1.2.2.1, s2.2.2.2.1.trans s1.2.2.2.1, s2.2.2.2.2.trans s1.2.2.2.2⟩
      · exact Or.inr ⟨r, hr, he, SrvFrom.congr lower hf h2.key s2⟩
    · exact Or.inr s2
  · rcases h2.txt with t2 | t2
    · rcases h1.txt with t1 | ⟨r, hr, he, hn, hd⟩
      · exact Or.inl (t2.trans t1)
      · exact Or.inr ⟨r, hr, he, by rw [h2.key]; exact hn, by rw [t2]; exact hd⟩
    · exact Or.inr t2
  · intro a ha
    rcases h2.addr a ha with ⟨ha', hk⟩ | a2
    · rcases h1.addr a ha' with ⟨ha'', hk'⟩ | ⟨r, hr, sc, k, he, hd, hsk, hn⟩
      · exact Or.inl ⟨ha'', hk.trans hk'⟩
      · exact Or.inr ⟨r, hr, sc, k, he, hd, by rw [hk]; exact hsk, hn⟩
    · exact Or.inr a2

/-- `_process_record_threadsafe` on a record `r`, with the cache `c` at hand for the SRV-triggered reload -/
theorem processRecord_assigned (c : Cache) (i : Info) (r : Rec) (now : Int) :
    AssignedIn lower (r :: c) now i (processRecord lower c i r now).1 := by
  unfold processRecord
  split
  · exact AssignedIn.refl lower _ now i
  · rename_i hne
    have hlive : r.isExpired now = false := by simpa using hne
    split
    · -- address
      rename_i a sc hrd
      split
      · rename_i hk
        have hk' : i.serverKey = some (lower r.name) := (beq_iff_eq.mp hk).symm
        split
        · exact AssignedIn.refl lower _ now i
        · rename_i v hv
          split
          · refine ⟨rfl, Or.inl ⟨rfl, rfl, rfl, rfl, rfl⟩, Or.inl rfl, ?_⟩
            intro x hx
            simp only [List.mem_append] at hx
            rcases hx with hx | hx
            · rcases mem_insertFront hx with rfl | hx
              · exact Or.inr ⟨r, by simp, sc, lower r.name, hlive, hrd, hk', Or.inl rfl⟩
              · exact Or.inl ⟨by simp [hx], rfl⟩
            · exact Or.inl ⟨by simp [hx], rfl⟩
          · refine ⟨rfl, Or.inl ⟨rfl, rfl, rfl, rfl, rfl⟩, Or.inl rfl, ?_⟩
            intro x hx
            simp only [List.mem_append] at hx
            rcases hx with hx | hx
            · exact Or.inl ⟨by simp [hx], rfl⟩
            · rcases mem_insertFront hx with rfl | hx
              · exact Or.inr ⟨r, by simp, sc, lower r.name, hlive, hrd, hk', Or.inl rfl⟩
              · exact Or.inl ⟨by simp [hx], rfl⟩
      · exact AssignedIn.refl lower _ now i
    · -- txt
      rename_i t hrd
      split
      · exact AssignedIn.refl lower _ now i
      · rename_i hk
        have hk' : lower r.name = i.key := by simpa using hk
        exact ⟨rfl, Or.inl ⟨rfl, rfl, rfl, rfl, rfl⟩, Or.inr ⟨r, by simp, hlive, hk', hrd⟩, fun _ ha => Or.inl ⟨ha, rfl⟩⟩
    · -- srv
      rename_i prio weight port server hrd
      split
      · exact AssignedIn.refl lower _ now i
      · rename_i hk
        have hk' : lower r.name = i.key := by simpa using hk
        split
        · refine ⟨hk', Or.inr ⟨r, by simp, hlive, ⟨prio, weight, port, server, hrd, rfl, rfl, rfl, rfl, rfl, rfl⟩⟩, Or.inl rfl, ?_⟩
          intro x hx
          simp only [Info.reloadAddrs, Info.setSrvHost, List.mem_append] at hx
          rcases hx with hx | hx
          · obtain ⟨y, hy, he, ⟨sc, hsc⟩, hn, -, -⟩ := mem_addrsLifo lower hx
            exact Or.inr ⟨y, List.mem_cons_of_mem _ hy, sc, lower server, he, hsc, rfl, Or.inr hn⟩
          · obtain ⟨y, hy, he, ⟨sc, hsc⟩, hn, -, -⟩ := mem_addrsLifo lower hx
            exact Or.inr ⟨y, List.mem_cons_of_mem _ hy, sc, lower server, he, hsc, rfl, Or.inr hn⟩
        · rename_i hsame
          have hsame' : i.serverKey = some (lower server) := by simpa using hsame
          refine ⟨hk', Or.inr ⟨r, by simp, hlive, ⟨prio, weight, port, server, hrd, rfl, rfl, rfl, rfl, rfl, rfl⟩⟩, Or.inl rfl, ?_⟩
          intro x hx
          exact Or.inl ⟨hx, hsame'.symm⟩
    · exact AssignedIn.refl lower _ now i

theorem processAll_assigned (c : Cache) (now : Int) : ∀ (rs : List Rec) (i : Info),
    AssignedIn lower (rs ++ c) now i (processAll lower c now i rs).1
  | [], i => AssignedIn.refl lower _ now i
  | r :: rs, i => by
    simp only [processAll]
    have h1 := (processRecord_assigned lower c i r now).mono lower (reads' := (r :: rs) ++ c)
      (by intro x hx; simp only [List.mem_cons] at hx; rcases hx with rfl | hx <;> simp [*])
    have h2 := (processAll_assigned c now rs (processRecord lower c i r now).1).mono lower (reads' := (r :: rs) ++ c)
      (by intro x hx; simp only [List.mem_append] at hx; rcases hx with hx | hx <;> simp [*])
    exact h1.trans lower h2

theorem loadFromCache_assigned (c : Cache) (i : Info) (now : Int) : AssignedIn lower c now i (loadFromCache lower c i now).1 := by
  have hrec : ∀ (j : Info) (r : Rec), r ∈ c → AssignedIn lower c now j (processRecord lower c j r now).1 := fun j r hr =>
    (processRecord_assigned lower c j r now).mono lower (by intro x hx; simp only [List.mem_cons] at hx; rcases hx with rfl | hx <;> assumption)
  have hall : ∀ (j : Info) (rs : List Rec), (∀ x ∈ rs, x ∈ c) → AssignedIn lower c now j (processAll lower c now j rs).1 := fun j rs hrs =>
    (processAll_assigned lower c now rs j).mono lower (by intro x hx; simp only [List.mem_append] at hx; rcases hx with hx | hx; exact hrs x hx; exact hx)
  have hsrv : AssignedIn lower c now i (loadSrv lower c i now) := by
    unfold loadSrv
    split
    · rename_i r hr; exact hrec i r (newestLive_mem lower hr).1
    · exact AssignedIn.refl lower _ now i
  have htxt : AssignedIn lower c now (loadSrv lower c i now) (loadTxt lower c (loadSrv lower c i now) now) := by
    unfold loadTxt
    split
    · rename_i r hr; exact hrec _ r (newestLive_mem lower hr).1
    · exact AssignedIn.refl lower _ now _
  have h2 := hsrv.trans lower htxt
  simp only [loadFromCache, loadInfo]
  split
  · refine h2.trans lower ?_
    unfold loadAddrs
    exact (hall _ _ (fun x hx => addrRecs_sub lower hx)).trans lower (hall _ _ (fun x hx => addrRecs_sub lower hx))
  · exact h2

/-- **one block**: from *any* state, whatever a block does to the info object it does from records it read itself, unexpired at its
own time; and the info it reports is the state's -/
theorem step_assigned (s : Req) (b : Block) (s' : Req) (o : Out) (hs : step lower s b = some (s', o)) :
    AssignedIn lower b.reads b.now s.info s'.info ∧ o.info = s'.info := by
  cases b with
  | start now c h d =>
    simp only [step] at hs
    split at hs
    · exact absurd hs (by simp)
    · have hl := loadFromCache_assigned lower c s.info now
      split at hs
      · simp only [Option.some.injEq, Prod.mk.injEq] at hs
        obtain ⟨hs1, hs2⟩ := hs
        subst hs1; subst hs2
        exact ⟨hl, rfl⟩
      · simp only [Option.some.injEq] at hs
        have h1 := iter_info lower (s.armed (loadFromCache lower c s.info now).1 now) now c h d
        rw [hs] at h1
        simp only [Req.armed] at h1
        refine ⟨?_, h1.2.trans h1.1.symm⟩
        rw [h1.1]; exact hl
  | update now recs c =>
    simp only [step] at hs
    split at hs
    · split at hs
      · simp only [Option.some.injEq, Prod.mk.injEq] at hs
        obtain ⟨hs1, hs2⟩ := hs
        subst hs1; subst hs2
        refine ⟨?_, rfl⟩
        exact (processAll_assigned lower c now (addrLast recs) s.info).mono lower
          (by intro x hx; simp only [List.mem_append] at hx; rcases hx with hx | hx
              · simp [Block.reads, mem_addrLast.mp hx]
              · simp [Block.reads, hx])
      · exact absurd hs (by simp)
    · exact absurd hs (by simp)
  | resume now c h d =>
    simp only [step] at hs
    split at hs
    · split at hs
      · simp only [Option.some.injEq] at hs
        have h1 := iter_info lower s now c h d
        rw [hs] at h1
        refine ⟨?_, h1.2.trans h1.1.symm⟩
        rw [h1.1]; exact AssignedIn.refl lower _ _ _
      · exact absurd hs (by simp)
    · exact absurd hs (by simp)

/-- the chain of a run: each block's reported info follows from the previous one by `AssignedIn` with that block's own reads and time -/
def Chain (i : Info) : List (Block × Out) → Prop
  | [] => True
  | (b, o) :: rest => AssignedIn lower b.reads b.now i o.info ∧ Chain o.info rest

/-- the info object after the blocks -/
def lastInfo (i : Info) : List (Block × Out) → Info
  | [] => i
  | (_, o) :: rest => lastInfo o.info rest

theorem run_chain : ∀ (bs : List Block) (s s' : Req) (outs : List (Block × Out)), run lower s bs = some (s', outs) →
    Chain lower s.info outs ∧ s'.info = lastInfo s.info outs
  | [], s, s', outs, hr => by
    simp only [run, Option.some.injEq, Prod.mk.injEq] at hr
    obtain ⟨h1, h2⟩ := hr
    subst h1; subst h2
    exact ⟨trivial, rfl⟩
  | b :: bs, s, s', outs, hr => by
    simp only [run] at hr
    split at hr
    · exact absurd hr (by simp)
    · rename_i s1 o1 hs1
      split at hr
      · exact absurd hr (by simp)
      · rename_i s2 os hr2
        simp only [Option.some.injEq, Prod.mk.injEq] at hr
        obtain ⟨h1, h2⟩ := hr
        subst h1; subst h2
        obtain ⟨ha, ho⟩ := step_assigned lower s b s1 o1 hs1
        obtain ⟨hc, hl⟩ := run_chain bs s1 s2 os hr2
        rw [← ho] at hc hl
        exact ⟨⟨by rw [ho]; exact ha, hc⟩, hl⟩

/-- **the last assignment of the SRV fields**: at the end of a chain they are what they were at its start, or there is a block of the
chain that read an unexpired SRV of the instance carrying exactly these values, and no later block changed them -/
theorem chain_srv : ∀ (outs : List (Block × Out)) (i : Info), Chain lower i outs →
    (SrvSame i (lastInfo i outs) ∧ (lastInfo i outs).key = i.key) ∨
    ∃ pre b o post r, outs = pre ++ (b, o) :: post ∧ r ∈ b.reads ∧ r.isExpired b.now = false ∧ SrvFrom lower o.info r ∧
      SrvSame o.info (lastInfo i outs) ∧ (lastInfo i outs).key = o.info.key
  | [], i, _ => Or.inl ⟨⟨rfl, rfl, rfl, rfl, rfl⟩, rfl⟩
  | (b, o) :: rest, i, hc => by
    obtain ⟨ha, hrest⟩ := hc
    simp only [lastInfo]
    rcases chain_srv rest o.info hrest with ⟨hs, hk⟩ | ⟨pre, b', o', post, r, he, hr, hx, hf, hs, hk⟩
    · rcases ha.srv with hs0 | ⟨r, hr, hx, hf⟩
      · left
        exact ⟨⟨hs.1.trans hs0.1, hs.2.1.trans hs0.2.1, hs.2.2.1.trans hs0.2.2.1, hs.2.2.2.1.trans hs0.2.2.2.1, hs.2.2.2.2.trans hs0.2.2.2.2⟩,
          hk.trans ha.key⟩
      · right
        exact ⟨[], b, o, rest, r, rfl, hr, hx, hf, hs, hk⟩
    · right
      exact ⟨(b, o) :: pre, b', o', post, r, by rw [he]; rfl, hr, hx, hf, hs, hk⟩

/-- **the last assignment of an address**: every address at the end of a chain was there at its start with the host unchanged since, or
there is a block of the chain that read an unexpired address record carrying it, keyed by the host the object names at the end -/
theorem chain_addr : ∀ (outs : List (Block × Out)) (i : Info), Chain lower i outs → ∀ a ∈ (lastInfo i outs).v4 ++ (lastInfo i outs).v6,
    (a ∈ i.v4 ++ i.v6 ∧ (lastInfo i outs).serverKey = i.serverKey) ∨
    ∃ pre b o post r sc k, outs = pre ++ (b, o) :: post ∧ r ∈ b.reads ∧ r.isExpired b.now = false ∧ r.rdata = .addr a sc ∧
      (lastInfo i outs).serverKey = some k ∧ (lower r.name = k ∨ lower r.name = lower k) ∧ a ∈ o.info.v4 ++ o.info.v6
  | [], i, _, a, ha => Or.inl ⟨ha, rfl⟩
  | (b, o) :: rest, i, hc, a, ha => by
    obtain ⟨hA, hrest⟩ := hc
    simp only [lastInfo] at ha ⊢
    rcases chain_addr rest o.info hrest a ha with ⟨ha', hk⟩ | ⟨pre, b', o', post, r, sc, k, he, hr, hx, hd, hsk, hn, hin⟩
    · rcases hA.addr a ha' with ⟨ha'', hk'⟩ | ⟨r, hr, sc, k, hx, hd, hsk, hn⟩
      · exact Or.inl ⟨ha'', hk.trans hk'⟩
      · right
        exact ⟨[], b, o, rest, r, sc, k, rfl, hr, hx, hd, by rw [hk]; exact hsk, hn, ha'⟩
    · right
      exact ⟨(b, o) :: pre, b', o', post, r, sc, k, by rw [he]; rfl, hr, hx, hd, hsk, hn, hin⟩

end Zc.Lookup
