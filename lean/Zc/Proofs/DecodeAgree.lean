import Zc.Proofs.DecodeLib
/-! Agreement of the library's name decoder (`DecodeLib.readName`: recursion, `seen_pointers`, hop
bound, label-count test, name cache) with the independent strict decoder (`Strict.decName`). -/
namespace Zc.Wire.DecodeLib
open Zc Zc.Wire
open Zc.GenFacts.Incoming

/-! ### lists -/

theorem drop_cons {α : Type} {l : List α} {n : Nat} {b : α} {rest : List α} (h : l.drop n = b :: rest) :
    l[n]? = some b ∧ l.drop (n + 1) = rest ∧ n < l.length := by
  have h1 : l[n]? = some b := by
    have := List.getElem?_drop (xs := l) (i := n) (j := 0)
    rw [h] at this
    simpa using this.symm
  have h2 : l.drop (n + 1) = rest := by
    have : l.drop (n + 1) = (l.drop n).drop 1 := by rw [List.drop_drop]
    rw [this, h]; rfl
  refine ⟨h1, h2, ?_⟩
  exact (List.getElem?_eq_some_iff.mp h1).1

theorem byteAt_of_drop {buf : Bytes} {off : Nat} {b : UInt8} {rest : Bytes} (h : buf.drop off = b :: rest) :
    byteAt buf off = .ok b.toNat ∧ buf.drop (off + 1) = rest ∧ off < buf.length := by
  obtain ⟨h1, h2, h3⟩ := drop_cons h
  exact ⟨by unfold byteAt; rw [h1], h2, h3⟩

theorem byteAt_ok_lt256 {buf : Bytes} {i v : Nat} (h : byteAt buf i = .ok v) : v < 256 := by
  unfold byteAt at h
  split at h
  · simp at h; subst h; exact UInt8.toNat_lt _
  · simp at h

/-! ### single steps of the literal-label loop -/

theorem lit_end {cfg : Cfg} {buf : Bytes} {fuel off : Nat} (hb : byteAt buf off = .ok 0) (hlt : off < buf.length) :
    lit cfg buf (fuel + 1) off = (.fin [] (off + 1), 0) := by
  unfold lit
  rw [if_pos (in_packet_of_lt hlt), hb]
  simp only []
  rw [if_pos is_end_zero, header_len]

theorem lit_ptr {cfg : Cfg} {buf : Bytes} {fuel off n : Nat} (hb : byteAt buf off = .ok n) (hlt : off < buf.length)
    (hn : 192 ≤ n) : lit cfg buf (fuel + 1) off = (.ptr [] off n, 0) := by
  unfold lit
  rw [if_pos (in_packet_of_lt hlt), hb]
  simp only []
  rw [if_neg (by rw [not_end_of_pos (by omega)]; simp), if_neg (by rw [not_label_of_ptr hn]; simp),
    if_neg (by rw [not_unknown_of_ptr hn]; simp)]

theorem lit_label {cfg : Cfg} {buf : Bytes} {fuel off n : Nat} (hb : byteAt buf off = .ok n) (hlt : off < buf.length)
    (h0 : 0 < n) (h1 : n < 64)
    (hok : cfg.labelBad (Utf8.isAscii ((buf.drop (off + 1)).take n)) (Utf8.reencodedLen ((buf.drop (off + 1)).take n)) = false) :
    lit cfg buf (fuel + 1) off = Lit.cons ((buf.drop (off + 1)).take n) (lit cfg buf fuel (off + 1 + n)) := by
  conv => lhs; unfold lit
  rw [if_pos (in_packet_of_lt hlt), hb]
  simp only []
  rw [if_neg (by rw [not_end_of_pos h0]; simp), if_pos (is_label_of_lt h1)]
  have hs := label_slice off n
  have hsl : slice buf (Gen.Incoming.label_idx off) (Gen.Incoming.label_end (Gen.Incoming.label_idx off) n)
      = (buf.drop (off + 1)).take n := by
    rw [hs.2, hs.1]; unfold slice; congr 1; omega
  rw [hsl, if_neg (by rw [hok]; simp), label_advance_eq]
  congr 2
  omega

/-! ### the literal-label loop against `Strict.scan` -/

/-- the configuration never rejects what the strict decoder accepts: labels that can be written
back, and fewer than 128 hops -/
structure CfgAgree (cfg : Cfg) (lok : Label → Prop) : Prop where
  labelOk : ∀ l, lok l → cfg.labelBad (Utf8.isAscii l) (Utf8.reencodedLen l) = false
  hopOk : ∀ n, n < 128 → cfg.hopLimit n = false

/-- labels whose decoded text can be written back into a label -/
def Reencodable (l : Label) : Prop := Utf8.reencodedLen l ≤ 63

theorem libCfg_agree : CfgAgree libCfg Reencodable := ⟨fun _ h => label_ok_of_short _ _ h, fun _ h => hop_ok_of_lt h⟩

/-- the library's loop found what the strict scan found -/
def LitMatches (buf : Bytes) (off : Nat) (s : Strict.Scan) (l : Lit) : Prop :=
  match s with
  | .fin ls e => l = .fin ls e
  | .ptr ls k e => ∃ poff b0 b1, l = .ptr ls poff b0 ∧ off ≤ poff ∧ e = poff + 2 ∧ byteAt buf (poff + 1) = .ok b1
      ∧ 192 ≤ b0 ∧ b0 < 256 ∧ k = (b0 - 192) * 256 + b1
  | .bad => True

def scanLabels : Strict.Scan → WName
  | .fin ls _ => ls
  | .ptr ls _ _ => ls
  | .bad => []

theorem LitMatches.cons {buf : Bytes} {off off' : Nat} {s : Strict.Scan} {r : Lit × Nat} {label : Label}
    (h : LitMatches buf off' s r.1) (ho : off ≤ off') :
    LitMatches buf off (match s with
      | .fin ls e => .fin (label :: ls) e
      | .ptr ls k e => .ptr (label :: ls) k e
      | .bad => .bad) (Lit.cons label r).1 := by
  obtain ⟨l, n⟩ := r
  cases s with
  | bad => trivial
  | fin ls e =>
    simp only [LitMatches] at h ⊢
    subst h
    rfl
  | ptr ls k e =>
    simp only [LitMatches] at h ⊢
    obtain ⟨poff, b0, b1, h1, h2, h3⟩ := h
    subst h1
    exact ⟨poff, b0, b1, rfl, by omega, h3⟩

theorem lit_of_scan {cfg : Cfg} {lok : Label → Prop} (ha : CfgAgree cfg lok) (buf : Bytes) : ∀ (fuelS off fuel : Nat),
    buf.length - off + 1 ≤ fuel →
    (∀ l ∈ scanLabels (Strict.scan (buf.drop off) off fuelS), lok l) →
    LitMatches buf off (Strict.scan (buf.drop off) off fuelS) (lit cfg buf fuel off).1 := by
  intro fuelS
  induction fuelS with
  | zero => intro off fuel _ _; unfold Strict.scan; trivial
  | succ fuelS ih =>
    intro off fuel hf hl
    cases hd : buf.drop off with
    | nil => unfold Strict.scan; trivial
    | cons b rest =>
      obtain ⟨hb, hrest, hlt⟩ := byteAt_of_drop hd
      obtain ⟨fuel, rfl⟩ : ∃ f, fuel = f + 1 := ⟨fuel - 1, by omega⟩
      rw [hd] at hl
      unfold Strict.scan at hl ⊢
      simp only [] at hl ⊢
      by_cases h0 : b.toNat = 0
      · rw [if_pos h0]
        rw [h0] at hb
        rw [lit_end hb hlt]
        rfl
      · rw [if_neg h0] at hl ⊢
        by_cases h1 : b.toNat < 64
        · rw [if_pos h1] at hl ⊢
          by_cases h2 : rest.length < b.toNat
          · rw [if_pos h2]; trivial
          · rw [if_neg h2] at hl ⊢
            have hdrop : rest.drop b.toNat = buf.drop (off + 1 + b.toNat) := by
              rw [← hrest, List.drop_drop]
            rw [hdrop] at hl ⊢
            have hrec := ih (off + 1 + b.toNat) fuel (by omega)
            cases hs : Strict.scan (buf.drop (off + 1 + b.toNat)) (off + 1 + b.toNat) fuelS with
            | bad => trivial
            | fin ls e =>
              rw [hs] at hl hrec
              simp only [scanLabels, List.mem_cons] at hl hrec
              have hlab := hl _ (Or.inl rfl)
              rw [lit_label hb hlt (by omega) h1 (by rw [hrest]; exact ha.labelOk _ hlab), hrest]
              have := LitMatches.cons (label := rest.take b.toNat) (off := off) (off' := off + 1 + b.toNat)
                (s := .fin ls e) (hrec (fun l hm => hl l (Or.inr hm))) (by omega)
              exact this
            | ptr ls k e =>
              rw [hs] at hl hrec
              simp only [scanLabels, List.mem_cons] at hl hrec
              have hlab := hl _ (Or.inl rfl)
              rw [lit_label hb hlt (by omega) h1 (by rw [hrest]; exact ha.labelOk _ hlab), hrest]
              have := LitMatches.cons (label := rest.take b.toNat) (off := off) (off' := off + 1 + b.toNat)
                (s := .ptr ls k e) (hrec (fun l hm => hl l (Or.inr hm))) (by omega)
              exact this
        · rw [if_neg h1] at hl ⊢
          by_cases h2 : b.toNat < 192
          · rw [if_pos h2]; trivial
          · rw [if_neg h2] at hl ⊢
            cases hr : rest with
            | nil => trivial
            | cons b2 tl =>
              rw [hr] at hrest
              obtain ⟨hb2, _, _⟩ := byteAt_of_drop hrest
              rw [lit_ptr hb hlt (by omega)]
              exact ⟨off, b.toNat, b2.toNat, rfl, Nat.le_refl _, rfl, hb2, by omega, UInt8.toNat_lt b, rfl⟩

/-! ### pointer chasing against `Strict.decFrom` -/

/-- whatever fuel and segment bound: if the strict decoder succeeds at `k`, the result is unique -/
theorem decFrom_det (buf : Bytes) : ∀ (f1 f2 S1 S2 k : Nat) (r1 r2 : WName × Nat),
    Strict.decFrom buf f1 S1 k = some r1 → Strict.decFrom buf f2 S2 k = some r2 → r1.1 = r2.1 := by
  intro f1
  induction f1 with
  | zero => intro f2 S1 S2 k r1 r2 h; unfold Strict.decFrom at h; simp at h
  | succ f1 ih =>
    intro f2 S1 S2 k r1 r2 h1 h2
    cases f2 with
    | zero => unfold Strict.decFrom at h2; simp at h2
    | succ f2 =>
      unfold Strict.decFrom at h1 h2
      cases hs : Strict.scan (buf.drop k) k (buf.length + 1) with
      | bad => rw [hs] at h1; simp at h1
      | fin ls e =>
        rw [hs] at h1 h2
        simp at h1 h2
        rw [← h1, ← h2]
      | ptr ls k' e =>
        rw [hs] at h1 h2
        simp only at h1 h2
        split at h1
        · split at h2
          · cases hr1 : Strict.decFrom buf f1 k' k' with
            | none => rw [hr1] at h1; simp at h1
            | some v1 =>
              cases hr2 : Strict.decFrom buf f2 k' k' with
              | none => rw [hr2] at h2; simp at h2
              | some v2 =>
                rw [hr1] at h1; rw [hr2] at h2
                simp at h1 h2
                have := ih f2 k' k' k' v1 v2 hr1 hr2
                rw [← h1, ← h2]
                simp [this]
          · simp at h2
        · simp at h1

/-- every cache entry is what the strict decoder would compute at that offset (if it accepts it) -/
def CacheOK (buf : Bytes) (c : List (Nat × WName)) : Prop :=
  ∀ k ls, (k, ls) ∈ c → ∀ fuel S rest e, Strict.decFrom buf fuel S k = some (rest, e) → rest = ls

theorem CacheOK.nil (buf : Bytes) : CacheOK buf [] := by intro k ls h; simp at h

theorem CacheOK.cons {buf : Bytes} {c : List (Nat × WName)} {k f S e : Nat} {ls : WName} (h : CacheOK buf c)
    (hk : Strict.decFrom buf f S k = some (ls, e)) : CacheOK buf ((k, ls) :: c) := by
  intro k' ls' hm fuel S' rest e' hd
  simp only [List.mem_cons, Prod.mk.injEq] at hm
  rcases hm with ⟨rfl, rfl⟩ | hm
  · exact decFrom_det buf fuel f S' S k' (rest, e') (ls', e) hd hk
  · exact h k' ls' hm fuel S' rest e' hd

theorem lookup_mem {c : List (Nat × WName)} {k : Nat} {v : WName} (h : c.lookup k = some v) : (k, v) ∈ c := by
  induction c with
  | nil => simp [List.lookup] at h
  | cons hd tl ih =>
    obtain ⟨k', v'⟩ := hd
    simp only [List.lookup] at h
    split at h
    · rename_i heq
      simp at heq h
      subst heq; subst h
      exact List.mem_cons_self
    · exact List.mem_cons_of_mem _ (ih h)

theorem cacheGet_mem {c : List (Nat × WName)} {k : Nat} {v : WName} (h : cacheGet c k = some v) : (k, v) ∈ c := by
  unfold cacheGet at h
  split at h
  · split at h
    · simp at h
    · simp at h; subst h; exact lookup_mem ‹_›
  · simp at h

theorem decodeAt_agrees {cfg : Cfg} {lok : Label → Prop} (hc : CfgOK cfg) (ha : CfgAgree cfg lok) (buf : Bytes) :
    ∀ (fuelS off : Nat) (ls : WName) (e : Nat), Strict.decFrom buf fuelS off off = some (ls, e) →
      (∀ l ∈ ls, lok l) → ls.length ≤ 128 →
      ∀ (fuel depth : Nat) (seen : List Nat) (st : St), CacheOK buf st.cache → (∀ s ∈ seen, off ≤ s) →
        seen.length + fuelS ≤ 129 → depth ≤ seen.length + 1 → 131 ≤ fuel + depth →
        ∃ st' seen', decodeAt cfg buf fuel off depth seen st = (st', .ok (ls, e, seen')) ∧
          CacheOK buf st'.cache ∧ st'.off = st.off ∧ st'.names = st.names := by
  intro fuelS
  induction fuelS with
  | zero => intro off ls e h; unfold Strict.decFrom at h; simp at h
  | succ fuelS ih =>
    intro off ls e hdec hlab hlen fuel depth seen st hcache hseen hfuelS hdepth hfuel
    obtain ⟨fuel, rfl⟩ : ∃ f, fuel = f + 1 := ⟨fuel - 1, by omega⟩
    have hrec := hc.recOk
    unfold Strict.decFrom at hdec
    unfold decodeAt
    rw [if_neg (by omega)]
    have hlit := lit_of_scan (cfg := cfg) ha buf (buf.length + 1) off (buf.length + 1) (by omega)
    cases hs : Strict.scan (buf.drop off) off (buf.length + 1) with
    | bad => rw [hs] at hdec; simp at hdec
    | fin ls' e' =>
      rw [hs] at hdec hlit
      simp at hdec
      obtain ⟨rfl, rfl⟩ := hdec
      have hl := hlit (by simpa [scanLabels] using hlab)
      simp only [LitMatches] at hl
      generalize lit cfg buf (buf.length + 1) off = lr at hl
      obtain ⟨l, r⟩ := lr
      simp only at hl
      subst hl
      exact ⟨_, seen, rfl, hcache, rfl, rfl⟩
    | ptr lsL k e' =>
      rw [hs] at hdec hlit
      simp only at hdec
      split at hdec
      · rename_i hk
        cases hr : Strict.decFrom buf fuelS k k with
        | none => rw [hr] at hdec; simp at hdec
        | some v =>
          obtain ⟨rest, er⟩ := v
          rw [hr] at hdec
          simp at hdec
          obtain ⟨rfl, rfl⟩ := hdec
          have hfS : fuelS ≠ 0 := by
            intro h0; subst h0; unfold Strict.decFrom at hr; simp at hr
          have hl := hlit (by
            intro l hm; simp only [scanLabels] at hm
            exact hlab l (List.mem_append_left _ hm))
          simp only [LitMatches] at hl
          obtain ⟨poff, b0, b1, hl, hpo, he, hb1, hb0, hb0', hk'⟩ := hl
          generalize lit cfg buf (buf.length + 1) off = lr at hl
          obtain ⟨l, r⟩ := lr
          simp only at hl
          subst hl
          simp only []
          rw [hb1]
          simp only []
          have hlink : Gen.Incoming.link b0 b1 = k := by rw [link_eq hb0 hb0' (byteAt_ok_lt256 hb1), hk']
          have hpl := byteAt_ok_lt hb1
          rw [hlink, if_neg (by rw [link_in_packet (by omega)]; simp), if_neg (by rw [link_not_self (by omega)]; simp)]
          have hns : seen.contains k = false := by
            rw [List.contains_eq_mem]
            simp only [decide_eq_false_iff_not]
            intro hm
            have := hseen k hm
            omega
          rw [if_neg (by rw [hns]; simp)]
          have hlen' : (lsL ++ rest).length ≤ 128 := hlen
          have hfin : ∀ (sn : List Nat) (s : St), finish lsL rest poff sn s = (s, .ok (lsL ++ rest, e', sn)) := by
            intro sn s
            unfold finish
            rw [if_neg (by rw [labels_ok_of_le hlen']; simp), pointer_len, he]
          cases hcg : cacheGet st.cache k with
          | some ll =>
            simp only []
            have hmem := cacheGet_mem hcg
            have hll : rest = ll := hcache k ll hmem fuelS k rest er hr
            subst hll
            rw [hfin]
            exact ⟨_, seen, rfl, hcache, rfl, rfl⟩
          | none =>
            simp only []
            rw [if_neg (by rw [ha.hopOk _ (by omega)]; simp)]
            have hrest_len : rest.length ≤ 128 := by
              simp only [List.length_append] at hlen'; omega
            obtain ⟨st', seen', hd', hc', ho', hn'⟩ := ih k rest er hr
              (fun l hm => hlab l (List.mem_append_right _ hm)) hrest_len fuel (depth + 1) (k :: seen)
              { st with acts := st.acts + 1, reads := st.reads + r, maxDepth := max st.maxDepth depth }
              hcache
              (by
                intro s hm
                simp only [List.mem_cons] at hm
                rcases hm with rfl | hm
                · exact Nat.le_refl _
                · have := hseen s hm; omega)
              (by simp only [List.length_cons]; omega) (by simp only [List.length_cons]; omega) (by omega)
            rw [hd']
            simp only []
            rw [hfin]
            exact ⟨_, seen', rfl, hc'.cons hr, ho', hn'⟩
      · simp at hdec

/-! ### a strictly decoded name has at most 126 labels -/

theorem scan_labels_nonempty : ∀ (fuel : Nat) (l : Bytes) (off : Nat),
    ∀ lab ∈ scanLabels (Strict.scan l off fuel), lab ≠ [] := by
  intro fuel
  induction fuel with
  | zero => intro l off lab h; unfold Strict.scan at h; simp [scanLabels] at h
  | succ fuel ih =>
    intro l off lab h
    cases l with
    | nil => unfold Strict.scan at h; simp [scanLabels] at h
    | cons b rest =>
      unfold Strict.scan at h
      simp only [] at h
      split at h
      · simp [scanLabels] at h
      · split at h
        · split at h
          · simp [scanLabels] at h
          · rename_i h0 h1 h2
            have hne : rest.take b.toNat ≠ [] := by
              intro hnil
              have hl : (rest.take b.toNat).length = min b.toNat rest.length := List.length_take
              rw [hnil] at hl
              simp only [List.length_nil] at hl
              omega
            have hrec := ih (rest.drop b.toNat) (off + 1 + b.toNat)
            cases hs : Strict.scan (rest.drop b.toNat) (off + 1 + b.toNat) fuel with
            | bad => rw [hs] at h; simp [scanLabels] at h
            | fin ls e =>
              rw [hs] at h hrec
              simp only [scanLabels, List.mem_cons] at h hrec
              rcases h with rfl | h
              · exact hne
              · exact hrec lab h
            | ptr ls k e =>
              rw [hs] at h hrec
              simp only [scanLabels, List.mem_cons] at h hrec
              rcases h with rfl | h
              · exact hne
              · exact hrec lab h
        · split at h
          · simp [scanLabels] at h
          · split at h <;> simp [scanLabels] at h

theorem decFrom_labels_nonempty (buf : Bytes) : ∀ (f S k : Nat) (ls : WName) (e : Nat),
    Strict.decFrom buf f S k = some (ls, e) → ∀ l ∈ ls, l ≠ [] := by
  intro f
  induction f with
  | zero => intro S k ls e h; unfold Strict.decFrom at h; simp at h
  | succ f ih =>
    intro S k ls e h
    unfold Strict.decFrom at h
    have hsc := scan_labels_nonempty (buf.length + 1) (buf.drop k) k
    cases hs : Strict.scan (buf.drop k) k (buf.length + 1) with
    | bad => rw [hs] at h; simp at h
    | fin ls' e' =>
      rw [hs] at h hsc
      simp at h
      obtain ⟨rfl, rfl⟩ := h
      simpa [scanLabels] using hsc
    | ptr ls' k' e' =>
      rw [hs] at h hsc
      simp only at h
      split at h
      · cases hr : Strict.decFrom buf f k' k' with
        | none => rw [hr] at h; simp at h
        | some v =>
          obtain ⟨rest, er⟩ := v
          rw [hr] at h
          simp at h
          obtain ⟨rfl, rfl⟩ := h
          intro l hm
          simp only [List.mem_append] at hm
          rcases hm with hm | hm
          · exact hsc l (by simpa [scanLabels] using hm)
          · exact ih k' k' rest er hr l hm
      · simp at h

/-- decoding with replacement never yields the empty string from a non-empty byte string -/
theorem go_length_pos : ∀ (l : List UInt8) (st : Utf8.St), (st.need ≠ 0 ∨ l ≠ []) → 1 ≤ (Utf8.go st l).length := by
  intro l
  induction l with
  | nil =>
    intro st h
    unfold Utf8.go
    rcases h with h | h
    · rw [if_neg h]; simp
    · exact absurd rfl h
  | cons b rest ih =>
    intro st _
    unfold Utf8.go
    split
    · -- idle: look at `start b`
      unfold Utf8.start
      split
      · simp
      · split
        · simp
        · rename_i n lo hi hli
          simp only [List.nil_append]
          apply ih
          left
          simp only
          unfold Utf8.leadInfo at hli
          repeat' split at hli
          all_goals simp at hli
          all_goals omega
    · split
      · split
        · simp
        · rename_i hneed _ hn1
          apply ih
          left
          simp only
          omega
      · simp

theorem charCount_pos {l : List UInt8} (h : l ≠ []) : 1 ≤ Utf8.charCount l := by
  unfold Utf8.charCount Utf8.decodeReplace
  exact go_length_pos l Utf8.idle (Or.inr h)

theorem labels_sum_ge (n : WName) (h : ∀ l ∈ n, l ≠ []) :
    2 * n.length ≤ (n.map (fun l => Utf8.charCount l + 1)).sum := by
  induction n with
  | nil => simp
  | cons a tl ih =>
    have ha := charCount_pos (h a List.mem_cons_self)
    have := ih (fun l hl => h l (List.mem_cons_of_mem _ hl))
    simp only [List.map_cons, List.sum_cons, List.length_cons]
    omega

theorem nameLen_ge (n : WName) (h : ∀ l ∈ n, l ≠ []) : 2 * n.length ≤ nameLen n := by
  unfold nameLen
  split
  · rename_i he
    simp at he
    subst he
    simp
  · exact labels_sum_ge n h

/-! ### `_read_name` against `Strict.decName` -/

theorem readName_agrees {cfg : Cfg} {lok : Label → Prop} (hc : CfgOK cfg) (ha : CfgAgree cfg lok) (buf : Bytes) (st : St) (n : WName) (e : Nat)
    (hdec : Strict.decName buf st.off = some (n, e)) (hlab : ∀ l ∈ n, lok l)
    (hcache : CacheOK buf st.cache) :
    ∃ st', readName cfg buf st = (st', .ok n) ∧ st'.off = e ∧ CacheOK buf st'.cache := by
  unfold Strict.decName at hdec
  cases hd : Strict.decFrom buf Strict.maxSegments st.off st.off with
  | none => rw [hd] at hdec; simp at hdec
  | some v =>
    obtain ⟨n', e'⟩ := v
    rw [hd] at hdec
    simp only at hdec
    split at hdec
    · rename_i hlen
      simp at hdec
      obtain ⟨rfl, rfl⟩ := hdec
      have hne := decFrom_labels_nonempty buf _ _ _ _ _ hd
      have h2 := nameLen_ge n' hne
      have hlen' := hlen.1
      obtain ⟨st', seen', hrun, hc', ho', _⟩ := decodeAt_agrees hc ha buf Strict.maxSegments st.off n' e' hd hlab (by omega)
        (nameFuel buf) 1 [] { st with names := st.names + 1 } hcache (by simp) (by simp [Strict.maxSegments])
        (by simp) (by unfold nameFuel; omega)
      unfold readName
      dsimp only
      rw [hrun]
      dsimp only
      rw [if_neg (by rw [name_ok_of_short hlen.1]; simp)]
      exact ⟨_, rfl, rfl, CacheOK.cons hc' hd⟩
    · simp at hdec

end Zc.Wire.DecodeLib
