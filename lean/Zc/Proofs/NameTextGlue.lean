import Zc.Proofs.NameText
import Zc.Proofs.SurviveLive
/-! # `TextGlue` discharged

C15's composite (`Model/SurviveComp`) turns decoded names into `str` (`textOfName`) and cached / registered
names back into labels for the encoder (`labelsOfText`).  The timer-block theorems assumed, by name, the identity
`TextGlue : ∀ n, labelsOfText (textOfName n) = reencName n` — "handing the text of a decoded name to `write_name`
makes it write the labels `reencName` computes from the wire name".  With the text layer modelled
(`Zc.NameText`) this is a theorem, for **every** wire name: the root, empty labels, labels that are not UTF-8
(U+FFFD after `'replace'`), labels with a literal `2e` byte. -/
namespace Zc.Survive.Comp
open Zc Zc.Wire Zc.Survive

/-- C15's code-point `split('.')` is the text layer's generic split at U+002E -/
theorem splitDot_eq_splitOn (cps : List Nat) : Survive.splitDot cps = NameText.splitOn 0x2E cps := by
  induction cps with
  | nil => rfl
  | cons c r ih =>
    unfold Survive.splitDot NameText.splitOn
    rw [ih]
    split
    · rfl
    · cases NameText.splitOn 46 r <;> rfl

theorem encPieces_eq (l : Label) : encPieces l = (NameText.splitOn 0x2E (Utf8.decodeReplace l)).map Utf8.encode := by
  unfold encPieces
  rw [splitDot_eq_splitOn]

/-- **the label list `write_name` works on when handed the text `_read_name` returned for the wire name `n`
is `reencName n`** — for every wire name -/
theorem labelsOfText_textOfLabels_eq_reencName (n : WName) :
    NameText.labelsOfText (NameText.textOfLabels n) = reencName n := by
  rw [NameText.labelsOfText_textOfLabels]
  unfold reencName
  split
  · rfl
  · exact NameText.flatMap_congr' (fun l _ => (encPieces_eq l).symm)

/-- **`TextGlue` holds.** -/
theorem textGlue : TextGlue := by
  intro n
  unfold labelsOfText textOfName
  rw [String.toList_ofList]
  exact labelsOfText_textOfLabels_eq_reencName n

/-- the text of a decoded name has `nameLen` characters: the 253 of `NameFromWire` / `RecNamesOK` is `len(name)` -/
theorem textOfName_length (n : WName) : (textOfName n).length = nameLen n := by
  unfold textOfName
  rw [String.length_ofList]
  exact NameText.textOfLabels_length n

end Zc.Survive.Comp
