import Zc.Model.Txt
/-! Helper lemmas for C19 (TXT encode / decode). -/
namespace Zc.Txt

/-- the wire form of a list of items that all fit: length octet, item, … -/
def wireOf : List Bytes → Bytes
  | [] => []
  | it :: r => UInt8.ofNat it.length :: (it ++ wireOf r)

theorem encodeItems_ok (items : List Bytes) (h : ∀ it ∈ items, it.length ≤ 255) : encodeItems items = .ok (wireOf items) := by
  induction items with
  | nil => rfl
  | cons it r ih =>
    have h1 : ¬ it.length > 255 := by have := h it (by simp); omega
    rw [encodeItems, if_neg h1, ih (fun x hx => h x (by simp [hx]))]
    rfl

theorem encodeItems_error_of (items : List Bytes) (e : PyExc) (h : encodeItems items = .error e) :
    e = .valueError ∧ ∃ it ∈ items, 255 < it.length := by
  induction items with
  | nil => cases h
  | cons it r ih =>
    rw [encodeItems] at h
    by_cases h1 : it.length > 255
    · rw [if_pos h1] at h
      injection h with h; exact ⟨h.symm, it, by simp, h1⟩
    · rw [if_neg h1] at h
      cases hr : encodeItems r with
      | error e' =>
        rw [hr] at h
        injection h with h; subst h
        have ⟨a, x, hx, hl⟩ := ih hr
        exact ⟨a, x, by simp [hx], hl⟩
      | ok t => rw [hr] at h; cases h

theorem encodeItems_ok_of (items : List Bytes) (t : Bytes) (h : encodeItems items = .ok t) : ∀ it ∈ items, it.length ≤ 255 := by
  induction items generalizing t with
  | nil => simp
  | cons it r ih =>
    rw [encodeItems] at h
    by_cases h1 : it.length > 255
    · rw [if_pos h1] at h; cases h
    · rw [if_neg h1] at h
      cases hr : encodeItems r with
      | error e' => rw [hr] at h; cases h
      | ok t' =>
        intro y hy
        rcases List.mem_cons.1 hy with rfl | hy
        · omega
        · exact ih t' hr y hy

theorem encodeItems_error (items : List Bytes) (e : PyExc) :
    encodeItems items = .error e ↔ e = .valueError ∧ ∃ it ∈ items, 255 < it.length := by
  constructor
  · exact encodeItems_error_of items e
  · rintro ⟨rfl, x, hx, hl⟩
    cases hr : encodeItems items with
    | error e' => rw [(encodeItems_error_of items e' hr).1]
    | ok t => have := encodeItems_ok_of items t hr x hx; omega

theorem ofNat_toNat {n : Nat} (h : n ≤ 255) : (UInt8.ofNat n).toNat = n := by
  simp [UInt8.toNat_ofNat']; omega

theorem decodeLoop_cons (n : UInt8) (rest : Bytes) (d : Props) :
    decodeLoop (n :: rest) d =
      decodeLoop (rest.drop n.toNat) (insertNew d (partitionEq (rest.take n.toNat)).1 (libVal (partitionEq (rest.take n.toNat)).2)) := by
  rw [decodeLoop]

/-- decoding the wire form = folding "insert if the key is new" over the items -/
theorem decodeLoop_wire (items : List Bytes) (h : ∀ it ∈ items, it.length ≤ 255) (d : Props) :
    decodeLoop (wireOf items) d =
      items.foldl (fun d it => insertNew d (partitionEq it).1 (libVal (partitionEq it).2)) d := by
  induction items generalizing d with
  | nil => simp [wireOf, decodeLoop]
  | cons it r ih =>
    have h1 := ofNat_toNat (h it (by simp))
    rw [wireOf, decodeLoop_cons, h1]
    simp only [List.take_left', List.drop_left', List.foldl_cons]
    exact ih (fun x hx => h x (by simp [hx])) _

theorem partitionEq_key (k : Bytes) (h : eqByte ∉ k) : partitionEq k = (k, none) := by
  induction k with
  | nil => rfl
  | cons b r ih =>
    have hb : b ≠ eqByte := fun e => h (by simp [e])
    have hr : eqByte ∉ r := fun e => h (by simp [e])
    rw [partitionEq, if_neg hb, ih hr]

theorem partitionEq_key_value (k v : Bytes) (h : eqByte ∉ k) : partitionEq (k ++ eqByte :: v) = (k, some v) := by
  induction k with
  | nil => simp [partitionEq]
  | cons b r ih =>
    have hb : b ≠ eqByte := fun e => h (by simp [e])
    have hr : eqByte ∉ r := fun e => h (by simp [e])
    simp only [List.cons_append]
    rw [partitionEq, if_neg hb, ih hr]

theorem partitionEq_itemOf (e : Bytes × Option Bytes) (h : eqByte ∉ e.1) : partitionEq (itemOf e) = e := by
  obtain ⟨k, v⟩ := e
  cases v with
  | none => exact partitionEq_key k h
  | some v => exact partitionEq_key_value k v h

theorem hasKey_append (d : Props) (e : Bytes × Option Bytes) (k : Bytes) : hasKey (d ++ [e]) k = (hasKey d k || e.1 == k) := by
  simp [hasKey]

/-- inserting entries with fresh, pairwise distinct keys appends them -/
theorem foldl_insertNew (l d : Props) (f : Option Bytes → Option Bytes) (h1 : ∀ e ∈ l, hasKey d e.1 = false)
    (h2 : (l.map (·.1)).Nodup) :
    l.foldl (fun d e => insertNew d e.1 (f e.2)) d = d ++ l.map (fun e => (e.1, f e.2)) := by
  induction l generalizing d with
  | nil => simp
  | cons e r ih =>
    have he : hasKey d e.1 = false := h1 e (by simp)
    simp only [List.map_cons, List.nodup_cons] at h2
    rw [List.foldl_cons, insertNew, he]
    simp only [Bool.false_eq_true, if_false]
    rw [ih (d ++ [(e.1, f e.2)]) ?_ h2.2]
    · simp
    · intro x hx
      rw [hasKey_append, h1 x (by simp [hx])]
      have : e.1 ≠ x.1 := fun heq => h2.1 (by rw [heq]; exact List.mem_map_of_mem hx)
      simp [this]

theorem libVal_idem (v : Option Bytes) : libVal (libVal v) = libVal v := by
  match v with
  | none => rfl
  | some [] => rfl
  | some (_ :: _) => rfl

/-! ### the RFC 6763 reader on the wire form -/

theorem strings_cons (n : UInt8) (rest : Bytes) :
    Spec.strings (n :: rest) = if rest.length < n.toNat then none else
      match Spec.strings (rest.drop n.toNat) with
      | none => none
      | some ss => some (rest.take n.toNat :: ss) := by
  rw [Spec.strings]; rfl

theorem strings_wire (items : List Bytes) (h : ∀ it ∈ items, it.length ≤ 255) : Spec.strings (wireOf items) = some items := by
  induction items with
  | nil => simp [wireOf, Spec.strings]
  | cons it r ih =>
    have h1 := ofNat_toNat (h it (by simp))
    rw [wireOf, strings_cons, h1, if_neg (by simp)]
    simp only [List.take_left', List.drop_left']
    rw [ih (fun x hx => h x (by simp [hx]))]

theorem splitAtEq_key (k : Bytes) (h : eqByte ∉ k) : Spec.splitAtEq k = none := by
  induction k with
  | nil => rfl
  | cons b r ih =>
    have hb : b ≠ 0x3d := fun e => h (by simp [e, eqByte])
    have hr : eqByte ∉ r := fun e => h (by simp [e])
    rw [Spec.splitAtEq, if_neg hb, ih hr]; rfl

theorem splitAtEq_key_value (k v : Bytes) (h : eqByte ∉ k) : Spec.splitAtEq (k ++ eqByte :: v) = some (k, v) := by
  induction k with
  | nil => simp [Spec.splitAtEq, eqByte]
  | cons b r ih =>
    have hb : b ≠ 0x3d := fun e => h (by simp [e, eqByte])
    have hr : eqByte ∉ r := fun e => h (by simp [e])
    simp only [List.cons_append]
    rw [Spec.splitAtEq, if_neg hb, ih hr]; rfl

theorem attr_itemOf (e : Bytes × Option Bytes) (h : eqByte ∉ e.1) (hk : e.1 ≠ []) : Spec.attr (itemOf e) = some e := by
  obtain ⟨k, v⟩ := e
  cases v with
  | none => simp only [itemOf, Spec.attr, splitAtEq_key k h]; simp [show k ≠ [] from hk]
  | some v => simp only [itemOf, Spec.attr, splitAtEq_key_value k v h]; simp [show k ≠ [] from hk]

theorem filterMap_attr (ps : Props) (h : ∀ e ∈ ps, eqByte ∉ e.1) (hk : ∀ e ∈ ps, e.1 ≠ []) :
    (ps.map itemOf).filterMap Spec.attr = ps := by
  induction ps with
  | nil => rfl
  | cons e r ih =>
    simp only [List.map_cons, List.filterMap_cons, attr_itemOf e (h e (by simp)) (hk e (by simp))]
    rw [ih (fun x hx => h x (by simp [hx])) (fun x hx => hk x (by simp [hx]))]

theorem firstWins_fresh (l : Props) (seen : List Bytes) (h1 : ∀ e ∈ l, Spec.foldKey e.1 ∉ seen)
    (h2 : (l.map (fun e => Spec.foldKey e.1)).Nodup) : Spec.firstWins seen l = l := by
  induction l generalizing seen with
  | nil => rfl
  | cons e r ih =>
    simp only [List.map_cons, List.nodup_cons] at h2
    rw [Spec.firstWins, if_neg (h1 e (by simp))]
    rw [ih (Spec.foldKey e.1 :: seen) ?_ h2.2]
    intro x hx hm
    rcases List.mem_cons.1 hm with heq | hm
    · exact h2.1 (by rw [← heq]; exact List.mem_map_of_mem (f := fun e => Spec.foldKey e.1) hx)
    · exact h1 x (by simp [hx]) hm

/-! ### the two readers on the encoder's output -/

theorem items_fit {ps : Props} (h : ∀ e ∈ ps, (itemOf e).length ≤ 255) :
    ∀ it ∈ ps.map itemOf, it.length ≤ 255 := by
  intro it hit
  obtain ⟨e, he, rfl⟩ := List.mem_map.1 hit
  exact h e he

theorem encode_wf {ps : Props} (h : ∀ e ∈ ps, (itemOf e).length ≤ 255) :
    encode ps = .ok (wireOf (ps.map itemOf)) :=
  encodeItems_ok _ (items_fit h)

theorem decodeLib_wire {ps : Props} (h1 : ∀ e ∈ ps, eqByte ∉ e.1) (h2 : (ps.map (·.1)).Nodup)
    (h3 : ∀ e ∈ ps, (itemOf e).length ≤ 255) :
    decodeLib (wireOf (ps.map itemOf)) = normalise ps := by
  rw [decodeLib, decodeLoop_wire _ (items_fit h3)]
  have e1 : (ps.map itemOf).map partitionEq = ps := by
    rw [List.map_map]
    conv => rhs; rw [← List.map_id ps]
    exact List.map_congr_left (fun e he => partitionEq_itemOf e (h1 e he))
  have e2 := List.foldl_map (f := partitionEq) (g := fun (d : Props) e => insertNew d e.1 (libVal e.2))
    (l := ps.map itemOf) (init := [])
  rw [e1] at e2
  rw [← e2, foldl_insertNew ps [] libVal (fun _ _ => rfl) h2]
  rfl


/-- no hypothesis on the dictionary beyond the item limit -/
theorem decodeLib_encode_general {ps : Props} (h3 : ∀ e ∈ ps, (itemOf e).length ≤ 255) :
    decodeLib (wireOf (ps.map itemOf)) =
      (ps.map itemOf).foldl (fun d it => insertNew d (partitionEq it).1 (libVal (partitionEq it).2)) [] := by
  rw [decodeLib, decodeLoop_wire _ (items_fit h3)]

theorem parse_encode_general {ps : Props} (h3 : ∀ e ∈ ps, (itemOf e).length ≤ 255) :
    Spec.parse (wireOf (ps.map itemOf)) = some (Spec.firstWins [] ((ps.map itemOf).filterMap Spec.attr)) := by
  rw [Spec.parse, strings_wire _ (items_fit h3)]; rfl

theorem coerce_asBytesDict (ps : Props) : coerce (asBytesDict ps) = ps := by
  induction ps with
  | nil => rfl
  | cons e r ih =>
    have ih' : coerce (asBytesDict r) = r := ih
    obtain ⟨k, v⟩ := e
    cases v <;> simp_all [coerce, asBytesDict, PyVal.enc]

end Zc.Txt
