import Zc.Model.Txt
/-! Helper lemmas for C19 (TXT encode / decode). -/
namespace Zc.Txt

end Zc.Txt
