import Zc.Model.RegHistory
import Zc.Proofs.Respond
/-! Histories (C03): every operation preserves the registry invariant, refines the abstract map, raises only
`ServiceNameAlreadyRegistered`, and keeps the memo of every object that was not written to fresh. -/
namespace Zc

section
variable (lower : String → String) (ettl : Nat)

/-- what a history maintains -/
structure HistInv (reg : Registry) (spec : List Svc) (d : List String) : Prop where
  inv : IndexInv lower reg
  refines : reg.services.map Svc.clearMemo = spec
  fresh : ∀ s ∈ reg.services, lower s.name ∉ d → MemoOk lower s

theorem Svc.mutate_clear (o : Svc) (m : Mut) : (o.mutate m).clearMemo = ((o.clearMemo).mutate m).clearMemo := by
  cases m <;> rfl

theorem sget_isSome_iff (k : String) (svcs : List Svc) :
    (sget lower k svcs).isSome = svcs.any (fun o => lower o.name = k) := by
  unfold sget
  induction svcs with
  | nil => rfl
  | cons a r ih => by_cases e : lower a.name = k <;> simp [List.find?, e, ih]

theorem any_clear (k : String) (svcs : List Svc) :
    (svcs.map Svc.clearMemo).any (fun o => lower o.name = k) = svcs.any (fun o => lower o.name = k) := by
  induction svcs with
  | nil => rfl
  | cons a r ih => simp only [List.map_cons, List.any_cons, ih, Svc.clearMemo_name] <;> rfl

theorem Svc.clearMemo_idem (s : Svc) : s.clearMemo.clearMemo = s.clearMemo := rfl

/-- one operation from any state satisfying the invariant: it returns normally — or it is `register` of a
registered name, raises `ServiceNameAlreadyRegistered` and changes nothing — and the invariant is kept -/
theorem step_spec {reg : Registry} {spec : List Svc} {d : List String} (h : HistInv lower reg spec d) (op : RegOp) :
    ((∃ r, reg.stepE lower ettl op = .ok r) ∨
       (∃ s, op = .register s ∧ (sget lower (lower s.name) reg.services).isSome ∧ reg.stepE lower ettl op = .error .alreadyRegistered))
    ∧ HistInv lower (reg.step lower ettl op) (RegSpec.step lower spec op) (dirtyStep lower d op) := by
  obtain ⟨hi, href, hfr⟩ := h
  cases op with
  | register s =>
    rcases Registry.add_spec lower reg hi s with ⟨hsome, herr⟩ | ⟨hnone, r, hok, hir, hsv⟩
    · refine ⟨Or.inr ⟨s, rfl, hsome, herr⟩, ?_⟩
      have hany : spec.any (fun o => lower o.name = lower s.name) = true := by
        rw [← href, any_clear, ← sget_isSome_iff]; exact hsome
      simp only [Registry.step, Registry.stepE, herr, RegSpec.step, hany, if_true, dirtyStep]
      exact ⟨hi, href, hfr⟩
    · refine ⟨Or.inl ⟨r, hok⟩, ?_⟩
      have hany : spec.any (fun o => lower o.name = lower s.name) = false := by
        rw [← href, any_clear, ← sget_isSome_iff]; simp [hnone]
      simp only [Registry.step, Registry.stepE, hok, RegSpec.step, hany, Bool.false_eq_true, if_false, dirtyStep]
      refine ⟨hir, by rw [hsv, ← href]; simp [Svc.clearMemo_idem], ?_⟩
      intro o ho hd
      rw [hsv] at ho
      rcases List.mem_append.mp ho with h1 | h1
      · exact hfr o h1 hd
      · have : o = s.clearMemo := by simpa using h1
        rw [this]; exact MemoOk.clear lower s
  | update s =>
    obtain ⟨r, hok, hir, hsv⟩ := Registry.update_spec lower reg hi s
    refine ⟨Or.inl ⟨r, hok⟩, ?_⟩
    simp only [Registry.step, Registry.stepE, hok, RegSpec.step, dirtyStep]
    refine ⟨hir, ?_, ?_⟩
    · rw [hsv, ← href]
      simp only [List.map_append, List.map_cons, List.map_nil, List.filter_map]
      rfl
    · intro o ho hd
      rw [hsv] at ho
      rcases List.mem_append.mp ho with h1 | h1
      · obtain ⟨h2, h3⟩ := List.mem_filter.mp h1
        apply hfr o h2
        intro hc
        apply hd
        rw [List.mem_filter]
        exact ⟨hc, by simpa using h3⟩
      · have : o = s.clearMemo := by simpa using h1
        rw [this]; exact MemoOk.clear lower s
  | unregister ks =>
    obtain ⟨r, hok, hir, hsv⟩ := Registry.remove_spec lower reg hi.distinct hi.types hi.servers ks
    refine ⟨Or.inl ⟨r, hok⟩, ?_⟩
    simp only [Registry.step, Registry.stepE, hok, RegSpec.step, dirtyStep]
    refine ⟨hir, ?_, ?_⟩
    · rw [hsv, ← href, List.filter_map]; rfl
    · intro o ho hd
      rw [hsv] at ho
      obtain ⟨h2, h3⟩ := List.mem_filter.mp ho
      apply hfr o h2
      intro hc
      apply hd
      rw [List.mem_filter]
      exact ⟨hc, h3⟩
  | mutate k m =>
    refine ⟨Or.inl ⟨_, rfl⟩, ?_⟩
    simp only [Registry.step, Registry.stepE, RegSpec.step, dirtyStep]
    refine ⟨Registry.mutate_spec lower reg hi k m, ?_, ?_⟩
    · rw [← href]
      simp only [Registry.mutate, List.map_map]
      apply List.map_congr_left
      intro o _
      by_cases e : lower o.name = k
      · simp [Function.comp_def, e, Svc.clearMemo_name, ← Svc.mutate_clear]
      · simp [Function.comp_def, e, Svc.clearMemo_name]
    · intro o ho hd
      simp only [Registry.mutate, List.mem_map] at ho
      obtain ⟨o', ho', rfl⟩ := ho
      by_cases e : lower o'.name = k
      · exfalso; apply hd; simp [e, Svc.mutate_name]
      · simp only [e, if_false] at hd ⊢
        exact hfr o' ho' (fun hc => hd (List.mem_cons_of_mem _ hc))
  | query msgs =>
    rcases respond_ok lower ettl hi msgs with ⟨_, hr⟩ | ⟨_, hr⟩
    · refine ⟨Or.inl ⟨reg, by simp [Registry.stepE, hr]⟩, ?_⟩
      simp only [Registry.step, Registry.stepE, hr, RegSpec.step, dirtyStep]
      exact ⟨hi, href, hfr⟩
    · refine ⟨Or.inl ⟨warmed lower reg msgs, by simp [Registry.stepE, hr]⟩, ?_⟩
      simp only [Registry.step, Registry.stepE, hr, RegSpec.step, dirtyStep]
      refine ⟨warmed_inv lower hi msgs, by rw [warmed_fields, href], ?_⟩
      intro o ho hd
      exact warmed_memo lower msgs (lower o.name) (fun s hs hk => hfr s hs (by rw [hk]; exact hd)) o ho rfl

theorem run_spec_aux (ops : List RegOp) {reg : Registry} {spec : List Svc} {d : List String} (h : HistInv lower reg spec d) :
    HistInv lower (ops.foldl (Registry.step lower ettl) reg) (ops.foldl (RegSpec.step lower) spec) (ops.foldl (dirtyStep lower) d) := by
  induction ops generalizing reg spec d with
  | nil => exact h
  | cons op r ih => simp only [List.foldl_cons]; exact ih (step_spec lower ettl h op).2

theorem run_spec (ops : List RegOp) :
    HistInv lower (Registry.run lower ettl ops) (RegSpec.run lower ops) (dirty lower ops) :=
  run_spec_aux lower ettl ops ⟨IndexInv.empty lower, rfl, fun s hs => by simp at hs⟩


/-! the specification predicates only read the fields of the services, never the memo slots -/

theorem RespSpec.candidates_clear (s : Svc) (q : Question) :
    RespSpec.candidates lower ettl s.clearMemo q = RespSpec.candidates lower ettl s q := rfl

theorem RespSpec.candidatesS_clear (s : Svc) (q : Question) :
    RespSpec.candidatesS lower ettl s.clearMemo q = RespSpec.candidatesS lower ettl s q := rfl

theorem RespSpec.preds_clear (svcs : List Svc) (qs : List Question) (known : List Rec) :
    (∀ a, RespSpec.soundAnswer lower ettl (svcs.map Svc.clearMemo) qs known a = RespSpec.soundAnswer lower ettl svcs qs known a)
    ∧ (∀ off, RespSpec.completePerService lower ettl (svcs.map Svc.clearMemo) qs known off = RespSpec.completePerService lower ettl svcs qs known off)
    ∧ (∀ p, RespSpec.additionalsOk lower ettl (svcs.map Svc.clearMemo) p = RespSpec.additionalsOk lower ettl svcs p) := by
  refine ⟨fun a => ?_, fun off => ?_, fun p => ?_⟩
  · simp only [RespSpec.soundAnswer, List.any_map, Function.comp_def, RespSpec.candidatesS_clear]
  · simp only [RespSpec.completePerService, List.all_map, Function.comp_def, RespSpec.candidates_clear]
  · simp only [RespSpec.additionalsOk, List.any_map, Function.comp_def]
    rfl


/-- the per-service completeness the implementation has implies the property's (which owes fewer NSECs) -/
theorem RespSpec.complete_of_perService (svcs : List Svc) (qs : List Question) (known off : List Rec)
    (h : RespSpec.completePerService lower ettl svcs qs known off = true) : RespSpec.complete lower ettl svcs qs known off = true := by
  unfold RespSpec.completePerService at h
  unfold RespSpec.complete
  simp only [List.all_eq_true] at h ⊢
  intro q hq s hs r hr
  have h1 := h q hq s hs r hr
  rw [Bool.or_eq_true] at h1 ⊢
  rcases h1 with h2 | h2
  · left; rw [Bool.or_eq_true]; right; exact h2
  · right; exact h2

end
end Zc
