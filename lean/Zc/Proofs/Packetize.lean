import Zc.Proofs.Responder
/-! `_add_answers_additionals` (C03): the additional section is drawn from the additionals of the answers,
never repeats an answer and never lists a record twice; the answer section is the key set. -/
namespace Zc

section
variable (lower : String → String)

theorem distinctIds_append_single (acc : List Rec) (x : Rec) :
    RespSpec.distinctIds lower (acc ++ [x]) = true ↔
      RespSpec.distinctIds lower acc = true ∧ ∀ o ∈ acc, x.beq lower o = false := by
  induction acc with
  | nil => simp [RespSpec.distinctIds]
  | cons o r ih =>
    simp only [List.cons_append, RespSpec.distinctIds, Bool.and_eq_true, Bool.not_eq_true', List.any_append, List.any_cons,
      List.any_nil, Bool.or_false, Bool.or_eq_false_iff, ih, List.mem_cons, forall_eq_or_imp]
    constructor
    · rintro ⟨⟨h1, h2⟩, h3, h4⟩; exact ⟨⟨h1, h3⟩, h2, h4⟩
    · rintro ⟨⟨h1, h3⟩, h2, h4⟩; exact ⟨⟨h1, h2⟩, h3, h4⟩

/-- invariant of the additional-section accumulator -/
structure PackInv (d : DictRS) (keys acc : List Rec) : Prop where
  src : ∀ x ∈ acc, ∃ p ∈ d, x ∈ p.2
  nokey : ∀ x ∈ acc, ∀ a ∈ keys, a.beq lower x = false
  distinct : RespSpec.distinctIds lower acc = true

theorem PackInv.step {d : DictRS} {keys acc : List Rec} (h : PackInv lower d keys acc) {p : Rec × List Rec} (hp : p ∈ d)
    {x : Rec} (hx : x ∈ p.2) : PackInv lower d keys (addAdditional lower keys acc x) := by
  unfold addAdditional
  cases e : (keys ++ acc).any (fun o => o.beq lower x) with
  | true => simpa using h
  | false =>
    simp only [Bool.false_eq_true, if_false]
    rw [List.any_eq_false] at e
    refine ⟨?_, ?_, ?_⟩
    · intro y hy
      rcases List.mem_append.mp hy with h1 | h1
      · exact h.src y h1
      · have : y = x := by simpa using h1
        exact ⟨p, hp, by rw [this]; exact hx⟩
    · intro y hy a ha
      rcases List.mem_append.mp hy with h1 | h1
      · exact h.nokey y h1 a ha
      · have : y = x := by simpa using h1
        rw [this]
        simpa using e a (List.mem_append.mpr (Or.inl ha))
    · rw [distinctIds_append_single]
      refine ⟨h.distinct, ?_⟩
      intro o ho
      have h1 : ¬ (o.beq lower x = true) := e o (List.mem_append.mpr (Or.inr ho))
      cases h2 : x.beq lower o with
      | false => rfl
      | true => exact absurd (beq_symm lower h2) h1

theorem PackInv.inner {d : DictRS} {keys : List Rec} {p : Rec × List Rec} (hp : p ∈ d) (l : List Rec) (hl : ∀ x ∈ l, x ∈ p.2)
    {acc : List Rec} (h : PackInv lower d keys acc) : PackInv lower d keys (l.foldl (addAdditional lower keys) acc) := by
  induction l generalizing acc with
  | nil => exact h
  | cons x r ih =>
    simp only [List.foldl_cons]
    exact ih (fun y hy => hl y (by simp [hy])) (h.step lower hp (hl x (by simp)))

theorem PackInv.outer {d : DictRS} {keys : List Rec} (ps : List (Rec × List Rec)) (hps : ∀ p ∈ ps, p ∈ d)
    {acc : List Rec} (h : PackInv lower d keys acc) :
    PackInv lower d keys (ps.foldl (fun acc p => p.2.foldl (addAdditional lower keys) acc) acc) := by
  induction ps generalizing acc with
  | nil => exact h
  | cons p r ih =>
    simp only [List.foldl_cons]
    exact ih (fun q hq => hps q (by simp [hq])) (PackInv.inner lower (hps p (by simp)) p.2 (fun x hx => hx) h)

theorem packetize_inv (d : DictRS) : PackInv lower d (keysOf d) (packetize lower d).2 := by
  unfold packetize
  simp only
  apply PackInv.outer
  · intro p hp
    exact (List.mergeSort_perm d _).mem_iff.mp hp
  · exact ⟨by simp, by simp, rfl⟩

theorem packetize_answers (d : DictRS) : (packetize lower d).1.Perm (keysOf d) := by
  unfold packetize keysOf
  simp only
  exact (List.mergeSort_perm d _).map _

end
end Zc
