import Zc.Model.SurviveTimers
import Zc.Proofs.SurviveLive
/-! Safety of what the timer blocks hand to the encoder (C15): cached records of the types the query
builders ask for, converted back to wire form, are `RecSafe`; the questions they ask are `QSafe`;
hence every message they build is `MsgSafe` and `packets()` returns (`packets_total`). -/
namespace Zc.Survive.Comp
open Zc Zc.Wire Zc.Survive

/-- the text, written back by `write_name`, is a safe name for the encoder -/
def NameTextSafe (s : String) : Prop := NameSafe (labelsOfText s)

theorem fromWire_safe (glue : TextGlue) {s : String} (h : NameFromWire s) : NameTextSafe s := by
  obtain ⟨n, hok, hlen, rfl⟩ := h
  unfold NameTextSafe
  rw [glue n]
  exact ⟨reencName_short n hok, reencName_wire n hlen⟩

/-- remaining-TTL field of a record created not later than `now` -/
theorem wireTtl_lt (r : Encode.ERecord) (now : Ms) (httl : r.ttl < 4294967296) (hc : r.created ≤ now) :
    Encode.wireTtl r now < 4294967296 := by
  have key : ∀ (c n : Int) (t : Nat), c ≤ n → t < 4294967296 → ¬ (c + 1000 * (t : Int) - n < 0) →
      ((c + 1000 * (t : Int) - n) / 1000).toNat < 4294967296 := by
    intro c n t h1 h2 h3; omega
  unfold Encode.wireTtl
  split
  · exact httl
  · split
    · decide
    · rename_i h3
      exact key _ _ _ hc httl h3

/-- **a cached record of a type the query builders ask for is safe to encode**: names from the `names`
clause (through the text glue), numbers from the `fields` clause, remaining TTL from the clock -/
theorem cached_recSafe (glue : TextGlue) {r : Rec} (hn : RecNamesOK r) (hf : RecFieldsOK r)
    (h13 : r.type ≠ 13) (h47 : r.type ≠ 47) (now : Ms) (hc : r.created ≤ now) : RecSafe (wireOfRec r) now := by
  obtain ⟨hn1, hn2⟩ := hn
  obtain ⟨ht, hcl, httl, hnum, hk1, hk2⟩ := hf
  refine ⟨fromWire_safe glue hn1, ht, hcl, wireTtl_lt _ now httl hc, ?_⟩
  unfold wireOfRec
  cases hrd : r.rdata with
  | addr a sc => rw [hrd] at hnum; exact hnum
  | txt t => rw [hrd] at hnum; exact hnum
  | hinfo c o => exact absurd (hk1 (by rw [hrd]; rfl)) h13
  | nsec n ts => exact absurd (hk2 (by rw [hrd]; rfl)) h47
  | ptr a => rw [hrd] at hn2; exact fromWire_safe glue hn2
  | srv p w q t =>
    rw [hrd] at hn2 hnum
    exact ⟨hnum.1, hnum.2.1, hnum.2.2, fromWire_safe glue hn2⟩

/-! ### every record object of the cache, as a list -/

theorem allRecs_mem {c : Cache} {r : Rec} (h : r ∈ c.allRecs) : ∃ kb ∈ c.cache, r ∈ kb.2 := by
  unfold Cache.allRecs at h
  exact List.mem_flatMap.mp h

/-- what `CInv` says of one cached record object -/
theorem cached_ok {lower : String → String} {ettl : Nat} {ρ : Type} {Iρ : ρ → Prop} {d : CState ρ}
    (hI : CInv lower ettl Iρ d) {r : Rec} (h : r ∈ d.cache.allRecs) : RecNamesOK r ∧ RecFieldsOK r := by
  obtain ⟨kb, hkb, hr⟩ := allRecs_mem h
  exact ⟨hI.names.1 kb hkb r hr, hI.fields.1 kb hkb r hr⟩

/-! ### the browsers' query -/

section
variable (lower : String → String)

/-- one question of a service query: a PTR question for one of the types, its wire answers cached pointers -/
def QOutOK (c : List Rec) (types : List String) (o : QueryGen.QOut) : Prop :=
  o.q.name ∈ types ∧ o.q.type = Gen.typePtr ∧ o.q.class_ = Gen.classIn ∧
    ∀ x ∈ o.wire, x.1 ∈ c ∧ x.1.type = Gen.typePtr

theorem knownAnswers_mem {c : List Rec} {name : String} {ty cls : Nat} {now : Int} {r : Rec}
    (h : r ∈ QueryGen.knownAnswers lower c name ty cls now) : r ∈ c ∧ r.type = ty := by
  unfold QueryGen.knownAnswers QueryGen.matching at h
  have h1 := (List.mem_filter.mp h).1
  have h2 := List.mem_filter.mp h1
  refine ⟨h2.1, ?_⟩
  have := h2.2
  simp only [Bool.and_eq_true, beq_iff_eq] at this
  exact this.1.2

theorem wire_mem {t : Int} {known : List Rec} {x : Rec × Nat} (h : x ∈ known.filterMap (QueryGen.wireAnswerAt t)) : x.1 ∈ known := by
  obtain ⟨r, hr, hx⟩ := List.mem_filterMap.mp h
  unfold QueryGen.wireAnswerAt at hx
  split at hx
  · simp at hx; rw [← hx]; exact hr
  · simp at hx

theorem askType_ok (c : List Rec) (h : QueryGen.History) (now : Int) (qu : Bool) (ty : String) (types : List String) (hty : ty ∈ types) :
    ∀ o, (QueryGen.askType lower c h now qu ty).1 = some o → QOutOK c types o := by
  intro o ho
  unfold QueryGen.askType at ho
  dsimp only at ho
  split at ho
  · simp at ho
  · simp only [Option.some.injEq] at ho
    subst ho
    refine ⟨hty, rfl, rfl, ?_⟩
    intro x hx
    exact knownAnswers_mem lower (wire_mem hx)

theorem serviceQuery_ok (c : List Rec) (now : Int) (qu : Bool) (types : List String) :
    ∀ (ts : List String) (h : QueryGen.History), (∀ t ∈ ts, t ∈ types) →
      ∀ o ∈ (QueryGen.serviceQuery lower c now qu ts h).1, QOutOK c types o := by
  intro ts
  induction ts with
  | nil => intro h _ o ho; simp [QueryGen.serviceQuery] at ho
  | cons ty rest ih =>
    intro h hts o ho
    unfold QueryGen.serviceQuery at ho
    have ha := askType_ok lower c h now qu ty types (hts ty List.mem_cons_self)
    generalize QueryGen.askType lower c h now qu ty = r at ho ha
    obtain ⟨oo, h1⟩ := r
    cases oo with
    | none => exact ih h1 (fun t ht => hts t (List.mem_cons_of_mem _ ht)) o ho
    | some o1 =>
      simp only [List.mem_cons] at ho
      rcases ho with rfl | ho
      · exact ha _ rfl
      · exact ih h1 (fun t ht => hts t (List.mem_cons_of_mem _ ht)) o ho

theorem place_items (maxSize : Nat) (it : Nat × QueryGen.QOut) : ∀ (bs : List QueryGen.Bucket) (b : QueryGen.Bucket),
    b ∈ QueryGen.place maxSize it bs → ∀ x ∈ b.items, x = it ∨ ∃ b0 ∈ bs, x ∈ b0.items := by
  intro bs
  induction bs with
  | nil =>
    intro b hb x hx
    simp [QueryGen.place] at hb
    subst hb
    simp at hx
    exact Or.inl hx
  | cons b0 rest ih =>
    intro b hb x hx
    unfold QueryGen.place at hb
    split at hb
    · simp only [List.mem_cons] at hb
      rcases hb with rfl | hb
      · simp only [List.mem_append, List.mem_singleton] at hx
        rcases hx with hx | hx
        · exact Or.inr ⟨b0, List.mem_cons_self, hx⟩
        · exact Or.inl hx
      · exact Or.inr ⟨b, List.mem_cons_of_mem _ hb, hx⟩
    · simp only [List.mem_cons] at hb
      rcases hb with rfl | hb
      · exact Or.inr ⟨b, List.mem_cons_self, hx⟩
      · rcases ih b hb x hx with h | ⟨b1, hb1, hx1⟩
        · exact Or.inl h
        · exact Or.inr ⟨b1, List.mem_cons_of_mem _ hb1, hx1⟩

theorem group_items (maxSize : Nat) : ∀ (items : List (Nat × QueryGen.QOut)) (bs : List QueryGen.Bucket),
    ∀ b ∈ items.foldl (fun bs it => QueryGen.place maxSize it bs) bs, ∀ x ∈ b.items, x ∈ items ∨ ∃ b0 ∈ bs, x ∈ b0.items := by
  intro items
  induction items with
  | nil => intro bs b hb x hx; exact Or.inr ⟨b, hb, hx⟩
  | cons it rest ih =>
    intro bs b hb x hx
    simp only [List.foldl_cons] at hb
    rcases ih _ b hb x hx with h | ⟨b0, hb0, hx0⟩
    · exact Or.inl (List.mem_cons_of_mem _ h)
    · rcases place_items maxSize it bs b0 hb0 x hx0 with h | h
      · exact Or.inl (by rw [h]; exact List.mem_cons_self)
      · exact Or.inr h

end

/-- the browsed types are names the encoder accepts (what `service_type_name` validation at browser
construction is for): a data invariant of the schedulers' configurations -/
def TypesSafe (types : List String) : Prop := ∀ t ∈ types, NameTextSafe t

theorem eqOf_safe {q : Question} (hn : NameTextSafe q.name) (ht : q.type < 65536) (hc : q.class_ < 32768) : QSafe (eqOf q) :=
  ⟨hn, ht, hc⟩

/-- a bucket of OK questions over a cache whose records are safe is a safe message -/
theorem bucketMsg_safe (glue : TextGlue) (c : List Rec) (types : List String) (hts : TypesSafe types)
    (now : Ms) (hrec : ∀ r ∈ c, RecNamesOK r ∧ RecFieldsOK r) (hclock : ∀ r ∈ c, r.created ≤ QueryGen.browserAnswerTime now)
    (b : QueryGen.Bucket) (hb : ∀ it ∈ b.items, QOutOK c types it.2) : MsgSafe (bucketMsg now b) := by
  refine ⟨by show Gen.flagsQrQuery < 65536; decide, by show (0 : Nat) < 65536; decide, ?_, ?_, by intro r hr; simp [bucketMsg] at hr, by intro r hr; simp [bucketMsg] at hr⟩
  · intro q hq
    simp only [bucketMsg, List.mem_map] at hq
    obtain ⟨it, hit, rfl⟩ := hq
    obtain ⟨h1, h2, h3, _⟩ := hb it hit
    exact eqOf_safe (hts _ h1) (by rw [h2]; decide) (by rw [h3]; decide)
  · intro x hx
    simp only [bucketMsg, List.mem_flatMap, List.mem_map] at hx
    obtain ⟨it, hit, y, hy, rfl⟩ := hx
    obtain ⟨_, _, _, hw⟩ := hb it hit
    obtain ⟨hmem, hty⟩ := hw y hy
    obtain ⟨hn, hf⟩ := hrec _ hmem
    exact cached_recSafe glue hn hf (by rw [hty]; decide) (by rw [hty]; decide) _ (hclock _ hmem)

theorem encodeAll_total : ∀ (ms : List Encode.Msg), (∀ m ∈ ms, MsgSafe m) → ∃ pks, encodeAll ms = .ok pks := by
  intro ms
  induction ms with
  | nil => intro _; exact ⟨[], rfl⟩
  | cons m rest ih =>
    intro h
    obtain ⟨pk, hpk⟩ := packets_total m (h m List.mem_cons_self)
    obtain ⟨pks, hpks⟩ := ih (fun x hx => h x (List.mem_cons_of_mem _ hx))
    exact ⟨pk :: pks, by simp only [encodeAll, hpk, hpks]⟩

/-- the messages of one `Send` whose types are safe names are safe -/
theorem sendMsgs_safe (lower : String → String) (sz : QueryGen.QOut → Nat) (glue : TextGlue) (c : Cache) (now : Ms)
    (h : QueryGen.History) (snd : Sched.Send) (hts : TypesSafe snd.types)
    (hrec : ∀ r ∈ c.allRecs, RecNamesOK r ∧ RecFieldsOK r) (hclock : ∀ r ∈ c.allRecs, r.created ≤ QueryGen.browserAnswerTime now) :
    ∀ m ∈ (sendMsgs lower sz c now h snd).1, MsgSafe m := by
  intro m hm
  simp only [sendMsgs, List.mem_map] at hm
  obtain ⟨b, hb, rfl⟩ := hm
  apply bucketMsg_safe glue c.allRecs snd.types hts now hrec hclock b
  intro it hit
  unfold QueryGen.group at hb
  rcases group_items _ _ [] b hb it hit with h1 | ⟨b0, hb0, _⟩
  · obtain ⟨o, ho, rfl⟩ := List.mem_map.mp h1
    exact serviceQuery_ok lower c.allRecs now _ snd.types snd.types h (fun t ht => ht) o ho
  · simp at hb0

/-! ### the lookups' query -/

theorem lookup_known_mem (lower : String → String) {c : List Rec} {now : Int} {name : String} {ty : Nat} {r : Rec}
    (h : r ∈ Lookup.knownAnswers lower c now name ty) : r ∈ c ∧ r.type = ty := by
  unfold Lookup.knownAnswers Lookup.getAll at h
  have h2 := List.mem_filter.mp (List.mem_filter.mp h).1
  refine ⟨h2.1, ?_⟩
  have := h2.2
  unfold Lookup.matchDetails at this
  simp only [Bool.and_eq_true, beq_iff_eq] at this
  exact this.1.2.symm

/-- one question of a lookup query -/
def LQOK (c : List Rec) (names : List String) (x : Question × List Rec) : Prop :=
  x.1.name ∈ names ∧ x.1.type ∈ [Gen.typeSrv, Gen.typeTxt, Gen.typeA, Gen.typeAaaa] ∧ x.1.class_ = Gen.classIn ∧
    ∀ r ∈ x.2, r ∈ c ∧ r.type = x.1.type

theorem addQuestion_ok (lower : String → String) (c : List Rec) (h : Lookup.Hist) (now : Int) (name : String) (ty : Nat) (skip qu : Bool)
    (names : List String) (hn : name ∈ names) (hty : ty ∈ [Gen.typeSrv, Gen.typeTxt, Gen.typeA, Gen.typeAaaa]) :
    ∀ x, Lookup.addQuestion lower c h now name ty skip qu = some x → LQOK c names x := by
  intro x hx
  unfold Lookup.addQuestion at hx
  dsimp only at hx
  have fin : LQOK c names (⟨name, ty, Gen.classIn, qu⟩, Lookup.knownAnswers lower c now name ty) :=
    ⟨hn, hty, rfl, fun r hr => lookup_known_mem lower hr⟩
  split at hx
  · simp at hx
  · split at hx
    · simp at hx; rw [← hx]; exact fin
    · split at hx
      · simp at hx
      · simp at hx; rw [← hx]; exact fin

theorem genQuery_ok (lower : String → String) (c : List Rec) (h : Lookup.Hist) (now : Int) (i : Lookup.Info) (qu : Bool) :
    ∀ x ∈ Lookup.genQuery lower c h now i qu, LQOK c [i.name, i.serverOrName] x := by
  intro x hx
  unfold Lookup.genQuery at hx
  simp only [List.filterMap_cons, List.filterMap_nil] at hx
  have a1 := addQuestion_ok lower c h now i.name Gen.typeSrv true qu [i.name, i.serverOrName] (by simp) (by simp)
  have a2 := addQuestion_ok lower c h now i.name Gen.typeTxt true qu [i.name, i.serverOrName] (by simp) (by simp)
  have a3 := addQuestion_ok lower c h now i.serverOrName Gen.typeA false qu [i.name, i.serverOrName] (by simp) (by simp)
  have a4 := addQuestion_ok lower c h now i.serverOrName Gen.typeAaaa false qu [i.name, i.serverOrName] (by simp) (by simp)
  generalize Lookup.addQuestion lower c h now i.name Gen.typeSrv true qu = q1 at hx a1
  generalize Lookup.addQuestion lower c h now i.name Gen.typeTxt true qu = q2 at hx a2
  generalize Lookup.addQuestion lower c h now i.serverOrName Gen.typeA false qu = q3 at hx a3
  generalize Lookup.addQuestion lower c h now i.serverOrName Gen.typeAaaa false qu = q4 at hx a4
  cases q1 <;> cases q2 <;> cases q3 <;> cases q4 <;> simp at hx <;>
    (try rcases hx with rfl | rfl | rfl | rfl) <;> (try rcases hx with rfl | rfl | rfl) <;> (try rcases hx with rfl | rfl) <;>
    (try subst hx) <;> first | exact a1 _ rfl | exact a2 _ rfl | exact a3 _ rfl | exact a4 _ rfl

theorem lookupMsg_safe (glue : TextGlue) (c : List Rec) (names : List String) (hns : ∀ n ∈ names, NameTextSafe n) (now : Ms)
    (hrec : ∀ r ∈ c, RecNamesOK r ∧ RecFieldsOK r) (hclock : ∀ r ∈ c, r.created ≤ QueryGen.lookupAnswerTime now)
    (qs : List (Question × List Rec)) (hq : ∀ x ∈ qs, LQOK c names x) : MsgSafe (lookupMsg now qs) := by
  refine ⟨by show Gen.flagsQrQuery < 65536; decide, by show (0 : Nat) < 65536; decide, ?_, ?_, by intro r hr; simp [lookupMsg] at hr, by intro r hr; simp [lookupMsg] at hr⟩
  · intro q hq'
    simp only [lookupMsg, List.mem_map] at hq'
    obtain ⟨x, hx, rfl⟩ := hq'
    obtain ⟨h1, h2, h3, _⟩ := hq x hx
    refine eqOf_safe (hns _ h1) ?_ (by rw [h3]; decide)
    simp only [List.mem_cons, List.not_mem_nil, or_false] at h2
    rcases h2 with h | h | h | h <;> rw [h] <;> decide
  · intro y hy
    simp only [lookupMsg, List.mem_flatMap, List.mem_map] at hy
    obtain ⟨x, hx, r, hr, rfl⟩ := hy
    obtain ⟨_, h2, _, hw⟩ := hq x hx
    obtain ⟨hmem, hty⟩ := hw r hr
    obtain ⟨hn, hf⟩ := hrec _ hmem
    have hne : r.type ≠ 13 ∧ r.type ≠ 47 := by
      rw [hty]
      simp only [List.mem_cons, List.not_mem_nil, or_false] at h2
      rcases h2 with h | h | h | h <;> rw [h] <;> decide
    exact cached_recSafe glue hn hf hne.1 hne.2 _ (hclock _ hmem)

end Zc.Survive.Comp
