import Zc.Proofs.SurviveDecode
import Zc.Proofs.SurviveFields
import Zc.Proofs.SurviveEncode
import Zc.Proofs.Listener
/-! Host-level lemmas for C15: the invariant of the listener part of the host (`TimerInv`, every
deferred packet is a decoder product) is preserved by `recv` and `tcFire`, and under it neither
block can raise unless an uninterpreted component does. -/
namespace Zc.Survive
open Zc Zc.Wire Zc.Wire.DecodeLib
open Zc.Listener (Addr alGet alErase alSet TcTimer alGet_alSet alGet_alErase_self)

variable {σ ω : Type}

/-! ### association lists -/

theorem alGet_alSet_ne {α} {k k' : Addr} (v : α) (l : List (Addr × α)) (h : k' ≠ k) :
    alGet k' (alSet k v l) = alGet k' l := by
  induction l with
  | nil => simp [alSet, alGet, Ne.symm h]
  | cons p r ih =>
    obtain ⟨k2, v2⟩ := p
    by_cases h2 : k2 = k
    · subst h2
      simp [alSet, alGet, Ne.symm h]
    · by_cases h3 : k2 = k'
      · subst h3
        simp [alSet, alGet, h]
      · simp [alSet, alGet, h2, h3, ih]

theorem alGet_alErase_ne {α} {k k' : Addr} (l : List (Addr × α)) (h : k' ≠ k) :
    alGet k' (alErase k l) = alGet k' l := by
  induction l with
  | nil => simp [alErase, alGet]
  | cons p r ih =>
    obtain ⟨k2, v2⟩ := p
    by_cases h2 : k2 = k
    · subst h2
      have : alGet k' (alErase k2 r) = alGet k' r := ih
      simpa [alErase, List.filter, alGet, Ne.symm h] using this
    · have : alGet k' (alErase k r) = alGet k' r := ih
      by_cases h3 : k2 = k'
      · subst h3
        simp [alErase, List.filter, alGet, h]
      · simpa [alErase, List.filter, alGet, h2, h3] using this

theorem alGet_append_single {α} {k k' : Addr} (v : α) (l : List (Addr × α)) :
    alGet k' (l ++ [(k, v)]) = match alGet k' l with | some x => some x | none => if k = k' then some v else none := by
  induction l with
  | nil => simp [alGet]
  | cons p r ih =>
    obtain ⟨k2, v2⟩ := p
    by_cases h2 : k2 = k'
    · simp [alGet, h2]
    · simpa [alGet, h2] using ih

theorem alGet_mem {α} {k : Addr} {v : α} {l : List (Addr × α)} (h : alGet k l = some v) : (k, v) ∈ l := by
  induction l with
  | nil => simp [alGet] at h
  | cons p r ih =>
    obtain ⟨k2, v2⟩ := p
    by_cases h2 : k2 = k
    · simp [alGet, h2] at h
      subst h; subst h2
      exact List.mem_cons_self
    · simp [alGet, h2] at h
      exact List.mem_cons_of_mem _ (ih h)

theorem mem_alErase {α} {k : Addr} {p : Addr × α} {l : List (Addr × α)} (h : p ∈ alErase k l) : p ∈ l := by
  unfold alErase at h
  exact (List.mem_filter.mp h).1

theorem mem_alSet {α} {k : Addr} {v : α} {p : Addr × α} {l : List (Addr × α)} (h : p ∈ alSet k v l) :
    p = (k, v) ∨ p ∈ l := by
  induction l with
  | nil => simp [alSet] at h; exact Or.inl h
  | cons q r ih =>
    obtain ⟨k2, v2⟩ := q
    by_cases h2 : k2 = k
    · simp [alSet, h2] at h
      rcases h with h | h
      · exact Or.inl h
      · exact Or.inr (List.mem_cons_of_mem _ h)
    · simp [alSet, h2] at h
      rcases h with h | h
      · exact Or.inr (by rw [h]; exact List.mem_cons_self)
      · rcases ih h with h | h
        · exact Or.inl h
        · exact Or.inr (List.mem_cons_of_mem _ h)

/-! ### packets the decoder can have produced -/

/-- `answers()` did not raise, every name can be written back and is at most 253 characters long,
the message id and the question types are 16-bit numbers -/
def PktOK (k : Pkt) : Prop :=
  k.lazyErr = none ∧ encodable k.p = true ∧ DecodeSpec.namesShort k.p = true ∧ k.p.hdr.id < 65536 ∧
    (∀ q ∈ k.p.questions, q.qtype < 65536) ∧ k.data.length ≤ 8966 ∧ ∀ w ∈ k.p.records, WRecOK k.data.length w

/-- every deferred packet is a decoder product -/
def DefOK (s : State σ) : Prop := ∀ p ∈ s.deferred, ∀ k ∈ p.2, PktOK k

/-- the listener part of the host invariant -/
structure LInv (s : State σ) : Prop where
  timer : TimerInv s
  deferred : DefOK s

theorem LInv.congr {s s' : State σ} (h1 : s'.timers = s.timers) (h2 : s'.deferred = s.deferred) (h : LInv s) : LInv s' := by
  refine ⟨?_, ?_⟩
  · intro a t ht
    rw [h1] at ht
    rw [h2]
    exact h.timer a t ht
  · intro p hp
    rw [h2] at hp
    exact h.deferred p hp

theorem LInv.init (d : σ) : LInv (State.init d) :=
  ⟨by intro a t h; simp [State.init, alGet] at h, by intro p hp; simp [State.init] at hp⟩

/-! ### the header id is read from two bytes -/

theorem byteAt_lt {buf : Bytes} {i v : Nat} (h : byteAt buf i = .ok v) : v < 256 := by
  unfold byteAt at h
  split at h
  · rename_i b _
    simp at h; subst h
    exact b.toNat_lt
  · simp at h

theorem two_ok {buf : Bytes} {i j : Nat} {f : Nat → Nat → Nat} {v : Nat} (h : two buf i j f = .ok v) :
    ∃ a b, a < 256 ∧ b < 256 ∧ v = f a b := by
  unfold two at h
  cases ha : byteAt buf i with
  | error e => rw [ha] at h; simp [bind, Except.bind] at h
  | ok a =>
    cases hb : byteAt buf j with
    | error e => rw [ha, hb] at h; simp [bind, Except.bind] at h
    | ok b =>
      rw [ha, hb] at h
      simp [bind, Except.bind, pure, Except.pure] at h
      exact ⟨a, b, byteAt_lt ha, byteAt_lt hb, h.symm⟩

theorem readHeader_id (buf : Bytes) (st : St) : (readHeader buf st).2.1.id < 65536 := by
  unfold readHeader
  dsimp only
  split
  · simp
  · rename_i v hv
    obtain ⟨a, b, ha, hb, rfl⟩ := two_ok hv
    have hid : Gen.Incoming.hdr_id a b < 65536 := by
      rw [GenFacts.Incoming.hdr_id_eq a b hb]; omega
    repeat' split
    all_goals exact hid

theorem others_hdr (cfg : Cfg) (buf : Bytes) (h : Hdr) (qs : List WQuestion) (st : St) (v1 v2 v3 : Bool) :
    ∀ p, (others cfg buf h qs st v1 v2 v3).parsed? = some p → p.hdr = h := by
  unfold others
  dsimp only
  split
  · intro p hp; simp [Run.parsed?] at hp; subst hp; rfl
  · split
    · intro p hp; simp [Run.parsed?] at hp; subst hp; rfl
    · split
      · intro p hp; simp [Run.parsed?] at hp
      · intro p hp; simp [Run.parsed?] at hp; subst hp; rfl

theorem parseWith_id (cfg : Cfg) (buf : Bytes) : ∀ p, (parseWith cfg buf).parsed? = some p → p.hdr.id < 65536 := by
  intro p hp
  have hid := readHeader_id buf {}
  unfold parseWith at hp
  dsimp only at hp
  repeat' split at hp
  all_goals first
    | (simp [Run.parsed?] at hp; done)
    | (rw [others_hdr _ _ _ _ _ _ _ _ p hp]; exact hid)

/-! ### question types are read from two bytes -/

theorem readQFixed_lt {buf : Bytes} {o t c : Nat} (h : readQFixed buf o = .ok (t, c)) : t < 65536 := by
  unfold readQFixed at h
  cases h1 : two buf o (o + 1) Gen.Incoming.q_type with
  | error e => rw [h1] at h; simp [bind, Except.bind] at h
  | ok t' =>
    cases h2 : two buf (o + 2) (o + 3) Gen.Incoming.q_class with
    | error e => rw [h1, h2] at h; simp [bind, Except.bind] at h
    | ok c' =>
      rw [h1, h2] at h
      simp [bind, Except.bind, pure, Except.pure] at h
      obtain ⟨a, b, ha, hb, rfl⟩ := two_ok h1
      rw [← h.1, GenFacts.Incoming.q_type_eq a b hb]
      omega

def QTypes (qs : List WQuestion) : Prop := ∀ q ∈ qs, q.qtype < 65536

theorem readQuestions_types (cfg : Cfg) (buf : Bytes) : ∀ (n : Nat) (st : St), QTypes (readQuestions cfg buf n st).2.1 := by
  intro n
  induction n with
  | zero => intro st; unfold readQuestions; simp [QTypes]
  | succ n ih =>
    intro st
    unfold readQuestions
    generalize readName cfg buf st = r
    obtain ⟨st1, res⟩ := r
    cases res with
    | error e => simp [QTypes]
    | ok name =>
      simp only []
      cases hq : readQFixed buf st1.off with
      | error e => simp [QTypes]
      | ok tc =>
        obtain ⟨t, c⟩ := tc
        simp only []
        intro q hq'
        simp only [List.mem_cons] at hq'
        rcases hq' with rfl | hq'
        · exact readQFixed_lt hq
        · exact ih _ q hq'

theorem others_questions (cfg : Cfg) (buf : Bytes) (h : Hdr) (qs : List WQuestion) (st : St) (v1 v2 v3 : Bool) :
    ∀ p, (others cfg buf h qs st v1 v2 v3).parsed? = some p → p.questions = qs := by
  unfold others
  dsimp only
  split
  · intro p hp; simp [Run.parsed?] at hp; subst hp; rfl
  · split
    · intro p hp; simp [Run.parsed?] at hp; subst hp; rfl
    · split
      · intro p hp; simp [Run.parsed?] at hp
      · intro p hp; simp [Run.parsed?] at hp; subst hp; rfl

theorem parseWith_qtypes (cfg : Cfg) (buf : Bytes) : ∀ p, (parseWith cfg buf).parsed? = some p → QTypes p.questions := by
  intro p hp
  have hq := readQuestions_types cfg buf (readHeader buf {}).2.1.nq (readHeader buf {}).1
  unfold parseWith at hp
  dsimp only at hp
  repeat' split at hp
  all_goals first
    | (simp [Run.parsed?] at hp; done)
    | (rw [others_questions _ _ _ _ _ _ _ _ p hp]; first | exact hq | (intro q hq'; simp at hq'))

/-- what `DNSIncoming(data)` gives the listener: always an object, never an exception (C02), and the
object is a decoder product in the sense of `PktOK` -/
theorem parse_pkt (data : Bytes) (now : Ms) (hlen : data.length ≤ 8966) :
    ∃ p, (parse data).out = .ok p ∧ PktOK ⟨data, now, p, none⟩ := by
  have hne := (parseWith_spec libCfg_ok data).noEscape
  have hshort := (parseWith_spec libCfg_ok data).short
  have henc := parseWith_encodable libCfg_enc data
  unfold parse
  unfold Run.escaped at hne
  cases ho : (parseWith libCfg data).out with
  | escapedInit e => rw [ho] at hne; simp at hne
  | escapedAnswers p e => rw [ho] at hne; simp at hne
  | ok p =>
    refine ⟨p, rfl, rfl, ?_, ?_, ?_, ?_, hlen, ?_⟩
    · exact henc p (by simp [Run.parsed?, ho])
    · exact hshort p (by simp [Run.parsed?, ho])
    · exact parseWith_id libCfg data p (by simp [Run.parsed?, ho])
    · exact parseWith_qtypes libCfg data p (by simp [Run.parsed?, ho])
    · exact parseWith_records libCfg data p (by simp [Run.parsed?, ho])

/-! ### what is assumed of the uninterpreted components -/

/-- **component obligation 1** — the record manager and every listener it calls accept every message
the decoder can produce, and keep the downstream invariant -/
def IngestOK (D : Down σ ω) (I : σ → Prop) : Prop :=
  ∀ d k, I d → PktOK k → ∃ d' o, D.ingest d k = .ok (d', o) ∧ I d'

/-- **component obligation 2** — the answer computation is total on decoder products, keeps the
invariant, and its answer sets satisfy `S` -/
def AnswerOK (D : Down σ ω) (I : σ → Prop) (S : QA → Prop) : Prop :=
  ∀ d ks u, I d → ks ≠ [] → (∀ k ∈ ks, PktOK k) →
    ∃ d' qa, D.answer d ks u = .ok (d', qa) ∧ I d' ∧ ∀ q, qa = some q → S q

/-- **component obligation 3** — queueing the aggregated answers keeps the invariant -/
def EnqueueOK (D : Down σ ω) (I : σ → Prop) : Prop :=
  ∀ d t q, I d → I (D.enqueue d t q).1

/-- Hypotheses on the downstream components, relative to an invariant `I` of their state and a
predicate `S` on the answer sets they hand to the encoder: the conjunction of the three component
obligations.  `Proofs/SurviveComp.lean` discharges them for the composition of the C03/C04/C05/C06
models, down to the residue named there. -/
structure DownOK (D : Down σ ω) (I : σ → Prop) (S : QA → Prop) : Prop where
  ingest : IngestOK D I
  answer : AnswerOK D I S
  enqueue : EnqueueOK D I

/-- `S`-answer sets can be sent: together with the echo of *any* questions of a decoder product
(legacy unicast) and on their own (multicast) the encoder returns datagrams -/
def SendOK (S : QA → Prop) : Prop :=
  ∀ q, S q → (∀ (u : Bool) (qs : List WQuestion) (id : Nat), (∀ x ∈ qs, QOK x) → id < 65536 →
      ∃ pk, Encode.packets (unicastMsg q.ucast u qs id) = .ok pk) ∧
    (∃ pk, Encode.packets (multicastMsg q.mcastNow) = .ok pk)

theorem questions_ok {k : Pkt} (h : PktOK k) : ∀ x ∈ k.p.questions, QOK x := by
  intro x hx
  obtain ⟨_, henc, hshort, _, hty, _⟩ := h
  have hmem : x.name ∈ DecodeSpec.namesOf k.p := by simp [DecodeSpec.namesOf]; exact Or.inl ⟨x, hx, rfl⟩
  simp only [encodable, List.all_eq_true] at henc
  simp only [DecodeSpec.namesShort, List.all_eq_true, decide_eq_true_eq] at hshort
  exact ⟨henc x.name hmem, hshort x.name hmem, hty x hx⟩

/-- **answer sets made of safe records can always be sent** (`packets_total`): `SendOK` is not an
assumption about the encoder but a data invariant of what the registry hands out -/
theorem sendOK_safe : SendOK QASafe := by
  intro q hq
  refine ⟨?_, ?_⟩
  · intro u qs id hqs hid
    exact packets_total _ (unicastMsg_safe q.ucast u qs id hq.1 hqs hid)
  · exact packets_total _ (multicastMsg_safe q.mcastNow hq.2)

/-- `handle_assembled_query` on a non-empty list of decoder products -/
theorem handleAssembled_ok {D : Down σ ω} {I : σ → Prop} {S : QA → Prop} (hD : DownOK D I S) (hS : SendOK S)
    (d : σ) (ks : List Pkt) (addr : Addr) (port : Nat) (hI : I d) (hne : ks ≠ []) (hk : ∀ k ∈ ks, PktOK k) :
    ∃ d' out, handleAssembled D d ks addr port = .ok (d', out) ∧ I d' := by
  cases ks with
  | nil => exact absurd rfl hne
  | cons first rest =>
    unfold handleAssembled
    obtain ⟨d1, qa, ha, hI1, hs⟩ := hD.answer d (first :: rest) (Gen.Listener.ucast_source port) hI hne hk
    simp only [ha]
    cases qa with
    | none => exact ⟨d1, [], rfl, hI1⟩
    | some q =>
      obtain ⟨hu, hm⟩ := hS q (hs q rfl)
      have hfirst := hk first List.mem_cons_self
      obtain ⟨pk1, hpk1⟩ := hu (Gen.Listener.ucast_source port) first.p.questions first.p.hdr.id
        (questions_ok hfirst) hfirst.2.2.2.1
      obtain ⟨pk2, hpk2⟩ := hm
      simp only [hpk1, hpk2, Except.map]
      have hI2 := hD.enqueue d1 first.now q hI1
      by_cases h1 : q.ucast.isEmpty = true <;> by_cases h2 : q.mcastNow.isEmpty = true <;>
        simp only [h1, h2, if_true, if_false, Bool.false_eq_true] <;> exact ⟨_, _, rfl, hI2⟩

/-! ### the blocks -/

theorem respond_ok {D : Down σ ω} {I : σ → Prop} {S : QA → Prop} (hD : DownOK D I S) (hS : SendOK S)
    (s : State σ) (msg : Option Pkt) (addr : Addr) (port : Nat) (hI : I s.down) (hL : LInv s)
    (hmsg : ∀ k, msg = some k → PktOK k)
    (hne : (alGet addr s.deferred).getD [] ++ msg.toList ≠ []) :
    ∃ s' out tag, respond D s msg addr port = .ok (s', out, tag) ∧ I s'.down ∧ LInv s' := by
  unfold respond
  dsimp only
  have hks : ∀ k ∈ (alGet addr s.deferred).getD [] ++ msg.toList, PktOK k := by
    intro k hk
    simp only [List.mem_append] at hk
    rcases hk with hk | hk
    · cases hg : alGet addr s.deferred with
      | none => rw [hg] at hk; simp at hk
      | some l =>
        rw [hg] at hk
        simp at hk
        exact hL.deferred _ (alGet_mem hg) k hk
    · cases msg with
      | none => simp at hk
      | some m => simp at hk; subst hk; exact hmsg _ rfl
  obtain ⟨d', out, hh, hI'⟩ := handleAssembled_ok hD hS s.down _ addr port hI hne hks
  rw [hh]
  refine ⟨_, _, _, rfl, hI', ⟨?_, ?_⟩⟩
  · intro a t ht
    simp only at ht ⊢
    by_cases ha : a = addr
    · subst ha; rw [alGet_alErase_self] at ht; simp at ht
    · rw [alGet_alErase_ne _ ha] at ht
      rw [alGet_alErase_ne _ ha]
      exact hL.timer a t ht
  · intro p hp
    exact hL.deferred p (mem_alErase hp)

theorem queryOrDefer_ok {D : Down σ ω} {I : σ → Prop} {S : QA → Prop} (hD : DownOK D I S) (hS : SendOK S)
    (s : State σ) (k : Pkt) (addr : Addr) (port draw : Nat) (hI : I s.down) (hL : LInv s) (hk : PktOK k) :
    ∃ s' out tag, queryOrDefer D s k addr port draw = .ok (s', out, tag) ∧ I s'.down ∧ LInv s' := by
  unfold queryOrDefer
  split
  · exact respond_ok hD hS s (some k) addr port hI hL (by intro k' h; simp at h; subst h; exact hk) (by simp)
  · dsimp only
    split
    · exact ⟨s, [], _, rfl, hI, hL⟩
    · refine ⟨_, _, _, rfl, hI, ⟨?_, ?_⟩⟩
      · intro a t ht
        simp only at ht ⊢
        by_cases ha : a = addr
        · subst ha
          rw [alGet_alSet]
          cases (alGet a s.deferred).getD [] with
          | nil => exact ⟨k, [], rfl⟩
          | cons x xs => exact ⟨x, xs ++ [k], rfl⟩
        · rw [alGet_append_single] at ht
          rw [alGet_alErase_ne _ ha] at ht
          rw [alGet_alSet_ne _ _ ha]
          cases hg : alGet a s.timers with
          | none => rw [hg] at ht; simp [Ne.symm ha] at ht
          | some t' => exact hL.timer a t' hg
      · intro p hp k' hk'
        simp only at hp
        rcases mem_alSet hp with rfl | hp
        · simp only [List.mem_append, List.mem_singleton] at hk'
          rcases hk' with hk' | rfl
          · cases hg : alGet addr s.deferred with
            | none => rw [hg] at hk'; simp at hk'
            | some l =>
              rw [hg] at hk'
              simp at hk'
              exact hL.deferred _ (alGet_mem hg) k' hk'
          · exact hk
        · exact hL.deferred p hp k' hk'

theorem process_ok {D : Down σ ω} {I : σ → Prop} {S : QA → Prop} (hD : DownOK D I S) (hS : SendOK S)
    (s : State σ) (data : Bytes) (addr : Addr) (port : Nat) (now : Ms) (draw : Nat) (hI : I s.down) (hL : LInv s)
    (hlen : data.length ≤ 8966) :
    ∃ s' out tag, process D s data addr port now draw = .ok (s', out, tag) ∧ I s'.down ∧ LInv s' := by
  obtain ⟨p, hp, hk⟩ := parse_pkt data now hlen
  unfold process
  rw [hp]
  dsimp only
  split
  · exact ⟨_, _, _, rfl, hI, LInv.congr (s := s) rfl rfl hL⟩
  · split
    · obtain ⟨d', o, hi, hI'⟩ := hD.ingest s.down ⟨data, now, p, none⟩ hI hk
      simp only [hi]
      exact ⟨_, _, _, rfl, hI', LInv.congr (s := s) rfl rfl hL⟩
    · split
      · exact ⟨_, _, _, rfl, hI, LInv.congr (s := s) rfl rfl hL⟩
      · exact queryOrDefer_ok hD hS _ _ addr port draw hI (LInv.congr (s := s) rfl rfl hL) hk

/-- **`datagram_received` under the invariant**: returns normally and re-establishes the invariant -/
theorem recv_ok {D : Down σ ω} {I : σ → Prop} {S : QA → Prop} (hD : DownOK D I S) (hS : SendOK S)
    (s : State σ) (data : Bytes) (addr : Addr) (port : Nat) (now : Ms) (draw : Nat) (hI : I s.down) (hL : LInv s) :
    ∃ s' out tag, recv D s data addr port now draw = .ok (s', out, tag) ∧ I s'.down ∧ LInv s' := by
  unfold recv
  split
  · exact ⟨s, [], _, rfl, hI, hL⟩
  · rename_i hov
    have hlen : data.length ≤ 8966 := by
      have := mt (GenFacts.Survive.oversize_iff (data.length : Int)).mpr hov
      omega
    split
    · exact ⟨s, [], _, rfl, hI, hL⟩
    · exact process_ok hD hS s data addr port now draw hI hL hlen

/-- **the deferred-query timer under the invariant**: `packets[0]` exists -/
theorem tcFire_ok {D : Down σ ω} {I : σ → Prop} {S : QA → Prop} (hD : DownOK D I S) (hS : SendOK S)
    (s : State σ) (addr : Addr) (t : TcTimer) (ht : alGet addr s.timers = some t) (hI : I s.down) (hL : LInv s) :
    ∃ s' out tag, tcFire D s addr = .ok (s', out, tag) ∧ I s'.down ∧ LInv s' := by
  unfold tcFire
  rw [ht]
  obtain ⟨p, ps, hd⟩ := hL.timer addr t ht
  exact respond_ok hD hS s none addr t.port hI hL (by intro k h; simp at h) (by rw [hd]; simp)

/-! ### histories -/

/-- the blocks of the host this model covers; `down` is any other block (timer, API call, task
step) of the uninterpreted part -/
inductive Block (β : Type) where
  | recv (data : Bytes) (addr : Addr) (port : Nat) (now : Ms) (draw : Nat)
  | tcFire (addr : Addr)
  | down (b : β)

/-- one block; a `tcFire` for an address without an armed timer is not a block of this machine and is
marked with `KeyError` (the loop only runs timers that are armed) -/
def step {β : Type} (D : Down σ ω) (other : σ → β → Except PyExc (σ × List ω)) (s : State σ) :
    Block β → Except PyExc (State σ × List (Out ω))
  | .recv data addr port now draw => (recv D s data addr port now draw).map (fun r => (r.1, r.2.1))
  | .tcFire addr => (tcFire D s addr).map (fun r => (r.1, r.2.1))
  | .down b => (other s.down b).map (fun r => ({ s with down := r.1 }, r.2.map Out.down))

def run {β : Type} (D : Down σ ω) (other : σ → β → Except PyExc (σ × List ω)) :
    State σ → List (Block β) → Except PyExc (State σ × List (Out ω))
  | s, [] => .ok (s, [])
  | s, b :: rest =>
    match step D other s b with
    | .error e => .error e
    | .ok (s1, o1) =>
      match run D other s1 rest with
      | .error e => .error e
      | .ok (s2, o2) => .ok (s2, o1 ++ o2)

theorem step_ok {β : Type} {D : Down σ ω} {I : σ → Prop} {S : QA → Prop} (hD : DownOK D I S) (hS : SendOK S)
    (other : σ → β → Except PyExc (σ × List ω))
    (hO : ∀ d b, I d → ∃ d' o, other d b = .ok (d', o) ∧ I d')
    (s : State σ) (b : Block β) (hI : I s.down) (hL : LInv s) :
    (∃ s' out, step D other s b = .ok (s', out) ∧ I s'.down ∧ LInv s') ∨ step D other s b = .error .keyError := by
  cases b with
  | recv data addr port now draw =>
    obtain ⟨s', out, tag, h, hI', hL'⟩ := recv_ok hD hS s data addr port now draw hI hL
    exact Or.inl ⟨s', out, by simp [step, h, Except.map], hI', hL'⟩
  | tcFire addr =>
    cases ht : alGet addr s.timers with
    | none => right; simp [step, tcFire, ht, Except.map]
    | some t =>
      obtain ⟨s', out, tag, h, hI', hL'⟩ := tcFire_ok hD hS s addr t ht hI hL
      exact Or.inl ⟨s', out, by simp [step, h, Except.map], hI', hL'⟩
  | down b =>
    obtain ⟨d', o, h, hI'⟩ := hO s.down b hI
    exact Or.inl ⟨{ s with down := d' }, o.map Out.down, by simp [step, h, Except.map], hI', LInv.congr (s := s) rfl rfl hL⟩

theorem run_ok {β : Type} {D : Down σ ω} {I : σ → Prop} {S : QA → Prop} (hD : DownOK D I S) (hS : SendOK S)
    (other : σ → β → Except PyExc (σ × List ω))
    (hO : ∀ d b, I d → ∃ d' o, other d b = .ok (d', o) ∧ I d') :
    ∀ (bs : List (Block β)) (s : State σ), I s.down → LInv s →
      (∃ s' out, run D other s bs = .ok (s', out) ∧ I s'.down ∧ LInv s') ∨ run D other s bs = .error .keyError := by
  intro bs
  induction bs with
  | nil => intro s hI hL; exact Or.inl ⟨s, [], rfl, hI, hL⟩
  | cons b rest ih =>
    intro s hI hL
    unfold run
    rcases step_ok hD hS other hO s b hI hL with ⟨s1, o1, h1, hI1, hL1⟩ | h1
    · rw [h1]
      dsimp only
      rcases ih s1 hI1 hL1 with ⟨s2, o2, h2, hI2, hL2⟩ | h2
      · rw [h2]; exact Or.inl ⟨s2, o1 ++ o2, rfl, hI2, hL2⟩
      · rw [h2]; exact Or.inr rfl
    · rw [h1]; exact Or.inr rfl

/-- a history that ran to the end leaves the invariants in force -/
theorem run_inv {β : Type} {D : Down σ ω} {I : σ → Prop} {S : QA → Prop} (hD : DownOK D I S) (hS : SendOK S)
    (other : σ → β → Except PyExc (σ × List ω))
    (hO : ∀ d b, I d → ∃ d' o, other d b = .ok (d', o) ∧ I d')
    (bs : List (Block β)) (s s' : State σ) (out : List (Out ω)) (hI : I s.down) (hL : LInv s)
    (h : run D other s bs = .ok (s', out)) : I s'.down ∧ LInv s' := by
  rcases run_ok hD hS other hO bs s hI hL with ⟨s2, o2, h2, hI2, hL2⟩ | h2
  · rw [h2] at h
    cases h
    exact ⟨hI2, hL2⟩
  · rw [h2] at h; cases h

/-- the only way a block can fail under the invariants: it is a deferred-query timer for an address
that has no armed timer — not a block the event loop can run -/
theorem step_ok' {β : Type} {D : Down σ ω} {I : σ → Prop} {S : QA → Prop} (hD : DownOK D I S) (hS : SendOK S)
    (other : σ → β → Except PyExc (σ × List ω))
    (hO : ∀ d b, I d → ∃ d' o, other d b = .ok (d', o) ∧ I d')
    (s : State σ) (b : Block β) (hI : I s.down) (hL : LInv s) :
    (∃ s' out, step D other s b = .ok (s', out) ∧ I s'.down ∧ LInv s') ∨
      (∃ addr, b = .tcFire addr ∧ alGet addr s.timers = none) := by
  cases b with
  | tcFire addr =>
    cases ht : alGet addr s.timers with
    | none => exact Or.inr ⟨addr, rfl, ht⟩
    | some t =>
      obtain ⟨s', out, tag, h, hI', hL'⟩ := tcFire_ok hD hS s addr t ht hI hL
      exact Or.inl ⟨s', out, by simp [step, h, Except.map], hI', hL'⟩
  | recv data addr port now draw =>
    rcases step_ok hD hS other hO s (.recv data addr port now draw) hI hL with h | h
    · exact Or.inl h
    · obtain ⟨s', out, tag, h', _, _⟩ := recv_ok hD hS s data addr port now draw hI hL
      simp [step, h', Except.map] at h
  | down b =>
    rcases step_ok hD hS other hO s (.down b) hI hL with h | h
    · exact Or.inl h
    · obtain ⟨d', o, h', _⟩ := hO s.down b hI
      simp [step, h', Except.map] at h

/-- **every history, with the illegal ones named**: a history either runs to the end (and the
invariants hold there) or it contains a deferred-query timer block for an address whose timer is not
armed at that point — `pre` ran normally up to it.  Nothing else can stop a history. -/
theorem run_ok' {β : Type} {D : Down σ ω} {I : σ → Prop} {S : QA → Prop} (hD : DownOK D I S) (hS : SendOK S)
    (other : σ → β → Except PyExc (σ × List ω))
    (hO : ∀ d b, I d → ∃ d' o, other d b = .ok (d', o) ∧ I d') :
    ∀ (bs : List (Block β)) (s : State σ), I s.down → LInv s →
      (∃ s' out, run D other s bs = .ok (s', out) ∧ I s'.down ∧ LInv s') ∨
      (∃ pre addr post s1 o1, bs = pre ++ Block.tcFire addr :: post ∧ run D other s pre = .ok (s1, o1) ∧
        alGet addr s1.timers = none) := by
  intro bs
  induction bs with
  | nil => intro s hI hL; exact Or.inl ⟨s, [], rfl, hI, hL⟩
  | cons b rest ih =>
    intro s hI hL
    rcases step_ok' hD hS other hO s b hI hL with ⟨s1, o1, h1, hI1, hL1⟩ | ⟨addr, hb, hn⟩
    · rcases ih s1 hI1 hL1 with ⟨s2, o2, h2, hI2, hL2⟩ | ⟨pre, addr, post, s2, o2, hbs, hpre, hn⟩
      · left
        refine ⟨s2, o1 ++ o2, ?_, hI2, hL2⟩
        unfold run
        rw [h1]
        dsimp only
        rw [h2]
      · right
        refine ⟨b :: pre, addr, post, s2, o1 ++ o2, by rw [hbs]; rfl, ?_, hn⟩
        unfold run
        rw [h1]
        dsimp only
        rw [hpre]
    · right
      exact ⟨[], addr, rest, s, [], by rw [hb]; rfl, rfl, hn⟩

/-! ### the instance keeps working: what the next datagram does, after any history

The duplicate guard's memory `(data, lastTime, lastMsg)` and the deferral tables are the only listener
state a hostile stream can leave behind.  The lemmas below say that a datagram which is not a
duplicate of one *processed* less than a second earlier is handed to the downstream component:
a query to `D.answer` (and the answer sets it returns are sent inside the block), a response to
`D.ingest`. -/

/-- not the remembered bytes ⇒ the duplicate guard does not fire -/
theorem guardHit_false_of_ne (s : State σ) (data : Bytes) (now : Ms) (h : s.data ≠ some data) : guardHit s data now = false := by
  unfold guardHit
  cases hg : Gen.Listener.dup_guard (s.data == some data) now s.lastTime s.lastMsg.isNone
      ((s.lastMsg.map (·.1)).getD false) ((s.lastMsg.map (·.2)).getD false) with
  | false => rfl
  | true =>
    have := (GenFacts.Listener.dup_guard_iff _ _ _ _ _ _).mp hg
    exact absurd (by simpa using this.1) h

/-- at least 1000 ms after the last *processed* datagram ⇒ the duplicate guard does not fire -/
theorem guardHit_false_of_old (s : State σ) (data : Bytes) (now : Ms) (h : s.lastTime + 1000 ≤ now) : guardHit s data now = false := by
  unfold guardHit
  cases hg : Gen.Listener.dup_guard (s.data == some data) now s.lastTime s.lastMsg.isNone
      ((s.lastMsg.map (·.1)).getD false) ((s.lastMsg.map (·.2)).getD false) with
  | false => rfl
  | true =>
    have h2 : (now : Int) - 1000 < s.lastTime := ((GenFacts.Listener.dup_guard_iff _ _ _ _ _ _).mp hg).2.1
    have h' : (s.lastTime : Int) + 1000 ≤ now := h
    exact absurd h2 (Int.not_lt.mpr (Int.le_sub_right_of_add_le h'))

/-- the state `process` leaves in the listener's three memory fields -/
def remember (s : State σ) (data : Bytes) (now : Ms) (p : Parsed) : State σ :=
  { s with data := some data, lastTime := now, lastMsg := some (Gen.Listener.is_query p.hdr.flags, p.hasQU) }

/-- **a well-formed, untruncated query that is not suppressed as a duplicate reaches `_respond_query`** -/
theorem recv_query_eq (D : Down σ ω) (s : State σ) (data : Bytes) (addr : Addr) (port : Nat) (now : Ms) (draw : Nat) (p : Parsed)
    (hsize : data.length ≤ 8966) (hg : guardHit s data now = false) (hp : (parse data).out = .ok p)
    (hv : p.valid = true) (hq : Gen.Listener.is_query p.hdr.flags = true) (htc : Gen.Listener.truncated p.hdr.flags = false)
    (he : D.hasEntries s.down = true) :
    recv D s data addr port now draw = respond D (remember s data now p) (some ⟨data, now, p, none⟩) addr port := by
  have hov : Gen.Listener.oversize (data.length : Int) = false := by
    cases hb : Gen.Listener.oversize (data.length : Int)
    · rfl
    · have := (GenFacts.Survive.oversize_iff _).mp hb; omega
  unfold recv
  rw [hov, hg]
  simp only [Bool.false_eq_true, if_false]
  unfold process
  rw [hp]
  simp only [Pkt.isQuery, Pkt.truncated, Pkt.hasQU, hv, hq, he, Bool.not_true, Bool.false_eq_true, if_false]
  unfold queryOrDefer
  simp only [Pkt.truncated, htc, Bool.not_false, if_true, remember, hq]

/-- **a valid response that is not suppressed as a duplicate reaches the record manager** -/
theorem recv_response_eq (D : Down σ ω) (s : State σ) (data : Bytes) (addr : Addr) (port : Nat) (now : Ms) (draw : Nat) (p : Parsed)
    (hsize : data.length ≤ 8966) (hg : guardHit s data now = false) (hp : (parse data).out = .ok p)
    (hv : p.valid = true) (hq : Gen.Listener.is_query p.hdr.flags = false) :
    recv D s data addr port now draw =
      match D.ingest s.down ⟨data, now, p, none⟩ with
      | .error e => .error e
      | .ok (d, out) => .ok ({ remember s data now p with down := d }, out.map Out.down, .response) := by
  have hov : Gen.Listener.oversize (data.length : Int) = false := by
    cases hb : Gen.Listener.oversize (data.length : Int)
    · rfl
    · have := (GenFacts.Survive.oversize_iff _).mp hb; omega
  unfold recv
  rw [hov, hg]
  simp only [Bool.false_eq_true, if_false]
  unfold process
  rw [hp]
  simp only [Pkt.isQuery, Pkt.hasQU, hv, hq, Bool.not_true, Bool.not_false, Bool.false_eq_true, if_false, if_true, remember]
  rfl

/-- what `handle_assembled_query` sends inside the block for the answer sets it was given -/
def Sent (addr : Addr) (port : Nat) (qa : Option QA) (out : List (Out ω)) : Prop :=
  ∀ q, qa = some q →
    (q.ucast.isEmpty = false → ∃ pk, Out.unicast addr port pk ∈ out) ∧
    (q.mcastNow.isEmpty = false → ∃ pk, Out.multicast pk ∈ out)

theorem handleAssembled_sends {D : Down σ ω} {I : σ → Prop} {S : QA → Prop} (hD : DownOK D I S) (hS : SendOK S)
    (d : σ) (ks : List Pkt) (addr : Addr) (port : Nat) (hI : I d) (hne : ks ≠ []) (hk : ∀ k ∈ ks, PktOK k) :
    ∃ d1 qa d' out, D.answer d ks (Gen.Listener.ucast_source port) = .ok (d1, qa) ∧
      handleAssembled D d ks addr port = .ok (d', out) ∧ I d' ∧ Sent addr port qa out := by
  cases ks with
  | nil => exact absurd rfl hne
  | cons first rest =>
    obtain ⟨d1, qa, ha, hI1, hs⟩ := hD.answer d (first :: rest) (Gen.Listener.ucast_source port) hI hne hk
    refine ⟨d1, qa, ?_⟩
    suffices h : ∃ d' out, handleAssembled D d (first :: rest) addr port = .ok (d', out) ∧ I d' ∧ Sent addr port qa out by
      obtain ⟨d', out, h1, h2, h3⟩ := h
      exact ⟨d', out, ha, h1, h2, h3⟩
    unfold handleAssembled
    simp only [ha]
    cases qa with
    | none => exact ⟨d1, [], rfl, hI1, by intro q hq; cases hq⟩
    | some q =>
      obtain ⟨hu, hm⟩ := hS q (hs q rfl)
      have hfirst := hk first List.mem_cons_self
      obtain ⟨pk1, hpk1⟩ := hu (Gen.Listener.ucast_source port) first.p.questions first.p.hdr.id
        (questions_ok hfirst) hfirst.2.2.2.1
      obtain ⟨pk2, hpk2⟩ := hm
      simp only [hpk1, hpk2, Except.map]
      have hI2 := hD.enqueue d1 first.now q hI1
      by_cases h1 : q.ucast.isEmpty = true <;> by_cases h2 : q.mcastNow.isEmpty = true <;>
        simp only [h1, h2, if_true, if_false, Bool.false_eq_true] <;>
        refine ⟨_, _, rfl, hI2, ?_⟩ <;> intro q' hq' <;> cases hq' <;>
        refine ⟨fun hne1 => ?_, fun hne2 => ?_⟩ <;> simp_all

/-- **A well-formed query sent afterwards is still answered** (generic form).  In any state that
satisfies the invariants — in particular after any history (`run_inv`) — an untruncated, valid query
that is not a duplicate of a datagram processed less than a second earlier is handed to the answer
computation together with whatever was deferred for its address, `datagram_received` returns, and the
unicast and immediate-multicast answer sets the computation returns are sent inside the block. -/
theorem recv_query_answered {D : Down σ ω} {I : σ → Prop} {S : QA → Prop} (hD : DownOK D I S) (hS : SendOK S)
    (s : State σ) (hI : I s.down) (hL : LInv s) (data : Bytes) (addr : Addr) (port : Nat) (now : Ms) (draw : Nat) (p : Parsed)
    (hsize : data.length ≤ 8966) (hg : guardHit s data now = false) (hp : (parse data).out = .ok p)
    (hv : p.valid = true) (hq : Gen.Listener.is_query p.hdr.flags = true) (htc : Gen.Listener.truncated p.hdr.flags = false)
    (he : D.hasEntries s.down = true) :
    ∃ d1 qa s' out,
      D.answer s.down ((alGet addr s.deferred).getD [] ++ [⟨data, now, p, none⟩]) (Gen.Listener.ucast_source port) = .ok (d1, qa) ∧
      recv D s data addr port now draw = .ok (s', out, .responded ((alGet addr s.deferred).getD [] ++ [(⟨data, now, p, none⟩ : Pkt)]).length) ∧
      I s'.down ∧ LInv s' ∧ Sent addr port qa out := by
  rw [recv_query_eq D s data addr port now draw p hsize hg hp hv hq htc he]
  obtain ⟨p', hp', hk⟩ := parse_pkt data now hsize
  rw [hp] at hp'
  cases hp'
  have hks : ∀ k ∈ (alGet addr s.deferred).getD [] ++ [⟨data, now, p, none⟩], PktOK k := by
    intro k hk'
    simp only [List.mem_append, List.mem_singleton] at hk'
    rcases hk' with hk' | rfl
    · cases hgd : alGet addr s.deferred with
      | none => rw [hgd] at hk'; simp at hk'
      | some l =>
        rw [hgd] at hk'
        simp at hk'
        exact hL.deferred _ (alGet_mem hgd) k hk'
    · exact hk
  obtain ⟨d1, qa, d', out, ha, hh, hI', hsent⟩ := handleAssembled_sends hD hS s.down _ addr port hI (by simp) hks
  refine ⟨d1, qa, { remember s data now p with timers := alErase addr s.timers, deferred := alErase addr s.deferred, down := d' },
    out, ha, ?_, hI', ?_, hsent⟩
  · unfold respond
    dsimp only [remember, Option.toList]
    rw [hh]
  · refine ⟨?_, ?_⟩
    · intro a t ht
      simp only [remember] at ht ⊢
      by_cases ha' : a = addr
      · subst ha'; rw [alGet_alErase_self] at ht; simp at ht
      · rw [alGet_alErase_ne _ ha'] at ht
        rw [alGet_alErase_ne _ ha']
        exact hL.timer a t ht
    · intro q hq'
      exact hL.deferred q (mem_alErase hq')

/-- **An announcement sent afterwards still reaches the record manager** (generic form): a valid
response that is not a duplicate of a datagram processed less than a second earlier is ingested, and
everything the ingestion emits (listener callbacks) is emitted by the block. -/
theorem recv_response_ingested {D : Down σ ω} {I : σ → Prop} {S : QA → Prop} (hD : DownOK D I S)
    (s : State σ) (hI : I s.down) (hL : LInv s) (data : Bytes) (addr : Addr) (port : Nat) (now : Ms) (draw : Nat) (p : Parsed)
    (hsize : data.length ≤ 8966) (hg : guardHit s data now = false) (hp : (parse data).out = .ok p)
    (hv : p.valid = true) (hq : Gen.Listener.is_query p.hdr.flags = false) :
    ∃ d' o s', D.ingest s.down ⟨data, now, p, none⟩ = .ok (d', o) ∧
      recv D s data addr port now draw = .ok (s', o.map Out.down, .response) ∧ s'.down = d' ∧ I d' ∧ LInv s' := by
  obtain ⟨p', hp', hk⟩ := parse_pkt data now hsize
  rw [hp] at hp'
  cases hp'
  obtain ⟨d', o, hi, hI'⟩ := hD.ingest s.down ⟨data, now, p, none⟩ hI hk
  rw [recv_response_eq D s data addr port now draw p hsize hg hp hv hq, hi]
  exact ⟨d', o, { remember s data now p with down := d' }, rfl, rfl, rfl, hI', LInv.congr (s := s) rfl rfl hL⟩

end Zc.Survive
