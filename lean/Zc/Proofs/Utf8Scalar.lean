import Zc.Proofs.Utf8RoundTrip
/-! `decodeReplace` only ever produces Unicode scalar values — `bytes.decode('utf-8', 'replace')` returns a
`str` without surrogates and below U+110000 for **every** byte string: the lead-byte table restricts the first
continuation (`E0 A0..BF`, `ED 80..9F`, `F0 90..BF`, `F4 80..8F`) so that no completed sequence is a surrogate
or exceeds U+10FFFF, and everything else becomes U+FFFD.  Core Lean only. -/
namespace Zc.Utf8

/-- every way of completing the pending sequence (`need` continuation bytes outstanding, the next one in
`[lo, hi]`, the others in `[0x80, 0xBF]`) gives a scalar value -/
def Pending : Nat → Nat → Nat → Nat → Prop
  | 0, _, _, _ => True
  | 1, acc, lo, hi => ∀ x, lo ≤ x → x ≤ hi → IsScalar (acc * 64 + (x - 0x80))
  | n + 2, acc, lo, hi => ∀ x, lo ≤ x → x ≤ hi → Pending (n + 1) (acc * 64 + (x - 0x80)) 0x80 0xBF

/-- the seven rows of the lead-byte table -/
theorem leadInfo_cases {b n lo hi : Nat} (h : leadInfo b = some (n, lo, hi)) :
    (n = 1 ∧ lo = 0x80 ∧ hi = 0xBF ∧ 0xC2 ≤ b ∧ b ≤ 0xDF) ∨
    (n = 2 ∧ lo = 0xA0 ∧ hi = 0xBF ∧ b = 0xE0) ∨
    (n = 2 ∧ lo = 0x80 ∧ hi = 0xBF ∧ ((0xE1 ≤ b ∧ b ≤ 0xEC) ∨ b = 0xEE ∨ b = 0xEF)) ∨
    (n = 2 ∧ lo = 0x80 ∧ hi = 0x9F ∧ b = 0xED) ∨
    (n = 3 ∧ lo = 0x90 ∧ hi = 0xBF ∧ b = 0xF0) ∨
    (n = 3 ∧ lo = 0x80 ∧ hi = 0xBF ∧ 0xF1 ≤ b ∧ b ≤ 0xF3) ∨
    (n = 3 ∧ lo = 0x80 ∧ hi = 0x8F ∧ b = 0xF4) := by
  unfold leadInfo at h
  split at h
  · simp only [Option.some.injEq, Prod.mk.injEq] at h; omega
  split at h
  · simp only [Option.some.injEq, Prod.mk.injEq] at h; omega
  split at h
  · simp only [Option.some.injEq, Prod.mk.injEq] at h; omega
  split at h
  · simp only [Option.some.injEq, Prod.mk.injEq] at h; omega
  split at h
  · simp only [Option.some.injEq, Prod.mk.injEq] at h; omega
  split at h
  · simp only [Option.some.injEq, Prod.mk.injEq] at h; omega
  split at h
  · simp only [Option.some.injEq, Prod.mk.injEq] at h; omega
  · exact absurd h (by simp)

theorem replacement_scalar : IsScalar replacement := by decide

/-- a byte seen in the idle state: what is emitted is scalar, and what is left pending can only complete to scalars -/
theorem start_ok (b : Nat) (hb : b < 256) :
    (∀ c ∈ (start b).1, IsScalar c) ∧ Pending (start b).2.need (start b).2.acc (start b).2.lo (start b).2.hi := by
  unfold start
  split
  · rename_i h
    refine ⟨?_, trivial⟩
    intro c hc
    simp only [List.mem_singleton] at hc
    subst hc
    unfold IsScalar; omega
  · cases h : leadInfo b with
    | none =>
      refine ⟨?_, trivial⟩
      intro c hc
      simp only [List.mem_singleton] at hc
      subst hc
      exact replacement_scalar
    | some t =>
      obtain ⟨n, lo, hi⟩ := t
      refine ⟨by intro c hc; simp at hc, ?_⟩
      dsimp only
      rcases leadInfo_cases h with ⟨rfl, rfl, rfl, h1, h2⟩ | ⟨rfl, rfl, rfl, rfl⟩ | ⟨rfl, rfl, rfl, h1⟩ | ⟨rfl, rfl, rfl, rfl⟩
        | ⟨rfl, rfl, rfl, rfl⟩ | ⟨rfl, rfl, rfl, h1, h2⟩ | ⟨rfl, rfl, rfl, rfl⟩
      · simp only [if_true]
        intro x hx1 hx2
        unfold IsScalar; omega
      · simp only [show (2 : Nat) ≠ 1 by omega, if_false, if_true]
        intro x hx1 hx2 y hy1 hy2
        unfold IsScalar; omega
      · simp only [show (2 : Nat) ≠ 1 by omega, if_false, if_true]
        intro x hx1 hx2 y hy1 hy2
        unfold IsScalar; omega
      · simp only [show (2 : Nat) ≠ 1 by omega, if_false, if_true]
        intro x hx1 hx2 y hy1 hy2
        unfold IsScalar; omega
      · simp only [show (3 : Nat) ≠ 1 by omega, show (3 : Nat) ≠ 2 by omega, if_false]
        intro x hx1 hx2 y hy1 hy2 z hz1 hz2
        unfold IsScalar; omega
      · simp only [show (3 : Nat) ≠ 1 by omega, show (3 : Nat) ≠ 2 by omega, if_false]
        intro x hx1 hx2 y hy1 hy2 z hz1 hz2
        unfold IsScalar; omega
      · simp only [show (3 : Nat) ≠ 1 by omega, show (3 : Nat) ≠ 2 by omega, if_false]
        intro x hx1 hx2 y hy1 hy2 z hz1 hz2
        unfold IsScalar; omega

theorem pending_idle : Pending idle.need idle.acc idle.lo idle.hi := by
  unfold idle; simp [Pending]

theorem toNat_lt_256 (b : UInt8) : b.toNat < 256 := b.toNat_lt

theorem go_scalar : ∀ (l : List UInt8) (st : St), Pending st.need st.acc st.lo st.hi → ∀ c ∈ go st l, IsScalar c := by
  intro l
  induction l with
  | nil =>
    intro st _ c hc
    unfold go at hc
    split at hc
    · simp at hc
    · simp only [List.mem_singleton] at hc; subst hc; exact replacement_scalar
  | cons b rest ih =>
    intro st hp c hc
    obtain ⟨hs1, hs2⟩ := start_ok b.toNat (toNat_lt_256 b)
    obtain ⟨need, acc, lo, hi⟩ := st
    unfold go at hc
    dsimp only at hc hp
    match need, hp with
    | 0, _ =>
      rw [if_pos rfl] at hc
      rcases List.mem_append.mp hc with hc | hc
      · exact hs1 c hc
      · exact ih _ hs2 c hc
    | 1, hp =>
      rw [if_neg (by omega)] at hc
      split at hc
      · rename_i hr
        rw [if_pos rfl] at hc
        rcases List.mem_cons.mp hc with h | hc
        · rw [h]; exact hp b.toNat hr.1 hr.2
        · exact ih idle pending_idle c hc
      · rcases List.mem_cons.mp hc with h | hc
        · rw [h]; exact replacement_scalar
        · rcases List.mem_append.mp hc with hc | hc
          · exact hs1 c hc
          · exact ih _ hs2 c hc
    | n + 2, hp =>
      rw [if_neg (by omega)] at hc
      split at hc
      · rename_i hr
        rw [if_neg (by omega)] at hc
        exact ih ⟨n + 2 - 1, acc * 64 + (b.toNat - 0x80), 0x80, 0xBF⟩ (hp b.toNat hr.1 hr.2) c hc
      · rcases List.mem_cons.mp hc with h | hc
        · rw [h]; exact replacement_scalar
        · rcases List.mem_append.mp hc with hc | hc
          · exact hs1 c hc
          · exact ih _ hs2 c hc

/-- **`bytes.decode('utf-8', 'replace')` returns scalar values only**, for every byte string -/
theorem decodeReplace_scalar (b : List UInt8) : ∀ c ∈ decodeReplace b, IsScalar c :=
  go_scalar b idle pending_idle

end Zc.Utf8
