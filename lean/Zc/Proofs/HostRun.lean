import Zc.Proofs.Host
import Zc.Proofs.QueueRun
/-! # The host as a whole: runs of `Host.step`, the event-loop facts, and the run-level invariant

Everything C12 proves about one `MulticastOutgoingQueue` in isolation (`Zc.Proofs.QueueRun`, over `Run`) is lifted here to
runs of the whole host model (`Host.step`: datagrams, truncated-query timers, both queue timers).

**What is assumed about the event loop is one definition, `LoopAx`:**

* `monotone` — loop time does not run backwards from one block to the next;
* `noTimerPassed` — no block runs at an instant later than a pending timer's due time: a callback that is due runs before
  time moves on (this is also the liveness half: a run that extends beyond a deadline has fired the timer);
* `firesWhenDue` — a timer callback runs exactly at its due time (the model's clock is integer milliseconds and has no
  loop latency);
* blocks are atomic — `Host.step` is a function from state and event to state and outputs;
* (with them, checked by `Host.decide`: a datagram is stamped with the time of its block; every random draw lies in the
  interval the code asked for.)

`Host.step` *checks* these facts (it returns `.error` otherwise), so an accepted run — `Host.run … = .ok …`, which is what
trace acceptance (`c12run`) establishes for every replayed simulator trace — satisfies `LoopAx` at every block
(`HRun.of_run`).  The theorems are stated over `HRun`, i.e. for every run of the host that satisfies `LoopAx`.
C07's `Bridge.Fair` (liveness of the registration machine's task steps) is the same kind of axiom over a different step type
(`Bridge.Step`); the two cannot share a definition without a common block type. -/
namespace Zc.Reply
open GenFacts

/-! ### the event-loop facts -/

/-- a timer callback runs exactly at its due time -/
def firesOK (h : Host) : Ev → Prop
  | .qfire t d => (if d then h.delayQ else h.outQ).timer = some t
  | .tcfire t addr _ _ => ∃ tm, h.lis.timers.find? (fun tm => tm.addr == addr) = some tm ∧ tm.due = t
  | .rx .. => True
  | .qremove .. => True

structure LoopAx (h : Host) (clock : Int) (e : Ev) : Prop where
  monotone : clock ≤ e.time
  noTimerPassed : h.notOverdue e.time = true
  firesWhenDue : firesOK h e

/-- a run of the host in which every block satisfies the loop facts and is accepted by the model; the trace pairs each event
with what its block did -/
inductive HRun : Host → Int → List Ev → Host → Int → List (Ev × StepOut) → Prop
  | nil (h : Host) (c : Int) : HRun h c [] h c []
  | cons {h : Host} {clock : Int} {e : Ev} {es : List Ev} {r : StepOut} {h' : Host} {c' : Int} {tr : List (Ev × StepOut)} :
      LoopAx h clock e → h.step e = .ok r → HRun r.host e.time es h' c' tr → HRun h clock (e :: es) h' c' ((e, r) :: tr)

theorem step_notOverdue {h : Host} {e : Ev} {r : StepOut} (hs : h.step e = .ok r) : h.notOverdue e.time = true := by
  unfold Host.step at hs
  split at hs
  · cases hs
  · rename_i hn; simpa using hn

theorem step_decide {h : Host} {e : Ev} {r : StepOut} (hs : h.step e = .ok r) :
    ∃ a, h.decide e = .ok a ∧ h.perform e.time e.seen e.draws a = .ok r := by
  unfold Host.step at hs
  split at hs
  · cases hs
  · cases hd : h.decide e with
    | error m => rw [hd] at hs; cases hs
    | ok a => rw [hd] at hs; exact ⟨a, rfl, hs⟩

theorem LoopAx.of_step {h : Host} {clock : Int} {e : Ev} {r : StepOut} (hc : clock ≤ e.time) (hs : h.step e = .ok r) :
    LoopAx h clock e := by
  refine ⟨hc, step_notOverdue hs, ?_⟩
  obtain ⟨a, hd, _⟩ := step_decide hs
  cases e with
  | rx => trivial
  | tcfire t addr seen draws =>
    simp only [Host.decide] at hd
    cases hf : h.lis.timers.find? (fun tm => tm.addr == addr) with
    | none => rw [hf] at hd; cases hd
    | some tm =>
      rw [hf] at hd
      simp only at hd
      split at hd
      · cases hd
      · rename_i hne; exact ⟨tm, hf, by simpa using hne⟩
  | qfire t d =>
    by_cases hq : (if d then h.delayQ else h.outQ).timer = some t
    · exact hq
    · simp [Host.decide, hq] at hd
  | qremove t d recs => trivial

/-- a queue timer event can only lead to that queue's `async_ready` -/
theorem decide_qfire {h : Host} {t : Int} {d : Bool} {a : Act} (hd : h.decide (.qfire t d) = .ok a) : a = .ready d := by
  by_cases hq : (if d then h.delayQ else h.outQ).timer = some t
  · simp [Host.decide, hq] at hd; exact hd.symm
  · simp [Host.decide, hq] at hd

/-- **every accepted run of the model is such a run** -/
theorem HRun.of_run : ∀ (evs : List Ev) (h : Host) (clock : Int) (h' : Host) (outs : List (Int × List Out × List Draw)),
    Host.run h clock evs = .ok (h', outs) →
    ∃ c' tr, HRun h clock evs h' c' tr ∧ outs = tr.map (fun p => (p.1.time, p.2.outs, p.2.draws)) := by
  intro evs
  induction evs with
  | nil =>
    intro h clock h' outs hr
    simp only [Host.run, Except.ok.injEq, Prod.mk.injEq] at hr
    obtain ⟨rfl, rfl⟩ := hr
    exact ⟨clock, [], HRun.nil _ _, rfl⟩
  | cons e es ih =>
    intro h clock h' outs hr
    simp only [Host.run] at hr
    split at hr
    · cases hr
    · rename_i hlt
      cases hs : h.step e with
      | error m => rw [hs] at hr; cases hr
      | ok r =>
        rw [hs] at hr
        simp only [bind, Except.bind] at hr
        cases hrest : Host.run r.host e.time es with
        | error m => rw [hrest] at hr; cases hr
        | ok v =>
          obtain ⟨h2, tl⟩ := v
          rw [hrest] at hr
          simp only [pure, Except.pure, Except.ok.injEq, Prod.mk.injEq] at hr
          obtain ⟨rfl, rfl⟩ := hr
          obtain ⟨c', tr, hrun, htl⟩ := ih r.host e.time h2 tl hrest
          exact ⟨c', (e, r) :: tr, HRun.cons (LoopAx.of_step (by omega) hs) hs hrun, by simp [htl]⟩

/-! ### `notOverdue`, field by field -/

theorem notOverdue_spec {h : Host} {t : Int} (hn : h.notOverdue t = true) :
    (∀ d, h.outQ.timer = some d → t ≤ d) ∧ (∀ d, h.delayQ.timer = some d → t ≤ d) ∧ (∀ tm ∈ h.lis.timers, t ≤ tm.due) := by
  unfold Host.notOverdue at hn
  simp only [Bool.and_eq_true, List.all_eq_true, decide_eq_true_eq] at hn
  obtain ⟨⟨h1, h2⟩, h3⟩ := hn
  refine ⟨?_, ?_, h3⟩
  · intro d hd; rw [hd] at h1; simpa using h1
  · intro d hd; rw [hd] at h2; simpa using h2

/-! ### the listener's deferral table -/

theorem deferredOf_congr {l1 l2 : Listener} (h : l1.deferred = l2.deferred) (a : Nat) : l1.deferredOf a = l2.deferredOf a := by
  unfold Listener.deferredOf; rw [h]

theorem find_replace_same (d : List (Nat × List Pkt)) (a : Nat) (ps : List Pkt) (h : d.any (fun e => e.1 == a) = true) :
    (d.map (fun e => if e.1 == a then (a, ps) else e)).find? (fun e => e.1 == a) = some (a, ps) := by
  induction d with
  | nil => simp at h
  | cons x d ih =>
    simp only [List.map_cons]
    by_cases hx : (x.1 == a) = true
    · rw [if_pos hx]
      exact List.find?_cons_of_pos (p := fun e : Nat × List Pkt => e.1 == a) (by simp)
    · rw [if_neg hx, List.find?_cons_of_neg (p := fun e : Nat × List Pkt => e.1 == a) hx]
      simp only [List.any_cons, hx, Bool.false_or] at h
      exact ih h

theorem find_replace_other (d : List (Nat × List Pkt)) (a b : Nat) (ps : List Pkt) (hab : b ≠ a) :
    ((d.map (fun e => if e.1 == a then (a, ps) else e)).find? (fun e => e.1 == b)).map (·.2) =
      (d.find? (fun e => e.1 == b)).map (·.2) := by
  have hab' : ¬ (a == b) = true := by simpa using Ne.symm hab
  induction d with
  | nil => rfl
  | cons x d ih =>
    simp only [List.map_cons]
    by_cases hx : (x.1 == a) = true
    · have hxa : x.1 = a := by simpa using hx
      have hxb : ¬ (x.1 == b) = true := by rw [hxa]; exact hab'
      rw [if_pos hx, List.find?_cons_of_neg (p := fun e : Nat × List Pkt => e.1 == b) (show ¬ ((a, ps).1 == b) = true from hab'), List.find?_cons_of_neg (p := fun e : Nat × List Pkt => e.1 == b) hxb]
      exact ih
    · rw [if_neg hx]
      by_cases hxb : (x.1 == b) = true
      · rw [List.find?_cons_of_pos (p := fun e : Nat × List Pkt => e.1 == b) hxb, List.find?_cons_of_pos (p := fun e : Nat × List Pkt => e.1 == b) hxb]
      · rw [List.find?_cons_of_neg (p := fun e : Nat × List Pkt => e.1 == b) hxb, List.find?_cons_of_neg (p := fun e : Nat × List Pkt => e.1 == b) hxb]; exact ih

theorem deferredOf_setDeferred_same (l : Listener) (a : Nat) (ps : List Pkt) : (l.setDeferred a ps).deferredOf a = ps := by
  unfold Listener.setDeferred
  by_cases h : l.deferred.any (fun e => e.1 == a) = true
  · rw [if_pos h]
    simp only [Listener.deferredOf]
    rw [find_replace_same _ _ _ h]
  · rw [if_neg h]
    simp only [Listener.deferredOf]
    have hnone : l.deferred.find? (fun e => e.1 == a) = none := by
      rw [List.find?_eq_none]; intro x hx hxa
      exact h (List.any_eq_true.mpr ⟨x, hx, hxa⟩)
    rw [List.find?_append, hnone]
    simp

theorem deferredOf_setDeferred_other (l : Listener) (a b : Nat) (ps : List Pkt) (hab : b ≠ a) :
    (l.setDeferred a ps).deferredOf b = l.deferredOf b := by
  have hab' : ¬ (a == b) = true := by simpa using Ne.symm hab
  unfold Listener.setDeferred
  by_cases h : l.deferred.any (fun e => e.1 == a) = true
  · rw [if_pos h]
    simp only [Listener.deferredOf]
    have := find_replace_other l.deferred a b ps hab
    cases h1 : (l.deferred.map (fun e => if e.1 == a then (a, ps) else e)).find? (fun e => e.1 == b) <;>
      cases h2 : l.deferred.find? (fun e => e.1 == b) <;> rw [h1, h2] at this <;> simp at this
    all_goals first
      | rfl
      | exact this
      | simpa using this
  · rw [if_neg h]
    simp only [Listener.deferredOf]
    rw [List.find?_append]
    cases h2 : l.deferred.find? (fun e => e.1 == b) with
    | none => rw [List.find?_cons_of_neg (p := fun e : Nat × List Pkt => e.1 == b) (show ¬ ((a, ps).1 == b) = true from hab')]; rfl
    | some e => rfl

theorem find_filter_other (d : List (Nat × List Pkt)) (a b : Nat) (hab : b ≠ a) :
    (d.filter (fun e => !(e.1 == a))).find? (fun e => e.1 == b) = d.find? (fun e => e.1 == b) := by
  have hab' : ¬ (a == b) = true := by simpa using Ne.symm hab
  induction d with
  | nil => rfl
  | cons x d ih =>
    by_cases hxa : (x.1 == a) = true
    · have hxb : ¬ (x.1 == b) = true := by
        have : x.1 = a := by simpa using hxa
        rw [this]; exact hab'
      rw [List.filter_cons_of_neg (by simp [hxa]), List.find?_cons_of_neg (p := fun e : Nat × List Pkt => e.1 == b) hxb]; exact ih
    · rw [List.filter_cons_of_pos (by simp [hxa])]
      by_cases hxb : (x.1 == b) = true
      · rw [List.find?_cons_of_pos (p := fun e : Nat × List Pkt => e.1 == b) hxb, List.find?_cons_of_pos (p := fun e : Nat × List Pkt => e.1 == b) hxb]
      · rw [List.find?_cons_of_neg (p := fun e : Nat × List Pkt => e.1 == b) hxb, List.find?_cons_of_neg (p := fun e : Nat × List Pkt => e.1 == b) hxb]; exact ih

theorem deferredOf_popDeferred_other (l : Listener) (a b : Nat) (hab : b ≠ a) : (l.popDeferred a).deferredOf b = l.deferredOf b := by
  unfold Listener.popDeferred Listener.deferredOf
  simp only
  rw [find_filter_other _ _ _ hab]

theorem cancelTimer_other (l : Listener) (a b : Nat) (hab : b ≠ a) :
    (l.cancelTimer a).timers.filter (fun tm => tm.addr == b) = l.timers.filter (fun tm => tm.addr == b) := by
  simp only [Listener.cancelTimer, List.filter_filter]
  apply List.filter_congr
  intro x _
  by_cases hx : (x.addr == b) = true
  · have : x.addr ≠ a := by rw [beq_iff_eq.mp hx]; exact hab
    simp [hx, this]
  · simp [hx]

end Zc.Reply
