import Zc.Proofs.Wire.Packet
/-! Message level: one iteration of `packets()` yields a datagram that the strict decoder reads back
as exactly the slice of entries it consumed; the loop consumes every entry exactly once. -/
namespace Zc.Wire.Encode
open Zc Zc.Wire Zc.Wire.Strict

/-- messages inside the property's quantifier -/
structure WFMsg (m : Msg) : Prop where
  questions : ∀ q ∈ m.questions, WFQuestion q
  answers : ∀ x ∈ m.answers, WFAns x
  authorities : ∀ r ∈ m.authorities, WFAns (r, 0)
  additionals : ∀ r ∈ m.additionals, WFAns (r, 0)

/-- every entry, alone, fits one 8966-byte datagram -/
structure FitAll (m : Msg) : Prop where
  questions : ∀ q ∈ m.questions, questionAloneSize m.multicast q ≤ 8966
  answers : ∀ x ∈ m.answers, recordAloneSize m.multicast x ≤ 8966
  authorities : ∀ r ∈ m.authorities, recordAloneSize m.multicast (r, 0) ≤ 8966
  additionals : ∀ r ∈ m.additionals, recordAloneSize m.multicast (r, 0) ≤ 8966

def pktId (m : Msg) : Nat := if m.multicast then 0 else m.id

/-- header flags of a datagram: the TC bit is or-ed in iff more follows and the message is a query -/
def pktFlags (m : Msg) (more : Bool) : Nat :=
  if more && decide (m.flags &&& 32768 = 0) then m.flags ||| 512 else m.flags

/-- the slice of the message carried by one datagram, as it should be decoded -/
def sliceMsg (m : Msg) (o : Offsets) (qw aw auw adw : Nat) (more : Bool) : WMsg :=
  ⟨pktId m, pktFlags m more,
   ((m.questions.drop o.q).take qw).map (EQuestion.onWire m.multicast),
   ((m.answers.drop o.an).take aw).map (fun x => x.1.onWire m.multicast x.2),
   ((m.authorities.drop o.au).take auw).map (fun r => r.onWire m.multicast 0),
   ((m.additionals.drop o.ad).take adw).map (fun r => r.onWire m.multicast 0)⟩

theorem onePacket_spec (m : Msg) (hwf : WFMsg m) (o o' : Offsets) (pkt : Bytes) (progress more : Bool)
    (h : onePacket m o = .ok (pkt, o', progress, more)) :
    ∃ qw aw auw adw, o' = ⟨o.q + qw, o.an + aw, o.au + auw, o.ad + adw⟩ ∧
      qw ≤ (m.questions.drop o.q).length ∧ aw ≤ (m.answers.drop o.an).length ∧
      auw ≤ (m.authorities.drop o.au).length ∧ adw ≤ (m.additionals.drop o.ad).length ∧
      Strict.decode pkt = some (sliceMsg m o qw aw auw adw more) ∧
      pkt.length ≤ 8966 ∧ (1460 < pkt.length → qw + aw + auw + adw = 1) ∧
      (progress = true ↔ 0 < qw + aw + auw + adw) ∧
      more = Gen.Outgoing.has_more_to_add (o.q + qw) (o.an + aw) (o.au + auw) (o.ad + adw)
        m.questions.length m.answers.length m.authorities.length m.additionals.length ∧
      (FitAll m → (m.questions.drop o.q ≠ [] ∨ m.answers.drop o.an ≠ [] ∨ m.authorities.drop o.au ≠ [] ∨ m.additionals.drop o.ad ≠ []) →
        0 < qw + aw + auw + adw) := by
  unfold onePacket at h
  simp only [bind, Except.bind] at h
  cases h1 : writeQuestions m.multicast St.fresh (m.questions.drop o.q) with
  | error e => simp [h1] at h
  | ok r1 =>
  obtain ⟨s1, qw⟩ := r1
  simp only [h1] at h
  cases h2 : writeAnswers m.multicast s1 (m.answers.drop o.an) with
  | error e => simp [h2] at h
  | ok r2 =>
  obtain ⟨s2, aw⟩ := r2
  simp only [h2] at h
  cases h3 : writeRecords m.multicast s2 (m.authorities.drop o.au) with
  | error e => simp [h3] at h
  | ok r3 =>
  obtain ⟨s3, auw⟩ := r3
  simp only [h3] at h
  cases h4 : writeRecords m.multicast s3 (m.additionals.drop o.ad) with
  | error e => simp [h4] at h
  | ok r4 =>
  obtain ⟨s4, adw⟩ := r4
  simp only [h4] at h
  split at h
  case isFalse => simp at h
  case isTrue hlt =>
  simp only [pure, Except.pure, Except.ok.injEq, Prod.mk.injEq] at h
  obtain ⟨hpkt, ho', hprog, hmore⟩ := h
  refine ⟨qw, aw, auw, adw, ho'.symm, ?_⟩
  -- the header that will be in front of the body
  let more' := Gen.Outgoing.has_more_to_add (o.q + qw) (o.an + aw) (o.au + auw) (o.ad + adw)
        m.questions.length m.answers.length m.authorities.length m.additionals.length
  let fl := hdrFlags m more'
  let H : Bytes := be16 (hdrId m) ++ be16 fl ++ be16 qw ++ be16 aw ++ be16 auw ++ be16 adw
  have hH : H.length = 12 := by simp [H, be16_length]
  have wq : ∀ q ∈ m.questions.drop o.q, WFQuestion q := fun q hq => hwf.questions q (List.mem_of_mem_drop hq)
  have wa : ∀ x ∈ m.answers.drop o.an, WFAns x := fun x hx => hwf.answers x (List.mem_of_mem_drop hx)
  have wu : ∀ x ∈ m.authorities.drop o.au, WFAns (x, 0) := fun x hx => hwf.authorities x (List.mem_of_mem_drop hx)
  have wd : ∀ x ∈ m.additionals.drop o.ad, WFAns (x, 0) := fun x hx => hwf.additionals x (List.mem_of_mem_drop hx)
  obtain ⟨n1, i1, ⟨e1, b1⟩, z1, a1, p1, d1⟩ := writeQuestions_spec H hH m.multicast _ St.fresh s1 0 qw (StInv.fresh_inv H) wq h1
  obtain ⟨n2, i2, ⟨e2, b2⟩, z2, a2, p2, d2⟩ := writeAnswers_spec H hH m.multicast _ s1 s2 (0 + qw) aw i1 wa h2
  obtain ⟨n3, i3, ⟨e3, b3⟩, z3, a3, p3, d3⟩ := writeRecords_spec H hH m.multicast _ s2 s3 (0 + qw + aw) auw i2 wu h3
  obtain ⟨n4, i4, ⟨e4, b4⟩, z4, a4, p4, d4⟩ := writeRecords_spec H hH m.multicast _ s3 s4 (0 + qw + aw + auw) adw i3 wd h4
  have hsz4 := St.size_eq H hH s4
  have hpk : pkt = H ++ s4.body := by rw [← hpkt]
  have hcnt := i4.count
  have hsize : s4.size ≤ 8966 := by rcases i4.size with h | ⟨_, h⟩ <;> omega
  have hlen : pkt.length = s4.size := by rw [hpk, hsz4]
  have hbl : s4.body.length ≤ 8966 := by simp [St.size] at hsize; omega
  refine ⟨n1, n2, n3, n4, ?_, by omega, ?_, ?_, hmore.symm, ?_⟩
  · -- decode
    have fb1 : St.fresh.body = [] := rfl
    have q1 := d1 (e2 ++ e3 ++ e4)
    have q2 := d2 (e3 ++ e4)
    have q3 := d3 e4
    have q4 := d4 []
    have eb2 : H ++ s1.body ++ (e2 ++ e3 ++ e4) = pkt := by rw [hpk, b4, b3, b2]; simp
    have eb3 : H ++ s2.body ++ (e3 ++ e4) = pkt := by rw [hpk, b4, b3]; simp
    have eb4 : H ++ s3.body ++ e4 = pkt := by rw [hpk, b4]; simp
    have eb5 : H ++ s4.body ++ [] = pkt := by rw [hpk]; simp
    rw [eb2] at q1; rw [eb3] at q2; rw [eb4] at q3; rw [eb5] at q4
    simp only [fb1, List.append_nil, hH] at q1
    have hid : (hdrId m) < 65536 := hlt.1
    have hfl : fl < 65536 := hlt.2
    have u0 : u16At pkt 0 = some (hdrId m) :=
      u16At_of_eq _ [] (be16 fl ++ be16 qw ++ be16 aw ++ be16 auw ++ be16 adw ++ s4.body) _ _ (by rw [hpk]; simp [H]) rfl hid
    have u2 : u16At pkt 2 = some fl :=
      u16At_of_eq _ (be16 (hdrId m)) (be16 qw ++ be16 aw ++ be16 auw ++ be16 adw ++ s4.body) _ _
        (by rw [hpk]; simp [H]) (by simp [be16_length]) hfl
    have u4 : u16At pkt 4 = some qw :=
      u16At_of_eq _ (be16 (hdrId m) ++ be16 fl) (be16 aw ++ be16 auw ++ be16 adw ++ s4.body) _ _
        (by rw [hpk]; simp [H]) (by simp [be16_length]) (by omega)
    have u6 : u16At pkt 6 = some aw :=
      u16At_of_eq _ (be16 (hdrId m) ++ be16 fl ++ be16 qw) (be16 auw ++ be16 adw ++ s4.body) _ _
        (by rw [hpk]; simp [H]) (by simp [be16_length]) (by omega)
    have u8 : u16At pkt 8 = some auw :=
      u16At_of_eq _ (be16 (hdrId m) ++ be16 fl ++ be16 qw ++ be16 aw) (be16 adw ++ s4.body) _ _
        (by rw [hpk]; simp [H]) (by simp [be16_length]) (by omega)
    have u10 : u16At pkt 10 = some adw :=
      u16At_of_eq _ (be16 (hdrId m) ++ be16 fl ++ be16 qw ++ be16 aw ++ be16 auw) s4.body _ _
        (by rw [hpk]) (by simp [be16_length]) (by omega)
    unfold Strict.decode
    simp only [bind, Option.bind, u0, u2, u4, u6, u8, u10, q1, q2, q3, q4, hsz4, hlen, if_true, pure, Option.some.injEq]
    simp only [sliceMsg, pktId, pktFlags, WMsg.mk.injEq, true_and, and_true]
    simp only [fl, more', hdrId, hdrFlags, GenFacts.Outgoing.set_tc_eq, GenFacts.Outgoing.flags_with_tc_eq, GenFacts.Outgoing.is_query_eq, hmore.symm]
    exact ⟨trivial, rfl⟩
  · intro hbig
    rcases i4.size with h | ⟨h, _⟩
    · omega
    · omega
  · rw [← hprog]
    constructor
    · intro hp
      simp only [Bool.not_eq_true', List.isEmpty_eq_false_iff] at hp
      rcases Nat.eq_zero_or_pos (qw + aw + auw + adw) with h0 | h0
      · exact absurd (i4.empty (by omega)) hp
      · exact h0
    · intro hp
      have : 0 < s4.body.length := by omega
      simp only [Bool.not_eq_true', List.isEmpty_eq_false_iff]
      intro hb; simp [hb] at this
  · intro hfit hrem
    rcases hq : m.questions.drop o.q with _ | ⟨x, rest⟩
    · have s1f : s1 = St.fresh := z1 hq
      subst s1f
      rcases ha : m.answers.drop o.an with _ | ⟨x, rest⟩
      · have s2f : s2 = St.fresh := z2 ha
        subst s2f
        rcases hu : m.authorities.drop o.au with _ | ⟨x, rest⟩
        · have s3f : s3 = St.fresh := z3 hu
          subst s3f
          rcases hd : m.additionals.drop o.ad with _ | ⟨x, rest⟩
          · simp [hq, ha, hu, hd] at hrem
          · have := p4 x rest hd rfl rfl (hfit.additionals x (List.mem_of_mem_drop (by rw [hd]; simp)))
            omega
        · have := p3 x rest hu rfl rfl (hfit.authorities x (List.mem_of_mem_drop (by rw [hu]; simp)))
          omega
      · have := p2 x rest ha rfl rfl (hfit.answers x (List.mem_of_mem_drop (by rw [ha]; simp)))
        omega
    · have := p1 x rest hq rfl rfl (hfit.questions x (List.mem_of_mem_drop (by rw [hq]; simp)))
      omega

/-! ### the `while has_more_to_add` loop -/

def remaining (m : Msg) (o : Offsets) : Nat :=
  (m.questions.length - o.q) + (m.answers.length - o.an) + (m.authorities.length - o.au) + (m.additionals.length - o.ad)

def InBounds (m : Msg) (o : Offsets) : Prop :=
  o.q ≤ m.questions.length ∧ o.an ≤ m.answers.length ∧ o.au ≤ m.authorities.length ∧ o.ad ≤ m.additionals.length

/-- TC handling over a sequence of decoded datagrams: every datagram but the last carries the
"more follows" flags, the last one the plain flags -/
def FlagsOK (m : Msg) : List WMsg → Prop
  | [] => True
  | [w] => w.flags = pktFlags m false
  | w :: w' :: rest => w.flags = pktFlags m true ∧ FlagsOK m (w' :: rest)

def entryCount (w : WMsg) : Nat := w.questions.length + w.answers.length + w.authorities.length + w.additionals.length

theorem take_drop_all {α} (l : List α) (o n : Nat) (h1 : n ≤ (l.drop o).length) (h2 : l.length ≤ o + n) :
    (l.drop o).take n = l.drop o := by
  apply List.take_of_length_le
  simp at h1 ⊢; omega

theorem take_drop_split {α} (l : List α) (o n : Nat) : (l.drop o).take n ++ l.drop (o + n) = l.drop o := by
  rw [← List.drop_drop]; exact List.take_append_drop n (l.drop o)

theorem packetsLoop_spec (m : Msg) (hwf : WFMsg m) (hfit : FitAll m) :
    ∀ (fuel : Nat) (o : Offsets) (pks : List Bytes),
    InBounds m o → remaining m o < fuel → packetsLoop m fuel o = .ok pks →
    ∃ msgs : List WMsg, pks.map Strict.decode = msgs.map some ∧ msgs ≠ [] ∧
      msgs.flatMap (·.questions) = (m.questions.drop o.q).map (EQuestion.onWire m.multicast) ∧
      msgs.flatMap (·.answers) = (m.answers.drop o.an).map (fun x => x.1.onWire m.multicast x.2) ∧
      msgs.flatMap (·.authorities) = (m.authorities.drop o.au).map (fun r => r.onWire m.multicast 0) ∧
      msgs.flatMap (·.additionals) = (m.additionals.drop o.ad).map (fun r => r.onWire m.multicast 0) ∧
      (∀ p ∈ pks, p.length ≤ 8966) ∧
      (∀ p ∈ pks, ∀ w, Strict.decode p = some w → 1460 < p.length → entryCount w = 1) ∧
      (∀ w ∈ msgs, w.id = pktId m) ∧ FlagsOK m msgs := by
  intro fuel
  induction fuel with
  | zero => intro o pks _ hr; omega
  | succ fuel ih =>
    intro o pks hb hr hl
    simp only [packetsLoop, bind, Except.bind] at hl
    cases h1 : onePacket m o with
    | error e => simp [h1] at hl
    | ok r1 =>
    obtain ⟨pkt, o', progress, more⟩ := r1
    simp only [h1] at hl
    obtain ⟨qw, aw, auw, adw, ho', b1, b2, b3, b4, hdec, hsz, hbig, hprog, hmore, hpr⟩ := onePacket_spec m hwf o o' pkt progress more h1
    simp only [List.length_drop] at b1 b2 b3 b4
    have hcount : entryCount (sliceMsg m o qw aw auw adw more) = qw + aw + auw + adw := by
      simp only [entryCount, sliceMsg, List.length_map, List.length_take, List.length_drop]; omega
    have hone : ∀ p ∈ [pkt], ∀ w, Strict.decode p = some w → 1460 < p.length → entryCount w = 1 := by
      intro p hp w hw hlt
      simp only [List.mem_singleton] at hp; subst hp
      rw [hdec] at hw; simp only [Option.some.injEq] at hw; subst hw
      rw [hcount]; exact hbig hlt
    obtain ⟨hb1, hb2, hb3, hb4⟩ := hb
    cases hp : progress with
    | false =>
      subst hp
      simp only [Bool.not_false, if_true, pure, Except.pure, Except.ok.injEq] at hl
      subst hl
      have h0 : qw + aw + auw + adw = 0 := by
        rcases Nat.eq_zero_or_pos (qw + aw + auw + adw) with h | h
        · exact h
        · have := hprog.mpr h; simp at this
      have hnil : m.questions.drop o.q = [] ∧ m.answers.drop o.an = [] ∧ m.authorities.drop o.au = [] ∧ m.additionals.drop o.ad = [] := by
        refine ⟨?_, ?_, ?_, ?_⟩ <;>
        · apply Classical.byContradiction
          intro hne
          have := hpr hfit (by simp [hne])
          omega
      obtain ⟨n1, n2, n3, n4⟩ := hnil
      have hm : more = false := by
        rw [hmore]
        apply Bool.eq_false_iff.mpr
        intro ht
        rw [GenFacts.Outgoing.has_more_iff] at ht
        simp only [List.drop_eq_nil_iff] at n1 n2 n3 n4
        omega
      subst hm
      refine ⟨[sliceMsg m o qw aw auw adw false], by simp [hdec], by simp, ?_, ?_, ?_, ?_, by simpa using hsz, hone, by simp [sliceMsg], by simp [FlagsOK, sliceMsg]⟩ <;>
        simp [sliceMsg, n1, n2, n3, n4]
    | true =>
      subst hp
      have htot : 0 < qw + aw + auw + adw := hprog.mp rfl
      simp only [Bool.not_true, Bool.false_eq_true, if_false] at hl
      cases hm : more with
      | true =>
        subst hm
        simp only [if_true] at hl
        cases h2 : packetsLoop m fuel o' with
        | error e => simp [h2] at hl
        | ok rest =>
          simp only [h2, pure, Except.pure, Except.ok.injEq] at hl
          subst hl
          have hb' : InBounds m o' := by
            subst ho'; refine ⟨?_, ?_, ?_, ?_⟩ <;> dsimp only <;> omega
          have hr' : remaining m o' < fuel := by
            subst ho'; simp only [remaining] at hr ⊢
            omega
          obtain ⟨msgs, e1, ne, s1, s2, s3, s4, z1, z2, z3, z4⟩ := ih o' rest hb' hr' h2
          subst ho'
          refine ⟨sliceMsg m o qw aw auw adw true :: msgs, by simp [hdec, e1], by simp, ?_, ?_, ?_, ?_, ?_, ?_, ?_, ?_⟩
          · simp only [List.flatMap_cons, s1, sliceMsg, ← List.map_append, take_drop_split]
          · simp only [List.flatMap_cons, s2, sliceMsg, ← List.map_append, take_drop_split]
          · simp only [List.flatMap_cons, s3, sliceMsg, ← List.map_append, take_drop_split]
          · simp only [List.flatMap_cons, s4, sliceMsg, ← List.map_append, take_drop_split]
          · intro p hp
            simp only [List.mem_cons] at hp
            rcases hp with rfl | hp
            · exact hsz
            · exact z1 p hp
          · intro p hp
            simp only [List.mem_cons] at hp
            rcases hp with rfl | hp
            · exact hone p (by simp)
            · exact z2 p hp
          · intro w hw
            simp only [List.mem_cons] at hw
            rcases hw with rfl | hw
            · simp [sliceMsg]
            · exact z3 w hw
          · cases msgs with
            | nil => exact absurd rfl ne
            | cons w' rest' => exact ⟨by simp [sliceMsg], z4⟩
      | false =>
        subst hm
        simp only [Bool.false_eq_true, if_false, pure, Except.pure, Except.ok.injEq] at hl
        subst hl
        have hnm : ¬ (o.q + qw < m.questions.length ∨ o.an + aw < m.answers.length ∨ o.au + auw < m.authorities.length ∨ o.ad + adw < m.additionals.length) := by
          rw [← GenFacts.Outgoing.has_more_iff, ← hmore]; simp
        refine ⟨[sliceMsg m o qw aw auw adw false], by simp [hdec], by simp, ?_, ?_, ?_, ?_, by simpa using hsz, hone, by simp [sliceMsg], by simp [FlagsOK, sliceMsg]⟩
        · simp only [List.flatMap_cons, List.flatMap_nil, List.append_nil, sliceMsg]
          rw [take_drop_all _ _ _ (by simp; omega) (by omega)]
        · simp only [List.flatMap_cons, List.flatMap_nil, List.append_nil, sliceMsg]
          rw [take_drop_all _ _ _ (by simp; omega) (by omega)]
        · simp only [List.flatMap_cons, List.flatMap_nil, List.append_nil, sliceMsg]
          rw [take_drop_all _ _ _ (by simp; omega) (by omega)]
        · simp only [List.flatMap_cons, List.flatMap_nil, List.append_nil, sliceMsg]
          rw [take_drop_all _ _ _ (by simp; omega) (by omega)]

end Zc.Wire.Encode
