import Zc.Model.Wire.Encode
import Zc.Proofs.Wire.Scan
import Zc.GenFacts.Outgoing
/-! The core lemma of C01: whatever `writeName` appends decodes — under the independent strict
decoder — to the name written, and every suffix it registered decodes to its key. -/
namespace Zc.Wire.Encode
open Zc Zc.Wire Zc.Wire.Strict

/-- a label the wire format can carry: 1..63 bytes -/
def WFLabel (l : Label) : Prop := 1 ≤ l.length ∧ l.length ≤ 63

instance (l : Label) : Decidable (WFLabel l) := by unfold WFLabel; infer_instance

/-- a names-table entry that is decodable: its offset lies before `S`, after the header and within
pointer range, and the strict decoder reads its key there using at most `key.length` segments -/
def GoodBefore (S : Nat) (buf : Bytes) (p : WName × Nat) : Prop :=
  p.1 ≠ [] ∧ 12 ≤ p.2 ∧ p.2 < S ∧ p.2 < 16384 ∧ ∃ e, decFrom buf p.1.length p.2 p.2 = some (p.1, e)

theorem GoodBefore.append {S buf p} (ext : Bytes) (h : GoodBefore S buf p) : GoodBefore S (buf ++ ext) p := by
  obtain ⟨h1, h2, h3, h4, e, h5⟩ := h
  exact ⟨h1, h2, h3, h4, e, decFrom_append _ _ _ _ _ _ h5⟩

theorem GoodBefore.mono {S S' buf p} (hS : S ≤ S') (h : GoodBefore S buf p) : GoodBefore S' buf p := by
  obtain ⟨h1, h2, h3, h4, h5⟩ := h
  exact ⟨h1, h2, by omega, h4, h5⟩

theorem lookupName_some {names : Names} {n : WName} {idx : Nat}
    (h : lookupName names n = some idx) : (n, idx) ∈ names := by
  unfold lookupName at h
  cases hf : names.find? (fun p => p.1 = n) with
  | none => simp [hf] at h
  | some p =>
    simp only [hf] at h
    split at h
    · simp at h
    · have hm := List.mem_of_find?_eq_some hf
      have hp := List.find?_some hf
      simp at hp h
      have : p = (n, idx) := by cases p; simp_all
      rw [← this]; exact hm

theorem byteOf_ok (v : Nat) (h : v < 256) : byteOf v = .ok [v.toUInt8] := by simp [byteOf, h]

theorem utfOf_ok {l : Label} {b : Bytes} (h : utfOf l = .ok b) : b = l.length.toUInt8 :: l ∧ l.length < 64 := by
  unfold utfOf at h
  split at h
  · simp at h
  · rename_i hn
    have hl := GenFacts.Outgoing.label_ok l.length (by simpa using hn)
    rw [byteOf_ok _ (by omega)] at h
    simp [bind, Except.bind, pure, Except.pure] at h
    exact ⟨h.symm, hl⟩

theorem linkOf_ok {idx : Nat} {b : Bytes} (hidx : idx < 16384) (h : linkOf idx = .ok b) : b = ptrBytes idx := by
  unfold linkOf at h
  rw [GenFacts.Outgoing.link_hi_eq idx hidx, GenFacts.Outgoing.link_lo_eq,
    byteOf_ok _ (by omega), byteOf_ok _ (by omega)] at h
  simp [bind, Except.bind, pure, Except.pure] at h
  simp [ptrBytes, ← h]

theorem writeName_gen : ∀ (rest : WName) (pre : Bytes) (names names' : Names) (out : Bytes) (S : Nat),
    S ≤ pre.length →
    (∀ l ∈ rest, WFLabel l) →
    (∀ p ∈ names, rest.length < p.1.length ∨ GoodBefore S pre p) →
    writeName pre.length names rest = .ok (out, names') →
    (pre ++ out).length ≤ 16384 →
    0 < out.length ∧
    decFrom (pre ++ out) (rest.length + 1) S pre.length = some (rest, (pre ++ out).length) ∧
    (∀ p ∈ names', p ∈ names ∨
        (p.1 ≠ [] ∧ pre.length ≤ p.2 ∧ p.2 < (pre ++ out).length ∧ p.1.length ≤ rest.length ∧
          decFrom (pre ++ out) p.1.length S p.2 = some (p.1, (pre ++ out).length))) := by
  intro rest
  induction rest with
  | nil =>
    intro pre names names' out S hS _ hnames hw hfin
    simp only [writeName, byteOf_ok 0 (by omega), bind, Except.bind, pure, Except.pure, Except.ok.injEq, Prod.mk.injEq] at hw
    obtain ⟨rfl, rfl⟩ := hw
    refine ⟨by simp, ?_, fun p hp => Or.inl hp⟩
    have := decFrom_zero (pre ++ [(0:Nat).toUInt8]) S pre.length [] (by simp)
    simpa using this
  | cons l rest' ih =>
    intro pre names names' out S hS hwf hnames hw hfin
    rw [writeName] at hw
    cases hlk : lookupName names (l :: rest') with
    | some idx =>
      simp only [hlk] at hw
      have hmem := lookupName_some hlk
      have hg : GoodBefore S pre (l :: rest', idx) := by
        rcases hnames _ hmem with h | h
        · simp at h
        · exact h
      obtain ⟨_, h12, hidxS, hidx, e0, hdec⟩ := hg
      cases hlo : linkOf idx with
      | error e => simp [hlo, bind, Except.bind] at hw
      | ok b =>
        simp only [hlo, bind, Except.bind, pure, Except.pure, Except.ok.injEq, Prod.mk.injEq] at hw
        obtain ⟨rfl, rfl⟩ := hw
        have hb := linkOf_ok hidx hlo
        subst hb
        refine ⟨by simp [ptrBytes], ?_, fun p hp => Or.inl hp⟩
        have hd := decFrom_append pre (ptrBytes idx) _ idx idx _ hdec
        have := decFrom_ptr (pre ++ ptrBytes idx) (l :: rest').length S pre.length idx (l :: rest') e0 []
          hidx h12 hidxS (by simp) hd
        simpa [ptrBytes] using this
    | none =>
      simp only [hlk] at hw
      cases hu : utfOf l with
      | error e => simp [hu, bind, Except.bind] at hw
      | ok lb =>
        obtain ⟨hlb, hl⟩ := utfOf_ok hu
        have hl0 : 0 < l.length := (hwf l (by simp)).1
        simp only [hu, bind, Except.bind] at hw
        cases hr : writeName (pre.length + lb.length) ((l :: rest', pre.length) :: names) rest' with
        | error e => simp [hr] at hw
        | ok r =>
          obtain ⟨rb, names2⟩ := r
          simp only [hr, pure, Except.pure, Except.ok.injEq, Prod.mk.injEq] at hw
          obtain ⟨rfl, rfl⟩ := hw
          subst hlb
          let pre1 := pre ++ (l.length.toUInt8 :: l)
          have hpre1 : pre1.length = pre.length + (l.length.toUInt8 :: l).length := by simp [pre1]
          rw [← hpre1] at hr
          have hS1 : S ≤ pre1.length := by omega
          have hn1 : ∀ p ∈ ((l :: rest', pre.length) :: names), rest'.length < p.1.length ∨ GoodBefore S pre1 p := by
            intro p hp
            simp only [List.mem_cons] at hp
            rcases hp with rfl | hp
            · left; simp
            · rcases hnames p hp with h | h
              · left; simp at h; omega
              · right; exact h.append _
          have hfin1 : (pre1 ++ rb).length ≤ 16384 := by simpa [pre1, List.append_assoc] using hfin
          obtain ⟨hpos, hdec, hnew⟩ := ih pre1 _ _ rb S hS1 (fun x hx => hwf x (by simp [hx])) hn1 hr hfin1
          have hbuf : pre ++ (l.length.toUInt8 :: l ++ rb) = pre1 ++ rb := by simp [pre1]
          have hlen1 : pre1.length = pre.length + 1 + l.length := by simp [pre1]; omega
          have hdec0 : decFrom (pre1 ++ rb) (rest'.length + 1) S pre.length = some (l :: rest', (pre1 ++ rb).length) := by
            apply decFrom_label (pre1 ++ rb) _ S pre.length l rb rest' _ hl0 hl
            · simp [pre1]
            · rw [← hlen1]; exact hdec
          rw [hbuf]
          refine ⟨by simp, ?_, ?_⟩
          · exact decFrom_fuel_le _ _ _ _ _ _ (by simp) hdec0
          · intro p hp
            rcases hnew p hp with h | h
            · simp only [List.mem_cons] at h
              rcases h with rfl | h
              · right
                refine ⟨by simp, Nat.le_refl _, ?_, by simp, ?_⟩
                · simp [pre1]
                · simpa using hdec0
              · exact Or.inl h
            · right
              obtain ⟨a, b, c, d, e⟩ := h
              exact ⟨a, by omega, c, by simp; omega, e⟩

/-- structural facts, with no bound on sizes: entries of the new table are old or lie at/after the
start; the output is never empty -/
theorem writeName_names : ∀ (rest : WName) (size : Nat) (names names' : Names) (out : Bytes),
    writeName size names rest = .ok (out, names') →
    (∀ p ∈ names', p ∈ names ∨ size ≤ p.2) ∧ (∀ p ∈ names, p ∈ names') := by
  intro rest
  induction rest with
  | nil =>
    intro size names names' out hw
    simp only [writeName, byteOf_ok 0 (by omega), bind, Except.bind, pure, Except.pure, Except.ok.injEq, Prod.mk.injEq] at hw
    obtain ⟨_, rfl⟩ := hw
    exact ⟨fun p hp => Or.inl hp, fun p hp => hp⟩
  | cons l rest' ih =>
    intro size names names' out hw
    rw [writeName] at hw
    cases hlk : lookupName names (l :: rest') with
    | some idx =>
      simp only [hlk] at hw
      cases hlo : linkOf idx with
      | error e => simp [hlo, bind, Except.bind] at hw
      | ok b =>
        simp only [hlo, bind, Except.bind, pure, Except.pure, Except.ok.injEq, Prod.mk.injEq] at hw
        obtain ⟨_, rfl⟩ := hw
        exact ⟨fun p hp => Or.inl hp, fun p hp => hp⟩
    | none =>
      simp only [hlk] at hw
      cases hu : utfOf l with
      | error e => simp [hu, bind, Except.bind] at hw
      | ok lb =>
        simp only [hu, bind, Except.bind] at hw
        cases hr : writeName (size + lb.length) ((l :: rest', size) :: names) rest' with
        | error e => simp [hr] at hw
        | ok r =>
          obtain ⟨rb, names2⟩ := r
          simp only [hr, pure, Except.pure, Except.ok.injEq, Prod.mk.injEq] at hw
          obtain ⟨_, rfl⟩ := hw
          obtain ⟨h1, h2⟩ := ih _ _ _ _ hr
          refine ⟨fun p hp => ?_, fun p hp => h2 p (by simp [hp])⟩
          rcases h1 p hp with h | h
          · simp only [List.mem_cons] at h
            rcases h with rfl | h
            · right; simp
            · exact Or.inl h
          · right; omega

end Zc.Wire.Encode
