import Zc.Model.Wire.Strict
/-! Structural lemmas about the strict name decoder: stability under appending bytes, fuel and
start-offset monotonicity, and the three one-step decoding lemmas (label, terminator, pointer). -/
namespace Zc.Wire.Strict
open Zc Zc.Wire

theorem scan_mono (l : Bytes) (off f : Nat) (r : Scan) (ext : Bytes) (k : Nat)
    (h : scan l off f = r) (hr : r ≠ .bad) : scan (l ++ ext) off (f + k) = r := by
  induction f generalizing l off r with
  | zero => simp [scan] at h; exact absurd h.symm hr
  | succ f ih =>
    cases l with
    | nil => simp [scan] at h; exact absurd h.symm hr
    | cons b rest =>
      rw [show f + 1 + k = (f + k) + 1 by omega]
      simp only [List.cons_append, scan] at h ⊢
      split at h
      · simp_all
      · split at h
        · split at h
          · exact absurd h.symm hr
          · rename_i hn hlt hlen
            have hlen' : ¬ (rest ++ ext).length < b.toNat := by simp; omega
            simp only [hn, hlt, hlen', if_false, if_true]
            have hd : (rest ++ ext).drop b.toNat = rest.drop b.toNat ++ ext := by
              rw [List.drop_append_of_le_length (by omega)]
            have ht : (rest ++ ext).take b.toNat = rest.take b.toNat := by
              rw [List.take_append_of_le_length (by omega)]
            rw [hd, ht]
            cases hs : scan (rest.drop b.toNat) (off + 1 + b.toNat) f with
            | fin ls e => rw [ih _ _ _ hs (by simp)]; simpa [hs] using h
            | ptr ls k' e => rw [ih _ _ _ hs (by simp)]; simpa [hs] using h
            | bad => simp [hs] at h; exact absurd h.symm hr
        · split at h
          · exact absurd h.symm hr
          · rename_i hn h64 h192
            simp only [hn, h64, h192, if_false]
            cases rest with
            | nil => simp at h; exact absurd h.symm hr
            | cons b2 r2 => simpa using h

/-- fuel is irrelevant once it exceeds the length of the list -/
theorem scan_fuel (l : Bytes) (off f1 f2 : Nat) (h1 : l.length < f1) (h2 : l.length < f2) :
    scan l off f1 = scan l off f2 := by
  induction f1 generalizing l off f2 with
  | zero => omega
  | succ f1 ih =>
    cases f2 with
    | zero => omega
    | succ f2 =>
      cases l with
      | nil => simp [scan]
      | cons b rest =>
        simp only [scan]
        have := ih (rest.drop b.toNat) (off + 1 + b.toNat) f2
          (by simp at h1 ⊢; omega) (by simp at h2 ⊢; omega)
        rw [this]

theorem decFrom_append (buf ext : Bytes) (f S off : Nat) (r : WName × Nat)
    (h : decFrom buf f S off = some r) : decFrom (buf ++ ext) f S off = some r := by
  induction f generalizing S off r with
  | zero => simp [decFrom] at h
  | succ f ih =>
    simp only [decFrom] at h ⊢
    by_cases hoff : off ≤ buf.length
    · have hd : (buf ++ ext).drop off = buf.drop off ++ ext := by
        rw [List.drop_append_of_le_length hoff]
      rw [hd, show (buf ++ ext).length + 1 = (buf.length + 1) + ext.length by simp; omega]
      cases hs : scan (buf.drop off) off (buf.length + 1) with
      | fin ls e => rw [scan_mono _ _ _ _ ext ext.length hs (by simp)]; simpa [hs] using h
      | ptr ls k e =>
        rw [scan_mono _ _ _ _ ext ext.length hs (by simp)]
        simp only [hs] at h ⊢
        split at h
        · rename_i hk
          simp only [hk, and_self, if_true]
          cases hd2 : decFrom buf f k k with
          | none => simp [hd2] at h
          | some r2 => rw [ih _ _ _ hd2]; simpa [hd2] using h
        · simp at h
      | bad => simp [hs] at h
    · have : buf.drop off = [] := List.drop_eq_nil_of_le (by omega)
      simp [this, scan] at h

theorem decFrom_fuel_mono (buf : Bytes) (f S off : Nat) (r : WName × Nat)
    (h : decFrom buf f S off = some r) : decFrom buf (f + 1) S off = some r := by
  induction f generalizing S off r with
  | zero => simp [decFrom] at h
  | succ f ih =>
    rw [decFrom] at h ⊢
    cases hs : scan (buf.drop off) off (buf.length + 1) with
    | fin ls e => simpa [hs] using h
    | ptr ls k e =>
      simp only [hs] at h ⊢
      split at h
      · rename_i hk
        simp only [hk, and_self, if_true]
        cases hd2 : decFrom buf f k k with
        | none => simp [hd2] at h
        | some r2 => rw [ih _ _ _ hd2]; simpa [hd2] using h
      · simp at h
    | bad => simp [hs] at h

theorem decFrom_fuel_le (buf : Bytes) (f g S off : Nat) (r : WName × Nat) (hfg : f ≤ g)
    (h : decFrom buf f S off = some r) : decFrom buf g S off = some r := by
  induction hfg with
  | refl => exact h
  | step _ ih => exact decFrom_fuel_mono _ _ _ _ _ ih

theorem decFrom_start_mono (buf : Bytes) (f S S' off : Nat) (r : WName × Nat) (hS : S ≤ S')
    (h : decFrom buf f S off = some r) : decFrom buf f S' off = some r := by
  cases f with
  | zero => simp [decFrom] at h
  | succ f =>
    rw [decFrom] at h ⊢
    cases hs : scan (buf.drop off) off (buf.length + 1) with
    | fin ls e => simpa [hs] using h
    | ptr ls k e =>
      simp only [hs] at h ⊢
      split at h
      · rename_i hk
        have : 12 ≤ k ∧ k < S' := ⟨hk.1, by omega⟩
        simpa [this] using h
      · simp at h
    | bad => simp [hs] at h

theorem toUInt8_toNat_lt (n : Nat) (h : n < 256) : (n.toUInt8).toNat = n := by
  simp only [Nat.toUInt8_eq, UInt8.toNat_ofNat']; omega

/-- one label step of the decoder -/
theorem decFrom_label (buf : Bytes) (f S off : Nat) (l : Label) (tail : Bytes) (rest : WName) (e : Nat)
    (hl0 : 0 < l.length) (hl : l.length < 64)
    (hb : buf.drop off = l.length.toUInt8 :: (l ++ tail))
    (hrec : decFrom buf f S (off + 1 + l.length) = some (rest, e)) :
    decFrom buf f S off = some (l :: rest, e) := by
  cases f with
  | zero => simp [decFrom] at hrec
  | succ f =>
    have hlen : (l.length.toUInt8).toNat = l.length := toUInt8_toNat_lt _ (by omega)
    have hdrop : buf.drop (off + 1 + l.length) = tail := by
      have : buf.drop (off + 1 + l.length) = (buf.drop off).drop (1 + l.length) := by
        rw [List.drop_drop]; congr 1; omega
      rw [this, hb]; simp [Nat.add_comm 1]
    have htl : tail.length < buf.length := by
      have := congrArg List.length hb
      simp at this; omega
    rw [decFrom] at hrec ⊢
    rw [hdrop] at hrec
    rw [hb]
    simp only [scan, hlen]
    have h0 : ¬ l.length = 0 := by omega
    have hnl : ¬ (l ++ tail).length < l.length := by simp
    simp only [h0, hl, hnl, if_true, if_false]
    have hd2 : (l ++ tail).drop l.length = tail := by simp
    have ht2 : (l ++ tail).take l.length = l := by simp
    rw [hd2, ht2]
    rw [scan_fuel tail (off + 1 + l.length) buf.length (buf.length + 1) htl (by omega)]
    cases hs : scan tail (off + 1 + l.length) (buf.length + 1) with
    | fin ls e' => simp [hs] at hrec ⊢; exact hrec
    | ptr ls k e' =>
      simp only [hs] at hrec ⊢
      split at hrec
      · rename_i hk
        simp only [hk, and_self, if_true]
        cases hd : decFrom buf f k k with
        | none => simp [hd] at hrec
        | some r2 => simp [hd] at hrec ⊢; exact hrec
      · simp at hrec
    | bad => simp [hs] at hrec

theorem decFrom_zero (buf : Bytes) (S off : Nat) (tail : Bytes)
    (hb : buf.drop off = 0 :: tail) : decFrom buf 1 S off = some ([], off + 1) := by
  rw [decFrom, hb]; simp [scan]

def ptrBytes (idx : Nat) : Bytes := [(idx / 256 + 192).toUInt8, (idx % 256).toUInt8]

theorem decFrom_ptr (buf : Bytes) (f S off idx : Nat) (n : WName) (e0 : Nat) (tail : Bytes)
    (hidx : idx < 16384) (h12 : 12 ≤ idx) (hS : idx < S)
    (hb : buf.drop off = ptrBytes idx ++ tail)
    (hrec : decFrom buf f idx idx = some (n, e0)) :
    decFrom buf (f + 1) S off = some (n, off + 2) := by
  rw [decFrom, hb]
  have h1 : ((idx / 256 + 192).toUInt8).toNat = idx / 256 + 192 := toUInt8_toNat_lt _ (by omega)
  have h2 : ((idx % 256).toUInt8).toNat = idx % 256 := toUInt8_toNat_lt _ (by omega)
  simp only [ptrBytes, List.cons_append, List.nil_append, scan, h1, h2]
  have a0 : ¬ idx / 256 + 192 = 0 := by omega
  have a1 : ¬ idx / 256 + 192 < 64 := by omega
  have a2 : ¬ idx / 256 + 192 < 192 := by omega
  have a3 : (idx / 256 + 192 - 192) * 256 + idx % 256 = idx := by omega
  simp only [a0, a1, a2, if_false, a3, hS, h12, and_self, if_true, hrec, List.nil_append]

end Zc.Wire.Strict
