import Zc.Proofs.SurviveEncode
/-! The dichotomy of C01 at the level the builder works at:

* **totality** — a message inside the quantifier (`WFMsg`, 16-bit flags and id, TXT payloads of a size
  that can fit a datagram) is a message the encoder accepts (`MsgSafe`), hence `packets` returns
  datagrams (`packets_total`, proved for C15);
* **rejection** — a name with a label of more than 63 bytes makes `write_name` raise
  `NamePartTooLongException`, whatever the names table holds, and so does a question with such a
  name. -/
namespace Zc.Wire.Encode
open Zc Zc.Wire Zc.Survive

theorem WFName.safe {n : WName} (h : WFName n) : NameSafe n :=
  ⟨fun l hl => (h.2.1 l hl).2, by have := h.2.2.2.2; omega⟩

/-- TXT payloads are of a size that can be carried at all (the rdlength field is 16 bits; anything that
fits an 8966-byte datagram is far below) -/
def TxtBounded (rd : ERData) : Prop := ∀ t, rd = .txt t → t.length ≤ 60000

instance (rd : ERData) : Decidable (TxtBounded rd) :=
  match rd with
  | .txt t => if h : t.length ≤ 60000 then isTrue (by intro t' e; cases e; exact h)
              else isFalse (by intro hh; exact h (hh t rfl))
  | .addr _ => isTrue (by intro t h; cases h)
  | .ptr _ => isTrue (by intro t h; cases h)
  | .srv .. => isTrue (by intro t h; cases h)
  | .hinfo .. => isTrue (by intro t h; cases h)
  | .nsec .. => isTrue (by intro t h; cases h)

theorem WFRData.safe {t : Nat} {rd : ERData} (h : WFRData t rd) (hb : TxtBounded rd) : RDataSafe rd := by
  cases rd with
  | addr a => rcases h with ⟨_, h⟩ | ⟨_, h⟩ <;> simp [RDataSafe, h]
  | ptr x => exact WFName.safe h.2
  | txt x => exact hb x rfl
  | srv p w q x => exact ⟨h.2.1, h.2.2.1, h.2.2.2.1, WFName.safe h.2.2.2.2⟩
  | hinfo c o => exact ⟨h.2.1, h.2.2⟩
  | nsec x ts => exact ⟨WFName.safe h.2.1, h.2.2⟩

theorem WFRec.safe {r : ERecord} {now : Ms} (h : WFRec r now) (hb : TxtBounded r.rdata) : RecSafe r now :=
  ⟨WFName.safe h.1, h.2.1, h.2.2.1, h.2.2.2.1, WFRData.safe h.2.2.2.2 hb⟩

/-- every TXT payload of the message is bounded -/
structure TxtOK (m : Msg) : Prop where
  answers : ∀ x ∈ m.answers, TxtBounded x.1.rdata
  authorities : ∀ r ∈ m.authorities, TxtBounded r.rdata
  additionals : ∀ r ∈ m.additionals, TxtBounded r.rdata

theorem WFMsg.safe {m : Msg} (h : WFMsg m) (hf : m.flags < 65536) (hi : m.id < 65536) (ht : TxtOK m) : MsgSafe m :=
  ⟨hf, hi, fun q hq => ⟨WFName.safe (h.questions q hq).1, (h.questions q hq).2.1, (h.questions q hq).2.2⟩,
   fun x hx => WFRec.safe (h.answers x hx) (ht.answers x hx),
   fun r hr => WFRec.safe (h.authorities r hr) (ht.authorities r hr),
   fun r hr => WFRec.safe (h.additionals r hr) (ht.additionals r hr)⟩

/-! ### rejection -/

theorem utfOf_long {l : Label} (h : 63 < l.length) : utfOf l = .error .namePartTooLong := by
  unfold utfOf
  rw [GenFacts.Outgoing.label_long_rejected _ h]
  rfl

theorem utfOf_short {l : Label} (h : l.length ≤ 63) : utfOf l = .ok (l.length.toUInt8 :: l) := by
  unfold utfOf
  rw [GenFacts.Outgoing.label_short_accepted _ h, byteOf_ok _ (by omega)]
  rfl

/-- **`write_name` rejects a name with an over-long label** with `NamePartTooLongException`, for every
names table whose keys that are no longer than the name have only short labels (true of every table the
builder ever holds: it only registers suffixes of names it is writing, longest first) -/
theorem writeName_rejects (n : WName) : ∀ (size : Nat) (names : Names),
    (∃ l ∈ n, 63 < l.length) → (∀ p ∈ names, p.1.length ≤ n.length → ∀ l ∈ p.1, l.length ≤ 63) →
    writeName size names n = .error .namePartTooLong := by
  induction n with
  | nil => intro _ _ ⟨l, hl, _⟩; simp at hl
  | cons l rest ih =>
    intro size names hbad hnames
    unfold writeName
    cases hlk : lookupName names (l :: rest) with
    | some idx =>
      have hp := lookupName_some hlk
      obtain ⟨b, hb, hbl⟩ := hbad
      have := hnames _ hp (Nat.le_refl _) b hb
      omega
    | none =>
      simp only
      by_cases hl : 63 < l.length
      · rw [utfOf_long hl]; rfl
      · rw [utfOf_short (by omega)]
        have hrest : ∃ b ∈ rest, 63 < b.length := by
          obtain ⟨b, hb, hbl⟩ := hbad
          rcases List.mem_cons.mp hb with rfl | hb'
          · omega
          · exact ⟨b, hb', hbl⟩
        have := ih (size + (l.length.toUInt8 :: l).length) ((l :: rest, size) :: names) hrest (by
          intro p hp hlen
          rcases List.mem_cons.mp hp with rfl | hp'
          · simp at hlen; omega
          · exact hnames p hp' (by simp; omega))
        simp only [bind, Except.bind, this]

/-- a question whose name has an over-long label is rejected with `NamePartTooLongException` -/
theorem encQuestion_rejects (mc : Bool) (size : Nat) (names : Names) (q : EQuestion)
    (hbad : ∃ l ∈ q.name, 63 < l.length)
    (hnames : ∀ p ∈ names, p.1.length ≤ q.name.length → ∀ l ∈ p.1, l.length ≤ 63) :
    encQuestion mc size names q = .error .namePartTooLong := by
  unfold encQuestion
  rw [writeName_rejects q.name size names hbad hnames]
  rfl

end Zc.Wire.Encode
