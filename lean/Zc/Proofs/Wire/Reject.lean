import Zc.Proofs.Wire.Total
/-! The **rejection half** of C01's dichotomy, at every level the builder works at.

* `ShortKeys` — every key of the names table has labels of at most 63 bytes — is an invariant of every state the
  builder passes through (`writeName_ok_short`, `enc*_shortKeys`, `write*_shortKeys`, `sectionLoop_mixed`): a key is
  registered before its first label is checked, but if the check fails the whole `packets()` call is abandoned, and
  the remaining labels of a registered key are checked (or found in the table) before `write_name` returns.
* With it, `write_name` / a question / a **record** (owner name or a name inside its rdata) with a label of more than
  63 bytes raises `NamePartTooLongException` from *every* reachable state (`writeName_rejects_short`,
  `encQuestion_rejects_short`, `encRecord_rejects`, `writeQuestion_rejects`, `writeRecord_rejects`).
* Message level (`packets_rejects`): if every entry is either acceptable (`QSafe` / `RecSafe`) or has an over-long
  label, every acceptable entry alone fits 8966 bytes (`FitAll`) and at least one entry has an over-long label, then
  `packets m = .error .namePartTooLong`.  (`FitAll` is needed: an entry that alone exceeds 8966 bytes in front of the
  offending one ends the loop first — "no progress" — and `packets()` returns.) -/
namespace Zc.Wire.Encode
open Zc Zc.Wire Zc.Survive

/-- some label of the name is longer than 63 bytes -/
def HasLong (n : WName) : Prop := ∃ l ∈ n, 63 < l.length

instance (n : WName) : Decidable (HasLong n) := by unfold HasLong; infer_instance

/-- every key of the names table has passed the label guard: labels of at most 63 bytes only -/
def ShortKeys (names : Names) : Prop := ∀ p ∈ names, ∀ l ∈ p.1, l.length ≤ 63

instance (names : Names) : Decidable (ShortKeys names) := by unfold ShortKeys; infer_instance

theorem ShortKeys.nil : ShortKeys [] := fun _ hp => by simp at hp

theorem ShortKeys.filter {names : Names} (h : ShortKeys names) (f : WName × Nat → Bool) : ShortKeys (names.filter f) :=
  fun p hp => h p (List.mem_filter.mp hp).1

/-- `write_name` rejects a name with an over-long label from every table whose keys are short -/
theorem writeName_rejects_short (n : WName) (size : Nat) (names : Names) (hbad : HasLong n) (hk : ShortKeys names) :
    writeName size names n = .error .namePartTooLong :=
  writeName_rejects n size names hbad (fun p hp _ => hk p hp)

/-- the keys `write_name` adds are suffixes of the name it writes -/
theorem writeName_keys : ∀ (n : WName) (size : Nat) (names names' : Names) (out : Bytes),
    writeName size names n = .ok (out, names') → ∀ p ∈ names', p ∈ names ∨ p.1 <:+ n := by
  intro n
  induction n with
  | nil =>
    intro size names names' out hw
    simp only [writeName, byteOf_ok 0 (by omega), bind, Except.bind, pure, Except.pure, Except.ok.injEq, Prod.mk.injEq] at hw
    obtain ⟨_, rfl⟩ := hw
    exact fun p hp => Or.inl hp
  | cons l rest ih =>
    intro size names names' out hw
    rw [writeName] at hw
    cases hlk : lookupName names (l :: rest) with
    | some idx =>
      simp only [hlk] at hw
      cases hlo : linkOf idx with
      | error e => simp [hlo, bind, Except.bind] at hw
      | ok b =>
        simp only [hlo, bind, Except.bind, pure, Except.pure, Except.ok.injEq, Prod.mk.injEq] at hw
        obtain ⟨_, rfl⟩ := hw
        exact fun p hp => Or.inl hp
    | none =>
      simp only [hlk] at hw
      cases hu : utfOf l with
      | error e => simp [hu, bind, Except.bind] at hw
      | ok lb =>
        simp only [hu, bind, Except.bind] at hw
        cases hr : writeName (size + lb.length) ((l :: rest, size) :: names) rest with
        | error e => simp [hr] at hw
        | ok r =>
          obtain ⟨rb, names2⟩ := r
          simp only [hr, pure, Except.pure, Except.ok.injEq, Prod.mk.injEq] at hw
          obtain ⟨_, rfl⟩ := hw
          intro p hp
          rcases ih _ _ _ _ hr p hp with h | h
          · simp only [List.mem_cons] at h
            rcases h with rfl | h
            · exact Or.inr (List.suffix_refl _)
            · exact Or.inl h
          · exact Or.inr (h.trans (List.suffix_cons l rest))

/-- if `write_name` returns, the name has short labels only and the table's keys are still short -/
theorem writeName_ok_short (n : WName) (size : Nat) (names names' : Names) (out : Bytes) (hk : ShortKeys names)
    (hw : writeName size names n = .ok (out, names')) : (∀ l ∈ n, l.length ≤ 63) ∧ ShortKeys names' := by
  have hn : ∀ l ∈ n, l.length ≤ 63 := by
    intro l hl
    apply Classical.byContradiction
    intro hlt
    have := writeName_rejects_short n size names ⟨l, hl, by omega⟩ hk
    rw [this] at hw
    cases hw
  refine ⟨hn, ?_⟩
  intro p hp l hl
  rcases writeName_keys n size names names' out hw p hp with h | h
  · exact hk p h l hl
  · exact hn l (h.subset hl)

/-! ### entries keep the invariant -/

theorem encQuestion_shortKeys (mc : Bool) (size : Nat) (names names' : Names) (out : Bytes) (q : EQuestion)
    (hk : ShortKeys names) (hw : encQuestion mc size names q = .ok (out, names')) : ShortKeys names' := by
  unfold encQuestion at hw
  simp only [bind, Except.bind] at hw
  cases h1 : writeName size names q.name with
  | error e => simp [h1] at hw
  | ok r1 =>
    obtain ⟨nb, n1⟩ := r1
    simp only [h1] at hw
    cases h2 : shortOf q.qtype with
    | error e => simp [h2] at hw
    | ok a =>
      simp only [h2] at hw
      cases h3 : shortOf (classField q.qclass q.unique mc) with
      | error e => simp [h3] at hw
      | ok b =>
        simp only [h3, pure, Except.pure, Except.ok.injEq, Prod.mk.injEq] at hw
        obtain ⟨_, rfl⟩ := hw
        exact (writeName_ok_short q.name size names _ nb hk h1).2

theorem encRData_shortKeys (size : Nat) (names names' : Names) (out : Bytes) (rd : ERData)
    (hk : ShortKeys names) (hw : encRData size names rd = .ok (out, names')) : ShortKeys names' := by
  cases rd with
  | addr a => simp only [encRData, pure, Except.pure, Except.ok.injEq, Prod.mk.injEq] at hw; obtain ⟨_, rfl⟩ := hw; exact hk
  | txt a => simp only [encRData, pure, Except.pure, Except.ok.injEq, Prod.mk.injEq] at hw; obtain ⟨_, rfl⟩ := hw; exact hk
  | ptr t => exact (writeName_ok_short t size names names' out hk hw).2
  | srv p w q t =>
    simp only [encRData, bind, Except.bind] at hw
    cases h1 : shortOf p with
    | error e => simp [h1] at hw
    | ok a =>
      cases h2 : shortOf w with
      | error e => simp [h1, h2] at hw
      | ok b =>
        cases h3 : shortOf q with
        | error e => simp [h1, h2, h3] at hw
        | ok c =>
          cases h4 : writeName (size + 6) names t with
          | error e => simp [h1, h2, h3, h4] at hw
          | ok r =>
            obtain ⟨nb, n1⟩ := r
            simp only [h1, h2, h3, h4, pure, Except.pure, Except.ok.injEq, Prod.mk.injEq] at hw
            obtain ⟨_, rfl⟩ := hw
            exact (writeName_ok_short t _ names _ nb hk h4).2
  | hinfo c o =>
    simp only [encRData, bind, Except.bind] at hw
    cases h1 : charStringOf c with
    | error e => simp [h1] at hw
    | ok a =>
      cases h2 : charStringOf o with
      | error e => simp [h1, h2] at hw
      | ok b =>
        simp only [h1, h2, pure, Except.pure, Except.ok.injEq, Prod.mk.injEq] at hw
        obtain ⟨_, rfl⟩ := hw; exact hk
  | nsec n ts =>
    simp only [encRData, bind, Except.bind] at hw
    cases h0 : nsecBitmap ts with
    | error e => simp [h0] at hw
    | ok bm =>
      cases h1 : writeName size names n with
      | error e => simp [h0, h1] at hw
      | ok r =>
        obtain ⟨nb, n1⟩ := r
        cases h2 : byteOf 0 with
        | error e => simp [h0, h1, h2] at hw
        | ok z =>
          cases h3 : byteOf bm.length with
          | error e => simp [h0, h1, h2, h3] at hw
          | ok lb =>
            simp only [h0, h1, h2, h3, pure, Except.pure, Except.ok.injEq, Prod.mk.injEq] at hw
            obtain ⟨_, rfl⟩ := hw
            exact (writeName_ok_short n size names _ nb hk h1).2

theorem encRecord_shortKeys (mc : Bool) (size : Nat) (names names' : Names) (out : Bytes) (r : ERecord) (now : Ms)
    (hk : ShortKeys names) (hw : encRecord mc size names r now = .ok (out, names')) : ShortKeys names' := by
  unfold encRecord at hw
  simp only [bind, Except.bind] at hw
  cases h1 : writeName size names r.name with
  | error e => simp [h1] at hw
  | ok r1 =>
    obtain ⟨nb, n1⟩ := r1
    simp only [h1] at hw
    cases h2 : shortOf r.rtype with
    | error e => simp [h2] at hw
    | ok a =>
      simp only [h2] at hw
      cases h3 : shortOf (classField r.rclass r.unique mc) with
      | error e => simp [h3] at hw
      | ok b =>
        simp only [h3] at hw
        cases h4 : (if ttlField r now < 0 then (Except.error PyExc.structError : Except PyExc Bytes) else intOf (ttlField r now).toNat) with
        | error e => simp [h4] at hw
        | ok c =>
          simp only [h4] at hw
          cases h5 : encRData (size + nb.length + 10) n1 r.rdata with
          | error e => simp [h5] at hw
          | ok r5 =>
            obtain ⟨rd, n2⟩ := r5
            simp only [h5] at hw
            cases h6 : shortOf rd.length with
            | error e => simp [h6] at hw
            | ok d =>
              simp only [h6, pure, Except.pure, Except.ok.injEq, Prod.mk.injEq] at hw
              obtain ⟨_, rfl⟩ := hw
              exact encRData_shortKeys _ n1 _ rd r.rdata (writeName_ok_short r.name size names n1 nb hk h1).2 h5

theorem commit_shortKeys (st : St) (b : Bytes) (names' : Names) (hk : ShortKeys names') : ShortKeys (commit st b names').1.names := by
  unfold commit
  dsimp only
  split
  · exact hk
  · exact hk.filter _

theorem writeQuestion_shortKeys (mc : Bool) (st st' : St) (q : EQuestion) (ok : Bool) (hk : ShortKeys st.names)
    (hw : writeQuestion mc st q = .ok (st', ok)) : ShortKeys st'.names := by
  unfold writeQuestion at hw
  simp only [bind, Except.bind] at hw
  cases h1 : encQuestion mc st.size st.names q with
  | error e => simp [h1] at hw
  | ok r1 =>
    obtain ⟨b, names'⟩ := r1
    simp only [h1, pure, Except.pure, Except.ok.injEq] at hw
    have := commit_shortKeys st b names' (encQuestion_shortKeys mc _ _ _ _ q hk h1)
    rw [hw] at this
    exact this

theorem writeRecord_shortKeys (mc : Bool) (st st' : St) (r : ERecord) (now : Ms) (ok : Bool) (hk : ShortKeys st.names)
    (hw : writeRecord mc st r now = .ok (st', ok)) : ShortKeys st'.names := by
  unfold writeRecord at hw
  simp only [bind, Except.bind] at hw
  cases h1 : encRecord mc st.size st.names r now with
  | error e => simp [h1] at hw
  | ok r1 =>
    obtain ⟨b, names'⟩ := r1
    simp only [h1, pure, Except.pure, Except.ok.injEq] at hw
    have := commit_shortKeys st b names' (encRecord_shortKeys mc _ _ _ _ r now hk h1)
    rw [hw] at this
    exact this

/-! ### rejection at entry level -/

/-- a question whose name has an over-long label is rejected, from every table with short keys, at every offset -/
theorem encQuestion_rejects_short (mc : Bool) (size : Nat) (names : Names) (q : EQuestion)
    (hbad : HasLong q.name) (hk : ShortKeys names) : encQuestion mc size names q = .error .namePartTooLong :=
  encQuestion_rejects mc size names q hbad (fun p hp _ => hk p hp)

/-- rdata with an over-long label in the name it carries, everything written in front of that name being in range -/
def RDataLong : ERData → Prop
  | .ptr t => HasLong t
  | .srv p w q t => p < 65536 ∧ w < 65536 ∧ q < 65536 ∧ HasLong t
  | .nsec n ts => WFTypes ts ∧ HasLong n
  | _ => False

instance (rd : ERData) : Decidable (RDataLong rd) := by cases rd <;> unfold RDataLong <;> infer_instance

theorem encRData_rejects (size : Nat) (names : Names) (rd : ERData) (hbad : RDataLong rd) (hk : ShortKeys names) :
    encRData size names rd = .error .namePartTooLong := by
  cases rd with
  | addr a => exact absurd hbad (by simp [RDataLong])
  | txt a => exact absurd hbad (by simp [RDataLong])
  | hinfo c o => exact absurd hbad (by simp [RDataLong])
  | ptr t => exact writeName_rejects_short t size names hbad hk
  | srv p w q t =>
    obtain ⟨hp, hw', hq, hl⟩ := hbad
    simp only [encRData, bind, Except.bind, shortOf_total hp, shortOf_total hw', shortOf_total hq,
      writeName_rejects_short t (size + 6) names hl hk]
  | nsec n ts =>
    obtain ⟨hts, hl⟩ := hbad
    obtain ⟨bm, hbm, _⟩ := nsecBitmap_spec ts hts
    simp only [encRData, bind, Except.bind, hbm, writeName_rejects_short n size names hl hk]

/-- a **record** with an over-long label: in its owner name, or — the owner name and the fixed fields being in range —
in the name its rdata carries (PTR/CNAME target, SRV target, NSEC next name) -/
def RecLong (r : ERecord) (now : Ms) : Prop :=
  HasLong r.name ∨
    (NameSafe r.name ∧ r.rtype < 65536 ∧ r.rclass < 32768 ∧ wireTtl r now < 4294967296 ∧ RDataLong r.rdata)

instance (r : ERecord) (now : Ms) : Decidable (RecLong r now) := by unfold RecLong; infer_instance

/-- **a record with an over-long label is rejected** with `NamePartTooLongException` and nothing else, from every
names table the builder can hold (`ShortKeys`, offsets that fit a pointer) at every size a packet can have -/
theorem encRecord_rejects (mc : Bool) (size : Nat) (names : Names) (r : ERecord) (now : Ms) (hbad : RecLong r now)
    (hs : NamesSmall names) (hk : ShortKeys names) (hsz : size ≤ 8966) :
    encRecord mc size names r now = .error .namePartTooLong := by
  unfold encRecord
  rcases hbad with hl | ⟨⟨hl, hw⟩, ht, hc, httl, hrd⟩
  · simp only [bind, Except.bind, writeName_rejects_short r.name size names hl hk]
  · obtain ⟨nb, names1, hn, _, _⟩ := writeName_total r.name size names hl hs (by omega)
    obtain ⟨hnn, htn⟩ := ttlField_eq r now
    have hk1 := (writeName_ok_short r.name size names names1 nb hk hn).2
    simp only [bind, Except.bind, hn, shortOf_total ht, shortOf_total (classField_lt _ _ _ hc)]
    rw [if_neg (by omega), intOf_total (by rw [htn]; exact httl)]
    simp only [encRData_rejects _ names1 r.rdata hrd hk1]

/-! ### rejection at state level: every state the builder passes through -/

/-- what is true of the packet under construction at every point of a `packets()` run that has not raised:
it is at most 8966 bytes long, every offset in its names table fits a pointer, every key has short labels -/
def Reach (st : St) : Prop := StOK st ∧ ShortKeys st.names

theorem Reach.fresh : Reach St.fresh := ⟨StOK.fresh, by simp [St.fresh, ShortKeys]⟩

theorem writeQuestion_rejects (mc : Bool) (st : St) (q : EQuestion) (hr : Reach st) (hbad : HasLong q.name) :
    writeQuestion mc st q = .error .namePartTooLong := by
  unfold writeQuestion
  simp only [bind, Except.bind, encQuestion_rejects_short mc st.size st.names q hbad hr.2]

theorem writeRecord_rejects (mc : Bool) (st : St) (r : ERecord) (now : Ms) (hr : Reach st) (hbad : RecLong r now) :
    writeRecord mc st r now = .error .namePartTooLong := by
  unfold writeRecord
  simp only [bind, Except.bind, encRecord_rejects mc st.size st.names r now hbad hr.1.2 hr.2 hr.1.1]

/-! ### what `commit` does to the body -/

theorem commit_false_body (st : St) (b : Bytes) (names' : Names) (h : (commit st b names').2 = false) :
    (commit st b names').1.body = st.body := by
  unfold commit at h ⊢
  dsimp only at h ⊢
  split
  · rename_i hf; simp [hf] at h
  · rfl

theorem commit_true_body (st : St) (b : Bytes) (names' : Names) (h : (commit st b names').2 = true) :
    (commit st b names').1.body = st.body ++ b := by
  unfold commit at h ⊢
  dsimp only at h ⊢
  split
  · rfl
  · rename_i hf; simp [hf] at h

theorem commit_fresh_fits (st : St) (b : Bytes) (names' : Names) (hal : st.allowLong = true) (hb : st.body = [])
    (hfit : 12 + b.length ≤ 8966) : (commit st b names').2 = true := by
  have hs : st.size = 12 := by simp [St.size, hb, GenFacts.Outgoing.header_len]
  have : Gen.Outgoing.fits (st.size + b.length) (Gen.Outgoing.len_limit st.allowLong) = true := by
    rw [GenFacts.Outgoing.fits_iff, hal, GenFacts.Outgoing.len_limit_true, hs]; exact hfit
  unfold commit
  dsimp only
  rw [if_pos this]

/-! ### the section loops, generically -/

/-- the shape shared by `_write_questions_from_offset`, `_write_answers_from_offset` and `_write_records_from_offset` -/
def sectionLoop {α : Type} (w : St → α → Except PyExc (St × Bool)) : St → List α → Except PyExc (St × Nat)
  | st, [] => pure (st, 0)
  | st, a :: rest => do
    let (st1, ok) ← w st a
    if ok then
      let (st2, n) ← sectionLoop w st1 rest
      pure (st2, n + 1)
    else pure (st1, 0)

theorem writeQuestions_eq_loop (mc : Bool) : ∀ (qs : List EQuestion) (st : St),
    writeQuestions mc st qs = sectionLoop (writeQuestion mc) st qs := by
  intro qs
  induction qs with
  | nil => intro st; rfl
  | cons q rest ih =>
    intro st
    simp only [writeQuestions, sectionLoop, ih]

theorem writeAnswers_eq_loop (mc : Bool) : ∀ (rs : List (ERecord × Ms)) (st : St),
    writeAnswers mc st rs = sectionLoop (fun st x => writeRecord mc st x.1 x.2) st rs := by
  intro rs
  induction rs with
  | nil => intro st; rfl
  | cons x rest ih =>
    intro st
    obtain ⟨r, now⟩ := x
    simp only [writeAnswers, sectionLoop, ih]

/-- what one step of a section loop does, for entries that are acceptable (`Good`) or carry an over-long label (`Bad`) -/
structure StepOK {α : Type} (w : St → α → Except PyExc (St × Bool)) (Good Bad : α → Prop) (alone : α → Nat) : Prop where
  bad : ∀ st a, Reach st → Bad a → w st a = .error .namePartTooLong
  good : ∀ st a, Reach st → Good a → ∃ st' ok, w st a = .ok (st', ok) ∧ Reach st' ∧
    (ok = false → st'.body = st.body) ∧ (ok = true → st.body.length + 1 ≤ st'.body.length) ∧
    (st.allowLong = true → st.names = [] → st.body = [] → alone a ≤ 8966 → ok = true)

/-- a section loop over acceptable / over-long entries either raises `NamePartTooLongException` or returns having
consumed acceptable entries only -/
theorem sectionLoop_mixed {α : Type} (w : St → α → Except PyExc (St × Bool)) (Good Bad : α → Prop) (alone : α → Nat)
    (hs : StepOK w Good Bad alone) : ∀ (rs : List α) (st : St), Reach st → (∀ a ∈ rs, Good a ∨ Bad a) →
    sectionLoop w st rs = .error .namePartTooLong ∨
    ∃ st' n, sectionLoop w st rs = .ok (st', n) ∧ Reach st' ∧ n ≤ rs.length ∧
      (∀ a ∈ rs.take n, Good a) ∧ st.body.length + n ≤ st'.body.length ∧ (rs = [] → st' = st) ∧
      (∀ a rest, rs = a :: rest → Good a) ∧
      (∀ a rest, rs = a :: rest → st.allowLong = true → st.names = [] → st.body = [] → alone a ≤ 8966 → 1 ≤ n) := by
  intro rs
  induction rs with
  | nil =>
    intro st hr _
    exact Or.inr ⟨st, 0, rfl, hr, Nat.le_refl _, fun a ha => by simp at ha, Nat.le_refl _, fun _ => rfl,
      fun a rest h => by simp at h, fun a rest h => by simp at h⟩
  | cons a rest ih =>
    intro st hr hmix
    rcases hmix a (by simp) with hg | hb
    · obtain ⟨st1, ok, hw, hr1, hfalse, htrue, hfit⟩ := hs.good st a hr hg
      cases ok with
      | false =>
        right
        refine ⟨st1, 0, by simp [sectionLoop, hw, bind, Except.bind, pure, Except.pure], hr1, Nat.zero_le _,
          fun x hx => by simp at hx, by rw [hfalse rfl]; omega, fun h => by simp at h, ?_, ?_⟩
        · intro x r' hx; simp only [List.cons.injEq] at hx; rw [← hx.1]; exact hg
        · intro x r' hx hal hn hbd hal8
          simp only [List.cons.injEq] at hx
          rw [← hx.1] at hal8
          have := hfit hal hn hbd hal8
          simp at this
      | true =>
        rcases ih st1 hr1 (fun x hx => hmix x (by simp [hx])) with he | ⟨st2, n, hw2, hr2, hn, htake, hlen, _, _, _⟩
        · left
          simp [sectionLoop, hw, he, bind, Except.bind]
        · right
          refine ⟨st2, n + 1, by simp [sectionLoop, hw, hw2, bind, Except.bind, pure, Except.pure], hr2, by simp; omega, ?_,
            by have := htrue rfl; omega, fun h => by simp at h, ?_, fun _ _ _ _ _ _ _ => by omega⟩
          · intro x hx
            simp only [List.take_succ_cons, List.mem_cons] at hx
            rcases hx with rfl | hx
            · exact hg
            · exact htake x hx
          · intro x r' hx; simp only [List.cons.injEq] at hx; rw [← hx.1]; exact hg
    · left
      simp [sectionLoop, hs.bad st a hr hb, bind, Except.bind]

/-- a question that is acceptable, or whose name has an over-long label -/
theorem stepOK_question (mc : Bool) :
    StepOK (writeQuestion mc) QSafe (fun q => HasLong q.name) (questionAloneSize mc) where
  bad := fun st q hr hb => writeQuestion_rejects mc st q hr hb
  good := by
    intro st q hr hg
    obtain ⟨b, names', he, hsm⟩ := encQuestion_total mc st.size st.names q hg hr.1.2 (by have := hr.1.1; omega)
    have hw : writeQuestion mc st q = .ok (commit st b names') := by
      unfold writeQuestion; rw [he]; rfl
    refine ⟨(commit st b names').1, (commit st b names').2, hw, ⟨commit_ok st b names' hr.1 hsm, ?_⟩, ?_, ?_, ?_⟩
    · exact commit_shortKeys st b names' (encQuestion_shortKeys mc _ _ _ _ q hr.2 he)
    · exact commit_false_body st b names'
    · intro h
      rw [commit_true_body st b names' h]
      have := encQuestion_pos mc _ _ _ _ q he
      simp; omega
    · intro hal hn hbd hfit
      apply commit_fresh_fits st b names' hal hbd
      have hs : st.size = 12 := by simp [St.size, hbd, GenFacts.Outgoing.header_len]
      rw [hs, hn] at he
      simpa [questionAloneSize, he] using hfit

/-- a record that is acceptable, or carries an over-long label -/
theorem stepOK_record (mc : Bool) :
    StepOK (fun st (x : ERecord × Ms) => writeRecord mc st x.1 x.2) (fun x => RecSafe x.1 x.2) (fun x => RecLong x.1 x.2)
      (recordAloneSize mc) where
  bad := fun st x hr hb => writeRecord_rejects mc st x.1 x.2 hr hb
  good := by
    intro st x hr hg
    obtain ⟨r, now⟩ := x
    obtain ⟨b, names', he, hsm⟩ := encRecord_total mc st.size st.names r now hg hr.1.2 hr.1.1
    have hw : writeRecord mc st r now = .ok (commit st b names') := by
      unfold writeRecord; rw [he]; rfl
    refine ⟨(commit st b names').1, (commit st b names').2, hw, ⟨commit_ok st b names' hr.1 hsm, ?_⟩, ?_, ?_, ?_⟩
    · exact commit_shortKeys st b names' (encRecord_shortKeys mc _ _ _ _ r now hr.2 he)
    · exact commit_false_body st b names'
    · intro h
      rw [commit_true_body st b names' h]
      have := encRecord_pos mc _ _ _ _ r now he
      simp; omega
    · intro hal hn hbd hfit
      apply commit_fresh_fits st b names' hal hbd
      have hs : st.size = 12 := by simp [St.size, hbd, GenFacts.Outgoing.header_len]
      rw [hs, hn] at he
      simpa [recordAloneSize, he] using hfit

/-! ### message level -/

/-- every entry is acceptable to the encoder or has an over-long label; 16-bit flags and id -/
structure MsgMixed (m : Msg) : Prop where
  flags : m.flags < 65536
  id : m.id < 65536
  questions : ∀ q ∈ m.questions, QSafe q ∨ HasLong q.name
  answers : ∀ x ∈ m.answers, RecSafe x.1 x.2 ∨ RecLong x.1 x.2
  authorities : ∀ r ∈ m.authorities, RecSafe r 0 ∨ RecLong r 0
  additionals : ∀ r ∈ m.additionals, RecSafe r 0 ∨ RecLong r 0

/-- an entry with an over-long label is still waiting behind the offsets -/
def LongRemains (m : Msg) (o : Offsets) : Prop :=
  (∃ q ∈ m.questions.drop o.q, HasLong q.name) ∨ (∃ x ∈ m.answers.drop o.an, RecLong x.1 x.2) ∨
  (∃ r ∈ m.authorities.drop o.au, RecLong r 0) ∨ (∃ r ∈ m.additionals.drop o.ad, RecLong r 0)

instance (m : Msg) (o : Offsets) : Decidable (LongRemains m o) := by unfold LongRemains; infer_instance

/-- some entry of the message has an over-long label -/
def HasLongEntry (m : Msg) : Prop := LongRemains m ⟨0, 0, 0, 0⟩

instance (m : Msg) : Decidable (HasLongEntry m) := by unfold HasLongEntry; infer_instance

theorem not_long_of_safe_q {q : EQuestion} (h : QSafe q) : ¬ HasLong q.name := by
  rintro ⟨l, hl, hlt⟩
  have := h.1.1 l hl
  omega

theorem not_long_of_safe_r {r : ERecord} {now : Ms} (h : RecSafe r now) : ¬ RecLong r now := by
  obtain ⟨⟨hn, _⟩, _, _, _, hrd⟩ := h
  rintro (⟨l, hl, hlt⟩ | ⟨_, _, _, _, hbad⟩)
  · have := hn l hl; omega
  · cases hr : r.rdata with
    | addr a => rw [hr] at hbad; exact hbad
    | txt a => rw [hr] at hbad; exact hbad
    | hinfo c o => rw [hr] at hbad; exact hbad
    | ptr t =>
      rw [hr] at hbad hrd
      obtain ⟨l, hl, hlt⟩ := hbad
      have := hrd.1 l hl; omega
    | srv p w q t =>
      rw [hr] at hbad hrd
      obtain ⟨_, _, _, l, hl, hlt⟩ := hbad
      have := hrd.2.2.2.1 l hl; omega
    | nsec n ts =>
      rw [hr] at hbad hrd
      obtain ⟨_, l, hl, hlt⟩ := hbad
      have := hrd.1.1 l hl; omega

/-- if the entries a section loop consumed are all acceptable, an over-long entry of that section is still waiting -/
theorem long_survives {α : Type} (Good Bad : α → Prop) (hex : ∀ a, Good a → ¬ Bad a) (l : List α) (o n : Nat)
    (htake : ∀ a ∈ (l.drop o).take n, Good a) (h : ∃ a ∈ l.drop o, Bad a) : ∃ a ∈ l.drop (o + n), Bad a := by
  obtain ⟨a, ha, hb⟩ := h
  rw [← List.take_append_drop n (l.drop o)] at ha
  rcases List.mem_append.mp ha with h1 | h1
  · exact absurd hb (hex a (htake a h1))
  · exact ⟨a, by rw [← List.drop_drop]; exact h1, hb⟩

theorem mem_map_pair {rs : List ERecord} {P : ERecord × Ms → Prop} (h : ∀ r ∈ rs, P (r, 0)) :
    ∀ x ∈ rs.map (fun r => ((r, 0) : ERecord × Ms)), P x := by
  intro x hx
  simp only [List.mem_map] at hx
  obtain ⟨r, hr, rfl⟩ := hx
  exact h r hr

/-- one iteration of the `while has_more_to_add` loop on a message with an over-long entry still waiting: it raises
`NamePartTooLongException`, or it emits a datagram having consumed at least one entry — acceptable ones only — and
more remains -/
theorem onePacket_mixed (m : Msg) (hm : MsgMixed m) (hfit : FitAll m) (o : Offsets) (hb : InBounds m o) (hl : LongRemains m o) :
    onePacket m o = .error .namePartTooLong ∨
    ∃ pkt o', onePacket m o = .ok (pkt, o', true, true) ∧ InBounds m o' ∧ remaining m o' < remaining m o ∧ LongRemains m o' := by
  have mq : ∀ q ∈ m.questions.drop o.q, QSafe q ∨ HasLong q.name := fun q hq => hm.questions q (List.mem_of_mem_drop hq)
  have ma : ∀ x ∈ m.answers.drop o.an, RecSafe x.1 x.2 ∨ RecLong x.1 x.2 := fun x hx => hm.answers x (List.mem_of_mem_drop hx)
  have mu : ∀ x ∈ (m.authorities.drop o.au).map (fun r => ((r, 0) : ERecord × Ms)), RecSafe x.1 x.2 ∨ RecLong x.1 x.2 :=
    mem_map_pair (P := fun x => RecSafe x.1 x.2 ∨ RecLong x.1 x.2) (fun r hr => hm.authorities r (List.mem_of_mem_drop hr))
  have md : ∀ x ∈ (m.additionals.drop o.ad).map (fun r => ((r, 0) : ERecord × Ms)), RecSafe x.1 x.2 ∨ RecLong x.1 x.2 :=
    mem_map_pair (P := fun x => RecSafe x.1 x.2 ∨ RecLong x.1 x.2) (fun r hr => hm.additionals r (List.mem_of_mem_drop hr))
  unfold onePacket
  simp only [bind, Except.bind, writeRecords, writeQuestions_eq_loop, writeAnswers_eq_loop]
  rcases sectionLoop_mixed _ _ _ _ (stepOK_question m.multicast) (m.questions.drop o.q) St.fresh Reach.fresh mq with
    e1 | ⟨s1, qw, h1, r1, n1, t1, l1, z1, g1, p1⟩
  · left; simp only [e1]
  rcases sectionLoop_mixed _ _ _ _ (stepOK_record m.multicast) (m.answers.drop o.an) s1 r1 ma with
    e2 | ⟨s2, aw, h2, r2, n2, t2, l2, z2, g2, p2⟩
  · left; simp only [h1, e2]
  rcases sectionLoop_mixed _ _ _ _ (stepOK_record m.multicast) ((m.authorities.drop o.au).map (fun r => (r, 0))) s2 r2 mu with
    e3 | ⟨s3, auw, h3, r3, n3, t3, l3, z3, g3, p3⟩
  · left; simp only [h1, h2, e3]
  rcases sectionLoop_mixed _ _ _ _ (stepOK_record m.multicast) ((m.additionals.drop o.ad).map (fun r => (r, 0))) s3 r3 md with
    e4 | ⟨s4, adw, h4, r4, n4, t4, l4, z4, g4, p4⟩
  · left; simp only [h1, h2, h3, e4]
  right
  simp only [List.length_map, List.length_drop] at n1 n2 n3 n4
  obtain ⟨b1, b2, b3, b4⟩ := hb
  -- the over-long entry is still waiting behind the new offsets
  have hl' : LongRemains m ⟨o.q + qw, o.an + aw, o.au + auw, o.ad + adw⟩ := by
    rcases hl with h | h | h | h
    · exact Or.inl (long_survives QSafe (fun (q : EQuestion) => HasLong q.name) (fun q => not_long_of_safe_q) _ _ _ t1 h)
    · exact Or.inr (Or.inl (long_survives (fun (x : ERecord × Ms) => RecSafe x.1 x.2) (fun x => RecLong x.1 x.2) (fun x => not_long_of_safe_r) _ _ _ t2 h))
    · refine Or.inr (Or.inr (Or.inl (long_survives (fun (r : ERecord) => RecSafe r 0) (fun r => RecLong r 0) (fun r => not_long_of_safe_r) _ _ _ ?_ h)))
      intro r hr
      exact t3 (r, 0) (by rw [← List.map_take]; exact List.mem_map_of_mem hr)
    · refine Or.inr (Or.inr (Or.inr (long_survives (fun (r : ERecord) => RecSafe r 0) (fun r => RecLong r 0) (fun r => not_long_of_safe_r) _ _ _ ?_ h)))
      intro r hr
      exact t4 (r, 0) (by rw [← List.map_take]; exact List.mem_map_of_mem hr)
  -- hence more remains
  have hmore : Gen.Outgoing.has_more_to_add (o.q + qw) (o.an + aw) (o.au + auw) (o.ad + adw)
      m.questions.length m.answers.length m.authorities.length m.additionals.length = true := by
    rw [GenFacts.Outgoing.has_more_iff]
    rcases hl' with ⟨x, hx, _⟩ | ⟨x, hx, _⟩ | ⟨x, hx, _⟩ | ⟨x, hx, _⟩
    · left
      have := List.length_pos_of_mem hx; simp only [List.length_drop] at this; omega
    · right; left
      have := List.length_pos_of_mem hx; simp only [List.length_drop] at this; omega
    · right; right; left
      have := List.length_pos_of_mem hx; simp only [List.length_drop] at this; omega
    · right; right; right
      have := List.length_pos_of_mem hx; simp only [List.length_drop] at this; omega
  -- at least one entry was consumed: the first entry tried in a fresh packet is acceptable (else the loop had raised) and fits
  have hfresh : St.fresh.allowLong = true ∧ St.fresh.names = [] ∧ St.fresh.body = [] := ⟨rfl, rfl, rfl⟩
  have hprog : 1 ≤ qw + aw + auw + adw := by
    rcases hq : m.questions.drop o.q with _ | ⟨x, rest⟩
    · have s1f : s1 = St.fresh := z1 hq
      subst s1f
      rcases ha : m.answers.drop o.an with _ | ⟨x, rest⟩
      · have s2f : s2 = St.fresh := z2 ha
        subst s2f
        rcases hu : m.authorities.drop o.au with _ | ⟨x, rest⟩
        · have s3f : s3 = St.fresh := z3 (by simp [hu])
          subst s3f
          rcases hd : m.additionals.drop o.ad with _ | ⟨x, rest⟩
          · rcases hl with ⟨x, hx, _⟩ | ⟨x, hx, _⟩ | ⟨x, hx, _⟩ | ⟨x, hx, _⟩
            · simp [hq] at hx
            · simp [ha] at hx
            · simp [hu] at hx
            · simp [hd] at hx
          · have := p4 (x, 0) (rest.map (fun r => (r, 0))) (by simp [hd]) hfresh.1 hfresh.2.1 hfresh.2.2
              (hfit.additionals x (List.mem_of_mem_drop (by rw [hd]; simp)))
            omega
        · have := p3 (x, 0) (rest.map (fun r => (r, 0))) (by simp [hu]) hfresh.1 hfresh.2.1 hfresh.2.2
            (hfit.authorities x (List.mem_of_mem_drop (by rw [hu]; simp)))
          omega
      · have := p2 x rest ha hfresh.1 hfresh.2.1 hfresh.2.2 (hfit.answers x (List.mem_of_mem_drop (by rw [ha]; simp)))
        omega
    · have := p1 x rest hq hfresh.1 hfresh.2.1 hfresh.2.2 (hfit.questions x (List.mem_of_mem_drop (by rw [hq]; simp)))
      omega
  have hbody : s4.body.isEmpty = false := by
    have : 1 ≤ s4.body.length := by
      have : St.fresh.body.length = 0 := rfl
      omega
    cases hb4 : s4.body with
    | nil => rw [hb4] at this; simp at this
    | cons _ _ => rfl
  refine ⟨be16 (hdrId m) ++ be16 (hdrFlags m true) ++ be16 qw ++ be16 aw ++ be16 auw ++ be16 adw ++ s4.body,
    ⟨o.q + qw, o.an + aw, o.au + auw, o.ad + adw⟩, ?_, ⟨by dsimp only; omega, by dsimp only; omega, by dsimp only; omega, by dsimp only; omega⟩, ?_, hl'⟩
  · simp only [h1, h2, h3, h4, hmore, hbody, Bool.not_false]
    rw [if_pos ⟨hdrId_lt m hm.id, hdrFlags_lt m _ hm.flags⟩]
    rfl
  · simp only [remaining]
    omega

/-- the loop never returns while an over-long entry is waiting -/
theorem packetsLoop_rejects (m : Msg) (hm : MsgMixed m) (hfit : FitAll m) :
    ∀ (fuel : Nat) (o : Offsets), InBounds m o → remaining m o < fuel → LongRemains m o →
      packetsLoop m fuel o = .error .namePartTooLong := by
  intro fuel
  induction fuel with
  | zero => intro o _ hr; omega
  | succ fuel ih =>
    intro o hb hr hl
    rcases onePacket_mixed m hm hfit o hb hl with he | ⟨pkt, o', hok, hb', hr', hl'⟩
    · simp [packetsLoop, he, bind, Except.bind]
    · have := ih o' hb' (by omega) hl'
      simp [packetsLoop, hok, this, bind, Except.bind]

/-- **message-level rejection**: a message in which every entry is acceptable or has an over-long label, whose
acceptable entries each fit a datagram, and which has at least one over-long label, is rejected with
`NamePartTooLongException` — `packets()` raises exactly that and returns nothing -/
theorem packets_rejects (m : Msg) (hm : MsgMixed m) (hfit : FitAll m) (hbad : HasLongEntry m) :
    packets m = .error .namePartTooLong :=
  packetsLoop_rejects m hm hfit _ ⟨0, 0, 0, 0⟩ ⟨Nat.zero_le _, Nat.zero_le _, Nat.zero_le _, Nat.zero_le _⟩
    (by simp [remaining]) hbad

end Zc.Wire.Encode
