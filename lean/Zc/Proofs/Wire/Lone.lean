import Zc.Proofs.Wire.Reject
/-! C14, the clause "at most 1460 bytes unless it carries a single entry **that cannot be smaller**".

A datagram of more than 1460 bytes is exactly the 12-byte header followed by the encoding of one entry *written into a
fresh packet* (offset 12, empty names table): its length is that entry's `questionAloneSize` / `recordAloneSize` — the
size of the smallest datagram that can carry the entry at all (nothing in front of it to point to; the only compression
left is inside the entry itself, which the encoding uses).  Proved for **every** message for which `packets` returns
(no well-formedness needed): the 8966-byte allowance (`allow_long`) is only ever granted to the first entry tried in a
packet, and a failed attempt withdraws it. -/
namespace Zc.Wire.Encode
open Zc Zc.Wire

/-- `n` is the size of the datagram that carries one entry of `m` alone -/
def LoneSize (m : Msg) (n : Nat) : Prop :=
  (∃ q ∈ m.questions, n = questionAloneSize m.multicast q) ∨ (∃ x ∈ m.answers, n = recordAloneSize m.multicast x) ∨
  (∃ r ∈ m.authorities, n = recordAloneSize m.multicast (r, 0)) ∨ (∃ r ∈ m.additionals, n = recordAloneSize m.multicast (r, 0))

/-- `b` is what one entry of `m` takes when it is written alone: at offset 12, with an empty names table -/
def LoneBody (m : Msg) (b : Bytes) : Prop :=
  (∃ q ∈ m.questions, ∃ ns, encQuestion m.multicast 12 [] q = .ok (b, ns)) ∨
  (∃ x ∈ m.answers, ∃ ns, encRecord m.multicast 12 [] x.1 x.2 = .ok (b, ns)) ∨
  (∃ r ∈ m.authorities, ∃ ns, encRecord m.multicast 12 [] r 0 = .ok (b, ns)) ∨
  (∃ r ∈ m.additionals, ∃ ns, encRecord m.multicast 12 [] r 0 = .ok (b, ns))

theorem LoneBody.size {m : Msg} {b : Bytes} (h : LoneBody m b) : LoneSize m (12 + b.length) := by
  rcases h with ⟨q, hq, ns, he⟩ | ⟨x, hx, ns, he⟩ | ⟨r, hr, ns, he⟩ | ⟨r, hr, ns, he⟩
  · exact Or.inl ⟨q, hq, by simp [questionAloneSize, he]⟩
  · exact Or.inr (Or.inl ⟨x, hx, by simp [recordAloneSize, he]⟩)
  · exact Or.inr (Or.inr (Or.inl ⟨r, hr, by simp [recordAloneSize, he]⟩))
  · exact Or.inr (Or.inr (Or.inr ⟨r, hr, by simp [recordAloneSize, he]⟩))

/-- the packet under construction still has its 8966-byte allowance only while nothing has been written or registered,
is never longer than 8966 bytes, and is at most 1460 bytes long unless its body is one of `S` -/
def SizeInv (S : Bytes → Prop) (st : St) : Prop :=
  (st.allowLong = true → st.body = [] ∧ st.names = []) ∧ st.size ≤ 8966 ∧ (st.size ≤ 1460 ∨ S st.body)

theorem SizeInv.fresh (S : Bytes → Prop) : SizeInv S St.fresh :=
  ⟨fun _ => ⟨rfl, rfl⟩, by simp [St.size, St.fresh, GenFacts.Outgoing.header_len],
    Or.inl (by simp [St.size, St.fresh, GenFacts.Outgoing.header_len])⟩

theorem commit_sizeInv (S : Bytes → Prop) (st : St) (b : Bytes) (names' : Names) (hinv : SizeInv S st)
    (hS : st.body = [] → st.names = [] → S b) : SizeInv S (commit st b names').1 := by
  unfold commit
  dsimp only
  split
  · rename_i hf
    have hfit := (GenFacts.Outgoing.fits_iff _ _).mp hf
    have hlim := GenFacts.Outgoing.len_limit_le st.allowLong
    have hsz : St.size { body := st.body ++ b, names := names', allowLong := false } = st.size + b.length := by
      simp [St.size]; omega
    refine ⟨fun h => by simp at h, by rw [hsz]; omega, ?_⟩
    rw [hsz]
    cases hal : st.allowLong with
    | true =>
      obtain ⟨hb, hn⟩ := hinv.1 hal
      right
      show S (st.body ++ b)
      rw [hb]
      exact hS hb hn
    | false =>
      rw [hal, GenFacts.Outgoing.len_limit_false] at hfit
      exact Or.inl hfit
  · exact ⟨fun h => by simp at h, hinv.2.1, hinv.2.2⟩

theorem writeQuestion_sizeInv (S : Bytes → Prop) (mc : Bool) (st st' : St) (q : EQuestion) (ok : Bool) (hinv : SizeInv S st)
    (hS : ∀ b ns, encQuestion mc 12 [] q = .ok (b, ns) → S b) (hw : writeQuestion mc st q = .ok (st', ok)) : SizeInv S st' := by
  unfold writeQuestion at hw
  simp only [bind, Except.bind] at hw
  cases h1 : encQuestion mc st.size st.names q with
  | error e => simp [h1] at hw
  | ok r1 =>
    obtain ⟨b, names'⟩ := r1
    simp only [h1, pure, Except.pure, Except.ok.injEq] at hw
    have := commit_sizeInv S st b names' hinv (by
      intro hb hn
      have h12 : st.size = 12 := by simp [St.size, hb, GenFacts.Outgoing.header_len]
      rw [h12, hn] at h1
      exact hS b names' h1)
    rw [hw] at this
    exact this

theorem writeRecord_sizeInv (S : Bytes → Prop) (mc : Bool) (st st' : St) (r : ERecord) (now : Ms) (ok : Bool) (hinv : SizeInv S st)
    (hS : ∀ b ns, encRecord mc 12 [] r now = .ok (b, ns) → S b) (hw : writeRecord mc st r now = .ok (st', ok)) : SizeInv S st' := by
  unfold writeRecord at hw
  simp only [bind, Except.bind] at hw
  cases h1 : encRecord mc st.size st.names r now with
  | error e => simp [h1] at hw
  | ok r1 =>
    obtain ⟨b, names'⟩ := r1
    simp only [h1, pure, Except.pure, Except.ok.injEq] at hw
    have := commit_sizeInv S st b names' hinv (by
      intro hb hn
      have h12 : st.size = 12 := by simp [St.size, hb, GenFacts.Outgoing.header_len]
      rw [h12, hn] at h1
      exact hS b names' h1)
    rw [hw] at this
    exact this

/-- a section loop keeps whatever every step keeps -/
theorem sectionLoop_inv {α : Type} (w : St → α → Except PyExc (St × Bool)) (Inv : St → Prop) (P : α → Prop)
    (hstep : ∀ st a st' ok, Inv st → P a → w st a = .ok (st', ok) → Inv st') :
    ∀ (rs : List α) (st st' : St) (n : Nat), Inv st → (∀ a ∈ rs, P a) → sectionLoop w st rs = .ok (st', n) → Inv st' := by
  intro rs
  induction rs with
  | nil =>
    intro st st' n hi _ hw
    simp only [sectionLoop, pure, Except.pure, Except.ok.injEq, Prod.mk.injEq] at hw
    rw [← hw.1]; exact hi
  | cons a rest ih =>
    intro st st' n hi hp hw
    simp only [sectionLoop, bind, Except.bind] at hw
    cases h1 : w st a with
    | error e => simp [h1] at hw
    | ok r1 =>
      obtain ⟨st1, ok⟩ := r1
      simp only [h1] at hw
      have hi1 := hstep st a st1 ok hi (hp a (by simp)) h1
      cases ok with
      | false =>
        simp only [Bool.false_eq_true, if_false, pure, Except.pure, Except.ok.injEq, Prod.mk.injEq] at hw
        rw [← hw.1]; exact hi1
      | true =>
        simp only [if_true] at hw
        cases h2 : sectionLoop w st1 rest with
        | error e => simp [h2] at hw
        | ok r2 =>
          obtain ⟨st2, n2⟩ := r2
          simp only [h2, pure, Except.pure, Except.ok.injEq, Prod.mk.injEq] at hw
          rw [← hw.1]
          exact ih st1 st2 n2 hi1 (fun x hx => hp x (by simp [hx])) h2

/-- one datagram: never longer than 8966 bytes; at most 1460 bytes, or **the 12-byte header followed by exactly the bytes
one of the message's entries takes when written alone** -/
theorem onePacket_lone (m : Msg) (o o' : Offsets) (pkt : Bytes) (progress more : Bool)
    (h : onePacket m o = .ok (pkt, o', progress, more)) :
    pkt.length ≤ 8966 ∧ (pkt.length ≤ 1460 ∨ LoneBody m (pkt.drop 12)) := by
  unfold onePacket at h
  simp only [bind, Except.bind, writeRecords, writeQuestions_eq_loop, writeAnswers_eq_loop] at h
  cases h1 : sectionLoop (writeQuestion m.multicast) St.fresh (m.questions.drop o.q) with
  | error e => simp only [h1] at h; cases h
  | ok r1 =>
  obtain ⟨s1, qw⟩ := r1
  simp only [h1] at h
  cases h2 : sectionLoop (fun st (x : ERecord × Ms) => writeRecord m.multicast st x.1 x.2) s1 (m.answers.drop o.an) with
  | error e => simp only [h2] at h; cases h
  | ok r2 =>
  obtain ⟨s2, aw⟩ := r2
  simp only [h2] at h
  cases h3 : sectionLoop (fun st (x : ERecord × Ms) => writeRecord m.multicast st x.1 x.2) s2
      ((m.authorities.drop o.au).map (fun r => (r, 0))) with
  | error e => simp only [h3] at h; cases h
  | ok r3 =>
  obtain ⟨s3, auw⟩ := r3
  simp only [h3] at h
  cases h4 : sectionLoop (fun st (x : ERecord × Ms) => writeRecord m.multicast st x.1 x.2) s3
      ((m.additionals.drop o.ad).map (fun r => (r, 0))) with
  | error e => simp only [h4] at h; cases h
  | ok r4 =>
  obtain ⟨s4, adw⟩ := r4
  simp only [h4] at h
  split at h
  case isFalse => cases h
  case isTrue hlt =>
  simp only [pure, Except.pure, Except.ok.injEq, Prod.mk.injEq] at h
  obtain ⟨hpkt, _⟩ := h
  have i1 : SizeInv (LoneBody m) s1 :=
    sectionLoop_inv _ (SizeInv (LoneBody m)) (fun q => q ∈ m.questions)
      (fun st a st' ok hi hp hw => writeQuestion_sizeInv _ m.multicast st st' a ok hi (fun b ns he => Or.inl ⟨a, hp, ns, he⟩) hw)
      _ _ _ _ (SizeInv.fresh _) (fun q hq => List.mem_of_mem_drop hq) h1
  have i2 : SizeInv (LoneBody m) s2 :=
    sectionLoop_inv _ (SizeInv (LoneBody m)) (fun x => x ∈ m.answers)
      (fun st a st' ok hi hp hw => writeRecord_sizeInv _ m.multicast st st' a.1 a.2 ok hi (fun b ns he => Or.inr (Or.inl ⟨a, hp, ns, he⟩)) hw)
      _ _ _ _ i1 (fun x hx => List.mem_of_mem_drop hx) h2
  have i3 : SizeInv (LoneBody m) s3 :=
    sectionLoop_inv _ (SizeInv (LoneBody m)) (fun (x : ERecord × Ms) => x.1 ∈ m.authorities ∧ x.2 = 0)
      (fun st a st' ok hi hp hw => writeRecord_sizeInv _ m.multicast st st' a.1 a.2 ok hi
        (fun b ns he => Or.inr (Or.inr (Or.inl ⟨a.1, hp.1, ns, by rw [← hp.2]; exact he⟩))) hw)
      _ _ _ _ i2 (by
        intro x hx
        simp only [List.mem_map] at hx
        obtain ⟨r, hr, rfl⟩ := hx
        exact ⟨List.mem_of_mem_drop hr, rfl⟩) h3
  have i4 : SizeInv (LoneBody m) s4 :=
    sectionLoop_inv _ (SizeInv (LoneBody m)) (fun (x : ERecord × Ms) => x.1 ∈ m.additionals ∧ x.2 = 0)
      (fun st a st' ok hi hp hw => writeRecord_sizeInv _ m.multicast st st' a.1 a.2 ok hi
        (fun b ns he => Or.inr (Or.inr (Or.inr ⟨a.1, hp.1, ns, by rw [← hp.2]; exact he⟩))) hw)
      _ _ _ _ i3 (by
        intro x hx
        simp only [List.mem_map] at hx
        obtain ⟨r, hr, rfl⟩ := hx
        exact ⟨List.mem_of_mem_drop hr, rfl⟩) h4
  have hlen : pkt.length = s4.size := by
    rw [← hpkt]
    simp only [St.size, List.length_append, be16_length, GenFacts.Outgoing.header_len]
  have hdrop : pkt.drop 12 = s4.body := by
    rw [← hpkt]
    simp only [List.append_assoc]
    rfl
  rw [hlen, hdrop]
  exact i4.2

theorem packetsLoop_lone (m : Msg) : ∀ (fuel : Nat) (o : Offsets) (pks : List Bytes), packetsLoop m fuel o = .ok pks →
    ∀ p ∈ pks, p.length ≤ 8966 ∧ (p.length ≤ 1460 ∨ LoneBody m (p.drop 12)) := by
  intro fuel
  induction fuel with
  | zero =>
    intro o pks h p hp
    simp only [packetsLoop, pure, Except.pure, Except.ok.injEq] at h
    rw [← h] at hp; simp at hp
  | succ fuel ih =>
    intro o pks h p hp
    simp only [packetsLoop, bind, Except.bind] at h
    cases h1 : onePacket m o with
    | error e => simp [h1] at h
    | ok r1 =>
      obtain ⟨pkt, o', progress, more⟩ := r1
      simp only [h1] at h
      have hone := onePacket_lone m o o' pkt progress more h1
      cases progress with
      | false =>
        simp only [Bool.not_false, if_true, pure, Except.pure, Except.ok.injEq] at h
        rw [← h] at hp; simp only [List.mem_singleton] at hp; rw [hp]; exact hone
      | true =>
        simp only [Bool.not_true, Bool.false_eq_true, if_false] at h
        cases more with
        | false =>
          simp only [Bool.false_eq_true, if_false, pure, Except.pure, Except.ok.injEq] at h
          rw [← h] at hp; simp only [List.mem_singleton] at hp; rw [hp]; exact hone
        | true =>
          simp only [if_true] at h
          cases h2 : packetsLoop m fuel o' with
          | error e => simp [h2] at h
          | ok rest =>
            simp only [h2, pure, Except.pure, Except.ok.injEq] at h
            rw [← h] at hp
            simp only [List.mem_cons] at hp
            rcases hp with rfl | hp
            · exact hone
            · exact ih o' rest h2 p hp

end Zc.Wire.Encode
