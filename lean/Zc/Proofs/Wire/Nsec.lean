import Zc.Proofs.Wire.Entry
/-! NSEC type bitmap: what `DNSNsec.write` emits is read back by the strict decoder as the same
(strictly increasing, window-0) list of types. -/
namespace Zc.Wire.Encode
open Zc Zc.Wire Zc.Wire.Strict

/-- two strictly increasing lists with the same members are equal -/
theorem sorted_ext : ∀ (l1 l2 : List Nat), l1.Pairwise (· < ·) → l2.Pairwise (· < ·) →
    (∀ x, x ∈ l1 ↔ x ∈ l2) → l1 = l2 := by
  intro l1
  induction l1 with
  | nil =>
    intro l2 _ _ h
    cases l2 with
    | nil => rfl
    | cons b t => exact absurd ((h b).mpr (by simp)) (by simp)
  | cons a t ih =>
    intro l2 h1 h2 h
    cases l2 with
    | nil => exact absurd ((h a).mp (by simp)) (by simp)
    | cons b t2 =>
      rw [List.pairwise_cons] at h1 h2
      have hab : a = b := by
        have ha := (h a).mp (by simp)
        have hb := (h b).mpr (by simp)
        simp only [List.mem_cons] at ha hb
        rcases ha with rfl | ha
        · rfl
        · rcases hb with rfl | hb
          · rfl
          · have := h2.1 a ha
            have := h1.1 b hb
            omega
      subst hab
      congr 1
      apply ih t2 h1.2 h2.2
      intro x
      constructor
      · intro hx
        have := (h x).mp (by simp [hx])
        simp only [List.mem_cons] at this
        rcases this with rfl | h'
        · exact absurd (h1.1 x hx) (by omega)
        · exact h'
      · intro hx
        have := (h x).mpr (by simp [hx])
        simp only [List.mem_cons] at this
        rcases this with rfl | h'
        · exact absurd (h2.1 x hx) (by omega)
        · exact h'

/-- the fold of `DNSNsec.write` over the (already validated) types -/
def bmStep (acc : List Nat × Nat) (t : Nat) : List Nat × Nat :=
  (acc.1.set (t / 8) (acc.1.getD (t / 8) 0 ||| 2 ^ (7 - t % 8)), t / 8 + 1)

/-- bit `b` (0 = most significant) of byte `i` is set exactly for the types folded so far -/
def BmInv (bm : List Nat) (seen : List Nat) : Prop :=
  bm.length = 32 ∧ (∀ i, i < 32 → bm.getD i 0 < 256) ∧
  ∀ i b, i < 32 → b < 8 → ((bm.getD i 0).testBit (7 - b) = true ↔ 8 * i + b ∈ seen)

theorem BmInv.init : BmInv (List.replicate 32 0) [] := by
  have z : ∀ i, (List.replicate 32 (0 : Nat)).getD i 0 = 0 := by
    intro i; rw [List.getD_eq_getElem?_getD, List.getElem?_replicate]; split <;> rfl
  refine ⟨List.length_replicate, ?_, ?_⟩
  · intro i _; rw [z]; omega
  · intro i b _ _; rw [z]; simp

theorem BmInv.step {bm seen : List Nat} (t : Nat) (ht : t ≤ 255) (h : BmInv bm seen) :
    BmInv (bmStep (bm, 0) t).1 (seen ++ [t]) := by
  obtain ⟨hl, hlt, hbits⟩ := h
  have hb : t / 8 < 32 := by omega
  simp only [bmStep]
  refine ⟨by simp [hl], ?_, ?_⟩
  · intro i hi
    by_cases hi' : i = t / 8
    · subst hi'
      rw [List.getD_eq_getElem?_getD, List.getElem?_set_self (by omega)]
      simp only [Option.getD_some]
      have h1 := hlt (t / 8) hb
      have h2 : 2 ^ (7 - t % 8) < 2 ^ 8 := Nat.pow_lt_pow_right (by omega) (by omega)
      exact Nat.or_lt_two_pow (n := 8) h1 h2
    · rw [List.getD_eq_getElem?_getD, List.getElem?_set_ne (by omega), ← List.getD_eq_getElem?_getD]
      exact hlt i hi
  · intro i b hi hb8
    by_cases hi' : i = t / 8
    · subst hi'
      rw [List.getD_eq_getElem?_getD, List.getElem?_set_self (by omega)]
      simp only [Option.getD_some, Nat.testBit_or, Nat.testBit_two_pow, Bool.or_eq_true, decide_eq_true_eq,
        List.mem_append, List.mem_singleton]
      rw [hbits _ _ hb hb8]
      constructor
      · rintro (h | h)
        · exact Or.inl h
        · right; omega
      · rintro (h | h)
        · exact Or.inl h
        · right; omega
    · rw [List.getD_eq_getElem?_getD, List.getElem?_set_ne (by omega), ← List.getD_eq_getElem?_getD]
      rw [hbits _ _ hi hb8]
      simp only [List.mem_append, List.mem_singleton]
      constructor
      · exact fun h => Or.inl h
      · rintro (h | h)
        · exact h
        · omega

theorem nsecStep_ok (acc : List Nat × Nat) (t : Nat) (ht : t ≤ 255) : nsecStep (.ok acc) t = .ok (bmStep acc t) := by
  obtain ⟨bm, tot⟩ := acc
  simp only [nsecStep, bind, Except.bind, GenFacts.Outgoing.nsec_small_accepted t ht, GenFacts.Outgoing.nsec_byte_eq,
    GenFacts.Outgoing.nsec_mask_eq, GenFacts.Outgoing.nsec_total_eq, bmStep, pure, Except.pure]
  rfl

theorem nsecFold_ok : ∀ (ts : List Nat) (acc : List Nat × Nat), (∀ t ∈ ts, t ≤ 255) →
    ts.foldl nsecStep (.ok acc) = .ok (ts.foldl bmStep acc) := by
  intro ts
  induction ts with
  | nil => intro acc _; rfl
  | cons t rest ih =>
    intro acc h
    simp only [List.foldl_cons]
    rw [nsecStep_ok acc t (h t (by simp))]
    exact ih _ (fun x hx => h x (by simp [hx]))

/-- the fold keeps the invariant and remembers the last type's byte -/
theorem bmFold_inv : ∀ (ts seen : List Nat) (bm : List Nat) (tot : Nat), (∀ t ∈ ts, t ≤ 255) → BmInv bm seen →
    BmInv (ts.foldl bmStep (bm, tot)).1 (seen ++ ts) ∧
    (ts.foldl bmStep (bm, tot)).2 = (match ts.getLast? with | some t => t / 8 + 1 | none => tot) := by
  intro ts
  induction ts with
  | nil => intro seen bm tot _ h; simpa using h
  | cons t rest ih =>
    intro seen bm tot hle h
    simp only [List.foldl_cons]
    have h1 : BmInv (bmStep (bm, tot) t).1 (seen ++ [t]) := by
      have := BmInv.step t (hle t (by simp)) h
      simpa [bmStep] using this
    obtain ⟨i1, i2⟩ := ih (seen ++ [t]) (bmStep (bm, tot) t).1 (bmStep (bm, tot) t).2 (fun x hx => hle x (by simp [hx])) h1
    refine ⟨by simpa [List.append_assoc] using i1, ?_⟩
    rw [i2]
    cases rest with
    | nil => simp [bmStep]
    | cons a b =>
      rw [List.getLast?_cons_cons]
      cases hg : (a :: b).getLast? with
      | none => simp at hg
      | some x => rfl

/-! ### reading the bitmap back -/

/-- types named by byte `i` of a window-0 bitmap, given which bits are set -/
def blk (f : Nat → Nat → Bool) (i : Nat) : List Nat :=
  (List.range 8).filterMap (fun bit => if f i bit then some (bit + 0 * 256 + i * 8) else none)

theorem mem_blk (f : Nat → Nat → Bool) (i x : Nat) : x ∈ blk f i ↔ ∃ bit, bit < 8 ∧ f i bit = true ∧ x = bit + i * 8 := by
  simp only [blk, List.mem_filterMap, List.mem_range]
  constructor
  · rintro ⟨b, hb, h⟩
    split at h
    · rename_i hf; simp at h; exact ⟨b, hb, hf, by omega⟩
    · simp at h
  · rintro ⟨b, hb, hf, rfl⟩
    exact ⟨b, hb, by simp [hf]⟩

theorem blk_sorted (f : Nat → Nat → Bool) (i : Nat) : (blk f i).Pairwise (· < ·) := by
  unfold blk
  apply List.Pairwise.filterMap _ _ List.pairwise_lt_range
  intro a a' haa b hb b' hb'
  split at hb <;> split at hb' <;> simp at hb hb'
  omega

theorem flat_sorted (f : Nat → Nat → Bool) : ∀ n, ((List.range n).flatMap (blk f)).Pairwise (· < ·) ∧
    ∀ x ∈ (List.range n).flatMap (blk f), x < 8 * n := by
  intro n
  induction n with
  | zero => simp
  | succ n ih =>
    rw [List.range_succ, List.flatMap_append]
    simp only [List.flatMap_cons, List.flatMap_nil, List.append_nil]
    refine ⟨?_, ?_⟩
    · rw [List.pairwise_append]
      refine ⟨ih.1, blk_sorted f n, ?_⟩
      intro a ha b hb
      have := ih.2 a ha
      obtain ⟨bit, _, _, rfl⟩ := (mem_blk f n b).mp hb
      omega
    · intro x hx
      simp only [List.mem_append] at hx
      rcases hx with hx | hx
      · have := ih.2 x hx; omega
      · obtain ⟨bit, hb, _, rfl⟩ := (mem_blk f n x).mp hx
        omega

theorem mem_flat (f : Nat → Nat → Bool) (n x : Nat) :
    x ∈ (List.range n).flatMap (blk f) ↔ x / 8 < n ∧ f (x / 8) (x % 8) = true := by
  simp only [List.mem_flatMap, List.mem_range, mem_blk]
  constructor
  · rintro ⟨i, hi, bit, hb, hf, rfl⟩
    have h1 : (bit + i * 8) / 8 = i := by omega
    have h2 : (bit + i * 8) % 8 = bit := by omega
    rw [h1, h2]; exact ⟨hi, hf⟩
  · rintro ⟨h1, h2⟩
    exact ⟨x / 8, h1, x % 8, Nat.mod_lt _ (by omega), h2, by omega⟩

/-- `bitmapTypes 0` as the flat enumeration above -/
theorem bitmapTypes_eq (bm : Bytes) :
    bitmapTypes 0 bm = (List.range bm.length).flatMap (blk (fun i bit => decide ((bm.getD i 0).toNat / 2 ^ (7 - bit) % 2 = 1))) := by
  unfold bitmapTypes blk
  simp

theorem getD_take_map (bm : List Nat) (k i : Nat) (hik : i < k) (hlt : bm.getD i 0 < 256) :
    (((bm.take k).map Nat.toUInt8).getD i 0).toNat = bm.getD i 0 := by
  rw [List.getD_eq_getElem?_getD, List.getElem?_map, List.getElem?_take_of_lt hik]
  rw [List.getD_eq_getElem?_getD] at hlt ⊢
  cases hg : bm[i]? with
  | none => simp
  | some v =>
    simp only [hg, Option.getD_some] at hlt
    simp only [Option.map_some, Option.getD_some]
    exact toUInt8_toNat_lt _ hlt

/-- **NSEC bitmap round trip**: for a non-empty, strictly increasing list of window-0 types, the
encoder produces 1..32 bytes which decode to the same list -/
theorem nsecBitmap_spec (ts : List Nat) (hwf : WFTypes ts) :
    ∃ bm, nsecBitmap ts = .ok bm ∧ 1 ≤ bm.length ∧ bm.length ≤ 32 ∧ bitmapTypes 0 bm = ts := by
  obtain ⟨hne, hsorted, hle⟩ := hwf
  obtain ⟨inv, htot⟩ := bmFold_inv ts [] (List.replicate 32 0) 0 hle BmInv.init
  obtain ⟨last, hlast⟩ : ∃ t, ts.getLast? = some t := by
    cases h : ts.getLast? with
    | none => simp at h; exact absurd h hne
    | some t => exact ⟨t, rfl⟩
  have hlastmem : last ∈ ts := List.mem_of_getLast? hlast
  have hmax : ∀ t ∈ ts, t ≤ last := by
    intro t ht
    rw [List.getLast?_eq_some_iff] at hlast
    obtain ⟨ys, rfl⟩ := hlast
    simp only [List.mem_append, List.mem_singleton] at ht
    rcases ht with ht | rfl
    · rw [List.pairwise_append] at hsorted
      exact Nat.le_of_lt (hsorted.2.2 t ht last (by simp))
    · exact Nat.le_refl _
  rw [hlast] at htot
  simp only [List.nil_append] at inv
  have hfo := nsecFold_ok ts (List.replicate 32 0, 0) hle
  cases hfold : ts.foldl bmStep (List.replicate 32 0, 0) with
  | mk bmN tot =>
  rw [hfold] at inv htot hfo
  simp only at inv htot
  obtain ⟨hl32, hlt, hbits⟩ := inv
  have hl255 := hle last hlastmem
  have htotle : last / 8 + 1 ≤ 32 := by omega
  have hlen : ((bmN.take (last / 8 + 1)).map Nat.toUInt8).length = last / 8 + 1 := by
    rw [List.length_map, List.length_take, hl32]; omega
  refine ⟨(bmN.take (last / 8 + 1)).map Nat.toUInt8, ?_, by omega, by omega, ?_⟩
  · unfold nsecBitmap
    rw [hfo, htot]
    simp
  · apply sorted_ext _ _ _ hsorted
    · intro x
      rw [bitmapTypes_eq, mem_flat, hlen]
      constructor
      · rintro ⟨h1, h2⟩
        have hi : x / 8 < 32 := by omega
        have hb : x % 8 < 8 := Nat.mod_lt _ (by omega)
        simp only [decide_eq_true_eq] at h2
        rw [getD_take_map bmN _ _ h1 (hlt _ hi)] at h2
        have := (hbits (x / 8) (x % 8) hi hb).mp (by rw [Nat.testBit_eq_decide_div_mod_eq]; simpa using h2)
        rwa [show 8 * (x / 8) + x % 8 = x by omega] at this
      · intro hx
        have hxl := hmax x hx
        have hi : x / 8 < 32 := by have := hle x hx; omega
        have hb : x % 8 < 8 := Nat.mod_lt _ (by omega)
        have h1 : x / 8 < last / 8 + 1 := by omega
        refine ⟨h1, ?_⟩
        simp only [decide_eq_true_eq]
        rw [getD_take_map bmN _ _ h1 (hlt _ hi)]
        have := (hbits (x / 8) (x % 8) hi hb).mpr (by rwa [show 8 * (x / 8) + x % 8 = x by omega])
        rw [Nat.testBit_eq_decide_div_mod_eq] at this
        simpa using this
    · rw [bitmapTypes_eq]
      exact (flat_sorted _ _).1

theorem windows_one (a bm tail : Bytes) (fuel : Nat) (hf : 2 ≤ fuel) (h1 : 1 ≤ bm.length) (h32 : bm.length ≤ 32) :
    windows (a ++ ((0 : UInt8) :: bm.length.toUInt8 :: (bm ++ tail))) fuel a.length (a.length + 2 + bm.length)
      = some (bitmapTypes 0 bm) := by
  obtain ⟨f, rfl⟩ : ∃ f, fuel = f + 2 := ⟨fuel - 2, by omega⟩
  have u0 : u8At (a ++ ((0 : UInt8) :: bm.length.toUInt8 :: (bm ++ tail))) a.length = some 0 := by
    have := u8At_of_eq _ a (bm.length.toUInt8 :: (bm ++ tail)) 0 a.length rfl rfl
    simpa using this
  have u1 : u8At (a ++ ((0 : UInt8) :: bm.length.toUInt8 :: (bm ++ tail))) (a.length + 1) = some bm.length := by
    have := u8At_of_eq (a ++ ((0 : UInt8) :: bm.length.toUInt8 :: (bm ++ tail))) (a ++ [0]) (bm ++ tail) bm.length.toUInt8 (a.length + 1)
      (by simp) (by simp)
    rw [this, toUInt8_toNat_lt _ (by omega)]
  have u2 : bytesAt (a ++ ((0 : UInt8) :: bm.length.toUInt8 :: (bm ++ tail))) (a.length + 2) bm.length = some bm :=
    bytesAt_of_eq _ (a ++ [0, bm.length.toUInt8]) bm tail _ _ (by simp) (by simp) rfl
  rw [windows]
  have hne : ¬ a.length = a.length + 2 + bm.length := by omega
  simp only [hne, if_false, bind, Option.bind, u0, u1, u2, h1, h32, Nat.le_refl, and_self, if_true]
  rw [windows]
  simp

theorem encRData_spec_nsec (pre : Bytes) (names names' : Names) (out : Bytes) (n : WName) (ts : List Nat) (rtype : Nat)
    (h12 : 12 ≤ pre.length) (hg : NamesGood pre names) (hwf : WFRData rtype (.nsec n ts))
    (hw : encRData pre.length names (.nsec n ts) = .ok (out, names')) (hfin : (pre ++ out).length ≤ 16384) (tail : Bytes) :
    decRData (pre ++ out ++ tail) rtype pre.length out.length = some (ERData.nsec n ts).onWire ∧ NamesGood (pre ++ out) names' := by
  obtain ⟨rfl, hn, hts⟩ := hwf
  obtain ⟨bm, hbm, hb1, hb32, hdec⟩ := nsecBitmap_spec ts hts
  simp only [encRData, hbm, bind, Except.bind] at hw
  cases h1 : writeName pre.length names n with
  | error e => simp [h1] at hw
  | ok r =>
    obtain ⟨nb, names1⟩ := r
    simp only [h1, byteOf_ok 0 (by omega), byteOf_ok bm.length (by omega), pure, Except.pure, Except.ok.injEq, Prod.mk.injEq] at hw
    obtain ⟨rfl, rfl⟩ := hw
    have hfin1 : (pre ++ nb).length ≤ 16384 := by simp at hfin ⊢; omega
    obtain ⟨hd0, hng, _⟩ := writeName_spec pre names names1 nb n h12 hg hn h1 hfin1
    have ebuf : pre ++ (nb ++ [(0 : Nat).toUInt8] ++ [bm.length.toUInt8] ++ bm) ++ tail
        = (pre ++ nb) ++ ((0 : UInt8) :: bm.length.toUInt8 :: (bm ++ tail)) := by simp
    have hd := decName_append ((0 : UInt8) :: bm.length.toUInt8 :: (bm ++ tail)) hd0
    refine ⟨?_, ?_⟩
    · rw [ebuf]
      have hw1 := windows_one (pre ++ nb) bm tail
        ((nb ++ [(0 : Nat).toUInt8] ++ [bm.length.toUInt8] ++ bm).length + 1) (by simp; omega) hb1 hb32
      have hend : pre.length + (nb ++ [(0 : Nat).toUInt8] ++ [bm.length.toUInt8] ++ bm).length = (pre ++ nb).length + 2 + bm.length := by
        simp; omega
      unfold decRData
      simp only [hd, hend, hw1, hdec]
      simp [ERData.onWire]
      omega
    · have : pre ++ (nb ++ [(0 : Nat).toUInt8] ++ [bm.length.toUInt8] ++ bm) = (pre ++ nb) ++ ([(0 : Nat).toUInt8] ++ [bm.length.toUInt8] ++ bm) := by simp
      rw [this]; exact hng.append _

end Zc.Wire.Encode
