import Zc.Proofs.Wire.Entry
/-! NSEC type bitmap: what `DNSNsec.write` emits is read back by the strict decoder as the same
(strictly increasing, window-0) list of types. -/
namespace Zc.Wire.Encode
open Zc Zc.Wire Zc.Wire.Strict

/-- two strictly increasing lists with the same members are equal -/
theorem sorted_ext : ∀ (l1 l2 : List Nat), l1.Pairwise (· < ·) → l2.Pairwise (· < ·) →
    (∀ x, x ∈ l1 ↔ x ∈ l2) → l1 = l2 := by
  intro l1
  induction l1 with
  | nil =>
    intro l2 _ _ h
    cases l2 with
    | nil => rfl
    | cons b t => exact absurd ((h b).mpr (by simp)) (by simp)
  | cons a t ih =>
    intro l2 h1 h2 h
    cases l2 with
    | nil => exact absurd ((h a).mp (by simp)) (by simp)
    | cons b t2 =>
      rw [List.pairwise_cons] at h1 h2
      have hab : a = b := by
        have ha := (h a).mp (by simp)
        have hb := (h b).mpr (by simp)
        simp only [List.mem_cons] at ha hb
        rcases ha with rfl | ha
        · rfl
        · rcases hb with rfl | hb
          · rfl
          · have := h2.1 a ha
            have := h1.1 b hb
            omega
      subst hab
      congr 1
      apply ih t2 h1.2 h2.2
      intro x
      constructor
      · intro hx
        have := (h x).mp (by simp [hx])
        simp only [List.mem_cons] at this
        rcases this with rfl | h'
        · exact absurd (h1.1 x hx) (by omega)
        · exact h'
      · intro hx
        have := (h x).mpr (by simp [hx])
        simp only [List.mem_cons] at this
        rcases this with rfl | h'
        · exact absurd (h2.1 x hx) (by omega)
        · exact h'

/-- the fold of `DNSNsec.write` over the (already validated) types -/
def bmStep (acc : List Nat × Nat) (t : Nat) : List Nat × Nat :=
  (acc.1.set (t / 8) (acc.1.getD (t / 8) 0 ||| 2 ^ (7 - t % 8)), t / 8 + 1)

/-- bit `b` (0 = most significant) of byte `i` is set exactly for the types folded so far -/
def BmInv (bm : List Nat) (seen : List Nat) : Prop :=
  bm.length = 32 ∧ (∀ i, i < 32 → bm.getD i 0 < 256) ∧
  ∀ i b, i < 32 → b < 8 → ((bm.getD i 0).testBit (7 - b) = true ↔ 8 * i + b ∈ seen)

theorem BmInv.init : BmInv (List.replicate 32 0) [] := by
  have z : ∀ i, (List.replicate 32 (0 : Nat)).getD i 0 = 0 := by
    intro i; rw [List.getD_eq_getElem?_getD, List.getElem?_replicate]; split <;> rfl
  refine ⟨List.length_replicate, ?_, ?_⟩
  · intro i _; rw [z]; omega
  · intro i b _ _; rw [z]; simp

theorem BmInv.step {bm seen : List Nat} (t : Nat) (ht : t ≤ 255) (h : BmInv bm seen) :
    BmInv (bmStep (bm, 0) t).1 (seen ++ [t]) := by
  obtain ⟨hl, hlt, hbits⟩ := h
  have hb : t / 8 < 32 := by omega
  simp only [bmStep]
  refine ⟨by simp [hl], ?_, ?_⟩
  · intro i hi
    by_cases hi' : i = t / 8
    · subst hi'
      rw [List.getD_eq_getElem?_getD, List.getElem?_set_self (by omega)]
      simp only [Option.getD_some]
      have h1 := hlt (t / 8) hb
      have h2 : 2 ^ (7 - t % 8) < 2 ^ 8 := Nat.pow_lt_pow_right (by omega) (by omega)
      exact Nat.or_lt_two_pow (n := 8) h1 h2
    · rw [List.getD_eq_getElem?_getD, List.getElem?_set_ne (by omega), ← List.getD_eq_getElem?_getD]
      exact hlt i hi
  · intro i b hi hb8
    by_cases hi' : i = t / 8
    · subst hi'
      rw [List.getD_eq_getElem?_getD, List.getElem?_set_self (by omega)]
      simp only [Option.getD_some, Nat.testBit_or, Nat.testBit_two_pow, Bool.or_eq_true, decide_eq_true_eq,
        List.mem_append, List.mem_singleton]
      rw [hbits _ _ hb hb8]
      constructor
      · rintro (h | h)
        · exact Or.inl h
        · right; omega
      · rintro (h | h)
        · exact Or.inl h
        · right; omega
    · rw [List.getD_eq_getElem?_getD, List.getElem?_set_ne (by omega), ← List.getD_eq_getElem?_getD]
      rw [hbits _ _ hi hb8]
      simp only [List.mem_append, List.mem_singleton]
      constructor
      · exact fun h => Or.inl h
      · rintro (h | h)
        · exact h
        · omega

theorem nsecStep_ok (acc : List Nat × Nat) (t : Nat) (ht : t ≤ 255) : nsecStep (.ok acc) t = .ok (bmStep acc t) := by
  obtain ⟨bm, tot⟩ := acc
  simp only [nsecStep, bind, Except.bind, GenFacts.Outgoing.nsec_small_accepted t ht, GenFacts.Outgoing.nsec_byte_eq,
    GenFacts.Outgoing.nsec_mask_eq, GenFacts.Outgoing.nsec_total_eq, bmStep, pure, Except.pure]
  rfl

theorem nsecFold_ok : ∀ (ts : List Nat) (acc : List Nat × Nat), (∀ t ∈ ts, t ≤ 255) →
    ts.foldl nsecStep (.ok acc) = .ok (ts.foldl bmStep acc) := by
  intro ts
  induction ts with
  | nil => intro acc _; rfl
  | cons t rest ih =>
    intro acc h
    simp only [List.foldl_cons]
    rw [nsecStep_ok acc t (h t (by simp))]
    exact ih _ (fun x hx => h x (by simp [hx]))

/-- the fold keeps the invariant and remembers the last type's byte -/
theorem bmFold_inv : ∀ (ts seen : List Nat) (bm : List Nat) (tot : Nat), (∀ t ∈ ts, t ≤ 255) → BmInv bm seen →
    BmInv (ts.foldl bmStep (bm, tot)).1 (seen ++ ts) ∧
    (ts.foldl bmStep (bm, tot)).2 = (match ts.getLast? with | some t => t / 8 + 1 | none => tot) := by
  intro ts
  induction ts with
  | nil => intro seen bm tot _ h; simpa using h
  | cons t rest ih =>
    intro seen bm tot hle h
    simp only [List.foldl_cons]
    have h1 : BmInv (bmStep (bm, tot) t).1 (seen ++ [t]) := by
      have := BmInv.step t (hle t (by simp)) h
      simpa [bmStep] using this
    obtain ⟨i1, i2⟩ := ih (seen ++ [t]) (bmStep (bm, tot) t).1 (bmStep (bm, tot) t).2 (fun x hx => hle x (by simp [hx])) h1
    refine ⟨by simpa [List.append_assoc] using i1, ?_⟩
    rw [i2]
    cases rest with
    | nil => simp [bmStep]
    | cons a b =>
      rw [List.getLast?_cons_cons]
      cases hg : (a :: b).getLast? with
      | none => simp at hg
      | some x => rfl

end Zc.Wire.Encode
