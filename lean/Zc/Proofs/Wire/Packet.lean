import Zc.Proofs.Wire.Record
/-! Packet level: the limit check / rollback keeps the names table decodable, the section loops
decode to the prefix they wrote, and one iteration of `packets()` is a well-formed datagram. -/
namespace Zc.Wire.Encode
open Zc Zc.Wire Zc.Wire.Strict

/-! ### structural facts (no size bound needed): new table entries lie at or after the start -/

theorem encRData_names (size : Nat) (names names' : Names) (out : Bytes) (rd : ERData)
    (hw : encRData size names rd = .ok (out, names')) : ∀ p ∈ names', p ∈ names ∨ size ≤ p.2 := by
  cases rd with
  | addr a => simp only [encRData, pure, Except.pure, Except.ok.injEq, Prod.mk.injEq] at hw; obtain ⟨_, rfl⟩ := hw; exact fun p hp => Or.inl hp
  | txt a => simp only [encRData, pure, Except.pure, Except.ok.injEq, Prod.mk.injEq] at hw; obtain ⟨_, rfl⟩ := hw; exact fun p hp => Or.inl hp
  | ptr t => exact (writeName_names t size names names' out hw).1
  | srv p w q t =>
    simp only [encRData, bind, Except.bind] at hw
    cases h1 : shortOf p with
    | error e => simp [h1] at hw
    | ok a =>
      cases h2 : shortOf w with
      | error e => simp [h1, h2] at hw
      | ok b =>
        cases h3 : shortOf q with
        | error e => simp [h1, h2, h3] at hw
        | ok c =>
          cases h4 : writeName (size + 6) names t with
          | error e => simp [h1, h2, h3, h4] at hw
          | ok r =>
            obtain ⟨nb, n1⟩ := r
            simp only [h1, h2, h3, h4, pure, Except.pure, Except.ok.injEq, Prod.mk.injEq] at hw
            obtain ⟨_, rfl⟩ := hw
            intro x hx
            rcases (writeName_names t _ names _ nb h4).1 x hx with h | h
            · exact Or.inl h
            · right; omega
  | hinfo c o =>
    simp only [encRData, bind, Except.bind] at hw
    cases h1 : charStringOf c with
    | error e => simp [h1] at hw
    | ok a =>
      cases h2 : charStringOf o with
      | error e => simp [h1, h2] at hw
      | ok b =>
        simp only [h1, h2, pure, Except.pure, Except.ok.injEq, Prod.mk.injEq] at hw
        obtain ⟨_, rfl⟩ := hw; exact fun p hp => Or.inl hp
  | nsec n ts =>
    simp only [encRData, bind, Except.bind] at hw
    cases h0 : nsecBitmap ts with
    | error e => simp [h0] at hw
    | ok bm =>
      cases h1 : writeName size names n with
      | error e => simp [h0, h1] at hw
      | ok r =>
        obtain ⟨nb, n1⟩ := r
        cases h2 : byteOf 0 with
        | error e => simp [h0, h1, h2] at hw
        | ok z =>
          cases h3 : byteOf bm.length with
          | error e => simp [h0, h1, h2, h3] at hw
          | ok lb =>
            simp only [h0, h1, h2, h3, pure, Except.pure, Except.ok.injEq, Prod.mk.injEq] at hw
            obtain ⟨_, rfl⟩ := hw
            exact (writeName_names n size names _ nb h1).1

theorem encRecord_names (mc : Bool) (size : Nat) (names names' : Names) (out : Bytes) (r : ERecord) (now : Ms)
    (hw : encRecord mc size names r now = .ok (out, names')) : ∀ p ∈ names', p ∈ names ∨ size ≤ p.2 := by
  unfold encRecord at hw
  simp only [bind, Except.bind] at hw
  cases h1 : writeName size names r.name with
  | error e => simp [h1] at hw
  | ok r1 =>
    obtain ⟨nb, n1⟩ := r1
    simp only [h1] at hw
    cases h2 : shortOf r.rtype with
    | error e => simp [h2] at hw
    | ok a =>
      simp only [h2] at hw
      cases h3 : shortOf (classField r.rclass r.unique mc) with
      | error e => simp [h3] at hw
      | ok b =>
        simp only [h3] at hw
        cases h4 : (if ttlField r now < 0 then (Except.error PyExc.structError : Except PyExc Bytes) else intOf (ttlField r now).toNat) with
        | error e => simp [h4] at hw
        | ok c =>
          simp only [h4] at hw
          cases h5 : encRData (size + nb.length + 10) n1 r.rdata with
          | error e => simp [h5] at hw
          | ok r5 =>
            obtain ⟨rd, n2⟩ := r5
            simp only [h5] at hw
            cases h6 : shortOf rd.length with
            | error e => simp [h6] at hw
            | ok d =>
              simp only [h6, pure, Except.pure, Except.ok.injEq, Prod.mk.injEq] at hw
              obtain ⟨_, rfl⟩ := hw
              intro x hx
              rcases encRData_names _ n1 _ rd r.rdata h5 x hx with h | h
              · exact (writeName_names r.name size names n1 nb h1).1 x h
              · right; omega

theorem encQuestion_names (mc : Bool) (size : Nat) (names names' : Names) (out : Bytes) (q : EQuestion)
    (hw : encQuestion mc size names q = .ok (out, names')) : ∀ p ∈ names', p ∈ names ∨ size ≤ p.2 := by
  unfold encQuestion at hw
  simp only [bind, Except.bind] at hw
  cases h1 : writeName size names q.name with
  | error e => simp [h1] at hw
  | ok r1 =>
    obtain ⟨nb, n1⟩ := r1
    simp only [h1] at hw
    cases h2 : shortOf q.qtype with
    | error e => simp [h2] at hw
    | ok a =>
      simp only [h2] at hw
      cases h3 : shortOf (classField q.qclass q.unique mc) with
      | error e => simp [h3] at hw
      | ok b =>
        simp only [h3, pure, Except.pure, Except.ok.injEq, Prod.mk.injEq] at hw
        obtain ⟨_, rfl⟩ := hw
        exact (writeName_names q.name size names _ nb h1).1

/-! ### the per-packet invariant -/

/-- `k` entries have been committed to this packet so far -/
structure StInv (H : Bytes) (st : St) (k : Nat) : Prop where
  names : NamesGood (H ++ st.body) st.names
  fresh : st.allowLong = true → k = 0 ∧ st.body = []
  size : st.size ≤ 1460 ∨ (k = 1 ∧ st.size ≤ 8966)
  count : k ≤ st.body.length
  empty : k = 0 → st.body = []

theorem StInv.fresh_inv (H : Bytes) : StInv H St.fresh 0 :=
  ⟨NamesGood.nil _, fun _ => ⟨rfl, rfl⟩, Or.inl (by decide), Nat.le_refl _, fun _ => rfl⟩

theorem St.size_eq (H : Bytes) (hH : H.length = 12) (st : St) : (H ++ st.body).length = st.size := by
  simp [St.size, hH, GenFacts.Outgoing.header_len]

/-- what `commit` does to the invariant, given that the appended bytes decode -/
theorem commit_spec (H : Bytes) (hH : H.length = 12) (st st' : St) (k : Nat) (out : Bytes) (names' : Names) (ok : Bool)
    (hinv : StInv H st k) (hpos : 0 < out.length)
    (hstruct : ∀ p ∈ names', p ∈ st.names ∨ st.size ≤ p.2)
    (hgood : (H ++ st.body ++ out).length ≤ 16384 → NamesGood (H ++ st.body ++ out) names')
    (hc : commit st out names' = (st', ok)) :
    st'.allowLong = false ∧
    (ok = true → st'.body = st.body ++ out ∧ StInv H st' (k + 1) ∧ st.size + out.length ≤ 8966) ∧
    (ok = false → st'.body = st.body ∧ StInv H st' k) := by
  simp only [commit] at hc
  have hsz := St.size_eq H hH st
  split at hc
  · rename_i hfit
    rw [GenFacts.Outgoing.fits_iff] at hfit
    simp only [Prod.mk.injEq] at hc
    obtain ⟨rfl, rfl⟩ := hc
    have hlim := GenFacts.Outgoing.len_limit_le st.allowLong
    refine ⟨rfl, fun _ => ⟨rfl, ?_, by omega⟩, fun h => by simp at h⟩
    have hlen : (H ++ st.body ++ out).length = st.size + out.length := by rw [List.length_append, hsz]
    refine ⟨?_, fun h => by simp at h, ?_, ?_, fun h => by omega⟩
    · have := hgood (by omega)
      simpa [List.append_assoc] using this
    · show St.size _ ≤ 1460 ∨ _
      have hs' : St.size { body := st.body ++ out, names := names', allowLong := false } = st.size + out.length := by
        simp [St.size]; omega
      rw [hs']
      cases hal : st.allowLong with
      | true =>
        obtain ⟨hk, _⟩ := hinv.fresh hal
        right; exact ⟨by omega, by omega⟩
      | false =>
        rw [hal, GenFacts.Outgoing.len_limit_false] at hfit
        left; exact hfit
    · have := hinv.count
      simp; omega
  · simp only [Prod.mk.injEq] at hc
    obtain ⟨rfl, rfl⟩ := hc
    refine ⟨rfl, fun h => by simp at h, fun _ => ⟨rfl, ?_⟩⟩
    refine ⟨?_, fun h => by simp at h, ?_, hinv.count, hinv.empty⟩
    · intro p hp
      simp only [List.mem_filter, Bool.not_eq_true'] at hp
      obtain ⟨hp1, hp2⟩ := hp
      have : ¬ st.size ≤ p.2 := by
        intro hle
        have := (GenFacts.Outgoing.rollback_drops_iff p.2 st.size).mpr hle
        simp [this] at hp2
      rcases hstruct p hp1 with h | h
      · exact hinv.names p h
      · exact absurd h this
    · exact hinv.size

theorem encRecord_pos (mc : Bool) (size : Nat) (names names' : Names) (out : Bytes) (r : ERecord) (now : Ms)
    (hw : encRecord mc size names r now = .ok (out, names')) : 0 < out.length := by
  unfold encRecord at hw
  simp only [bind, Except.bind] at hw
  cases h1 : writeName size names r.name with
  | error e => simp [h1] at hw
  | ok r1 =>
    obtain ⟨nb, n1⟩ := r1
    simp only [h1] at hw
    cases h2 : shortOf r.rtype with
    | error e => simp [h2] at hw
    | ok a =>
      obtain ⟨rfl, _⟩ := shortOf_ok h2
      simp only [h2] at hw
      cases h3 : shortOf (classField r.rclass r.unique mc) with
      | error e => simp [h3] at hw
      | ok b =>
        simp only [h3] at hw
        cases h4 : (if ttlField r now < 0 then (Except.error PyExc.structError : Except PyExc Bytes) else intOf (ttlField r now).toNat) with
        | error e => simp [h4] at hw
        | ok c =>
          simp only [h4] at hw
          cases h5 : encRData (size + nb.length + 10) n1 r.rdata with
          | error e => simp [h5] at hw
          | ok r5 =>
            obtain ⟨rd, n2⟩ := r5
            simp only [h5] at hw
            cases h6 : shortOf rd.length with
            | error e => simp [h6] at hw
            | ok d =>
              simp only [h6, pure, Except.pure, Except.ok.injEq, Prod.mk.injEq] at hw
              obtain ⟨rfl, _⟩ := hw
              simp [be16_length]; omega

theorem encQuestion_pos (mc : Bool) (size : Nat) (names names' : Names) (out : Bytes) (q : EQuestion)
    (hw : encQuestion mc size names q = .ok (out, names')) : 0 < out.length := by
  unfold encQuestion at hw
  simp only [bind, Except.bind] at hw
  cases h1 : writeName size names q.name with
  | error e => simp [h1] at hw
  | ok r1 =>
    obtain ⟨nb, n1⟩ := r1
    simp only [h1] at hw
    cases h2 : shortOf q.qtype with
    | error e => simp [h2] at hw
    | ok a =>
      obtain ⟨rfl, _⟩ := shortOf_ok h2
      simp only [h2] at hw
      cases h3 : shortOf (classField q.qclass q.unique mc) with
      | error e => simp [h3] at hw
      | ok b =>
        simp only [h3, pure, Except.pure, Except.ok.injEq, Prod.mk.injEq] at hw
        obtain ⟨rfl, _⟩ := hw
        simp [be16_length]; omega

/-- answers inside the quantifier: the record with the `now` it was added with -/
def WFAns (x : ERecord × Ms) : Prop := WFRec x.1 x.2

instance (x : ERecord × Ms) : Decidable (WFAns x) := by unfold WFAns; infer_instance

theorem writeRecord_spec (H : Bytes) (hH : H.length = 12) (mc : Bool) (st st' : St) (k : Nat) (r : ERecord) (now : Ms) (ok : Bool)
    (hinv : StInv H st k) (hwf : WFAns (r, now)) (hw : writeRecord mc st r now = .ok (st', ok)) :
    st'.allowLong = false ∧
    (ok = true → (∃ out, st'.body = st.body ++ out ∧ 0 < out.length) ∧ StInv H st' (k + 1) ∧
      ∀ tail, decRecord (H ++ st'.body ++ tail) (H ++ st.body).length = some (r.onWire mc now, (H ++ st'.body).length)) ∧
    (ok = false → st'.body = st.body ∧ StInv H st' k) := by
  unfold writeRecord at hw
  simp only [bind, Except.bind] at hw
  cases h1 : encRecord mc st.size st.names r now with
  | error e => simp [h1] at hw
  | ok r1 =>
    obtain ⟨out, names'⟩ := r1
    simp only [h1, pure, Except.pure, Except.ok.injEq] at hw
    have hsz := St.size_eq H hH st
    have hpos := encRecord_pos _ _ _ _ _ _ _ h1
    have h12 : 12 ≤ (H ++ st.body).length := by simp [hH]
    have h1' : encRecord mc (H ++ st.body).length st.names r now = .ok (out, names') := by rw [hsz]; exact h1
    obtain ⟨hal, hok, hno⟩ := commit_spec H hH st st' k out names' ok hinv hpos
      (encRecord_names _ _ _ _ _ _ _ h1)
      (fun hfin => (encRecord_spec mc (H ++ st.body) st.names names' out r now h12 hinv.names hwf h1' hfin []).2)
      hw
    refine ⟨hal, fun hk => ?_, hno⟩
    obtain ⟨hb, hi, hfit⟩ := hok hk
    refine ⟨⟨out, hb, hpos⟩, hi, fun tail => ?_⟩
    have hfin : (H ++ st.body ++ out).length ≤ 16384 := by rw [List.length_append, hsz]; omega
    have := (encRecord_spec mc (H ++ st.body) st.names names' out r now h12 hinv.names hwf h1' hfin tail).1
    rw [hb]
    simpa [List.append_assoc] using this

/-- questions inside the quantifier -/
theorem writeQuestion_spec (H : Bytes) (hH : H.length = 12) (mc : Bool) (st st' : St) (k : Nat) (q : EQuestion) (ok : Bool)
    (hinv : StInv H st k) (hwf : WFQuestion q) (hw : writeQuestion mc st q = .ok (st', ok)) :
    st'.allowLong = false ∧
    (ok = true → (∃ out, st'.body = st.body ++ out ∧ 0 < out.length) ∧ StInv H st' (k + 1) ∧
      ∀ tail, decQuestion (H ++ st'.body ++ tail) (H ++ st.body).length = some (q.onWire mc, (H ++ st'.body).length)) ∧
    (ok = false → st'.body = st.body ∧ StInv H st' k) := by
  unfold writeQuestion at hw
  simp only [bind, Except.bind] at hw
  cases h1 : encQuestion mc st.size st.names q with
  | error e => simp [h1] at hw
  | ok r1 =>
    obtain ⟨out, names'⟩ := r1
    simp only [h1, pure, Except.pure, Except.ok.injEq] at hw
    have hsz := St.size_eq H hH st
    have hpos := encQuestion_pos _ _ _ _ _ _ h1
    have h12 : 12 ≤ (H ++ st.body).length := by simp [hH]
    have h1' : encQuestion mc (H ++ st.body).length st.names q = .ok (out, names') := by rw [hsz]; exact h1
    obtain ⟨hal, hok, hno⟩ := commit_spec H hH st st' k out names' ok hinv hpos
      (encQuestion_names _ _ _ _ _ _ h1)
      (fun hfin => (encQuestion_spec mc (H ++ st.body) st.names names' out q h12 hinv.names hwf h1' hfin []).2)
      hw
    refine ⟨hal, fun hk => ?_, hno⟩
    obtain ⟨hb, hi, hfit⟩ := hok hk
    refine ⟨⟨out, hb, hpos⟩, hi, fun tail => ?_⟩
    have hfin : (H ++ st.body ++ out).length ≤ 16384 := by rw [List.length_append, hsz]; omega
    have := (encQuestion_spec mc (H ++ st.body) st.names names' out q h12 hinv.names hwf h1' hfin tail).1
    rw [hb]
    simpa [List.append_assoc] using this

/-! ### section loops -/

/-- the bytes this record takes when it is the only entry of a datagram -/
def recordAloneSize (mc : Bool) (x : ERecord × Ms) : Nat :=
  match encRecord mc 12 [] x.1 x.2 with
  | .ok (out, _) => 12 + out.length
  | .error _ => 0

def questionAloneSize (mc : Bool) (q : EQuestion) : Nat :=
  match encQuestion mc 12 [] q with
  | .ok (out, _) => 12 + out.length
  | .error _ => 0

theorem St.fresh_of (H : Bytes) (st : St) (k : Nat) (hinv : StInv H st k) (hal : st.allowLong = true) :
    st.size = 12 ∧ st.body = [] ∧ k = 0 := by
  obtain ⟨hk, hb⟩ := hinv.fresh hal
  exact ⟨by simp [St.size, hb, GenFacts.Outgoing.header_len], hb, hk⟩

theorem writeAnswers_spec (H : Bytes) (hH : H.length = 12) (mc : Bool) :
    ∀ (rs : List (ERecord × Ms)) (st st' : St) (k n : Nat),
    StInv H st k → (∀ x ∈ rs, WFAns x) → writeAnswers mc st rs = .ok (st', n) →
    n ≤ rs.length ∧ StInv H st' (k + n) ∧ (∃ ext, st'.body = st.body ++ ext) ∧
    (rs = [] → st' = st) ∧ (rs ≠ [] → st'.allowLong = false) ∧
    (∀ x rest, rs = x :: rest → st.allowLong = true → st.names = [] → recordAloneSize mc x ≤ 8966 → 1 ≤ n) ∧
    (∀ tail, decMany (decRecord (H ++ st'.body ++ tail)) n (H ++ st.body).length
        = some ((rs.take n).map (fun x => x.1.onWire mc x.2), (H ++ st'.body).length)) := by
  intro rs
  induction rs with
  | nil =>
    intro st st' k n hinv _ hw
    simp only [writeAnswers, pure, Except.pure, Except.ok.injEq, Prod.mk.injEq] at hw
    obtain ⟨rfl, rfl⟩ := hw
    exact ⟨Nat.le_refl _, hinv, ⟨[], by simp⟩, fun _ => rfl, fun h => absurd rfl h, fun x rest h => by simp at h,
      fun tail => by simp [decMany]⟩
  | cons x rest ih =>
    intro st st' k n hinv hwf hw
    obtain ⟨r, now⟩ := x
    simp only [writeAnswers, bind, Except.bind] at hw
    cases h1 : writeRecord mc st r now with
    | error e => simp [h1] at hw
    | ok r1 =>
      obtain ⟨st1, ok⟩ := r1
      simp only [h1] at hw
      obtain ⟨hal1, hok, hno⟩ := writeRecord_spec H hH mc st st1 k r now ok hinv (hwf _ (by simp)) h1
      cases ok with
      | false =>
        simp only [Bool.false_eq_true, if_false, pure, Except.pure, Except.ok.injEq, Prod.mk.injEq] at hw
        obtain ⟨rfl, rfl⟩ := hw
        obtain ⟨hb, hi⟩ := hno rfl
        refine ⟨Nat.zero_le _, hi, ⟨[], by simp [hb]⟩, fun h => by simp at h, fun _ => hal1, ?_, fun tail => by simp [decMany, hb]⟩
        -- progress: a fresh packet accepts an entry that fits alone
        intro x' rest' hx hal hnames hfit
        exfalso
        simp only [List.cons.injEq] at hx
        obtain ⟨rfl, _⟩ := hx
        obtain ⟨hs12, hbody, _⟩ := St.fresh_of H st k hinv hal
        unfold writeRecord at h1
        simp only [bind, Except.bind] at h1
        cases h2 : encRecord mc st.size st.names r now with
        | error e => simp [h2] at h1
        | ok r2 =>
          obtain ⟨out, nm⟩ := r2
          simp only [h2, pure, Except.pure, Except.ok.injEq] at h1
          rw [hs12, hnames] at h2
          simp only [recordAloneSize, h2] at hfit
          simp only [commit, hal, hs12] at h1
          have : Gen.Outgoing.fits (12 + out.length) (Gen.Outgoing.len_limit true) = true := by
            rw [GenFacts.Outgoing.fits_iff, GenFacts.Outgoing.len_limit_true]; simpa using hfit
          simp [this] at h1
      | true =>
        simp only [if_true] at hw
        cases h2 : writeAnswers mc st1 rest with
        | error e => simp [h2] at hw
        | ok r2 =>
          obtain ⟨st2, n2⟩ := r2
          simp only [h2, pure, Except.pure, Except.ok.injEq, Prod.mk.injEq] at hw
          obtain ⟨rfl, rfl⟩ := hw
          obtain ⟨⟨out, hb, hpos⟩, hi, hdec⟩ := hok rfl
          obtain ⟨hn, hi2, ⟨ext2, hb2⟩, _, _, _, hdec2⟩ := ih st1 st2 (k + 1) n2 hi (fun y hy => hwf y (by simp [hy])) h2
          refine ⟨by simp; omega, by rw [show k + (n2 + 1) = k + 1 + n2 by omega]; exact hi2,
            ⟨out ++ ext2, by rw [hb2, hb]; simp⟩, fun h => by simp at h, fun _ => ?_, fun _ _ _ _ _ _ => by omega, fun tail => ?_⟩
          · cases hr : rest with
            | nil =>
              subst hr
              simp only [writeAnswers, pure, Except.pure, Except.ok.injEq, Prod.mk.injEq] at h2
              obtain ⟨rfl, _⟩ := h2; exact hal1
            | cons y ys =>
              obtain ⟨_, _, _, _, hal2, _⟩ := ih st1 st2 (k + 1) n2 hi (fun y hy => hwf y (by simp [hy])) h2
              exact hal2 (by simp [hr])
          · have d1 := hdec (ext2 ++ tail)
            have e : H ++ st1.body ++ (ext2 ++ tail) = H ++ st2.body ++ tail := by rw [hb2]; simp
            rw [e] at d1
            simp only [decMany, bind, Option.bind, d1, hdec2 tail, List.take_succ_cons, List.map_cons, pure]

theorem writeQuestions_spec (H : Bytes) (hH : H.length = 12) (mc : Bool) :
    ∀ (rs : List EQuestion) (st st' : St) (k n : Nat),
    StInv H st k → (∀ x ∈ rs, WFQuestion x) → writeQuestions mc st rs = .ok (st', n) →
    n ≤ rs.length ∧ StInv H st' (k + n) ∧ (∃ ext, st'.body = st.body ++ ext) ∧
    (rs = [] → st' = st) ∧ (rs ≠ [] → st'.allowLong = false) ∧
    (∀ x rest, rs = x :: rest → st.allowLong = true → st.names = [] → questionAloneSize mc x ≤ 8966 → 1 ≤ n) ∧
    (∀ tail, decMany (decQuestion (H ++ st'.body ++ tail)) n (H ++ st.body).length
        = some ((rs.take n).map (fun x => x.onWire mc), (H ++ st'.body).length)) := by
  intro rs
  induction rs with
  | nil =>
    intro st st' k n hinv _ hw
    simp only [writeQuestions, pure, Except.pure, Except.ok.injEq, Prod.mk.injEq] at hw
    obtain ⟨rfl, rfl⟩ := hw
    exact ⟨Nat.le_refl _, hinv, ⟨[], by simp⟩, fun _ => rfl, fun h => absurd rfl h, fun x rest h => by simp at h,
      fun tail => by simp [decMany]⟩
  | cons x rest ih =>
    intro st st' k n hinv hwf hw
    simp only [writeQuestions, bind, Except.bind] at hw
    cases h1 : writeQuestion mc st x with
    | error e => simp [h1] at hw
    | ok r1 =>
      obtain ⟨st1, ok⟩ := r1
      simp only [h1] at hw
      obtain ⟨hal1, hok, hno⟩ := writeQuestion_spec H hH mc st st1 k x ok hinv (hwf _ (by simp)) h1
      cases ok with
      | false =>
        simp only [Bool.false_eq_true, if_false, pure, Except.pure, Except.ok.injEq, Prod.mk.injEq] at hw
        obtain ⟨rfl, rfl⟩ := hw
        obtain ⟨hb, hi⟩ := hno rfl
        refine ⟨Nat.zero_le _, hi, ⟨[], by simp [hb]⟩, fun h => by simp at h, fun _ => hal1, ?_, fun tail => by simp [decMany, hb]⟩
        -- progress: a fresh packet accepts an entry that fits alone
        intro x' rest' hx hal hnames hfit
        exfalso
        simp only [List.cons.injEq] at hx
        obtain ⟨rfl, _⟩ := hx
        obtain ⟨hs12, hbody, _⟩ := St.fresh_of H st k hinv hal
        unfold writeQuestion at h1
        simp only [bind, Except.bind] at h1
        cases h2 : encQuestion mc st.size st.names x with
        | error e => simp [h2] at h1
        | ok r2 =>
          obtain ⟨out, nm⟩ := r2
          simp only [h2, pure, Except.pure, Except.ok.injEq] at h1
          rw [hs12, hnames] at h2
          simp only [questionAloneSize, h2] at hfit
          simp only [commit, hal, hs12] at h1
          have : Gen.Outgoing.fits (12 + out.length) (Gen.Outgoing.len_limit true) = true := by
            rw [GenFacts.Outgoing.fits_iff, GenFacts.Outgoing.len_limit_true]; simpa using hfit
          simp [this] at h1
      | true =>
        simp only [if_true] at hw
        cases h2 : writeQuestions mc st1 rest with
        | error e => simp [h2] at hw
        | ok r2 =>
          obtain ⟨st2, n2⟩ := r2
          simp only [h2, pure, Except.pure, Except.ok.injEq, Prod.mk.injEq] at hw
          obtain ⟨rfl, rfl⟩ := hw
          obtain ⟨⟨out, hb, hpos⟩, hi, hdec⟩ := hok rfl
          obtain ⟨hn, hi2, ⟨ext2, hb2⟩, _, _, _, hdec2⟩ := ih st1 st2 (k + 1) n2 hi (fun y hy => hwf y (by simp [hy])) h2
          refine ⟨by simp; omega, by rw [show k + (n2 + 1) = k + 1 + n2 by omega]; exact hi2,
            ⟨out ++ ext2, by rw [hb2, hb]; simp⟩, fun h => by simp at h, fun _ => ?_, fun _ _ _ _ _ _ => by omega, fun tail => ?_⟩
          · cases hr : rest with
            | nil =>
              subst hr
              simp only [writeQuestions, pure, Except.pure, Except.ok.injEq, Prod.mk.injEq] at h2
              obtain ⟨rfl, _⟩ := h2; exact hal1
            | cons y ys =>
              obtain ⟨_, _, _, _, hal2, _⟩ := ih st1 st2 (k + 1) n2 hi (fun y hy => hwf y (by simp [hy])) h2
              exact hal2 (by simp [hr])
          · have d1 := hdec (ext2 ++ tail)
            have e : H ++ st1.body ++ (ext2 ++ tail) = H ++ st2.body ++ tail := by rw [hb2]; simp
            rw [e] at d1
            simp only [decMany, bind, Option.bind, d1, hdec2 tail, List.take_succ_cons, List.map_cons, pure]

theorem writeRecords_spec (H : Bytes) (hH : H.length = 12) (mc : Bool)
    (rs : List ERecord) (st st' : St) (k n : Nat)
    (hinv : StInv H st k) (hwf : ∀ x ∈ rs, WFAns (x, 0)) (hw : writeRecords mc st rs = .ok (st', n)) :
    n ≤ rs.length ∧ StInv H st' (k + n) ∧ (∃ ext, st'.body = st.body ++ ext) ∧
    (rs = [] → st' = st) ∧ (rs ≠ [] → st'.allowLong = false) ∧
    (∀ x rest, rs = x :: rest → st.allowLong = true → st.names = [] → recordAloneSize mc (x, 0) ≤ 8966 → 1 ≤ n) ∧
    (∀ tail, decMany (decRecord (H ++ st'.body ++ tail)) n (H ++ st.body).length
        = some ((rs.take n).map (fun x => x.onWire mc 0), (H ++ st'.body).length)) := by
  unfold writeRecords at hw
  obtain ⟨h1, h2, h3, h4, h5, h6, h7⟩ := writeAnswers_spec H hH mc (rs.map (fun r => (r, 0))) st st' k n hinv
    (by intro x hx; simp only [List.mem_map] at hx; obtain ⟨y, hy, rfl⟩ := hx; exact hwf y hy) hw
  refine ⟨by simpa using h1, h2, h3, fun h => h4 (by simp [h]), fun h => h5 (by simpa using h), ?_, fun tail => ?_⟩
  · intro x rest hx
    exact h6 (x, 0) (rest.map (fun r => (r, 0))) (by simp [hx])
  · rw [h7 tail]
    simp [← List.map_take, List.map_map, Function.comp_def]

end Zc.Wire.Encode
