import Zc.Model.Wire.Strict
import Zc.Proofs.Wire.Scan
/-! Reading back what the encoder's primitive writers produce, and stability of the primitive
readers when bytes are appended. -/
namespace Zc.Wire
open Zc

theorem u8At_append {buf : Bytes} {off v : Nat} (ext : Bytes) (h : u8At buf off = some v) :
    u8At (buf ++ ext) off = some v := by
  unfold u8At at h ⊢
  cases hb : buf[off]? with
  | none => simp [hb] at h
  | some x =>
    obtain ⟨hlt, _⟩ := List.getElem?_eq_some_iff.mp hb
    rw [List.getElem?_append_left hlt, hb]
    simpa [hb] using h

theorem u16At_append {buf : Bytes} {off v : Nat} (ext : Bytes) (h : u16At buf off = some v) :
    u16At (buf ++ ext) off = some v := by
  unfold u16At at h ⊢
  cases ha : u8At buf off with
  | none => simp [ha, bind, Option.bind] at h
  | some a =>
    cases hb : u8At buf (off + 1) with
    | none => simp [ha, hb, bind, Option.bind] at h
    | some b =>
      rw [u8At_append ext ha, u8At_append ext hb]
      simpa [ha, hb] using h

theorem u32At_append {buf : Bytes} {off v : Nat} (ext : Bytes) (h : u32At buf off = some v) :
    u32At (buf ++ ext) off = some v := by
  unfold u32At at h ⊢
  cases ha : u16At buf off with
  | none => simp [ha, bind, Option.bind] at h
  | some a =>
    cases hb : u16At buf (off + 2) with
    | none => simp [ha, hb, bind, Option.bind] at h
    | some b =>
      rw [u16At_append ext ha, u16At_append ext hb]
      simpa [ha, hb] using h

theorem bytesAt_append {buf : Bytes} {off len : Nat} {v : Bytes} (ext : Bytes) (h : bytesAt buf off len = some v) :
    bytesAt (buf ++ ext) off len = some v := by
  unfold bytesAt at h ⊢
  split at h
  · rename_i hle
    have : off + len ≤ (buf ++ ext).length := by simp; omega
    simp only [this, if_true]
    simp only [Option.some.injEq] at h
    rw [List.drop_append_of_le_length (by omega), List.take_append_of_le_length (by simp; omega)]
    simpa using h
  · simp at h

theorem u8At_mid (a b : Bytes) (x : UInt8) : u8At (a ++ x :: b) a.length = some x.toNat := by
  simp [u8At]

theorem be16_length (v : Nat) : (be16 v).length = 2 := rfl
theorem be32_length (v : Nat) : (be32 v).length = 4 := rfl

theorem u16At_be16 (a b : Bytes) (v : Nat) (h : v < 65536) : u16At (a ++ be16 v ++ b) a.length = some v := by
  have h1 : ((v / 256).toUInt8).toNat = v / 256 := Strict.toUInt8_toNat_lt _ (by omega)
  have h2 : ((v % 256).toUInt8).toNat = v % 256 := Strict.toUInt8_toNat_lt _ (by omega)
  simp only [u16At, be16, List.append_assoc, List.cons_append, List.nil_append]
  rw [u8At_mid]
  have : u8At (a ++ (v / 256).toUInt8 :: (v % 256).toUInt8 :: b) (a.length + 1) = some ((v % 256).toUInt8).toNat := by
    have := u8At_mid (a ++ [(v / 256).toUInt8]) b (v % 256).toUInt8
    simpa using this
  rw [this]
  simp only [bind, Option.bind, pure, h1, h2, Option.some.injEq]
  omega

/-- the same, at an offset stated as a sum -/
theorem u16At_be16' (a b : Bytes) (v off : Nat) (h : v < 65536) (ho : off = a.length) :
    u16At (a ++ be16 v ++ b) off = some v := by subst ho; exact u16At_be16 a b v h

theorem u32At_be32 (a b : Bytes) (v : Nat) (h : v < 4294967296) : u32At (a ++ be32 v ++ b) a.length = some v := by
  have e : be32 v = be16 (v / 65536) ++ be16 (v % 65536) := by
    simp only [be32, be16, List.cons_append, List.nil_append]
    have a1 : v / 16777216 = v / 65536 / 256 := by omega
    have a3 : v / 256 % 256 = v % 65536 / 256 := by omega
    have a4 : v % 256 = v % 65536 % 256 := by omega
    rw [a1, a3, a4]
  unfold u32At
  have h1 : u16At (a ++ be32 v ++ b) a.length = some (v / 65536) := by
    rw [e]
    have := u16At_be16 a (be16 (v % 65536) ++ b) (v / 65536) (by omega)
    simpa [List.append_assoc] using this
  have h2 : u16At (a ++ be32 v ++ b) (a.length + 2) = some (v % 65536) := by
    rw [e]
    have := u16At_be16 (a ++ be16 (v / 65536)) b (v % 65536) (by omega)
    simpa [List.append_assoc, be16_length] using this
  rw [h1, h2]
  simp only [bind, Option.bind, pure, Option.some.injEq]
  omega

theorem bytesAt_mid (a x b : Bytes) : bytesAt (a ++ x ++ b) a.length x.length = some x := by
  unfold bytesAt
  have : a.length + x.length ≤ (a ++ x ++ b).length := by simp
  simp only [this, if_true, Option.some.injEq]
  rw [List.append_assoc, List.drop_left, List.take_left]

theorem bytesAt_mid' (a x b : Bytes) (off len : Nat) (ho : off = a.length) (hl : len = x.length) :
    bytesAt (a ++ x ++ b) off len = some x := by subst ho hl; exact bytesAt_mid a x b

theorem u16At_of_eq (buf a b : Bytes) (v off : Nat) (hb : buf = a ++ be16 v ++ b) (ho : off = a.length)
    (hv : v < 65536) : u16At buf off = some v := by subst hb ho; exact u16At_be16 a b v hv

theorem u32At_of_eq (buf a b : Bytes) (v off : Nat) (hb : buf = a ++ be32 v ++ b) (ho : off = a.length)
    (hv : v < 4294967296) : u32At buf off = some v := by subst hb ho; exact u32At_be32 a b v hv

theorem bytesAt_of_eq (buf a x b : Bytes) (off len : Nat) (hb : buf = a ++ x ++ b) (ho : off = a.length)
    (hl : len = x.length) : bytesAt buf off len = some x := by subst hb ho hl; exact bytesAt_mid a x b

theorem u8At_of_eq (buf a b : Bytes) (x : UInt8) (off : Nat) (hb : buf = a ++ x :: b) (ho : off = a.length) :
    u8At buf off = some x.toNat := by subst hb ho; exact u8At_mid a b x

namespace Strict

theorem decName_append {buf : Bytes} {off : Nat} {r : WName × Nat} (ext : Bytes)
    (h : decName buf off = some r) : decName (buf ++ ext) off = some r := by
  unfold decName at h ⊢
  cases hd : decFrom buf maxSegments off off with
  | none => simp [hd] at h
  | some p =>
    rw [decFrom_append _ ext _ _ _ _ hd]
    simpa [hd] using h

end Strict
end Zc.Wire
