import Zc.Proofs.Wire.Nsec
/-! Record level: `encRecord` appends bytes that the strict decoder reads back as the record's wire
form (all seven kinds), keeping the names table decodable. -/
namespace Zc.Wire.Encode
open Zc Zc.Wire Zc.Wire.Strict

/-- all seven record kinds -/
theorem encRData_spec (pre : Bytes) (names names' : Names) (out : Bytes) (rd : ERData) (rtype : Nat)
    (h12 : 12 ≤ pre.length) (hg : NamesGood pre names) (hwf : WFRData rtype rd)
    (hw : encRData pre.length names rd = .ok (out, names')) (hfin : (pre ++ out).length ≤ 16384) (tail : Bytes) :
    decRData (pre ++ out ++ tail) rtype pre.length out.length = some rd.onWire ∧ NamesGood (pre ++ out) names' := by
  cases rd with
  | addr a => exact encRData_spec_addr pre names names' out a rtype hg hwf hw tail
  | ptr t => exact encRData_spec_ptr pre names names' out t rtype h12 hg hwf hw hfin tail
  | txt t => exact encRData_spec_txt pre names names' out t rtype hg hwf hw tail
  | srv p w q t => exact encRData_spec_srv pre names names' out p w q t rtype h12 hg hwf hw hfin tail
  | hinfo c o => exact encRData_spec_hinfo pre names names' out c o rtype hg hwf hw tail
  | nsec n ts => exact encRData_spec_nsec pre names names' out n ts rtype h12 hg hwf hw hfin tail

/-- records inside the quantifier -/
def WFRec (r : ERecord) (now : Ms) : Prop :=
  WFName r.name ∧ r.rtype < 65536 ∧ r.rclass < 32768 ∧ wireTtl r now < 4294967296 ∧ WFRData r.rtype r.rdata

instance (r : ERecord) (now : Ms) : Decidable (WFRec r now) := by unfold WFRec; infer_instance

theorem ttlField_eq (r : ERecord) (now : Ms) : 0 ≤ ttlField r now ∧ (ttlField r now).toNat = wireTtl r now := by
  unfold ttlField wireTtl
  rw [GenFacts.Outgoing.ttl_field_eq _ _ _ (by omega)]
  split
  · simp
  · split
    · simp
    · rename_i hn
      constructor
      · exact Int.ediv_nonneg (by omega) (by omega)
      · trivial

theorem encRecord_spec (mc : Bool) (pre : Bytes) (names names' : Names) (out : Bytes) (r : ERecord) (now : Ms)
    (h12 : 12 ≤ pre.length) (hg : NamesGood pre names) (hwf : WFRec r now)
    (hw : encRecord mc pre.length names r now = .ok (out, names')) (hfin : (pre ++ out).length ≤ 16384) (tail : Bytes) :
    decRecord (pre ++ out ++ tail) pre.length = some (r.onWire mc now, (pre ++ out).length) ∧ NamesGood (pre ++ out) names' := by
  obtain ⟨hn, ht, hc, httl, hrd⟩ := hwf
  obtain ⟨hpos, htn⟩ := ttlField_eq r now
  unfold encRecord at hw
  cases h1 : writeName pre.length names r.name with
  | error e => simp [h1, bind, Except.bind] at hw
  | ok r1 =>
    obtain ⟨nb, names1⟩ := r1
    have e2 : shortOf r.rtype = .ok (be16 r.rtype) := by simp [shortOf, ht]
    have hcl : classField r.rclass r.unique mc < 65536 := by
      rw [classField_eq _ _ _ hc]; unfold wireClass; split <;> omega
    have e3 : shortOf (classField r.rclass r.unique mc) = .ok (be16 (classField r.rclass r.unique mc)) := by simp [shortOf, hcl]
    have e4 : (if ttlField r now < 0 then (Except.error PyExc.structError : Except PyExc Bytes) else intOf (ttlField r now).toNat)
        = .ok (be32 (wireTtl r now)) := by
      have : ¬ ttlField r now < 0 := by omega
      simp [this, htn, intOf, httl]
    simp only [h1, e2, e3, e4, bind, Except.bind] at hw
    cases h5 : encRData (pre.length + nb.length + 10) names1 r.rdata with
    | error e => simp [h5] at hw
    | ok r5 =>
      obtain ⟨rd, names2⟩ := r5
      simp only [h5] at hw
      cases h6 : shortOf rd.length with
      | error e => simp [h6] at hw
      | ok lb =>
        obtain ⟨rfl, hrl⟩ := shortOf_ok h6
        simp only [h6, pure, Except.pure, Except.ok.injEq, Prod.mk.injEq] at hw
        obtain ⟨rfl, rfl⟩ := hw
        let pre1 := pre ++ nb
        let fixed := be16 r.rtype ++ be16 (classField r.rclass r.unique mc) ++ be32 (wireTtl r now) ++ be16 rd.length
        let pre2 := pre1 ++ fixed
        have hl2 : pre2.length = pre.length + nb.length + 10 := by simp [pre2, pre1, fixed, be16_length, be32_length]; omega
        have hbuf : pre ++ (nb ++ be16 r.rtype ++ be16 (classField r.rclass r.unique mc) ++ be32 (wireTtl r now) ++ be16 rd.length ++ rd)
            = pre2 ++ rd := by simp [pre2, pre1, fixed]
        rw [hbuf] at hfin ⊢
        have hlen2 : (pre2 ++ rd).length = pre1.length + 10 + rd.length := by
          simp [pre2, pre1, fixed, be16_length, be32_length]; omega
        have hfin1 : (pre ++ nb).length ≤ 16384 := by
          have : (pre2 ++ rd).length = pre.length + nb.length + 10 + rd.length := by rw [List.length_append, hl2]
          simp; omega
        obtain ⟨hdn, hng1, _⟩ := writeName_spec pre names names1 nb r.name h12 hg hn h1 hfin1
        have hg2 : NamesGood pre2 names1 := hng1.append fixed
        rw [← hl2] at h5
        obtain ⟨hdr, hng2⟩ := encRData_spec pre2 names1 names2 rd r.rdata r.rtype (by omega) hg2 hrd h5 hfin tail
        refine ⟨?_, hng2⟩
        have hdn' : decName (pre2 ++ rd ++ tail) pre.length = some (r.name, pre1.length) := by
          have := decName_append (fixed ++ rd ++ tail) hdn
          simpa [pre2, pre1, List.append_assoc] using this
        have hl1 : pre1.length = pre.length + nb.length := by simp [pre1]
        have u1 : u16At (pre2 ++ rd ++ tail) pre1.length = some r.rtype :=
          u16At_of_eq _ pre1 (be16 (classField r.rclass r.unique mc) ++ be32 (wireTtl r now) ++ be16 rd.length ++ rd ++ tail) _ _
            (by simp [pre2, fixed]) rfl ht
        have u2 : u16At (pre2 ++ rd ++ tail) (pre1.length + 2) = some (classField r.rclass r.unique mc) :=
          u16At_of_eq _ (pre1 ++ be16 r.rtype) (be32 (wireTtl r now) ++ be16 rd.length ++ rd ++ tail) _ _
            (by simp [pre2, fixed]) (by simp [be16_length]) hcl
        have u3 : u32At (pre2 ++ rd ++ tail) (pre1.length + 4) = some (wireTtl r now) :=
          u32At_of_eq _ (pre1 ++ be16 r.rtype ++ be16 (classField r.rclass r.unique mc)) (be16 rd.length ++ rd ++ tail) _ _
            (by simp [pre2, fixed]) (by simp [be16_length]) httl
        have u4 : u16At (pre2 ++ rd ++ tail) (pre1.length + 8) = some rd.length :=
          u16At_of_eq _ (pre1 ++ be16 r.rtype ++ be16 (classField r.rclass r.unique mc) ++ be32 (wireTtl r now)) (rd ++ tail) _ _
            (by simp [pre2, fixed]) (by simp [be16_length, be32_length]) hrl
        have hle : pre1.length + 10 + rd.length ≤ (pre2 ++ rd ++ tail).length := by
          have : (pre2 ++ rd ++ tail).length = pre2.length + rd.length + tail.length := by simp; omega
          omega
        have hoff : pre1.length + 10 = pre2.length := by rw [hl2, hl1]
        unfold decRecord
        simp only [bind, Option.bind, hdn', u1, u2, u3, u4, hle, if_true, hoff, hdr, pure]
        simp [ERecord.onWire, classField_eq _ _ _ hc]

end Zc.Wire.Encode
