import Zc.Proofs.Wire.Name
import Zc.Proofs.Wire.Prim
/-! Entry level: what `encQuestion` / `encRecord` append decodes, under the strict decoder, to the
entry's wire form; the names table stays decodable. -/
namespace Zc.Wire.Encode
open Zc Zc.Wire Zc.Wire.Strict

/-- names inside the property's quantifier: at least one label, labels of 1..63 bytes, at most 128
labels (implied by the 253-character limit), at most 253 characters -/
def WFName (n : WName) : Prop := n ≠ [] ∧ (∀ l ∈ n, WFLabel l) ∧ n.length ≤ 128 ∧ nameLen n ≤ 253 ∧ wireLen n ≤ 255

instance (n : WName) : Decidable (WFName n) := by unfold WFName; infer_instance

/-- every entry of the table is decodable in `buf` -/
def NamesGood (buf : Bytes) (names : Names) : Prop := ∀ p ∈ names, GoodBefore buf.length buf p

theorem NamesGood.append {buf : Bytes} {names : Names} (h : NamesGood buf names) (ext : Bytes) :
    NamesGood (buf ++ ext) names :=
  fun p hp => ((h p hp).append ext).mono (by simp)

theorem NamesGood.nil (buf : Bytes) : NamesGood buf [] := fun _ hp => by simp at hp

theorem writeName_spec (pre : Bytes) (names names' : Names) (out : Bytes) (n : WName)
    (h12 : 12 ≤ pre.length) (hg : NamesGood pre names) (hwf : WFName n)
    (hw : writeName pre.length names n = .ok (out, names')) (hfin : (pre ++ out).length ≤ 16384) :
    decName (pre ++ out) pre.length = some (n, (pre ++ out).length) ∧ NamesGood (pre ++ out) names' ∧ 0 < out.length := by
  obtain ⟨hne, hlab, hcount, hlen, hwire⟩ := hwf
  obtain ⟨hpos, hdec, hnew⟩ := writeName_gen n pre names names' out pre.length (Nat.le_refl _) hlab
    (fun p hp => Or.inr (hg p hp)) hw hfin
  refine ⟨?_, ?_, hpos⟩
  · unfold decName
    rw [decFrom_fuel_le _ _ maxSegments _ _ _ (by unfold maxSegments; omega) hdec]
    simp [hlen, hwire]
  · intro p hp
    rcases hnew p hp with h | ⟨h1, h2, h3, _, h5⟩
    · exact ((hg p h).append out).mono (by simp)
    · exact ⟨h1, by omega, h3, by omega, _, decFrom_start_mono _ _ _ _ _ _ h2 h5⟩

theorem shortOf_ok {v : Nat} {b : Bytes} (h : shortOf v = .ok b) : b = be16 v ∧ v < 65536 := by
  unfold shortOf at h; split at h <;> simp_all

theorem intOf_ok {v : Nat} {b : Bytes} (h : intOf v = .ok b) : b = be32 v ∧ v < 4294967296 := by
  unfold intOf at h; split at h <;> simp_all

theorem classField_eq (c : Nat) (u m : Bool) (hc : c < 32768) : classField c u m = wireClass c u m := by
  unfold classField wireClass
  rw [GenFacts.Outgoing.class_bit]
  split
  · exact GenFacts.Outgoing.class_with_unique_eq c hc
  · rfl

/-- questions inside the quantifier -/
def WFQuestion (q : EQuestion) : Prop := WFName q.name ∧ q.qtype < 65536 ∧ q.qclass < 32768

instance (q : EQuestion) : Decidable (WFQuestion q) := by unfold WFQuestion; infer_instance

theorem encQuestion_spec (mc : Bool) (pre : Bytes) (names names' : Names) (out : Bytes) (q : EQuestion)
    (h12 : 12 ≤ pre.length) (hg : NamesGood pre names) (hwf : WFQuestion q)
    (hw : encQuestion mc pre.length names q = .ok (out, names')) (hfin : (pre ++ out).length ≤ 16384) (tail : Bytes) :
    decQuestion (pre ++ out ++ tail) pre.length = some (q.onWire mc, (pre ++ out).length) ∧ NamesGood (pre ++ out) names' := by
  obtain ⟨hn, ht, hc⟩ := hwf
  unfold encQuestion at hw
  cases h1 : writeName pre.length names q.name with
  | error e => simp [h1, bind, Except.bind] at hw
  | ok r1 =>
    obtain ⟨nb, names1⟩ := r1
    cases h2 : shortOf q.qtype with
    | error e => simp [h1, h2, bind, Except.bind] at hw
    | ok tb =>
      cases h3 : shortOf (classField q.qclass q.unique mc) with
      | error e => simp [h1, h2, h3, bind, Except.bind] at hw
      | ok cb =>
        simp only [h1, h2, h3, bind, Except.bind, pure, Except.pure, Except.ok.injEq, Prod.mk.injEq] at hw
        obtain ⟨rfl, rfl⟩ := hw
        obtain ⟨rfl, _⟩ := shortOf_ok h2
        obtain ⟨rfl, hcl⟩ := shortOf_ok h3
        have hfin1 : (pre ++ nb).length ≤ 16384 := by simp at hfin ⊢; omega
        obtain ⟨hdn, hng, _⟩ := writeName_spec pre names names1 nb q.name h12 hg hn h1 hfin1
        have e1 : pre ++ (nb ++ be16 q.qtype ++ be16 (classField q.qclass q.unique mc))
            = (pre ++ nb) ++ (be16 q.qtype ++ be16 (classField q.qclass q.unique mc)) := by simp
        have e2 : pre ++ (nb ++ be16 q.qtype ++ be16 (classField q.qclass q.unique mc)) ++ tail
            = (pre ++ nb) ++ (be16 q.qtype ++ be16 (classField q.qclass q.unique mc) ++ tail) := by simp
        refine ⟨?_, ?_⟩
        · unfold decQuestion
          rw [e2, decName_append _ hdn]
          have u1 : u16At (pre ++ nb ++ (be16 q.qtype ++ be16 (classField q.qclass q.unique mc) ++ tail)) (pre ++ nb).length = some q.qtype :=
            u16At_of_eq _ (pre ++ nb) (be16 (classField q.qclass q.unique mc) ++ tail) _ _ (by simp) rfl ht
          have u2 : u16At (pre ++ nb ++ (be16 q.qtype ++ be16 (classField q.qclass q.unique mc) ++ tail)) ((pre ++ nb).length + 2)
              = some (classField q.qclass q.unique mc) :=
            u16At_of_eq _ (pre ++ nb ++ be16 q.qtype) tail _ _ (by simp) (by simp [be16_length]; omega) hcl
          simp only [bind, Option.bind, u1, u2, pure, Option.some.injEq, Prod.mk.injEq]
          refine ⟨?_, by simp [be16_length]; omega⟩
          simp [EQuestion.onWire, classField_eq _ _ _ hc]
        · rw [e1]; exact hng.append _

/-! ### rdata -/

/-- NSEC type lists inside the quantifier: non-empty, strictly increasing, window 0 only -/
def WFTypes (ts : List Nat) : Prop := ts ≠ [] ∧ ts.Pairwise (· < ·) ∧ ∀ t ∈ ts, t ≤ 255

/-- rdata inside the quantifier, for a record whose type field is `rtype` -/
def WFRData (rtype : Nat) : ERData → Prop
  | .addr a => (rtype = 1 ∧ a.length = 4) ∨ (rtype = 28 ∧ a.length = 16)
  | .ptr t => (rtype = 12 ∨ rtype = 5) ∧ WFName t
  | .txt _ => rtype = 16
  | .srv p w q t => rtype = 33 ∧ p < 65536 ∧ w < 65536 ∧ q < 65536 ∧ WFName t
  | .hinfo c o => rtype = 13 ∧ c.length ≤ 255 ∧ o.length ≤ 255
  | .nsec n ts => rtype = 47 ∧ WFName n ∧ WFTypes ts

instance (ts : List Nat) : Decidable (WFTypes ts) := by unfold WFTypes; infer_instance

instance (t : Nat) (rd : ERData) : Decidable (WFRData t rd) := by cases rd <;> unfold WFRData <;> infer_instance

theorem charStringOf_ok {s b : Bytes} (hs : s.length ≤ 255) (h : charStringOf s = .ok b) : b = s.length.toUInt8 :: s := by
  unfold charStringOf at h
  rw [GenFacts.Outgoing.charstring_short_accepted _ hs, byteOf_ok _ (by omega)] at h
  simp [bind, Except.bind, pure, Except.pure] at h
  exact h.symm

theorem charString_mid (a s b : Bytes) (hs : s.length ≤ 255) :
    charString (a ++ (s.length.toUInt8 :: s) ++ b) a.length = some (s, a.length + 1 + s.length) := by
  unfold charString
  have h1 : u8At (a ++ (s.length.toUInt8 :: s) ++ b) a.length = some s.length := by
    have := u8At_of_eq (a ++ (s.length.toUInt8 :: s) ++ b) a (s ++ b) s.length.toUInt8 a.length (by simp) rfl
    rw [this, toUInt8_toNat_lt _ (by omega)]
  have h2 : bytesAt (a ++ (s.length.toUInt8 :: s) ++ b) (a.length + 1) s.length = some s :=
    bytesAt_of_eq _ (a ++ [s.length.toUInt8]) s b _ _ (by simp) (by simp) rfl
  simp only [bind, Option.bind, h1, h2, pure]

theorem encRData_spec_addr (pre : Bytes) (names names' : Names) (out a : Bytes) (rtype : Nat)
    (hg : NamesGood pre names) (hwf : WFRData rtype (.addr a))
    (hw : encRData pre.length names (.addr a) = .ok (out, names')) (tail : Bytes) :
    decRData (pre ++ out ++ tail) rtype pre.length out.length = some (ERData.addr a).onWire ∧ NamesGood (pre ++ out) names' := by
  simp only [encRData, pure, Except.pure, Except.ok.injEq, Prod.mk.injEq] at hw
  obtain ⟨rfl, rfl⟩ := hw
  refine ⟨?_, hg.append _⟩
  have hb : bytesAt (pre ++ (a ++ tail)) pre.length a.length = some a := bytesAt_of_eq _ pre a tail _ _ (by simp) rfl rfl
  unfold decRData
  rcases hwf with ⟨rfl, h4⟩ | ⟨rfl, h16⟩
  · simp only [if_true, h4] at hb ⊢
    simp [hb, ERData.onWire]
  · simp only [h16] at hb ⊢
    simp [hb, ERData.onWire]

theorem encRData_spec_txt (pre : Bytes) (names names' : Names) (out t : Bytes) (rtype : Nat)
    (hg : NamesGood pre names) (hwf : WFRData rtype (.txt t))
    (hw : encRData pre.length names (.txt t) = .ok (out, names')) (tail : Bytes) :
    decRData (pre ++ out ++ tail) rtype pre.length out.length = some (ERData.txt t).onWire ∧ NamesGood (pre ++ out) names' := by
  simp only [encRData, pure, Except.pure, Except.ok.injEq, Prod.mk.injEq] at hw
  obtain ⟨rfl, rfl⟩ := hw
  refine ⟨?_, hg.append _⟩
  have hb : bytesAt (pre ++ (t ++ tail)) pre.length t.length = some t := bytesAt_of_eq _ pre t tail _ _ (by simp) rfl rfl
  have ht : rtype = 16 := hwf
  subst ht
  unfold decRData
  simp [hb, ERData.onWire]

theorem encRData_spec_ptr (pre : Bytes) (names names' : Names) (out : Bytes) (t : WName) (rtype : Nat)
    (h12 : 12 ≤ pre.length) (hg : NamesGood pre names) (hwf : WFRData rtype (.ptr t))
    (hw : encRData pre.length names (.ptr t) = .ok (out, names')) (hfin : (pre ++ out).length ≤ 16384) (tail : Bytes) :
    decRData (pre ++ out ++ tail) rtype pre.length out.length = some (ERData.ptr t).onWire ∧ NamesGood (pre ++ out) names' := by
  simp only [encRData] at hw
  obtain ⟨hty, hn⟩ := hwf
  obtain ⟨hd0, hng, _⟩ := writeName_spec pre names names' out t h12 hg hn hw hfin
  have hd := decName_append tail hd0
  rw [List.append_assoc] at hd
  refine ⟨?_, hng⟩
  unfold decRData
  rcases hty with rfl | rfl <;> simp [hd, ERData.onWire]

theorem encRData_spec_srv (pre : Bytes) (names names' : Names) (out : Bytes) (p w q : Nat) (t : WName) (rtype : Nat)
    (h12 : 12 ≤ pre.length) (hg : NamesGood pre names) (hwf : WFRData rtype (.srv p w q t))
    (hw : encRData pre.length names (.srv p w q t) = .ok (out, names')) (hfin : (pre ++ out).length ≤ 16384) (tail : Bytes) :
    decRData (pre ++ out ++ tail) rtype pre.length out.length = some (ERData.srv p w q t).onWire ∧ NamesGood (pre ++ out) names' := by
  obtain ⟨rfl, hp, hw', hq, hn⟩ := hwf
  simp only [encRData] at hw
  have e1 : shortOf p = .ok (be16 p) := by simp [shortOf, hp]
  have e2 : shortOf w = .ok (be16 w) := by simp [shortOf, hw']
  have e3 : shortOf q = .ok (be16 q) := by simp [shortOf, hq]
  simp only [e1, e2, e3, bind, Except.bind] at hw
  cases h1 : writeName (pre.length + 6) names t with
  | error e => simp [h1] at hw
  | ok r =>
    obtain ⟨nb, names1⟩ := r
    simp only [h1, pure, Except.pure, Except.ok.injEq, Prod.mk.injEq] at hw
    obtain ⟨rfl, rfl⟩ := hw
    let pre6 := pre ++ be16 p ++ be16 w ++ be16 q
    have hl6 : pre6.length = pre.length + 6 := by simp [pre6, be16_length]
    rw [← hl6] at h1
    have hbuf : pre ++ (be16 p ++ be16 w ++ be16 q ++ nb) = pre6 ++ nb := by simp [pre6]
    have hfin6 : (pre6 ++ nb).length ≤ 16384 := by rw [← hbuf]; exact hfin
    have hg6 : NamesGood pre6 names := by
      have := (hg.append (be16 p ++ be16 w ++ be16 q)); simpa [pre6, List.append_assoc] using this
    obtain ⟨hd0, hng, _⟩ := writeName_spec pre6 names names1 nb t (by omega) hg6 hn h1 hfin6
    have hd := decName_append tail hd0
    rw [hbuf]
    refine ⟨?_, hng⟩
    have u1 : u16At (pre6 ++ nb ++ tail) pre.length = some p :=
      u16At_of_eq _ pre (be16 w ++ be16 q ++ nb ++ tail) _ _ (by simp [pre6]) rfl hp
    have u2 : u16At (pre6 ++ nb ++ tail) (pre.length + 2) = some w :=
      u16At_of_eq _ (pre ++ be16 p) (be16 q ++ nb ++ tail) _ _ (by simp [pre6]) (by simp [be16_length]) hw'
    have u3 : u16At (pre6 ++ nb ++ tail) (pre.length + 4) = some q :=
      u16At_of_eq _ (pre ++ be16 p ++ be16 w) (nb ++ tail) _ _ (by simp [pre6]) (by simp [be16_length]) hq
    rw [hl6] at hd
    unfold decRData
    simp only [bind, Option.bind, u1, u2, u3, hd]
    simp [ERData.onWire, be16_length, hl6]
    omega

theorem encRData_spec_hinfo (pre : Bytes) (names names' : Names) (out c o : Bytes) (rtype : Nat)
    (hg : NamesGood pre names) (hwf : WFRData rtype (.hinfo c o))
    (hw : encRData pre.length names (.hinfo c o) = .ok (out, names')) (tail : Bytes) :
    decRData (pre ++ out ++ tail) rtype pre.length out.length = some (ERData.hinfo c o).onWire ∧ NamesGood (pre ++ out) names' := by
  obtain ⟨rfl, hc, ho⟩ := hwf
  simp only [encRData] at hw
  cases h1 : charStringOf c with
  | error e => simp [h1, bind, Except.bind] at hw
  | ok cb =>
    cases h2 : charStringOf o with
    | error e => simp [h1, h2, bind, Except.bind] at hw
    | ok ob =>
      simp only [h1, h2, bind, Except.bind, pure, Except.pure, Except.ok.injEq, Prod.mk.injEq] at hw
      obtain ⟨rfl, rfl⟩ := hw
      have := charStringOf_ok hc h1
      subst this
      have := charStringOf_ok ho h2
      subst this
      refine ⟨?_, hg.append _⟩
      have c1 : charString (pre ++ (c.length.toUInt8 :: c ++ o.length.toUInt8 :: o) ++ tail) pre.length = some (c, pre.length + 1 + c.length) := by
        have := charString_mid pre c (o.length.toUInt8 :: o ++ tail) hc
        simpa [List.append_assoc] using this
      have c2 : charString (pre ++ (c.length.toUInt8 :: c ++ o.length.toUInt8 :: o) ++ tail) (pre.length + 1 + c.length)
          = some (o, pre.length + 1 + c.length + 1 + o.length) := by
        have := charString_mid (pre ++ (c.length.toUInt8 :: c)) o tail ho
        simp only [List.append_nil, List.length_append, List.length_cons] at this
        rw [show pre.length + (c.length + 1) = pre.length + 1 + c.length by omega] at this
        simpa [List.append_assoc] using this
      unfold decRData
      simp only [bind, Option.bind, c1, c2]
      simp [ERData.onWire]
      omega

end Zc.Wire.Encode
