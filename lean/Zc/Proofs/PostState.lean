import Zc.Proofs.IngestRead
/-! The property-level reading of one datagram's effect on one identity (`PostState`), proved for the
reference store.  Shared by C05 (`C05_refresh_safe`) and C06. -/
namespace Zc

section
variable (lower : String → String)

/-- what a datagram does to a record `e` that stays cached: refreshed by the last live copy of itself
(arrival time, received TTL, pointer TTLs floored to 1125 s); otherwise marked to expire in one second iff the
flush applies (`Flushed`: a cache-flush record of the same name/type/class is in the datagram, `e` is older
than one second, and `e` itself is not in the datagram); otherwise untouched. -/
def Refreshed (now : Ms) (recs : List Rec) (e e' : Rec) : Prop :=
  match lastLive lower recs e with
  | some r => e' = e.setLife now (storedTtl r.type r.ttl)
  | none => (Flushed lower now recs e → e' = e.setLife now 1) ∧ (¬ Flushed lower now recs e → e' = e)

/-- the property's post-state for the identity of `q`: `before`/`after` are what the cache holds for it -/
def PostState (now : Ms) (recs : List Rec) (q : Rec) (before after : Option Rec) : Prop :=
  match before with
  | some e =>
    -- cached: a goodbye copy removes it (even if another copy refreshes it); else it stays, `Refreshed`
    if hasGoodbye lower recs q then after = none
    else ∃ e', after = some e' ∧ Refreshed lower now recs e e'
  | none =>
    -- not cached: goodbyes are ignored; the last live copy is stored with the arrival time and its (floored) TTL
    after = (lastLive lower recs q).map (asStored now)

variable {lower}

theorem copiesOf_congr (recs : List Rec) {e q : Rec} (h : e.ident lower = q.ident lower) : copiesOf lower recs e = copiesOf lower recs q := by
  unfold copiesOf; rw [h]

theorem lastLive_congr (recs : List Rec) {e q : Rec} (h : e.ident lower = q.ident lower) : lastLive lower recs e = lastLive lower recs q := by
  unfold lastLive; rw [copiesOf_congr recs h]

theorem not_flushed_fresh (now : Ms) (recs : List Rec) (e : Rec) (t : Nat) : ¬ Flushed lower now recs (e.setLife now t) := by
  rintro ⟨_, h, _⟩
  simp only [created_setLife] at h
  rw [Int.sub_self] at h
  exact absurd h (by decide)

/-- refresh followed by flush, in the property's words -/
theorem refreshed_markOne_refresh (now : Ms) (recs : List Rec) (e : Rec) :
    Refreshed lower now recs e (markOne lower now (effective now recs) (refresh lower now (effective now recs) e)) := by
  unfold Refreshed
  rw [refresh_effective]
  cases hl : lastLive lower recs e with
  | some r =>
    simp only []
    unfold markOne
    rw [if_neg]
    rw [flushHit_effective]
    exact not_flushed_fresh now recs e _
  | none =>
    simp only []
    unfold markOne
    constructor
    · intro hf; rw [if_pos ((flushHit_effective now recs e).2 hf)]
    · intro hf; rw [if_neg (fun hc => hf ((flushHit_effective now recs e).1 hc))]

/-- the per-identity post-state of the reference store -/
theorem Flat.postState (s : List Rec) (now : Ms) (recs : List Rec) :
    ∃ o, ingest lower (Flat.ops lower) s now recs = .ok o
      ∧ ∀ q, PostState lower now recs q (Flat.getUnique lower s q) (Flat.getUnique lower o.cache q) := by
  obtain ⟨o, ho, hq⟩ := Flat.ingest_post (lower := lower) s now recs
  refine ⟨o, ho, fun q => ?_⟩
  have h := hq q
  rw [effective_any_goodbye, effective_lastLive] at h
  unfold PostState
  cases hb : Flat.getUnique lower s q with
  | none =>
    have : Flat.pres lower s q = false := (Flat.getUnique_eq_none s q).1 hb
    simpa [this] using h
  | some e =>
    have hp : Flat.pres lower s q = true := by rw [← Flat.getUnique_isSome, hb]; rfl
    simp only [hp, if_true, hb, Option.map_some] at h
    simp only []
    by_cases hg : hasGoodbye lower recs q = true
    · simpa [hg] using h
    · simp only [hg, Bool.false_eq_true, if_false] at h ⊢
      exact ⟨_, h, refreshed_markOne_refresh now recs e⟩

/-- a purge-like filter keeps the record of an identity if that record passes -/
theorem Flat.getUnique_filter_keep (s : List Rec) (p : Rec → Bool) {q e : Rec}
    (h : Flat.getUnique lower s q = some e) (hp : p e = true) : Flat.getUnique lower (s.filter p) q = some e := by
  unfold Flat.getUnique at *
  induction s with
  | nil => simp at h
  | cons x t ih =>
    rw [List.find?_cons] at h
    rw [List.filter_cons]
    cases hx : x.beq lower q
    · rw [hx] at h
      simp only [] at h
      split
      · rw [List.find?_cons, hx]; exact ih h
      · exact ih h
    · rw [hx] at h
      simp only [Option.some.injEq] at h
      subst h
      rw [if_pos hp, List.find?_cons, hx]

/-- one quiet event (no copy of `q`, no flush of its name/type/class, no purge at or after its deadline)
leaves `q`'s record exactly as it is -/
theorem Flat.stepEvent_keeps (s : List Rec) (hw : Flat.WF lower s) {q e : Rec} (h : Flat.getUnique lower s q = some e) (ev : Event)
    (hq : match ev with
      | .datagram _ recs => (∀ r ∈ recs, r.ident lower ≠ q.ident lower)
          ∧ (∀ u ∈ recs, u.unique = true → ¬ (lower u.name = lower q.name ∧ u.type = q.type ∧ u.class_ = q.class_))
      | .purge now => now < e.created + 1000 * (e.ttl : Int)) :
    Flat.getUnique lower (stepEvent lower (Flat.ops lower) s ev) q = some e := by
  have hid := Flat.getUnique_ident h
  cases ev with
  | datagram now recs =>
    simp only [] at hq
    obtain ⟨o, ho, hpost⟩ := Flat.postState (lower := lower) s now recs
    simp only [stepEvent, ho]
    have hp := hpost q
    unfold PostState at hp
    rw [h] at hp
    simp only [] at hp
    have hcop : copiesOf lower recs q = [] := by
      unfold copiesOf
      rw [List.filter_eq_nil_iff]
      intro r hr; simpa using hq.1 r hr
    have hg : hasGoodbye lower recs q = false := by simp [hasGoodbye, hcop]
    rw [hg] at hp
    simp only [Bool.false_eq_true, if_false] at hp
    obtain ⟨e', he', hr⟩ := hp
    unfold Refreshed at hr
    have hl : lastLive lower recs e = none := by rw [lastLive_congr recs hid]; simp [lastLive, hcop]
    rw [hl] at hr
    simp only [] at hr
    have hnf : ¬ Flushed lower now recs e := by
      rintro ⟨⟨u, hu, huq, hn, ht, hc⟩, _, _⟩
      exact hq.2 u hu huq ⟨hn.trans (ident_name lower hid), ht.trans (ident_type lower hid), hc.trans (ident_class lower hid)⟩
    rw [he', hr.2 hnf]
  | purge now =>
    simp only [] at hq
    simp only [stepEvent, Flat.expire_eq hw now]
    apply Flat.getUnique_filter_keep s _ h
    simp only [Bool.not_eq_true']
    rw [Bool.eq_false_iff, Ne, isExpired_iff]
    exact Int.not_le.2 hq

end
end Zc
