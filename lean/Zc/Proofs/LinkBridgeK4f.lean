import Zc.Proofs.LinkBridgeK4e
/-! K4, link level, helper lemmas: the link items of a reply datagram (`posFull` of `Bridge.itemsOf`), what `additionalsOf`
covers, what it means that a known-answer list suppresses a pointer. -/
namespace Zc.Bridge
open Zc Zc.GenFacts.Responder

variable (lower : String → String) (N : Naming)

/-! ### `_add_answers_additionals` -/

/-- every additional of an answer of a multicast / unicast reply travels in the datagram: as an answer or as an additional -/
theorem additionalsOf_covers {d : Reply.Dict} {k : Reply.RecId} {v : List Reply.RecId} (h : (k, v) ∈ d) :
    ∀ i ∈ v, i ∈ d.keys ∨ i ∈ Reply.additionalsOf d := by
  intro i hi
  unfold Reply.additionalsOf
  have hmem : i ∈ d.flatMap (·.2) := List.mem_flatMap.mpr ⟨(k, v), h, hi⟩
  have key : ∀ (l : List Reply.RecId) (acc : List Reply.RecId), (i ∈ l ∨ i ∈ acc) →
      i ∈ d.keys ∨ i ∈ l.foldl (fun acc a => if d.keys.contains a || acc.contains a then acc else acc ++ [a]) acc := by
    intro l
    induction l with
    | nil =>
      intro acc h
      rcases h with h | h
      · cases h
      · exact Or.inr h
    | cons a l ih =>
      intro acc h
      simp only [List.foldl_cons]
      rcases h with h | h
      · rcases List.mem_cons.mp h with rfl | h
        · by_cases hc : (d.keys.contains i || acc.contains i) = true
          · rw [if_pos hc]
            rw [Bool.or_eq_true] at hc
            rcases hc with hc | hc
            · exact Or.inl (by simpa using hc)
            · exact ih acc (Or.inr (by simpa using hc))
          · rw [if_neg hc]
            exact ih _ (Or.inr (by simp))
        · exact ih _ (Or.inl h)
      · apply ih
        right
        split
        · exact h
        · exact List.mem_append_left _ h
  exact key _ [] (Or.inl hmem)

/-! ### known answers -/

/-- a known-answer list that suppresses a record lists an identical record -/
theorem suppresses_some {known : List Rec} {r : Rec} (h : Zc.suppresses lower known r = true) : ∃ o ∈ known, o.beq lower r = true := by
  unfold Zc.suppresses at h
  cases hf : known.reverse.find? (fun o => o.beq lower r) with
  | none => rw [hf] at h; cases h
  | some o =>
    have hm := List.mem_of_find?_eq_some hf
    exact ⟨o, List.mem_reverse.mp hm, List.find?_some (p := fun o : Rec => o.beq lower r) hf⟩

/-- the link identity of a service of C03's registry on this host -/
def sigmaZ (z : Zc.Svc) : Link.Svc := ⟨N.host, N.tyId (lower z.type), N.svcId (lower z.name)⟩

/-- a record identical to the pointer of `z` is a well-formed pointer record with `z`'s link identity -/
theorem wfptr_of_beq {r : Rec} {z : Zc.Svc} (h : r.beq lower (RespSpec.ptrOf z) = true) :
    ∃ al, WfPtr r al ∧ sigR lower N r al = sigmaZ lower N z ∧ lower al = lower z.name ∧ lower r.name = lower z.type := by
  have hk := beq_kind lower r _ h
  cases hrd : r.rdata with
  | ptr al =>
    have := (ptr_beq_iff lower r (RespSpec.ptrOf z) al z.name hrd rfl).mp h
    simp only [RespSpec.ptrOf] at this
    refine ⟨al, ⟨hrd, by rw [this.2.2.1, typePtr_eq], by rw [this.2.2.2, class_shared.1]⟩, ?_, this.1, this.2.1⟩
    unfold sigR sigmaZ
    rw [this.1, this.2.1]
  | addr _ _ => rw [hrd] at hk; simp [RData.kind, RespSpec.ptrOf] at hk
  | hinfo _ _ => rw [hrd] at hk; simp [RData.kind, RespSpec.ptrOf] at hk
  | txt _ => rw [hrd] at hk; simp [RData.kind, RespSpec.ptrOf] at hk
  | srv _ _ _ _ => rw [hrd] at hk; simp [RData.kind, RespSpec.ptrOf] at hk
  | nsec _ _ => rw [hrd] at hk; simp [RData.kind, RespSpec.ptrOf] at hk

/-! ### the link items of a datagram -/

theorem ptrItem_some' (p : Register.Pkt) (r : Rec) (s : Link.Svc) (ttl : Nat) (full : Bool)
    (h : ptrItem lower N p r = some (.ptr s ttl full)) :
    ∃ alias, WfPtr r alias ∧ s = sigR lower N r alias ∧ ttl = r.ttl ∧ full = fullFor lower p alias := by
  unfold ptrItem at h
  cases hrd : r.rdata with
  | ptr alias =>
    rw [hrd] at h
    simp only at h
    split at h
    · rename_i hc
      simp only [Option.some.injEq, Link.Item.ptr.injEq] at h
      exact ⟨alias, ⟨hrd, hc.1, hc.2⟩, h.1.symm, h.2.1.symm, h.2.2.symm⟩
    · cases h
  | addr a b => rw [hrd] at h; cases h
  | hinfo a b => rw [hrd] at h; cases h
  | txt a => rw [hrd] at h; cases h
  | srv a b c d => rw [hrd] at h; cases h
  | nsec a b => rw [hrd] at h; cases h

theorem ptrItem_query (p : Register.Pkt) (r : Rec) (ty : Nat) (known : List Link.Svc) (qu : Bool) :
    ptrItem lower N p r ≠ some (.query ty known qu) := by
  unfold ptrItem
  cases r.rdata <;> simp only <;> try (intro h; cases h)
  split
  · intro h; cases h
  · intro h; cases h

theorem ptrItem_wf (p : Register.Pkt) (r : Rec) (alias : String) (h : WfPtr r alias) :
    ptrItem lower N p r = some (.ptr (sigR lower N r alias) r.ttl (fullFor lower p alias)) := by
  unfold ptrItem
  rw [h.1]
  simp only
  rw [if_pos ⟨h.2.1, h.2.2⟩]
  rfl

theorem ptrOf_some_of_mem {s : Link.Svc} {items : List Link.Item} {ttl : Nat} {full : Bool} (h : Link.Item.ptr s ttl full ∈ items) :
    ∃ ttl' full', Link.ptrOf s items = some (ttl', full') := by
  induction items with
  | nil => cases h
  | cons it r ih =>
    cases it with
    | ptr s' ttl' full' =>
      simp only [Link.ptrOf]
      by_cases hs : s' = s
      · rw [if_pos hs]; exact ⟨_, _, rfl⟩
      · rw [if_neg hs]
        rcases List.mem_cons.mp h with h | h
        · cases h; exact absurd rfl hs
        · exact ih h
    | query ty known qu =>
      simp only [Link.ptrOf]
      rcases List.mem_cons.mp h with h | h
      · cases h
      · exact ih h

theorem fullFor_congr (p : Register.Pkt) {a b : String} (h : lower a = lower b) : fullFor lower p a = fullFor lower p b := by
  unfold fullFor
  simp only [h]

/-- **the pointer of a datagram is positive and complete**: the datagram carries a well-formed pointer record of `σ`, no record
with TTL 0, and the SRV and TXT record of the instance and an address record -/
theorem posFull_itemsOf (hsv : Function.Injective N.svcId) (pk : Register.Pkt) (r : Rec) (al : String)
    (hr : r ∈ pk.answers ++ pk.additionals) (hw : WfPtr r al)
    (hpos : ∀ x ∈ pk.answers ++ pk.additionals, 0 < x.ttl) (hfull : fullFor lower pk al = true) :
    Link.posFull (sigR lower N r al) (itemsOf lower N pk) = true := by
  have hmem : Link.Item.ptr (sigR lower N r al) r.ttl (fullFor lower pk al) ∈ itemsOf lower N pk := by
    unfold itemsOf
    rw [List.mem_filterMap]
    exact ⟨r, hr, ptrItem_wf lower N pk r al hw⟩
  obtain ⟨ttl', full', hp⟩ := ptrOf_some_of_mem hmem
  have hm' := ptrOf_item hp
  unfold itemsOf at hm'
  rw [List.mem_filterMap] at hm'
  obtain ⟨r', hr', hi'⟩ := hm'
  obtain ⟨al', hw', hs', ht', hf'⟩ := ptrItem_some' lower N pk r' _ _ _ hi'
  unfold Link.posFull
  rw [hp]
  simp only [Bool.and_eq_true, decide_eq_true_eq]
  refine ⟨by rw [ht']; exact hpos r' hr', ?_⟩
  rw [hf']
  have : lower al' = lower al := by
    unfold sigR at hs'
    simp only [Link.Svc.mk.injEq, true_and] at hs'
    exact (hsv hs'.2).symm
  rw [fullFor_congr lower pk this]
  exact hfull

end Zc.Bridge
