import Zc.Model.Cache
/-! A property of records that does not depend on `(created, ttl)` and holds of every cached record
and of every record of a datagram holds of every cached record after the datagram was ingested
(C15: "every cached name is the text of a wire name that can be written back").  The record manager
only ever stores records of the datagram and re-stamps the lifetimes of stored ones. -/
namespace Zc.Survive
open Zc

section
variable (lower : String → String) (P : Rec → Prop)

def IndexAll (m : Index) : Prop := ∀ kb ∈ m, ∀ r ∈ kb.2, P r

/-- every record object in both indexes of the cache satisfies `P` -/
def CacheAll (c : Cache) : Prop := IndexAll P c.cache ∧ IndexAll P c.svc

variable {lower P}

theorem find?_mem : ∀ (m : Index) (k : String) (b : Bucket), Index.find? m k = some b → (k, b) ∈ m := by
  intro m
  induction m with
  | nil => intro k b h; simp [Index.find?] at h
  | cons kb t ih =>
    intro k b h
    obtain ⟨k', b'⟩ := kb
    unfold Index.find? at h
    split at h
    · rename_i hk
      simp at h
      subst h; subst hk
      exact List.mem_cons_self
    · exact List.mem_cons_of_mem _ (ih k b h)

theorem get_all {m : Index} (h : IndexAll P m) (k : String) : ∀ r ∈ Index.get m k, P r := by
  intro r hr
  unfold Index.get at hr
  cases hf : Index.find? m k with
  | none => rw [hf] at hr; simp at hr
  | some b =>
    rw [hf] at hr
    exact h _ (find?_mem m k b hf) r hr

theorem set_all : ∀ (m : Index) (k : String) (b : Bucket), IndexAll P m → (∀ r ∈ b, P r) → IndexAll P (Index.set m k b) := by
  intro m
  induction m with
  | nil =>
    intro k b _ hb kb hkb
    simp [Index.set] at hkb
    subst hkb
    exact hb
  | cons kb t ih =>
    intro k b hm hb
    obtain ⟨k', b'⟩ := kb
    unfold Index.set
    split
    · intro x hx
      simp only [List.mem_cons] at hx
      rcases hx with rfl | hx
      · exact hb
      · exact hm x (List.mem_cons_of_mem _ hx)
    · intro x hx
      simp only [List.mem_cons] at hx
      rcases hx with rfl | hx
      · exact hm _ List.mem_cons_self
      · exact ih k b (fun y hy => hm y (List.mem_cons_of_mem _ hy)) hb x hx

theorem erase_all {m : Index} (h : IndexAll P m) (k : String) : IndexAll P (Index.erase m k) := by
  intro kb hkb
  exact h kb (List.mem_filter.mp hkb).1

theorem mapRecs_all {m : Index} (h : IndexAll P m) (f : Rec → Rec) (hf : ∀ r, P r → P (f r)) : IndexAll P (Index.mapRecs f m) := by
  intro kb hkb r hr
  unfold Index.mapRecs at hkb
  obtain ⟨kb0, hkb0, rfl⟩ := List.mem_map.mp hkb
  obtain ⟨r0, hr0, rfl⟩ := List.mem_map.mp hr
  exact hf r0 (h kb0 hkb0 r0 hr0)

theorem cache_mapRecs_all {c : Cache} (h : CacheAll P c) (f : Rec → Rec) (hf : ∀ r, P r → P (f r)) : CacheAll P (c.mapRecs f) :=
  ⟨mapRecs_all h.1 f hf, mapRecs_all h.2 f hf⟩

theorem put_all {b : Bucket} (hb : ∀ r ∈ b, P r) {r : Rec} (hr : P r) : ∀ x ∈ Bucket.put lower b r, P x := by
  intro x hx
  unfold Bucket.put at hx
  simp only [List.mem_append, List.mem_filter, List.mem_singleton] at hx
  rcases hx with hx | rfl
  · exact hb x hx.1
  · exact hr

theorem add_all {c : Cache} (h : CacheAll P c) {r : Rec} (hr : P r) : CacheAll P (Cache.add lower c r).1 := by
  unfold Cache.add
  refine ⟨set_all _ _ _ h.1 (put_all (get_all h.1 _) hr), ?_⟩
  dsimp only
  split
  · exact set_all _ _ _ h.2 (put_all (get_all h.2 _) hr)
  · exact h.2

theorem removeKey_all {m m' : Index} (h : IndexAll P m) {k : String} {r : Rec} (hr : Cache.removeKey lower m k r = .ok m') : IndexAll P m' := by
  unfold Cache.removeKey at hr
  split at hr
  · cases hr
  · rename_i b hb
    split at hr
    · simp at hr
      subst hr
      split
      · exact erase_all h k
      · refine set_all _ _ _ h ?_
        intro x hx
        unfold Bucket.del at hx
        exact h _ (find?_mem m k b hb) x (List.mem_filter.mp hx).1
    · cases hr

theorem remove_all {c c' : Cache} (h : CacheAll P c) {r : Rec} (hr : Cache.remove lower c r = .ok c') : CacheAll P c' := by
  unfold Cache.remove at hr
  have fin : ∀ svc, IndexAll P svc →
      (do let cache ← Cache.removeKey lower c.cache (lower r.name) r
          pure ({ cache := cache, svc := svc } : Cache) : Except PyExc Cache) = .ok c' → CacheAll P c' := by
    intro svc hsvc hr'
    cases hc : Cache.removeKey lower c.cache (lower r.name) r with
    | error e => rw [hc] at hr'; simp [bind, Except.bind] at hr'
    | ok cache =>
      rw [hc] at hr'
      simp [bind, Except.bind, pure, Except.pure] at hr'
      subst hr'
      exact ⟨removeKey_all h.1 hc, hsvc⟩
  cases hk : r.serverKey lower with
  | none =>
    rw [hk] at hr
    exact fin c.svc h.2 (by simpa [bind, Except.bind, pure, Except.pure] using hr)
  | some hkey =>
    rw [hk] at hr
    dsimp only at hr
    cases hs : Cache.removeKey lower c.svc hkey r with
    | error e => rw [hs] at hr; simp [bind, Except.bind] at hr
    | ok svc =>
      rw [hs] at hr
      exact fin svc (removeKey_all h.2 hs) (by simpa [bind, Except.bind, pure, Except.pure] using hr)

theorem addAll_all : ∀ (rs : List Rec) (c : Cache) (b : Bool), CacheAll P c → (∀ r ∈ rs, P r) →
    CacheAll P (rs.foldl (fun (acc : Cache × Bool) r => (((Cache.ops lower).add acc.1 r).1, acc.2 || ((Cache.ops lower).add acc.1 r).2)) (c, b)).1 := by
  intro rs
  induction rs with
  | nil => intro c b h _; exact h
  | cons r t ih =>
    intro c b h hr
    simp only [List.foldl_cons]
    exact ih _ _ (add_all h (hr r List.mem_cons_self)) (fun x hx => hr x (List.mem_cons_of_mem _ hx))

theorem removeAll_all : ∀ (rs : List Rec) (c c' : Cache), CacheAll P c → Zc.removeAll (Cache.ops lower) c rs = .ok c' → CacheAll P c' := by
  intro rs
  induction rs with
  | nil => intro c c' h hr; simp [Zc.removeAll, List.foldlM, pure, Except.pure] at hr; subst hr; exact h
  | cons r t ih =>
    intro c c' h hr
    unfold Zc.removeAll at hr
    simp only [List.foldlM, bind, Except.bind] at hr
    cases h1 : (Cache.ops lower).remove c r with
    | error e => rw [h1] at hr; cases hr
    | ok c1 =>
      rw [h1] at hr
      exact ih c1 c' (remove_all h h1) hr

/-- `P` does not look at the lifetime -/
structure LifeOK (P : Rec → Prop) (T : Nat → Prop) : Prop where
  /-- `P` survives a re-stamping of the lifetime with a TTL satisfying `T` -/
  set : ∀ r c t, P r → T t → P (r.setLife c t)
  /-- records satisfying `P` have such TTLs -/
  ttl : ∀ r, P r → T r.ttl
  /-- so do the two constant TTLs the record manager writes (cache-flush, PTR floor) -/
  one : T 1
  floor : T Gen.dnsPtrMinTtl

/-- `P` does not look at the lifetime at all -/
def LifeFree (P : Rec → Prop) : Prop := ∀ r c t, P r → P (r.setLife c t)

theorem LifeOK.ofFree {P : Rec → Prop} (h : LifeFree P) : LifeOK P (fun _ => True) :=
  ⟨fun r c t hr _ => h r c t hr, fun _ _ => trivial, trivial, trivial⟩

variable {T : Nat → Prop}

theorem floorPtr_P (hP : LifeOK P T) {r : Rec} (h : P r) : P (floorPtr r) := by
  unfold floorPtr
  split
  · exact hP.set r _ _ h hP.floor
  · exact h

structure AccAll (P : Rec → Prop) (a : IngestAcc Cache) : Prop where
  cache : CacheAll P a.cache
  addr : ∀ x ∈ a.addrAdds, P x
  other : ∀ x ∈ a.otherAdds, P x

theorem ingestStep_all (hP : LifeOK P T) (now : Ms) {a : IngestAcc Cache} (h : AccAll P a) {r0 : Rec} (hr : P r0) :
    AccAll P (ingestStep lower (Cache.ops lower) now a r0) := by
  have hf := floorPtr_P hP hr
  unfold ingestStep
  dsimp only
  split
  · refine ⟨?_, h.addr, h.other⟩
    exact cache_mapRecs_all h.cache _ (fun e he => by split; exact hP.set e _ _ he (hP.ttl _ hf); exact he)
  · split
    · exact ⟨h.cache, by intro x hx; simp only [List.mem_append, List.mem_singleton] at hx; rcases hx with hx | rfl; exact h.addr x hx; exact hf, h.other⟩
    · exact ⟨h.cache, h.addr, by intro x hx; simp only [List.mem_append, List.mem_singleton] at hx; rcases hx with hx | rfl; exact h.other x hx; exact hf⟩
  · exact ⟨h.cache, h.addr, h.other⟩
  · exact ⟨h.cache, h.addr, h.other⟩

theorem ingestFold_all (hP : LifeOK P T) (now : Ms) : ∀ (rs : List Rec) (a : IngestAcc Cache), AccAll P a → (∀ r ∈ rs, P r) →
    AccAll P (rs.foldl (ingestStep lower (Cache.ops lower) now) a) := by
  intro rs
  induction rs with
  | nil => intro a h _; exact h
  | cons r t ih =>
    intro a h hr
    simp only [List.foldl_cons]
    exact ih _ (ingestStep_all hP now h (hr r List.mem_cons_self)) (fun x hx => hr x (List.mem_cons_of_mem _ hx))

/-- **the cache only ever holds records of datagrams, with re-stamped lifetimes** -/
theorem ingest_all (hP : LifeOK P T) {c : Cache} (hc : CacheAll P c) (now : Ms) {recs : List Rec} (hr : ∀ r ∈ recs, P r)
    {out : IngestOut Cache} (h : Zc.ingest lower (Cache.ops lower) c now recs = .ok out) : CacheAll P out.cache := by
  have hstamp : ∀ r ∈ stamp now recs, P r := by
    intro r hr'
    unfold stamp at hr'
    obtain ⟨r0, hr0, rfl⟩ := List.mem_map.mp hr'
    exact hP.set r0 _ _ (hr r0 hr0) (hP.ttl r0 (hr r0 hr0))
  have hpre : AccAll P (ingestPre lower (Cache.ops lower) c now recs) := by
    unfold ingestPre
    dsimp only
    have hf := ingestFold_all (lower := lower) hP now (stamp now recs) { cache := c } ⟨hc, by simp, by simp⟩ hstamp
    refine ⟨?_, hf.addr, hf.other⟩
    dsimp only
    split
    · exact hf.cache
    · exact cache_mapRecs_all hf.cache _ (fun e he => by split; exact hP.set e _ _ he hP.one; exact he)
  unfold Zc.ingest at h
  dsimp only at h
  have h2 := addAll_all (lower := lower) _ _ false hpre.cache hpre.addr
  have h3 := addAll_all (lower := lower) _ _ false h2 hpre.other
  cases h4 : Zc.removeAll (Cache.ops lower)
      (Zc.addAll (Cache.ops lower) (Zc.addAll (Cache.ops lower) (ingestPre lower (Cache.ops lower) c now recs).cache
        (ingestPre lower (Cache.ops lower) c now recs).addrAdds).1 (ingestPre lower (Cache.ops lower) c now recs).otherAdds).1
      (Zc.keptRemoves (Cache.ops lower)
        (Zc.addAll (Cache.ops lower) (Zc.addAll (Cache.ops lower) (ingestPre lower (Cache.ops lower) c now recs).cache
          (ingestPre lower (Cache.ops lower) c now recs).addrAdds).1 (ingestPre lower (Cache.ops lower) c now recs).otherAdds).1
        (ingestPre lower (Cache.ops lower) c now recs).removes) with
  | error e => rw [h4] at h; simp [bind, Except.bind] at h
  | ok c4 =>
    rw [h4] at h
    simp only [bind, Except.bind, pure, Except.pure, Except.ok.injEq] at h
    subst h
    exact removeAll_all _ _ _ h3 h4

end
end Zc.Survive
