import Zc.Proofs.NameText
import Zc.Proofs.Wire.Message
/-! The text-level quantifier of C01 (`NameText.TextName`, `WFTMsg`) against the label-level one (`WFName`, `WFMsg`),
and the pointwise text view of what comes back (`seen… (… .toE.onWire) = … .expect`).  Core Lean only. -/
namespace Zc.NameText
open Zc Zc.Wire Zc.Wire.Encode

/-! ### lengths of the label list of a `str` -/

theorem utf8Len_pos {l : Text} (h : l ≠ []) : 1 ≤ utf8Len l := by
  cases l with
  | nil => exact absurd rfl h
  | cons c r =>
    unfold utf8Len encodeText
    simp only [List.map_cons, Utf8.encode, List.flatMap_cons, List.length_append, Utf8.encodeCp_length]
    have : 1 ≤ Utf8.encLen c.toNat := by unfold Utf8.encLen; split <;> (try split) <;> (try split) <;> omega
    omega

/-- octets on the wire of the name `write_name` writes (uncompressed): `len(name.encode()) + 2` after the strip -/
theorem wireLen_labelsOfText (s : Text) : wireLen (labelsOfText s) = utf8Len (stripTrailingDot s) + 2 := by
  unfold wireLen labelsOfText
  rw [List.map_map]
  have h := utf8Len_joinDot (splitDot (stripTrailingDot s)) (splitDot_ne_nil _)
  rw [joinDot_splitDot] at h
  have e : (splitDot (stripTrailingDot s)).map ((fun l => l.length + 1) ∘ encodeText)
      = (splitDot (stripTrailingDot s)).map (fun l => utf8Len l + 1) := by
    apply List.map_congr_left; intro x _; rfl
  rw [e, ← h]

/-- characters of the name as `_read_name` will count them: `len` of the name with its one trailing dot -/
theorem nameLen_labelsOfText (s : Text) : nameLen (labelsOfText s) = (canonical s).length := by
  rw [← textOfLabels_length, textOfLabels_labelsOfText]

theorem two_mul_length_le {α : Type} : ∀ (ls : List (List α)), (∀ l ∈ ls, l ≠ []) → 2 * ls.length ≤ (ls.map (fun l => l.length + 1)).sum := by
  intro ls
  induction ls with
  | nil => intro _; simp
  | cons l r ih =>
    intro h
    have h1 : 1 ≤ l.length := by
      cases l with
      | nil => exact absurd rfl (h [] List.mem_cons_self)
      | cons _ _ => simp
    have := ih (fun x hx => h x (List.mem_cons_of_mem _ hx))
    simp only [List.length_cons, List.map_cons, List.sum_cons]
    omega

/-- every label `write_name` writes for a `str` is text (`Utf8.IsText`: the encoding of scalar values) -/
theorem labelsOfText_isText (s : Text) : ∀ l ∈ labelsOfText s, Utf8.IsText l := by
  intro l hl
  unfold labelsOfText at hl
  obtain ⟨x, _, rfl⟩ := List.mem_map.mp hl
  exact encodeText_isText x

/-- **the text-level quantifier implies the label-level one**: a fully-qualified name without empty labels,
labels ≤ 63 bytes, ≤ 253 characters, ≤ 255 octets is a `WFName` once split and encoded (in particular it has
at most 126 ≤ 128 labels) -/
theorem TextName.wfName {s : Text} (h : TextName s) : WFName (labelsOfText s) := by
  obtain ⟨hdot, hlab, hlen, hoct⟩ := h
  obtain ⟨t, rfl⟩ := (endsWithDot_iff s).mp hdot
  rw [stripTrailingDot_append_dot] at hlab
  have hstrip : stripTrailingDot (t ++ [dot]) = t := stripTrailingDot_append_dot t
  refine ⟨?_, ?_, ?_, ?_, ?_⟩
  · unfold labelsOfText
    rw [hstrip]
    intro e
    exact splitDot_ne_nil t (List.map_eq_nil_iff.mp e)
  · intro l hl
    unfold labelsOfText at hl
    rw [hstrip] at hl
    obtain ⟨x, hx, rfl⟩ := List.mem_map.mp hl
    exact ⟨utf8Len_pos (hlab x hx).1, (hlab x hx).2⟩
  · unfold labelsOfText
    rw [hstrip, List.length_map]
    have h1 := two_mul_length_le (splitDot t) (fun l hl => (hlab l hl).1)
    have h2 := length_joinWith dot (splitDot t) (splitDot_ne_nil t)
    have h3 : joinWith dot (splitDot t) = t := joinDot_splitDot t
    rw [h3] at h2
    simp only [List.length_append, List.length_singleton] at hlen
    omega
  · rw [nameLen_labelsOfText, canonical_of_endsWithDot hdot]
    exact hlen
  · rw [wireLen_labelsOfText, hstrip]
    rw [utf8Len_append, utf8Len_dot] at hoct
    omega

/-- for a name inside the quantifier the spelling that comes back is the spelling given -/
theorem TextName.canonical {s : Text} (h : TextName s) : canonical s = s := canonical_of_endsWithDot h.1

/-! ### messages -/

/-- **C01's quantifier with names as text**: every name handed to the builder is a `TextName` (a `str` with
trailing dot, no empty label, labels ≤ 63 bytes of UTF-8, ≤ 253 characters, ≤ 255 octets), and everything else
about the message (types, classes, TTLs, rdata shapes) is as in `WFMsg` -/
def WFTMsg (m : TMsg) : Prop := (∀ s ∈ m.names, TextName s) ∧ WFMsg m.toE

theorem erdataNames_toE (rd : TRData) : (match rd.toE with
    | .ptr t => [t] | .srv _ _ _ t => [t] | .nsec n _ => [n] | _ => []) = rd.names.map labelsOfText := by
  cases rd <;> rfl

/-! ### what the decoder shows for what the builder was given -/

theorem seenQuestion_onWire (mc : Bool) (q : TQuestion) : seenQuestion (q.toE.onWire mc) = q.expect mc := by
  simp only [seenQuestion, EQuestion.onWire, TQuestion.toE, TQuestion.expect, textOfLabels_labelsOfText]

theorem seenRData_onWire (rd : TRData) : seenRData rd.toE.onWire = rd.expect := by
  cases rd <;> simp only [TRData.toE, ERData.onWire, seenRData, TRData.expect, textOfLabels_labelsOfText]

theorem seenRecord_onWire (mc : Bool) (r : TRecord) (now : Ms) : seenRecord (r.toE.onWire mc now) = r.expect mc now := by
  simp only [seenRecord, ERecord.onWire, TRecord.expect, SRecord.mk.injEq, true_and]
  exact ⟨by simp only [TRecord.toE, textOfLabels_labelsOfText], by simp only [TRecord.toE], by simp only [TRecord.toE],
    by simp only [TRecord.toE, seenRData_onWire]⟩

theorem map_flatMap' {α β γ : Type} (f : α → List β) (g : β → γ) (l : List α) :
    l.flatMap (fun a => (f a).map g) = (l.flatMap f).map g := by
  induction l with
  | nil => rfl
  | cons a r ih => simp only [List.flatMap_cons, List.map_append, ih]

end Zc.NameText
