import Zc.Proofs.LinkBridge
/-! K2, safety half, for the C08 host machine: a PTR with TTL 0 leaves the host only within 250 ms of an `unreg` of its service.
The invariant C08's own proofs do not need: every record in the queues, the registry and the announcing tasks has a non-zero TTL,
and every goodbye task / close sequence descends from a step that took the service out of the registry. -/
namespace Zc.Bridge
open Zc Zc.Goodbye Zc.Register

variable (lower : String → String) (N : Naming)

/-! ### a predicate on all records of the queues (C08's `QClean` lemmas, for an arbitrary predicate) -/

def EP (P : Rec → Prop) (e : Rec × List Rec) : Prop := P e.1 ∧ ∀ a ∈ e.2, P a
def DP (P : Rec → Prop) (d : List (Rec × List Rec)) : Prop := ∀ e ∈ d, EP P e
def QP (P : Rec → Prop) (q : List Group) : Prop := ∀ g ∈ q, DP P g.answers

theorem dictSet_P (P : Rec → Prop) (d : List (Rec × List Rec)) (k : Rec) (v : List Rec)
    (hd : DP P d) (he : EP P (k, v)) : DP P (dictSet lower d k v) := by
  unfold dictSet
  split
  · intro e hm
    rw [List.mem_map] at hm
    obtain ⟨e0, h0, rfl⟩ := hm
    split
    · exact ⟨(hd e0 h0).1, he.2⟩
    · exact hd e0 h0
  · intro e hm
    rw [List.mem_append] at hm
    rcases hm with hm | hm
    · exact hd e hm
    · simp at hm; subst hm; exact he

theorem dictUpdate_P (P : Rec → Prop) : ∀ (new d : List (Rec × List Rec)),
    DP P d → DP P new → DP P (dictUpdate lower d new) := by
  intro new
  induction new with
  | nil => intro d hd _; simpa [dictUpdate] using hd
  | cons e rest ih =>
    intro d hd hn
    simp only [dictUpdate, List.foldl_cons]
    exact ih _ (dictSet_P lower P d e.1 e.2 hd (hn e (by simp))) (fun x hx => hn x (by simp [hx]))

theorem qadd_P (P : Rec → Prop) (addl agg : Nat) (q : List Group) (now : Int) (draw : Nat) (answers : List (Rec × List Rec))
    (hq : QP P q) (ha : DP P answers) : QP P (qadd lower addl agg q now draw answers) := by
  unfold qadd
  simp only
  split
  · rename_i last hl
    have hlm : last ∈ q := List.mem_of_getLast? hl
    split
    · intro g hg
      rw [List.mem_append] at hg
      rcases hg with hg | hg
      · exact hq g (List.dropLast_subset _ hg)
      · simp at hg; subst hg
        exact dictUpdate_P lower P _ _ (hq last hlm) ha
    · intro g hg
      rw [List.mem_append] at hg
      rcases hg with hg | hg
      · exact hq g hg
      · simp at hg; subst hg; exact ha
  · intro g hg
    simp at hg; subst hg; exact ha

theorem qpurge_P (P : Rec → Prop) (W : List Rec) (q : List Group) (hq : QP P q) : QP P (qpurge lower W q) := by
  intro g hg
  simp only [qpurge, List.mem_map] at hg
  obtain ⟨g0, h0, rfl⟩ := hg
  intro e he
  simp only [List.mem_filterMap] at he
  obtain ⟨e0, h1, h2⟩ := he
  split at h2
  · simp at h2
  · simp only [Option.some.injEq] at h2
    subst h2
    have := hq g0 h0 e0 h1
    exact ⟨this.1, fun a ha => this.2 a (List.mem_filter.1 ha).1⟩

theorem foldl_update_P (P : Rec → Prop) : ∀ (gs : List Group) (acc : List (Rec × List Rec)),
    DP P acc → (∀ g ∈ gs, DP P g.answers) →
    DP P (gs.foldl (fun acc g => dictUpdate lower acc g.answers) acc) := by
  intro gs
  induction gs with
  | nil => intro acc h _; simpa using h
  | cons g rest ih =>
    intro acc h hg
    simp only [List.foldl_cons]
    exact ih _ (dictUpdate_P lower P _ _ h (hg g (by simp))) (fun x hx => hg x (by simp [hx]))

theorem qremoveKeys_P (P : Rec → Prop) (keys : List Rec) (q : List Group) (hq : QP P q) : QP P (qremoveKeys lower keys q) := by
  intro g hg
  simp only [qremoveKeys, List.mem_map] at hg
  obtain ⟨g0, h0, rfl⟩ := hg
  intro e he
  exact hq g0 h0 e (List.mem_filter.1 he).1

theorem answersPkt_P (P : Rec → Prop) (d : List (Rec × List Rec)) (hd : DP P d) :
    ∀ r ∈ (answersPkt lower d).answers ++ (answersPkt lower d).additionals, P r := by
  intro r hr
  simp only [answersPkt, List.mem_append] at hr
  rcases hr with hr | hr
  · rw [List.mem_map] at hr
    obtain ⟨e, he, rfl⟩ := hr
    exact (hd e he).1
  · have := foldl_adds_mem lower _ _ _ _ hr
    rcases this with h | h
    · simp at h
    · rw [List.mem_flatMap] at h
      obtain ⟨e, he, hre⟩ := h
      have hem : e ∈ d := (List.mem_mergeSort.1 he)
      exact (hd e hem).2 r hre

theorem qready_P (P : Rec → Prop) (q : List Group) (now : Int) (hq : QP P q) :
    QP P (qready lower q now).1 ∧ ∀ p, (qready lower q now).2 = some p → ∀ r ∈ p.answers ++ p.additionals, P r := by
  have core : ∀ (q : List Group), QP P q →
      let r := (let (ready, rest) := popReady now q
                let d := ready.foldl (fun (acc : List (Rec × List Rec)) (g : Group) => dictUpdate lower acc g.answers) []
                if d.isEmpty then (rest, (none : Option Pkt)) else (qremoveKeys lower (d.map (fun (e : Rec × List Rec) => e.1)) rest, some (answersPkt lower d)))
      QP P r.1 ∧ ∀ p, r.2 = some p → ∀ r ∈ p.answers ++ p.additionals, P r := by
    intro q hq
    have hs := popReady_sub now q
    generalize popReady now q = pr at hs
    obtain ⟨ready, rest⟩ := pr
    simp only at hs ⊢
    have hd : DP P (ready.foldl (fun acc g => dictUpdate lower acc g.answers) []) :=
      foldl_update_P lower P ready [] (by intro e he; simp at he) (fun g hg => hq g (hs.1 g hg))
    have hrest : QP P rest := fun g hg => hq g (hs.2 g hg)
    split
    · exact ⟨hrest, by simp⟩
    · refine ⟨qremoveKeys_P lower P _ _ hrest, ?_⟩
      intro p hp
      simp only [Option.some.injEq] at hp
      subst hp
      exact answersPkt_P lower P _ hd
  unfold qready
  split
  · split
    · exact ⟨hq, by simp⟩
    · exact core _ hq
  · exact core _ hq

/-! ### non-zero TTLs -/

def PosSvc (s : Register.Svc) : Prop := 0 < s.otherTtl ∧ 0 < s.hostTtl
def PosRec (r : Rec) : Prop := 0 < r.ttl

theorem recs_pos (s : Register.Svc) (hs : PosSvc s) : ∀ r ∈ recs s, PosRec r := by
  intro r hr
  unfold recs at hr
  rw [List.mem_append] at hr
  rcases hr with hr | hr
  · simp only [List.mem_cons, List.mem_nil_iff, or_false] at hr
    rcases hr with rfl | rfl | rfl
    · simpa [PosRec, Svc.ptr, mkRec, ttlOf] using hs.1
    · simpa [PosRec, Svc.srv, mkRec, ttlOf] using hs.2
    · simpa [PosRec, Svc.txt, mkRec, ttlOf] using hs.1
  · rcases mem_addrNsec s none r hr with ⟨a, rfl⟩ | ⟨a, rfl⟩ | rfl
    · simpa [PosRec, mkRec, ttlOf] using hs.2
    · simpa [PosRec, mkRec, ttlOf] using hs.2
    · simpa [PosRec, Svc.nsec, mkRec, ttlOf] using hs.2

theorem live_pos (reg : List Entry) (hreg : ∀ e ∈ reg, PosSvc e.svc) (r : Rec) (hl : live reg r = true) : PosRec r := by
  unfold live at hl
  rw [List.any_eq_true] at hl
  obtain ⟨e, he, hx⟩ := hl
  rw [List.any_eq_true] at hx
  obtain ⟨x, hx, hxe⟩ := hx
  have hxr : { x with unique := r.unique } = r := by simpa using hxe
  have := recs_pos e.svc (hreg e he) x hx
  unfold PosRec at this ⊢
  rw [← hxr]
  exact this

/-- the only pointer record of a broadcast datagram is the service's PTR -/
theorem broadcast_ptr (s : Register.Svc) (o : Option Nat) (b : Bool) (r : Rec) (hr : r ∈ broadcastAnswers s o b)
    (hk : r.rdata.kind = .ptr) : r = s.ptr o := by
  simp only [broadcastAnswers, List.mem_append, List.mem_cons, List.mem_nil_iff, or_false] at hr
  rcases hr with (rfl | rfl | rfl) | hr
  · rfl
  · simp [Svc.srv, mkRec, RData.kind] at hk
  · simp [Svc.txt, mkRec, RData.kind] at hk
  · split at hr
    · rcases mem_addrNsec s o r hr with ⟨a, rfl⟩ | ⟨a, rfl⟩ | rfl
      · simp [mkRec, RData.kind] at hk
      · simp [mkRec, RData.kind] at hk
      · simp [Svc.nsec, mkRec, RData.kind] at hk
    · cases hr

theorem sigR_svc_ptr (s : Register.Svc) (o : Option Nat) (alias : String) (hw : WfPtr (s.ptr o) alias) :
    sigR lower N (s.ptr o) alias = sigma lower N s := by
  have h := svc_ptr_wf s o
  have : alias = s.name := by
    have := hw.1
    rw [h.1] at this
    simpa using this.symm
  subst this
  simp [sigR, sigma, h.2.1]

/-! ### the invariant -/

structure Inv2 (E : Link.Trace) (h : Host) : Prop where
  reg : ∀ e ∈ h.reg, PosSvc e.svc
  outq : QP PosRec h.outq
  delayq : QP PosRec h.delayq
  tasksN : ∀ t ∈ h.tasks, t.ttl = none → PosSvc t.svc
  tasks0 : ∀ t ∈ h.tasks, t.ttl = some 0 → t.interval = Gen.unregisterTime ∧ t.i < 3 ∧
    ∃ u, (u, sigma lower N t.svc) ∈ Link.unregs E ∧ t.due = u + 125 * (t.i : Int)
  closing : ∀ a ∈ h.closing, a.i < 3 ∧ ∀ r ∈ a.answers, ∀ alias, WfPtr r alias →
    ∃ u, (u, sigR lower N r alias) ∈ Link.unregs E ∧ a.due = u + 125 * (a.i : Int)

theorem Inv2_init : Inv2 lower N [] Host.init :=
  ⟨by simp [Host.init], by simp [Host.init, QP], by simp [Host.init, QP], by simp [Host.init], by simp [Host.init], by simp [Host.init]⟩

theorem Inv2_mono (E E' : Link.Trace) (h : Host) (hi : Inv2 lower N E h) : Inv2 lower N (E ++ E') h := by
  refine ⟨hi.reg, hi.outq, hi.delayq, hi.tasksN, ?_, ?_⟩
  · intro t ht h0
    obtain ⟨h1, h2, u, hu, hd⟩ := hi.tasks0 t ht h0
    exact ⟨h1, h2, u, by rw [unregs_append]; exact List.mem_append_left _ hu, hd⟩
  · intro a ha
    obtain ⟨h1, h2⟩ := hi.closing a ha
    refine ⟨h1, fun r hr alias hw => ?_⟩
    obtain ⟨u, hu, hd⟩ := h2 r hr alias hw
    exact ⟨u, by rw [unregs_append]; exact List.mem_append_left _ hu, hd⟩

theorem mem_unregs_step (E : Link.Trace) (st : Step) (s : Link.Svc) (hs : s ∈ removes lower N st) :
    (st.t, s) ∈ Link.unregs (E ++ stepEvents lower N st) := by
  rw [unregs_append, unregs_stepEvents]
  exact List.mem_append_right _ (List.mem_map.mpr ⟨s, hs, rfl⟩)

/-- one step preserves the invariant (the events of the step are added) -/
theorem Inv2_step (hsv : Function.Injective N.svcId) (E : Link.Trace) (st : Step)
    (hs : st.pre.step lower st.b = some (st.post, st.out)) (hbt : ∀ bt, blockTime st.b = some bt → bt = st.t)
    (hw : WF lower st.pre) (hd : Disc lower st) (hd2 : Disc2 lower st) (hi : Inv2 lower N E st.pre) :
    Inv2 lower N (E ++ stepEvents lower N st) st.post := by
  have him := Inv2_mono lower N E (stepEvents lower N st) st.pre hi
  obtain ⟨t, b, h, h', out, ad⟩ := st
  simp only at hs hbt hw hi him ⊢
  cases b with
  | register s oid now =>
    simp only [Host.step] at hs
    split at hs
    · simp at hs
    split at hs
    · simp at hs
    simp only [Option.some.injEq, Prod.mk.injEq] at hs
    obtain ⟨rfl, _⟩ := hs
    refine ⟨?_, him.outq, him.delayq, ?_, ?_, him.closing⟩
    · intro e he
      rcases List.mem_append.mp he with he | he
      · exact him.reg e he
      · simp at he; subst he; exact hd2
    · intro t' ht' hn
      rcases List.mem_append.mp ht' with ht' | ht'
      · exact him.tasksN t' ht' hn
      · simp at ht'; subst ht'; exact hd2
    · intro t' ht' h0
      rcases List.mem_append.mp ht' with ht' | ht'
      · exact him.tasks0 t' ht' h0
      · simp at ht'; subst ht'; simp [announceTask] at h0
  | update s oid now =>
    simp only [Host.step] at hs
    split at hs
    · simp at hs
    simp only [Option.some.injEq, Prod.mk.injEq] at hs
    obtain ⟨rfl, _⟩ := hs
    refine ⟨?_, him.outq, him.delayq, ?_, ?_, him.closing⟩
    · intro e he
      rcases List.mem_append.mp he with he | he
      · exact him.reg e (regRemove_sub lower _ _ _ he)
      · simp at he; subst he; exact hd2
    · intro t' ht' hn
      rcases List.mem_append.mp ht' with ht' | ht'
      · exact him.tasksN t' ht' hn
      · simp at ht'; subst ht'; exact hd2
    · intro t' ht' h0
      rcases List.mem_append.mp ht' with ht' | ht'
      · exact him.tasks0 t' ht' h0
      · simp at ht'; subst ht'; simp [announceTask] at h0
  | unregister s oid now =>
    have hnow : now = t := hbt now rfl
    -- the service leaves the registry at this step
    have hrem : sigma lower N s ∈ removes lower N ⟨t, .unregister s oid now, h, h', out, ad⟩ := by
      simp only [Host.step, unregRemove_eq, Option.some.injEq, Prod.mk.injEq] at hs
      obtain ⟨rfl, _⟩ := hs
      obtain ⟨e, he, hk⟩ := hd2
      simp only [removes, List.mem_filter, Bool.not_eq_true', List.contains_eq_mem, decide_eq_false_iff_not, sig, List.mem_map]
      refine ⟨⟨e, he, sigma_of_key lower N e.svc s hk (hd e he hk)⟩, ?_⟩
      rintro ⟨e', he', hes⟩
      have hk' : key lower e'.svc = key lower s := by
        unfold sigma at hes
        simp only [Link.Svc.mk.injEq, true_and] at hes
        exact hsv hes.2
      unfold regRemove at he'
      rw [List.mem_filter] at he'
      simp [hk'] at he'
    have hev := mem_unregs_step lower N E ⟨t, .unregister s oid now, h, h', out, ad⟩ (sigma lower N s) hrem
    simp only [Host.step, unregRemove_eq, Option.some.injEq, Prod.mk.injEq] at hs
    obtain ⟨rfl, _⟩ := hs
    refine ⟨fun e he => him.reg e (regRemove_sub lower _ _ _ he), ?_, ?_, ?_, ?_, him.closing⟩
    · split
      · exact qpurge_P lower PosRec _ _ him.outq
      · exact him.outq
    · split
      · exact qpurge_P lower PosRec _ _ him.delayq
      · exact him.delayq
    · intro t' ht' hn
      rcases List.mem_append.mp ht' with ht' | ht'
      · exact him.tasksN t' ht' hn
      · simp at ht'; subst ht'; simp at hn
    · intro t' ht' h0
      rcases List.mem_append.mp ht' with ht' | ht'
      · exact him.tasks0 t' ht' h0
      · simp at ht'
        subst ht'
        refine ⟨rfl, by simp, t, hev, ?_⟩
        simp only [hnow]
        omega
  | task oid ttl ad due =>
    simp only [Host.step] at hs
    split at hs
    · simp at hs
    rename_i t0 hf
    have ht0 : t0 ∈ h.tasks := List.mem_of_find?_eq_some hf
    cases hst : Task.step (registeredAs lower h.reg t0.svc t0.oid) t0 with
    | mk t' p =>
      rw [hst] at hs
      simp only [Option.some.injEq, Prod.mk.injEq] at hs
      obtain ⟨rfl, _⟩ := hs
      have hsub : ∀ x ∈ dropTask h.tasks oid ttl ad due, x ∈ h.tasks := fun x hx => dropTask_sub oid ttl ad due h.tasks x hx
      have cont : ∀ t1, t' = some t1 → t1.svc = t0.svc ∧ t1.ttl = t0.ttl ∧ t1.interval = t0.interval ∧ t1.i = t0.i + 1 ∧
          t1.due = t0.due + t0.interval ∧ t0.i + 1 < 3 := by
        intro t1 h1
        have hs1 : (Task.step (registeredAs lower h.reg t0.svc t0.oid) t0).1 = some t1 := by rw [hst]; exact h1
        unfold Task.step at hs1
        split at hs1
        · simp at hs1
        · split at hs1
          · rename_i hlt
            simp only [Option.some.injEq] at hs1
            subst hs1
            rw [Zc.GenFacts.Register.broadcast_count_eq] at hlt
            exact ⟨rfl, rfl, rfl, rfl, rfl, hlt⟩
          · simp at hs1
      refine ⟨him.reg, him.outq, him.delayq, ?_, ?_, him.closing⟩
      · intro x hx hn
        cases t' with
        | none => exact him.tasksN x (hsub x hx) hn
        | some t1 =>
          rcases List.mem_append.mp hx with hx | hx
          · exact him.tasksN x (hsub x hx) hn
          · simp at hx; subst hx
            obtain ⟨h1, h2, _⟩ := cont _ rfl
            rw [h1]; exact him.tasksN t0 ht0 (by rw [← h2]; exact hn)
      · intro x hx h0
        cases t' with
        | none => exact him.tasks0 x (hsub x hx) h0
        | some t1 =>
          rcases List.mem_append.mp hx with hx | hx
          · exact him.tasks0 x (hsub x hx) h0
          · simp at hx; subst hx
            obtain ⟨h1, h2, h3, h4, h5, h6⟩ := cont _ rfl
            obtain ⟨hint, _, u, hu, hdue⟩ := him.tasks0 t0 ht0 (by rw [← h2]; exact h0)
            refine ⟨by rw [h3]; exact hint, by rw [h4]; exact h6, u, by rw [h1]; exact hu, ?_⟩
            rw [h5, h4, hdue, hint, Zc.GenFacts.Goodbye.unregisterTime_eq]
            push_cast
            omega
  | answer rs =>
    simp only [Host.step] at hs
    split at hs
    · simp only [Option.some.injEq, Prod.mk.injEq] at hs
      obtain ⟨rfl, _⟩ := hs
      exact him
    · simp at hs
  | enqueue delayed now draw answers =>
    simp only [Host.step] at hs
    split at hs
    · rename_i hall
      have hdp : DP PosRec answers := by
        intro e he
        have := List.all_eq_true.mp hall e he
        simp only [Bool.and_eq_true, List.all_eq_true] at this
        exact ⟨live_pos h.reg him.reg e.1 this.1, fun a ha => live_pos h.reg him.reg a (this.2 a ha)⟩
      split at hs
      · simp only [Option.some.injEq, Prod.mk.injEq] at hs
        obtain ⟨rfl, _⟩ := hs
        exact ⟨him.reg, him.outq, qadd_P lower PosRec _ _ _ _ _ _ him.delayq hdp, him.tasksN, him.tasks0, him.closing⟩
      · simp only [Option.some.injEq, Prod.mk.injEq] at hs
        obtain ⟨rfl, _⟩ := hs
        exact ⟨him.reg, qadd_P lower PosRec _ _ _ _ _ _ him.outq hdp, him.delayq, him.tasksN, him.tasks0, him.closing⟩
    · simp at hs
  | ready delayed now =>
    simp only [Host.step] at hs
    split at hs
    · have hq := (qready_P lower PosRec h.delayq now him.delayq).1
      generalize qready lower h.delayq now = r at hs hq
      obtain ⟨q, p⟩ := r
      simp only [Option.some.injEq, Prod.mk.injEq] at hs
      obtain ⟨rfl, _⟩ := hs
      exact ⟨him.reg, him.outq, hq, him.tasksN, him.tasks0, him.closing⟩
    · have hq := (qready_P lower PosRec h.outq now him.outq).1
      generalize qready lower h.outq now = r at hs hq
      obtain ⟨q, p⟩ := r
      simp only [Option.some.injEq, Prod.mk.injEq] at hs
      obtain ⟨rfl, _⟩ := hs
      exact ⟨him.reg, hq, him.delayq, him.tasksN, him.tasks0, him.closing⟩
  | unregisterAll now =>
    have hnow : now = t := hbt now rfl
    simp only [Host.step] at hs
    split at hs
    · simp only [Option.some.injEq, Prod.mk.injEq] at hs
      obtain ⟨rfl, _⟩ := hs
      exact him
    · rename_i hne
      simp only [Option.some.injEq, Prod.mk.injEq] at hs
      have hreg' : h'.reg = [] := by rw [← hs.1]
      -- every registered service leaves the registry
      have hrem : ∀ e ∈ h.reg, sigma lower N e.svc ∈ removes lower N ⟨t, .unregisterAll now, h, h', out, ad⟩ := by
        intro e he
        simp only [removes, List.mem_filter, Bool.not_eq_true', List.contains_eq_mem, decide_eq_false_iff_not, sig, List.mem_map, hreg']
        exact ⟨⟨e, he, rfl⟩, by simp⟩
      have hclos : ∀ r ∈ h.reg.flatMap (fun e => broadcastAnswers e.svc (some 0) true), ∀ alias, WfPtr r alias →
          ∃ u, (u, sigR lower N r alias) ∈ Link.unregs (E ++ stepEvents lower N ⟨t, .unregisterAll now, h, h', out, ad⟩) ∧
            now + (Gen.unregisterTime : Int) = u + 125 * ((1 : Nat) : Int) := by
        intro r hr alias hwf
        rw [List.mem_flatMap] at hr
        obtain ⟨e, he, hre⟩ := hr
        have hre' := broadcast_ptr e.svc (some 0) true r hre (by rw [hwf.1]; rfl)
        subst hre'
        refine ⟨t, ?_, ?_⟩
        · rw [sigR_svc_ptr lower N e.svc (some 0) alias hwf]
          exact mem_unregs_step lower N E _ _ (hrem e he)
        · rw [Zc.GenFacts.Goodbye.unregisterTime_eq, hnow]
          push_cast
          omega
      obtain ⟨rfl, _⟩ := hs
      refine ⟨by simp, ?_, ?_, him.tasksN, him.tasks0, ?_⟩
      · split
        · exact qpurge_P lower PosRec _ _ him.outq
        · exact him.outq
      · split
        · exact qpurge_P lower PosRec _ _ him.delayq
        · exact him.delayq
      · intro a ha
        rcases List.mem_append.mp ha with ha | ha
        · exact him.closing a ha
        · simp at ha
          subst ha
          exact ⟨by simp, hclos⟩
  | allStep due =>
    simp only [Host.step] at hs
    split at hs
    · simp at hs
    rename_i a0 hf
    have ha0 : a0 ∈ h.closing := List.mem_of_find?_eq_some hf
    simp only [Option.some.injEq, Prod.mk.injEq] at hs
    obtain ⟨rfl, _⟩ := hs
    refine ⟨him.reg, him.outq, him.delayq, him.tasksN, him.tasks0, ?_⟩
    intro a ha
    split at ha
    · rename_i hlt
      rw [Zc.GenFacts.Register.broadcast_count_eq] at hlt
      rcases List.mem_append.mp ha with ha | ha
      · exact him.closing a (dropAll_sub due _ a ha)
      · simp at ha
        subst ha
        obtain ⟨_, h2⟩ := him.closing a0 ha0
        refine ⟨hlt, fun r hr alias hw => ?_⟩
        obtain ⟨u, hu, hdue⟩ := h2 r hr alias hw
        refine ⟨u, hu, ?_⟩
        simp only [hdue, Zc.GenFacts.Goodbye.unregisterTime_eq]
        push_cast
        omega
    · exact him.closing a (dropAll_sub due _ a ha)
  | close =>
    simp only [Host.step, Option.some.injEq, Prod.mk.injEq] at hs
    obtain ⟨rfl, _⟩ := hs
    exact ⟨him.reg, him.outq, him.delayq, him.tasksN, him.tasks0, him.closing⟩

/-- a PTR with TTL 0 leaves the host only in a goodbye: at most 250 ms after an `unreg` of its service -/
theorem Inv2_emit (E : Link.Trace) (st : Step)
    (hs : st.pre.step lower st.b = some (st.post, st.out)) (hbt : ∀ bt, blockTime st.b = some bt → bt = st.t)
    (hw : WF lower st.pre) (hi : Inv2 lower N E st.pre) (p : Pkt) (hp : p ∈ st.out) (r : Rec)
    (hr : r ∈ p.answers ++ p.additionals) (alias : String) (hwf : WfPtr r alias) (h0 : r.ttl = 0) :
    ∃ u, (u, sigR lower N r alias) ∈ Link.unregs (E ++ stepEvents lower N st) ∧ u ≤ st.t ∧ st.t ≤ u + 250 := by
  have him := Inv2_mono lower N E (stepEvents lower N st) st.pre hi
  have hkind : r.rdata.kind = .ptr := by rw [hwf.1]; rfl
  have notpos : PosRec r → False := fun hpos => by unfold PosRec at hpos; omega
  obtain ⟨t, b, h, h', out, ad⟩ := st
  simp only at hs hbt hw hi him hp ⊢
  cases b with
  | register s oid now =>
    simp only [Host.step] at hs
    split at hs
    · simp at hs
    split at hs
    · simp at hs
    simp only [Option.some.injEq, Prod.mk.injEq] at hs
    obtain ⟨_, rfl⟩ := hs
    cases hp
  | update s oid now =>
    simp only [Host.step] at hs
    split at hs
    · simp at hs
    simp only [Option.some.injEq, Prod.mk.injEq] at hs
    obtain ⟨_, rfl⟩ := hs
    cases hp
  | unregister s oid now =>
    simp only [Host.step, Option.some.injEq, Prod.mk.injEq] at hs
    obtain ⟨_, rfl⟩ := hs
    cases hp
  | task oid ttl ad due =>
    have hdue : due = t := hbt due rfl
    simp only [Host.step] at hs
    split at hs
    · simp at hs
    rename_i t0 hf
    have ht0 : t0 ∈ h.tasks := List.mem_of_find?_eq_some hf
    have hkey : t0.due = due := by
      have := List.find?_some hf
      simp only [Bool.and_eq_true, beq_iff_eq] at this
      exact this.2
    cases hst : Task.step (registeredAs lower h.reg t0.svc t0.oid) t0 with
    | mk t' p0 =>
      rw [hst] at hs
      simp only [Option.some.injEq, Prod.mk.injEq] at hs
      obtain ⟨_, hout⟩ := hs
      cases p0 with
      | none => rw [← hout] at hp; cases hp
      | some pk =>
        rw [← hout] at hp
        have hpe := emit_mem h pk p hp
        subst hpe
        have hpk : p = broadcastPkt t0.svc t0.ttl t0.addresses := by
          have : (Task.step (registeredAs lower h.reg t0.svc t0.oid) t0).2 = some p := by rw [hst]
          unfold Task.step at this
          split at this
          · simp at this
          · split at this <;> simp at this <;> exact this.symm
        subst hpk
        have hrb : r ∈ broadcastAnswers t0.svc t0.ttl t0.addresses := by
          simpa [broadcastPkt] using hr
        rcases hw.ttl t0 ht0 with hn | hz
        · exfalso
          rw [hn] at hrb
          exact notpos (recs_pos t0.svc (him.tasksN t0 ht0 hn) r (broadcast_sub_recs t0.svc t0.addresses r hrb))
        · rw [hz] at hrb
          have hre := broadcast_ptr t0.svc (some 0) t0.addresses r hrb hkind
          subst hre
          obtain ⟨_, hi3, u, hu, hd⟩ := him.tasks0 t0 ht0 hz
          refine ⟨u, by rw [sigR_svc_ptr lower N t0.svc (some 0) alias hwf]; exact hu, ?_, ?_⟩ <;> omega
  | answer rs =>
    simp only [Host.step] at hs
    split at hs
    · rename_i hall
      simp only [Option.some.injEq, Prod.mk.injEq] at hs
      obtain ⟨_, hout⟩ := hs
      rw [← hout] at hp
      have hpe := emit_mem h _ p hp
      subst hpe
      exfalso
      have hrr : r ∈ rs := by simpa using hr
      exact notpos (live_pos h.reg him.reg r (List.all_eq_true.mp hall r hrr))
    · simp at hs
  | enqueue delayed now draw answers =>
    simp only [Host.step] at hs
    split at hs
    · split at hs
      · simp only [Option.some.injEq, Prod.mk.injEq] at hs
        obtain ⟨_, rfl⟩ := hs
        cases hp
      · simp only [Option.some.injEq, Prod.mk.injEq] at hs
        obtain ⟨_, rfl⟩ := hs
        cases hp
    · simp at hs
  | ready delayed now =>
    exfalso
    simp only [Host.step] at hs
    split at hs
    · have hq := (qready_P lower PosRec h.delayq now him.delayq).2
      generalize qready lower h.delayq now = rr at hs hq
      obtain ⟨q, p0⟩ := rr
      simp only [Option.some.injEq, Prod.mk.injEq] at hs
      obtain ⟨_, hout⟩ := hs
      cases p0 with
      | none => rw [← hout] at hp; cases hp
      | some pk =>
        rw [← hout] at hp
        have hpe := emit_mem h pk p hp
        subst hpe
        exact notpos (hq p rfl r hr)
    · have hq := (qready_P lower PosRec h.outq now him.outq).2
      generalize qready lower h.outq now = rr at hs hq
      obtain ⟨q, p0⟩ := rr
      simp only [Option.some.injEq, Prod.mk.injEq] at hs
      obtain ⟨_, hout⟩ := hs
      cases p0 with
      | none => rw [← hout] at hp; cases hp
      | some pk =>
        rw [← hout] at hp
        have hpe := emit_mem h pk p hp
        subst hpe
        exact notpos (hq p rfl r hr)
  | unregisterAll now =>
    have hnow : now = t := hbt now rfl
    simp only [Host.step] at hs
    split at hs
    · simp only [Option.some.injEq, Prod.mk.injEq] at hs
      obtain ⟨_, rfl⟩ := hs
      cases hp
    · simp only [Option.some.injEq, Prod.mk.injEq] at hs
      have hreg' : h'.reg = [] := by rw [← hs.1]
      obtain ⟨_, hout⟩ := hs
      rw [← hout] at hp
      have hpe := emit_mem h _ p hp
      subst hpe
      have hrA : r ∈ h.reg.flatMap (fun e => broadcastAnswers e.svc (some 0) true) := by simpa [allPkt] using hr
      rw [List.mem_flatMap] at hrA
      obtain ⟨e, he, hre⟩ := hrA
      have hre' := broadcast_ptr e.svc (some 0) true r hre hkind
      subst hre'
      refine ⟨t, ?_, by omega, by omega⟩
      rw [sigR_svc_ptr lower N e.svc (some 0) alias hwf]
      apply mem_unregs_step
      simp only [removes, List.mem_filter, Bool.not_eq_true', List.contains_eq_mem, decide_eq_false_iff_not, sig, List.mem_map, hreg']
      exact ⟨⟨e, he, rfl⟩, by simp⟩
  | allStep due =>
    have hdue : due = t := hbt due rfl
    simp only [Host.step] at hs
    split at hs
    · simp at hs
    rename_i a0 hf
    have ha0 : a0 ∈ h.closing := List.mem_of_find?_eq_some hf
    have hkey : a0.due = due := by
      have := List.find?_some hf
      simpa using this
    simp only [Option.some.injEq, Prod.mk.injEq] at hs
    obtain ⟨_, hout⟩ := hs
    rw [← hout] at hp
    have hpe := emit_mem h _ p hp
    subst hpe
    have hrA : r ∈ a0.answers := by simpa [allPkt] using hr
    obtain ⟨hi3, h2⟩ := him.closing a0 ha0
    obtain ⟨u, hu, hd⟩ := h2 r hrA alias hwf
    exact ⟨u, hu, by omega, by omega⟩
  | close =>
    simp only [Host.step, Option.some.injEq, Prod.mk.injEq] at hs
    obtain ⟨_, rfl⟩ := hs
    cases hp

/-- along a disciplined run: every PTR sent with TTL 0 is at most 250 ms after an `unreg` of its service among the events up to
and including its step -/
theorem run_byes (hsv : Function.Injective N.svcId) :
    ∀ (steps : List Step) (h : Host) (T : Int) (E : Link.Trace), IsRun lower h T steps → WF lower h → Inv2 lower N E h →
      (∀ st ∈ steps, Disc lower st ∧ Disc2 lower st) →
      ∀ pre st post, steps = pre ++ st :: post → ∀ p ∈ st.out, ∀ r ∈ p.answers ++ p.additionals, ∀ alias,
        WfPtr r alias → r.ttl = 0 →
        ∃ u, (u, sigR lower N r alias) ∈ Link.unregs (E ++ events lower N (pre ++ [st])) ∧ u ≤ st.t ∧ st.t ≤ u + 250 := by
  intro steps
  induction steps with
  | nil =>
    intro h T E _ _ _ _ pre st post hsplit
    cases pre <;> simp at hsplit
  | cons s0 rest ih =>
    intro h T E hrun hw hi hd pre st post hsplit p hp r hr alias hwf h0
    cases hrun with
    | cons _ h' _ t b out ad _ hs hT hbt hrest =>
      cases pre with
      | nil =>
        simp only [List.nil_append, List.cons.injEq] at hsplit
        obtain ⟨rfl, _⟩ := hsplit
        have := Inv2_emit lower N E ⟨t, b, h, h', out, ad⟩ hs hbt hw hi p hp r hr alias hwf h0
        simpa [events] using this
      | cons p0 pre' =>
        simp only [List.cons_append, List.cons.injEq] at hsplit
        obtain ⟨rfl, hrest'⟩ := hsplit
        have hd0 := hd ⟨t, b, h, h', out, ad⟩ (by simp)
        have hw' := wf_step lower h h' b out hw hs
        have hi' := Inv2_step lower N hsv E ⟨t, b, h, h', out, ad⟩ hs hbt hw hd0.1 hd0.2 hi
        obtain ⟨u, hu, h1, h2⟩ := ih h' t _ hrest hw' hi' (fun st hst => hd st (by simp [hst])) pre' st post hrest' p hp r hr
          alias hwf h0
        refine ⟨u, ?_, h1, h2⟩
        rw [List.cons_append, events_cons, ← List.append_assoc]
        exact hu

/-- **a datagram with a TTL-0 record goes to the multicast group**: it is not the query handler's immediate answer (that block
only sends records of registered services, whose TTLs are positive); every other emitting block calls `async_send(out)` without
an address (`dstOf`, generated leaves) -/
theorem bye_dst (E : Link.Trace) (st : Step) (hs : st.pre.step lower st.b = some (st.post, st.out))
    (hi : Inv2 lower N E st.pre) (p : Pkt) (hp : p ∈ st.out) (r : Rec) (hr : r ∈ p.answers ++ p.additionals) (h0 : r.ttl = 0) :
    dstOf st.b st.adst = none := by
  obtain ⟨t, b, h, h', out, ad⟩ := st
  simp only at hs hi hp ⊢
  cases b with
  | register s oid now =>
    simp only [Host.step] at hs
    split at hs
    · simp at hs
    split at hs
    · simp at hs
    simp only [Option.some.injEq, Prod.mk.injEq] at hs
    obtain ⟨_, rfl⟩ := hs
    cases hp
  | update s oid now =>
    simp only [Host.step] at hs
    split at hs
    · simp at hs
    simp only [Option.some.injEq, Prod.mk.injEq] at hs
    obtain ⟨_, rfl⟩ := hs
    cases hp
  | unregister s oid now =>
    simp only [Host.step, Option.some.injEq, Prod.mk.injEq] at hs
    obtain ⟨_, rfl⟩ := hs
    cases hp
  | task oid ttl a due => exact Zc.GenFacts.Link.dstOf_task _ _ _ _ _
  | answer rs =>
    exfalso
    simp only [Host.step] at hs
    split at hs
    · rename_i hall
      simp only [Option.some.injEq, Prod.mk.injEq] at hs
      obtain ⟨_, hout⟩ := hs
      rw [← hout] at hp
      have hpe := emit_mem h _ p hp
      subst hpe
      have hrr : r ∈ rs := by simpa using hr
      have := live_pos h.reg hi.reg r (List.all_eq_true.mp hall r hrr)
      unfold PosRec at this
      omega
    · simp at hs
  | enqueue delayed now draw answers =>
    simp only [Host.step] at hs
    split at hs
    · split at hs
      · simp only [Option.some.injEq, Prod.mk.injEq] at hs
        obtain ⟨_, rfl⟩ := hs
        cases hp
      · simp only [Option.some.injEq, Prod.mk.injEq] at hs
        obtain ⟨_, rfl⟩ := hs
        cases hp
    · simp at hs
  | ready delayed now => exact Zc.GenFacts.Link.dstOf_ready _ _ _
  | unregisterAll now => exact Zc.GenFacts.Link.dstOf_unregisterAll _ _
  | allStep due => exact Zc.GenFacts.Link.dstOf_allStep _ _
  | close =>
    simp only [Host.step, Option.some.injEq, Prod.mk.injEq] at hs
    obtain ⟨_, rfl⟩ := hs
    cases hp

/-- along a disciplined run every datagram carrying a TTL-0 record is sent to the multicast group -/
theorem run_bye_dst (hsv : Function.Injective N.svcId) :
    ∀ (steps : List Step) (h : Host) (T : Int) (E : Link.Trace), IsRun lower h T steps → WF lower h → Inv2 lower N E h →
      (∀ st ∈ steps, Disc lower st ∧ Disc2 lower st) →
      ∀ st ∈ steps, ∀ p ∈ st.out, ∀ r ∈ p.answers ++ p.additionals, r.ttl = 0 → dstOf st.b st.adst = none := by
  intro steps
  induction steps with
  | nil => intro h T E _ _ _ _ st hst; cases hst
  | cons s0 rest ih =>
    intro h T E hrun hw hi hd st hst p hp r hr h0
    cases hrun with
    | cons _ h' _ t b out ad _ hs hT hbt hrest =>
      rcases List.mem_cons.mp hst with rfl | hst
      · exact bye_dst lower N E ⟨t, b, h, h', out, ad⟩ hs hi p hp r hr h0
      · have hd0 := hd ⟨t, b, h, h', out, ad⟩ (by simp)
        have hw' := wf_step lower h h' b out hw hs
        have hi' := Inv2_step lower N hsv E ⟨t, b, h, h', out, ad⟩ hs hbt hw hd0.1 hd0.2 hi
        exact ih h' t _ hrest hw' hi' (fun st hst => hd st (by simp [hst])) st hst p hp r hr h0

theorem ptrOf_zero_item {s : Link.Svc} {items : List Link.Item} (h : Link.bye s items = true) :
    ∃ full, Link.Item.ptr s 0 full ∈ items := by
  obtain ⟨full, hp⟩ := Link.bye_iff.mp h
  exact ⟨full, ptrOf_item hp⟩

/-- **K2, safety half, from the C08 host machine.**  On the link trace of every disciplined timed run a PTR with TTL 0 is sent
only by the owner and only within 250 ms after an `unreg` of that service (goodbye tasks and close sequences descend from a
step that took the service out of the registry; everything else the machine sends has a non-zero TTL). -/
theorem K2s_of_run (hsv : Function.Injective N.svcId) (steps : List Step) (T0 : Int)
    (hrun : IsRun lower Host.init T0 steps) (hd : ∀ st ∈ steps, Disc lower st ∧ Disc2 lower st) :
    Link.K2s Link.Cfg.paper (events lower N steps) = true := by
  unfold Link.K2s
  rw [List.all_eq_true]
  intro sd hsd
  rw [List.all_eq_true]
  intro s _
  cases hbye : Link.bye s sd.items with
  | false => rfl
  | true =>
    simp only [Bool.not_true, Bool.false_or, Bool.and_eq_true, beq_iff_eq, List.any_eq_true, decide_eq_true_eq]
    obtain ⟨st, hst, p, hp, rfl⟩ := mem_sends_events lower N steps sd hsd
    simp only at hbye ⊢
    obtain ⟨full, hitem⟩ := ptrOf_zero_item hbye
    unfold itemsOf at hitem
    rw [List.mem_filterMap] at hitem
    obtain ⟨r, hr, hri⟩ := hitem
    obtain ⟨alias, hwf, rfl, h0⟩ := ptrItem_some lower N p r s 0 full hri
    obtain ⟨pre, post, hsplit⟩ := List.append_of_mem hst
    obtain ⟨u, hu, h1, h2⟩ := run_byes lower N hsv steps Host.init T0 [] hrun (wf_init lower) (Inv2_init lower N) hd
      pre st post hsplit p hp r hr alias hwf h0.symm
    refine ⟨rfl, (u, sigR lower N r alias), ?_, ⟨rfl, h1⟩, ?_⟩
    · simp only [List.nil_append] at hu
      rw [hsplit, show pre ++ st :: post = (pre ++ [st]) ++ post by simp, events_append, unregs_append]
      exact List.mem_append_left _ hu
    · simp only [Link.lastOr, List.getLastD]
      simpa using h2

/-- **goodbyes are multicast** (the route half of K2): on the link trace of every disciplined timed run a send that carries a PTR
with TTL 0 goes to the multicast group -/
theorem bye_mcast_of_run (hsv : Function.Injective N.svcId) (steps : List Step) (T0 : Int)
    (hrun : IsRun lower Host.init T0 steps) (hd : ∀ st ∈ steps, Disc lower st ∧ Disc2 lower st) :
    ∀ sd ∈ Link.sends (events lower N steps), ∀ s, Link.bye s sd.items = true → sd.dst = none := by
  intro sd hsd s hbye
  obtain ⟨st, hst, p, hp, rfl⟩ := mem_sends_events lower N steps sd hsd
  simp only at hbye ⊢
  obtain ⟨full, hitem⟩ := ptrOf_zero_item hbye
  unfold itemsOf at hitem
  rw [List.mem_filterMap] at hitem
  obtain ⟨r, hr, hri⟩ := hitem
  obtain ⟨alias, _, _, h0⟩ := ptrItem_some lower N p r s 0 full hri
  exact run_bye_dst lower N hsv steps Host.init T0 [] hrun (wf_init lower) (Inv2_init lower N) hd st hst p hp r hr h0.symm

/-! ### K2 and K6 for a link trace whose hosts are runs of the machine -/

/-- every host's part of the link trace that the C08 host machine owns — its sends **that carry a pointer record** (instant, items
and destination, both ways; a host's questions belong to its browsers and its probes, not to this machine), the `reg`s and `unreg`s
of its services — is that of a disciplined, fair timed run of the machine that is not closed before the end of the window -/
def Generated (tr : Link.Trace) (endT : Int) : Prop :=
  ∀ hid : Nat, ∃ (N : Naming) (steps : List Step) (T0 : Int),
    N.host = hid ∧ Function.Injective N.tyId ∧ Function.Injective N.svcId ∧
    IsRun lower Host.init T0 steps ∧ (∀ st ∈ steps, Disc lower st ∧ Disc2 lower st) ∧ Spaced lower N [] steps ∧
    Fair steps endT ∧ Open steps ∧
    (∀ sd ∈ Link.sends tr, sd.h = hid → Link.ptrSvcs sd.items ≠ [] →
      ∃ sd' ∈ Link.sends (events lower N steps), sd'.t = sd.t ∧ sd'.items = sd.items ∧ sd'.dst = sd.dst) ∧
    (∀ sd' ∈ Link.sends (events lower N steps), ∃ sd ∈ Link.sends tr, sd.h = hid ∧ sd.t = sd'.t ∧ sd.items = sd'.items ∧ sd.dst = sd'.dst) ∧
    (∀ x ∈ Link.regs (events lower N steps), x ∈ Link.regs tr) ∧
    (∀ x ∈ Link.unregs tr, x.2.owner = hid → x ∈ Link.unregs (events lower N steps)) ∧
    (∀ x ∈ Link.unregs (events lower N steps), x ∈ Link.unregs tr)

/-- goodbyes are multicast -/
def ByeMulticast (tr : Link.Trace) : Prop :=
  ∀ sd ∈ Link.sends tr, ∀ s, Link.bye s sd.items = true → sd.dst = none

/-- … which is no longer a hypothesis: the projection carries the route of every block (`dstOf`), and the sends of the link trace
are the projection's sends, destination included -/
theorem byeMulticast_of_generated (tr : Link.Trace) (endT : Int) (hg : Generated lower tr endT) : ByeMulticast tr := by
  intro sd hsd s hbye
  obtain ⟨N, steps, T0, _, _, hsv, hrun, hd, _, _, _, hsends, _⟩ := hg sd.h
  obtain ⟨sd', hsd', _, hit, hdst⟩ := hsends sd hsd rfl
    (List.ne_nil_of_mem (Link.ptrOf_mem (Link.bye_iff.mp hbye).choose_spec))
  rw [← hdst]
  exact bye_mcast_of_run lower N hsv steps T0 hrun hd sd' hsd' s (by rw [hit]; exact hbye)

theorem Generated_K6 (tr : Link.Trace) (endT : Int) (hg : Generated lower tr endT) : GeneratedK6 lower tr := by
  intro hid
  obtain ⟨N, steps, T0, h1, h2, h3, h4, h5, h6, _, _, h9, _, h11, h12, _⟩ := hg hid
  refine ⟨N, steps, T0, h1, h2, h3, h4, fun st hst => (h5 st hst).1, h6, ?_, h11, h12⟩
  intro sd hsd hh hne
  obtain ⟨sd', hsd', e1, e2, _⟩ := h9 sd hsd hh hne
  exact ⟨sd', hsd', e1, e2⟩

theorem K2_of_generated (tr : Link.Trace) (endT : Int) (hg : Generated lower tr endT) :
    Link.K2 Link.Cfg.paper tr endT = true := by
  have hb := byeMulticast_of_generated lower tr endT hg
  unfold Link.K2
  rw [Bool.and_eq_true]
  constructor
  · -- safety
    unfold Link.K2s
    rw [List.all_eq_true]
    intro sd hsd
    rw [List.all_eq_true]
    intro s hs
    cases hbye : Link.bye s sd.items with
    | false => rfl
    | true =>
      obtain ⟨N, steps, T0, hN, _, hsv, hrun, hd, _, _, _, hsends, _, _, _, hun⟩ := hg sd.h
      obtain ⟨sd', hsd', ht, hit, _⟩ := hsends sd hsd rfl (List.ne_nil_of_mem hs)
      have hk := K2s_of_run lower N hsv steps T0 hrun hd
      have h1 := List.all_eq_true.mp (List.all_eq_true.mp hk sd' hsd') s (by rw [hit]; exact hs)
      rw [hit, hbye] at h1
      simp only [Bool.not_true, Bool.false_or, Bool.and_eq_true, beq_iff_eq, List.any_eq_true, decide_eq_true_eq] at h1 ⊢
      obtain ⟨hown, u, hu, ⟨hus, hu1⟩, hu2⟩ := h1
      have hsdh : sd'.h = sd.h := by
        obtain ⟨st, _, p, _, rfl⟩ := mem_sends_events lower N steps sd' hsd'
        exact hN
      exact ⟨by rw [hown, hsdh], u, hun u hu, ⟨hus, by rw [← ht]; exact hu1⟩, by rw [← ht]; exact hu2⟩
  · -- liveness
    unfold Link.K2l
    rw [List.all_eq_true]
    intro u hu
    obtain ⟨N, steps, T0, hN, _, _, hrun, hd, _, hfair, hopen, _, hback, _, hin, _⟩ := hg u.2.owner
    have hk := K2l_of_run lower N steps T0 endT hrun (fun st hst => (hd st hst).1) hfair hopen
    have h1 := List.all_eq_true.mp hk u (hin u hu rfl)
    rw [List.all_eq_true] at h1 ⊢
    intro off hoff
    have h2 := h1 off hoff
    rw [Bool.or_eq_true] at h2 ⊢
    rcases h2 with h2 | h2
    · exact Or.inl h2
    · right
      rw [Link.mcastAt_iff] at h2 ⊢
      obtain ⟨sd', hsd', hh, ht, _, hbye⟩ := h2
      obtain ⟨sd, hsd, hsh, hst, hsi, _⟩ := hback sd' hsd'
      exact ⟨sd, hsd, hsh, by rw [hst, ht], hb sd hsd u.2 (by rw [hsi]; exact hbye), by rw [hsi]; exact hbye⟩

end Zc.Bridge
