import Zc.Proofs.Link
/-! The ∀/∃ content of the Boolean contract monitors of `Zc.Model.Link`, at the parameters of the English
property (`Cfg.paper`). -/
namespace Zc.Link

/-! ### WF -/

structure WFP (tr : Trace) (endT : Int) : Prop where
  sorted : Sorted tr
  le_end : ∀ e ∈ tr, e.t ≤ endT
  reg_up : ∀ r ∈ regs tr, upAt tr r.2.owner r.1 = true
  reg_close : ∀ r ∈ regs tr, ∀ c ∈ closes tr, c.2 = r.2.owner →
    r.1 < c.1 ∧ ∃ u ∈ unregs tr, u.2 = r.2 ∧ r.1 < u.1 ∧ u.1 ≤ c.1
  browse_up : ∀ b ∈ browses tr, upAt tr b.2.host b.1 = true
  upd_reg : ∀ u ∈ upds tr, ∃ r ∈ regs tr, r.2 = u.2 ∧ r.1 + 350 ≤ u.1 ∧
    ∀ x ∈ unregs tr, x.2 = u.2 → r.1 ≤ x.1 → x.1 ≤ u.1 → False

theorem wf_of {tr : Trace} {endT : Int} (h : WF Cfg.paper tr endT = true) : WFP tr endT := by
  simp only [WF, Bool.and_eq_true] at h
  obtain ⟨⟨⟨⟨⟨h1, h2⟩, h3⟩, h4⟩, h5⟩, _⟩ := h
  refine ⟨sortedB_sorted tr h1, ?_, ?_, ?_, ?_, ?_⟩
  · simpa using h2
  · intro r hr
    have := List.all_eq_true.mp h3 r hr
    simp only [Bool.and_eq_true] at this
    exact this.1
  · intro r hr c hc hco
    have := List.all_eq_true.mp h3 r hr
    simp only [Bool.and_eq_true] at this
    have h' := List.all_eq_true.mp this.2 c hc
    simp only [hco, beq_self_eq_true, Bool.not_true, Bool.false_or, Bool.and_eq_true, dec_true,
      List.any_eq_true, beq_iff_eq] at h'
    obtain ⟨hlt, u, hu, ⟨hus, hru⟩, huc⟩ := h'
    exact ⟨hlt, u, hu, hus, hru, huc⟩
  · intro b hb
    exact List.all_eq_true.mp h4 b hb
  · intro u hu
    have := List.all_eq_true.mp h5 u hu
    simp only [List.any_eq_true, Bool.and_eq_true, beq_iff_eq, dec_true, List.all_eq_true,
      Bool.not_eq_true', Bool.and_eq_false_imp, dec_false] at this
    obtain ⟨r, hr, ⟨hrs, hrt⟩, hx⟩ := this
    refine ⟨r, hr, hrs, hrt, ?_⟩
    intro x hx' hxs h1 h2
    exact hx x hx' ⟨hxs, h1⟩ h2

/-! ### K7 -/

theorem k7a_of {tr : Trace} {endT : Int} (h : K7 Cfg.paper tr endT = true) {e : DlvE} (he : e ∈ dlvs tr) :
    upAt tr e.h e.t = true ∧ ∃ sd ∈ sends tr, sd.d = e.d ∧ sd.h = e.src ∧ sd.items = e.items ∧ sd.t ≤ e.t ∧ e.t ≤ sd.t + 100
      ∧ sd.dst.isNone = e.mc ∧ dstOK sd.dst e.h = true := by
  simp only [K7, Bool.and_eq_true] at h
  have := List.all_eq_true.mp h.1 e he
  simp only [Bool.and_eq_true, List.any_eq_true, beq_iff_eq, dec_true] at this
  obtain ⟨hup, sd, hsd, ⟨⟨⟨⟨⟨h1, h2⟩, h3⟩, h4⟩, h5⟩, h6⟩, h7⟩ := this
  exact ⟨hup, sd, hsd, h1, h2, h3, h4, h5, h6, h7⟩

/-- a datagram sent to a host that is up and is never closed is processed by it within 100 ms, or that delivery is the
missing one -/
theorem k7b_reach {tr : Trace} {endT : Int} {sd : SendE} {h : Nat} (hsd : sd ∈ sends tr) (hdst : dstOK sd.dst h = true)
    (hup : upBefore tr h sd.t = true) (hopen : neverClosed tr h = true) (hend : sd.t + 100 ≤ endT) :
    (∃ e ∈ dlvs tr, e.h = h ∧ e.items = sd.items ∧ sd.t ≤ e.t ∧ e.t ≤ sd.t + 100)
    ∨ ∃ o ∈ missing Cfg.paper tr endT, o.t = sd.t := by
  by_cases hd : delivered Cfg.paper tr ⟨sd.d, sd.t, h, sd.items⟩ = true
  · left
    simp only [delivered] at hd
    simp only [List.any_eq_true, Bool.and_eq_true, beq_iff_eq, dec_true] at hd
    obtain ⟨e, he, ⟨⟨⟨⟨_, h2⟩, h3⟩, h4⟩, h5⟩⟩ := hd
    exact ⟨e, he, h2, h3, h4, h5⟩
  · right
    refine ⟨⟨sd.d, sd.t, h, sd.items⟩, ?_, rfl⟩
    unfold missing
    rw [List.mem_filter]
    refine ⟨?_, by simpa using hd⟩
    unfold obligations
    rw [List.mem_flatMap]
    refine ⟨sd, hsd, ?_⟩
    rw [List.mem_filterMap]
    obtain ⟨u, hu, hu2, _⟩ := upBefore_iff.mp hup
    refine ⟨h, ?_, ?_⟩
    · unfold hostsOf
      rw [List.mem_map]
      exact ⟨u, hu, hu2⟩
    · have hc := not_closedBy hopen (sd.t + 100)
      simp [hdst, hup, hc, hend]

theorem k7b_same {tr : Trace} {endT : Int} (h : K7 Cfg.paper tr endT = true) {o1 o2 : Obl}
    (h1 : o1 ∈ missing Cfg.paper tr endT) (h2 : o2 ∈ missing Cfg.paper tr endT) : o1.d = o2.d ∧ o1.t = o2.t := by
  simp only [K7, Bool.and_eq_true] at h
  have := List.all_eq_true.mp (List.all_eq_true.mp h.2 o1 h1) o2 h2
  simpa using this

/-! ### K6, K2 -/

theorem k6_of {tr : Trace} (h : K6 Cfg.paper tr = true) {sd : SendE} (hsd : sd ∈ sends tr) {s : Svc} (hp : pos s sd.items = true) :
    s.owner = sd.h ∧ ∃ r ∈ regs tr, r.2 = s ∧ r.1 + 350 ≤ sd.t ∧ ∀ x ∈ unregs tr, x.2 = s → r.1 ≤ x.1 → x.1 < sd.t → False := by
  have := List.all_eq_true.mp (List.all_eq_true.mp h sd hsd) s (pos_mem hp)
  simp only [hp, regAt] at this
  simp only [Bool.not_true, Bool.false_or, Bool.and_eq_true, beq_iff_eq, List.any_eq_true, dec_true,
    List.all_eq_true, Bool.not_eq_true', Bool.and_eq_false_imp, dec_false] at this
  obtain ⟨ho, r, hr, ⟨hrs, hrt⟩, hx⟩ := this
  exact ⟨ho, r, hr, hrs, hrt, fun x hx' hxs h1 h2 => hx x hx' ⟨hxs, h1⟩ h2⟩

theorem k2s_of {tr : Trace} {endT : Int} (h : K2 Cfg.paper tr endT = true) {sd : SendE} (hsd : sd ∈ sends tr) {s : Svc}
    (hb : bye s sd.items = true) :
    ∃ u ∈ unregs tr, u.2 = s ∧ u.1 ≤ sd.t ∧ sd.t ≤ u.1 + 250 := by
  simp only [K2, Bool.and_eq_true] at h
  have := List.all_eq_true.mp (List.all_eq_true.mp h.1 sd hsd) s (bye_mem hb)
  simp only [hb, lastOr, List.getLastD] at this
  simp only [Bool.not_true, Bool.false_or, Bool.and_eq_true, beq_iff_eq, List.any_eq_true, dec_true] at this
  obtain ⟨_, u, hu, ⟨hus, h1⟩, h2⟩ := this
  exact ⟨u, hu, hus, h1, by first | exact h2 | exact of_decide_eq_true h2⟩

theorem mcastAt_iff {tr : Trace} {h : Nat} {t : Int} {p : List Item → Bool} :
    mcastAt tr h t p = true ↔ ∃ sd ∈ sends tr, sd.h = h ∧ sd.t = t ∧ sd.dst = none ∧ p sd.items = true := by
  simp [mcastAt, and_assoc]

theorem k2l_of {tr : Trace} {endT : Int} (h : K2 Cfg.paper tr endT = true) {u : Int × Svc} (hu : u ∈ unregs tr)
    (hend : u.1 + 250 ≤ endT) :
    mcastAt tr u.2.owner (u.1 + 125) (bye u.2) = true ∧ mcastAt tr u.2.owner (u.1 + 250) (bye u.2) = true := by
  simp only [K2, Bool.and_eq_true] at h
  have := List.all_eq_true.mp h.2 u hu
  simp only [List.all_cons, List.all_nil, Bool.and_true, Bool.and_eq_true, Bool.or_eq_true, Bool.not_eq_true',
    dec_false] at this
  obtain ⟨_, h2, h3⟩ := this
  constructor
  · rcases h2 with h2 | h2
    · omega
    · exact h2
  · rcases h3 with h3 | h3
    · omega
    · exact h3

/-! ### K1 -/

theorem k1for_of {tr : Trace} {endT : Int} {t : Int} {s : Svc} {o1 o2 o3 : Int} (h : K1for tr endT [o1, o2, o3] t s = true)
    (hend : t + o3 ≤ endT) (hlast : ∀ x ∈ tr, IsRegEv s x → x.t ≤ t) :
    mcastAt tr s.owner (t + o2) (posFull s) = true ∧ mcastAt tr s.owner (t + o3) (posFull s) = true := by
  have hl : lastOr [o1, o2, o3] 0 = o3 := by simp [lastOr, List.getLastD]
  simp only [K1for, hl, Bool.or_eq_true, Bool.not_eq_true', dec_false, List.all_cons, List.all_nil,
    Bool.and_true, Bool.and_eq_true] at h
  rcases h with (h | h) | h
  · omega
  · exfalso
    simp only [laterRegEv, List.any_eq_true, Bool.and_eq_true, beq_iff_eq, dec_true] at h
    obtain ⟨x, hx, ⟨hxs, h1⟩, _⟩ := h
    obtain ⟨e, he, het, her⟩ := mem_regEvs.mp (show (x.1, s) ∈ regEvs tr by rw [← hxs]; exact hx)
    have := hlast e he her
    omega
  · exact ⟨h.2.1, h.2.2⟩

theorem k1_reg {tr : Trace} {endT : Int} (h : K1 Cfg.paper tr endT = true) {t : Int} {s : Svc} (hr : (t, s) ∈ regs tr)
    (hend : t + 800 ≤ endT) (hlast : ∀ x ∈ tr, IsRegEv s x → x.t ≤ t) :
    mcastAt tr s.owner (t + 575) (posFull s) = true ∧ mcastAt tr s.owner (t + 800) (posFull s) = true := by
  simp only [K1, Bool.and_eq_true] at h
  exact k1for_of (List.all_eq_true.mp h.1 (t, s) hr) hend hlast

theorem k1_upd {tr : Trace} {endT : Int} (h : K1 Cfg.paper tr endT = true) {t : Int} {s : Svc} (hr : (t, s) ∈ upds tr)
    (hend : t + 450 ≤ endT) (hlast : ∀ x ∈ tr, IsRegEv s x → x.t ≤ t) :
    mcastAt tr s.owner (t + 225) (posFull s) = true ∧ mcastAt tr s.owner (t + 450) (posFull s) = true := by
  simp only [K1, Bool.and_eq_true] at h
  exact k1for_of (List.all_eq_true.mp h.2 (t, s) hr) hend hlast

/-! ### K3 -/

theorem received_iff {tr : Trace} {h : Nat} {s : Svc} {t : Int} :
    received tr h s t = true ↔ ∃ e ∈ dlvs tr, e.h = h ∧ e.t ≤ t ∧ pos s e.items = true := by
  simp [received, and_assoc]

/-- if `h` never processed a PTR(`s`) with TTL > 0, a question it asks or is suppressed by does not list `s` -/
theorem asks_of {tr : Trace} {h : Nat} {t : Int} {ty : Nat} {qu : Bool} {items : List Item} {s : Svc}
    (hno : ∀ e ∈ dlvs tr, e.h = h → pos s e.items = false) (ha : asks tr h t ty qu items = true) :
    ∃ known, Item.query ty known qu ∈ items ∧ known.contains s = false := by
  simp only [asks, List.any_eq_true] at ha
  obtain ⟨it, hit, hq⟩ := ha
  cases it with
  | ptr _ _ _ => simp at hq
  | query ty' known qu' =>
    simp only [Bool.and_eq_true, beq_iff_eq, List.all_eq_true] at hq
    obtain ⟨⟨rfl, rfl⟩, hk⟩ := hq
    refine ⟨known, hit, ?_⟩
    rw [Bool.eq_false_iff]
    intro hc
    have hmem : s ∈ known := by simpa using hc
    obtain ⟨e, he, heh, _, hp⟩ := received_iff.mp (hk s hmem)
    rw [hno e he heh] at hp
    cases hp

/-- the third and fourth start-up opportunities of a browser (offsets 5 s and 14 s) -/
theorem k3_of {tr : Trace} {endT : Int} (h : K3 Cfg.paper tr endT = true) {tb : Int} {b : Br} (hb : (tb, b) ∈ browses tr)
    (hopen : neverClosed tr b.host = true) (hend : tb + 14120 ≤ endT) :
    K3opp Cfg.paper tr b.host b.ty false (tb + 5020) (tb + 5120) = true
    ∧ K3opp Cfg.paper tr b.host b.ty false (tb + 14020) (tb + 14120) = true := by
  have := List.all_eq_true.mp h (tb, b) hb
  simp only [hopen, K3opps] at this
  simp only [Bool.not_true, Bool.false_or, Bool.and_eq_true, Bool.or_eq_true, Bool.not_eq_true',
    dec_false, Bool.and_true] at this
  obtain ⟨_, _, h3, h4⟩ := this
  constructor
  · rcases h3 with h3 | h3
    · omega
    · have e1 : tb + 20 + 5000 = tb + 5020 := by omega
      have e2 : tb + 120 + 5000 = tb + 5120 := by omega
      rwa [e1, e2] at h3
  · rcases h4 with h4 | h4
    · omega
    · have e1 : tb + 20 + 14000 = tb + 14020 := by omega
      have e2 : tb + 120 + 14000 = tb + 14120 := by omega
      rwa [e1, e2] at h4

/-- a (later) opportunity yields a multicast QM question for the type, sent at most 1099 ms before the window, that
does not list `s` when the host has never received `s` -/
theorem k3opp_query {tr : Trace} {endT : Int} (h7 : K7 Cfg.paper tr endT = true) {h ty : Nat} {lo hi : Int} {s : Svc}
    (hno : ∀ e ∈ dlvs tr, e.h = h → pos s e.items = false)
    (ho : K3opp Cfg.paper tr h ty false lo hi = true) :
    ∃ sd ∈ sends tr, sd.dst = none ∧ lo - 1099 ≤ sd.t ∧ sd.t ≤ hi ∧
      ∃ known, Item.query ty known false ∈ sd.items ∧ known.contains s = false := by
  simp only [K3opp, Bool.false_eq_true, if_false] at ho
  simp only [Bool.or_eq_true, List.any_eq_true, Bool.and_eq_true, beq_iff_eq, dec_true] at ho
  rcases ho with ⟨sd, hsd, ⟨⟨⟨⟨_, hdst⟩, h1⟩, h2⟩, ha⟩⟩ | ⟨e, he, ⟨⟨⟨⟨heh, hmc⟩, h1⟩, h2⟩, ha⟩⟩
  · refine ⟨sd, hsd, by simpa using hdst, by omega, h2, asks_of hno ha⟩
  · obtain ⟨_, sd, hsd, _, _, hitems, h3, h4, h5, _⟩ := k7a_of h7 he
    rw [hmc] at h5
    refine ⟨sd, hsd, by simpa using h5, by omega, by omega, ?_⟩
    rw [hitems]
    exact asks_of hno ha

/-! ### K4 -/

theorem k4_of {tr : Trace} {endT : Int} (h : K4 Cfg.paper tr endT = true) {e : DlvE} (he : e ∈ dlvs tr)
    (hend : e.t + 1200 ≤ endT) {ty : Nat} {known : List Svc} {qu : Bool} (hq : Item.query ty known qu ∈ e.items)
    {s : Svc} {t1 : Int} (hreg : (t1, s) ∈ regs tr) (hown : s.owner = e.h) (hty : s.ty = ty) (hk : known.contains s = false)
    (ht1 : t1 + 350 ≤ e.t - 1000) (hun : ∀ u ∈ unregs tr, u.2 = s → u.1 ≤ t1) :
    ∃ sd ∈ sends tr, sd.h = e.h ∧ e.t - 1000 ≤ sd.t ∧ sd.t ≤ e.t + 1200 ∧ posFull s sd.items = true
      ∧ (sd.dst = none ∨ (qu = true ∧ sd.dst = some e.src)) := by
  have h1 := List.all_eq_true.mp h e he
  simp only [Bool.or_eq_true, Bool.not_eq_true', dec_false] at h1
  rcases h1 with h1 | h1
  · omega
  have h2 := List.all_eq_true.mp h1 _ hq
  simp only at h2
  have hs : s ∈ svcsOf tr := by
    unfold svcsOf
    rw [List.mem_map]
    exact ⟨(t1, s), hreg, rfl⟩
  have h3 := List.all_eq_true.mp h2 s hs
  have hrt : regThrough Cfg.paper tr s (e.t - 1000) (e.t + 1200) = true := by
    simp only [regThrough]
    simp only [List.any_eq_true, Bool.and_eq_true, beq_iff_eq, dec_true, List.all_eq_true,
      Bool.not_eq_true', Bool.and_eq_false_imp, dec_false]
    refine ⟨(t1, s), hreg, ⟨rfl, ht1⟩, ?_⟩
    intro u hu hus h4
    have := hun u hu hus.1
    have := hus.2
    simp only at this
    omega
  rw [Bool.or_eq_true] at h3
  rcases h3 with h3 | h3
  · simp [hown, hty, hrt] at h3
    have : known.contains s = true := by simpa using h3
    rw [hk] at this; cases this
  simp only [answersTo] at h3
  simp only [List.any_eq_true, Bool.and_eq_true, beq_iff_eq, dec_true, Bool.or_eq_true,
    Option.isNone_iff_eq_none] at h3
  obtain ⟨sd, hsd, ⟨⟨⟨⟨h5, h6⟩, h7⟩, h8⟩, h9⟩⟩ := h3
  exact ⟨sd, hsd, h5, h6, h7, h8, h9⟩

/-! ### K3b -/

theorem asksWithout_of {ty : Nat} {s : Svc} {items : List Item} (h : asksWithout ty s items = true) :
    ∃ known, Item.query ty known false ∈ items ∧ known.contains s = false := by
  simp only [asksWithout, List.any_eq_true] at h
  obtain ⟨it, hit, hq⟩ := h
  cases it with
  | ptr _ _ _ => simp at hq
  | query ty' known qu =>
    simp only [Bool.and_eq_true, beq_iff_eq, Bool.not_eq_true'] at hq
    obtain ⟨⟨rfl, rfl⟩, hk⟩ := hq
    exact ⟨known, hit, hk⟩

/-- a refresh opportunity yields a multicast QM question for the type that does not list `s`, sent in `[a - 100, b]` -/
theorem refreshOpp_query {tr : Trace} {endT : Int} (h7 : K7 Cfg.paper tr endT = true) {h ty : Nat} {s : Svc} {a b : Int}
    (ho : refreshOpp tr h ty s a b = true) :
    ∃ sq ∈ sends tr, sq.dst = none ∧ a - 100 ≤ sq.t ∧ sq.t ≤ b ∧
      ∃ known, Item.query ty known false ∈ sq.items ∧ known.contains s = false := by
  simp only [refreshOpp, Bool.or_eq_true, List.any_eq_true, Bool.and_eq_true, beq_iff_eq, dec_true] at ho
  rcases ho with ⟨sd, hsd, ⟨⟨⟨⟨_, hdst⟩, h1⟩, h2⟩, ha⟩⟩ | ⟨e, he, ⟨⟨⟨⟨_, hmc⟩, h1⟩, h2⟩, ha⟩⟩
  · exact ⟨sd, hsd, by simpa using hdst, by omega, h2, asksWithout_of ha⟩
  · obtain ⟨_, sd, hsd, _, _, hitems, h3, h4, h5, _⟩ := k7a_of h7 he
    rw [hmc] at h5
    refine ⟨sd, hsd, by simpa using h5, by omega, by omega, ?_⟩
    rw [hitems]
    exact asksWithout_of ha

theorem k3b_of {tr : Trace} {endT : Int} (h : K3b Cfg.paper tr endT = true) {tb : Int} {b : Br} (hb : (tb, b) ∈ browses tr)
    (hopen : neverClosed tr b.host = true) {x : DlvE} (hx : x ∈ dlvs tr) (hxh : x.h = b.host) {s : Svc} {ttl : Nat} {full : Bool}
    (hp : ptrOf s x.items = some (ttl, full)) (httl : 0 < ttl) (hty : s.ty = b.ty) :
    k3bAt Cfg.paper tr endT b.host b.ty tb x.t (effTtl Cfg.paper ttl / 1000) s false = true
    ∧ k3bAt Cfg.paper tr endT b.host b.ty tb x.t (effTtl Cfg.paper ttl / 1000) s true = true := by
  have h1 := List.all_eq_true.mp h (tb, b) hb
  simp only [hopen, Bool.not_true, Bool.false_or] at h1
  have h2 := List.all_eq_true.mp h1 x hx
  simp only [hxh, beq_self_eq_true, Bool.not_true, Bool.false_or] at h2
  have h3 := List.all_eq_true.mp h2 s (ptrOf_mem hp)
  have hpos : pos s x.items = true := pos_iff.mpr ⟨ttl, full, hp, httl⟩
  simp only [hty, hpos, beq_self_eq_true, Bool.and_true, Bool.not_true, Bool.false_or, hp, Bool.and_eq_true] at h3
  exact h3

theorem k3bAt_of {tr : Trace} {endT : Int} {h ty : Nat} {tb t e : Int} {s : Svc} {second : Bool}
    (hk : k3bAt Cfg.paper tr endT h ty tb t e s second = true)
    (hend : (refreshWindow Cfg.paper t e tb second).2 ≤ endT)
    (hno : ∀ y ∈ dlvs tr, y.h = h → t < y.t → ptrOf s y.items = none) :
    refreshOpp tr h ty s (refreshWindow Cfg.paper t e tb second).1 (refreshWindow Cfg.paper t e tb second).2 = true := by
  unfold k3bAt at hk
  rw [Bool.or_eq_true] at hk
  rcases hk with hk | hk
  · exfalso
    simp only [Bool.not_eq_true', Bool.and_eq_false_iff, dec_false] at hk
    rcases hk with hk | hk
    · exact hk hend
    · rw [← Bool.not_eq_true] at hk
      apply hk
      unfold noPtrBetween
      rw [List.all_eq_true]
      intro y hy
      by_cases hyh : y.h = h
      · by_cases hlt : t < y.t
        · simp [hno y hy hyh hlt]
        · simp [hlt]
      · simp [hyh]
  · exact hk

theorem refreshWindow_early {t e tb : Int} (h : tb + 120 + 14000 + 10000 ≤ t + 750 * e) (second : Bool) :
    refreshWindow Cfg.paper t e tb second
      = (t + (if second then 850 else 750) * e - 10000 - 999, t + (if second then 850 else 750) * e + 30000) := by
  simp [refreshWindow, h]

theorem refreshWindow_late {t e tb : Int} (h : ¬ tb + 120 + 14000 + 10000 ≤ t + 750 * e) (second : Bool) :
    refreshWindow Cfg.paper t e tb second
      = (tb + 20 + (if second then 14000 else 5000) - 999, tb + 120 + (if second then 14000 else 5000)) := by
  cases second <;> simp [refreshWindow, h]

/-! ### KF -/

theorem kf_of {tr : Trace} {endT : Int} (h : KF Cfg.paper tr endT = true) {tb : Int} {b : Br} (hb : (tb, b) ∈ browses tr)
    (hopen : neverClosed tr b.host = true) {s : Svc} (hs : s ∈ dlvSvcs tr) (hty : s.ty = b.ty)
    (hreg : registered Cfg.paper tr s = true) : unexpired Cfg.paper tr b.host s endT 0 = true := by
  have h1 := List.all_eq_true.mp h (tb, b) hb
  simp only [hopen, Bool.not_true, Bool.false_or] at h1
  have h2 := List.all_eq_true.mp h1 s hs
  simpa [hty, hreg] using h2

/-! ### the lookup from `Added` -/

theorem mem_addeds {tr : Trace} {t : Int} {b : Br} {s : Svc} : (t, b, s) ∈ addeds tr ↔ (⟨t, .added b s⟩ : TEv) ∈ tr := by
  unfold addeds
  rw [List.mem_filterMap]
  constructor
  · rintro ⟨⟨t', e⟩, he, h⟩
    cases e <;> simp at h
    obtain ⟨rfl, rfl, rfl⟩ := h
    exact he
  · intro h
    exact ⟨_, h, rfl⟩

/-- when Added(`b`, `s`) fires, the host has already processed a datagram that carries PTR(`s`) *with* SRV, TXT and address -/
theorem added_complete {tr : Trace} {endT : Int} (h7 : K7 Cfg.paper tr endT = true) (h6 : K6full tr = true)
    (h5 : K5added tr = true) {t : Int} {b : Br} {s : Svc} (ha : (⟨t, .added b s⟩ : TEv) ∈ tr) :
    ∃ e ∈ dlvs tr, e.h = b.host ∧ e.t ≤ t ∧ posFull s e.items = true := by
  have h := List.all_eq_true.mp h5 (t, b, s) (mem_addeds.mpr ha)
  simp only [List.any_eq_true, Bool.and_eq_true, beq_iff_eq, decide_eq_true_eq] at h
  obtain ⟨e, he, ⟨heh, het⟩, hp⟩ := h
  obtain ⟨_, sd, hsd, _, _, hitems, _, _, _, _⟩ := k7a_of h7 he
  have hps : pos s sd.items = true := by rw [hitems]; exact hp
  have h' := List.all_eq_true.mp (List.all_eq_true.mp h6 sd hsd) s (pos_mem hps)
  simp only [hps, Bool.not_true, Bool.false_or] at h'
  exact ⟨e, he, heh, het, by rw [← hitems]; exact h'⟩

end Zc.Link
