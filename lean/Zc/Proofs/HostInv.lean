import Zc.Proofs.HostRun
/-! What `Host.decide` can return, and the run-level invariant of the host (both queues' timed invariants, every deferred
packet is older than the clock, at most one truncated-query timer per address and only while packets of that address are
deferred). -/
namespace Zc.Reply
open GenFacts

/-! ### the four actions -/

theorem decide_idle {h : Host} {e : Ev} {lis : Listener} (hd : h.decide e = .ok (.idle lis)) :
    lis.deferred = h.lis.deferred ∧ lis.timers = h.lis.timers := by
  cases e with
  | rx t addr port dataId size hasQu kind seen draws =>
    simp only [Host.decide] at hd
    repeat' split at hd
    all_goals first
      | (cases hd; done)
      | (cases hd; exact ⟨rfl, rfl⟩)
  | tcfire t addr seen draws =>
    simp only [Host.decide] at hd
    repeat' split at hd
    all_goals cases hd
  | qfire t d =>
    simp only [Host.decide] at hd
    repeat' split at hd
    all_goals cases hd
  | qremove t d recs =>
    simp only [Host.decide] at hd
    cases hd

theorem decide_defer {h : Host} {e : Ev} {lis : Listener} {d : Int} (hd : h.decide e = .ok (.defer lis d)) :
    ∃ (t : Int) (addr port dataId size : Nat) (hasQu : Bool) (p : Pkt) (seen : SeenMap) (draws : List Int) (lis1 : Listener),
      e = .rx t addr port dataId size hasQu (.query p) seen draws ∧ p.now = t ∧
      lis1.deferred = h.lis.deferred ∧ lis1.timers = h.lis.timers ∧ lis = lis1.defer t addr port p d ∧ tcLo ≤ d ∧ d ≤ tcHi := by
  cases e with
  | rx t addr port dataId size hasQu kind seen draws =>
    simp only [Host.decide] at hd
    repeat' split at hd
    all_goals first
      | (cases hd; done)
      | skip
    rename_i hstamp _ _ v dd rest htd _
    cases hd
    obtain ⟨h1, h2, _⟩ := takeDraw_ok htd
    exact ⟨t, addr, port, dataId, size, hasQu, _, seen, draws, ({ h.lis with lastData := some dataId, lastTime := t, lastMsgQu := some hasQu } : Listener), rfl, by simpa using hstamp, rfl, rfl, rfl, h1, h2⟩
  | tcfire t addr seen draws =>
    simp only [Host.decide] at hd
    repeat' split at hd
    all_goals cases hd
  | qfire t d =>
    simp only [Host.decide] at hd
    repeat' split at hd
    all_goals cases hd
  | qremove t d recs =>
    simp only [Host.decide] at hd
    cases hd

theorem decide_answer {h : Host} {e : Ev} {lis : Listener} {pkts : List Pkt} {addr port : Nat}
    (hd : h.decide e = .ok (.answer lis pkts addr port)) :
    ∃ (lis1 : Listener) (msg : Option Pkt), lis1.deferred = h.lis.deferred ∧ lis1.timers = h.lis.timers ∧
      lis = (lis1.take msg addr).1 ∧ pkts = (lis1.take msg addr).2 ∧ (∀ m, msg = some m → m.now = e.time) := by
  cases e with
  | rx t addr' port' dataId size hasQu kind seen draws =>
    simp only [Host.decide] at hd
    repeat' split at hd
    all_goals first
      | (cases hd; done)
      | skip
    rename_i hstamp _
    cases hd
    exact ⟨({ h.lis with lastData := some dataId, lastTime := t, lastMsgQu := some hasQu } : Listener), some _, rfl, rfl, rfl, rfl, by intro m hm; cases hm; simpa [Ev.time] using hstamp⟩
  | tcfire t addr' seen draws =>
    simp only [Host.decide] at hd
    repeat' split at hd
    all_goals first
      | (cases hd; done)
      | skip
    cases hd
    exact ⟨h.lis, none, rfl, rfl, rfl, rfl, by intro m hm; cases hm⟩
  | qfire t d =>
    simp only [Host.decide] at hd
    repeat' split at hd
    all_goals cases hd
  | qremove t d recs =>
    simp only [Host.decide] at hd
    cases hd

theorem decide_ready {h : Host} {e : Ev} {d : Bool} (hd : h.decide e = .ok (.ready d)) : ∃ t, e = .qfire t d := by
  cases e with
  | rx t addr port dataId size hasQu kind seen draws =>
    simp only [Host.decide] at hd
    repeat' split at hd
    all_goals cases hd
  | tcfire t addr seen draws =>
    simp only [Host.decide] at hd
    repeat' split at hd
    all_goals cases hd
  | qfire t d' =>
    by_cases hq : (if d' then h.delayQ else h.outQ).timer = some t
    · simp [Host.decide, hq] at hd
      subst hd; exact ⟨t, rfl⟩
    · simp [Host.decide, hq] at hd
  | qremove t d recs =>
    simp only [Host.decide] at hd
    cases hd

theorem decide_remove {h : Host} {e : Ev} {d : Bool} {recs : List RecId} (hd : h.decide e = .ok (.remove d recs)) :
    ∃ t, e = .qremove t d recs := by
  cases e with
  | rx t addr port dataId size hasQu kind seen draws =>
    simp only [Host.decide] at hd
    repeat' split at hd
    all_goals cases hd
  | tcfire t addr seen draws =>
    simp only [Host.decide] at hd
    repeat' split at hd
    all_goals cases hd
  | qfire t d' =>
    simp only [Host.decide] at hd
    repeat' split at hd
    all_goals cases hd
  | qremove t d' recs' =>
    simp only [Host.decide] at hd
    cases hd
    exact ⟨t, rfl⟩

/-! ### what `perform` returns -/

theorem perform_idle {h : Host} {t : Int} {seen : SeenMap} {draws : List Int} {lis : Listener} {r : StepOut}
    (hp : h.perform t seen draws (.idle lis) = .ok r) : r.host = { h with lis := lis } ∧ r.outs = [] := by
  simp only [Host.perform] at hp
  split at hp
  · cases hp; exact ⟨rfl, rfl⟩
  · cases hp

theorem perform_defer {h : Host} {t : Int} {seen : SeenMap} {draws : List Int} {lis : Listener} {d : Int} {r : StepOut}
    (hp : h.perform t seen draws (.defer lis d) = .ok r) : r.host = { h with lis := lis } ∧ r.outs = [] := by
  simp only [Host.perform] at hp
  cases hp; exact ⟨rfl, rfl⟩

theorem perform_answer {h : Host} {t : Int} {seen : SeenMap} {draws : List Int} {lis : Listener} {pkts : List Pkt} {addr port : Nat}
    {r : StepOut} (hp : h.perform t seen draws (.answer lis pkts addr port) = .ok r) :
    ∃ rest, ({ h with lis := lis } : Host).assemble t pkts addr port seen draws = .ok (r, rest) := by
  simp only [Host.perform] at hp
  cases ha : ({ h with lis := lis } : Host).assemble t pkts addr port seen draws with
  | error m => rw [ha] at hp; cases hp
  | ok v =>
    obtain ⟨r', rest⟩ := v
    rw [ha] at hp
    simp only at hp
    split at hp
    · cases hp; exact ⟨rest, rfl⟩
    · cases hp

theorem perform_ready {h : Host} {t : Int} {seen : SeenMap} {draws : List Int} {d : Bool} {r : StepOut}
    (hp : h.perform t seen draws (.ready d) = .ok r) :
    r.host.lis = h.lis ∧
    (d = false → r.host.outQ = (h.outQ.ready t).1 ∧ r.host.delayQ = h.delayQ ∧
      r.outs = (match (h.outQ.ready t).2 with | some b => [Out.ofMcast b] | none => [])) ∧
    (d = true → r.host.delayQ = (h.delayQ.ready t).1 ∧ r.host.outQ = h.outQ ∧
      r.outs = (match (h.delayQ.ready t).2 with | some b => [Out.ofMcast b] | none => [])) := by
  simp only [Host.perform] at hp
  cases d
  · cases hq : h.outQ.ready t with
    | mk q' b =>
      simp only [Bool.false_eq_true, if_false, hq] at hp
      cases hp
      refine ⟨rfl, fun _ => ⟨rfl, rfl, ?_⟩, (fun hh => nomatch hh)⟩
      cases b <;> rfl
  · cases hq : h.delayQ.ready t with
    | mk q' b =>
      simp only [if_true, hq] at hp
      cases hp
      refine ⟨rfl, (fun hh => nomatch hh), fun _ => ⟨rfl, rfl, ?_⟩⟩
      cases b <;> rfl

theorem perform_remove {h : Host} {t : Int} {seen : SeenMap} {draws : List Int} {d : Bool} {recs : List RecId} {r : StepOut}
    (hp : h.perform t seen draws (.remove d recs) = .ok r) :
    r.outs = [] ∧ r.host.lis = h.lis ∧
    (d = false → r.host.outQ = h.outQ.removeRecords recs ∧ r.host.delayQ = h.delayQ) ∧
    (d = true → r.host.delayQ = h.delayQ.removeRecords recs ∧ r.host.outQ = h.outQ) := by
  cases d
  · simp only [Host.perform, Bool.false_eq_true, if_false] at hp
    cases hp
    refine ⟨rfl, rfl, ?_, ?_⟩
    · intro _; exact ⟨rfl, rfl⟩
    · intro hh; cases hh
  · simp only [Host.perform, if_true] at hp
    cases hp
    refine ⟨rfl, rfl, ?_, ?_⟩
    · intro hh; cases hh
    · intro _; exact ⟨rfl, rfl⟩

/-! ### the run-level invariant -/

/-- every deferred packet arrived no later than the clock -/
def DefOK (l : Listener) (clock : Int) : Prop := ∀ a, ∀ p ∈ l.deferredOf a, p.now ≤ clock

/-- **at most one truncated-query timer per address, and only while packets of that address are deferred** (this is what
makes `packets[0]` in `handle_assembled_query` safe when the timer fires, and what "answered once" needs) -/
def TimerInv (l : Listener) : Prop :=
  ∀ a, (l.timers.filter (fun tm => tm.addr == a)).length ≤ 1 ∧
    (l.timers.filter (fun tm => tm.addr == a) ≠ [] → l.deferredOf a ≠ [])

theorem DefOK.congr {l1 l2 : Listener} {c1 c2 : Int} (h : DefOK l1 c1) (hd : l2.deferred = l1.deferred) (hc : c1 ≤ c2) : DefOK l2 c2 := by
  intro a p hp
  rw [deferredOf_congr hd a] at hp
  have := h a p hp
  omega

theorem TimerInv.congr {l1 l2 : Listener} (h : TimerInv l1) (hd : l2.deferred = l1.deferred) (ht : l2.timers = l1.timers) : TimerInv l2 := by
  intro a
  rw [ht, deferredOf_congr hd a]
  exact h a

theorem defer_deferredOf_same (l : Listener) (t : Int) (a port : Nat) (p : Pkt) (d : Int) :
    (l.defer t a port p d).deferredOf a = l.deferredOf a ++ [p] := by
  have : (l.defer t a port p d).deferred = (l.setDeferred a (l.deferredOf a ++ [p])).deferred := rfl
  rw [deferredOf_congr this a, deferredOf_setDeferred_same]

theorem defer_deferredOf_other (l : Listener) (t : Int) (a port : Nat) (p : Pkt) (d : Int) (b : Nat) (hb : b ≠ a) :
    (l.defer t a port p d).deferredOf b = l.deferredOf b := by
  have : (l.defer t a port p d).deferred = (l.setDeferred a (l.deferredOf a ++ [p])).deferred := rfl
  rw [deferredOf_congr this b, deferredOf_setDeferred_other _ _ _ _ hb]

theorem take_deferredOf_same (l : Listener) (msg : Option Pkt) (a : Nat) : (l.take msg a).1.deferredOf a = [] := by
  simp only [Listener.take]
  exact Listener.popDeferred_deferredOf _ _

theorem take_deferredOf_other (l : Listener) (msg : Option Pkt) (a b : Nat) (hb : b ≠ a) : (l.take msg a).1.deferredOf b = l.deferredOf b := by
  simp only [Listener.take]
  rw [deferredOf_popDeferred_other _ _ _ hb]
  exact deferredOf_congr rfl b

theorem take_timers_same (l : Listener) (msg : Option Pkt) (a : Nat) : (l.take msg a).1.timers.filter (fun tm => tm.addr == a) = [] := by
  simp only [Listener.take]
  have : ((l.cancelTimer a).popDeferred a).timers = (l.cancelTimer a).timers := rfl
  rw [this]; exact Listener.cancelTimer_none l a

theorem take_timers_other (l : Listener) (msg : Option Pkt) (a b : Nat) (hb : b ≠ a) :
    (l.take msg a).1.timers.filter (fun tm => tm.addr == b) = l.timers.filter (fun tm => tm.addr == b) := by
  simp only [Listener.take]
  have : ((l.cancelTimer a).popDeferred a).timers = (l.cancelTimer a).timers := rfl
  rw [this]; exact cancelTimer_other l a b hb

theorem take_pkts (l : Listener) (msg : Option Pkt) (a : Nat) : (l.take msg a).2 = l.deferredOf a ++ msg.toList := by
  simp only [Listener.take]
  rw [deferredOf_congr (show (l.cancelTimer a).deferred = l.deferred from rfl) a]

theorem TimerInv.defer {l : Listener} (h : TimerInv l) (t : Int) (a port : Nat) (p : Pkt) (d : Int) : TimerInv (l.defer t a port p d) := by
  intro b
  by_cases hb : b = a
  · subst hb
    rw [Listener.defer_timer, defer_deferredOf_same]
    exact ⟨by simp, fun _ => by simp⟩
  · rw [Listener.defer_other _ _ _ _ _ _ _ hb, defer_deferredOf_other _ _ _ _ _ _ _ hb]
    exact h b

theorem TimerInv.take {l : Listener} (h : TimerInv l) (msg : Option Pkt) (a : Nat) : TimerInv (l.take msg a).1 := by
  intro b
  by_cases hb : b = a
  · subst hb
    rw [take_timers_same]
    exact ⟨by simp, fun hne => absurd rfl hne⟩
  · rw [take_timers_other _ _ _ _ hb, take_deferredOf_other _ _ _ _ hb]
    exact h b

theorem QInv.mono {p : QP} {hist : List AddRec} {clock c : Int} {q : Queue} (hI : QInv p hist clock q) (hc : clock ≤ c)
    (hdue : ∀ d, q.timer = some d → c ≤ d) : QInv p hist c q :=
  ⟨hI.sk.mono hc hdue, hI.origin, fun a ha => by have := hI.hist a ha; omega⟩

structure HInv (hO hD : List AddRec) (clock : Int) (h : Host) : Prop where
  outQ : QInv outQP hO clock h.outQ
  delayQ : QInv delayQP hD clock h.delayQ
  deferred : DefOK h.lis clock
  timers : TimerInv h.lis

theorem HInv.init (c : Int) : HInv [] [] c {} :=
  ⟨QInv.init _ _, QInv.init _ _, by intro a p hp; simp [Listener.deferredOf] at hp, by intro a; simp [Listener.deferredOf]⟩

/-- ghost: the `async_add` the block performs on the aggregation (`false`) / protected (`true`) queue, if any -/
def actAdds (delayed : Bool) (t : Int) (seen : SeenMap) : Act → List AddRec
  | .answer _ pkts _ port =>
    match pkts.head?, asyncResponse pkts (Gen.Reply.ucast_source port) seen with
    | some first, some qa =>
      if (if delayed then qa.mcastLast else qa.mcastAgg).isEmpty then []
      else [⟨t, first.now, (if delayed then qa.mcastLast else qa.mcastAgg).keys⟩]
    | _, _ => []
  | _ => []

end Zc.Reply
