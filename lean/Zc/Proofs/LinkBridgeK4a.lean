import Zc.Model.LinkBridgeK4
import Zc.Proofs.HostLive
import Zc.Proofs.ResponseComplete
/-! K4, reply-model level, part 1: what a record's entry carries.

C12's invariants speak about the *keys* of the answer groups (which record is sent when).  K4 also needs the *values*: the
additionals that travel with a pointer record (`posFull`: SRV, TXT and an address in the same datagram).  `Dict.ValOK k V d` says
every entry of `d` under key `k` has a value satisfying `V`; it is carried through `_QueryResponse`, `async_add`, `async_ready`,
`_remove_answers_from_queue` and the D5 purge. -/
namespace Zc.Reply
open GenFacts

/-- every entry under key `k` has a value satisfying `V` -/
def Dict.ValOK (k : RecId) (V : List RecId → Prop) (d : Dict) : Prop := ∀ e ∈ d, e.1 = k → V e.2

theorem Dict.ValOK.nil (k : RecId) (V : List RecId → Prop) : Dict.ValOK k V [] := by
  intro e he; cases he

theorem Dict.mem_set {d : Dict} {k : RecId} {v : List RecId} {e : RecId × List RecId} (h : e ∈ d.set k v) :
    e ∈ d ∨ e = (k, v) := by
  unfold Dict.set at h
  split at h
  · rw [List.mem_map] at h
    obtain ⟨x, hx, rfl⟩ := h
    split
    · exact Or.inr rfl
    · exact Or.inl hx
  · rcases List.mem_append.mp h with h | h
    · exact Or.inl h
    · simp only [List.mem_singleton] at h; exact Or.inr h

theorem Dict.ValOK.set {k : RecId} {V : List RecId → Prop} {d : Dict} (h : Dict.ValOK k V d) (k' : RecId) (v : List RecId)
    (hv : k' = k → V v) : Dict.ValOK k V (d.set k' v) := by
  intro e he hk
  rcases Dict.mem_set he with he | rfl
  · exact h e he hk
  · exact hv hk

theorem Dict.ValOK.update {k : RecId} {V : List RecId → Prop} {d o : Dict} (h : Dict.ValOK k V d) (ho : Dict.ValOK k V o) :
    Dict.ValOK k V (d.update o) := by
  unfold Dict.update
  induction o generalizing d with
  | nil => exact h
  | cons e o ih =>
    simp only [List.foldl_cons]
    exact ih (h.set e.1 e.2 (fun hk => ho e (by simp) hk)) (fun x hx => ho x (List.mem_cons_of_mem _ hx))

theorem Dict.ValOK.erase {k : RecId} {V : List RecId → Prop} {d : Dict} (h : Dict.ValOK k V d) (x : RecId) :
    Dict.ValOK k V (d.erase x) := by
  intro e he
  exact h e (List.mem_filter.mp he).1

theorem Dict.ValOK.eraseAll {k : RecId} {V : List RecId → Prop} (ks : List RecId) {d : Dict} (h : Dict.ValOK k V d) :
    Dict.ValOK k V (ks.foldl Dict.erase d) := by
  induction ks generalizing d with
  | nil => exact h
  | cons x ks ih => simp only [List.foldl_cons]; exact ih (h.erase x)

/-- a key of the dict has an entry, and `get` returns the value of one -/
theorem Dict.get_mem {d : Dict} {k : RecId} (h : k ∈ d.keys) : (k, d.get k) ∈ d := by
  unfold Dict.get
  cases hf : d.find? (fun e => e.1 == k) with
  | none =>
    exfalso
    rw [List.find?_eq_none] at hf
    simp only [Dict.keys, List.mem_map] at h
    obtain ⟨e, he, rfl⟩ := h
    exact hf e he (by simp)
  | some e =>
    have hm := List.mem_of_find?_eq_some hf
    have hk : e.1 = k := by simpa using List.find?_some hf
    simp only
    rw [← hk]
    exact hm

theorem Dict.mem_keys_of_mem {d : Dict} {e : RecId × List RecId} (h : e ∈ d) : e.1 ∈ d.keys := by
  simp only [Dict.keys, List.mem_map]; exact ⟨e, h, rfl⟩

theorem Dict.exists_of_key {d : Dict} {k : RecId} (h : k ∈ d.keys) : ∃ v, (k, v) ∈ d := ⟨_, Dict.get_mem h⟩

/-! ### `_QueryResponse`: the additionals map and the four sets -/

/-- every record in one of the four sets has an entry in `_additionals`, and the entries under `k` are fine -/
structure QRInv (k : RecId) (V : List RecId → Prop) (qr : QR) : Prop where
  has : ∀ r, qr.mem r → r ∈ qr.additionals.keys
  val : Dict.ValOK k V qr.additionals

theorem QRInv.empty (k : RecId) (V : List RecId → Prop) : QRInv k V {} := by
  refine ⟨?_, Dict.ValOK.nil _ _⟩
  intro r h
  rcases h with h | h | h | h <;> cases h

theorem addQu_additionals (probe : Bool) (seen : SeenMap) (now : Int) : ∀ (answers : Dict) (qr : QR),
    (qr.addQu probe seen now answers).additionals = qr.additionals.update answers := by
  intro answers
  unfold QR.addQu Dict.update
  induction answers with
  | nil => intro qr; rfl
  | cons e l ih =>
    intro qr
    simp only [List.foldl_cons]
    rw [ih]

theorem addMcast_additionals (probe : Bool) (seen : SeenMap) (now : Int) (nq q0 : Nat) (answers : Dict) (qr : QR) :
    (qr.addMcast probe seen now nq q0 answers).additionals = qr.additionals.update answers := by
  unfold QR.addMcast
  refine foldl_const (π := QR.additionals) ?_ _ _
  intro acc e
  cases mcRoute probe (inLastSecond (seen.get e.1) now) nq q0 <;> rfl

theorem Dict.update_idem_keys (d o : Dict) (x : RecId) : x ∈ ((d.update o).update o).keys ↔ x ∈ (d.update o).keys := by
  rw [Dict.keys_update, Dict.keys_update]
  constructor
  · rintro ((h | h) | h); exact Or.inl h; exact Or.inr h; exact Or.inr h
  · rintro (h | h); exact Or.inl (Or.inl h); exact Or.inr h

/-- the additionals map after routing one strategy: the old entries and the strategy's answers, nothing else -/
theorem route_additionals_keys (us probe : Bool) (seen : SeenMap) (now : Int) (nq q0 : Nat) (qr : QR) (qu : Bool) (answers : Dict)
    (x : RecId) : x ∈ (qr.route us probe seen now nq q0 qu answers).additionals.keys ↔ x ∈ qr.additionals.keys ∨ x ∈ answers.keys := by
  simp only [QR.route]
  split
  · rw [addQu_additionals, Dict.keys_update]
  · cases us
    · simp only [Bool.false_eq_true, if_false]
      rw [addMcast_additionals, Dict.keys_update]
    · simp only [if_true]
      rw [addMcast_additionals]
      show x ∈ ((qr.additionals.update answers).update answers).keys ↔ _
      rw [Dict.update_idem_keys, Dict.keys_update]

theorem route_additionals_val {k : RecId} {V : List RecId → Prop} (us probe : Bool) (seen : SeenMap) (now : Int) (nq q0 : Nat)
    (qr : QR) (qu : Bool) (answers : Dict) (h : Dict.ValOK k V qr.additionals) (ha : Dict.ValOK k V answers) :
    Dict.ValOK k V (qr.route us probe seen now nq q0 qu answers).additionals := by
  simp only [QR.route]
  split
  · rw [addQu_additionals]; exact h.update ha
  · cases us
    · simp only [Bool.false_eq_true, if_false]
      rw [addMcast_additionals]; exact h.update ha
    · simp only [if_true]
      rw [addMcast_additionals]
      exact (Dict.ValOK.update (d := qr.additionals) h ha).update ha

theorem QRInv.route {k : RecId} {V : List RecId → Prop} {qr : QR} (h : QRInv k V qr) (us probe : Bool) (seen : SeenMap) (now : Int)
    (nq q0 : Nat) (qu : Bool) (answers : Dict) (ha : Dict.ValOK k V answers) :
    QRInv k V (qr.route us probe seen now nq q0 qu answers) := by
  refine ⟨?_, route_additionals_val us probe seen now nq q0 qr qu answers h.val ha⟩
  intro r hr
  rw [route_additionals_keys]
  obtain ⟨s1, s2, s3, s4⟩ := route_subset us probe seen now nq q0 qr qu answers r
  rcases hr with hr | hr | hr | hr
  · rcases s1 hr with h1 | h1
    · exact Or.inl (h.has r (Or.inl h1))
    · exact Or.inr h1
  · rcases s2 hr with h1 | h1
    · exact Or.inl (h.has r (Or.inr (Or.inl h1)))
    · exact Or.inr h1
  · rcases s3 hr with h1 | h1
    · exact Or.inl (h.has r (Or.inr (Or.inr (Or.inl h1))))
    · exact Or.inr h1
  · rcases s4 hr with h1 | h1
    · exact Or.inl (h.has r (Or.inr (Or.inr (Or.inr h1))))
    · exact Or.inr h1

/-- entries of a strategy's answer set are candidates of the strategy -/
theorem answerSet_mem (known : List (RecId × Nat)) (it : QItem) (e : RecId × List RecId) (h : e ∈ answerSet known it) :
    ∃ c ∈ it.cands, c.id = e.1 ∧ c.adds = e.2 := by
  unfold answerSet at h
  have key : ∀ (l : List Cand) (d : Dict), e ∈ l.foldl (fun d c => d.set c.id c.adds) d → e ∈ d ∨ ∃ c ∈ l, c.id = e.1 ∧ c.adds = e.2 := by
    intro l
    induction l with
    | nil => intro d h; exact Or.inl h
    | cons c l ih =>
      intro d h
      simp only [List.foldl_cons] at h
      rcases ih _ h with h | ⟨c', hc', e1, e2⟩
      · rcases Dict.mem_set h with h | rfl
        · exact Or.inl h
        · exact Or.inr ⟨c, by simp, rfl, rfl⟩
      · exact Or.inr ⟨c', by simp [hc'], e1, e2⟩
  rcases key _ _ h with h | ⟨c, hc, e1, e2⟩
  · cases h
  · exact ⟨c, (List.mem_filter.mp hc).1, e1, e2⟩

/-- the candidates under `k` of every strategy of every packet carry additionals satisfying `V` -/
def CandV (k : RecId) (V : List RecId → Prop) (pkts : List Pkt) : Prop :=
  ∀ p ∈ pkts, ∀ it ∈ p.items, ∀ c ∈ it.cands, c.id = k → V c.adds

theorem fold_route_inv {k : RecId} {V : List RecId → Prop} (us probe : Bool) (seen : SeenMap) (now : Int) (nq q0 : Nat)
    (known : List (RecId × Nat)) : ∀ (items : List QItem) (qr : QR), QRInv k V qr →
      (∀ it ∈ items, ∀ c ∈ it.cands, c.id = k → V c.adds) →
      QRInv k V (items.foldl (fun (qr : QR) it => qr.route us probe seen now nq q0 it.qu (answerSet known it)) qr) := by
  intro items
  induction items with
  | nil => intro qr h _; exact h
  | cons it items ih =>
    intro qr h hc
    simp only [List.foldl_cons]
    apply ih
    · apply h.route
      intro e he hk
      obtain ⟨c, hcm, e1, e2⟩ := answerSet_mem known it e he
      rw [← e2]
      exact hc it (by simp) c hcm (by rw [e1]; exact hk)
    · intro it' hit'; exact hc it' (List.mem_cons_of_mem _ hit')

/-- **the four dicts `async_response` returns**: every entry under `k` carries additionals satisfying `V` -/
theorem asyncResponse_val {k : RecId} {V : List RecId → Prop} {pkts : List Pkt} {us : Bool} {seen : SeenMap} {qa : QA}
    (h : asyncResponse pkts us seen = some qa) (hc : CandV k V pkts) :
    Dict.ValOK k V qa.ucast ∧ Dict.ValOK k V qa.mcastNow ∧ Dict.ValOK k V qa.mcastAgg ∧ Dict.ValOK k V qa.mcastLast := by
  obtain ⟨first, last, _, _, rfl⟩ := asyncResponse_eq h
  have hinv := fold_route_inv (k := k) (V := V) us (pkts.any (·.isProbe)) seen last.now first.nq first.q0type (unionKnown pkts)
    (pkts.flatMap (·.items)) {} (QRInv.empty k V) (by
      intro it hit c hcm hk
      obtain ⟨p, hp, hip⟩ := List.mem_flatMap.mp hit
      exact hc p hp it hip c hcm hk)
  generalize (List.foldl (fun (qr : QR) it => qr.route us (pkts.any (·.isProbe)) seen last.now first.nq first.q0type it.qu
      (answerSet (unionKnown pkts) it)) {} (pkts.flatMap (·.items))) = qr at hinv
  have one : ∀ (s : List RecId), (∀ r ∈ s, qr.mem r) → Dict.ValOK k V (s.map (fun r => (r, qr.additionals.get r))) := by
    intro s hs e he hk
    rw [List.mem_map] at he
    obtain ⟨r, hr, rfl⟩ := he
    simp only at hk ⊢
    subst hk
    exact hinv.val _ (Dict.get_mem (hinv.has r (hs r hr))) rfl
  simp only [QR.answers]
  exact ⟨one _ (fun r hr => Or.inl hr), one _ (fun r hr => Or.inr (Or.inl hr)), one _ (fun r hr => Or.inr (Or.inr (Or.inl hr))),
    one _ (fun r hr => Or.inr (Or.inr (Or.inr hr)))⟩

/-! ### the queues -/

/-- every queued entry under `k` carries additionals satisfying `V` -/
def QV (k : RecId) (V : List RecId → Prop) (q : Queue) : Prop := ∀ g ∈ q.groups, Dict.ValOK k V g.answers

theorem QV.init (k : RecId) (V : List RecId → Prop) : QV k V {} := by intro g hg; cases hg

theorem QV.add {k : RecId} {V : List RecId → Prop} {q : Queue} (h : QV k V q) (p : QP) (c now draw : Int) {answers : Dict}
    (ha : Dict.ValOK k V answers) : QV k V (q.add p c now draw answers) := by
  rcases Queue.add_spec p q c now draw answers with ⟨_, heq⟩ | ⟨init, last, hq, _, heq⟩ | ⟨init, last, _, _, heq⟩
  · rw [heq]; intro g hg; simp only [List.mem_singleton] at hg; subst hg; exact ha
  · rw [heq]
    intro g hg
    rcases List.mem_append.mp hg with hg | hg
    · exact h g (by rw [hq]; exact List.mem_append_left _ hg)
    · simp only [List.mem_singleton] at hg; subst hg
      exact (h last (by rw [hq]; simp)).update ha
  · rw [heq]
    intro g hg
    rcases List.mem_append.mp hg with hg | hg
    · exact h g hg
    · simp only [List.mem_singleton] at hg; subst hg; exact ha

theorem popReady_val {k : RecId} {V : List RecId → Prop} (now : Int) : ∀ (gs : List Group) (acc : Dict) (rest : List Group) (batch : Dict),
    popReady now gs acc = (rest, batch) → (∀ g ∈ gs, Dict.ValOK k V g.answers) → Dict.ValOK k V acc →
    Dict.ValOK k V batch ∧ ∀ g ∈ rest, g ∈ gs := by
  intro gs
  induction gs with
  | nil =>
    intro acc rest batch h _ ha
    simp only [popReady, Prod.mk.injEq] at h
    obtain ⟨rfl, rfl⟩ := h
    exact ⟨ha, fun g hg => hg⟩
  | cons g gs ih =>
    intro acc rest batch h hg ha
    simp only [popReady] at h
    split at h
    · obtain ⟨h1, h2⟩ := ih _ _ _ h (fun x hx => hg x (List.mem_cons_of_mem _ hx)) (ha.update (hg g (by simp)))
      exact ⟨h1, fun x hx => List.mem_cons_of_mem _ (h2 x hx)⟩
    · simp only [Prod.mk.injEq] at h
      obtain ⟨rfl, rfl⟩ := h
      exact ⟨ha, fun x hx => hx⟩

theorem removeAnswers_val {k : RecId} {V : List RecId → Prop} {gs : List Group} (b : Dict)
    (h : ∀ g ∈ gs, Dict.ValOK k V g.answers) : ∀ g ∈ removeAnswers gs b, Dict.ValOK k V g.answers := by
  intro g hg
  simp only [removeAnswers, List.mem_map] at hg
  obtain ⟨g0, hg0, rfl⟩ := hg
  exact Dict.ValOK.eraseAll _ (h g0 hg0)

/-- `async_ready`: what stays queued and what is sent both keep the property -/
theorem QV.ready {k : RecId} {V : List RecId → Prop} {q : Queue} (h : QV k V q) (now : Int) :
    QV k V (q.ready now).1 ∧ ∀ b, (q.ready now).2 = some b → Dict.ValOK k V b := by
  rcases Queue.ready_spec q now with ⟨hnil, heq⟩ | ⟨g, gs, hq, _, heq⟩ | ⟨rest, batch, _, hp, heq⟩
  · rw [heq]; exact ⟨h, by intro b hb; cases hb⟩
  · rw [heq]; exact ⟨h, by intro b hb; cases hb⟩
  · rw [heq]
    obtain ⟨hb, hrest⟩ := popReady_val (k := k) (V := V) now _ _ _ _ hp h (Dict.ValOK.nil _ _)
    simp only [readyResult]
    split
    · exact ⟨fun g hg => h g (hrest g hg), by intro b hb'; cases hb'⟩
    · refine ⟨removeAnswers_val batch (fun g hg => h g (hrest g hg)), ?_⟩
      intro b hb'
      simp only [Option.some.injEq] at hb'
      subst hb'; exact hb

end Zc.Reply
