import Zc.Proofs.DecodeAgreeMsg
/-! Agreement with the strict parser for messages that **also carry records of unsupported types** (second review of
C02, finding 4): the library skips such a record (`self.offset += length; return None`) and is otherwise unaffected
by it, so the object is valid and carries the strict parser's header, questions and *supported* records in order.
This drops the `supportedOnly` hypothesis of `parse_agrees` and implies it. -/
namespace Zc.Wire.DecodeLib
open Zc Zc.Wire
open Zc.GenFacts.Incoming

/-- the strict parser only keeps rdata opaque for a type that is none of the eight the library decodes -/
theorem decRData_other_type {buf : Bytes} {t off rdlen : Nat} {raw : Bytes}
    (h : Strict.decRData buf t off rdlen = some (.other raw)) :
    t ≠ 1 ∧ t ≠ 28 ∧ ¬ (t = 12 ∨ t = 5) ∧ t ≠ 16 ∧ t ≠ 33 ∧ t ≠ 13 ∧ t ≠ 47 ∧ bytesAt buf off rdlen = some raw := by
  unfold Strict.decRData at h
  dsimp only at h
  by_cases h1 : t = 1
  · rw [if_pos h1] at h
    split at h
    · cases hb : bytesAt buf off 4 <;> simp [hb] at h
    · simp at h
  rw [if_neg h1] at h
  by_cases h28 : t = 28
  · rw [if_pos h28] at h
    split at h
    · cases hb : bytesAt buf off 16 <;> simp [hb] at h
    · simp at h
  rw [if_neg h28] at h
  by_cases hp : t = 12 ∨ t = 5
  · rw [if_pos hp] at h
    cases hn : Strict.decName buf off with
    | none => simp [hn] at h
    | some v =>
      obtain ⟨n, e⟩ := v
      simp only [hn] at h
      split at h <;> simp at h
  rw [if_neg hp] at h
  by_cases h16 : t = 16
  · rw [if_pos h16] at h
    cases hb : bytesAt buf off rdlen <;> simp [hb] at h
  rw [if_neg h16] at h
  by_cases h33 : t = 33
  · rw [if_pos h33] at h
    cases ha : u16At buf off with
    | none => simp [ha] at h
    | some a =>
    cases hb : u16At buf (off + 2) with
    | none => simp [ha, hb] at h
    | some b =>
    cases hc : u16At buf (off + 4) with
    | none => simp [ha, hb, hc] at h
    | some c =>
      simp only [ha, hb, hc, Option.bind_eq_bind, Option.bind_some] at h
      cases hn : Strict.decName buf (off + 6) with
      | none => simp [hn] at h
      | some v =>
        obtain ⟨n, e⟩ := v
        simp only [hn] at h
        split at h <;> simp at h
  rw [if_neg h33] at h
  by_cases h13 : t = 13
  · rw [if_pos h13] at h
    cases ha : Strict.charString buf off with
    | none => simp [ha] at h
    | some v =>
      obtain ⟨c, o1⟩ := v
      cases hb : Strict.charString buf o1 with
      | none => simp [ha, hb] at h
      | some w =>
        obtain ⟨o, o2⟩ := w
        simp only [ha, hb, Option.bind_eq_bind, Option.bind_some] at h
        split at h <;> simp at h
  rw [if_neg h13] at h
  by_cases h47 : t = 47
  · rw [if_pos h47] at h
    cases hn : Strict.decName buf off with
    | none => simp [hn] at h
    | some v =>
      obtain ⟨n, e⟩ := v
      simp only [hn] at h
      split at h
      · cases hw : Strict.windows buf (rdlen + 1) e (off + rdlen) <;> simp [hw] at h
      · simp at h
  rw [if_neg h47] at h
  cases hb : bytesAt buf off rdlen with
  | none => simp [hb] at h
  | some a =>
    simp [hb] at h
    subst h
    exact ⟨h1, h28, hp, h16, h33, h13, h47, rfl⟩

/-- `_read_record` on a type it does not know: `self.offset += length`, no record -/
theorem readRData_other (cfg : Cfg) (buf : Bytes) (t rdlen : Nat) (st : St) (raw : Bytes)
    (hdec : Strict.decRData buf t st.off rdlen = some (.other raw)) :
    readRData cfg buf t rdlen st = ({ st with off := st.off + rdlen }, .ok none) := by
  obtain ⟨h1, h28, hp, h16, h33, h13, h47, _⟩ := decRData_other_type hdec
  unfold readRData
  rw [if_neg (mt (is_a_iff t).mp h1), if_neg (mt (is_ptr_iff t).mp (by omega)), if_neg (mt (is_txt_iff t).mp h16),
    if_neg (mt (is_srv_iff t).mp h33), if_neg (mt (is_hinfo_iff t).mp h13), if_neg (mt (is_aaaa_iff t).mp h28),
    if_neg (mt (is_nsec_iff t).mp h47), skip_unknown_eq]

/-- all the record's names can be written back (whatever its type) -/
def RecNamesOK (lok : Label → Prop) (r : WRecord) : Prop :=
  NameOK lok r.name ∧ ∀ n ∈ DecodeSpec.rdataNames r.rdata, NameOK lok n

theorem supportedRec_iff (r : WRecord) : DecodeSpec.supportedRec r = true ↔ ∀ raw, r.rdata ≠ .other raw := by
  unfold DecodeSpec.supportedRec
  cases r.rdata <;> simp

theorem other_of_not_supported (r : WRecord) (h : ¬ DecodeSpec.supportedRec r = true) : ∃ raw, r.rdata = .other raw := by
  unfold DecodeSpec.supportedRec at h
  cases hr : r.rdata <;> simp [hr] at h
  exact ⟨_, rfl⟩

/-- one record of an unsupported type: the loop goes on behind it with nothing appended -/
theorem readRecords_step_other {cfg : Cfg} {lok : Label → Prop} (hc : CfgOK cfg) (ha : CfgAgree cfg lok) (buf : Bytes) (st : St)
    (r : WRecord) (o' : Nat) (raw : Bytes) (hdec : Strict.decRecord buf st.off = some (r, o')) (hraw : r.rdata = .other raw)
    (hok : NameOK lok r.name) (hcache : CacheOK buf st.cache) :
    ∃ st1, st1.off = o' ∧ CacheOK buf st1.cache ∧ ∀ k, readRecords cfg buf (k + 1) st = readRecords cfg buf k st1 := by
  obtain ⟨e, rdlen, hn, ht, hcl, httl, hl, hrd, rfl⟩ := decRecord_parts hdec
  obtain ⟨st1, hrn, ho1, hc1⟩ := readName_agrees hc ha buf st r.name e hn hok hcache
  have hfix : readFixed buf st1.off = .ok (r.rtype, r.rclass, r.ttl, rdlen) := by
    rw [ho1]; exact readFixed_agrees ht hcl httl hl
  have hrr := readRData_other cfg buf r.rtype rdlen { st1 with off := st1.off + Gen.Incoming.r_len } raw
    (by simp only; rw [ho1, r_len_eq, ← hraw]; exact hrd)
  refine ⟨{ st1 with off := st1.off + Gen.Incoming.r_len + rdlen }, by simp only; rw [ho1, r_len_eq], hc1, ?_⟩
  intro k
  conv => lhs; unfold readRecords
  rw [hrn]
  dsimp only
  rw [hfix]
  dsimp only
  rw [hrr]

theorem readRecords_agrees_mixed {cfg : Cfg} {lok : Label → Prop} (hc : CfgOK cfg) (ha : CfgAgree cfg lok) (buf : Bytes) :
    ∀ (n : Nat) (st : St) (rs : List WRecord) (o' : Nat),
      Strict.decMany (Strict.decRecord buf) n st.off = some (rs, o') → (∀ r ∈ rs, RecNamesOK lok r) → CacheOK buf st.cache →
      ∃ st', st'.off = o' ∧ CacheOK buf st'.cache ∧ ∀ m, readRecords cfg buf (n + m) st =
        ((readRecords cfg buf m st').1, (rs.filter DecodeSpec.supportedRec).map DecodeSpec.canonRec ++ (readRecords cfg buf m st').2.1,
          (readRecords cfg buf m st').2.2) := by
  intro n
  induction n with
  | zero =>
    intro st rs o' h _ hcache
    unfold Strict.decMany at h
    simp at h
    obtain ⟨rfl, rfl⟩ := h
    exact ⟨st, rfl, hcache, by intro m; simp⟩
  | succ n ih =>
    intro st rs o' h hok hcache
    obtain ⟨r, o1, rest, hr, hrest, rfl⟩ := decMany_succ h
    have hrok := hok r List.mem_cons_self
    by_cases hsup : DecodeSpec.supportedRec r = true
    · obtain ⟨st1, ho1, hc1, hstep⟩ := readRecords_step hc ha buf st r o1 hr
        ⟨(supportedRec_iff r).mp hsup, hrok.1, hrok.2⟩ hcache
      obtain ⟨st', ho', hc', hrec⟩ := ih st1 rest o' (by rw [ho1]; exact hrest)
        (fun r' hr' => hok r' (List.mem_cons_of_mem _ hr')) hc1
      refine ⟨st', ho', hc', ?_⟩
      intro m
      have : n + 1 + m = (n + m) + 1 := by omega
      rw [this, hstep (n + m), hrec m]
      simp [List.filter_cons, hsup]
    · obtain ⟨raw, hraw⟩ := other_of_not_supported r hsup
      obtain ⟨st1, ho1, hc1, hstep⟩ := readRecords_step_other hc ha buf st r o1 raw hr hraw hrok.1 hcache
      obtain ⟨st', ho', hc', hrec⟩ := ih st1 rest o' (by rw [ho1]; exact hrest)
        (fun r' hr' => hok r' (List.mem_cons_of_mem _ hr')) hc1
      refine ⟨st', ho', hc', ?_⟩
      intro m
      have : n + 1 + m = (n + m) + 1 := by omega
      rw [this, hstep (n + m), hrec m]
      simp [List.filter_cons, hsup]

/-- **agreement on the supported part**, for any configuration and label predicate -/
theorem parse_agrees_mixed_of {cfg : Cfg} {lok : Label → Prop} (hc : CfgOK cfg) (ha : CfgAgree cfg lok) (b : Bytes) (m : WMsg)
    (hdec : Strict.decode b = some m) (hnames : ∀ n ∈ DecodeSpec.msgNames m, NameOK lok n) :
    ∃ p, (parseWith cfg b).out = .ok p ∧ DecodeSpec.agreesSupported p m = true := by
  obtain ⟨nq, nan, nau, nad, o1, o2, o3, h0, h2, h4, h6, h8, h10, hq, han, hau, had⟩ := decode_parts hdec
  have hqok : ∀ q ∈ m.questions, NameOK lok q.name := by
    intro q hq
    apply hnames
    simp only [DecodeSpec.msgNames, List.mem_append, List.mem_map]
    exact Or.inl ⟨q, hq, rfl⟩
  have hrok : ∀ r ∈ m.answers ++ m.authorities ++ m.additionals, RecNamesOK lok r := by
    intro r hr
    have hr' := hr
    simp only [List.mem_append] at hr'
    refine ⟨?_, ?_⟩
    · apply hnames
      simp only [DecodeSpec.msgNames, List.mem_append, List.mem_flatMap]
      exact Or.inr ⟨r, hr', List.mem_cons_self⟩
    · intro n hn
      apply hnames
      simp only [DecodeSpec.msgNames, List.mem_append, List.mem_flatMap]
      exact Or.inr ⟨r, hr', List.mem_cons_of_mem _ hn⟩
  have hhdr := readHeader_agrees h0 h2 h4 h6 h8 h10
  obtain ⟨st2, hqs, ho2, hc2⟩ := readQuestions_agrees hc ha b nq { off := 12 } m.questions o1 hq hqok (CacheOK.nil b)
  obtain ⟨st3, ho3, hc3, hr3⟩ := readRecords_agrees_mixed hc ha b nan st2 m.answers o2 (by rw [ho2]; exact han)
    (fun r hr => hrok r (by simp [hr])) hc2
  obtain ⟨st4, ho4, hc4, hr4⟩ := readRecords_agrees_mixed hc ha b nau st3 m.authorities o3 (by rw [ho3]; exact hau)
    (fun r hr => hrok r (by simp [hr])) hc3
  obtain ⟨st5, _, _, hr5⟩ := readRecords_agrees_mixed hc ha b nad st4 m.additionals b.length (by rw [ho4]; exact had)
    (fun r hr => hrok r (by simp [hr])) hc4
  have hall : readRecords cfg b (Gen.Incoming.r_loop_count (Gen.Incoming.others_count nan nau nad)) st2 =
      (st5, DecodeSpec.flatSupported m, none) := by
    have e1 : Gen.Incoming.r_loop_count (Gen.Incoming.others_count nan nau nad) = nan + (nau + (nad + 0)) := by
      rw [r_loop_count_eq, others_count_eq]; omega
    rw [e1, hr3, hr4, hr5]
    unfold readRecords
    simp [DecodeSpec.flatSupported, List.filter_append]
  have hlq := decMany_length _ _ _ _ hq
  have hla := decMany_length _ _ _ _ han
  have hlu := decMany_length _ _ _ _ hau
  have hld := decMany_length _ _ _ _ had
  have hothers : ∀ v2 v3, others cfg b ⟨m.id, m.flags, nq, nan, nau, nad⟩ m.questions st2 true v2 v3 =
      ⟨.ok ⟨true, ⟨m.id, m.flags, nq, nan, nau, nad⟩, m.questions, DecodeSpec.flatSupported m⟩, st5⟩ := by
    intro v2 v3
    unfold others readOthers
    dsimp only
    rw [hall]
  refine ⟨⟨true, ⟨m.id, m.flags, nq, nan, nau, nad⟩, m.questions, DecodeSpec.flatSupported m⟩, ?_, ?_⟩
  · unfold parseWith
    dsimp only
    rw [hhdr]
    dsimp only
    rw [q_loop_count_eq, hqs]
    dsimp only
    split <;> rw [hothers]
  · simp [DecodeSpec.agreesSupported, hlq, hla, hlu, hld]

theorem parse_agrees_mixed {cfg : Cfg} (hc : CfgOK cfg) (ha : CfgAgree cfg Reencodable) (b : Bytes) (m : WMsg)
    (hdec : Strict.decode b = some m) (hre : DecodeSpec.reencodable m = true) :
    ∃ p, (parseWith cfg b).out = .ok p ∧ DecodeSpec.agreesSupported p m = true := by
  apply parse_agrees_mixed_of hc ha b m hdec
  intro n hn l hl
  simp only [DecodeSpec.reencodable, List.all_eq_true, decide_eq_true_eq] at hre
  exact hre n hn l hl

/-- with supported types only the supported part is everything -/
theorem flatSupported_eq_flat (m : WMsg) (h : Strict.supportedOnly m = true) : DecodeSpec.flatSupported m = DecodeSpec.flat m := by
  unfold DecodeSpec.flatSupported DecodeSpec.flat
  congr 1
  apply List.filter_eq_self.mpr
  intro r hr
  simp only [Strict.supportedOnly, List.all_eq_true] at h
  have := h r hr
  unfold DecodeSpec.supportedRec
  exact this

/-- three answers: `a. PTR b.a.`, `a. TYPE99 <5 opaque bytes>`, `a. PTR c.a.` — owners and targets compressed against
offset 12, the last record lying behind the unsupported one -/
def mixedWitness : Bytes :=
  [0, 0, 0x84, 0, 0, 0, 0, 3, 0, 0, 0, 0,
   1, 97, 0, 0, 12, 0, 1, 0, 0, 0, 120, 0, 4, 1, 98, 0xC0, 12,
   0xC0, 12, 0, 99, 0, 1, 0, 0, 0, 120, 0, 5, 1, 2, 3, 0xC0, 12,
   0xC0, 12, 0, 12, 0, 1, 0, 0, 0, 120, 0, 4, 1, 99, 0xC0, 12]

end Zc.Wire.DecodeLib
