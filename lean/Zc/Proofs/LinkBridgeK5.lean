import Zc.Proofs.LinkContracts
import Zc.Props.C04
/-! K5 (browser callbacks follow the host's cache) from the C04 / C05 / C06 models.

`C04_live_eq_cache`: after every history, "reported Added and not since Removed" = "the cache holds the pointer record".
Part A below turns "the cache holds the pointer record" into a closed form over the event history (`track`): the record's
(creation time, stored TTL) is set by the last datagram with a live copy, cleared by a goodbye copy and by a purge at or after
`created + 1000·ttl` — `C05`'s `PostState` and `C05_purge_exact` folded along the history. -/
namespace Zc.Bridge
open Zc

section
variable (lower : String → String)

/-- what one event does to the (creation time, stored TTL) of the cached record of identity `q`, when no cache-flush record of
`q`'s name/type/class arrives (pointer records are shared records) -/
def trackStep (q : Rec) (st : Option (Int × Nat)) : Event → Option (Int × Nat)
  | .datagram now recs =>
    match st with
    | some x =>
      if hasGoodbye lower recs q then none
      else match lastLive lower recs q with
        | some r => some (now, storedTtl r.type r.ttl)
        | none => some x
    | none => (lastLive lower recs q).map fun r => (now, storedTtl r.type r.ttl)
  | .purge now =>
    match st with
    | some (c, ttl) => if c + 1000 * (ttl : Int) ≤ now then none else some (c, ttl)
    | none => none

/-- the life of `q`'s cached record after a history, from an empty cache -/
def track (q : Rec) (evs : List Event) : Option (Int × Nat) := evs.foldl (trackStep lower q) none

def life (e : Rec) : Int × Nat := (e.created, e.ttl)

/-- no event of the history carries a cache-flush record of `q`'s name / type / class -/
def NoFlush (q : Rec) (evs : List Event) : Prop :=
  ∀ ev ∈ evs, match ev with
    | .datagram _ recs => ∀ u ∈ recs, u.unique = true → ¬ (lower u.name = lower q.name ∧ u.type = q.type ∧ u.class_ = q.class_)
    | .purge _ => True

variable {lower}

theorem wf_unique {s : List Rec} (hw : Flat.WF lower s) {x y : Rec} (hx : x ∈ s) (hy : y ∈ s)
    (h : x.ident lower = y.ident lower) : x = y := by
  unfold Flat.WF at hw
  induction s with
  | nil => cases hx
  | cons a l ih =>
    rw [List.pairwise_cons] at hw
    rcases List.mem_cons.mp hx with hxa | hx'
    · rcases List.mem_cons.mp hy with hya | hy'
      · rw [hxa, hya]
      · rw [hxa] at h; exact absurd h (hw.1 y hy')
    · rcases List.mem_cons.mp hy with hya | hy'
      · rw [hya] at h; exact absurd h.symm (hw.1 x hx')
      · exact ih hw.2 hx' hy'

theorem getUnique_filter_drop {s : List Rec} (hw : Flat.WF lower s) (p : Rec → Bool) {q e : Rec}
    (h : Flat.getUnique lower s q = some e) (hp : p e = false) : Flat.getUnique lower (s.filter p) q = none := by
  unfold Flat.getUnique
  rw [List.find?_filter, List.find?_eq_none]
  intro x hx hc
  have hc' : p x = true ∧ x.beq lower q = true := by simpa using hc
  obtain ⟨hpx, hb⟩ := hc'
  have hxi : x.ident lower = q.ident lower := (beq_iff_ident lower x q).1 hb
  have hei := Flat.getUnique_ident h
  have : x = e := wf_unique hw hx (Flat.getUnique_mem h) (hxi.trans hei.symm)
  rw [this, hp] at hpx
  cases hpx

theorem getUnique_filter_none {s : List Rec} (p : Rec → Bool) {q : Rec}
    (h : Flat.getUnique lower s q = none) : Flat.getUnique lower (s.filter p) q = none := by
  unfold Flat.getUnique at h ⊢
  rw [List.find?_filter, List.find?_eq_none]
  rw [List.find?_eq_none] at h
  intro x hx hc
  have hc' : p x = true ∧ x.beq lower q = true := by simpa using hc
  exact h x hx hc'.2

/-- one event, on the reference store -/
theorem trackStep_spec (q : Rec) (s : List Rec) (hw : Flat.WF lower s) (ev : Event)
    (hnf : match ev with
      | .datagram _ recs => ∀ u ∈ recs, u.unique = true → ¬ (lower u.name = lower q.name ∧ u.type = q.type ∧ u.class_ = q.class_)
      | .purge _ => True) :
    (Flat.getUnique lower (stepEvent lower (Flat.ops lower) s ev) q).map life
      = trackStep lower q ((Flat.getUnique lower s q).map life) ev := by
  cases ev with
  | datagram now recs =>
    simp only [] at hnf
    obtain ⟨o, ho, hpost⟩ := Flat.postState (lower := lower) s now recs
    simp only [stepEvent, ho]
    have hp := hpost q
    unfold PostState at hp
    cases hb : Flat.getUnique lower s q with
    | none =>
      rw [hb] at hp
      simp only [] at hp
      rw [hp]
      simp only [trackStep, Option.map_none, Option.map_map]
      cases lastLive lower recs q <;> rfl
    | some e =>
      rw [hb] at hp
      simp only [] at hp
      simp only [trackStep, Option.map_some]
      by_cases hg : hasGoodbye lower recs q = true
      · rw [if_pos hg] at hp
        rw [hp, if_pos hg]; rfl
      · rw [if_neg hg] at hp
        rw [if_neg hg]
        obtain ⟨e', he', hr⟩ := hp
        rw [he']
        unfold Refreshed at hr
        have hid := Flat.getUnique_ident hb
        rw [lastLive_congr recs hid] at hr
        cases hl : lastLive lower recs q with
        | some r =>
          rw [hl] at hr
          simp only [] at hr
          rw [hr]; rfl
        | none =>
          rw [hl] at hr
          simp only [] at hr
          have hnfl : ¬ Flushed lower now recs e := by
            rintro ⟨⟨u, hu, huq, hn, ht, hc⟩, _, _⟩
            exact hnf u hu huq ⟨hn.trans (ident_name lower hid), ht.trans (ident_type lower hid), hc.trans (ident_class lower hid)⟩
          rw [hr.2 hnfl]; rfl
  | purge now =>
    simp only [stepEvent, Flat.expire_eq hw now]
    cases hb : Flat.getUnique lower s q with
    | none =>
      rw [getUnique_filter_none _ hb]; rfl
    | some e =>
      simp only [trackStep, Option.map_some, life]
      by_cases hx : e.created + 1000 * (e.ttl : Int) ≤ now
      · rw [if_pos hx, getUnique_filter_drop hw _ hb (by simp [isExpired_iff, hx])]; rfl
      · rw [if_neg hx, Flat.getUnique_filter_keep s _ hb (by
          simp only [Bool.not_eq_true']
          rw [Bool.eq_false_iff, Ne, isExpired_iff]; exact hx)]
        rfl

theorem track_spec_aux (q : Rec) : ∀ (evs : List Event) (c : Cache) (s : List Rec), Refines lower c s → Flat.WF lower s →
    NoFlush lower q evs →
    (Flat.getUnique lower (runEvents lower (Flat.ops lower) s evs) q).map life
      = evs.foldl (trackStep lower q) ((Flat.getUnique lower s q).map life) := by
  intro evs
  induction evs with
  | nil => intro c s _ _ _; rfl
  | cons ev rest ih =>
    intro c s h hw hnf
    have hstep := trackStep_spec q s hw ev (hnf ev (by simp))
    have hnext := h.stepEvent hw ev
    simp only [runEvents, List.foldl_cons]
    rw [← hstep]
    exact ih _ _ hnext.1 hnext.2 (fun ev' hev' => hnf ev' (by simp [hev']))

variable (lower)

/-- **the cached record of an identity as a function of the event history** (C05's `PostState` and `C05_purge_exact` folded along
the history): after any datagrams and purges without a cache-flush record of `q`'s name / type / class, the cache holds a record of
identity `q` exactly when `track` says so, with that creation time and TTL -/
theorem cache_track (q : Rec) (evs : List Event) (hnf : NoFlush lower q evs) :
    ((cacheAfter lower evs).getUnique lower q).map life = track lower q evs := by
  rw [(C05_paths_agree lower evs).getUnique q]
  have := track_spec_aux (lower := lower) q evs {} [] (Refines.empty lower) (by simp [Flat.WF]) hnf
  simpa [specAfter, track, Flat.getUnique] using this

end
section
variable (lower : String → String) (possible : String → List String)

/-- **what a browser reports, as a function of the event history** (`C04_live_eq_cache` + `C04_run_cache` + `cache_track`): for a
browser created at `t0` after the history `pre`, then `evs`: the instance `a` of a browsed type `t` is reported (Added, not since
Removed) exactly when the last datagram of `pre ++ [purge t0] ++ evs` that changed the pointer record's life left it alive and no
purge at or after its expiry followed -/
theorem live_eq_track (types : List String) (pre : List Event) (t0 : Int) (evs : List Event)
    (hwf : WFHistory lower possible types pre evs) (t : String) (ht : t ∈ types) (a : String)
    (hnf : NoFlush lower (ptrRec t a) (pre ++ [.purge t0] ++ evs)) :
    reportedLive lower (browserRunFrom lower possible pre t0 types evs).batches t a
      = (track lower (ptrRec t a) (pre ++ [.purge t0] ++ evs)).isSome := by
  rw [C04_live_eq_cache lower possible types pre t0 evs hwf t ht a, C04_run_cache lower possible t0 hwf,
    ← cache_track lower (ptrRec t a) _ hnf]
  cases (cacheAfter lower (pre ++ [Event.purge t0] ++ evs)).getUnique lower (ptrRec t a) <;> rfl

end

/-! ### the link level -/

def evTime : Event → Int
  | .datagram now _ => now
  | .purge now => now

/-- the events up to the instant `T` -/
def cut (T : Int) (evs : List Event) : List Event := evs.filter fun ev => decide (evTime ev ≤ T)

/-- the instants at which K5 looks: the end of the window and every instant at which something relevant happened -/
def k5Instants (tr : Link.Trace) (endT : Int) : List Int := endT :: Link.dedupAdj ((tr.filter Link.relevantK5).map (·.t))

/-- the instances K5 looks at on a prefix of the trace: those a callback or a processed PTR mentions -/
def k5Svcs (p : Link.Trace) : List Link.Svc := Link.dedupSvc (Link.cbSvcs p ++ Link.dlvSvcs p)

/-- browser `b`, created at `tb`, and the cache of its host are a run of the C04 model (`browserRunFrom`) over the C05/C06 cache:
`pre` is what the cache saw before the browser existed, `evs` what came after.  `cb`, `cbOther`: the Added / Removed events of `b`
in the link trace up to any instant are the callbacks of the run on the events up to that instant (services of other types are
never reported).  `cache`: C05/C06's expiry semantics in link terms — when the link trace says the host holds the pointer (last
PTR processed positive and younger than its TTL) the record's life per `track` is running, and when `track` says it is running
the last PTR processed is positive and not older than its TTL plus one cleanup period (the periodic purge).  All clauses speak
about the instants and the instances K5 looks at (`k5Instants`, `k5Svcs`: finitely many, so the clauses can be evaluated on a
concrete trace; unbounded in `T` they would be contradictory as soon as the browser holds an instance at the end of the trace: the
model either purges the record some day — and reports Removed, which the finite trace never shows — or never does, and `track` runs
past every grace period). -/
structure CacheRun (tr : Link.Trace) (endT : Int) (tb : Int) (b : Link.Br) : Prop where
  ex : ∃ (lower : String → String) (possible : String → List String) (types : List String) (tyName : String)
      (aliasOf : Link.Svc → String) (pre evs : List Event),
    tyName ∈ types ∧ WFHistory lower possible types pre evs ∧
    (∀ s, NoFlush lower (ptrRec tyName (aliasOf s)) (pre ++ [.purge tb] ++ evs)) ∧
    (∀ T ∈ k5Instants tr endT, tb ≤ T → Link.neverClosed (tr.filter fun e => e.t ≤ T) b.host = true →
      ∀ s ∈ k5Svcs (tr.filter fun e => e.t ≤ T), s.ty = b.ty →
      Link.live (tr.filter fun e => e.t ≤ T) b s
        = reportedLive lower (browserRunFrom lower possible pre tb types (cut T evs)).batches tyName (aliasOf s)) ∧
    (∀ T ∈ k5Instants tr endT, tb ≤ T → Link.neverClosed (tr.filter fun e => e.t ≤ T) b.host = true →
      ∀ s ∈ k5Svcs (tr.filter fun e => e.t ≤ T), s.ty ≠ b.ty →
      Link.live (tr.filter fun e => e.t ≤ T) b s = false) ∧
    (∀ T ∈ k5Instants tr endT, tb ≤ T → Link.neverClosed (tr.filter fun e => e.t ≤ T) b.host = true →
      ∀ s ∈ k5Svcs (tr.filter fun e => e.t ≤ T), s.ty = b.ty →
      (Link.heldFresh Link.Cfg.paper (tr.filter fun e => e.t ≤ T) b.host s T = true →
        (track lower (ptrRec tyName (aliasOf s)) (pre ++ [.purge tb] ++ cut T evs)).isSome = true) ∧
      ((track lower (ptrRec tyName (aliasOf s)) (pre ++ [.purge tb] ++ cut T evs)).isSome = true →
        Link.heldGrace Link.Cfg.paper (tr.filter fun e => e.t ≤ T) b.host s T = true))

theorem mem_browses_filter (tr : Link.Trace) (T : Int) (x : Int × Link.Br)
    (h : x ∈ Link.browses (tr.filter fun e => e.t ≤ T)) : x ∈ Link.browses tr ∧ x.1 ≤ T := by
  obtain ⟨tb, b⟩ := x
  rw [Link.mem_browses] at h
  rw [List.mem_filter] at h
  exact ⟨Link.mem_browses.mpr h.1, by simpa using h.2⟩

/-- **K5 from the C04 / C05 / C06 models.** -/
theorem mem_dedupAdj : ∀ (l : List Int) (x : Int), x ∈ Link.dedupAdj l → x ∈ l
  | [], x, h => by simp [Link.dedupAdj] at h
  | [a], x, h => by simpa [Link.dedupAdj] using h
  | a :: b :: r, x, h => by
    unfold Link.dedupAdj at h
    split at h
    · exact List.mem_cons_of_mem _ (mem_dedupAdj (b :: r) x h)
    · rcases List.mem_cons.mp h with rfl | h
      · exact List.mem_cons_self
      · exact List.mem_cons_of_mem _ (mem_dedupAdj (b :: r) x h)

theorem K5_of_cacheRuns (tr : Link.Trace) (endT : Int)
    (hruns : ∀ x ∈ Link.browses tr, CacheRun tr endT x.1 x.2) :
    Link.K5 Link.Cfg.paper tr endT = true := by
  unfold Link.K5
  rw [List.all_eq_true]
  intro T hTmem
  unfold Link.k5At
  rw [List.all_eq_true]
  intro x hx
  obtain ⟨hxtr, hxT⟩ := mem_browses_filter tr T x hx
  cases hopen : Link.neverClosed (tr.filter fun e => e.t ≤ T) x.2.host with
  | false => rfl
  | true =>
    simp only [Bool.not_true, Bool.false_or]
    rw [List.all_eq_true]
    intro s hsmem
    obtain ⟨lower, possible, types, tyName, aliasOf, pre, evs, hty, hwf, hnf, hcb, hother, hcache⟩ := (hruns x hxtr).ex
    by_cases hs : s.ty = x.2.ty
    · have hwfT : WFHistory lower possible types pre (cut T evs) :=
        ⟨hwf.wfTypes, fun ev hev => hwf.events ev (by
          rcases List.mem_append.mp hev with h | h
          · exact List.mem_append_left _ h
          · exact List.mem_append_right _ (List.mem_filter.mp h).1)⟩
      have hnfT : NoFlush lower (ptrRec tyName (aliasOf s)) (pre ++ [.purge x.1] ++ cut T evs) := by
        intro ev hev
        apply hnf s ev
        rcases List.mem_append.mp hev with h | h
        · exact List.mem_append_left _ h
        · exact List.mem_append_right _ (List.mem_filter.mp h).1
      have hlive := hcb T hTmem hxT hopen s hsmem hs
      rw [live_eq_track lower possible types pre x.1 (cut T evs) hwfT tyName hty (aliasOf s) hnfT] at hlive
      obtain ⟨h1, h2⟩ := hcache T hTmem hxT hopen s hsmem hs
      have hsb : (s.ty == x.2.ty) = true := by simp [hs]
      rw [hsb, Bool.and_true, Bool.and_true, hlive]
      cases hf : Link.heldFresh Link.Cfg.paper (tr.filter fun e => e.t ≤ T) x.2.host s T with
      | true =>
        rw [h1 hf, h2 (h1 hf)]; rfl
      | false =>
        cases ht : (track lower (ptrRec tyName (aliasOf s)) (pre ++ [.purge x.1] ++ cut T evs)).isSome with
        | true => rw [h2 ht]; rfl
        | false => rfl
    · have hlive := hother T hTmem hxT hopen s hsmem hs
      have hsb : (s.ty == x.2.ty) = false := by simp [hs]
      rw [hsb, hlive]
      simp

/-! ### the `cache` clause of `CacheRun` from finer hypotheses

`scan` reads off a history what the link model looks at — the last datagram with a copy of the pointer record, its TTL and arrival
time — plus one bit: has a purge at or after its expiry happened since.  `track_scan` relates it to `track`; the two flag lemmas
relate the bit to the times of the purges. -/

section
variable (lower : String → String)

def scanStep (q : Rec) (st : Option (Nat × Int × Bool)) : Event → Option (Nat × Int × Bool)
  | .datagram now recs =>
    match copiesOf lower recs q with
    | [] => st
    | r :: _ => some (r.ttl, now, false)
  | .purge now =>
    st.map fun x => (x.1, x.2.1, x.2.2 || (decide (0 < x.1) && decide (x.2.1 + 1000 * (storedTtl 12 x.1 : Int) ≤ now)))

def scan (q : Rec) (evs : List Event) : Option (Nat × Int × Bool) := evs.foldl (scanStep lower q) none

/-- the record's life as `scan` sees it -/
def decode : Option (Nat × Int × Bool) → Option (Int × Nat)
  | some (ttl, t, p) => if 0 < ttl ∧ p = false then some (t, storedTtl 12 ttl) else none
  | none => none

/-- at most one copy of the pointer record per datagram -/
def OneCopy (q : Rec) (evs : List Event) : Prop :=
  ∀ ev ∈ evs, match ev with
    | .datagram _ recs => (copiesOf lower recs q).length ≤ 1
    | .purge _ => True

variable {lower}

theorem copies_type {q : Rec} {recs : List Rec} {r : Rec} (h : r ∈ copiesOf lower recs q) : r.type = q.type := by
  unfold copiesOf at h
  rw [List.mem_filter] at h
  exact ident_type lower (of_decide_eq_true h.2)

theorem step_decode (q : Rec) (hq : q.type = 12) (st : Option (Nat × Int × Bool)) (ev : Event)
    (hone : match ev with
      | .datagram _ recs => (copiesOf lower recs q).length ≤ 1
      | .purge _ => True) :
    trackStep lower q (decode st) ev = decode (scanStep lower q st ev) := by
  cases ev with
  | datagram now recs =>
    simp only [] at hone
    cases hc : copiesOf lower recs q with
    | nil =>
      have hg : hasGoodbye lower recs q = false := by simp [hasGoodbye, hc]
      have hl : lastLive lower recs q = none := by simp [lastLive, hc]
      simp only [scanStep, hc, trackStep, hg, hl, Bool.false_eq_true, if_false, Option.map_none]
      cases decode st <;> rfl
    | cons r rest =>
      have hrest : rest = [] := by
        rw [hc] at hone
        simp only [List.length_cons] at hone
        exact List.eq_nil_of_length_eq_zero (by omega)
      subst hrest
      have hrt : r.type = 12 := by rw [← hq]; exact copies_type (by rw [hc]; simp)
      simp only [scanStep, hc]
      generalize decode st = ds
      simp only [trackStep]
      by_cases h0 : r.ttl = 0
      · have hg : hasGoodbye lower recs q = true := by simp [hasGoodbye, hc, h0]
        have hl : lastLive lower recs q = none := by simp [lastLive, hc, h0]
        simp only [hg, hl, if_true, Option.map_none, decode, h0, Nat.lt_irrefl, false_and, if_false]
        cases ds <;> rfl
      · have hg : hasGoodbye lower recs q = false := by simp [hasGoodbye, hc, h0]
        have hl : lastLive lower recs q = some r := by simp [lastLive, hc, h0]
        have hpos : 0 < r.ttl := Nat.pos_of_ne_zero h0
        simp only [hg, hl, Bool.false_eq_true, if_false, Option.map_some, decode, hpos, true_and, if_true, hrt]
        cases ds <;> rfl
  | purge now =>
    cases st with
    | none => rfl
    | some x =>
      obtain ⟨ttl, t, p⟩ := x
      simp only [scanStep, Option.map_some, decode]
      by_cases hcond : 0 < ttl ∧ p = false
      · obtain ⟨hpos, hp⟩ := hcond
        subst hp
        simp only [hpos, true_and, if_true, trackStep, Bool.false_or, decide_true, Bool.true_and]
        by_cases hx : t + 1000 * (storedTtl 12 ttl : Int) ≤ now
        · simp [hx]
        · simp [hx]
      · rw [if_neg hcond]
        simp only [trackStep]
        by_cases hpos : 0 < ttl
        · have hp : p = true := by
            cases p with
            | true => rfl
            | false => exact absurd ⟨hpos, rfl⟩ hcond
          subst hp
          simp
        · simp [hpos]

theorem foldl_decode (q : Rec) (hq : q.type = 12) : ∀ (evs : List Event) (st : Option (Nat × Int × Bool)), OneCopy lower q evs →
    evs.foldl (trackStep lower q) (decode st) = decode (evs.foldl (scanStep lower q) st) := by
  intro evs
  induction evs with
  | nil => intro st _; rfl
  | cons ev rest ih =>
    intro st hone
    simp only [List.foldl_cons]
    rw [step_decode q hq st ev (hone ev (by simp))]
    exact ih _ (fun ev' hev' => hone ev' (by simp [hev']))

/-- `track` through `scan` -/
theorem track_scan (q : Rec) (hq : q.type = 12) (evs : List Event) (hone : OneCopy lower q evs) :
    track lower q evs = decode (scan lower q evs) :=
  foldl_decode q hq evs none hone

theorem snoc_ind {α : Type} {P : List α → Prop} (hnil : P []) (hsnoc : ∀ l a, P l → P (l ++ [a])) : ∀ l, P l := by
  intro l
  rw [← List.reverse_reverse l]
  induction l.reverse with
  | nil => exact hnil
  | cons a t ih => rw [List.reverse_cons]; exact hsnoc _ _ ih

theorem scan_snoc (q : Rec) (l : List Event) (ev : Event) :
    scan lower q (l ++ [ev]) = scanStep lower q (scan lower q l) ev := by
  simp [scan, List.foldl_append]

/-- the bit is set only by a purge at or after the expiry -/
theorem scan_flag_purge (q : Rec) : ∀ (evs : List Event) (ttl : Nat) (t : Int),
    scan lower q evs = some (ttl, t, true) → ∃ now, Event.purge now ∈ evs ∧ t + 1000 * (storedTtl 12 ttl : Int) ≤ now := by
  intro evs
  induction evs using snoc_ind with
  | hnil => intro ttl t h; simp [scan] at h
  | hsnoc l ev ih =>
    intro ttl t h
    rw [scan_snoc] at h
    cases ev with
    | datagram now recs =>
      simp only [scanStep] at h
      split at h
      · obtain ⟨now', hm, hle⟩ := ih ttl t h
        exact ⟨now', List.mem_append_left _ hm, hle⟩
      · simp at h
    | purge now =>
      simp only [scanStep] at h
      cases hs : scan lower q l with
      | none => rw [hs] at h; simp at h
      | some x =>
        obtain ⟨ttl', t', p'⟩ := x
        rw [hs] at h
        simp only [Option.map_some, Option.some.injEq, Prod.mk.injEq, Bool.or_eq_true, Bool.and_eq_true, decide_eq_true_eq] at h
        obtain ⟨rfl, rfl, hp⟩ := h
        rcases hp with hp | ⟨_, hp⟩
        · subst hp
          obtain ⟨now', hm, hle⟩ := ih ttl' t' hs
          exact ⟨now', List.mem_append_left _ hm, hle⟩
        · exact ⟨now, by simp, hp⟩

/-- in a history sorted in time, a purge at or after the expiry of the last copy sets the bit -/
theorem scan_purge_flag (q : Rec) : ∀ (evs : List Event), evs.Pairwise (fun a b => evTime a ≤ evTime b) →
    ∀ (ttl : Nat) (t : Int) (p : Bool), scan lower q evs = some (ttl, t, p) → 0 < ttl →
    ∀ now, Event.purge now ∈ evs → t + 1000 * (storedTtl 12 ttl : Int) ≤ now → p = true := by
  intro evs
  induction evs using snoc_ind with
  | hnil => intro _ ttl t p h; simp [scan] at h
  | hsnoc l ev ih =>
    intro hsorted ttl t p h hpos now hmem hle
    rw [List.pairwise_append] at hsorted
    obtain ⟨hsl, _, hlast⟩ := hsorted
    rw [scan_snoc] at h
    cases ev with
    | datagram now' recs =>
      simp only [scanStep] at h
      have hml : Event.purge now ∈ l := by
        rcases List.mem_append.mp hmem with hm | hm
        · exact hm
        · simp at hm
      cases hc : copiesOf lower recs q with
      | nil =>
        rw [hc] at h
        exact ih hsl ttl t p h hpos now hml hle
      | cons r tl =>
        rw [hc] at h
        simp only [Option.some.injEq, Prod.mk.injEq] at h
        obtain ⟨h1, h2, _⟩ := h
        exfalso
        have := hlast _ hml (Event.datagram now' recs) (by simp)
        simp only [evTime] at this
        have hS : 0 < storedTtl 12 ttl := by
          unfold storedTtl; split <;> omega
        have e2 : (t : Int) = now' := h2.symm
        have a1 : (now : Int) ≤ now' := this
        have a2 : (t : Int) + 1000 * (storedTtl 12 ttl : Int) ≤ now := hle
        omega
    | purge now' =>
      simp only [scanStep] at h
      cases hs : scan lower q l with
      | none => rw [hs] at h; simp at h
      | some x =>
        obtain ⟨ttl', t', p'⟩ := x
        rw [hs] at h
        simp only [Option.map_some, Option.some.injEq, Prod.mk.injEq] at h
        obtain ⟨rfl, rfl, hp⟩ := h
        rcases List.mem_append.mp hmem with hm | hm
        · have := ih hsl ttl' t' p' hs hpos now hm hle
          rw [← hp, this]; rfl
        · simp only [List.mem_singleton, Event.purge.injEq] at hm
          subst hm
          rw [← hp]
          simp [hpos, hle]

end

theorem effTtl_stored (ttl : Nat) (h : 0 < ttl) : Link.effTtl Link.Cfg.paper ttl = 1000 * (storedTtl 12 ttl : Int) := by
  unfold Link.effTtl storedTtl
  show ((max ttl 1125 : Nat) : Int) * 1000 = _
  split
  · rename_i hc
    have : max ttl 1125 = 1125 := Nat.max_eq_right (by omega)
    rw [this]; omega
  · rename_i hc
    have : max ttl 1125 = ttl := Nat.max_eq_left (by omega)
    rw [this]; omega

/-- **C05/C06's expiry semantics in link terms** — the `cache` clause of `CacheRun` — from: the last PTR the link trace shows the
host processing is the last datagram of the history with a copy of the pointer record (`hagree`); at most one copy per datagram;
the history is sorted in time and does not go beyond `T`; and the periodic purge: after any instant `x ≥ tb` a purge within one
cleanup period (`hpurge`; the purge at the browser's creation `tb` covers expiries before it). -/
theorem cache_clause (lower : String → String) (p : Link.Trace) (h : Nat) (s : Link.Svc) (T tb : Int) (q : Rec) (hq : q.type = 12)
    (pre evsT : List Event) (hone : OneCopy lower q (pre ++ [Event.purge tb] ++ evsT))
    (hsorted : (pre ++ [Event.purge tb] ++ evsT).Pairwise (fun a b => evTime a ≤ evTime b))
    (htimes : ∀ ev ∈ pre ++ [Event.purge tb] ++ evsT, evTime ev ≤ T)
    (hagree : Link.lastSome (Link.heldEv h s) p = (scan lower q (pre ++ [Event.purge tb] ++ evsT)).map fun x => (x.1, x.2.1))
    (hpurge : ∀ x, tb ≤ x → x + 10000 ≤ T → ∃ now, x ≤ now ∧ Event.purge now ∈ evsT) :
    (Link.heldFresh Link.Cfg.paper p h s T = true → (track lower q (pre ++ [Event.purge tb] ++ evsT)).isSome = true) ∧
    ((track lower q (pre ++ [Event.purge tb] ++ evsT)).isSome = true → Link.heldGrace Link.Cfg.paper p h s T = true) := by
  rw [track_scan q hq _ hone]
  unfold Link.heldFresh Link.heldGrace Link.held Link.unexpired
  rw [hagree]
  cases hs : scan lower q (pre ++ [Event.purge tb] ++ evsT) with
  | none => simp [decode]
  | some x =>
    obtain ⟨ttl, t, pf⟩ := x
    simp only [Option.map_some, decode, Bool.and_eq_true, decide_eq_true_eq]
    constructor
    · rintro ⟨hpos, hun⟩
      have hpf : pf = false := by
        cases pf with
        | false => rfl
        | true =>
          exfalso
          obtain ⟨now, hm, hle⟩ := scan_flag_purge q _ ttl t hs
          have := htimes _ hm
          simp only [evTime] at this
          rw [effTtl_stored ttl hpos] at hun
          have a1 : (now : Int) ≤ T := this
          have a2 : (t : Int) + 1000 * (storedTtl 12 ttl : Int) ≤ now := hle
          have a3 : T < (t : Int) + 1000 * (storedTtl 12 ttl : Int) + 0 := hun
          omega
      simp [hpos, hpf]
    · intro hsome
      have hcond : 0 < ttl ∧ pf = false := by
        by_cases hc : 0 < ttl ∧ pf = false
        · exact hc
        · rw [if_neg hc] at hsome; cases hsome
      obtain ⟨hpos, hpf⟩ := hcond
      refine ⟨hpos, ?_⟩
      rw [effTtl_stored ttl hpos]
      show T < t + 1000 * (storedTtl 12 ttl : Int) + 10000
      apply Int.lt_of_not_ge
      intro hge
      -- a purge at or after the expiry
      have hex : ∃ now, Event.purge now ∈ pre ++ [Event.purge tb] ++ evsT ∧ t + 1000 * (storedTtl 12 ttl : Int) ≤ now := by
        by_cases hx : tb ≤ t + 1000 * (storedTtl 12 ttl : Int)
        · obtain ⟨now, h1, h2⟩ := hpurge _ hx (by omega)
          exact ⟨now, List.mem_append_right _ h2, h1⟩
        · exact ⟨tb, by simp, by
            show (t : Int) + 1000 * (storedTtl 12 ttl : Int) ≤ tb
            have : ¬ (tb : Int) ≤ (t : Int) + 1000 * (storedTtl 12 ttl : Int) := hx
            omega⟩
      obtain ⟨now, hm, hle⟩ := hex
      have := scan_purge_flag q _ hsorted ttl t pf hs hpos now hm hle
      rw [hpf] at this
      cases this

/-- `CacheRun` with its `cache` clause replaced by what it follows from: the PTRs the link trace shows the host processing are the
datagrams of the history that carry a copy of the pointer record (`dlv`, instant by instant); at most one copy per datagram; the
history is sorted in time; and the periodic purge runs: after any instant `x ≥ tb` there is a purge within one cleanup period -/
structure CacheRunFine (tr : Link.Trace) (endT : Int) (tb : Int) (b : Link.Br) : Prop where
  ex : ∃ (lower : String → String) (possible : String → List String) (types : List String) (tyName : String)
      (aliasOf : Link.Svc → String) (pre evs : List Event),
    tyName ∈ types ∧ WFHistory lower possible types pre evs ∧
    (∀ s, NoFlush lower (ptrRec tyName (aliasOf s)) (pre ++ [Event.purge tb] ++ evs)) ∧
    (∀ T s, tb ≤ T → T ≤ endT → Link.neverClosed (tr.filter fun e => e.t ≤ T) b.host = true → s.ty = b.ty →
      Link.live (tr.filter fun e => e.t ≤ T) b s
        = reportedLive lower (browserRunFrom lower possible pre tb types (cut T evs)).batches tyName (aliasOf s)) ∧
    (∀ T s, tb ≤ T → T ≤ endT → Link.neverClosed (tr.filter fun e => e.t ≤ T) b.host = true → s.ty ≠ b.ty →
      Link.live (tr.filter fun e => e.t ≤ T) b s = false) ∧
    (∀ s, OneCopy lower (ptrRec tyName (aliasOf s)) (pre ++ [Event.purge tb] ++ evs)) ∧
    (pre ++ [Event.purge tb] ++ evs).Pairwise (fun x y => evTime x ≤ evTime y) ∧
    (∀ T s, tb ≤ T → T ≤ endT → Link.neverClosed (tr.filter fun e => e.t ≤ T) b.host = true → s.ty = b.ty →
      Link.lastSome (Link.heldEv b.host s) (tr.filter fun e => e.t ≤ T)
        = (scan lower (ptrRec tyName (aliasOf s)) (pre ++ [Event.purge tb] ++ cut T evs)).map fun x => (x.1, x.2.1)) ∧
    (∀ x T, tb ≤ x → x + 10000 ≤ T → T ≤ endT → Link.neverClosed (tr.filter fun e => e.t ≤ T) b.host = true →
      ∃ now, x ≤ now ∧ now ≤ T ∧ Event.purge now ∈ evs)

theorem CacheRun_of_fine (tr : Link.Trace) (endT : Int) (hle : ∀ e ∈ tr, e.t ≤ endT) (tb : Int) (b : Link.Br) (h : CacheRunFine tr endT tb b) :
    CacheRun tr endT tb b := by
  obtain ⟨lower, possible, types, tyName, aliasOf, pre, evs, hty, hwf, hnf, hcb, hother, hone, hsorted, hdlv, hpurge⟩ := h.ex
  have hend : ∀ T ∈ k5Instants tr endT, T ≤ endT := by
    intro T hTmem
    rcases List.mem_cons.mp hTmem with rfl | h
    · exact Int.le_refl _
    · have := mem_dedupAdj _ _ h
      rw [List.mem_map] at this
      obtain ⟨e, he, rfl⟩ := this
      exact hle e (List.mem_filter.mp he).1
  refine ⟨⟨lower, possible, types, tyName, aliasOf, pre, evs, hty, hwf, hnf,
    fun T hTm hT hopen s _ hs => hcb T s hT (hend T hTm) hopen hs, fun T hTm hT hopen s _ hs => hother T s hT (hend T hTm) hopen hs, ?_⟩⟩
  intro T hTm hT hopen s _ hs
  have hTe := hend T hTm
  have hsub : (pre ++ [Event.purge tb] ++ cut T evs).Sublist (pre ++ [Event.purge tb] ++ evs) :=
    List.Sublist.append (List.Sublist.refl _) List.filter_sublist
  apply cache_clause lower _ b.host s T tb (ptrRec tyName (aliasOf s)) rfl pre (cut T evs)
  · intro ev hev
    exact hone s ev (hsub.subset hev)
  · exact hsorted.sublist hsub
  · intro ev hev
    rcases List.mem_append.mp hev with hev | hev
    · rcases List.mem_append.mp hev with hev | hev
      · have hp := hsorted
        rw [List.append_assoc, List.pairwise_append] at hp
        have := hp.2.2 ev hev (Event.purge tb) (by simp)
        simp only [evTime] at this ⊢
        omega
      · simp only [List.mem_singleton] at hev
        subst hev
        exact hT
    · have := (List.mem_filter.mp hev).2
      simpa using this
  · exact hdlv T s hT hTe hopen hs
  · intro x hx hxT
    obtain ⟨now, h1, h2, h3⟩ := hpurge x T hx hxT hTe hopen
    exact ⟨now, h1, List.mem_filter.mpr ⟨h3, decide_eq_true h2⟩⟩

end Zc.Bridge
