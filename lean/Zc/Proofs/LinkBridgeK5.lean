import Zc.Proofs.LinkContracts
import Zc.Props.C04
/-! K5 (browser callbacks follow the host's cache) from the C04 / C05 / C06 models.

`C04_live_eq_cache`: after every history, "reported Added and not since Removed" = "the cache holds the pointer record".
Part A below turns "the cache holds the pointer record" into a closed form over the event history (`track`): the record's
(creation time, stored TTL) is set by the last datagram with a live copy, cleared by a goodbye copy and by a purge at or after
`created + 1000·ttl` — `C05`'s `PostState` and `C05_purge_exact` folded along the history. -/
namespace Zc.Bridge
open Zc

section
variable (lower : String → String)

/-- what one event does to the (creation time, stored TTL) of the cached record of identity `q`, when no cache-flush record of
`q`'s name/type/class arrives (pointer records are shared records) -/
def trackStep (q : Rec) (st : Option (Ms × Nat)) : Event → Option (Ms × Nat)
  | .datagram now recs =>
    match st with
    | some x =>
      if hasGoodbye lower recs q then none
      else match lastLive lower recs q with
        | some r => some (now, storedTtl r.type r.ttl)
        | none => some x
    | none => (lastLive lower recs q).map fun r => (now, storedTtl r.type r.ttl)
  | .purge now =>
    match st with
    | some (c, ttl) => if c + 1000 * (ttl : Int) ≤ now then none else some (c, ttl)
    | none => none

/-- the life of `q`'s cached record after a history, from an empty cache -/
def track (q : Rec) (evs : List Event) : Option (Ms × Nat) := evs.foldl (trackStep lower q) none

def life (e : Rec) : Ms × Nat := (e.created, e.ttl)

/-- no event of the history carries a cache-flush record of `q`'s name / type / class -/
def NoFlush (q : Rec) (evs : List Event) : Prop :=
  ∀ ev ∈ evs, match ev with
    | .datagram _ recs => ∀ u ∈ recs, u.unique = true → ¬ (lower u.name = lower q.name ∧ u.type = q.type ∧ u.class_ = q.class_)
    | .purge _ => True

variable {lower}

theorem wf_unique {s : List Rec} (hw : Flat.WF lower s) {x y : Rec} (hx : x ∈ s) (hy : y ∈ s)
    (h : x.ident lower = y.ident lower) : x = y := by
  unfold Flat.WF at hw
  induction s with
  | nil => cases hx
  | cons a l ih =>
    rw [List.pairwise_cons] at hw
    rcases List.mem_cons.mp hx with hxa | hx'
    · rcases List.mem_cons.mp hy with hya | hy'
      · rw [hxa, hya]
      · rw [hxa] at h; exact absurd h (hw.1 y hy')
    · rcases List.mem_cons.mp hy with hya | hy'
      · rw [hya] at h; exact absurd h.symm (hw.1 x hx')
      · exact ih hw.2 hx' hy'

theorem getUnique_filter_drop {s : List Rec} (hw : Flat.WF lower s) (p : Rec → Bool) {q e : Rec}
    (h : Flat.getUnique lower s q = some e) (hp : p e = false) : Flat.getUnique lower (s.filter p) q = none := by
  unfold Flat.getUnique
  rw [List.find?_filter, List.find?_eq_none]
  intro x hx hc
  have hc' : p x = true ∧ x.beq lower q = true := by simpa using hc
  obtain ⟨hpx, hb⟩ := hc'
  have hxi : x.ident lower = q.ident lower := (beq_iff_ident lower x q).1 hb
  have hei := Flat.getUnique_ident h
  have : x = e := wf_unique hw hx (Flat.getUnique_mem h) (hxi.trans hei.symm)
  rw [this, hp] at hpx
  cases hpx

theorem getUnique_filter_none {s : List Rec} (p : Rec → Bool) {q : Rec}
    (h : Flat.getUnique lower s q = none) : Flat.getUnique lower (s.filter p) q = none := by
  unfold Flat.getUnique at h ⊢
  rw [List.find?_filter, List.find?_eq_none]
  rw [List.find?_eq_none] at h
  intro x hx hc
  have hc' : p x = true ∧ x.beq lower q = true := by simpa using hc
  exact h x hx hc'.2

/-- one event, on the reference store -/
theorem trackStep_spec (q : Rec) (s : List Rec) (hw : Flat.WF lower s) (ev : Event)
    (hnf : match ev with
      | .datagram _ recs => ∀ u ∈ recs, u.unique = true → ¬ (lower u.name = lower q.name ∧ u.type = q.type ∧ u.class_ = q.class_)
      | .purge _ => True) :
    (Flat.getUnique lower (stepEvent lower (Flat.ops lower) s ev) q).map life
      = trackStep lower q ((Flat.getUnique lower s q).map life) ev := by
  cases ev with
  | datagram now recs =>
    simp only [] at hnf
    obtain ⟨o, ho, hpost⟩ := Flat.postState (lower := lower) s now recs
    simp only [stepEvent, ho]
    have hp := hpost q
    unfold PostState at hp
    cases hb : Flat.getUnique lower s q with
    | none =>
      rw [hb] at hp
      simp only [] at hp
      rw [hp]
      simp only [trackStep, Option.map_none, Option.map_map]
      cases lastLive lower recs q <;> rfl
    | some e =>
      rw [hb] at hp
      simp only [] at hp
      simp only [trackStep, Option.map_some]
      by_cases hg : hasGoodbye lower recs q = true
      · rw [if_pos hg] at hp
        rw [hp, if_pos hg]; rfl
      · rw [if_neg hg] at hp
        rw [if_neg hg]
        obtain ⟨e', he', hr⟩ := hp
        rw [he']
        unfold Refreshed at hr
        have hid := Flat.getUnique_ident hb
        rw [lastLive_congr recs hid] at hr
        cases hl : lastLive lower recs q with
        | some r =>
          rw [hl] at hr
          simp only [] at hr
          rw [hr]; rfl
        | none =>
          rw [hl] at hr
          simp only [] at hr
          have hnfl : ¬ Flushed lower now recs e := by
            rintro ⟨⟨u, hu, huq, hn, ht, hc⟩, _, _⟩
            exact hnf u hu huq ⟨hn.trans (ident_name lower hid), ht.trans (ident_type lower hid), hc.trans (ident_class lower hid)⟩
          rw [hr.2 hnfl]; rfl
  | purge now =>
    simp only [stepEvent, Flat.expire_eq hw now]
    cases hb : Flat.getUnique lower s q with
    | none =>
      rw [getUnique_filter_none _ hb]; rfl
    | some e =>
      simp only [trackStep, Option.map_some, life]
      by_cases hx : e.created + 1000 * (e.ttl : Int) ≤ now
      · rw [if_pos hx, getUnique_filter_drop hw _ hb (by simp [isExpired_iff, hx])]; rfl
      · rw [if_neg hx, Flat.getUnique_filter_keep s _ hb (by
          simp only [Bool.not_eq_true']
          rw [Bool.eq_false_iff, Ne, isExpired_iff]; exact hx)]
        rfl

theorem track_spec_aux (q : Rec) : ∀ (evs : List Event) (c : Cache) (s : List Rec), Refines lower c s → Flat.WF lower s →
    NoFlush lower q evs →
    (Flat.getUnique lower (runEvents lower (Flat.ops lower) s evs) q).map life
      = evs.foldl (trackStep lower q) ((Flat.getUnique lower s q).map life) := by
  intro evs
  induction evs with
  | nil => intro c s _ _ _; rfl
  | cons ev rest ih =>
    intro c s h hw hnf
    have hstep := trackStep_spec q s hw ev (hnf ev (by simp))
    have hnext := h.stepEvent hw ev
    simp only [runEvents, List.foldl_cons]
    rw [← hstep]
    exact ih _ _ hnext.1 hnext.2 (fun ev' hev' => hnf ev' (by simp [hev']))

variable (lower)

/-- **the cached record of an identity as a function of the event history** (C05's `PostState` and `C05_purge_exact` folded along
the history): after any datagrams and purges without a cache-flush record of `q`'s name / type / class, the cache holds a record of
identity `q` exactly when `track` says so, with that creation time and TTL -/
theorem cache_track (q : Rec) (evs : List Event) (hnf : NoFlush lower q evs) :
    ((cacheAfter lower evs).getUnique lower q).map life = track lower q evs := by
  rw [(C05_paths_agree lower evs).getUnique q]
  have := track_spec_aux (lower := lower) q evs {} [] (Refines.empty lower) (by simp [Flat.WF]) hnf
  simpa [specAfter, track, Flat.getUnique] using this

end
section
variable (lower : String → String) (possible : String → List String)

/-- **what a browser reports, as a function of the event history** (`C04_live_eq_cache` + `C04_run_cache` + `cache_track`): for a
browser created at `t0` after the history `pre`, then `evs`: the instance `a` of a browsed type `t` is reported (Added, not since
Removed) exactly when the last datagram of `pre ++ [purge t0] ++ evs` that changed the pointer record's life left it alive and no
purge at or after its expiry followed -/
theorem live_eq_track (types : List String) (pre : List Event) (t0 : Ms) (evs : List Event)
    (hwf : WFHistory lower possible types pre evs) (t : String) (ht : t ∈ types) (a : String)
    (hnf : NoFlush lower (ptrRec t a) (pre ++ [.purge t0] ++ evs)) :
    reportedLive lower (browserRunFrom lower possible pre t0 types evs).batches t a
      = (track lower (ptrRec t a) (pre ++ [.purge t0] ++ evs)).isSome := by
  rw [C04_live_eq_cache lower possible types pre t0 evs hwf t ht a, C04_run_cache lower possible t0 hwf,
    ← cache_track lower (ptrRec t a) _ hnf]
  cases (cacheAfter lower (pre ++ [Event.purge t0] ++ evs)).getUnique lower (ptrRec t a) <;> rfl

end

/-! ### the link level -/

def evTime : Event → Ms
  | .datagram now _ => now
  | .purge now => now

/-- the events up to the instant `T` -/
def cut (T : Int) (evs : List Event) : List Event := evs.filter fun ev => decide (evTime ev ≤ T)

/-- browser `b`, created at `tb`, and the cache of its host are a run of the C04 model (`browserRunFrom`) over the C05/C06 cache:
`pre` is what the cache saw before the browser existed, `evs` what came after.  `cb`, `cbOther`: the Added / Removed events of `b`
in the link trace up to any instant are the callbacks of the run on the events up to that instant (services of other types are
never reported).  `cache`: C05/C06's expiry semantics in link terms — when the link trace says the host holds the pointer (last
PTR processed positive and younger than its TTL) the record's life per `track` is running, and when `track` says it is running
the last PTR processed is positive and not older than its TTL plus one cleanup period (the periodic purge). -/
structure CacheRun (tr : Link.Trace) (tb : Int) (b : Link.Br) : Prop where
  ex : ∃ (lower : String → String) (possible : String → List String) (types : List String) (tyName : String)
      (aliasOf : Link.Svc → String) (pre evs : List Event),
    tyName ∈ types ∧ WFHistory lower possible types pre evs ∧
    (∀ s, NoFlush lower (ptrRec tyName (aliasOf s)) (pre ++ [.purge tb] ++ evs)) ∧
    (∀ T s, tb ≤ T → Link.neverClosed (tr.filter fun e => e.t ≤ T) b.host = true → s.ty = b.ty →
      Link.live (tr.filter fun e => e.t ≤ T) b s
        = reportedLive lower (browserRunFrom lower possible pre tb types (cut T evs)).batches tyName (aliasOf s)) ∧
    (∀ T s, tb ≤ T → Link.neverClosed (tr.filter fun e => e.t ≤ T) b.host = true → s.ty ≠ b.ty →
      Link.live (tr.filter fun e => e.t ≤ T) b s = false) ∧
    (∀ T s, tb ≤ T → Link.neverClosed (tr.filter fun e => e.t ≤ T) b.host = true → s.ty = b.ty →
      (Link.heldFresh Link.Cfg.paper (tr.filter fun e => e.t ≤ T) b.host s T = true →
        (track lower (ptrRec tyName (aliasOf s)) (pre ++ [.purge tb] ++ cut T evs)).isSome = true) ∧
      ((track lower (ptrRec tyName (aliasOf s)) (pre ++ [.purge tb] ++ cut T evs)).isSome = true →
        Link.heldGrace Link.Cfg.paper (tr.filter fun e => e.t ≤ T) b.host s T = true))

theorem mem_browses_filter (tr : Link.Trace) (T : Int) (x : Int × Link.Br)
    (h : x ∈ Link.browses (tr.filter fun e => e.t ≤ T)) : x ∈ Link.browses tr ∧ x.1 ≤ T := by
  obtain ⟨tb, b⟩ := x
  rw [Link.mem_browses] at h
  rw [List.mem_filter] at h
  exact ⟨Link.mem_browses.mpr h.1, by simpa using h.2⟩

/-- **K5 from the C04 / C05 / C06 models.** -/
theorem K5_of_cacheRuns (tr : Link.Trace) (endT : Int) (hruns : ∀ x ∈ Link.browses tr, CacheRun tr x.1 x.2) :
    Link.K5 Link.Cfg.paper tr endT = true := by
  unfold Link.K5
  rw [List.all_eq_true]
  intro T _
  unfold Link.k5At
  rw [List.all_eq_true]
  intro x hx
  obtain ⟨hxtr, hxT⟩ := mem_browses_filter tr T x hx
  cases hopen : Link.neverClosed (tr.filter fun e => e.t ≤ T) x.2.host with
  | false => rfl
  | true =>
    simp only [Bool.not_true, Bool.false_or]
    rw [List.all_eq_true]
    intro s _
    obtain ⟨lower, possible, types, tyName, aliasOf, pre, evs, hty, hwf, hnf, hcb, hother, hcache⟩ := (hruns x hxtr).ex
    by_cases hs : s.ty = x.2.ty
    · have hwfT : WFHistory lower possible types pre (cut T evs) :=
        ⟨hwf.wfTypes, fun ev hev => hwf.events ev (by
          rcases List.mem_append.mp hev with h | h
          · exact List.mem_append_left _ h
          · exact List.mem_append_right _ (List.mem_filter.mp h).1)⟩
      have hnfT : NoFlush lower (ptrRec tyName (aliasOf s)) (pre ++ [.purge x.1] ++ cut T evs) := by
        intro ev hev
        apply hnf s ev
        rcases List.mem_append.mp hev with h | h
        · exact List.mem_append_left _ h
        · exact List.mem_append_right _ (List.mem_filter.mp h).1
      have hlive := hcb T s hxT hopen hs
      rw [live_eq_track lower possible types pre x.1 (cut T evs) hwfT tyName hty (aliasOf s) hnfT] at hlive
      obtain ⟨h1, h2⟩ := hcache T s hxT hopen hs
      have hsb : (s.ty == x.2.ty) = true := by simp [hs]
      rw [hsb, Bool.and_true, Bool.and_true, hlive]
      cases hf : Link.heldFresh Link.Cfg.paper (tr.filter fun e => e.t ≤ T) x.2.host s T with
      | true =>
        rw [h1 hf, h2 (h1 hf)]; rfl
      | false =>
        cases ht : (track lower (ptrRec tyName (aliasOf s)) (pre ++ [.purge x.1] ++ cut T evs)).isSome with
        | true => rw [h2 ht]; rfl
        | false => rfl
    · have hlive := hother T s hxT hopen hs
      have hsb : (s.ty == x.2.ty) = false := by simp [hs]
      rw [hsb, hlive]
      simp

end Zc.Bridge
