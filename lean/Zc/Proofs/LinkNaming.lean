/-! An injective numbering of strings, for the non-vacuity examples of the bridges (`Bridge.Naming` asks for injective numberings of
type and instance names): a string is the list of its code points, a list of numbers `[c₀, c₁, …]` is `2^c₀ · (2 · enc [c₁, …] + 1)`. -/
namespace Zc.Bridge

theorem pow2_odd_inj : ∀ (c d a b : Nat), 2 ^ c * (2 * a + 1) = 2 ^ d * (2 * b + 1) → c = d ∧ a = b := by
  intro c
  induction c with
  | zero =>
    intro d a b h
    cases d with
    | zero => simp at h; exact ⟨rfl, by omega⟩
    | succ d =>
      exfalso
      rw [Nat.pow_succ, Nat.mul_comm (2 ^ d) 2, Nat.mul_assoc] at h
      generalize 2 ^ d * (2 * b + 1) = y at h
      simp at h; omega
  | succ c ih =>
    intro d a b h
    cases d with
    | zero =>
      exfalso
      rw [Nat.pow_succ, Nat.mul_comm (2 ^ c) 2, Nat.mul_assoc] at h
      generalize 2 ^ c * (2 * a + 1) = y at h
      simp at h; omega
    | succ d =>
      rw [Nat.pow_succ, Nat.pow_succ, Nat.mul_comm (2 ^ c) 2, Nat.mul_comm (2 ^ d) 2, Nat.mul_assoc, Nat.mul_assoc] at h
      have : 2 ^ c * (2 * a + 1) = 2 ^ d * (2 * b + 1) := by omega
      obtain ⟨h1, h2⟩ := ih d a b this
      exact ⟨by rw [h1], h2⟩

def encL : List Nat → Nat
  | [] => 0
  | c :: l => 2 ^ c * (2 * encL l + 1)

theorem encL_pos (c : Nat) (l : List Nat) : 0 < encL (c :: l) := by
  simp only [encL]
  exact Nat.mul_pos (Nat.two_pow_pos c) (by omega)

theorem encL_inj : ∀ l m : List Nat, encL l = encL m → l = m := by
  intro l
  induction l with
  | nil =>
    intro m h
    cases m with
    | nil => rfl
    | cons d m => have := encL_pos d m; simp only [encL] at h this; omega
  | cons c l ih =>
    intro m h
    cases m with
    | nil => have := encL_pos c l; simp only [encL] at h this; omega
    | cons d m =>
      simp only [encL] at h
      obtain ⟨h1, h2⟩ := pow2_odd_inj _ _ _ _ h
      rw [h1, ih m h2]

/-- an injective numbering of strings -/
def encS (s : String) : Nat := encL (s.toList.map Char.toNat)

theorem encS_inj : Function.Injective encS := by
  intro a b h
  unfold encS at h
  have h1 := encL_inj _ _ h
  have h2 : a.toList = b.toList := (List.map_inj_right (fun x y hxy => Char.toNat_inj.mp hxy)).mp h1
  exact String.toList_inj.mp h2

end Zc.Bridge
