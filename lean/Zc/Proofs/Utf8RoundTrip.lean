import Zc.Model.Utf8
/-! `decodeReplace ∘ encode = id` on Unicode scalar values — what CPython guarantees of
`s.encode('utf-8').decode('utf-8', 'replace')` for a `str` without lone surrogates — over the `Utf8`
model, and its consequence for labels: a label that *is* the UTF-8 encoding of text re-encodes to
itself, so it is `reencodable` (C02) / a `TextLabels` label (C01) as soon as it is at most 63 bytes long.
Mathlib-free. -/
namespace Zc.Utf8

/-- a Unicode scalar value: a code point that is not a surrogate -/
def IsScalar (c : Nat) : Prop := c < 0x110000 ∧ ¬ (0xD800 ≤ c ∧ c < 0xE000)

instance (c : Nat) : Decidable (IsScalar c) := by unfold IsScalar; infer_instance

theorem toNat_toUInt8 {n : Nat} (h : n < 256) : n.toUInt8.toNat = n := by
  simp only [Nat.toUInt8_eq, UInt8.toNat_ofNat']
  omega

/-! ### single steps of the decoder state machine -/

theorem go_idle_cons (b : UInt8) (rest : List UInt8) :
    go idle (b :: rest) = (start b.toNat).1 ++ go (start b.toNat).2 rest := by
  conv => lhs; unfold go
  rw [if_pos (by rfl)]

theorem go_last {st : St} {b : UInt8} {rest : List UInt8} (h1 : st.need = 1) (hlo : st.lo ≤ b.toNat) (hhi : b.toNat ≤ st.hi) :
    go st (b :: rest) = (st.acc * 64 + (b.toNat - 0x80)) :: go idle rest := by
  conv => lhs; unfold go
  rw [if_neg (by omega), if_pos ⟨hlo, hhi⟩, if_pos h1]

theorem go_more {st : St} {b : UInt8} {rest : List UInt8} (h0 : st.need ≠ 0) (h1 : st.need ≠ 1) (hlo : st.lo ≤ b.toNat)
    (hhi : b.toNat ≤ st.hi) :
    go st (b :: rest) = go ⟨st.need - 1, st.acc * 64 + (b.toNat - 0x80), 0x80, 0xBF⟩ rest := by
  conv => lhs; unfold go
  rw [if_neg h0, if_pos ⟨hlo, hhi⟩, if_neg h1]

theorem start_lead {b n lo hi : Nat} (hb : ¬ b < 0x80) (hl : leadInfo b = some (n, lo, hi)) :
    start b = ([], ⟨n, (if n = 1 then b - 0xC0 else if n = 2 then b - 0xE0 else b - 0xF0), lo, hi⟩) := by
  unfold start
  rw [if_neg hb, hl]

/-! ### `leadInfo` of the lead bytes `encodeCp` produces -/

theorem lead2 {b : Nat} (h1 : 0xC2 ≤ b) (h2 : b ≤ 0xDF) : leadInfo b = some (1, 0x80, 0xBF) := by
  unfold leadInfo; rw [if_pos ⟨h1, h2⟩]

theorem leadE0 : leadInfo 0xE0 = some (2, 0xA0, 0xBF) := by decide

theorem leadED : leadInfo 0xED = some (2, 0x80, 0x9F) := by decide

theorem lead3 {b : Nat} (h : (0xE1 ≤ b ∧ b ≤ 0xEC) ∨ b = 0xEE ∨ b = 0xEF) : leadInfo b = some (2, 0x80, 0xBF) := by
  unfold leadInfo
  rw [if_neg (by omega), if_neg (by omega), if_pos h]

theorem leadF0 : leadInfo 0xF0 = some (3, 0x90, 0xBF) := by decide

theorem leadF4 : leadInfo 0xF4 = some (3, 0x80, 0x8F) := by decide

theorem lead4 {b : Nat} (h1 : 0xF1 ≤ b) (h2 : b ≤ 0xF3) : leadInfo b = some (3, 0x80, 0xBF) := by
  unfold leadInfo
  rw [if_neg (by omega), if_neg (by omega), if_neg (by omega), if_neg (by omega), if_neg (by omega), if_pos ⟨h1, h2⟩]

/-- every lead byte of a 3-byte sequence, with the range its first continuation must lie in -/
theorem lead3_any {k : Nat} (hk : k < 16) :
    ∃ lo hi, leadInfo (0xE0 + k) = some (2, lo, hi) ∧ (k = 0 → lo = 0xA0 ∧ hi = 0xBF) ∧ (k = 13 → lo = 0x80 ∧ hi = 0x9F)
      ∧ (k ≠ 0 → k ≠ 13 → lo = 0x80 ∧ hi = 0xBF) := by
  by_cases h0 : k = 0
  · subst h0; exact ⟨0xA0, 0xBF, leadE0, fun _ => ⟨rfl, rfl⟩, by omega, by omega⟩
  by_cases h13 : k = 13
  · subst h13; exact ⟨0x80, 0x9F, leadED, by omega, fun _ => ⟨rfl, rfl⟩, by omega⟩
  exact ⟨0x80, 0xBF, lead3 (by omega), by omega, by omega, fun _ _ => ⟨rfl, rfl⟩⟩

theorem lead4_any {k : Nat} (hk : k < 5) :
    ∃ lo hi, leadInfo (0xF0 + k) = some (3, lo, hi) ∧ (k = 0 → lo = 0x90 ∧ hi = 0xBF) ∧ (k = 4 → lo = 0x80 ∧ hi = 0x8F)
      ∧ (k ≠ 0 → k ≠ 4 → lo = 0x80 ∧ hi = 0xBF) := by
  by_cases h0 : k = 0
  · subst h0; exact ⟨0x90, 0xBF, leadF0, fun _ => ⟨rfl, rfl⟩, by omega, by omega⟩
  by_cases h4 : k = 4
  · subst h4; exact ⟨0x80, 0x8F, leadF4, by omega, fun _ => ⟨rfl, rfl⟩, by omega⟩
  exact ⟨0x80, 0xBF, lead4 (by omega) (by omega), by omega, by omega, fun _ _ => ⟨rfl, rfl⟩⟩

/-! ### one code point -/

/-- decoding the encoding of a scalar value yields that value and leaves the decoder idle -/
theorem go_encodeCp (c : Nat) (hc : IsScalar c) (rest : List UInt8) :
    go idle (encodeCp c ++ rest) = c :: go idle rest := by
  obtain ⟨hmax, hsur⟩ := hc
  unfold encodeCp
  by_cases h1 : c < 0x80
  · rw [if_pos h1]
    simp only [List.cons_append, List.nil_append]
    rw [go_idle_cons, toNat_toUInt8 (by omega)]
    unfold start
    rw [if_pos h1]
    rfl
  rw [if_neg h1]
  by_cases h2 : c < 0x800
  · rw [if_pos h2]
    simp only [List.cons_append, List.nil_append]
    rw [go_idle_cons, toNat_toUInt8 (by omega), start_lead (by omega) (lead2 (by omega) (by omega))]
    simp only [List.nil_append]
    rw [go_last (by rfl) (by simp only; rw [toNat_toUInt8 (by omega)]; omega) (by simp only; rw [toNat_toUInt8 (by omega)]; omega),
      toNat_toUInt8 (by omega)]
    rw [List.cons.injEq]
    refine ⟨?_, rfl⟩
    simp only [if_true]
    omega
  rw [if_neg h2]
  by_cases h3 : c < 0x10000
  · rw [if_pos h3]
    simp only [List.cons_append, List.nil_append]
    obtain ⟨lo, hi, hlead, hE0, hED, hoth⟩ := lead3_any (k := c / 4096) (by omega)
    rw [go_idle_cons, toNat_toUInt8 (by omega), start_lead (by omega) hlead]
    simp only [List.nil_append]
    have hb2 : (0x80 + c / 64 % 64).toUInt8.toNat = 0x80 + c / 64 % 64 := toNat_toUInt8 (by omega)
    have hb3 : (0x80 + c % 64).toUInt8.toNat = 0x80 + c % 64 := toNat_toUInt8 (by omega)
    have hrange : lo ≤ 0x80 + c / 64 % 64 ∧ 0x80 + c / 64 % 64 ≤ hi := by
      by_cases k0 : c / 4096 = 0
      · obtain ⟨rfl, rfl⟩ := hE0 k0; omega
      by_cases k13 : c / 4096 = 13
      · obtain ⟨rfl, rfl⟩ := hED k13; omega
      obtain ⟨rfl, rfl⟩ := hoth k0 k13; omega
    rw [go_more (by simp) (by simp) (by simp only; rw [hb2]; exact hrange.1) (by simp only; rw [hb2]; exact hrange.2)]
    rw [go_last (by rfl) (by simp only; rw [hb3]; omega) (by simp only; rw [hb3]; omega), hb2, hb3]
    rw [List.cons.injEq]
    refine ⟨?_, rfl⟩
    simp only [show ¬ (2 = 1) by omega, if_false, if_true]
    omega
  rw [if_neg h3]
  simp only [List.cons_append, List.nil_append]
  obtain ⟨lo, hi, hlead, hF0, hF4, hoth⟩ := lead4_any (k := c / 262144) (by omega)
  rw [go_idle_cons, toNat_toUInt8 (by omega), start_lead (by omega) hlead]
  simp only [List.nil_append]
  have hb2 : (0x80 + c / 4096 % 64).toUInt8.toNat = 0x80 + c / 4096 % 64 := toNat_toUInt8 (by omega)
  have hb3 : (0x80 + c / 64 % 64).toUInt8.toNat = 0x80 + c / 64 % 64 := toNat_toUInt8 (by omega)
  have hb4 : (0x80 + c % 64).toUInt8.toNat = 0x80 + c % 64 := toNat_toUInt8 (by omega)
  have hrange : lo ≤ 0x80 + c / 4096 % 64 ∧ 0x80 + c / 4096 % 64 ≤ hi := by
    by_cases k0 : c / 262144 = 0
    · obtain ⟨rfl, rfl⟩ := hF0 k0; omega
    by_cases k4 : c / 262144 = 4
    · obtain ⟨rfl, rfl⟩ := hF4 k4; omega
    obtain ⟨rfl, rfl⟩ := hoth k0 k4; omega
  rw [go_more (by simp) (by simp) (by simp only; rw [hb2]; exact hrange.1) (by simp only; rw [hb2]; exact hrange.2)]
  rw [go_more (by simp) (by simp) (by simp only; rw [hb3]; omega) (by simp only; rw [hb3]; omega)]
  rw [go_last (by rfl) (by simp only; rw [hb4]; omega) (by simp only; rw [hb4]; omega), hb2, hb3, hb4]
  rw [List.cons.injEq]
  refine ⟨?_, rfl⟩
  simp only [show ¬ (3 = 1) by omega, show ¬ (3 = 2) by omega, if_false]
  omega

/-! ### strings -/

/-- **`s.encode('utf-8').decode('utf-8', 'replace') == s`** for a `str` without lone surrogates -/
theorem decode_encode (cps : List Nat) (h : ∀ c ∈ cps, c < 0x110000 ∧ ¬ (0xD800 ≤ c ∧ c < 0xE000)) :
    decodeReplace (encode cps) = cps := by
  unfold decodeReplace encode
  induction cps with
  | nil => simp [go, idle]
  | cons c rest ih =>
    rw [List.flatMap_cons, go_encodeCp c (h c List.mem_cons_self), ih (fun c' hc' => h c' (List.mem_cons_of_mem _ hc'))]

theorem encodeCp_length (c : Nat) : (encodeCp c).length = encLen c := by
  unfold encodeCp encLen
  split
  · rfl
  · split
    · rfl
    · split <;> rfl

theorem encode_length (cps : List Nat) : (encode cps).length = (cps.map encLen).sum := by
  unfold encode
  induction cps with
  | nil => rfl
  | cons c rest ih => rw [List.flatMap_cons, List.length_append, ih, encodeCp_length]; rfl

/-- text re-encodes to exactly the bytes it came from: same length -/
theorem reencodedLen_encode (cps : List Nat) (h : ∀ c ∈ cps, IsScalar c) :
    reencodedLen (encode cps) = (encode cps).length := by
  unfold reencodedLen
  rw [decode_encode cps h, encode_length]

/-- … and the same number of characters -/
theorem charCount_encode (cps : List Nat) (h : ∀ c ∈ cps, IsScalar c) : charCount (encode cps) = cps.length := by
  unfold charCount
  rw [decode_encode cps h]

/-- a label that is text: the UTF-8 encoding of a sequence of scalar values (what `str.encode('utf-8')`
returns for every `str` the library can hold in a name, lone surrogates excepted) -/
def IsText (l : List UInt8) : Prop := ∃ cps, (∀ c ∈ cps, IsScalar c) ∧ l = encode cps

/-- ASCII bytes are text -/
theorem isText_of_encode (cps : List Nat) (h : ∀ c ∈ cps, IsScalar c) : IsText (encode cps) := ⟨cps, h, rfl⟩

/-- **a text label of at most 63 bytes can be written back into a label**: its decoded form re-encodes
to the same at most 63 bytes.  This is the hypothesis `reencodable` (C02) / `TextLabels` (C01) for
labels that came from a `str`. -/
theorem reencodedLen_le_of_text {l : List UInt8} (ht : IsText l) (hl : l.length ≤ 63) : reencodedLen l ≤ 63 := by
  obtain ⟨cps, hs, rfl⟩ := ht
  rw [reencodedLen_encode cps hs]
  exact hl

end Zc.Utf8
