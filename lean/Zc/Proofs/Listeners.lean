import Zc.Model.Cache
import Zc.GenFacts.Cache
/-! The listener set under callbacks: `applyAct`, `runActs`, `notifyRoundWith` (`Zc/Model/Cache.lean`).  Shared by C05 (the
listener round of the periodic purge) and C06. -/
namespace Zc

/-! ### who is called -/

section
variable {catches : Bool}

/-- the live listener set stays a set under callbacks -/
theorem applyAct_nodup (ls : List Nat) (h : ls.Nodup) (a : ListenerAct) (ls' : List Nat) (ha : applyAct catches ls a = .ok ls') : ls'.Nodup := by
  cases a with
  | add l =>
    simp only [applyAct, Except.ok.injEq] at ha
    subst ha
    split
    · exact h
    · rename_i hc
      rw [List.nodup_append]
      refine ⟨h, by simp, ?_⟩
      intro a ha b hb
      simp only [List.mem_singleton] at hb; subst hb
      intro heq; subst heq
      exact hc (by simpa using ha)
  | remove l =>
    simp only [applyAct] at ha
    split at ha
    · cases ha; exact List.Nodup.sublist List.filter_sublist h
    · split at ha
      · cases ha; exact h
      · cases ha

theorem runActs_nodup (live : List Nat) (h : live.Nodup) (acts : List ListenerAct) : (runActs catches live acts).1.Nodup := by
  unfold runActs
  have gen : ∀ (st : List Nat × Option PyExc), st.1.Nodup →
      (acts.foldl (fun st a => match st.2 with
        | some _ => st
        | none => match applyAct catches st.1 a with
          | .ok l => (l, none)
          | .error e => (st.1, some e)) st).1.Nodup := by
    induction acts with
    | nil => intro st hs; exact hs
    | cons a t ih =>
      intro st hs
      simp only [List.foldl_cons]
      apply ih
      cases h2 : st.2 with
      | some e => simp only []; exact hs
      | none =>
        simp only []
        cases h3 : applyAct catches st.1 a with
        | ok l => exact applyAct_nodup st.1 hs a l h3
        | error e => exact hs
  exact gen (live, none) h

/-- the loop of `async_updates` / `async_updates_complete` from an arbitrary intermediate state -/
def roundFrom (catches : Bool) (react : Nat → List ListenerAct) (todo : List Nat) (st : Round) : Round :=
  todo.foldl (fun st l =>
    match st.err with
    | some _ => st
    | none =>
      let r := runActs catches st.live (react l)
      { called := st.called ++ [l], live := r.1, err := r.2 }) st

theorem roundFrom_err (react : Nat → List ListenerAct) (todo : List Nat) (st : Round) (e : PyExc) (h : st.err = some e) :
    roundFrom catches react todo st = st := by
  induction todo with
  | nil => rfl
  | cons l t ih =>
    unfold roundFrom at ih ⊢
    simp only [List.foldl_cons, h]
    exact ih

theorem roundFrom_spec (react : Nat → List ListenerAct) (todo : List Nat) (st : Round) (hn : st.live.Nodup) :
    ∃ k, (roundFrom catches react todo st).called = st.called ++ k ∧ k <+: todo
      ∧ ((roundFrom catches react todo st).err = none → st.err = none ∧ k = todo)
      ∧ (roundFrom catches react todo st).live.Nodup := by
  induction todo generalizing st with
  | nil => exact ⟨[], by simp [roundFrom], List.prefix_refl _, fun h => ⟨h, rfl⟩, hn⟩
  | cons l t ih =>
    cases he : st.err with
    | some e =>
      rw [roundFrom_err react (l :: t) st e he]
      exact ⟨[], by simp, List.nil_prefix, (fun h => by rw [he] at h; cases h), hn⟩
    | none =>
      have hstep : roundFrom catches react (l :: t) st
          = roundFrom catches react t { called := st.called ++ [l], live := (runActs catches st.live (react l)).1, err := (runActs catches st.live (react l)).2 } := by
        unfold roundFrom
        simp only [List.foldl_cons, he]
      rw [hstep]
      obtain ⟨k, h1, h2, h3, h4⟩ := ih { called := st.called ++ [l], live := (runActs catches st.live (react l)).1, err := (runActs catches st.live (react l)).2 }
        (runActs_nodup st.live hn (react l))
      refine ⟨l :: k, by rw [h1]; simp, ?_, fun h => ⟨rfl, by rw [(h3 h).2]⟩, h4⟩
      exact List.prefix_cons_inj l |>.2 h2

/-! ### the snapshot semantics, said out loud -/

theorem applyAct_mem_of_ne {live live' : List Nat} {a : ListenerAct} {x : Nat} (h : applyAct catches live a = .ok live')
    (hx : x ∈ live) (hne : a ≠ .remove x) : x ∈ live' := by
  cases a with
  | add l =>
    simp only [applyAct, Except.ok.injEq] at h; subst h
    split
    · exact hx
    · exact List.mem_append_left _ hx
  | remove l =>
    simp only [applyAct] at h
    split at h
    · cases h
      rw [List.mem_filter]
      refine ⟨hx, ?_⟩
      have : x ≠ l := fun e => hne (by rw [e])
      simpa using this
    · split at h
      · cases h; exact hx
      · cases h

theorem applyAct_not_mem_of_ne {live live' : List Nat} {a : ListenerAct} {x : Nat} (h : applyAct catches live a = .ok live')
    (hx : x ∉ live) (hne : a ≠ .add x) : x ∉ live' := by
  cases a with
  | add l =>
    simp only [applyAct, Except.ok.injEq] at h; subst h
    split
    · exact hx
    · intro hm
      rcases List.mem_append.1 hm with hm | hm
      · exact hx hm
      · simp only [List.mem_singleton] at hm; exact hne (by rw [hm])
  | remove l =>
    simp only [applyAct] at h
    split at h
    · cases h; intro hm; exact hx (List.mem_filter.1 hm).1
    · split at h
      · cases h; exact hx
      · cases h

/-- the body of one callback, from an intermediate state -/
def actsFrom (catches : Bool) (acts : List ListenerAct) (st : List Nat × Option PyExc) : List Nat × Option PyExc :=
  acts.foldl (fun st a =>
    match st.2 with
    | some _ => st
    | none => match applyAct catches st.1 a with
      | .ok l => (l, none)
      | .error e => (st.1, some e)) st

theorem runActs_eq (live : List Nat) (acts : List ListenerAct) : runActs catches live acts = actsFrom catches acts (live, none) := rfl

theorem actsFrom_err (acts : List ListenerAct) (st : List Nat × Option PyExc) (e : PyExc) (h : st.2 = some e) : actsFrom catches acts st = st := by
  induction acts with
  | nil => rfl
  | cons a t ih => unfold actsFrom at ih ⊢; simp only [List.foldl_cons, h]; exact ih

theorem actsFrom_persist (acts : List ListenerAct) (st : List Nat × Option PyExc) (x : Nat) (hx : x ∈ st.1)
    (hno : ListenerAct.remove x ∉ acts) : x ∈ (actsFrom catches acts st).1 := by
  induction acts generalizing st with
  | nil => exact hx
  | cons a t ih =>
    have hno' : ListenerAct.remove x ∉ t := fun h => hno (List.mem_cons_of_mem _ h)
    have hne : a ≠ .remove x := fun h => hno (by rw [h]; simp)
    unfold actsFrom at ih ⊢
    simp only [List.foldl_cons]
    apply ih _ _ hno'
    cases h2 : st.2 with
    | some e => exact hx
    | none =>
      simp only []
      cases h3 : applyAct catches st.1 a with
      | ok l => exact applyAct_mem_of_ne h3 hx hne
      | error e => exact hx

theorem actsFrom_absent (acts : List ListenerAct) (st : List Nat × Option PyExc) (x : Nat) (hx : x ∉ st.1)
    (hno : ListenerAct.add x ∉ acts) : x ∉ (actsFrom catches acts st).1 := by
  induction acts generalizing st with
  | nil => exact hx
  | cons a t ih =>
    have hno' : ListenerAct.add x ∉ t := fun h => hno (List.mem_cons_of_mem _ h)
    have hne : a ≠ .add x := fun h => hno (by rw [h]; simp)
    unfold actsFrom at ih ⊢
    simp only [List.foldl_cons]
    apply ih _ _ hno'
    cases h2 : st.2 with
    | some e => exact hx
    | none =>
      simp only []
      cases h3 : applyAct catches st.1 a with
      | ok l => exact applyAct_not_mem_of_ne h3 hx hne
      | error e => exact hx

theorem actsFrom_added (acts : List ListenerAct) (st : List Nat × Option PyExc) (x : Nat)
    (hadd : ListenerAct.add x ∈ acts) (hno : ListenerAct.remove x ∉ acts) (hok : (actsFrom catches acts st).2 = none) :
    x ∈ (actsFrom catches acts st).1 := by
  induction acts generalizing st with
  | nil => cases hadd
  | cons a t ih =>
    have hno' : ListenerAct.remove x ∉ t := fun h => hno (List.mem_cons_of_mem _ h)
    have hst : st.2 = none := by
      cases h2 : st.2 with
      | none => rfl
      | some e => rw [actsFrom_err _ st e h2, h2] at hok; cases hok
    have hstep : actsFrom catches (a :: t) st = actsFrom catches t (match applyAct catches st.1 a with | .ok l => (l, none) | .error e => (st.1, some e)) := by
      unfold actsFrom; simp only [List.foldl_cons, hst]
    rw [hstep] at hok ⊢
    cases h3 : applyAct catches st.1 a with
    | error e =>
      rw [h3] at hok; simp only [] at hok
      rw [actsFrom_err _ _ e rfl] at hok; cases hok
    | ok l =>
      rw [h3] at hok; simp only [] at hok ⊢
      rcases List.mem_cons.1 hadd with heq | hin
      · apply actsFrom_persist _ _ _ _ hno'
        rw [← heq] at h3
        simp only [applyAct, Except.ok.injEq] at h3; subst h3
        simp only []
        split
        · rename_i hc; simpa using hc
        · simp
      · exact ih _ hin hno' hok

theorem actsFrom_removed (acts : List ListenerAct) (st : List Nat × Option PyExc) (x : Nat)
    (hrem : ListenerAct.remove x ∈ acts) (hno : ListenerAct.add x ∉ acts) (hok : (actsFrom catches acts st).2 = none) :
    x ∉ (actsFrom catches acts st).1 := by
  induction acts generalizing st with
  | nil => cases hrem
  | cons a t ih =>
    have hno' : ListenerAct.add x ∉ t := fun h => hno (List.mem_cons_of_mem _ h)
    have hst : st.2 = none := by
      cases h2 : st.2 with
      | none => rfl
      | some e => rw [actsFrom_err _ st e h2, h2] at hok; cases hok
    have hstep : actsFrom catches (a :: t) st = actsFrom catches t (match applyAct catches st.1 a with | .ok l => (l, none) | .error e => (st.1, some e)) := by
      unfold actsFrom; simp only [List.foldl_cons, hst]
    rw [hstep] at hok ⊢
    cases h3 : applyAct catches st.1 a with
    | error e =>
      rw [h3] at hok; simp only [] at hok
      rw [actsFrom_err _ _ e rfl] at hok; cases hok
    | ok l =>
      rw [h3] at hok; simp only [] at hok ⊢
      rcases List.mem_cons.1 hrem with heq | hin
      · apply actsFrom_absent _ _ _ _ hno'
        rw [← heq] at h3
        simp only [applyAct] at h3
        split at h3
        · cases h3; simp
        · rename_i hnc
          split at h3
          · cases h3; simpa using hnc
          · cases h3
      · exact ih _ hin hno' hok

theorem roundFrom_ok_of_ok (react : Nat → List ListenerAct) (todo : List Nat) (st : Round)
    (h : (roundFrom catches react todo st).err = none) : st.err = none := by
  cases he : st.err with
  | none => rfl
  | some e => rw [roundFrom_err react todo st e he, he] at h; cases h

theorem roundFrom_cons (react : Nat → List ListenerAct) (l : Nat) (t : List Nat) (st : Round) (he : st.err = none) :
    roundFrom catches react (l :: t) st
      = roundFrom catches react t { called := st.called ++ [l], live := (runActs catches st.live (react l)).1, err := (runActs catches st.live (react l)).2 } := by
  unfold roundFrom; simp only [List.foldl_cons, he]

theorem roundFrom_persist (react : Nat → List ListenerAct) (todo : List Nat) (st : Round) (x : Nat) (hx : x ∈ st.live)
    (hno : ∀ l ∈ todo, ListenerAct.remove x ∉ react l) : x ∈ (roundFrom catches react todo st).live := by
  induction todo generalizing st with
  | nil => exact hx
  | cons l t ih =>
    cases he : st.err with
    | some e => rw [roundFrom_err react _ st e he]; exact hx
    | none =>
      rw [roundFrom_cons react l t st he]
      exact ih _ (by rw [runActs_eq]; exact actsFrom_persist _ _ x hx (hno l (by simp))) (fun l' hl' => hno l' (by simp [hl']))

theorem roundFrom_absent (react : Nat → List ListenerAct) (todo : List Nat) (st : Round) (x : Nat) (hx : x ∉ st.live)
    (hno : ∀ l ∈ todo, ListenerAct.add x ∉ react l) : x ∉ (roundFrom catches react todo st).live := by
  induction todo generalizing st with
  | nil => exact hx
  | cons l t ih =>
    cases he : st.err with
    | some e => rw [roundFrom_err react _ st e he]; exact hx
    | none =>
      rw [roundFrom_cons react l t st he]
      exact ih _ (by rw [runActs_eq]; exact actsFrom_absent _ _ x hx (hno l (by simp))) (fun l' hl' => hno l' (by simp [hl']))

/-- with the copy, the round is the plain loop over the snapshot -/
theorem notifyRoundWith_eq_roundFrom (ls : List Nat) (react : Nat → List ListenerAct) :
    notifyRoundWith true catches ls react = roundFrom catches react ls { called := [], live := ls, err := none } := by
  unfold notifyRoundWith roundFrom
  simp
  rfl

theorem roundFrom_called_ok (react : Nat → List ListenerAct) (todo : List Nat) (st : Round)
    (h : (roundFrom catches react todo st).err = none) : (roundFrom catches react todo st).called = st.called ++ todo := by
  induction todo generalizing st with
  | nil => simp [roundFrom]
  | cons l t ih =>
    have he := roundFrom_ok_of_ok react _ st h
    rw [roundFrom_cons react l t st he] at h ⊢
    rw [ih _ h]; simp

/-- whatever `async_remove_listener` catches: the listeners called are an initial segment of the snapshot taken at the start
of the round, each at most once; if the round does not raise it is the whole snapshot, each exactly once; the live set stays
duplicate-free -/
theorem round_general (ls : List Nat) (hnodup : ls.Nodup) (react : Nat → List ListenerAct) :
    (notifyRoundWith true catches ls react).called <+: ls
    ∧ (∀ l, (notifyRoundWith true catches ls react).called.count l ≤ 1)
    ∧ ((notifyRoundWith true catches ls react).err = none →
        (notifyRoundWith true catches ls react).called = ls
        ∧ ∀ l, (notifyRoundWith true catches ls react).called.count l = if l ∈ ls then 1 else 0)
    ∧ (notifyRoundWith true catches ls react).live.Nodup := by
  obtain ⟨k, h1, h2, h3, h4⟩ := roundFrom_spec (catches := catches) react ls { called := [], live := ls, err := none } hnodup
  rw [notifyRoundWith_eq_roundFrom]
  have hcalled : (roundFrom catches react ls { called := [], live := ls, err := none }).called = k := by
    rw [h1]; simp
  have hknodup : k.Nodup := List.Nodup.sublist h2.sublist hnodup
  refine ⟨hcalled ▸ h2, fun l => ?_, fun herr => ?_, h4⟩
  · rw [hcalled]; exact List.nodup_iff_count.1 hknodup l
  · have hk := (h3 herr).2
    rw [hcalled, hk]
    exact ⟨rfl, fun l => List.Nodup.count hnodup⟩

/-- snapshot semantics of a round, whatever `async_remove_listener` catches.  Whatever the callbacks do:
* a listener that is not in the snapshot is not called in this round, even if a callback adds it;
* if the round does not raise, a listener of the snapshot is called even if a callback removes it;
* afterwards (no raise): a listener some callback added and none removed is registered — it will be called from the next
  round on; a listener some callback removed and none added is not; a listener nobody touched is registered iff it was. -/
theorem snapshot_semantics_general (ls : List Nat) (react : Nat → List ListenerAct) (x : Nat) :
    (x ∉ ls → x ∉ (notifyRoundWith true catches ls react).called)
    ∧ ((notifyRoundWith true catches ls react).err = none → x ∈ ls → x ∈ (notifyRoundWith true catches ls react).called)
    ∧ ((notifyRoundWith true catches ls react).err = none → (∃ l ∈ ls, ListenerAct.add x ∈ react l) → (∀ l ∈ ls, ListenerAct.remove x ∉ react l) →
        x ∈ (notifyRoundWith true catches ls react).live)
    ∧ ((notifyRoundWith true catches ls react).err = none → (∃ l ∈ ls, ListenerAct.remove x ∈ react l) → (∀ l ∈ ls, ListenerAct.add x ∉ react l) →
        x ∉ (notifyRoundWith true catches ls react).live)
    ∧ ((∀ l ∈ ls, ListenerAct.add x ∉ react l ∧ ListenerAct.remove x ∉ react l) → (x ∈ (notifyRoundWith true catches ls react).live ↔ x ∈ ls)) := by
  rw [notifyRoundWith_eq_roundFrom]
  refine ⟨?_, ?_, ?_, ?_, ?_⟩
  · intro hx hc
    -- called is a prefix of the snapshot (no Nodup needed for this direction)
    have gen : ∀ (todo : List Nat) (st : Round), ∀ y ∈ (roundFrom catches react todo st).called, y ∈ st.called ∨ y ∈ todo := by
      intro todo
      induction todo with
      | nil => intro st y hy; exact Or.inl hy
      | cons l t ih =>
        intro st y hy
        cases he : st.err with
        | some e => rw [roundFrom_err react _ st e he] at hy; exact Or.inl hy
        | none =>
          rw [roundFrom_cons react l t st he] at hy
          rcases ih _ y hy with h | h
          · simp only [List.mem_append, List.mem_singleton] at h
            rcases h with h | h
            · exact Or.inl h
            · exact Or.inr (by simp [h])
          · exact Or.inr (List.mem_cons_of_mem _ h)
    rcases gen ls _ x hc with h | h
    · cases h
    · exact hx h
  · intro herr hx
    have gen : ∀ (todo : List Nat) (st : Round), (roundFrom catches react todo st).err = none → ∀ y ∈ todo, y ∈ (roundFrom catches react todo st).called := by
      intro todo
      induction todo with
      | nil => intro st _ y hy; cases hy
      | cons l t ih =>
        intro st hok y hy
        have he := roundFrom_ok_of_ok react _ st hok
        rw [roundFrom_cons react l t st he] at hok ⊢
        rcases List.mem_cons.1 hy with rfl | hy'
        · -- called only grows
          have grow : ∀ (todo : List Nat) (st : Round), ∀ z ∈ st.called, z ∈ (roundFrom catches react todo st).called := by
            intro todo
            induction todo with
            | nil => intro st z hz; exact hz
            | cons l' t' ih' =>
              intro st z hz
              cases he' : st.err with
              | some e => rw [roundFrom_err react _ st e he']; exact hz
              | none => rw [roundFrom_cons react l' t' st he']; exact ih' _ z (by simp [hz])
          exact grow t _ y (by simp)
        · exact ih _ hok y hy'
    exact gen ls _ herr x hx
  · intro herr ⟨l0, hl0, hadd⟩ hno
    have gen : ∀ (todo : List Nat) (st : Round), (roundFrom catches react todo st).err = none → l0 ∈ todo →
        (∀ l ∈ todo, ListenerAct.remove x ∉ react l) → x ∈ (roundFrom catches react todo st).live := by
      intro todo
      induction todo with
      | nil => intro st _ h; cases h
      | cons l t ih =>
        intro st hok hin hno
        have he := roundFrom_ok_of_ok react _ st hok
        rw [roundFrom_cons react l t st he] at hok ⊢
        rcases List.mem_cons.1 hin with heq | hin'
        · subst heq
          have hok2 := roundFrom_ok_of_ok react t _ hok
          simp only [] at hok2
          apply roundFrom_persist react t _ x _ (fun l' hl' => hno l' (by simp [hl']))
          rw [runActs_eq] at hok2 ⊢
          exact actsFrom_added _ _ x hadd (hno l0 (by simp)) hok2
        · exact ih _ hok hin' (fun l' hl' => hno l' (by simp [hl']))
    exact gen ls _ herr hl0 hno
  · intro herr ⟨l0, hl0, hrem⟩ hno
    have gen : ∀ (todo : List Nat) (st : Round), (roundFrom catches react todo st).err = none → l0 ∈ todo →
        (∀ l ∈ todo, ListenerAct.add x ∉ react l) → x ∉ (roundFrom catches react todo st).live := by
      intro todo
      induction todo with
      | nil => intro st _ h; cases h
      | cons l t ih =>
        intro st hok hin hno
        have he := roundFrom_ok_of_ok react _ st hok
        rw [roundFrom_cons react l t st he] at hok ⊢
        rcases List.mem_cons.1 hin with heq | hin'
        · subst heq
          have hok2 := roundFrom_ok_of_ok react t _ hok
          simp only [] at hok2
          apply roundFrom_absent react t _ x _ (fun l' hl' => hno l' (by simp [hl']))
          rw [runActs_eq] at hok2 ⊢
          exact actsFrom_removed _ _ x hrem (hno l0 (by simp)) hok2
        · exact ih _ hok hin' (fun l' hl' => hno l' (by simp [hl']))
    exact gen ls _ herr hl0 hno
  · intro hno
    constructor
    · intro hx
      by_cases hin : x ∈ ls
      · exact hin
      · exact absurd hx (roundFrom_absent react ls _ x hin (fun l hl => (hno l hl).1))
    · intro hx
      exact roundFrom_persist react ls _ x hx (fun l hl => (hno l hl).2)

end

/-! #### the code as it is (D18 repaired): a round never raises -/

theorem applyAct_true_ok (ls : List Nat) (a : ListenerAct) : ∃ l, applyAct true ls a = .ok l := by
  cases a with
  | add l => exact ⟨_, rfl⟩
  | remove l =>
    simp only [applyAct]
    split
    · exact ⟨_, rfl⟩
    · exact ⟨_, rfl⟩

theorem actsFrom_true_ok (acts : List ListenerAct) (st : List Nat × Option PyExc) (h : st.2 = none) :
    (actsFrom true acts st).2 = none := by
  induction acts generalizing st with
  | nil => exact h
  | cons a t ih =>
    unfold actsFrom at ih ⊢
    simp only [List.foldl_cons, h]
    obtain ⟨l, hl⟩ := applyAct_true_ok st.1 a
    rw [hl]
    exact ih _ rfl

theorem roundFrom_true_ok (react : Nat → List ListenerAct) (todo : List Nat) (st : Round) (h : st.err = none) :
    (roundFrom true react todo st).err = none := by
  induction todo generalizing st with
  | nil => exact h
  | cons l t ih =>
    rw [roundFrom_cons react l t st h]
    apply ih
    show (runActs true st.live (react l)).2 = none
    rw [runActs_eq]
    exact actsFrom_true_ok _ _ rfl

/-- removing a listener that is not registered is a logged no-op: no callback can make a round raise -/
theorem notifyRound_ok (ls : List Nat) (react : Nat → List ListenerAct) : (notifyRound ls react).err = none := by
  unfold notifyRound
  rw [notifyRoundWith_eq_roundFrom]
  exact roundFrom_true_ok react ls _ rfl

/-- today's round calls exactly the snapshot, in its order -/
theorem notifyRound_called (ls : List Nat) (react : Nat → List ListenerAct) : (notifyRound ls react).called = ls := by
  have h := notifyRound_ok ls react
  unfold notifyRound at h ⊢
  rw [notifyRoundWith_eq_roundFrom] at h ⊢
  rw [roundFrom_called_ok react ls _ h]; simp

end Zc
