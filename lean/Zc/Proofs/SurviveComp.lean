import Zc.Model.SurviveComp
import Zc.Proofs.SurviveHost
import Zc.Proofs.CacheRun
import Zc.Proofs.IngestPost
import Zc.Proofs.Respond
import Zc.Proofs.Packetize
import Zc.Proofs.SurviveCache
import Zc.Props.C04
import Zc.Proofs.Sched2
/-! `DownOK` for the composed downstream `Zc.Survive.Comp.down`: each of the three component
obligations is proved from the theorems of the component models, and what cannot be is a named
hypothesis about the uninterpreted residue `Rest`:

| obligation | proved from | residue (named hypothesis) |
|---|---|---|
| `IngestOK` | C05/C06: `Flat.ingest_post` (no `KeyError`), `Refines.ingest`, `Flat.WF.ingest`; C04: browser callbacks are total functions of the model | `ListenersOK` |
| `AnswerOK` | C03: `respond_ok` (registry lookups never raise under `IndexInv`), `warmed_inv`, `warmed_memo`, `warmed_fields`, `answerMap_sound`, `answerMap_additionals`; `packetize_inv`; C15: `packets_total` via `QASafe` | `RouteOK` (structural), and the data invariant `RegSafe` inside `CInv` |
| `EnqueueOK` | — | `QueueOK` |
-/
namespace Zc.Survive.Comp
open Zc Zc.Wire Zc.Survive

section
variable (lower : String → String) (possible : String → List String) (ettl : Nat)
variable {ρ ω : Type} (R : Rest ρ ω) (Iρ : ρ → Prop)

/-! ### the invariant of the composite state -/

/-- **data invariant of the registry**: every record a registered service can be asked for — its PTR,
SRV, TXT, address and NSEC records and the type-enumeration pointer — is accepted by the encoder
(labels ≤ 63 bytes, names ≤ 1100 wire bytes, fields in range).  Registration does not enforce this for
the server name; it is an assumption about what the application registers. -/
def RegSafe (reg : Registry) : Prop :=
  ∀ s ∈ reg.services, ∀ r ∈ RespSpec.own lower ettl s, RecSafe (wireOfRec r) 0

/-- the text of a wire name whose labels can be written back (≤ 63 bytes each after re-encoding) and
that is at most 253 characters long: what `C15_encodable` / `C02_names_short` say of every decoded name -/
def NameFromWire (s : String) : Prop := ∃ n : WName, nameOK n = true ∧ nameLen n ≤ 253 ∧ s = textOfName n

/-- every name of the record — owner, PTR alias, SRV target, NSEC next name — is such a text -/
def RecNamesOK (r : Rec) : Prop :=
  NameFromWire r.name ∧
    match r.rdata with
    | .ptr a => NameFromWire a
    | .srv _ _ _ t => NameFromWire t
    | .nsec n _ => NameFromWire n
    | _ => True

theorem recNamesOK_lifeFree : LifeFree RecNamesOK := fun _ _ _ h => h

/-- numeric rdata fields in the encoder's ranges -/
def RDataNum : RData → Prop
  | .addr a _ => a.length ≤ 60000
  | .txt t => t.length ≤ 60000
  | .srv p w q _ => p < 65536 ∧ w < 65536 ∧ q < 65536
  | _ => True

/-- the numeric fields of a cached record are what the decoder can produce from a datagram of at most 8966
bytes: 16-bit type, 15-bit class, 32-bit TTL, 16-bit SRV numbers, byte strings no longer than the datagram -/
def RecFieldsOK (r : Rec) : Prop :=
  r.type < 65536 ∧ r.class_ < 32768 ∧ r.ttl < 4294967296 ∧ RDataNum r.rdata ∧
    (r.rdata.kind = .hinfo → r.type = 13) ∧ (r.rdata.kind = .nsec → r.type = 47)

theorem recFieldsOK_life : LifeOK RecFieldsOK (fun t => t < 4294967296) :=
  ⟨fun _ _ _ h ht => ⟨h.1, h.2.1, ht, h.2.2.2⟩, fun _ h => h.2.2.1, by decide, by decide⟩

structure CInv (d : CState ρ) : Prop where
  /-- the indexed cache refines a duplicate-free flat store (C05's `CacheInv` in its inductive form) -/
  cache : ∃ s, Refines lower d.cache s ∧ Flat.WF lower s
  /-- C03's registry invariant: the type and server indexes are exactly the services' keys -/
  reg : IndexInv lower d.reg
  /-- **every cached name can be written back** (the D8b clause): each record object in the cache —
  in the by-name index and in the by-server index — carries only names that are texts of wire names with
  encodable labels.  Established at ingestion from `C15_encodable`, never disturbed by the lifetime re-stamping. -/
  names : CacheAll RecNamesOK d.cache
  /-- … and numeric fields in the encoder's ranges (what `packets()` needs besides short labels) -/
  fields : CacheAll RecFieldsOK d.cache
  /-- C03's memo invariant: every memoised record of a registered service equals a fresh build -/
  fresh : AllFresh lower d.reg
  safe : RegSafe lower ettl d.reg
  /-- C10's two-container invariant of every browser's query scheduler: the dict's values are exactly the live heap
  members, one per alias (`HD`); it is what makes `del self._next_scheduled_for_alias[alias]` safe -/
  scheds : ∀ cs ∈ d.scheds, Sched2.Inv2 cs.2
  /-- between blocks no browser has a callback pending (the hypothesis `b.pending = []` of C04's theorems) -/
  browsers : ∀ b ∈ d.browsers, b.pending = []
  rest : Iρ d.rest

/-! ### the residue -/

/-- **residual assumption 1** — the listeners that are neither browsers nor lookups (user
`RecordUpdateListener`s), waking lookup futures and `async_notify_all` return
normally and keep their invariant, whatever records and cache they are shown -/
def ListenersOK : Prop :=
  ∀ r0 now pairs c1 c2 n, Iρ r0 → ∃ r1 o, R.listeners r0 now pairs c1 c2 n = .ok (r1, o) ∧ Iρ r1

/-- **residual assumption 2** — `_QueryResponse` routing and the question history return normally, keep
their invariant, and put into the unicast reply and the immediate multicast only records of the answer
map they were given (structural: routing selects, it does not invent records — C12_tc_union says this
of C12's routing model).  That those records belong to registered services is *proved*
(`respond_records_own`, from C03's `answerMap_sound` / `answerMap_additionals`). -/
def RouteOK : Prop :=
  ∀ r0 c ks u dict, Iρ r0 →
    ∃ r1 sel, R.route r0 c ks u dict = .ok (r1, sel) ∧ Iρ r1 ∧
      ∀ x ∈ dictRecords sel.ucast ++ dictRecords sel.mcastNow, x ∈ dictRecords dict

/-- **residual assumption 3** — `MulticastOutgoingQueue.async_add` keeps the residue's invariant
(it cannot raise by type; C12's model of it is a total function) -/
def QueueOK : Prop := ∀ r0 t sel, Iρ r0 → Iρ (R.enqueue r0 t sel).1

/-! ### obligation 1: the record manager, the cache, the browsers, their schedulers -/

theorem foldlM_ok {α β ε : Type} {P : α → Prop} {f : α → β → Except ε α} (hf : ∀ s x, P s → ∃ s', f s x = .ok s' ∧ P s') :
    ∀ (l : List β) (s : α), P s → ∃ s', l.foldlM f s = .ok s' ∧ P s' := by
  intro l
  induction l with
  | nil => intro s h; exact ⟨s, rfl, h⟩
  | cons x t ih =>
    intro s h
    obtain ⟨s1, h1, hp1⟩ := hf s x h
    obtain ⟨s2, h2, hp2⟩ := ih s1 hp1
    exact ⟨s2, by simp only [List.foldlM, h1, bind, Except.bind]; exact h2, hp2⟩

theorem mapM_ok {α β ε : Type} {P : α → Prop} {Q : β → Prop} {f : α → Except ε β} (hf : ∀ a, P a → ∃ b, f a = .ok b ∧ Q b) :
    ∀ (l : List α), (∀ a ∈ l, P a) → ∃ l', l.mapM f = .ok l' ∧ ∀ b ∈ l', Q b := by
  intro l
  induction l with
  | nil => intro _; exact ⟨[], rfl, by intro b hb; simp at hb⟩
  | cons a t ih =>
    intro h
    obtain ⟨b, hb, hq⟩ := hf a (h a List.mem_cons_self)
    obtain ⟨l', hl', hq'⟩ := ih (fun x hx => h x (List.mem_cons_of_mem _ hx))
    refine ⟨b :: l', ?_, ?_⟩
    · simp only [List.mapM_cons, hb, hl', bind, Except.bind, pure, Except.pure]
    · intro x hx
      simp only [List.mem_cons] at hx
      rcases hx with rfl | hx
      · exact hq
      · exact hq' x hx

/-- **the scheduler bookkeeping of `async_update_records` never raises** (C10's `reschedule2_refines` /
`cancel2_refines` under the dict/heap invariant): no `KeyError` from `del self._next_scheduled_for_alias[…]`,
no dangling dict value -/
theorem schedOne_ok (cfg : Sched.Cfg) (now : Ms) (s : Sched2.S2) (u : Rec × Option Rec) (h : Sched2.Inv2 s) :
    ∃ s', schedOne lower possible cfg now s u = .ok s' ∧ Sched2.Inv2 s' := by
  unfold schedOne
  split
  · split
    · rename_i alias _
      apply foldlM_ok (P := Sched2.Inv2) _ _ s h
      intro s0 _ h0
      split
      · exact Sched2.reschedule2_refines cfg h0 _ _ _ _ |>.imp fun s' hs' => ⟨hs'.1, hs'.2.2⟩
      · split
        · exact ⟨_, rfl, (Sched2.cancel2_refines h0 _).2⟩
        · exact Sched2.reschedule2_refines cfg h0 _ _ _ _ |>.imp fun s' hs' => ⟨hs'.1, hs'.2.2⟩
    · exact ⟨s, rfl, h⟩
  · exact ⟨s, rfl, h⟩

theorem schedsStep_ok (now : Ms) (pairs : List (Rec × Option Rec)) (ss : List (Sched.Cfg × Sched2.S2))
    (h : ∀ cs ∈ ss, Sched2.Inv2 cs.2) :
    ∃ ss', schedsStep lower possible now pairs ss = .ok ss' ∧ ∀ cs ∈ ss', Sched2.Inv2 cs.2 := by
  unfold schedsStep
  have hf : ∀ cs : Sched.Cfg × Sched2.S2, Sched2.Inv2 cs.2 →
      ∃ b : Sched.Cfg × Sched2.S2,
        (Except.map (fun s => (cs.1, s)) (List.foldlM (schedOne lower possible cs.1 now) cs.2 pairs) : Except Sched2.Err _) = .ok b ∧
        Sched2.Inv2 b.2 := by
    intro cs hcs
    obtain ⟨s', hs', hi'⟩ := foldlM_ok (P := Sched2.Inv2) (fun s u hs => schedOne_ok lower possible cs.1 now s u hs) pairs cs.2 hcs
    exact ⟨(cs.1, s'), by rw [hs']; rfl, hi'⟩
  exact mapM_ok (P := fun cs : Sched.Cfg × Sched2.S2 => Sched2.Inv2 cs.2) (Q := fun cs : Sched.Cfg × Sched2.S2 => Sched2.Inv2 cs.2) hf ss h

/-- **no `KeyError` out of the cache** (C05/C06 composed): on a cache that refines a duplicate-free
store, `async_updates_from_response` returns for *every* record list, and the new cache refines a
duplicate-free store again -/
theorem cache_ingest_ok {c : Cache} (h : ∃ s, Refines lower c s ∧ Flat.WF lower s) (now : Ms) (recs : List Rec) :
    ∃ out, Zc.ingest lower (Cache.ops lower) c now recs = .ok out ∧ ∃ s', Refines lower out.cache s' ∧ Flat.WF lower s' := by
  obtain ⟨s, href, hwf⟩ := h
  obtain ⟨so, hso, _⟩ := Flat.ingest_post (lower := lower) s now recs
  have hi := href.ingest now recs
  rw [hso] at hi
  cases hc : Zc.ingest lower (Cache.ops lower) c now recs with
  | error e => rw [hc] at hi; exact absurd hi id
  | ok co =>
    rw [hc] at hi
    exact ⟨co, rfl, so.cache, hi.1, hwf.ingest now recs so hso⟩

/-- the records `msg.answers()` hands over carry only names that can be written back: the decoder's
guarantee (`PktOK`: `encodable`, `namesShort`) seen through the text layer -/
theorem recsOf_names {k : Pkt} (hk : PktOK k) : ∀ r ∈ recsOf k, RecNamesOK r := by
  obtain ⟨_, henc, hshort, _, _⟩ := hk
  simp only [encodable, List.all_eq_true] at henc
  simp only [DecodeSpec.namesShort, List.all_eq_true, decide_eq_true_eq] at hshort
  have hname : ∀ w ∈ k.p.records, ∀ n, (n = w.name ∨ n ∈ DecodeSpec.rdataNames w.rdata) → NameFromWire (textOfName n) := by
    intro w hw n hn
    have hmem : n ∈ DecodeSpec.namesOf k.p := by
      simp only [DecodeSpec.namesOf, List.mem_append, List.mem_flatMap, List.mem_cons]
      exact Or.inr ⟨w, hw, hn⟩
    exact ⟨n, henc n hmem, hshort n hmem, rfl⟩
  intro r hr
  unfold recsOf at hr
  obtain ⟨w, hw, hrw⟩ := List.mem_filterMap.mp hr
  unfold recOfW at hrw
  have h0 := hname w hw w.name (Or.inl rfl)
  cases hrd : w.rdata with
  | addr a => rw [hrd] at hrw; simp at hrw; subst hrw; exact ⟨h0, trivial⟩
  | txt t => rw [hrd] at hrw; simp at hrw; subst hrw; exact ⟨h0, trivial⟩
  | hinfo c o => rw [hrd] at hrw; simp at hrw; subst hrw; exact ⟨h0, trivial⟩
  | other raw => rw [hrd] at hrw; simp at hrw
  | ptr t =>
    rw [hrd] at hrw; simp at hrw; subst hrw
    exact ⟨h0, hname w hw t (Or.inr (by rw [hrd]; simp [DecodeSpec.rdataNames]))⟩
  | srv a b c t =>
    rw [hrd] at hrw; simp at hrw; subst hrw
    exact ⟨h0, hname w hw t (Or.inr (by rw [hrd]; simp [DecodeSpec.rdataNames]))⟩
  | nsec n ts =>
    rw [hrd] at hrw; simp at hrw; subst hrw
    exact ⟨h0, hname w hw n (Or.inr (by rw [hrd]; simp [DecodeSpec.rdataNames]))⟩

theorem recsOf_fields {k : Pkt} (hk : PktOK k) : ∀ r ∈ recsOf k, RecFieldsOK r := by
  obtain ⟨_, _, _, _, _, hlen, hrec⟩ := hk
  intro r hr
  unfold recsOf at hr
  obtain ⟨w, hw, hrw⟩ := List.mem_filterMap.mp hr
  obtain ⟨ht, httl, ⟨hk1, hk2⟩, hrd⟩ := hrec w hw
  unfold recOfW at hrw
  have hc := GenFacts.Survive.class_of_lt w.rclass
  cases hrdata : w.rdata with
  | addr a =>
    rw [hrdata] at hrw hrd; simp at hrw; subst hrw
    exact ⟨ht, hc, httl, (by simp only [RDataNum]; simp only at hrd; omega), (by intro h; cases h), (by intro h; cases h)⟩
  | txt t =>
    rw [hrdata] at hrw hrd; simp at hrw; subst hrw
    exact ⟨ht, hc, httl, (by simp only [RDataNum]; simp only at hrd; omega), (by intro h; cases h), (by intro h; cases h)⟩
  | hinfo c o =>
    rw [hrdata] at hrw; simp at hrw; subst hrw
    exact ⟨ht, hc, httl, trivial, (fun _ => hk1 c o hrdata), (by intro h; cases h)⟩
  | other raw => rw [hrdata] at hrw; simp at hrw
  | ptr t =>
    rw [hrdata] at hrw; simp at hrw; subst hrw
    exact ⟨ht, hc, httl, trivial, (by intro h; cases h), (by intro h; cases h)⟩
  | srv a b c t =>
    rw [hrdata] at hrw hrd; simp at hrw; subst hrw
    exact ⟨ht, hc, httl, hrd, (by intro h; cases h), (by intro h; cases h)⟩
  | nsec n ts =>
    rw [hrdata] at hrw; simp at hrw; subst hrw
    exact ⟨ht, hc, httl, trivial, (by intro h; cases h), (fun _ => hk2 n ts hrdata)⟩

/-- every record a service can be asked for by one question is one of its `own` records -/
theorem candidates_sub_own (s : Svc) (q : Question) : ∀ a ∈ RespSpec.candidates lower ettl s q, a ∈ RespSpec.own lower ettl s := by
  intro a ha
  unfold RespSpec.candidates at ha
  unfold RespSpec.own
  dsimp only at ha
  split at ha
  · simp at ha; simp [ha]
  · simp only [List.mem_append] at ha
    rcases ha with ((ha | ha) | ha) | ha
    · split at ha
      · simp at ha; simp [ha]
      · simp at ha
    · split at ha
      · simp only [List.mem_append, List.mem_filter] at ha
        rcases ha with ha | ha
        · simp [ha.1]
        · split at ha
          · simp [ha]
          · simp at ha
      · simp at ha
    · split at ha
      · simp at ha; simp [ha]
      · simp at ha
    · split at ha
      · simp at ha; simp [ha]
      · simp at ha

theorem extras_sub_own (s : Svc) : ∀ a ∈ RespSpec.extras s, a ∈ RespSpec.own lower ettl s := by
  intro a ha
  unfold RespSpec.extras at ha
  unfold RespSpec.own
  simp only [List.mem_append, List.mem_cons, List.not_mem_nil, or_false] at ha ⊢
  rcases ha with ((ha | ha) | ha) | ha
  · simp [ha]
  · simp [ha]
  · exact Or.inl (Or.inr ha)
  · exact Or.inr ha

/-- **every record of the answer map belongs to a registered service** (C03's soundness theorems, for
keys and additionals alike) -/
theorem respond_records_own {reg reg' : Registry} (hi : IndexInv lower reg) (hm : AllFresh lower reg) (msgs : List Msg)
    {dict : DictRS} (h : Zc.respond lower ettl reg msgs = .ok (some dict, reg')) :
    ∀ x ∈ dictRecords dict, ∃ s ∈ reg.services, x ∈ RespSpec.own lower ettl s := by
  rcases Zc.respond_ok lower ettl hi msgs with ⟨_, hr⟩ | ⟨_, hr⟩
  · rw [hr] at h; simp at h
  · rw [hr] at h
    have hd : dict = answerMap lower ettl reg msgs := by
      have := Except.ok.inj h; exact (Option.some.inj (Prod.mk.inj this).1).symm
    subst hd
    intro x hx
    unfold dictRecords at hx
    rw [List.mem_flatMap] at hx
    obtain ⟨p, hp, hxp⟩ := hx
    simp only [List.mem_cons] at hxp
    rcases hxp with rfl | hxp
    · obtain ⟨q, _, s, hs, hc, _⟩ := answerMap_sound lower ettl hi hm msgs (a := p.1) (List.mem_map_of_mem hp)
      exact ⟨s, hs, candidates_sub_own lower ettl s q _ hc⟩
    · rcases answerMap_additionals lower ettl hm msgs p hp with h1 | ⟨s, hs, _, hall⟩
      · rw [h1] at hxp; simp at hxp
      · exact ⟨s, hs, extras_sub_own lower ettl s x (hall x hxp)⟩

theorem comp_ingestOK (hL : ListenersOK R Iρ) :
    IngestOK (down lower possible ettl R) (CInv lower ettl Iρ) := by
  intro d k hI hk
  obtain ⟨out, ho, hcache⟩ := cache_ingest_ok lower hI.cache k.now (recsOf k)
  have hnames : CacheAll RecNamesOK out.cache := ingest_all (LifeOK.ofFree recNamesOK_lifeFree) hI.names k.now (recsOf_names hk) ho
  have hfields : CacheAll RecFieldsOK out.cache := ingest_all recFieldsOK_life hI.fields k.now (recsOf_fields hk) ho
  show ∃ d' o, ingest lower possible R d k = .ok (d', o) ∧ _
  unfold ingest
  rw [ho]
  dsimp only
  cases hc1 : out.call1 with
  | none => exact ⟨_, _, rfl, ⟨hcache, hI.reg, hnames, hfields, hI.fresh, hI.safe, hI.scheds, hI.browsers, hI.rest⟩⟩
  | some call =>
    dsimp only
    obtain ⟨ss', hss, hinv⟩ := schedsStep_ok lower possible k.now call.1 d.scheds hI.scheds
    rw [hss]
    dsimp only
    obtain ⟨r1, o, hl, hr1⟩ := hL d.rest k.now call.1 call.2 out.cache out.notify hI.rest
    rw [hl]
    refine ⟨_, _, rfl, ⟨hcache, hI.reg, hnames, hfields, hI.fresh, hI.safe, hinv, ?_, hr1⟩⟩
    intro b hb
    simp only [browsersStep, List.map_map, List.mem_map] at hb
    obtain ⟨b0, _, rfl⟩ := hb
    rfl

/-! ### obligation 2: the registry and the answer computation -/

theorem own_clearMemo (s : Svc) : RespSpec.own lower ettl s.clearMemo = RespSpec.own lower ettl s := rfl

theorem regSafe_of_fields {reg reg' : Registry} (h : reg'.services.map Svc.clearMemo = reg.services.map Svc.clearMemo)
    (hs : RegSafe lower ettl reg) : RegSafe lower ettl reg' := by
  intro s' hs' r hr
  have hm : s'.clearMemo ∈ reg'.services.map Svc.clearMemo := List.mem_map_of_mem hs'
  rw [h] at hm
  obtain ⟨s, hsm, heq⟩ := List.mem_map.mp hm
  have : RespSpec.own lower ettl s' = RespSpec.own lower ettl s := by
    rw [← own_clearMemo lower ettl s', ← own_clearMemo lower ettl s, heq]
  rw [this] at hr
  exact hs s hsm r hr

/-- everything `_add_answers_additionals` puts into a packet is a record of the answer map -/
theorem packetize_sub (dd : DictRS) :
    ∀ x ∈ (Zc.packetize lower dd).1 ++ (Zc.packetize lower dd).2, x ∈ dictRecords dd := by
  intro x hx
  simp only [List.mem_append] at hx
  unfold dictRecords
  rw [List.mem_flatMap]
  rcases hx with hx | hx
  · have := (packetize_answers lower dd).mem_iff.mp hx
    obtain ⟨p, hp, rfl⟩ := List.mem_map.mp this
    exact ⟨p, hp, List.mem_cons_self⟩
  · obtain ⟨p, hp, hxp⟩ := (packetize_inv lower dd).src x hx
    exact ⟨p, hp, List.mem_cons_of_mem _ hxp⟩

theorem setOf_safe (dd : DictRS) (h : ∀ x ∈ dictRecords dd, RecSafe (wireOfRec x) 0) : SetSafe (setOf lower dd) := by
  constructor
  · intro r hr
    simp only [setOf, List.mem_map] at hr
    obtain ⟨x, hx, rfl⟩ := hr
    exact h x (packetize_sub lower dd x (List.mem_append_left _ hx))
  · intro r hr
    simp only [setOf, List.mem_map] at hr
    obtain ⟨x, hx, rfl⟩ := hr
    exact h x (packetize_sub lower dd x (List.mem_append_right _ hx))

theorem comp_answerOK (hR : RouteOK R Iρ) :
    AnswerOK (down lower possible ettl R) (CInv lower ettl Iρ) QASafe := by
  intro d ks u hI _ _
  show ∃ d' qa, answer lower ettl R d ks u = .ok (d', qa) ∧ _
  unfold answer
  rcases Zc.respond_ok lower ettl hI.reg (ks.map msgOf) with ⟨_, hr⟩ | ⟨_, hr⟩
  · rw [hr]
    exact ⟨_, none, rfl, ⟨hI.cache, hI.reg, hI.names, hI.fields, hI.fresh, hI.safe, hI.scheds, hI.browsers, hI.rest⟩, by intro q hq; cases hq⟩
  · rw [hr]
    dsimp only
    have hown := respond_records_own lower ettl hI.reg hI.fresh (ks.map msgOf) hr
    obtain ⟨r1, sel, hroute, hr1, hsel⟩ := hR d.rest d.cache ks u (answerMap lower ettl d.reg (ks.map msgOf)) hI.rest
    rw [hroute]
    refine ⟨_, _, rfl, ⟨hI.cache, warmed_inv lower hI.reg _, hI.names, hI.fields,
      fun s hs => warmed_memo lower (ks.map msgOf) (lower s.name) (fun o ho _ => hI.fresh o ho) s hs rfl,
      regSafe_of_fields lower ettl (warmed_fields lower d.reg _) hI.safe, hI.scheds, hI.browsers, hr1⟩, ?_⟩
    intro q hq
    cases hq
    have hsafe : ∀ x ∈ dictRecords sel.ucast ++ dictRecords sel.mcastNow, RecSafe (wireOfRec x) 0 := by
      intro x hx
      obtain ⟨s, hs, hxs⟩ := hown x (hsel x hx)
      exact hI.safe s hs x hxs
    exact ⟨setOf_safe lower sel.ucast (fun x hx => hsafe x (List.mem_append_left _ hx)),
           setOf_safe lower sel.mcastNow (fun x hx => hsafe x (List.mem_append_right _ hx))⟩

/-! ### obligation 3 -/

theorem comp_enqueueOK (hQ : QueueOK R Iρ) : EnqueueOK (down lower possible ettl R) (CInv lower ettl Iρ) := by
  intro d t q hI
  show CInv lower ettl Iρ (enqueue R d t q).1
  unfold enqueue
  cases d.pending with
  | none => exact hI
  | some sel => exact ⟨hI.cache, hI.reg, hI.names, hI.fields, hI.fresh, hI.safe, hI.scheds, hI.browsers, hQ d.rest t sel hI.rest⟩

/-- **`DownOK` for the composition**, from the three residual assumptions -/
theorem comp_downOK (hL : ListenersOK R Iρ) (hR : RouteOK R Iρ) (hQ : QueueOK R Iρ) :
    DownOK (down lower possible ettl R) (CInv lower ettl Iρ) QASafe :=
  ⟨comp_ingestOK lower possible ettl R Iρ hL, comp_answerOK lower possible ettl R Iρ hR,
   comp_enqueueOK lower possible ettl R Iρ hQ⟩

/-- the composite invariant holds initially: empty cache, no browsers, empty registry -/
theorem CInv.init (r0 : ρ) (h : Iρ r0) : CInv lower ettl Iρ ⟨{}, [], [], [], {}, [], [], none, r0⟩ :=
  ⟨⟨[], Refines.empty lower, List.Pairwise.nil⟩, IndexInv.empty lower,
   ⟨by intro kb hkb; simp at hkb, by intro kb hkb; simp at hkb⟩, ⟨by intro kb hkb; simp at hkb, by intro kb hkb; simp at hkb⟩,
   by intro s hs; simp at hs, by intro s hs; simp at hs,
   by intro cs hcs; simp at hcs,
   by intro b hb; simp at hb, h⟩

end

end Zc.Survive.Comp
