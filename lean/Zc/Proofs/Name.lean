import Zc.GenFacts.Name
import Zc.Model.NameSpec
/-! Helper lemmas for C19 (name validation): `split`/`join`, the regular-expression subset,
the service-label cascade and the prefix (`_sub` / instance) cascade. -/
namespace Zc.Name
open Zc.Name.Spec

/-! ### `split('.')` and `'.'.join` -/

theorem splitDot_ne_nil (s : Str) : splitDot s ≠ [] := by
  cases s with
  | nil => simp [splitDot]
  | cons c r =>
    unfold splitDot
    split
    · simp
    · split <;> simp

theorem joinDot_cons_cons (c : Char) (l : Str) (ls : List Str) : joinDot ((c :: l) :: ls) = c :: joinDot (l :: ls) := by
  cases ls <;> simp [joinDot]

theorem joinDot_splitDot (s : Str) : joinDot (splitDot s) = s := by
  induction s with
  | nil => simp [splitDot, joinDot]
  | cons c r ih =>
    unfold splitDot
    split
    · rename_i h
      cases hr : splitDot r with
      | nil => exact absurd hr (splitDot_ne_nil r)
      | cons l ls => rw [hr] at ih; simp [joinDot, ih, h]
    · split
      · rename_i hr; exact absurd hr (splitDot_ne_nil r)
      · rename_i l ls hr
        rw [hr] at ih
        rw [joinDot_cons_cons, ih]

theorem splitDot_cons_dot (r : Str) : splitDot ('.' :: r) = [] :: splitDot r := by
  rw [splitDot]; simp

theorem splitDot_cons_ne (c : Char) (r l : Str) (ls : List Str) (h : c ≠ '.') (hr : splitDot r = l :: ls) :
    splitDot (c :: r) = (c :: l) :: ls := by
  rw [splitDot]; simp [h, hr]

theorem splitDot_append_dot (a b : Str) : splitDot (a ++ '.' :: b) = splitDot a ++ splitDot b := by
  induction a with
  | nil => simp [splitDot_cons_dot, splitDot]
  | cons c a ih =>
    simp only [List.cons_append]
    by_cases hc : c = '.'
    · subst hc
      rw [splitDot_cons_dot, splitDot_cons_dot, ih]; simp
    · cases ha : splitDot a with
      | nil => exact absurd ha (splitDot_ne_nil a)
      | cons l ls =>
        rw [splitDot_cons_ne c a l ls hc ha, splitDot_cons_ne c (a ++ '.' :: b) l (ls ++ splitDot b) hc (by rw [ih, ha]; simp)]
        simp

theorem splitDot_of_no_dot (l : Str) (h : '.' ∉ l) : splitDot l = [l] := by
  induction l with
  | nil => simp [splitDot]
  | cons c r ih =>
    have hc : c ≠ '.' := fun e => h (by simp [e])
    have hr : '.' ∉ r := fun e => h (by simp [e])
    unfold splitDot
    simp [hc, ih hr]

/-- a string either has no dot or splits at its last dot -/
theorem exists_last_dot (s : Str) : '.' ∉ s ∨ ∃ p l, s = p ++ '.' :: l ∧ '.' ∉ l := by
  induction s with
  | nil => left; simp
  | cons c r ih =>
    rcases ih with h | ⟨p, l, hs, hl⟩
    · by_cases hc : c = '.'
      · right; exact ⟨[], r, by simp [hc], h⟩
      · left; simp [h, Ne.symm hc]
    · right; exact ⟨c :: p, l, by simp [hs], hl⟩

theorem splitDot_snoc (p l : Str) (hl : '.' ∉ l) : splitDot (p ++ '.' :: l) = splitDot p ++ [l] := by
  rw [splitDot_append_dot, splitDot_of_no_dot l hl]

/-- the position of the last dot is unique -/
theorem last_dot_unique {a b x y : Str} (hx : '.' ∉ x) (hy : '.' ∉ y) (h : a ++ '.' :: x = b ++ '.' :: y) : a = b ∧ x = y := by
  have h1 := congrArg splitDot h
  rw [splitDot_snoc a x hx, splitDot_snoc b y hy] at h1
  have h2 := List.append_inj' h1 rfl
  refine ⟨?_, by simpa using h2.2⟩
  have := congrArg joinDot h2.1
  simpa [joinDot_splitDot] using this

theorem splitDot_head_empty_iff (q : Str) : ((splitDot q).headD []).length = 0 ↔ q = [] ∨ q.head? = some '.' := by
  cases q with
  | nil => simp [splitDot]
  | cons c r =>
    unfold splitDot
    split
    · rename_i h; simp [h]
    · rename_i h
      split <;> simp [h]

/-! ### the regular expressions -/

theorem searchFrom_class (a : Bool) (rs : List (Nat × Nat)) (s : Str) :
    searchFrom ⟨a, rs, false, .none⟩ s = true ↔ ∃ c ∈ s, inRanges rs c = true := by
  induction s with
  | nil => simp [searchFrom]
  | cons c r ih => simp [searchFrom, matchAt, endOk, ih]

theorem matchPlus_absZ (rs : List (Nat × Nat)) (s : Str) :
    matchPlus rs .absZ s = true ↔ s ≠ [] ∧ ∀ c ∈ s, inRanges rs c = true := by
  induction s with
  | nil => simp [matchPlus]
  | cons c r ih =>
    simp only [matchPlus, endOk, Bool.and_eq_true, Bool.or_eq_true, ih]
    cases r <;> simp

theorem toNat_eq_hyphen (c : Char) : c.toNat = 45 ↔ c = '-' :=
  ⟨fun h => Char.toNat_inj.mp h, fun h => by subst h; rfl⟩

theorem toNat_eq_underscore (c : Char) : c.toNat = 95 ↔ c = '_' :=
  ⟨fun h => Char.toNat_inj.mp h, fun h => by subst h; rfl⟩

def letterPat : Pat := ⟨false, [(65, 90), (97, 122)], false, .none⟩
def ctrlPat : Pat := ⟨false, [(0, 31), (127, 127)], false, .none⟩
def charsPat (strict : Bool) : Pat :=
  ⟨true, if strict then [(65, 90), (97, 122), (48, 57), (45, 45)] else [(65, 90), (97, 122), (48, 57), (45, 45), (95, 95)], true, .absZ⟩

theorem inRanges_letter (c : Char) : inRanges letterPat.ranges c = true ↔ isLetter c := by
  simp [letterPat, inRanges, isLetter]

theorem inRanges_ctrl (c : Char) : inRanges ctrlPat.ranges c = true ↔ isCtrl c := by
  simp [ctrlPat, inRanges, isCtrl]; omega

theorem reSearch_letter (s : Str) : reSearch letterPat s = true ↔ ∃ c ∈ s, isLetter c := by
  have h : reSearch letterPat s = searchFrom ⟨false, letterPat.ranges, false, .none⟩ s := by simp [reSearch, letterPat]
  rw [h, searchFrom_class]; simp only [inRanges_letter]

theorem reSearch_ctrl (s : Str) : reSearch ctrlPat s = true ↔ ∃ c ∈ s, isCtrl c := by
  have h : reSearch ctrlPat s = searchFrom ⟨false, ctrlPat.ranges, false, .none⟩ s := by simp [reSearch, ctrlPat]
  rw [h, searchFrom_class]; simp only [inRanges_ctrl]

theorem inRanges_chars (strict : Bool) (c : Char) : inRanges (charsPat strict).ranges c = true ↔ svcChar strict c := by
  cases strict <;>
    simp [charsPat, inRanges, svcChar, isLetter, isDigit, ← toNat_eq_hyphen, ← toNat_eq_underscore] <;> omega

theorem reSearch_chars (strict : Bool) (s : Str) : reSearch (charsPat strict) s = true ↔ s ≠ [] ∧ ∀ c ∈ s, svcChar strict c := by
  have h : reSearch (charsPat strict) s = matchPlus (charsPat strict).ranges .absZ s := by
    cases s <;> simp [reSearch, charsPat, matchAt, matchPlus]
  rw [h, matchPlus_absZ]
  simp only [inRanges_chars]

theorem reSearchS_letter (s : Str) : reSearchS Gen.hasAToZPattern s = .ok (reSearch letterPat s) := by
  simp [reSearchS, GenFacts.hasAToZ_pat, letterPat]

theorem reSearchS_ctrl (s : Str) : reSearchS Gen.hasAsciiControlCharsPattern s = .ok (reSearch ctrlPat s) := by
  simp [reSearchS, GenFacts.ctrl_pat, ctrlPat]

theorem reSearchS_chars (strict : Bool) (s : Str) :
    reSearchS (if strict then Gen.hasOnlyAToZNumHyphenPattern else Gen.hasOnlyAToZNumHyphenUnderscorePattern) s
      = .ok (reSearch (charsPat strict) s) := by
  cases strict <;> simp [reSearchS, GenFacts.strictChars_pat, GenFacts.looseChars_pat, charsPat]

theorem hasDoubleHyphen_iff (s : Str) : hasDoubleHyphen s = true ↔ ['-', '-'] <:+: s := by
  induction s with
  | nil => simp [hasDoubleHyphen]
  | cons a r ih =>
    cases r with
    | nil => simp [hasDoubleHyphen, List.infix_cons_iff]
    | cons b r =>
      rw [hasDoubleHyphen, List.infix_cons_iff, ← ih]
      simp only [List.cons_prefix_cons, List.nil_prefix, and_true, Bool.or_eq_true, Bool.and_eq_true, beq_iff_eq]
      constructor <;> (rintro (⟨h1, h2⟩ | h) <;> first | (left; exact ⟨h1.symm, h2.symm⟩) | (right; simpa using h) | (right; simpa [ih] using h))

/-! ### the service-label cascade -/

theorem svcBody_iff (strict : Bool) (b : Str) : SvcBody strict b ↔
    b ≠ [] ∧ (∀ c ∈ b, svcChar strict c) ∧ b.head? ≠ some '-' ∧ b.getLast? ≠ some '-' ∧ ¬ ['-', '-'] <:+: b
      ∧ (∃ c ∈ b, isLetter c) ∧ (strict = true → b.length ≤ 15) :=
  ⟨fun ⟨h1, h2, h3, h4, h5, h6, h7⟩ => ⟨h1, h2, h3, h4, h5, h6, h7⟩, fun ⟨h1, h2, h3, h4, h5, h6, h7⟩ => ⟨h1, h2, h3, h4, h5, h6, h7⟩⟩

open Classical in
/-- the cascade on a non-empty label, as one conditional -/
theorem checkService_cons (strict : Bool) (c0 : Char) (test : Str) :
    checkService strict (c0 :: test) = if c0 = '_' ∧ SvcBody strict test then .ok () else .error .badType := by
  rw [checkService]
  simp only [reSearchS_letter, reSearchS_chars]
  by_cases h0 : c0 = '_'
  case neg => simp [h0]
  simp only [h0, ne_eq, not_true_eq_false, if_false, true_and]
  cases test with
  | nil =>
    have : Gen.Name.svc_empty 0 = true := (GenFacts.svc_empty_iff 0).2 rfl
    have hb : ¬ SvcBody strict [] := fun h => h.nonempty rfl
    simp [this, hb]
  | cons a r =>
    have he : Gen.Name.svc_empty (a :: r).length = false := by
      rw [Bool.eq_false_iff]; intro h; have := (GenFacts.svc_empty_iff _).1 h; simp at this
    obtain ⟨b, hb⟩ : ∃ b, (a :: r).getLast? = some b := ⟨_, List.getLast?_eq_some_getLast (by simp)⟩
    simp only [he, Bool.false_eq_true, if_false, List.head?_cons, hb]
    rw [svcBody_iff]
    by_cases hl : Gen.Name.svc_too_long strict (a :: r).length = true
    · have := (GenFacts.svc_too_long_iff _ _).1 hl
      rw [if_pos hl, if_neg]; rintro ⟨_, _, _, _, _, _, h7⟩; have h7' := h7 this.1; have h8 := this.2; simp only [List.length_cons] at h7' h8; omega
    rw [if_neg hl]
    have hl' : strict = true → (a :: r).length ≤ 15 := fun hs => by
      have := mt (GenFacts.svc_too_long_iff strict (a :: r).length).2 hl; simp [hs] at this; simp only [List.length_cons]; omega
    by_cases hd : hasDoubleHyphen (a :: r) = true
    · rw [if_pos hd, if_neg]; rintro ⟨_, _, _, _, h5, _⟩; exact h5 ((hasDoubleHyphen_iff _).1 hd)
    rw [if_neg hd]
    have hd' : ¬ ['-', '-'] <:+: (a :: r) := fun h => hd ((hasDoubleHyphen_iff _).2 h)
    by_cases hh : a = '-' ∨ b = '-'
    · rw [if_pos hh, if_neg]; rintro ⟨_, _, h3, h4, _⟩
      rcases hh with h | h
      · exact h3 (by simp [h])
      · exact h4 (by simp [hb, h])
    rw [if_neg hh]
    have hh1 : (some a : Option Char) ≠ some '-' := fun h => hh (Or.inl (by simpa using h))
    have hh2 : (some b : Option Char) ≠ some '-' := fun h => hh (Or.inr (by simpa using h))
    cases hL : reSearch letterPat (a :: r) with
    | false =>
      have : ¬ ∃ c ∈ a :: r, isLetter c := fun h => by rw [← reSearch_letter, hL] at h; cases h
      rw [if_neg]; rintro ⟨_, _, _, _, _, h6, _⟩; exact this h6
    | true =>
      have hL' := (reSearch_letter _).1 hL
      cases hC : reSearch (charsPat strict) (a :: r) with
      | false =>
        have : ¬ ((a :: r) ≠ [] ∧ ∀ c ∈ a :: r, svcChar strict c) := fun h => by rw [← reSearch_chars, hC] at h; cases h
        rw [if_neg]; rintro ⟨h1, h2, _⟩; exact this ⟨h1, h2⟩
      | true =>
        have hC' := (reSearch_chars _ _).1 hC
        rw [if_pos]
        exact ⟨hC'.1, hC'.2, hh1, by rw [hb]; exact hh2, hd', hL', hl'⟩

theorem checkService_ok_iff (strict : Bool) (sn : Str) : checkService strict sn = .ok () ↔ SvcLabel strict sn := by
  cases sn with
  | nil => simp [checkService, SvcLabel]
  | cons c0 test =>
    rw [checkService_cons]
    constructor
    · intro h
      split at h
      · rename_i hc; exact ⟨test, by rw [hc.1], hc.2⟩
      · cases h
    · rintro ⟨b, hb, hB⟩
      injection hb with h1 h2
      subst h1 h2
      rw [if_pos ⟨rfl, hB⟩]

theorem checkService_error (strict : Bool) (sn : Str) (e : PyExc) (hne : sn ≠ []) (h : checkService strict sn = .error e) :
    e = .badType := by
  cases sn with
  | nil => exact absurd rfl hne
  | cons c0 test =>
    rw [checkService_cons] at h
    split at h
    · cases h
    · injection h with h; exact h.symm

/-! ### the prefix cascade (`_sub`, joining, instance label) -/

theorem utf8Size_eq (c : Char) :
    Char.utf8Size c = (if c.toNat < 0x80 then 1 else if c.toNat < 0x800 then 2 else if c.toNat < 0x10000 then 3 else 4) := by
  simp only [Char.utf8Size, UInt32.le_iff_toNat_le, Char.toNat_val, UInt32.toNat_ofNatLT]
  repeat' split
  all_goals omega

theorem utf8Len_eq (s : Str) : utf8Len s = utf8Bytes s := by
  induction s with
  | nil => rfl
  | cons c r ih => simp only [utf8Len, utf8Bytes, List.map_cons, List.sum_cons, utf8Size_eq] at *; rw [ih]

open Classical in
theorem checkInst_eq (i : Str) : checkInst i = if InstOk i then .ok () else .error .badType := by
  rw [checkInst, reSearchS_ctrl, utf8Len_eq]
  by_cases hl : Gen.Name.inst_too_long (utf8Bytes i) = true
  · have := (GenFacts.inst_too_long_iff _).1 hl
    rw [if_pos hl, if_neg]; rintro ⟨h, _⟩; omega
  rw [if_neg hl]
  have hl' : utf8Bytes i ≤ 63 := by
    have := mt (GenFacts.inst_too_long_iff (utf8Bytes i)).2 hl; omega
  cases hc : reSearch ctrlPat i with
  | true =>
    have ⟨c, hc1, hc2⟩ := (reSearch_ctrl i).1 hc
    rw [if_neg]; rintro ⟨_, h⟩; exact h c hc1 hc2
  | false =>
    rw [if_pos]
    refine ⟨hl', fun c hc1 hc2 => ?_⟩
    have := (reSearch_ctrl i).2 ⟨c, hc1, hc2⟩
    rw [hc] at this; cases this

theorem subLabel_eq : Zc.Name.subLabel = Spec.subLabel := by decide
theorem subSuffix_eq : Spec.subSuffix = '.' :: Spec.subLabel := by decide
theorem subLabel_no_dot : '.' ∉ Spec.subLabel := by decide

theorem getLast_splitDot_sub (p : Str) :
    (splitDot p).getLast? = some Spec.subLabel ↔ p = Spec.subLabel ∨ Spec.subSuffix <:+ p := by
  rcases exists_last_dot p with h | ⟨q, l, hp, hl⟩
  · rw [splitDot_of_no_dot p h]
    constructor
    · intro h1; left; simpa using h1
    · rintro (h1 | ⟨t, ht⟩)
      · simp [h1]
      · exfalso; apply h; rw [← ht, subSuffix_eq]; simp
  · subst hp
    rw [splitDot_snoc q l hl]
    simp only [List.getLast?_append, List.getLast?_singleton, Option.some_or, Option.some.injEq]
    constructor
    · intro h1; right; exact ⟨q, by rw [subSuffix_eq, h1]⟩
    · rintro (h1 | ⟨t, ht⟩)
      · exfalso; have : '.' ∈ Spec.subLabel := by rw [← h1]; simp
        exact subLabel_no_dot this
      · rw [subSuffix_eq] at ht
        exact ((last_dot_unique subLabel_no_dot hl ht).2).symm

theorem popSub_sub (q : Str) :
    popSub (splitDot (q ++ Spec.subSuffix)) = if q = [] ∨ q.head? = some '.' then .error .badType else .ok (splitDot q) := by
  have h : (splitDot (q ++ Spec.subSuffix)).getLast? = some Zc.Name.subLabel := by
    rw [subLabel_eq, getLast_splitDot_sub]; right; exact ⟨q, rfl⟩
  rw [popSub, if_pos h, subSuffix_eq, splitDot_snoc q _ subLabel_no_dot]
  simp only [List.dropLast_concat, splitDot_head_empty_iff]
  have : (splitDot q).length ≠ 0 := by
    intro h0; exact splitDot_ne_nil q (List.eq_nil_of_length_eq_zero h0)
  simp [this]

theorem popSub_other (p : Str) (h1 : p ≠ Spec.subLabel) (h2 : ¬ Spec.subSuffix <:+ p) : popSub (splitDot p) = .ok (splitDot p) := by
  have h : ¬ (splitDot p).getLast? = some Zc.Name.subLabel := by
    rw [subLabel_eq, getLast_splitDot_sub]; rintro (h | h)
    · exact h1 h
    · exact h2 h
  rw [popSub, if_neg h]

theorem popSub_subLabel : popSub (splitDot Spec.subLabel) = .error .badType := by rfl

theorem finish_of_popSub_ok (rem r : List Str) (result : Str) (h : popSub rem = .ok r) (hr : r ≠ []) :
    finish rem result = (match checkInst (joinDot r) with | .error e => .error e | .ok () => .ok result) := by
  rw [finish, h]
  match r, hr with
  | [x], _ => rfl
  | x :: y :: z, _ => rfl

theorem finish_nil (result : Str) : finish [] result = .ok result := by
  simp [finish, popSub]

theorem not_prefixOk_subLabel : ¬ PrefixOk Spec.subLabel := by
  intro h
  generalize hp : Spec.subLabel = p at h
  cases h with
  | inst _ h2 _ => exact h2 hp.symm
  | subtype _ _ _ =>
    have := congrArg List.length hp
    simp [Spec.subLabel, Spec.subSuffix] at this

theorem prefixOk_sub_iff (q : Str) : PrefixOk (q ++ Spec.subSuffix) ↔ q ≠ [] ∧ q.head? ≠ some '.' ∧ InstOk q := by
  constructor
  · intro h
    generalize hp : q ++ Spec.subSuffix = p at h
    cases h with
    | inst _ _ h3 => exact absurd ⟨q, hp⟩ h3
    | subtype h1 h2 h3 =>
      have := List.append_cancel_right hp
      subst this; exact ⟨h1, h2, h3⟩
  · rintro ⟨h1, h2, h3⟩; exact PrefixOk.subtype h1 h2 h3

theorem prefixOk_other_iff (p : Str) (h1 : p ≠ Spec.subLabel) (h2 : ¬ Spec.subSuffix <:+ p) : PrefixOk p ↔ InstOk p := by
  constructor
  · intro h
    cases h with
    | inst h _ _ => exact h
    | subtype _ _ _ => exact absurd ⟨_, rfl⟩ h2
  · intro h; exact PrefixOk.inst h h1 h2

open Classical in
/-- the prefix cascade accepts exactly the documented prefixes, and fails only with `BadTypeInNameException` -/
theorem finish_splitDot (p result : Str) : finish (splitDot p) result = if PrefixOk p then .ok result else .error .badType := by
  by_cases h1 : p = Spec.subLabel
  · subst h1
    rw [if_neg not_prefixOk_subLabel, finish, popSub_subLabel]
  by_cases h2 : Spec.subSuffix <:+ p
  · obtain ⟨q, rfl⟩ := h2
    by_cases hq : q = [] ∨ q.head? = some '.'
    · have : ¬ PrefixOk (q ++ Spec.subSuffix) := by
        rw [prefixOk_sub_iff]; rintro ⟨a, b, _⟩; rcases hq with h | h
        · exact a h
        · exact b h
      rw [if_neg this, finish, popSub_sub, if_pos hq]
    · have hp : popSub (splitDot (q ++ Spec.subSuffix)) = .ok (splitDot q) := by rw [popSub_sub, if_neg hq]
      rw [finish_of_popSub_ok _ _ _ hp (splitDot_ne_nil q), joinDot_splitDot, checkInst_eq, prefixOk_sub_iff]
      have hq' : q ≠ [] ∧ q.head? ≠ some '.' := ⟨fun h => hq (Or.inl h), fun h => hq (Or.inr h)⟩
      by_cases hi : InstOk q
      · rw [if_pos hi, if_pos ⟨hq'.1, hq'.2, hi⟩]
      · rw [if_neg hi, if_neg]; rintro ⟨_, _, h⟩; exact hi h
  · rw [finish_of_popSub_ok _ _ _ (popSub_other p h1 h2) (splitDot_ne_nil p), joinDot_splitDot, checkInst_eq,
      prefixOk_other_iff p h1 h2]
    by_cases hi : InstOk p
    · rw [if_pos hi, if_pos hi]
    · rw [if_neg hi, if_neg hi]

/-! ### the whole validator -/

theorem svcChar_ne_dot (strict : Bool) (c : Char) (h : svcChar strict c) : c ≠ '.' := by
  rintro rfl; revert h; cases strict <;> decide

theorem svcLabel_no_dot {strict : Bool} {l : Str} (h : SvcLabel strict l) : '.' ∉ l := by
  obtain ⟨b, rfl, hb⟩ := h
  intro hm
  rcases List.mem_cons.1 hm with h | h
  · cases h
  · exact svcChar_ne_dot strict _ (hb.chars _ h) rfl

theorem svcLabel_ne_nil {strict : Bool} {l : Str} (h : SvcLabel strict l) : l ≠ [] := by
  obtain ⟨b, rfl, _⟩ := h; simp

open Classical in
theorem withService_no_dot (strict : Bool) (body tr : Str) (h : '.' ∉ body) :
    withService strict (splitDot body) tr = if SvcLabel strict body then .ok (body ++ tr) else .error .badType := by
  rw [splitDot_of_no_dot body h, withService]
  simp only [List.getLast?_singleton, List.dropLast_singleton]
  by_cases hb : body = []
  · subst hb; rw [if_pos rfl, if_neg]; rintro ⟨b, hb, _⟩; cases hb
  rw [if_neg hb, if_neg (by simp)]
  by_cases hs : SvcLabel strict body
  · rw [(checkService_ok_iff _ _).2 hs, if_pos hs]; simp only [finish_nil]
  · rw [if_neg hs]
    match hc : checkService strict body with
    | .ok () => exact absurd ((checkService_ok_iff _ _).1 hc) hs
    | .error e => rw [checkService_error strict body e hb hc]

theorem splitDot_single_empty (q : Str) : ((splitDot q).length = 1 ∧ ((splitDot q).headD []).length = 0) ↔ q = [] := by
  constructor
  · rintro ⟨h1, h2⟩
    match hq : splitDot q, h1, h2 with
    | [x], _, h2 =>
      have hx : x = [] := List.eq_nil_of_length_eq_zero (by simpa [hq] using h2)
      have := joinDot_splitDot q
      rw [hq, hx] at this; simpa [joinDot] using this.symm
  · rintro rfl; simp [splitDot]

open Classical in
theorem withService_dot (strict : Bool) (q l tr : Str) (hl : '.' ∉ l) :
    withService strict (splitDot (q ++ '.' :: l)) tr =
      if q ≠ [] ∧ SvcLabel strict l ∧ PrefixOk q then .ok (l ++ tr) else .error .badType := by
  rw [splitDot_snoc q l hl, withService]
  simp only [List.getLast?_concat, List.dropLast_concat, splitDot_single_empty]
  by_cases hb : l = []
  · subst hb; rw [if_pos rfl, if_neg]; rintro ⟨_, ⟨b, hb, _⟩, _⟩; cases hb
  rw [if_neg hb]
  by_cases hq : q = []
  · rw [if_pos hq, if_neg]; rintro ⟨h, _⟩; exact h hq
  rw [if_neg hq]
  by_cases hs : SvcLabel strict l
  · rw [(checkService_ok_iff _ _).2 hs]
    simp only [finish_splitDot]
    by_cases hp : PrefixOk q
    · rw [if_pos hp, if_pos ⟨hq, hs, hp⟩]
    · rw [if_neg hp, if_neg]; rintro ⟨_, _, h⟩; exact hp h
  · rw [if_neg (fun h => hs h.2.1)]
    match hc : checkService strict l with
    | .ok () => exact absurd ((checkService_ok_iff _ _).1 hc) hs
    | .error e => rw [checkService_error strict l e hb hc]

theorem protoTrailers_eq : protoTrailers = [tcpT, udpT] := by decide

theorem proto_length {tr : Str} (h : tr ∈ protoTrailers) : tr.length = 12 := by
  simp only [protoTrailers, List.mem_cons, List.mem_nil_iff, or_false] at h
  rcases h with h | h <;> subst h <;> rfl

theorem proto_suffix_iff (s : Str) : (tcpT <:+ s ∨ udpT <:+ s) ↔ ∃ tr ∈ protoTrailers, tr <:+ s := by
  simp [protoTrailers_eq]

theorem localT_spec : localT = Spec.localTrailer := by decide

/-- `type_[:-len(T)]`, `type_[-len(T):]` -/
theorem take_drop_suffix (body tr : Str) (n : Nat) (hn : tr.length = n) :
    (body ++ tr).take ((body ++ tr).length - n) = body ∧ (body ++ tr).drop ((body ++ tr).length - n) = tr := by
  have : (body ++ tr).length - n = body.length := by simp [List.length_append]; omega
  rw [this]; simp

/-- everything the validator does, as one case distinction on the shape of the input -/
theorem serviceTypeName_proto (s body tr : Str) (strict : Bool) (hlen : s.length ≤ 256) (htr : tr ∈ protoTrailers)
    (hs : s = body ++ tr) : serviceTypeName s strict = withService strict (splitDot body) tr := by
  have h1 : Gen.Name.name_too_long s.length = false := by
    rw [Bool.eq_false_iff]; intro h; have := (GenFacts.name_too_long_iff _).1 h; omega
  have h2 : tcpT <:+ s ∨ udpT <:+ s := (proto_suffix_iff s).2 ⟨tr, htr, body, hs.symm⟩
  have h3 : tcpT.length = 12 := by rw [GenFacts.tcpT_eq]; rfl
  rw [serviceTypeName, h1]
  simp only [Bool.false_eq_true, if_false, if_pos h2, h3]
  subst hs
  have := take_drop_suffix body tr 12 (proto_length htr)
  rw [this.1, this.2]

theorem serviceTypeName_long (s : Str) (strict : Bool) (hlen : 256 < s.length) : serviceTypeName s strict = .error .badType := by
  rw [serviceTypeName, (GenFacts.name_too_long_iff _).2 hlen]; simp

theorem serviceTypeName_strict_noproto (s : Str) (hlen : s.length ≤ 256) (h : ¬ ∃ tr ∈ protoTrailers, tr <:+ s) :
    serviceTypeName s true = .error .badType := by
  have h1 : Gen.Name.name_too_long s.length = false := by
    rw [Bool.eq_false_iff]; intro h; have := (GenFacts.name_too_long_iff _).1 h; omega
  rw [serviceTypeName, h1]
  simp only [Bool.false_eq_true, if_false, if_neg (mt (proto_suffix_iff s).1 h), if_true]

theorem serviceTypeName_bare (p : Str) (hlen : (p ++ Spec.localTrailer).length ≤ 256)
    (h : ¬ ∃ tr ∈ protoTrailers, tr <:+ p ++ Spec.localTrailer) :
    serviceTypeName (p ++ Spec.localTrailer) false = finish (splitDot p) Spec.localType := by
  have h1 : Gen.Name.name_too_long (p ++ Spec.localTrailer).length = false := by
    rw [Bool.eq_false_iff]; intro h; have := (GenFacts.name_too_long_iff _).1 h; omega
  rw [serviceTypeName, h1]
  simp only [Bool.false_eq_true, if_false, if_neg (mt (proto_suffix_iff _).1 h), localT_spec]
  rw [if_pos ⟨p, rfl⟩]
  have a := (take_drop_suffix p Spec.localTrailer 7 rfl).1
  have b : (p ++ Spec.localTrailer).drop ((p ++ Spec.localTrailer).length - (7 - 1)) = Spec.localType := by
    have e : p ++ Spec.localTrailer = (p ++ ['.']) ++ Spec.localType := by simp [Spec.localTrailer, Spec.localType]
    have := (take_drop_suffix (p ++ ['.']) Spec.localType 6 rfl).2
    rw [← e] at this
    exact this
  have c : Spec.localTrailer.length = 7 := rfl
  rw [c, a, b]

theorem serviceTypeName_nolocal (s : Str) (hlen : s.length ≤ 256) (h : ¬ ∃ tr ∈ protoTrailers, tr <:+ s)
    (h' : ¬ Spec.localTrailer <:+ s) : serviceTypeName s false = .error .badType := by
  have h1 : Gen.Name.name_too_long s.length = false := by
    rw [Bool.eq_false_iff]; intro h; have := (GenFacts.name_too_long_iff _).1 h; omega
  rw [serviceTypeName, h1]
  simp only [Bool.false_eq_true, if_false, if_neg (mt (proto_suffix_iff s).1 h), localT_spec, if_neg h']

/-! ### inversion of the grammar -/

theorem valid_inv {strict : Bool} {s t : Str} (h : Valid strict s t) :
    (∃ svc tr, tr ∈ protoTrailers ∧ SvcLabel strict svc ∧ s = svc ++ tr ∧ t = svc ++ tr)
    ∨ (∃ p svc tr, tr ∈ protoTrailers ∧ SvcLabel strict svc ∧ p ≠ [] ∧ PrefixOk p ∧ s = (p ++ '.' :: svc) ++ tr ∧ t = svc ++ tr)
    ∨ (strict = false ∧ ∃ p, (∀ tr ∈ protoTrailers, ¬ tr <:+ s) ∧ PrefixOk p ∧ s = p ++ localTrailer ∧ t = localType) := by
  cases h with
  | service a b => exact Or.inl ⟨_, _, a, b, rfl, rfl⟩
  | prefixed a b c d => exact Or.inr (Or.inl ⟨_, _, _, a, b, c, d, by simp, rfl⟩)
  | bareLocal a b c => exact Or.inr (Or.inr ⟨a, _, b, c, rfl, rfl⟩)

theorem split_trailer {a b tr tr' : Str} (h1 : tr ∈ protoTrailers) (h2 : tr' ∈ protoTrailers) (h : a ++ tr = b ++ tr') :
    a = b ∧ tr = tr' :=
  List.append_inj' h (by rw [proto_length h1, proto_length h2])


end Zc.Name
