import Zc.Proofs.Ingest
import Zc.Proofs.CacheExpire
/-! The state after one datagram, identity by identity, over the reference store; and: the record
manager never raises `KeyError`. -/
namespace Zc

section
variable (lower : String → String)

/-- the records of a datagram as the loop sees them: stamped with the arrival time, PTR TTLs floored -/
def effective (now : Ms) (recs : List Rec) : List Rec := (stamp now recs).map floorPtr

/-- the `(name, type, class)` set handed to the flush -/
def uniqueTriples (D : List Rec) : List (String × Nat × Nat) := (D.filter (fun r => r.unique)).map (fun r => (r.name, r.type, r.class_))

/-- the flush applied to one cached record -/
def markOne (now : Ms) (D : List Rec) (e : Rec) : Rec :=
  if Cache.flushHit lower (uniqueTriples D) D now e then e.setLife now 1 else e

/-- the goodbye set: `removes` -/
def goodbyes (now : Ms) (s : List Rec) (D : List Rec) : List Rec :=
  D.foldl (fun l r => if isGoodbye lower now s r then setInsert lower l r else l) []

variable {lower}

@[simp] theorem ident_markOne (now : Ms) (D : List Rec) (e : Rec) : (markOne lower now D e).ident lower = e.ident lower := by
  unfold markOne; split <;> simp

@[simp] theorem setLife_setLife (e : Rec) (a c : Ms) (b d : Nat) : (e.setLife a b).setLife c d = e.setLife c d := rfl

theorem setInsert_pairwise {l : List Rec} (h : l.Pairwise (fun a b => a.ident lower ≠ b.ident lower)) (r : Rec) :
    (setInsert lower l r).Pairwise (fun a b => a.ident lower ≠ b.ident lower) := by
  unfold setInsert
  split
  · exact h
  · rename_i hany
    rw [List.pairwise_append]
    refine ⟨h, by simp, ?_⟩
    intro a ha b hb
    simp only [List.mem_singleton] at hb; subst hb
    intro heq
    exact hany (List.any_eq_true.2 ⟨a, ha, (beq_iff_ident lower a b).2 heq⟩)

theorem setInsert_any (l : List Rec) (r q : Rec) :
    (setInsert lower l r).any (fun x => decide (x.ident lower = q.ident lower))
      = (l.any (fun x => decide (x.ident lower = q.ident lower)) || decide (r.ident lower = q.ident lower)) := by
  unfold setInsert
  split
  · rename_i hany
    by_cases h : r.ident lower = q.ident lower
    · obtain ⟨x, hx, hb⟩ := List.any_eq_true.1 hany
      have : l.any (fun x => decide (x.ident lower = q.ident lower)) = true :=
        List.any_eq_true.2 ⟨x, hx, by simp [((beq_iff_ident lower x r).1 hb).trans h]⟩
      simp [this]
    · simp [h]
  · simp [List.any_append]

theorem setInsert_mem {l : List Rec} {r x : Rec} (h : x ∈ setInsert lower l r) : x ∈ l ∨ x = r := by
  unfold setInsert at h
  split at h
  · exact Or.inl h
  · simpa using h

theorem goodbyes_aux (now : Ms) (s : List Rec) (D : List Rec) (init : List Rec)
    (hinit : init.Pairwise (fun a b => a.ident lower ≠ b.ident lower)) :
    let g := D.foldl (fun l r => if isGoodbye lower now s r then setInsert lower l r else l) init
    g.Pairwise (fun a b => a.ident lower ≠ b.ident lower)
    ∧ (∀ x ∈ g, x ∈ init ∨ (x ∈ D ∧ isGoodbye lower now s x = true))
    ∧ ∀ q : Rec, g.any (fun x => decide (x.ident lower = q.ident lower))
        = (init.any (fun x => decide (x.ident lower = q.ident lower))
           || D.any (fun r => isGoodbye lower now s r && decide (r.ident lower = q.ident lower))) := by
  induction D generalizing init with
  | nil => exact ⟨hinit, fun x hx => Or.inl hx, fun q => by simp⟩
  | cons r t ih =>
    simp only [List.foldl_cons]
    by_cases hg : isGoodbye lower now s r = true
    · simp only [hg, if_true]
      obtain ⟨h1, h2, h3⟩ := ih (setInsert lower init r) (setInsert_pairwise hinit r)
      refine ⟨h1, ?_, ?_⟩
      · intro x hx
        rcases h2 x hx with h | h
        · rcases setInsert_mem h with h | h
          · exact Or.inl h
          · subst h; exact Or.inr ⟨by simp, hg⟩
        · exact Or.inr ⟨by simp [h.1], h.2⟩
      · intro q; rw [h3 q, setInsert_any, List.any_cons, hg]; simp [Bool.or_assoc]
    · simp only [hg, if_false, Bool.false_eq_true]
      obtain ⟨h1, h2, h3⟩ := ih init hinit
      refine ⟨h1, ?_, ?_⟩
      · intro x hx
        rcases h2 x hx with h | h
        · exact Or.inl h
        · exact Or.inr ⟨by simp [h.1], h.2⟩
      · intro q; rw [h3 q, List.any_cons]; simp [hg]

theorem goodbyes_spec (now : Ms) (s : List Rec) (D : List Rec) :
    (goodbyes lower now s D).Pairwise (fun a b => a.ident lower ≠ b.ident lower)
    ∧ (∀ x ∈ goodbyes lower now s D, x ∈ D ∧ isGoodbye lower now s x = true)
    ∧ ∀ q : Rec, (goodbyes lower now s D).any (fun x => decide (x.ident lower = q.ident lower))
        = D.any (fun r => isGoodbye lower now s r && decide (r.ident lower = q.ident lower)) := by
  obtain ⟨h1, h2, h3⟩ := goodbyes_aux (lower := lower) now s D [] List.Pairwise.nil
  refine ⟨h1, fun x hx => ?_, fun q => by unfold goodbyes; rw [h3 q]; simp⟩
  rcases h2 x hx with h | h
  · cases h
  · exact h

theorem markFlush_nil (c : List Rec) (ans : List Rec) (now : Ms) : Flat.markFlush lower c [] ans now = c := by
  unfold Flat.markFlush
  have : (fun e : Rec => if Cache.flushHit lower [] ans now e = true then e.setLife now 1 else e) = id := by
    funext e; simp [Cache.flushHit]
  rw [this]; simp

/-- the state of the reference store when `async_update_records` is called -/
theorem ingestPre_flat (s : List Rec) (now : Ms) (recs : List Rec) :
    let D := effective now recs
    let a := ingestPre lower (Flat.ops lower) s now recs
    a.cache = (s.map (refresh lower now D)).map (markOne lower now D)
    ∧ a.updates = D.flatMap (fun r => (updOf lower now s r).toList)
    ∧ a.addrAdds = D.filter (fun r => isNewAdd lower now s r && Gen.Cache.is_address_type r.type)
    ∧ a.otherAdds = D.filter (fun r => isNewAdd lower now s r && !(Gen.Cache.is_address_type r.type))
    ∧ a.removes = goodbyes lower now s D := by
  intro D a
  obtain ⟨c1, c2, c3, c4, c5, c6⟩ := ingestLoop_closed (lower := lower) now ({ cache := s } : IngestAcc (List Rec)) (stamp now recs)
  simp only [List.nil_append] at c1 c2 c3 c4 c5 c6
  refine ⟨?_, c2, c3, c4, c5⟩
  show (if _ then _ else _) = _
  rw [c1, c6]
  split
  · rename_i hemp
    have hnil : uniqueTriples D = [] := by simpa [uniqueTriples, D, effective] using hemp
    have : (fun e => markOne lower now D e) = id := by
      funext e; simp [markOne, hnil, Cache.flushHit]
    show _ = List.map (fun e => markOne lower now D e) _
    rw [this]; simp [D, effective]
  · rfl

/-- when every withdrawn record is still cached the D24 filter keeps them all -/
theorem Flat.keptRemoves_eq_self (s : List Rec) (rs : List Rec) (hpres : ∀ r ∈ rs, ∃ e ∈ s, e.beq lower r = true) :
    keptRemoves (Flat.ops lower) s rs = rs := by
  unfold keptRemoves keptRemovesWith
  rw [List.filter_eq_self]
  intro r hr
  rw [removes_keep_test_eq]
  show (Flat.getUnique lower s r).isSome = true
  rw [Flat.getUnique_isSome]
  exact List.any_eq_true.2 (hpres r hr)

/-- **no `KeyError`**, and the post-state per identity -/
theorem Flat.ingest_post (s : List Rec) (now : Ms) (recs : List Rec) :
    ∃ o, ingest lower (Flat.ops lower) s now recs = .ok o ∧ ∀ q,
      Flat.getUnique lower o.cache q =
        if Flat.pres lower s q then
          if (effective now recs).any (fun r => decide (r.ident lower = q.ident lower) && r.isExpired now) then none
          else (Flat.getUnique lower s q).map (fun e => markOne lower now (effective now recs) (refresh lower now (effective now recs) e))
        else ((effective now recs).filter (fun r => decide (r.ident lower = q.ident lower) && !(r.isExpired now))).getLast? := by
  obtain ⟨p1, p2, p3, p4, p5⟩ := ingestPre_flat (lower := lower) s now recs
  generalize hD : effective now recs = D at *
  generalize hA : ingestPre lower (Flat.ops lower) s now recs = A at *
  have hpres1 : ∀ q, Flat.pres lower A.cache q = Flat.pres lower s q := by
    intro q
    rw [p1, Flat.pres_map _ _ (fun e => ident_markOne now D e), Flat.pres_map _ _ (fun e => ident_refresh now D e)]
  obtain ⟨g1, g2, g3⟩ := goodbyes_spec (lower := lower) now s D
  -- the removes are all present after the adds
  have hpresR : ∀ r ∈ A.removes, ∃ e ∈ (addAll (Flat.ops lower) (addAll (Flat.ops lower) A.cache A.addrAdds).1 A.otherAdds).1, e.beq lower r = true := by
    intro r hr
    rw [p5] at hr
    have hgb := (g2 r hr).2
    simp only [isGoodbye, Bool.and_eq_true] at hgb
    have : Flat.pres lower (addAll (Flat.ops lower) (addAll (Flat.ops lower) A.cache A.addrAdds).1 A.otherAdds).1 r = true := by
      rw [Flat.pres_addAll, Flat.pres_addAll, hpres1, hgb.2]; simp
    exact List.any_eq_true.1 this
  have hrm := Flat.removeAll_ok (lower := lower) _ A.removes hpresR (p5 ▸ g1)
  refine ⟨_, by unfold Zc.ingest; simp only [hA]; rw [Flat.keptRemoves_eq_self _ _ hpresR, hrm]; rfl, ?_⟩
  intro q
  dsimp only
  have hR : A.removes.any (fun r => decide (r.ident lower = q.ident lower))
      = D.any (fun r => isGoodbye lower now s r && decide (r.ident lower = q.ident lower)) := by rw [p5]; exact g3 q
  have hp : ∀ e : Rec, e.ident lower = q.ident lower →
      (!(A.removes.any (fun r => e.beq lower r))) = !(A.removes.any (fun r => decide (r.ident lower = q.ident lower))) := by
    intro e he
    congr 2
    funext r
    rw [beq_eq_decide, he]
    exact decide_eq_decide.2 eq_comm
  rw [Flat.getUnique_filter _ _ q _ hp, Flat.getUnique_addAll, Flat.getUnique_addAll, hR, p3, p4, List.filter_filter, List.filter_filter]
  have hcongr : ∀ r : Rec, r.ident lower = q.ident lower → Flat.pres lower s r = Flat.pres lower s q :=
    fun r hr => Flat.pres_congr s hr
  by_cases hpq : Flat.pres lower s q = true
  · -- cached before: no adds of this identity; removed iff some goodbye copy; else refreshed/marked in place
    simp only [hpq, if_true]
    have hO : D.filter (fun a => decide (a.ident lower = q.ident lower) && (isNewAdd lower now s a && !(Gen.Cache.is_address_type a.type))) = [] := by
      rw [List.filter_eq_nil_iff]
      intro r _
      by_cases hr : r.ident lower = q.ident lower
      · simp [isNewAdd, hcongr r hr, hpq]
      · simp [hr]
    have hAd : D.filter (fun a => decide (a.ident lower = q.ident lower) && (isNewAdd lower now s a && Gen.Cache.is_address_type a.type)) = [] := by
      rw [List.filter_eq_nil_iff]
      intro r _
      by_cases hr : r.ident lower = q.ident lower
      · simp [isNewAdd, hcongr r hr, hpq]
      · simp [hr]
    have hany : D.any (fun r => isGoodbye lower now s r && decide (r.ident lower = q.ident lower))
        = D.any (fun r => decide (r.ident lower = q.ident lower) && r.isExpired now) := by
      congr 1; funext r
      by_cases hr : r.ident lower = q.ident lower
      · simp [isGoodbye, hcongr r hr, hpq, hr]
      · simp [hr]
    rw [hO, hAd, hany]
    by_cases hz : D.any (fun r => decide (r.ident lower = q.ident lower) && r.isExpired now) = true
    · simp [hz]
    · simp only [hz, Bool.not_false, if_true, Bool.false_eq_true, if_false, List.getLast?_nil]
      rw [p1, Flat.getUnique_map _ _ (fun e => ident_markOne now D e), Flat.getUnique_map _ _ (fun e => ident_refresh now D e), Option.map_map]
      rfl
  · -- not cached before: no goodbye applies; the last non-goodbye copy is stored
    have hpq' : Flat.pres lower s q = false := by simpa using hpq
    simp only [hpq', Bool.false_eq_true, if_false]
    have hany : D.any (fun r => isGoodbye lower now s r && decide (r.ident lower = q.ident lower)) = false := by
      rw [Bool.eq_false_iff]; intro h
      obtain ⟨r, _, hr⟩ := List.any_eq_true.1 h
      simp only [Bool.and_eq_true, decide_eq_true_eq, isGoodbye] at hr
      rw [hcongr r hr.2, hpq'] at hr
      simp at hr
    have hnone : Flat.getUnique lower A.cache q = none := by
      rw [Flat.getUnique_eq_none, hpres1, hpq']
    rw [hany, hnone]
    simp only [Bool.not_false, if_true]
    have hO : D.filter (fun a => decide (a.ident lower = q.ident lower) && (isNewAdd lower now s a && !(Gen.Cache.is_address_type a.type)))
        = if Gen.Cache.is_address_type q.type then [] else D.filter (fun r => decide (r.ident lower = q.ident lower) && !(r.isExpired now)) := by
      split
      · rename_i hat
        rw [List.filter_eq_nil_iff]
        intro r _
        by_cases hr : r.ident lower = q.ident lower
        · simp [ident_type lower hr, hat]
        · simp [hr]
      · rename_i hat
        apply List.filter_congr
        intro r _
        by_cases hr : r.ident lower = q.ident lower
        · simp [isNewAdd, hcongr r hr, hpq', ident_type lower hr, hat, hr]
        · simp [hr]
    have hAd : D.filter (fun a => decide (a.ident lower = q.ident lower) && (isNewAdd lower now s a && Gen.Cache.is_address_type a.type))
        = if Gen.Cache.is_address_type q.type then D.filter (fun r => decide (r.ident lower = q.ident lower) && !(r.isExpired now)) else [] := by
      split
      · rename_i hat
        apply List.filter_congr
        intro r _
        by_cases hr : r.ident lower = q.ident lower
        · simp [isNewAdd, hcongr r hr, hpq', ident_type lower hr, hat, hr]
        · simp [hr]
      · rename_i hat
        rw [List.filter_eq_nil_iff]
        intro r _
        by_cases hr : r.ident lower = q.ident lower
        · simp [ident_type lower hr, hat]
        · simp [hr]
    rw [hO, hAd]
    by_cases hat : Gen.Cache.is_address_type q.type = true
    · simp only [hat, if_true, List.getLast?_nil]
      cases (D.filter (fun r => decide (r.ident lower = q.ident lower) && !(r.isExpired now))).getLast? <;> rfl
    · simp only [hat, Bool.false_eq_true, if_false, List.getLast?_nil]
      cases (D.filter (fun r => decide (r.ident lower = q.ident lower) && !(r.isExpired now))).getLast? <;> rfl

end
end Zc
