import Zc.Proofs.SurviveText
import Zc.Proofs.Wire.Message
import Zc.GenFacts.Survive
/-! **The encoder is total on safe messages** (C15): `DNSOutgoing.packets()` returns datagrams —
raises nothing — when every label is at most 63 bytes, every name at most 1100 bytes on the wire,
the 16-bit and 32-bit fields are in range, character strings at most 255 bytes, NSEC type lists
well formed.  The one non-obvious raise site is `BYTE_TABLE[(idx >> 8) | 0xC0]` in
`_write_link_to_name`, an `IndexError` for a name-table offset of 0x4000 or more: it is
unreachable because every table entry lies below `8966 + 2·1100 + 16`. -/
namespace Zc.Survive
open Zc Zc.Wire Zc.Wire.Encode

/-- labels at most 63 bytes, at most 1100 bytes on the wire -/
def NameSafe (n : WName) : Prop := (∀ l ∈ n, l.length ≤ 63) ∧ wireLen n ≤ 1100

instance (n : WName) : Decidable (NameSafe n) := by unfold NameSafe; infer_instance

/-- every offset in the names table can be written as a compression pointer -/
def NamesSmall (names : Names) : Prop := ∀ p ∈ names, p.2 < 16384

theorem wireLen_cons (l : Label) (n : WName) : wireLen (l :: n) = l.length + 1 + wireLen n := by
  simp [wireLen]; omega

theorem wireLen_pos (n : WName) : 1 ≤ wireLen n := by simp [wireLen]

theorem linkOf_total {idx : Nat} (h : idx < 16384) : ∃ b, linkOf idx = .ok b ∧ b.length = 2 := by
  unfold linkOf
  rw [GenFacts.Outgoing.link_hi_eq idx h, GenFacts.Outgoing.link_lo_eq,
    byteOf_ok _ (by omega), byteOf_ok _ (by omega)]
  exact ⟨_, rfl, rfl⟩

theorem utfOf_total {l : Label} (h : l.length ≤ 63) : ∃ b, utfOf l = .ok b ∧ b.length = l.length + 1 := by
  obtain ⟨b, hb⟩ := utfOf_short h
  obtain ⟨rfl, _⟩ := utfOf_ok hb
  exact ⟨_, hb, by simp⟩

/-- `write_name` returns, keeps the table small, and writes at most `wireLen` bytes -/
theorem writeName_total : ∀ (n : WName) (size : Nat) (names : Names),
    (∀ l ∈ n, l.length ≤ 63) → NamesSmall names → size + wireLen n ≤ 16384 →
    ∃ b names', writeName size names n = .ok (b, names') ∧ NamesSmall names' ∧ b.length ≤ wireLen n := by
  intro n
  induction n with
  | nil =>
    intro size names _ hs _
    exact ⟨[0], names, by simp [writeName, byteOf, bind, Except.bind, pure, Except.pure], hs, by simp [wireLen]⟩
  | cons l rest ih =>
    intro size names hl hs hsz
    rw [wireLen_cons] at hsz ⊢
    have hp := wireLen_pos rest
    unfold writeName
    split
    · rename_i idx hlook
      have hidx := hs _ (lookupName_some hlook)
      obtain ⟨b, hb, hlen⟩ := linkOf_total hidx
      rw [hb]
      exact ⟨b, names, rfl, hs, by omega⟩
    · obtain ⟨lb, hlb, hlen⟩ := utfOf_total (hl l List.mem_cons_self)
      rw [hlb]
      simp only [bind, Except.bind]
      have hs' : NamesSmall ((l :: rest, size) :: names) := by
        intro p hp'
        simp only [List.mem_cons] at hp'
        rcases hp' with rfl | hp'
        · simp only; omega
        · exact hs p hp'
      obtain ⟨rb, names', hr, hs'', hrl⟩ := ih (size + lb.length) ((l :: rest, size) :: names)
        (fun x hx => hl x (List.mem_cons_of_mem _ hx)) hs' (by omega)
      rw [hr]
      exact ⟨lb ++ rb, names', rfl, hs'', by simp; omega⟩

/-! ### entries -/

theorem shortOf_total {v : Nat} (h : v < 65536) : shortOf v = .ok (be16 v) := by simp [shortOf, h]
theorem intOf_total {v : Nat} (h : v < 4294967296) : intOf v = .ok (be32 v) := by simp [intOf, h]

theorem classField_lt (c : Nat) (u m : Bool) (hc : c < 32768) : classField c u m < 65536 := by
  rw [classField_eq c u m hc]
  unfold wireClass
  split <;> omega

def QSafe (q : EQuestion) : Prop := NameSafe q.name ∧ q.qtype < 65536 ∧ q.qclass < 32768

instance (q : EQuestion) : Decidable (QSafe q) := by unfold QSafe; infer_instance

theorem encQuestion_total (mc : Bool) (size : Nat) (names : Names) (q : EQuestion) (hq : QSafe q)
    (hs : NamesSmall names) (hsz : size + 1100 ≤ 16384) :
    ∃ b names', encQuestion mc size names q = .ok (b, names') ∧ NamesSmall names' := by
  obtain ⟨⟨hl, hw⟩, ht, hc⟩ := hq
  obtain ⟨nb, names', hn, hs', _⟩ := writeName_total q.name size names hl hs (by omega)
  unfold encQuestion
  rw [hn]
  simp only [bind, Except.bind, shortOf_total ht, shortOf_total (classField_lt _ _ _ hc), pure, Except.pure]
  exact ⟨_, _, rfl, hs'⟩

/-- rdata the encoder accepts -/
def RDataSafe : ERData → Prop
  | .addr a => a.length ≤ 60000
  | .ptr t => NameSafe t
  | .txt t => t.length ≤ 60000
  | .srv p w q t => p < 65536 ∧ w < 65536 ∧ q < 65536 ∧ NameSafe t
  | .hinfo c o => c.length ≤ 255 ∧ o.length ≤ 255
  | .nsec n ts => NameSafe n ∧ WFTypes ts

instance (rd : ERData) : Decidable (RDataSafe rd) := by cases rd <;> unfold RDataSafe <;> infer_instance

theorem charStringOf_total {s : Bytes} (hs : s.length ≤ 255) : ∃ b, charStringOf s = .ok b ∧ b.length = s.length + 1 := by
  unfold charStringOf
  rw [GenFacts.Outgoing.charstring_short_accepted _ hs, byteOf_ok _ (by omega)]
  exact ⟨_, rfl, by simp⟩

theorem encRData_total (size : Nat) (names : Names) (rd : ERData) (hrd : RDataSafe rd)
    (hs : NamesSmall names) (hsz : size + 1106 ≤ 16384) :
    ∃ b names', encRData size names rd = .ok (b, names') ∧ NamesSmall names' ∧ b.length ≤ 60000 := by
  cases rd with
  | addr a => exact ⟨a, names, rfl, hs, hrd⟩
  | txt t => exact ⟨t, names, rfl, hs, hrd⟩
  | ptr t =>
    obtain ⟨hl, hw⟩ := hrd
    obtain ⟨nb, names', hn, hs', hlen⟩ := writeName_total t size names hl hs (by omega)
    exact ⟨nb, names', hn, hs', by omega⟩
  | srv p w q t =>
    obtain ⟨hp, hw', hq, hl, hw⟩ := hrd
    obtain ⟨nb, names', hn, hs', hlen⟩ := writeName_total t (size + 6) names hl hs (by omega)
    refine ⟨be16 p ++ be16 w ++ be16 q ++ nb, names', ?_, hs', ?_⟩
    · simp only [encRData, bind, Except.bind, shortOf_total hp, shortOf_total hw', shortOf_total hq, hn, pure, Except.pure]
    · simp [be16]; omega
  | hinfo c o =>
    obtain ⟨hc, ho⟩ := hrd
    obtain ⟨cb, hcb, hcl⟩ := charStringOf_total hc
    obtain ⟨ob, hob, hol⟩ := charStringOf_total ho
    refine ⟨cb ++ ob, names, ?_, hs, ?_⟩
    · simp only [encRData, bind, Except.bind, hcb, hob, pure, Except.pure]
    · simp; omega
  | nsec n ts =>
    obtain ⟨⟨hl, hw⟩, hts⟩ := hrd
    obtain ⟨bm, hbm, hb1, hb32, _⟩ := nsecBitmap_spec ts hts
    obtain ⟨nb, names', hn, hs', hlen⟩ := writeName_total n size names hl hs (by omega)
    refine ⟨nb ++ [0] ++ [bm.length.toUInt8] ++ bm, names', ?_, hs', ?_⟩
    · simp only [encRData, bind, Except.bind, hbm, hn, byteOf_ok 0 (by omega), byteOf_ok bm.length (by omega), pure, Except.pure]
      rfl
    · simp; omega

/-- a record the encoder accepts when written with `now` -/
def RecSafe (r : ERecord) (now : Ms) : Prop :=
  NameSafe r.name ∧ r.rtype < 65536 ∧ r.rclass < 32768 ∧ wireTtl r now < 4294967296 ∧ RDataSafe r.rdata

instance (r : ERecord) (now : Ms) : Decidable (RecSafe r now) := by unfold RecSafe; infer_instance

theorem encRecord_total (mc : Bool) (size : Nat) (names : Names) (r : ERecord) (now : Ms) (hr : RecSafe r now)
    (hs : NamesSmall names) (hsz : size ≤ 8966) :
    ∃ b names', encRecord mc size names r now = .ok (b, names') ∧ NamesSmall names' := by
  obtain ⟨⟨hl, hw⟩, ht, hc, httl, hrd⟩ := hr
  obtain ⟨nb, names1, hn, hs1, hlen⟩ := writeName_total r.name size names hl hs (by omega)
  obtain ⟨rd, names2, hrd', hs2, hrl⟩ := encRData_total (size + nb.length + 10) names1 r.rdata hrd hs1 (by omega)
  obtain ⟨hnn, htn⟩ := ttlField_eq r now
  unfold encRecord
  rw [hn]
  simp only [bind, Except.bind, shortOf_total ht, shortOf_total (classField_lt _ _ _ hc)]
  rw [if_neg (by omega), intOf_total (by rw [htn]; exact httl)]
  simp only [hrd', shortOf_total (show rd.length < 65536 by omega), pure, Except.pure]
  exact ⟨_, _, rfl, hs2⟩

/-! ### packets -/

/-- the packet under construction is at most 8966 bytes long and its names table is small -/
def StOK (st : St) : Prop := st.size ≤ 8966 ∧ NamesSmall st.names

theorem StOK.fresh : StOK St.fresh := by
  refine ⟨?_, fun p hp => by simp [St.fresh] at hp⟩
  simp [St.size, St.fresh, GenFacts.Outgoing.header_len]

theorem commit_ok (st : St) (bytes : Bytes) (names' : Names) (h : StOK st) (hn : NamesSmall names') :
    StOK (commit st bytes names').1 := by
  unfold commit
  dsimp only
  split
  · rename_i hf
    have := (GenFacts.Outgoing.fits_iff _ _).mp hf
    have hl := GenFacts.Outgoing.len_limit_le st.allowLong
    refine ⟨?_, hn⟩
    simp only [St.size, List.length_append] at this ⊢
    omega
  · refine ⟨h.1, ?_⟩
    intro p hp
    exact hn p (List.mem_filter.mp hp).1

theorem writeQuestion_total (mc : Bool) (st : St) (q : EQuestion) (h : StOK st) (hq : QSafe q) :
    ∃ st' ok, writeQuestion mc st q = .ok (st', ok) ∧ StOK st' := by
  obtain ⟨b, names', he, hs⟩ := encQuestion_total mc st.size st.names q hq h.2 (by have := h.1; omega)
  unfold writeQuestion
  rw [he]
  exact ⟨_, _, rfl, commit_ok st b names' h hs⟩

theorem writeRecord_total (mc : Bool) (st : St) (r : ERecord) (now : Ms) (h : StOK st) (hr : RecSafe r now) :
    ∃ st' ok, writeRecord mc st r now = .ok (st', ok) ∧ StOK st' := by
  obtain ⟨b, names', he, hs⟩ := encRecord_total mc st.size st.names r now hr h.2 h.1
  unfold writeRecord
  rw [he]
  exact ⟨_, _, rfl, commit_ok st b names' h hs⟩

theorem writeQuestions_total (mc : Bool) : ∀ (qs : List EQuestion) (st : St), StOK st → (∀ q ∈ qs, QSafe q) →
    ∃ st' n, writeQuestions mc st qs = .ok (st', n) ∧ StOK st' := by
  intro qs
  induction qs with
  | nil => intro st h _; exact ⟨st, 0, rfl, h⟩
  | cons q rest ih =>
    intro st h hq
    obtain ⟨st1, ok, h1, hs1⟩ := writeQuestion_total mc st q h (hq q List.mem_cons_self)
    unfold writeQuestions
    rw [h1]
    simp only [bind, Except.bind]
    cases ok with
    | false => exact ⟨st1, 0, rfl, hs1⟩
    | true =>
      obtain ⟨st2, n, h2, hs2⟩ := ih st1 hs1 (fun x hx => hq x (List.mem_cons_of_mem _ hx))
      simp only [if_true, h2, pure, Except.pure]
      exact ⟨st2, n + 1, rfl, hs2⟩

theorem writeAnswers_total (mc : Bool) : ∀ (rs : List (ERecord × Ms)) (st : St), StOK st → (∀ x ∈ rs, RecSafe x.1 x.2) →
    ∃ st' n, writeAnswers mc st rs = .ok (st', n) ∧ StOK st' := by
  intro rs
  induction rs with
  | nil => intro st h _; exact ⟨st, 0, rfl, h⟩
  | cons x rest ih =>
    intro st h hr
    obtain ⟨r, now⟩ := x
    obtain ⟨st1, ok, h1, hs1⟩ := writeRecord_total mc st r now h (hr (r, now) List.mem_cons_self)
    unfold writeAnswers
    rw [h1]
    simp only [bind, Except.bind]
    cases ok with
    | false => exact ⟨st1, 0, rfl, hs1⟩
    | true =>
      obtain ⟨st2, n, h2, hs2⟩ := ih st1 hs1 (fun y hy => hr y (List.mem_cons_of_mem _ hy))
      simp only [if_true, h2, pure, Except.pure]
      exact ⟨st2, n + 1, rfl, hs2⟩

theorem writeRecords_total (mc : Bool) (rs : List ERecord) (st : St) (h : StOK st) (hr : ∀ r ∈ rs, RecSafe r 0) :
    ∃ st' n, writeRecords mc st rs = .ok (st', n) ∧ StOK st' := by
  unfold writeRecords
  apply writeAnswers_total mc _ st h
  intro x hx
  simp only [List.mem_map] at hx
  obtain ⟨r, hr', rfl⟩ := hx
  exact hr r hr'

/-- a message the encoder accepts -/
structure MsgSafe (m : Msg) : Prop where
  flags : m.flags < 65536
  id : m.id < 65536
  questions : ∀ q ∈ m.questions, QSafe q
  answers : ∀ x ∈ m.answers, RecSafe x.1 x.2
  authorities : ∀ r ∈ m.authorities, RecSafe r 0
  additionals : ∀ r ∈ m.additionals, RecSafe r 0

theorem hdrFlags_lt (m : Msg) (more : Bool) (h : m.flags < 65536) : hdrFlags m more < 65536 := by
  unfold hdrFlags
  split
  · rw [GenFacts.Outgoing.flags_with_tc_eq]
    exact Nat.or_lt_two_pow (n := 16) h (by omega)
  · exact h

theorem hdrId_lt (m : Msg) (h : m.id < 65536) : hdrId m < 65536 := by
  unfold hdrId
  split <;> omega

theorem onePacket_total (m : Msg) (hm : MsgSafe m) (o : Offsets) : ∃ r, onePacket m o = .ok r := by
  obtain ⟨s1, qw, h1, hs1⟩ := writeQuestions_total m.multicast (m.questions.drop o.q) St.fresh StOK.fresh
    (fun q hq => hm.questions q (List.mem_of_mem_drop hq))
  obtain ⟨s2, aw, h2, hs2⟩ := writeAnswers_total m.multicast (m.answers.drop o.an) s1 hs1
    (fun x hx => hm.answers x (List.mem_of_mem_drop hx))
  obtain ⟨s3, auw, h3, hs3⟩ := writeRecords_total m.multicast (m.authorities.drop o.au) s2 hs2
    (fun r hr => hm.authorities r (List.mem_of_mem_drop hr))
  obtain ⟨s4, adw, h4, hs4⟩ := writeRecords_total m.multicast (m.additionals.drop o.ad) s3 hs3
    (fun r hr => hm.additionals r (List.mem_of_mem_drop hr))
  unfold onePacket
  simp only [bind, Except.bind, h1, h2, h3, h4]
  rw [if_pos ⟨hdrId_lt m hm.id, hdrFlags_lt m _ hm.flags⟩]
  exact ⟨_, rfl⟩

theorem packetsLoop_total (m : Msg) (hm : MsgSafe m) : ∀ (fuel : Nat) (o : Offsets), ∃ pks, packetsLoop m fuel o = .ok pks := by
  intro fuel
  induction fuel with
  | zero => intro o; exact ⟨[], rfl⟩
  | succ fuel ih =>
    intro o
    obtain ⟨⟨pkt, o', progress, more⟩, h⟩ := onePacket_total m hm o
    unfold packetsLoop
    rw [h]
    simp only [bind, Except.bind]
    split
    · exact ⟨_, rfl⟩
    · split
      · obtain ⟨rest, hr⟩ := ih o'
        rw [hr]
        exact ⟨_, rfl⟩
      · exact ⟨_, rfl⟩

/-- **`DNSOutgoing.packets()` returns** for every safe message -/
theorem packets_total (m : Msg) (hm : MsgSafe m) : ∃ pks, packets m = .ok pks :=
  packetsLoop_total m hm _ _

/-! ### the echo of a decoded question is a safe question -/

theorem encLen_le (c : Nat) : Utf8.encLen c ≤ 4 := by
  unfold Utf8.encLen
  split
  · omega
  · split
    · omega
    · split <;> omega

theorem cpLen_le : ∀ (cps : List Nat), cpLen cps ≤ 4 * cps.length := by
  intro cps
  induction cps with
  | nil => simp [cpLen]
  | cons c rest ih =>
    have := encLen_le c
    simp only [cpLen, List.map_cons, List.sum_cons, List.length_cons] at ih ⊢
    omega

/-- the pieces of `split('.')`, each with its length byte, take one byte more than the text -/
theorem splitDot_sum : ∀ (cps : List Nat), ((splitDot cps).map (fun p => cpLen p + 1)).sum = cpLen cps + 1 := by
  intro cps
  induction cps with
  | nil => simp [splitDot, cpLen]
  | cons c rest ih =>
    unfold splitDot
    by_cases hc : c = 0x2E
    · rw [if_pos hc]
      subst hc
      simp only [List.map_cons, List.sum_cons, ih]
      simp [cpLen, Utf8.encLen]
      omega
    · rw [if_neg hc]
      cases hs : splitDot rest with
      | nil =>
        rw [hs] at ih
        simp at ih
      | cons p ps =>
        rw [hs] at ih
        simp only [List.map_cons, List.sum_cons] at ih ⊢
        simp only [cpLen, List.map_cons, List.sum_cons] at ih ⊢
        omega

def wireSum (n : WName) : Nat := (n.map (fun l => l.length + 1)).sum

theorem wireLen_eq (n : WName) : wireLen n = wireSum n + 1 := rfl

theorem encPieces_sum (l : Label) : wireSum (encPieces l) = Utf8.reencodedLen l + 1 := by
  unfold wireSum encPieces
  rw [List.map_map]
  have : ((fun l => l.length + 1) ∘ Utf8.encode) = (fun p => cpLen p + 1) := by
    funext p
    simp [encode_length, cpLen]
  rw [this, splitDot_sum]
  rfl

theorem wireSum_flatMap : ∀ (n : WName), wireSum (n.flatMap encPieces) = (n.map (fun l => Utf8.reencodedLen l + 1)).sum := by
  intro n
  induction n with
  | nil => rfl
  | cons l rest ih =>
    simp only [List.flatMap_cons, List.map_cons, List.sum_cons]
    unfold wireSum at ih ⊢
    rw [List.map_append, List.sum_append, ih]
    have := encPieces_sum l
    unfold wireSum at this
    rw [this]

theorem reenc_sum_le : ∀ (n : WName), (n.map (fun l => Utf8.reencodedLen l + 1)).sum ≤ 4 * (n.map (fun l => Utf8.charCount l + 1)).sum := by
  intro n
  induction n with
  | nil => simp
  | cons l rest ih =>
    have h : Utf8.reencodedLen l ≤ 4 * Utf8.charCount l := cpLen_le (Utf8.decodeReplace l)
    simp only [List.map_cons, List.sum_cons]
    omega

/-- a decoded name of at most 253 characters takes at most 1013 bytes when written back -/
theorem reencName_wire (n : WName) (h : nameLen n ≤ 253) : wireLen (reencName n) ≤ 1100 := by
  unfold reencName
  unfold nameLen at h
  split
  · simp [wireLen]
  · rename_i hne
    rw [if_neg hne] at h
    rw [wireLen_eq, wireSum_flatMap]
    have := reenc_sum_le n
    omega

/-- a question of a decoder product: labels can be written back, at most 253 characters, 16-bit type -/
def QOK (x : WQuestion) : Prop := nameOK x.name = true ∧ nameLen x.name ≤ 253 ∧ x.qtype < 65536

theorem echo_safe (x : WQuestion) (h : QOK x) : QSafe (echoQuestion x) :=
  ⟨⟨reencName_short x.name h.1, reencName_wire x.name h.2.1⟩, h.2.2, GenFacts.Survive.class_of_lt _⟩

/-- the records of an answer set are safe -/
def SetSafe (a : AnswerSet) : Prop := (∀ r ∈ a.answers, RecSafe r 0) ∧ (∀ r ∈ a.additionals, RecSafe r 0)

/-- what the query handler hands to the encoder inside the block is safe -/
def QASafe (q : QA) : Prop := SetSafe q.ucast ∧ SetSafe q.mcastNow

theorem unicastMsg_safe (a : AnswerSet) (u : Bool) (qs : List WQuestion) (id : Nat) (ha : SetSafe a)
    (hq : ∀ x ∈ qs, QOK x) (hid : id < 65536) : MsgSafe (unicastMsg a u qs id) := by
  refine ⟨by show Gen.flagsQrResponseAa < 65536; decide, hid, ?_, ?_, by intro r hr; simp [unicastMsg] at hr, ha.2⟩
  · intro q hq'
    simp only [unicastMsg] at hq'
    split at hq'
    · simp only [List.mem_map] at hq'
      obtain ⟨x, hx, rfl⟩ := hq'
      exact echo_safe x (hq x hx)
    · simp at hq'
  · intro x hx
    simp only [unicastMsg, List.mem_map] at hx
    obtain ⟨r, hr, rfl⟩ := hx
    exact ha.1 r hr

theorem multicastMsg_safe (a : AnswerSet) (ha : SetSafe a) : MsgSafe (multicastMsg a) := by
  refine ⟨by show Gen.flagsQrResponseAa < 65536; decide, by show (0 : Nat) < 65536; decide, by intro q hq; simp [multicastMsg] at hq, ?_, by intro r hr; simp [multicastMsg] at hr, ha.2⟩
  intro x hx
  simp only [multicastMsg, List.mem_map] at hx
  obtain ⟨r, hr, rfl⟩ := hx
  exact ha.1 r hr

end Zc.Survive
