import Zc.Model.SurviveUser
import Zc.Proofs.SurviveRoute
import Zc.GenFacts.SurviveApi
/-! `BaseOK` discharged down to the application's own code (C15): the library part of the listener rounds — iterating over the
listeners, waking the lookups' futures, `async_notify_all` — never raises; what is left is exactly "the user callbacks return"
(`UserOK`).  And that hypothesis is needed: an exception out of a user callback is the outcome of the whole round (`listeners_raises`). -/
namespace Zc.Survive.User
open Zc Zc.Survive Zc.Survive.Comp Zc.Survive.Route

/-! ### futures: `_resolve_all_futures_to_none` never raises -/

/-- the `InvalidStateError` site of `set_result` is guarded by `if not fut.done()` -/
theorem setNoneIfNotDone_ok (f : Fut) : ∃ f', setNoneIfNotDone f = .ok f' ∧ f'.done = true ∧ f'.id = f.id := by
  unfold setNoneIfNotDone Fut.setResult
  by_cases hg : Gen.SurviveApi.fut_set_guard f.done = true
  · have hd := (GenFacts.SurviveApi.fut_set_guard_iff f.done).mp hg
    exact ⟨{ f with done := true }, by rw [if_pos hg, if_neg (by simp [hd])], rfl, rfl⟩
  · have hd : f.done = true := by
      cases h : f.done
      · exact absurd ((GenFacts.SurviveApi.fut_set_guard_iff f.done).mpr h) hg
      · rfl
    exact ⟨f, by rw [if_neg hg], hd, rfl⟩

/-- `_resolve_all_futures_to_none` treats every future through the guard (false on a tree that sets results outright: C15-w4-seed3) -/
theorem resolveOne_ok (f : Fut) : ∃ f', resolveOne f = .ok f' ∧ f'.done = true ∧ f'.id = f.id := by
  unfold resolveOne
  rw [GenFacts.SurviveApi.resolve_all_guarded_eq]
  exact setNoneIfNotDone_ok f

theorem resolveAll_ok : ∀ fs : List Fut, ∃ r, resolveAll fs = .ok r ∧ ∀ f ∈ r, f.done = true := by
  intro fs
  induction fs with
  | nil => exact ⟨[], rfl, by intro f hf; cases hf⟩
  | cons f t ih =>
    obtain ⟨f', hf', hd, _⟩ := resolveOne_ok f
    obtain ⟨r, hr, hall⟩ := ih
    refine ⟨f' :: r, by simp only [resolveAll, hf', hr], ?_⟩
    intro x hx
    simp only [List.mem_cons] at hx
    rcases hx with rfl | hx
    · exact hd
    · exact hall x hx

theorem wake_ok (c : Bool) (fs : List Fut) : ∃ r, wake c fs = .ok r := by
  unfold wake
  cases c
  · exact ⟨fs, rfl⟩
  · obtain ⟨r, hr, _⟩ := resolveAll_ok fs
    exact ⟨[], by simp only [hr, if_true]⟩

theorem wakeLookups_ok (upd : Nat → Bool) : ∀ (l : List (List Fut)) (j : Nat), ∃ r, wakeLookups upd j l = .ok r ∧ r.length = l.length := by
  intro l
  induction l with
  | nil => intro j; exact ⟨[], rfl, rfl⟩
  | cons fs t ih =>
    intro j
    obtain ⟨a, ha⟩ := wake_ok (upd j) fs
    obtain ⟨r, hr, hl⟩ := ih (j + 1)
    exact ⟨a :: r, by simp only [wakeLookups, ha, hr], by simp [hl]⟩

/-! ### the rounds over user listeners -/

section
variable {υ ω : Type}

/-- **what is assumed of the application**: its two `RecordUpdateListener` callbacks return normally (and keep the listener's own
invariant `Iυ`), whatever records and cache they are shown.  Nothing is assumed about what they do otherwise. -/
def UserOK (U : UserL υ ω) (Iυ : υ → Prop) : Prop :=
  (∀ u now pairs c, Iυ u → ∃ u' o, U.update u now pairs c = .ok (u', o) ∧ Iυ u') ∧
  (∀ u c, Iυ u → ∃ u' o, U.complete u c = .ok (u', o) ∧ Iυ u')

/-- the invariant of the interpreted base: every registered user listener satisfies its own invariant -/
def UInv (Iυ : υ → Prop) (r : UState υ) : Prop := ∀ u ∈ r.users, Iυ u

theorem roundU_ok {Iυ : υ → Prop} {f : υ → Except PyExc (υ × List ω)}
    (hf : ∀ u, Iυ u → ∃ u' o, f u = .ok (u', o) ∧ Iυ u') :
    ∀ us : List υ, (∀ u ∈ us, Iυ u) → ∃ us' o, roundU f us = .ok (us', o) ∧ (∀ u ∈ us', Iυ u) ∧ us'.length = us.length := by
  intro us
  induction us with
  | nil => intro _; exact ⟨[], [], rfl, (fun u hu => nomatch hu), rfl⟩
  | cons u t ih =>
    intro h
    obtain ⟨u', o, hu, hI⟩ := hf u (h u List.mem_cons_self)
    obtain ⟨us', o', ht, hI', hl⟩ := ih (fun x hx => h x (List.mem_cons_of_mem _ hx))
    refine ⟨u' :: us', o ++ o', by simp only [roundU, hu, ht], ?_, by simp [hl]⟩
    intro x hx
    simp only [List.mem_cons] at hx
    rcases hx with rfl | hx
    · exact hI
    · exact hI' x hx

variable (U : UserL υ ω) (upd : Ms → List (Rec × Option Rec) → Nat → Bool) (Iυ : υ → Prop)

/-- **`BaseOK` from `UserOK`**: residual assumption 1 of the composition is now a statement about application code only -/
theorem userBase_ok (hU : UserOK U Iυ) : BaseOK (userBase U upd) (UInv Iυ) := by
  intro r now pairs c1 c2 n hI
  obtain ⟨us1, o1, h1, hI1, _⟩ := roundU_ok (f := fun u => U.update u now pairs c1) (fun u hu => hU.1 u now pairs c1 hu) r.users hI
  obtain ⟨lf, hlf, _⟩ := wakeLookups_ok (upd now pairs) r.lfuts 0
  obtain ⟨us2, o2, h2, hI2, _⟩ := roundU_ok (f := fun u => U.complete u c2) (fun u hu => hU.2 u c2 hu) us1 hI1
  obtain ⟨nf, hnf⟩ := wake_ok n r.notify
  refine ⟨{ users := us2, notify := nf, lfuts := lf }, o1 ++ o2, ?_, hI2⟩
  show listeners U upd r now pairs c1 c2 n = _
  simp only [listeners, h1, hlf, h2, hnf]

/-- a raising callback ends its round with that exception -/
theorem roundU_raises {f : υ → Except PyExc (υ × List ω)} {e : PyExc} :
    ∀ (pre : List υ) (u : υ) (post : List υ), (∀ x ∈ pre, ∃ x' o, f x = .ok (x', o)) → f u = .error e →
      roundU f (pre ++ u :: post) = .error e := by
  intro pre
  induction pre with
  | nil => intro u post _ hu; simp only [List.nil_append, roundU, hu]
  | cons p t ih =>
    intro u post hpre hu
    obtain ⟨p', o, hp⟩ := hpre p List.mem_cons_self
    simp only [List.cons_append, roundU, hp, ih u post (fun x hx => hpre x (List.mem_cons_of_mem _ hx)) hu]

/-- **the hypothesis is exactly what the code needs**: if the `async_update_records` of some registered user listener raises `e`
(the ones called before it having returned), the whole listener round raises `e` — nothing in `RecordManager.async_updates` catches it -/
theorem listeners_raises (r : UState υ) (now : Ms) (pairs : List (Rec × Option Rec)) (c1 c2 : Cache) (n : Bool)
    (pre : List υ) (u : υ) (post : List υ) (e : PyExc) (hr : r.users = pre ++ u :: post)
    (hpre : ∀ x ∈ pre, ∃ x' o, U.update x now pairs c1 = .ok (x', o)) (hu : U.update u now pairs c1 = .error e) :
    (userBase U upd).listeners r now pairs c1 c2 n = .error e := by
  show listeners U upd r now pairs c1 c2 n = _
  unfold listeners
  rw [hr, roundU_raises (f := fun u => U.update u now pairs c1) pre u post hpre hu]

end

end Zc.Survive.User
