import Zc.Proofs.SurviveTimersB
/-! The timer blocks of the composite are total under `CInv ∧ TInv` and preserve both; so is every
datagram block; hence every history over datagram arrivals, deferred-query timers, browser query timers,
lookup query transmissions and residual blocks runs without an exception (C15). -/
namespace Zc.Survive.Comp
open Zc Zc.Wire Zc.Survive

section
variable (lower : String → String) (possible : String → List String) (ettl : Nat)
variable {ρ ω : Type} (R : Rest ρ ω) (Iρ : ρ → Prop)

/-- what the timer blocks need beyond `CInv`: the browsed types are encodable names (data invariant of what the
application browses), and so are the names the schedulers' heaps and the lookups' `ServiceInfo` objects hold
(they come from datagrams: invariant) -/
structure TInv (d : CState ρ) : Prop where
  types : ∀ cs ∈ d.scheds, TypesSafe cs.1.types
  heap : ∀ cs ∈ d.scheds, HeapP NameTextSafe cs.2
  lookups : ∀ i ∈ d.lookups, LookOK i

/-! ### the datagram blocks preserve `TInv` -/

/-- the `(new, old)` pairs handed to the listeners are records of the datagram -/
theorem pairs_names {c : Cache} (h : ∃ s, Refines lower c s ∧ Flat.WF lower s) {now : Ms} {recs : List Rec}
    (hr : ∀ r ∈ recs, RecNamesOK r) {out : IngestOut Cache}
    (ho : Zc.ingest lower (Cache.ops lower) c now recs = .ok out) {call : List (Rec × Option Rec) × Cache}
    (hc : out.call1 = some call) : ∀ u ∈ call.1, RecNamesOK u.1 := by
  obtain ⟨s, href, _⟩ := h
  have hcall := ingest_call1 lower ho
  rw [hc] at hcall
  have hrel := href.ingestPre now recs
  obtain ⟨_, hflatU, _, _, _⟩ := ingestPre_flat (lower := lower) s now recs
  split at hcall
  · cases hcall
  · simp only [Option.some.injEq] at hcall
    subst hcall
    intro u hu
    unfold livePairs at hu
    obtain ⟨v, hv, rfl⟩ := List.mem_map.mp hu
    rw [hrel.updates, hflatU, List.mem_flatMap] at hv
    obtain ⟨r, hrD, hvr⟩ := hv
    have hv1 : v.1 = r := by
      unfold updOf at hvr
      split at hvr
      · simp at hvr; rw [hvr]
      · split at hvr
        · simp at hvr; rw [hvr]
        · simp at hvr
    show RecNamesOK v.1
    rw [hv1]
    unfold effective stamp at hrD
    obtain ⟨r1, hr1, rfl⟩ := List.mem_map.mp hrD
    obtain ⟨r0, hr0, rfl⟩ := List.mem_map.mp hr1
    have := hr r0 hr0
    unfold floorPtr
    split <;> exact this

theorem ingest_tinv (glue : TextGlue) {d d' : CState ρ} {k : Pkt} {o : List (COut ω)} (hI : CInv lower ettl Iρ d) (hT : TInv d)
    (hk : PktOK k) (h : ingest lower possible R d k = .ok (d', o)) : TInv d' := by
  unfold ingest at h
  cases ho : Zc.ingest lower (Cache.ops lower) d.cache k.now (recsOf k) with
  | error e => rw [ho] at h; cases h
  | ok out =>
    rw [ho] at h
    dsimp only at h
    cases hc1 : out.call1 with
    | none =>
      rw [hc1] at h
      simp only [Except.ok.injEq, Prod.mk.injEq] at h
      rw [← h.1]
      exact ⟨hT.types, hT.heap, hT.lookups⟩
    | some call =>
      rw [hc1] at h
      dsimp only at h
      have hpairs := pairs_names lower hI.cache (recsOf_names hk) ho hc1
      cases hss : schedsStep lower possible k.now call.1 d.scheds with
      | error e => rw [hss] at h; cases h
      | ok ss' =>
        rw [hss] at h
        dsimp only at h
        cases hl : R.listeners d.rest k.now call.1 call.2 out.cache out.notify with
        | error e => rw [hl] at h; cases h
        | ok v =>
          rw [hl] at h
          obtain ⟨rest', oo⟩ := v
          simp only [Except.ok.injEq, Prod.mk.injEq] at h
          rw [← h.1]
          have hsched := schedsStep_heapP lower possible NameTextSafe k.now call.1
            (fun u hu => fromWire_safe glue (hpairs u hu).1) hT.heap hss
          refine ⟨?_, fun cs hcs => (hsched cs hcs).1, ?_⟩
          · intro cs hcs
            obtain ⟨cs0, hcs0, heq⟩ := (hsched cs hcs).2
            show TypesSafe cs.1.types
            rw [heq]
            exact hT.types cs0 hcs0
          · intro i hi
            simp only [List.mem_map] at hi
            obtain ⟨i0, hi0, rfl⟩ := hi
            apply processAll_lookOK glue lower _ _ _ _ (hT.lookups i0 hi0)
            intro r hr
            obtain ⟨u, hu, rfl⟩ := List.mem_map.mp hr
            exact hpairs u hu

theorem answer_fields {d d' : CState ρ} {ks : List Pkt} {u : Bool} {qa : Option QA}
    (h : answer lower ettl R d ks u = .ok (d', qa)) : d'.scheds = d.scheds ∧ d'.lookups = d.lookups := by
  unfold answer at h
  split at h
  · cases h
  · simp only [Except.ok.injEq, Prod.mk.injEq] at h; rw [← h.1]; exact ⟨rfl, rfl⟩
  · split at h
    · cases h
    · simp only [Except.ok.injEq, Prod.mk.injEq] at h; rw [← h.1]; exact ⟨rfl, rfl⟩

theorem enqueue_fields (d : CState ρ) (t : Ms) (q : QA) :
    (enqueue R d t q).1.scheds = d.scheds ∧ (enqueue R d t q).1.lookups = d.lookups := by
  unfold enqueue
  split <;> exact ⟨rfl, rfl⟩

theorem TInv.congr {d d' : CState ρ} (h : TInv d) (h1 : d'.scheds = d.scheds) (h2 : d'.lookups = d.lookups) : TInv d' :=
  ⟨by rw [h1]; exact h.types, by rw [h1]; exact h.heap, by rw [h2]; exact h.lookups⟩

/-- the invariant of the composite with its timer blocks -/
def CTInv (d : CState ρ) : Prop := CInv lower ettl Iρ d ∧ TInv d

/-- **`DownOK` for the composite under `CInv ∧ TInv`** -/
theorem comp_downOK_T (glue : TextGlue) (hL : ListenersOK R Iρ) (hR : RouteOK R Iρ) (hQ : QueueOK R Iρ) :
    DownOK (down lower possible ettl R) (CTInv lower ettl Iρ) QASafe := by
  have hD := comp_downOK lower possible ettl R Iρ hL hR hQ
  refine ⟨?_, ?_, ?_⟩
  · intro d k hI hk
    obtain ⟨d', o, h, hI'⟩ := hD.ingest d k hI.1 hk
    exact ⟨d', o, h, hI', ingest_tinv lower possible ettl R Iρ glue hI.1 hI.2 hk h⟩
  · intro d ks u hI hne hk
    obtain ⟨d', qa, h, hI', hS⟩ := hD.answer d ks u hI.1 hne hk
    obtain ⟨e1, e2⟩ := answer_fields lower ettl R h
    exact ⟨d', qa, h, ⟨hI', hI.2.congr e1 e2⟩, hS⟩
  · intro d t q hI
    obtain ⟨e1, e2⟩ := enqueue_fields R d t q
    exact ⟨hD.enqueue d t q hI.1, hI.2.congr e1 e2⟩

/-! ### the timer blocks -/

variable (sz : QueryGen.QOut → Nat)

theorem clockOK_iff {c : Cache} {t : Ms} (h : clockOK c t = true) : ∀ r ∈ c.allRecs, r.created ≤ t := by
  intro r hr
  unfold clockOK at h
  simpa using List.all_eq_true.mp h r hr

theorem sends_safe (glue : TextGlue) (c : Cache) (now : Ms)
    (hrec : ∀ r ∈ c.allRecs, RecNamesOK r ∧ RecFieldsOK r) (hclock : ∀ r ∈ c.allRecs, r.created ≤ QueryGen.browserAnswerTime now) :
    ∀ (sends : List Sched.Send) (acc : List Encode.Msg × QueryGen.History), (∀ m ∈ acc.1, MsgSafe m) →
      (∀ snd ∈ sends, TypesSafe snd.types) →
      ∀ m ∈ (sends.foldl (fun (acc : List Encode.Msg × QueryGen.History) snd =>
          ((acc.1 ++ (sendMsgs lower sz c now acc.2 snd).1), (sendMsgs lower sz c now acc.2 snd).2)) acc).1, MsgSafe m := by
  intro sends
  induction sends with
  | nil => intro acc h _; exact h
  | cons snd rest ih =>
    intro acc h hs
    simp only [List.foldl_cons]
    apply ih
    · intro m hm
      simp only [List.mem_append] at hm
      rcases hm with hm | hm
      · exact h m hm
      · exact sendMsgs_safe lower sz glue c now acc.2 snd (hs snd List.mem_cons_self) hrec hclock m hm
    · exact fun x hx => hs x (List.mem_cons_of_mem _ hx)

/-- **a browser's query timer never raises** (under `CInv ∧ TInv`, the text glue and a monotone clock), and both
invariants hold afterwards -/
theorem browserFire_ok (glue : TextGlue) {d : CState ρ} (hI : CInv lower ettl Iρ d) (hT : TInv d) (i : Nat) (done : Bool) (now : Ms)
    (hclock : ∀ r ∈ d.cache.allRecs, r.created ≤ QueryGen.browserAnswerTime now) :
    ∃ d' pks, browserFire lower sz d i done now = .ok (d', pks) ∧ CInv lower ettl Iρ d' ∧ TInv d' := by
  unfold browserFire
  cases hget : d.scheds[i]? with
  | none => exact ⟨d, [], rfl, hI, hT⟩
  | some cs =>
    dsimp only
    have hmem : cs ∈ d.scheds := List.mem_of_getElem? hget
    have hinv := hI.scheds cs hmem
    obtain ⟨hnone, hsome⟩ := Sched2.step2_refines cs.1 hinv now (.fire done)
    cases hstep : Sched.step cs.1 (Sched2.abs cs.2) now (.fire done) with
    | none =>
      rw [hnone hstep]
      exact ⟨d, [], rfl, hI, hT⟩
    | some v =>
      obtain ⟨sa, outs⟩ := v
      obtain ⟨s2, hs2, _, hinv2⟩ := hsome sa outs hstep
      rw [hs2]
      dsimp only
      obtain ⟨hheap, htypes⟩ := fire_heapP NameTextSafe cs.1 now done (hT.heap cs hmem) (hT.types cs hmem) hs2
      have hmsgs := sends_safe lower sz glue d.cache now (fun r hr => cached_ok hI hr) hclock outs ([], d.hist)
        (by intro m hm; simp at hm) htypes
      obtain ⟨pks, hpks⟩ := encodeAll_total _ hmsgs
      rw [hpks]
      refine ⟨_, pks, rfl, ?_, ?_⟩
      · refine ⟨hI.cache, hI.reg, hI.names, hI.fields, hI.fresh, hI.safe, ?_, hI.browsers, hI.rest⟩
        intro cs' hcs'
        rcases List.mem_or_eq_of_mem_set hcs' with h | h
        · exact hI.scheds cs' h
        · rw [h]; exact hinv2
      · refine ⟨?_, ?_, hT.lookups⟩
        · intro cs' hcs'
          rcases List.mem_or_eq_of_mem_set hcs' with h | h
          · exact hT.types cs' h
          · rw [h]; exact hT.types cs hmem
        · intro cs' hcs'
          rcases List.mem_or_eq_of_mem_set hcs' with h | h
          · exact hT.heap cs' h
          · rw [h]; exact hheap

/-- **a lookup's query transmission never raises** -/
theorem lookupQuery_ok (glue : TextGlue) {d : CState ρ} (hI : CInv lower ettl Iρ d) (hT : TInv d) (j : Nat) (now : Ms) (qu : Bool)
    (hclock : ∀ r ∈ d.cache.allRecs, r.created ≤ QueryGen.lookupAnswerTime now) :
    ∃ d' pks, lookupQuery lower d j now qu = .ok (d', pks) ∧ CInv lower ettl Iρ d' ∧ TInv d' := by
  unfold lookupQuery
  cases hget : d.lookups[j]? with
  | none => exact ⟨d, [], rfl, hI, hT⟩
  | some info =>
    dsimp only
    split
    · exact ⟨d, [], rfl, hI, hT⟩
    · have hmem : info ∈ d.lookups := List.mem_of_getElem? hget
      obtain ⟨h1, h2⟩ := hT.lookups info hmem
      have hsafe := lookupMsg_safe glue d.cache.allRecs [info.name, info.serverOrName]
        (by intro n hn; simp at hn; rcases hn with rfl | rfl <;> assumption) now (fun r hr => cached_ok hI hr) hclock _
        (genQuery_ok lower d.cache.allRecs d.lhist now info qu)
      obtain ⟨pk, hpk⟩ := packets_total _ hsafe
      rw [hpk]
      exact ⟨d, [pk], rfl, hI, hT⟩

theorem timerStep_ok (glue : TextGlue) {d : CState ρ} (hI : CInv lower ettl Iρ d) (hT : TInv d) (tb : TimerBlock) :
    ∃ d' pks, timerStep lower sz d tb = .ok (d', pks) ∧ CInv lower ettl Iρ d' ∧ TInv d' := by
  cases tb with
  | browserFire i done now =>
    simp only [timerStep]
    split
    · rename_i hc
      exact browserFire_ok lower ettl Iρ sz glue hI hT i done now (clockOK_iff hc)
    · exact ⟨d, [], rfl, hI, hT⟩
  | lookupQuery j now qu =>
    simp only [timerStep]
    split
    · rename_i hc
      exact lookupQuery_ok lower ettl Iρ glue hI hT j now qu (clockOK_iff hc)
    · exact ⟨d, [], rfl, hI, hT⟩

/-- the `other` blocks of the composite — modelled timer blocks and residual blocks — preserve the invariant without raising,
given that the residual ones do -/
theorem otherT_ok {β : Type} (glue : TextGlue) (other' : CState ρ → β → Except PyExc (CState ρ × List (COut ω)))
    (hO : ∀ d b, CTInv lower ettl Iρ d → ∃ d' o, other' d b = .ok (d', o) ∧ CTInv lower ettl Iρ d') :
    ∀ d (b : TimerBlock ⊕ β), CTInv lower ettl Iρ d →
      ∃ d' o, otherT lower sz other' d b = .ok (d', o) ∧ CTInv lower ettl Iρ d' := by
  intro d b hI
  cases b with
  | inl tb =>
    obtain ⟨d', pks, h, hI', hT'⟩ := timerStep_ok lower ettl Iρ sz glue hI.1 hI.2 tb
    exact ⟨d', pks.map COut.sent, by simp only [otherT, h], hI', hT'⟩
  | inr b => exact hO d b hI

end

end Zc.Survive.Comp
