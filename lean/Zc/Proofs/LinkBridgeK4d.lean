import Zc.Proofs.LinkBridgeK4c
/-! K4, reply-model level, part 4: **a fresh query is answered** (`KRun.fresh_answered`: C11's routing, C12's windows) and
**a dropped duplicate has a processed source** (`KRun.dup_source`: the listener's guard). -/
namespace Zc.Bridge
open Zc Zc.Reply GenFacts

/-! ### routing: multicast, unless the question is QU and comes from port 5353 -/

theorem suppresses_nil (c : Cand) : Reply.suppresses [] c = false := by
  simp [Reply.suppresses]

theorem unionKnown_single (p : Pkt) : unionKnown [p] = if p.isProbe then [] else p.known := by
  unfold unionKnown
  cases hp : p.isProbe <;> simp [hp]

/-- routing a strategy that is not "QU from port 5353" puts each of its answers into one of the three multicast sets -/
theorem route_mcast (us probe : Bool) (seen : SeenMap) (now : Int) (nq q0 : Nat) (qr : QR) (qu : Bool) (answers : Dict) (r : RecId)
    (hroute : (!us && qu) = false) (hr : r ∈ answers.keys) :
    r ∈ (qr.route us probe seen now nq q0 qu answers).mcastNow ∨ r ∈ (qr.route us probe seen now nq q0 qu answers).mcastAgg ∨
      r ∈ (qr.route us probe seen now nq q0 qu answers).mcastLast := by
  simp only [QR.route]
  split
  · rename_i hq
    rw [GenFacts.route_qu_only, hroute] at hq
    cases hq
  · have key : ∀ q : QR, r ∈ (q.addMcast probe seen now nq q0 answers).mcastNow ∨ r ∈ (q.addMcast probe seen now nq q0 answers).mcastAgg ∨
        r ∈ (q.addMcast probe seen now nq q0 answers).mcastLast := by
      intro q
      obtain ⟨h1, h2, h3, _⟩ := addMcast_sets probe seen now nq q0 answers q r
      cases hroute' : mcRoute probe (inLastSecond (seen.get r) now) nq q0
      · exact Or.inl (h1.mpr (Or.inr ⟨hr, hroute'⟩))
      · exact Or.inr (Or.inr (h2.mpr (Or.inr ⟨hr, hroute'⟩)))
      · exact Or.inr (Or.inl (h3.mpr (Or.inr ⟨hr, hroute'⟩)))
    cases us
    · simp only [Bool.false_eq_true, if_false]; exact key qr
    · simp only [if_true]; exact key _

/-- an answer of a question that is not routed as "QU from port 5353" is in one of the three multicast sets -/
theorem query_mcast {pkts : List Pkt} {us : Bool} {seen : SeenMap} {qa : QA} (h : asyncResponse pkts us seen = some qa)
    {p : Pkt} (hp : p ∈ pkts) {it : QItem} (hit : it ∈ p.items) (hroute : (!us && it.qu) = false)
    (r : RecId) (hr : r ∈ (answerSet (unionKnown pkts) it).keys) :
    r ∈ qa.mcastNow.keys ∨ r ∈ qa.mcastAgg.keys ∨ r ∈ qa.mcastLast.keys := by
  obtain ⟨first, last, _, _, rfl⟩ := asyncResponse_eq h
  obtain ⟨_, k2, k3, k4⟩ := answers_keys
    (List.foldl (fun (qr : QR) it => qr.route us (pkts.any (·.isProbe)) seen last.now first.nq first.q0type it.qu
      (answerSet (unionKnown pkts) it)) {} (pkts.flatMap (·.items)))
  rw [k2, k3, k4]
  exact foldl_establish
    (fun (qr : QR) it => qr.route us (pkts.any (·.isProbe)) seen last.now first.nq first.q0type it.qu (answerSet (unionKnown pkts) it))
    (fun qr => r ∈ qr.mcastNow ∨ r ∈ qr.mcastAgg ∨ r ∈ qr.mcastLast)
    (fun a b hq => by
      obtain ⟨_, m2, m3, m4⟩ := route_mono us (pkts.any (·.isProbe)) seen last.now first.nq first.q0type a b.qu (answerSet (unionKnown pkts) b) r
      rcases hq with hq | hq | hq
      · exact Or.inl (m2 hq)
      · exact Or.inr (Or.inl (m3 hq))
      · exact Or.inr (Or.inr (m4 hq)))
    (fun a => route_mcast us _ seen last.now first.nq first.q0type a it.qu _ r hroute hr) _ {} (List.mem_flatMap.mpr ⟨p, hp, hit⟩)

/-- **C11 for K4**: every unsuppressed candidate ends in a multicast set — or, when its question is QU and the query came from
port 5353, in the unicast reply -/
theorem query_routes {pkts : List Pkt} {us : Bool} {seen : SeenMap} {qa : QA} (h : asyncResponse pkts us seen = some qa)
    {p : Pkt} (hp : p ∈ pkts) {it : QItem} (hit : it ∈ p.items) (r : RecId) (hr : r ∈ (answerSet (unionKnown pkts) it).keys) :
    (r ∈ qa.mcastNow.keys ∨ r ∈ qa.mcastAgg.keys ∨ r ∈ qa.mcastLast.keys) ∨ (it.qu = true ∧ us = false ∧ r ∈ qa.ucast.keys) := by
  by_cases hroute : (!us && it.qu) = false
  · exact Or.inl (query_mcast h hp hit hroute r hr)
  · have hroute' : (!us && it.qu) = true := by simpa using hroute
    rw [Bool.and_eq_true] at hroute'
    obtain ⟨hus, hqu⟩ := hroute'
    have hus' : us = false := by simpa using hus
    subst hus'
    obtain ⟨_, last, _, hl, _⟩ := asyncResponse_eq h
    obtain ⟨a, b, _⟩ := query_qu_us h hp hit hqu r hr hl
    cases hw : withinQuarter (seen.get r) last.now
    · exact Or.inl (Or.inl (b hw))
    · exact Or.inr ⟨hqu, rfl, a hw⟩

/-! ### what "answered" means at this level -/

/-- a datagram of the history, sent between `t` and `t + 1200`, carries the record `k` as an answer with additionals satisfying
`V`: a multicast — or, if `qu`, the unicast reply to the querier at `(addr, port)` -/
def Answered (tr : List (Host × KEv × StepOut)) (k : RecId) (V : List RecId → Prop) (t : Int) (addr port : Nat) (qu : Bool) : Prop :=
  ∃ y ∈ tr, t ≤ y.2.1.time ∧ y.2.1.time ≤ t + 1200 ∧ ∃ o ∈ y.2.2.outs,
    (∃ b v, o = Out.ofMcast b ∧ (k, v) ∈ b ∧ V v) ∨
    (qu = true ∧ ∃ id nq d v, o = Out.ucast addr port id nq d.keys (additionalsOf d) ∧ (k, v) ∈ d ∧ V v)

theorem valOK_entry {k : RecId} {V : List RecId → Prop} {d : Dict} (hv : Dict.ValOK k V d) (hk : k ∈ d.keys) : ∃ v, (k, v) ∈ d ∧ V v := by
  obtain ⟨v, hv'⟩ := Dict.exists_of_key hk
  exact ⟨v, hv', hv _ hv' rfl⟩

/-- **A fresh untruncated query is answered.**  In a history of the reply model (with the D5 purge) from the initial state that
contains no truncated query, let a datagram pass both guards at `t`, and let `c` be a candidate of one of its question strategies
that the known answers do not suppress.  If no purge between `t` and `t + 1200` strikes `c`'s record, and the history goes on beyond
`t + 1200`, the record is sent: at `t` (multicast at once, or unicast for a QU question from port 5353), or by the aggregation
queue's timer by `t + 500`, or by the protected queue's by `t + 1200`. -/
theorem KRun.fresh_answered {k : RecId} {V : List RecId → Prop} {c0 : Int} {ks : List KEv} {h' : Host} {c' : Int}
    {tr : List (Host × KEv × StepOut)} (hr : KRun {} c0 ks h' c' tr) (hntc : NoTC ks) (hcv : CandVs k V ks) (hpk : PurgeKeeps tr)
    {x : Host × KEv × StepOut} (hx : x ∈ tr) {t : Int} {addr port dataId size : Nat} {hasQu : Bool} {p : Pkt} {seen : SeenMap}
    {draws : List Int} (hev : x.2.1 = .blk (.rx t addr port dataId size hasQu (.query p) seen draws)) (hf : Fresh x.1 t dataId size)
    {it : QItem} (hit : it ∈ p.items) {c : Cand} (hcm : c ∈ it.cands) (hid : c.id = k) (hsup : Reply.suppresses p.known c = false)
    (hsp : ∀ y ∈ tr, ∀ tp W, y.2.1 = .purge tp W → t ≤ tp → tp ≤ t + 1200 → k ∉ W)
    (hend : t + 1200 < c') : Answered tr k V t addr port it.qu := by
  obtain ⟨ks1, cx, tr1, ks2, tr2, hr1, hcx, hs, hr2, htr, hks⟩ := hr.split hx
  have hsub1 : ∀ y ∈ tr1, y ∈ tr := fun y hy => by rw [htr]; exact List.mem_append_left _ hy
  have hsub2 : ∀ y ∈ tr2, y ∈ tr := fun y hy => by rw [htr]; exact List.mem_append_right _ (List.mem_cons_of_mem _ hy)
  have hksub1 : ∀ e ∈ ks1, e ∈ ks := fun e he => by rw [hks]; exact List.mem_append_left _ he
  have hksub2 : ∀ e ∈ ks2, e ∈ ks := fun e he => by rw [hks]; exact List.mem_append_right _ (List.mem_cons_of_mem _ he)
  have hxk : x.2.1 ∈ ks := by rw [hks]; simp
  have hI : KI k V cx x.1 := hr1.ki (KI.init k V c0) (hntc.sub hksub1) (hcv.sub hksub1) (hpk.sub hsub1)
  have hI' : KI k V x.2.1.time x.2.2.host :=
    hI.kstep hcx hs (hntc.sub (by intro e he; simp at he; rw [he]; exact hxk)) (hcv.sub (by intro e he; simp at he; rw [he]; exact hxk))
      (hpk.sub (by intro y hy; simp at hy; rw [hy]; exact hx))
  have htime : x.2.1.time = t := by rw [hev]; rfl
  rw [hev] at hs hcx
  simp only [kstep, KEv.time, Ev.time] at hs hcx
  obtain ⟨a, hd, hp⟩ := step_decide hs
  have htc : p.truncated = false := hntc t addr port dataId size hasQu p seen draws (by rw [← hev]; exact hxk)
  obtain ⟨hnow, rfl⟩ := decide_rx_query hf htc hd
  obtain ⟨_, _, hpk1⟩ := take_of_nil (l := remember x.1.lis dataId t hasQu) hI.noDeferred hI.noTimers (some p) addr
  obtain ⟨rest, hasm⟩ := perform_answer hp
  rw [hpk1] at hasm
  simp only [Option.toList, Ev.time, Ev.seen] at hasm
  obtain ⟨qa, hqa⟩ := asyncResponse_isSome (Gen.Reply.ucast_source port) seen (pkts := [p]) (p := p) (by simp) hit
  obtain ⟨first, hfirst, houts, _, hq1, hq2⟩ := assemble_spec hasm hqa
  have hfirst' : first = p := by simpa using hfirst.symm
  subst hfirst'
  have hkey : k ∈ (answerSet (unionKnown [first]) it).keys := by
    rw [← hid]
    apply answerSet_has _ _ _ hcm
    rw [unionKnown_single]
    split
    · exact suppresses_nil c
    · exact hsup
  obtain ⟨v1, v2, v3, v4⟩ := asyncResponse_val hqa (hcv t addr port dataId size hasQu first seen draws (by rw [← hev]; exact hxk))
  obtain ⟨hO, hD, hH⟩ := hI.inv
  -- a record handed to queue `d` at `t` is multicast by its timer by `t + (if d then 1200 else 500)`
  have queued : ∀ d : Bool, (∃ g ∈ (x.2.2.host.q d).groups, k ∈ g.answers.keys ∧ g.born ≤ t) → Answered tr k V t addr port it.qu := by
    intro d ⟨g, hg, hkg, hborn⟩
    have hnum : t + (qpOf d).agg + (qpOf d).addl = t + (if d then 1200 else 500) := by
      have e2 := outQP_addl; have e3 := outQP_agg; have e4 := delayQP_addl; have e5 := delayQP_agg
      cases d <;> simp only [qpOf, Bool.false_eq_true, if_false, if_true] <;> omega
    have hD1200 : t + (if d then 1200 else 500) ≤ t + 1200 := by cases d <;> simp
    rw [htime] at hI'
    have hlive := hr2.live d (k := k) (V := V) (t + (if d then 1200 else 500)) (by rw [htime]; exact hI') (hntc.sub hksub2)
      (hcv.sub hksub2) (hpk.sub hsub2)
      (by
        intro y hy tp W hyp htp
        have := (hr2.times.2 y hy).1
        rw [hyp, htime] at this
        exact hsp y (hsub2 y hy) tp W hyp this (by omega))
      ⟨g, hg, hkg, by omega⟩
    rcases hlive with ⟨y, hy, s, b, hyq, hob, hkb, hvb, hsD⟩ | ⟨g', hg', _, hD'⟩
    · obtain ⟨v, hv1, hv2⟩ := valOK_entry hvb hkb
      have hty := (hr2.times.2 y hy).1
      rw [htime] at hty
      have hys : y.2.1.time = s := by rw [hyq]; rfl
      exact ⟨y, hsub2 y hy, hty, by omega, Out.ofMcast b, hob, Or.inl ⟨b, v, rfl, hv1, hv2⟩⟩
    · exfalso
      have hIend : KI k V c' h' := hr2.ki (by rw [htime]; exact hI') (hntc.sub hksub2) (hcv.sub hksub2) (hpk.sub hsub2)
      obtain ⟨hO', hD'', hH'⟩ := hIend.inv
      have := (hH'.q d).not_late hg'
      omega
  rcases query_routes hqa (by simp) hit k hkey with (hN | hA | hL) | ⟨hqu, _, hU⟩
  · -- multicast at once
    obtain ⟨v, hv1, hv2⟩ := valOK_entry v2 hN
    refine ⟨x, hx, by omega, by omega, Out.ofMcast qa.mcastNow, ?_, Or.inl ⟨_, v, rfl, hv1, hv2⟩⟩
    rw [houts]
    have hne : qa.mcastNow.isEmpty = false := Dict.isEmpty_false_of_mem hN
    simp [immediateOuts, hne]
  · -- aggregation queue
    apply queued false
    obtain ⟨d, _, _, heq⟩ := hq1.2 (Dict.isEmpty_false_of_mem hA)
    obtain ⟨g', hg', hk', hb⟩ := Queue.add_has outQP x.1.outQ hH.outQ t first.now d hcx qa.mcastAgg hA
    exact ⟨g', by simp only [Host.q, Bool.false_eq_true, if_false]; rw [heq]; exact hg', hk', hb⟩
  · -- protected queue
    apply queued true
    obtain ⟨d, _, _, heq⟩ := hq2.2 (Dict.isEmpty_false_of_mem hL)
    obtain ⟨g', hg', hk', hb⟩ := Queue.add_has delayQP x.1.delayQ hH.delayQ t first.now d hcx qa.mcastLast hL
    exact ⟨g', by simp only [Host.q, if_true]; rw [heq]; exact hg', hk', hb⟩
  · -- unicast reply to the querier
    obtain ⟨v, hv1, hv2⟩ := valOK_entry v1 hU
    refine ⟨x, hx, by omega, by omega,
      Out.ucast addr port first.id (if Gen.Reply.ans_echo_questions (Gen.Reply.ucast_source port) then first.nq else 0) qa.ucast.keys
        (additionalsOf qa.ucast), ?_, Or.inr ⟨hqu, first.id, _, qa.ucast, v, rfl, hv1, hv2⟩⟩
    rw [houts]
    have hne : qa.ucast.isEmpty = false := Dict.isEmpty_false_of_mem hU
    simp only [immediateOuts, hne, Bool.false_eq_true, if_false, List.mem_append, List.mem_singleton, true_or]

/-- **A datagram the duplicate guard drops has a processed source**: a datagram with the same bytes that passed both guards less
than a second earlier in the same history, and whose parser reported no QU question. -/
theorem KRun.dup_source {c0 : Int} {ks : List KEv} {h' : Host} {c' : Int}
    {tr : List (Host × KEv × StepOut)} (hr : KRun {} c0 ks h' c' tr) (hntc : NoTC ks) (hpk : PurgeKeeps tr)
    {x : Host × KEv × StepOut} (hx : x ∈ tr) {t : Int} {addr port dataId size : Nat} {hasQu : Bool} {kind : RxKind} {seen : SeenMap}
    {draws : List Int} (hev : x.2.1 = .blk (.rx t addr port dataId size hasQu kind seen draws))
    (hsz : Gen.Reply.l_oversize size = false) (hnf : ¬ Fresh x.1 t dataId size) :
    ∃ x0 ∈ tr, ∃ t0 addr0 port0 size0 kind0 seen0 draws0,
      x0.2.1 = .blk (.rx t0 addr0 port0 dataId size0 false kind0 seen0 draws0) ∧ Fresh x0.1 t0 dataId size0 ∧ t - 1000 < t0 ∧ t0 ≤ t := by
  obtain ⟨ks1, cx, tr1, ks2, tr2, hr1, hcx, _, _, htr, hks⟩ := hr.split hx
  have hsub1 : ∀ y ∈ tr1, y ∈ tr := fun y hy => by rw [htr]; exact List.mem_append_left _ hy
  have hksub1 : ∀ e ∈ ks1, e ∈ ks := fun e he => by rw [hks]; exact List.mem_append_left _ he
  have hcv : CandVs 0 (fun _ => True) ks1 := by intro _ _ _ _ _ _ _ _ _ _ _ _ _ _ _ _ _; trivial
  have hlast := hr1.lastOK (k := 0) (V := fun _ => True) [] (KI.init _ _ c0) (hntc.sub hksub1) hcv (hpk.sub hsub1) (LastOK.init c0)
  have hdup : Gen.Reply.l_duplicate (x.1.lis.lastData == some dataId) t x.1.lis.lastTime x.1.lis.lastMsgQu.isNone
      (x.1.lis.lastMsgQu.getD false) = true := by
    cases hd : Gen.Reply.l_duplicate (x.1.lis.lastData == some dataId) t x.1.lis.lastTime x.1.lis.lastMsgQu.isNone
        (x.1.lis.lastMsgQu.getD false)
    · exact absurd ⟨hsz, hd⟩ hnf
    · rfl
  rw [Zc.GenFacts.LinkReply.l_duplicate] at hdup
  obtain ⟨hsame, hwin, hnone, hq⟩ := hdup
  have hsame' : x.1.lis.lastData = some dataId := by simpa using hsame
  obtain ⟨hle, x0, hx0, addr0, port0, size0, hasQu0, kind0, seen0, draws0, hev0, hf0, hmq⟩ := hlast dataId hsame'
  rw [hmq] at hq
  simp only [Option.getD_some] at hq
  subst hq
  rw [hev] at hcx
  simp only [KEv.time, Ev.time] at hcx
  exact ⟨x0, hsub1 x0 (by simpa using hx0), x.1.lis.lastTime, addr0, port0, size0, kind0, seen0, draws0, hev0, hf0, hwin, by omega⟩

end Zc.Bridge
