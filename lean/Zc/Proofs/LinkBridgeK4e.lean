import Zc.Model.LinkBridgeK4
import Zc.Proofs.Respond
import Zc.Proofs.LinkBridge
import Zc.GenFacts.LinkReply
/-! K4, C03's part: what the answer computation hands to the routing for a pointer question.

* `strategy_ptrFull` — in every strategy's answer map, an entry whose key is a pointer record of a service type carries the
  SRV and the TXT record of that instance and an address record (`pointerEntry`: `recSet [srv, txt] ++ an`), provided every
  registered service has an address;
* `pointer_offered` — a PTR question for the type of a registered service whose pointer the known answers do not suppress has a
  strategy (`.pointer`, the type's bucket) that offers a record identical to the service's pointer (`strategy_complete`);
* `itemsOfQuestions_eq` — the candidates handed to the reply model are these strategies, question by question. -/
namespace Zc.Bridge
open Zc Zc.GenFacts.Responder

variable (lower : String → String) (ettl : Nat)

/-- SRV and TXT of the instance `al` and an address record are among the records -/
def FullRecs (al : String) (v : List Rec) : Prop :=
  (∃ x ∈ v, x.type = Gen.typeSrv ∧ lower x.name = lower al) ∧ (∃ x ∈ v, x.type = Gen.typeTxt ∧ lower x.name = lower al) ∧
  (∃ x ∈ v, x.type = Gen.typeA ∨ x.type = Gen.typeAaaa)

/-- an entry whose key is a pointer record — not the type-enumeration pointer — carries the complete set -/
def PtrFull (e : Rec × List Rec) : Prop :=
  ∀ al, e.1.rdata = .ptr al → lower e.1.name ≠ lower RespSpec.enumName → FullRecs lower al e.2

theorem FullRecs.congr {al al' : String} {v : List Rec} (h : FullRecs lower al v) (he : lower al' = lower al) : FullRecs lower al' v := by
  obtain ⟨h1, h2, h3⟩ := h
  exact ⟨by rw [he]; exact h1, by rw [he]; exact h2, h3⟩

theorem PtrFull.congr : KeyCongr lower (PtrFull lower) := by
  intro a a' v hb h al' hal' hne
  have hk := beq_kind lower a' a hb
  rw [hal'] at hk
  cases hrd : a.rdata with
  | ptr al =>
    have := (ptr_beq_iff lower a' a al' al hal' hrd).mp hb
    exact (h al hrd (by simp only at hne ⊢; rw [← this.2.1]; exact hne)).congr lower this.1
  | addr _ _ => rw [hrd] at hk; simp [RData.kind] at hk
  | hinfo _ _ => rw [hrd] at hk; simp [RData.kind] at hk
  | txt _ => rw [hrd] at hk; simp [RData.kind] at hk
  | srv _ _ _ _ => rw [hrd] at hk; simp [RData.kind] at hk
  | nsec _ _ => rw [hrd] at hk; simp [RData.kind] at hk

/-- identical records have the same type and the same owner name up to case -/
theorem beq_type_name {a b : Rec} (h : a.beq lower b = true) : a.type = b.type ∧ lower a.name = lower b.name := by
  have := ((C20_eq_iff lower a b).mp h).2
  simp only [Rec.specIdent, Prod.mk.injEq] at this
  exact ⟨this.2.1, this.1⟩

theorem recInsert_has {l : List Rec} {r x : Rec} (h : ∃ y ∈ l, y.beq lower x = true) : ∃ y ∈ recInsert lower l r, y.beq lower x = true := by
  obtain ⟨y, hy, hb⟩ := h
  unfold recInsert
  split
  · exact ⟨y, hy, hb⟩
  · exact ⟨y, List.mem_append_left _ hy, hb⟩

theorem recInsert_new (l : List Rec) (r : Rec) : ∃ y ∈ recInsert lower l r, y.beq lower r = true := by
  unfold recInsert
  split
  · rename_i h
    obtain ⟨y, hy, hb⟩ := List.any_eq_true.mp h
    exact ⟨y, hy, hb⟩
  · exact ⟨r, by simp, beq_refl lower r⟩

/-- a Python `set` built from a list holds every element of the list up to identity -/
theorem recSet_has {l : List Rec} {x : Rec} (hx : x ∈ l) : ∃ y ∈ recSet lower l, y.beq lower x = true := by
  unfold recSet
  have key : ∀ (l acc : List Rec), (x ∈ l ∨ ∃ y ∈ acc, y.beq lower x = true) → ∃ y ∈ l.foldl (recInsert lower) acc, y.beq lower x = true := by
    intro l
    induction l with
    | nil =>
      intro acc h
      rcases h with h | h
      · cases h
      · exact h
    | cons a l ih =>
      intro acc h
      simp only [List.foldl_cons]
      apply ih
      rcases h with h | h
      · rcases List.mem_cons.mp h with rfl | h
        · exact Or.inr (recInsert_new lower acc x)
        · exact Or.inl h
      · exact Or.inr (recInsert_has lower h)
  exact key l [] (Or.inl hx)

/-- a service with an address: what travels with its pointer is complete -/
theorem pointer_value_full {s : Svc} (hf : MemoOk lower s) (ha : s.v4 ≠ [] ∨ s.v6 ≠ []) :
    FullRecs lower s.name (recSet lower ([s.srv, s.txt] ++ s.an lower)) := by
  refine ⟨?_, ?_, ?_⟩
  · obtain ⟨y, hy, hb⟩ := recSet_has lower (l := [s.srv, s.txt] ++ s.an lower) (x := s.srv) (by simp)
    obtain ⟨h1, h2⟩ := beq_type_name lower hb
    rw [hf.srv_eq, Svc.buildSrv_eq] at h1 h2
    exact ⟨y, hy, by rw [h1, typeSrv_eq]; rfl, h2⟩
  · obtain ⟨y, hy, hb⟩ := recSet_has lower (l := [s.srv, s.txt] ++ s.an lower) (x := s.txt) (by simp)
    obtain ⟨h1, h2⟩ := beq_type_name lower hb
    rw [hf.txt_eq, Svc.buildTxt_eq] at h1 h2
    exact ⟨y, hy, by rw [h1, typeTxt_eq]; rfl, h2⟩
  · -- some address record of the service is in `_get_address_and_nsec_records`
    have haddr : ∃ x ∈ s.buildAddrs, x.type = 1 ∨ x.type = 28 := by
      rw [Svc.buildAddrs_eq]
      unfold RespSpec.addrsOf
      rcases ha with ha | ha
      · cases h4 : s.v4 with
        | nil => exact absurd h4 ha
        | cons a r => exact ⟨⟨s.server, 1, 1, true, s.hostTtl, 0, .addr a none⟩, by simp, Or.inl rfl⟩
      · cases h6 : s.v6 with
        | nil => exact absurd h6 ha
        | cons a r => exact ⟨⟨s.server, 28, 1, true, s.hostTtl, 0, .addr a none⟩, by simp, Or.inr rfl⟩
    obtain ⟨x, hx, hxt⟩ := haddr
    have hin : ∃ y ∈ s.an lower, y.beq lower x = true := by
      rw [hf.an_eq, Svc.freshAN_eq]
      simp only
      split
      · exact recSet_has lower hx
      · exact recInsert_has lower (recSet_has lower hx)
    obtain ⟨y, hy, hb⟩ := hin
    obtain ⟨z, hz, hzb⟩ := recSet_has lower (l := [s.srv, s.txt] ++ s.an lower) (x := y) (by simp [hy])
    have h1 := (beq_type_name lower (beq_trans lower hzb hb)).1
    refine ⟨z, hz, ?_⟩
    rw [Zc.GenFacts.LinkReply.typeA_eq, Zc.GenFacts.LinkReply.typeAaaa_eq, h1]
    exact hxt

variable (known : List Rec)

/-- every registered service has an address (API discipline, `Bridge.Disc3` at the registry) -/
def AllAddr (reg : Registry) : Prop := ∀ s ∈ reg.services, s.v4 ≠ [] ∨ s.v6 ≠ []

/-- **what travels with a pointer answer** (C03): in the answer map of every strategy of every question, an entry whose key is
the pointer record of a service type carries that instance's SRV and TXT record and an address record -/
theorem strategy_ptrFull {reg : Registry} (hm : AllFresh lower reg) (ha : AllAddr reg) {q : Question} {st : Strategy}
    (hst : st ∈ pureStrategies lower reg q) : ∀ e ∈ st.answer lower ettl known, PtrFull lower e := by
  rcases mem_pureStrategies lower hst with ⟨_, rfl⟩ | ⟨_, ⟨_, rfl⟩ | ⟨_, rfl⟩ | ⟨s, _, ⟨_, rfl⟩ | ⟨_, rfl⟩⟩⟩
  · -- enumeration pointers are excluded by name
    simp only [Strategy.answer, answerEnum]
    apply mergeAll_spec lower (PtrFull lower) (PtrFull.congr lower)
    intro d hd e he al _ hne
    rw [List.mem_map] at hd
    obtain ⟨t, _, rfl⟩ := hd
    unfold enumEntry at he
    split at he
    · cases he
    · simp only [List.mem_singleton] at he
      subst he
      exfalso; apply hne
      simp [enumPtr, enumName_eq, RespSpec.enumName]
  · -- pointer strategy: `recSet [srv, txt] ++ an` of the service whose pointer it is
    simp only [Strategy.answer, answerPointer]
    apply mergeAll_spec lower (PtrFull lower) (PtrFull.congr lower)
    intro d hd e he al hal _
    rw [List.mem_map] at hd
    obtain ⟨s, hs, rfl⟩ := hd
    have hsr : s ∈ reg.services := (List.mem_filter.mp hs).1
    unfold pointerEntry at he
    split at he
    · cases he
    · simp only [List.mem_singleton] at he
      subst he
      have hf := hm s hsr
      simp only at hal ⊢
      rw [hf.ptr_eq] at hal
      have : al = s.name := by simpa [Svc.buildPtr] using hal.symm
      subst this
      exact pointer_value_full lower hf (ha s hsr)
  · -- address strategy: keys are address or NSEC records
    simp only [Strategy.answer, answerAddress]
    apply mergeAll_spec lower (PtrFull lower) (PtrFull.congr lower)
    intro d hd e he al hal _
    rw [List.mem_map] at hd
    obtain ⟨s, hs, rfl⟩ := hd
    have hsr : s ∈ reg.services := (List.mem_filter.mp hs).1
    exfalso
    have hf := hm s hsr
    rcases mem_addressEntries lower known he with ⟨⟨h1, _⟩, _⟩ | ⟨h1, _⟩
    · rw [hf.addrs_eq, Svc.buildAddrs_eq] at h1
      simp only [RespSpec.addrsOf, List.mem_append, List.mem_map] at h1
      rcases h1 with ⟨x, _, hx⟩ | ⟨x, _, hx⟩ <;> rw [← hx] at hal <;> cases hal
    · rw [h1] at hal
      simp [Svc.buildNsec] at hal
  · simp only [Strategy.answer]
    intro e he al hal _
    split at he
    · cases he
    · simp only [List.mem_singleton] at he
      subst he
      exfalso
      have hf := hm s (sget_some_mem lower (by assumption)).1
      simp only at hal
      rw [hf.srv_eq] at hal
      simp [Svc.buildSrv] at hal
  · simp only [Strategy.answer]
    intro e he al hal _
    split at he
    · cases he
    · simp only [List.mem_singleton] at he
      subst he
      exfalso
      have hf := hm s (sget_some_mem lower (by assumption)).1
      simp only at hal
      rw [hf.txt_eq] at hal
      simp [Svc.buildTxt] at hal

/-- **a pointer question for the type of a registered service is answered with its pointer** (C03, `strategy_complete`) unless
the known answers suppress it -/
theorem pointer_offered {reg : Registry} (hi : IndexInv lower reg) (hm : AllFresh lower reg) {z : Svc} (hz : z ∈ reg.services)
    {q : Question} (hq : q.type = 12) (hn : lower q.name = lower z.type) (hne : lower z.type ≠ RespSpec.enumName)
    (hk : suppresses lower known (RespSpec.ptrOf z) = false) :
    ∃ st ∈ pureStrategies lower reg q, ∃ e ∈ st.answer lower ettl known, e.1.beq lower (RespSpec.ptrOf z) = true := by
  have hc : RespSpec.ptrOf z ∈ RespSpec.candidates lower ettl z q := by
    unfold RespSpec.candidates
    simp only
    rw [if_neg (by rintro ⟨_, h2⟩; exact hne (by rw [← hn]; exact h2))]
    simp [hq, hn]
  obtain ⟨st, hst, a, ha, hb⟩ := strategy_complete lower ettl known hi hm hz hc (Or.inr hk)
  simp only [keysOf, List.mem_map] at ha
  obtain ⟨e, he, rfl⟩ := ha
  exact ⟨st, hst, e, he, hb⟩

/-! ### the candidates handed to the reply model -/

/-- the strategies of the questions of one packet, as the reply model reads them -/
def pureItems (tbl : List Rec) (reg : Registry) (qs : List Question) : List Reply.QItem :=
  qs.flatMap (fun q => (pureStrategies lower reg q).map (fun st =>
    ({ qu := q.unique, cands := candsOf lower tbl (st.answer lower ettl known) } : Reply.QItem)))

theorem itemsOfQuestions_eq (tbl : List Rec) {reg : Registry} (hi : IndexInv lower reg) (qs : List Question) :
    itemsOfQuestions lower ettl tbl reg known qs = .ok (pureItems lower ettl known tbl reg qs) := by
  induction qs with
  | nil => rfl
  | cons q qs ih =>
    simp only [itemsOfQuestions, strategiesFor_ok lower hi q, ih, pureItems, List.flatMap_cons]

theorem mem_pureItems {tbl : List Rec} {reg : Registry} {qs : List Question} {it : Reply.QItem}
    (h : it ∈ pureItems lower ettl known tbl reg qs) :
    ∃ q ∈ qs, ∃ st ∈ pureStrategies lower reg q, it = { qu := q.unique, cands := candsOf lower tbl (st.answer lower ettl known) } := by
  unfold pureItems at h
  rw [List.mem_flatMap] at h
  obtain ⟨q, hq, h⟩ := h
  rw [List.mem_map] at h
  obtain ⟨st, hst, rfl⟩ := h
  exact ⟨q, hq, st, hst, rfl⟩

theorem mem_candsOf {tbl : List Rec} {d : DictRS} {c : Reply.Cand} (h : c ∈ candsOf lower tbl d) :
    ∃ e ∈ d, c.id = idOf lower tbl e.1 ∧ c.adds = e.2.map (idOf lower tbl) ∧ c.sup = false := by
  unfold candsOf at h
  rw [List.mem_map] at h
  obtain ⟨e, he, rfl⟩ := h
  exact ⟨e, he, rfl, rfl, rfl⟩

/-! ### ids -/

theorem idOf_lt {tbl : List Rec} {r : Rec} (h : inTbl lower tbl r = true) : idOf lower tbl r < tbl.length := by
  unfold idOf
  rw [List.findIdx_lt_length]
  obtain ⟨x, hx, hb⟩ := List.any_eq_true.mp h
  exact ⟨x, hx, hb⟩

theorem idOf_beq {tbl : List Rec} {r : Rec} (h : idOf lower tbl r < tbl.length) : (tbl[idOf lower tbl r]).beq lower r = true := by
  unfold idOf at h ⊢
  exact List.findIdx_getElem (p := fun x : Rec => x.beq lower r) (w := h)

/-- two records of the table with the same id are the same record -/
theorem same_id_beq {tbl : List Rec} {x y : Rec} (hx : inTbl lower tbl x = true) (hxy : idOf lower tbl x = idOf lower tbl y) :
    Rec.beq lower x y = true := by
  have h1 := idOf_lt lower hx
  have h2 := idOf_beq lower h1
  have h3 : idOf lower tbl y < tbl.length := by rw [← hxy]; exact h1
  have h4 := idOf_beq lower h3
  have h5 : tbl[idOf lower tbl x] = tbl[idOf lower tbl y] := by simp only [hxy]
  rw [h5] at h2
  exact beq_trans lower (beq_symm lower h2) h4

end Zc.Bridge
