import Zc.Proofs.Name
import Zc.Props.C19
/-! What the library's name validator (`service_type_name`, C19's model) guarantees about encodability (C15, `RegSafe` from the API):
in **strict** mode every dot-separated piece of an accepted name — what `DNSOutgoing.write_name` writes as one label — is at most 63
bytes of UTF-8.  In non-strict mode this is false (the 15-character bound on the service name is the only bound on that label). -/
namespace Zc.Name
open Zc.Name.Spec

theorem utf8Len_append (a b : Str) : utf8Len (a ++ b) = utf8Len a + utf8Len b := by
  induction a with
  | nil => simp [utf8Len]
  | cons c r ih => simp only [List.cons_append, utf8Len, ih]; omega

/-- a piece of `s.split('.')` is no longer than `s` -/
theorem splitDot_piece_le : ∀ (s : Str), ∀ piece ∈ splitDot s, utf8Len piece ≤ utf8Len s := by
  intro s
  induction s with
  | nil => intro piece hp; simp [splitDot] at hp; subst hp; exact Nat.le_refl _
  | cons c r ih =>
    intro piece hp
    unfold splitDot at hp
    split at hp
    · simp only [List.mem_cons] at hp
      rcases hp with rfl | hp
      · simp [utf8Len]
      · have := ih piece hp
        simp only [utf8Len]; omega
    · split at hp
      · simp only [List.mem_singleton] at hp
        subst hp
        simp only [utf8Len]; omega
      · rename_i l ls hr
        simp only [List.mem_cons] at hp
        rcases hp with rfl | hp
        · have := ih l (by rw [hr]; exact List.mem_cons_self)
          simp only [utf8Len]; omega
        · have := ih piece (by rw [hr]; exact List.mem_cons_of_mem _ hp)
          simp only [utf8Len]; omega

theorem utf8Len_le_length_of_ascii (s : Str) (h : ∀ c ∈ s, c.toNat < 0x80) : utf8Len s = s.length := by
  induction s with
  | nil => rfl
  | cons c r ih =>
    have hc := h c List.mem_cons_self
    simp only [utf8Len, hc, if_true, List.length_cons, ih (fun x hx => h x (List.mem_cons_of_mem _ hx))]
    omega

theorem svcChar_strict_ascii {c : Char} (h : svcChar true c) : c.toNat < 0x80 := by
  rcases h with h | h | h | h
  · rcases h with h | h <;> omega
  · have := h.2; omega
  · subst h; decide
  · exact absurd h.1 (by decide)

/-- the service label in strict mode: `_` and at most 15 letters, digits, hyphens -/
theorem svcLabel_strict_short {l : Str} (h : SvcLabel true l) : utf8Len l ≤ 16 := by
  obtain ⟨b, rfl, hb⟩ := h
  have hlen := hb.short rfl
  have : utf8Len ('_' :: b) = ('_' :: b).length := by
    apply utf8Len_le_length_of_ascii
    intro c hc
    simp only [List.mem_cons] at hc
    rcases hc with rfl | hc
    · decide
    · exact svcChar_strict_ascii (hb.chars c hc)
  rw [this]
  simp only [List.length_cons]
  omega

theorem trailer_pieces {tr : Str} (h : tr ∈ protoTrailers) : ∃ rest, tr = '.' :: rest ∧ ∀ piece ∈ splitDot rest, utf8Len piece ≤ 5 := by
  rw [protoTrailers_eq] at h
  simp only [List.mem_cons, List.mem_nil_iff, or_false] at h
  rcases h with rfl | rfl
  · exact ⟨tcpT.drop 1, by decide, by decide⟩
  · exact ⟨udpT.drop 1, by decide, by decide⟩

theorem prefix_pieces {p : Str} (h : PrefixOk p) : ∀ piece ∈ splitDot p, utf8Len piece ≤ 63 := by
  cases h with
  | inst hi _ _ =>
    intro piece hp
    have := splitDot_piece_le p piece hp
    have h63 := hi.1
    rw [← utf8Len_eq] at h63
    omega
  | @subtype sub _ _ hi =>
    intro piece hp
    have hsuf : subSuffix = '.' :: subLabel := subSuffix_eq
    rw [hsuf, splitDot_append_dot] at hp
    rcases List.mem_append.mp hp with hp | hp
    · have := splitDot_piece_le sub piece hp
      have h63 := hi.1
      rw [← utf8Len_eq] at h63
      omega
    · have : ∀ x ∈ splitDot subLabel, utf8Len x ≤ 63 := by decide
      exact this piece hp

/-- **every label of a name the strict validator accepts is encodable** -/
theorem valid_strict_pieces {s t : Str} (h : Valid true s t) : ∀ piece ∈ splitDot s, utf8Len piece ≤ 63 := by
  cases h with
  | @service svc tr htr hsvc =>
    obtain ⟨rest, rfl, hrest⟩ := trailer_pieces htr
    intro piece hp
    rw [splitDot_append_dot] at hp
    rcases List.mem_append.mp hp with hp | hp
    · have := splitDot_piece_le svc piece hp
      have := svcLabel_strict_short hsvc
      omega
    · have := hrest piece hp; omega
  | @prefixed p svc tr htr hsvc _ hpre =>
    obtain ⟨rest, rfl, hrest⟩ := trailer_pieces htr
    intro piece hp
    rw [splitDot_append_dot] at hp
    rcases List.mem_append.mp hp with hp | hp
    · exact prefix_pieces hpre piece hp
    · rw [splitDot_append_dot] at hp
      rcases List.mem_append.mp hp with hp | hp
      · have := splitDot_piece_le svc piece hp
        have := svcLabel_strict_short hsvc
        omega
      · have := hrest piece hp; omega
  | bareLocal hs _ _ => cases hs

end Zc.Name
