import Zc.Proofs.Txt
/-! Entry-by-entry facts about the two TXT readers on the encoder's output: what happens to ONE entry of a dictionary
whatever the other entries are (used by `C19_txt_entry_roundtrip`). -/
namespace Zc.Txt

/-- the key a reader takes from the item written for entry `e`: the part before its first `=` -/
def effKey (e : Bytes × Option Bytes) : Bytes := (partitionEq (itemOf e)).1

/-- one round of the library's decode loop on an item -/
def libStep (d : Props) (it : Bytes) : Props := insertNew d (partitionEq it).1 (libVal (partitionEq it).2)

theorem decodeLib_encode_steps {ps : Props} (h3 : ∀ e ∈ ps, (itemOf e).length ≤ 255) :
    decodeLib (wireOf (ps.map itemOf)) = (ps.map itemOf).foldl libStep [] :=
  decodeLib_encode_general h3

theorem effKey_clean (e : Bytes × Option Bytes) (h : eqByte ∉ e.1) : effKey e = e.1 := by
  rw [effKey, partitionEq_itemOf e h]

theorem mem_insertNew_of_mem {d : Props} {k : Bytes} {v : Option Bytes} {x : Bytes × Option Bytes} (h : x ∈ d) :
    x ∈ insertNew d k v := by
  unfold insertNew; split
  · exact h
  · exact List.mem_append_left _ h

theorem mem_foldl_libStep (items : List Bytes) (d : Props) (x : Bytes × Option Bytes) (h : x ∈ d) :
    x ∈ items.foldl libStep d := by
  induction items generalizing d with
  | nil => exact h
  | cons it r ih => exact ih _ (mem_insertNew_of_mem h)

theorem hasKey_insertNew (d : Props) (k k' : Bytes) (v : Option Bytes) :
    hasKey (insertNew d k v) k' = (hasKey d k' || k == k') := by
  unfold insertNew
  split
  · rename_i h
    by_cases hk : k = k'
    · subst hk; simp [h]
    · simp [hk]
  · rw [hasKey_append]

theorem hasKey_foldl (items : List Bytes) (d : Props) (k : Bytes) :
    hasKey (items.foldl libStep d) k = (hasKey d k || items.any (fun it => (partitionEq it).1 == k)) := by
  induction items generalizing d with
  | nil => simp
  | cons it r ih => rw [List.foldl_cons, ih, libStep, hasKey_insertNew]; simp [Bool.or_assoc]

theorem hasKey_false_iff (d : Props) (k : Bytes) : hasKey d k = false ↔ k ∉ d.map (·.1) := by
  simp only [hasKey, List.any_eq_false, beq_iff_eq, List.mem_map, not_exists, not_and]

/-- the entry at a position where no earlier item yields its key is read back by the library's decoder -/
theorem entry_in_fold (pre post : Props) (k : Bytes) (v : Option Bytes) (hk : eqByte ∉ k)
    (hpre : ∀ e ∈ pre, effKey e ≠ k) :
    (k, normVal v) ∈ ((pre ++ (k, v) :: post).map itemOf).foldl libStep [] := by
  rw [List.map_append, List.foldl_append, List.map_cons, List.foldl_cons]
  apply mem_foldl_libStep
  have hno : hasKey ((pre.map itemOf).foldl libStep []) k = false := by
    rw [hasKey_foldl]
    simp only [hasKey, List.any_nil, Bool.false_or, List.any_eq_false, List.mem_map, forall_exists_index, and_imp,
      forall_apply_eq_imp_iff₂, beq_iff_eq]
    intro e he
    exact hpre e he
  rw [libStep, partitionEq_itemOf (k, v) hk, insertNew, hno]
  simp [normVal]

theorem nodup_insertNew (d : Props) (k : Bytes) (v : Option Bytes) (h : (d.map (·.1)).Nodup) :
    ((insertNew d k v).map (·.1)).Nodup := by
  unfold insertNew; split
  · exact h
  · rename_i hk
    have hk' : hasKey d k = false := by simpa using hk
    rw [hasKey_false_iff] at hk'
    rw [List.map_append, List.nodup_append]
    refine ⟨h, by simp, ?_⟩
    intro a ha b hb
    simp only [List.map_cons, List.map_nil, List.mem_singleton] at hb
    subst hb
    intro e; subst e; exact hk' ha

theorem nodup_foldl_libStep (items : List Bytes) (d : Props) (h : (d.map (·.1)).Nodup) :
    ((items.foldl libStep d).map (·.1)).Nodup := by
  induction items generalizing d with
  | nil => exact h
  | cons it r ih => exact ih _ (nodup_insertNew d _ _ h)

theorem keys_foldl_libStep (items : List Bytes) (d : Props) (x : Bytes × Option Bytes) (hx : x ∈ items.foldl libStep d) :
    x ∈ d ∨ ∃ it ∈ items, (partitionEq it).1 = x.1 := by
  induction items generalizing d with
  | nil => exact Or.inl hx
  | cons it r ih =>
    rcases ih _ hx with h | ⟨it', h1, h2⟩
    · unfold libStep insertNew at h
      split at h
      · exact Or.inl h
      · rcases List.mem_append.1 h with h | h
        · exact Or.inl h
        · right; refine ⟨it, by simp, ?_⟩
          rw [List.mem_singleton.1 h]
    · exact Or.inr ⟨it', List.mem_cons_of_mem _ h1, h2⟩

/-! ### the RFC 6763 reader -/

theorem mem_firstWins (l1 l2 : Props) (x : Bytes × Option Bytes) (seen : List Bytes) (hs : Spec.foldKey x.1 ∉ seen)
    (h1 : ∀ y ∈ l1, Spec.foldKey y.1 ≠ Spec.foldKey x.1) : x ∈ Spec.firstWins seen (l1 ++ x :: l2) := by
  induction l1 generalizing seen with
  | nil => simp [Spec.firstWins, hs]
  | cons y r ih =>
    have hy : Spec.foldKey y.1 ≠ Spec.foldKey x.1 := h1 y (by simp)
    have hr : ∀ z ∈ r, Spec.foldKey z.1 ≠ Spec.foldKey x.1 := fun z hz => h1 z (by simp [hz])
    simp only [List.cons_append, Spec.firstWins]
    split
    · exact ih seen hs hr
    · refine List.mem_cons_of_mem _ (ih _ ?_ hr)
      intro hm
      rcases List.mem_cons.1 hm with h | h
      · exact hy h.symm
      · exact hs h

theorem firstWins_subset (l : Props) (seen : List Bytes) (x : Bytes × Option Bytes) (h : x ∈ Spec.firstWins seen l) : x ∈ l := by
  induction l generalizing seen with
  | nil => simp [Spec.firstWins] at h
  | cons y r ih =>
    simp only [Spec.firstWins] at h
    split at h
    · exact List.mem_cons_of_mem _ (ih _ h)
    · rcases List.mem_cons.1 h with h | h
      · rw [h]; simp
      · exact List.mem_cons_of_mem _ (ih _ h)

/-- the entry at a position where no earlier item yields (case-insensitively) its key is read back by the RFC reader -/
theorem entry_in_parse (pre post : Props) (k : Bytes) (v : Option Bytes) (hk : eqByte ∉ k) (hne : k ≠ [])
    (hpre : ∀ e ∈ pre, ∀ a, Spec.attr (itemOf e) = some a → Spec.foldKey a.1 ≠ Spec.foldKey k) :
    (k, v) ∈ Spec.firstWins [] (((pre ++ (k, v) :: post).map itemOf).filterMap Spec.attr) := by
  rw [List.map_append, List.filterMap_append, List.map_cons, List.filterMap_cons, attr_itemOf (k, v) hk hne]
  apply mem_firstWins _ _ (k, v) [] (by simp)
  intro y hy
  obtain ⟨it, hit, ha⟩ := List.mem_filterMap.1 hy
  obtain ⟨e, he, rfl⟩ := List.mem_map.1 hit
  exact hpre e he y ha

end Zc.Txt
