import Zc.Proofs.LinkBridgeK1
/-! Executable checkers for the bridge hypotheses about a timed run of the C08/C09 host machine that quantify over all splits of the
run (`Fair`, `Spaced`, `DistinctCalls`), with soundness: a run on which the checker evaluates to `true` meets the hypothesis.  They
make the non-vacuity examples `decide`-able and are what a driver command can evaluate on a replayed run. -/
namespace Zc.Bridge
open Zc Zc.Goodbye Zc.Register

/-! ### all splits of a list -/

/-- `P pre x post` for every split `pre0 ++ l = pre ++ x :: post` with `x` in `l` -/
def splitsAll {α : Type} (P : List α → α → List α → Bool) : List α → List α → Bool
  | _, [] => true
  | pre, x :: r => P pre x r && splitsAll P (pre ++ [x]) r

theorem splitsAll_spec {α : Type} (P : List α → α → List α → Bool) : ∀ (l pre0 : List α), splitsAll P pre0 l = true →
    ∀ pre st post, l = pre ++ st :: post → P (pre0 ++ pre) st post = true := by
  intro l
  induction l with
  | nil => intro pre0 _ pre st post h; cases pre <;> simp at h
  | cons x r ih =>
    intro pre0 h pre st post hsplit
    simp only [splitsAll, Bool.and_eq_true] at h
    cases pre with
    | nil =>
      simp only [List.nil_append, List.cons.injEq] at hsplit
      obtain ⟨rfl, rfl⟩ := hsplit
      simpa using h.1
    | cons y pre' =>
      simp only [List.cons_append, List.cons.injEq] at hsplit
      obtain ⟨rfl, hr⟩ := hsplit
      have := ih (pre0 ++ [x]) h.2 pre' st post hr
      simpa [List.append_assoc] using this

/-! ### the run itself -/

theorem mkRunD_isRun (lower : String → String) : ∀ (sched : List (Int × Block × Option Nat)) (h : Host) (T : Int) (steps : List Step),
    mkRunD lower h T sched = some steps → IsRun lower h T steps := by
  intro sched
  induction sched with
  | nil =>
    intro h T steps hm
    simp only [mkRunD, Option.some.injEq] at hm
    subst hm
    exact IsRun.nil h T
  | cons tb rest ih =>
    intro h T steps hm
    obtain ⟨t, b, ad⟩ := tb
    simp only [mkRunD] at hm
    split at hm
    · rename_i hc
      split at hm
      · cases hm
      · rename_i h' out hs
        cases hr : mkRunD lower h' t rest with
        | none => rw [hr] at hm; cases hm
        | some l =>
          rw [hr] at hm
          simp only [Option.map_some, Option.some.injEq] at hm
          subst hm
          refine IsRun.cons h h' T t b out ad l hs hc.1 ?_ (ih h' t l hr)
          intro bt hbt
          rcases hc.2 with hn | hs'
          · rw [hn] at hbt; cases hbt
          · rw [hs'] at hbt; exact (Option.some.inj hbt).symm
    · cases hm

/-! ### `Fair` -/

/-- the block is the step of the broadcast task `τ` -/
def isTaskOf (τ : Task) : Block → Bool
  | .task oid ttl ad due => oid == τ.oid && ttl == τ.ttl && ad == τ.addresses && due == τ.due
  | _ => false

theorem isTaskOf_eq {τ : Task} {b : Block} (h : isTaskOf τ b = true) : b = .task τ.oid τ.ttl τ.addresses τ.due := by
  cases b with
  | task oid ttl ad due =>
    simp only [isTaskOf, Bool.and_eq_true, beq_iff_eq] at h
    obtain ⟨⟨⟨rfl, rfl⟩, rfl⟩, rfl⟩ := h
    rfl
  | _ => simp [isTaskOf] at h

/-- the block is the step, due at `due`, of a close sequence -/
def isAllStepAt (due : Int) : Block → Bool
  | .allStep d => d == due
  | _ => false

theorem isAllStepAt_eq {due : Int} {b : Block} (h : isAllStepAt due b = true) : b = .allStep due := by
  cases b with
  | allStep d =>
    simp only [isAllStepAt, beq_iff_eq] at h
    subst h; rfl
  | _ => simp [isAllStepAt] at h

def fairB (steps : List Step) (endT : Int) : Bool :=
  splitsAll (fun _ st post =>
    (st.post.tasks.all fun τ => !(decide (τ.due ≤ endT)) ||
      post.any fun st' => isTaskOf τ st'.b && decide (findTask st'.pre.tasks τ.oid τ.ttl τ.addresses τ.due = some τ))
    && (st.post.closing.all fun a => !(decide (a.due ≤ endT)) ||
      post.any fun st' => isAllStepAt a.due st'.b && decide (st'.pre.closing.find? (fun x => x.due == a.due) = some a))) [] steps

theorem fair_of_fairB (steps : List Step) (endT : Int) (h : fairB steps endT = true) : Fair steps endT := by
  unfold fairB at h
  constructor
  · intro pre st post hsplit τ hτ hdue
    have := splitsAll_spec _ steps [] h pre st post hsplit
    simp only [Bool.and_eq_true, List.all_eq_true, Bool.or_eq_true, Bool.not_eq_true', decide_eq_false_iff_not, List.any_eq_true,
      decide_eq_true_eq] at this
    rcases this.1 τ hτ with h1 | ⟨st', hst', h2, h3⟩
    · exact absurd hdue h1
    · obtain ⟨p1, p2, rfl⟩ := List.append_of_mem hst'
      exact ⟨p1, st', p2, rfl, isTaskOf_eq h2, h3⟩
  · intro pre st post hsplit a ha hdue
    have := splitsAll_spec _ steps [] h pre st post hsplit
    simp only [Bool.and_eq_true, List.all_eq_true, Bool.or_eq_true, Bool.not_eq_true', decide_eq_false_iff_not, List.any_eq_true,
      decide_eq_true_eq] at this
    rcases this.2 a ha with h1 | ⟨st', hst', h2, h3⟩
    · exact absurd hdue h1
    · obtain ⟨p1, p2, rfl⟩ := List.append_of_mem hst'
      exact ⟨p1, st', p2, rfl, isAllStepAt_eq h2, h3⟩

/-! ### `Spaced`, `DistinctCalls`, `Open` -/

section
variable (lower : String → String) (N : Naming)

def spacedB (E : Link.Trace) (steps : List Step) : Bool :=
  splitsAll (fun pre st _ =>
    (adds lower N st).all fun s => (Link.unregs (E ++ events lower N pre)).all fun x => !(x.2 == s) || decide (x.1 < st.t - 350)) [] steps

theorem spaced_of_spacedB (E : Link.Trace) (steps : List Step) (h : spacedB lower N E steps = true) : Spaced lower N E steps := by
  intro pre st post hsplit s hs x hx hxs
  have := splitsAll_spec _ steps [] h pre st post hsplit
  simp only [List.nil_append, List.all_eq_true, Bool.or_eq_true, Bool.not_eq_true', beq_eq_false_iff_ne, decide_eq_true_eq] at this
  rcases this s hs x hx with h1 | h1
  · exact absurd hxs h1
  · exact h1

/-- the services a step yields a register / update / unregister event of -/
def regSvcs (st : Step) : List Link.Svc := adds lower N st ++ removes lower N st ++ updSvcs lower N st

theorem regEvOf_iff (st : Step) (s : Link.Svc) : regEvOf lower N st s ↔ s ∈ regSvcs lower N st := by
  simp only [regEvOf, regSvcs, List.mem_append, or_assoc]

def distinctCallsB (steps : List Step) : Bool :=
  splitsAll (fun _ st post =>
    post.all fun st' => !(st'.t == st.t) || (regSvcs lower N st).all fun s => !((regSvcs lower N st').contains s)) [] steps

theorem distinctCalls_of_B (steps : List Step) (h : distinctCallsB lower N steps = true) : DistinctCalls lower N steps := by
  intro pre st post hsplit st' hst' ht s hs hs'
  have := splitsAll_spec _ steps [] h pre st post hsplit
  simp only [List.all_eq_true, Bool.or_eq_true, Bool.not_eq_true', beq_eq_false_iff_ne, List.contains_eq_mem,
    decide_eq_false_iff_not] at this
  rcases this st' hst' with h1 | h1
  · exact h1 ht
  · exact h1 s ((regEvOf_iff lower N st s).mp hs) ((regEvOf_iff lower N st' s).mp hs')

end

/-! ### the API discipline of a step is decidable -/

instance (lower : String → String) (st : Step) : Decidable (Disc lower st) := by
  unfold Disc; split <;> infer_instance
instance (lower : String → String) (st : Step) : Decidable (Disc2 lower st) := by
  unfold Disc2; split <;> infer_instance
instance (st : Step) : Decidable (Disc3 st) := by
  unfold Disc3; split <;> infer_instance

def openB (steps : List Step) : Bool := steps.all fun st => !st.pre.done

theorem open_of_openB (steps : List Step) (h : openB steps = true) : Open steps := by
  intro st hst
  have := List.all_eq_true.mp h st hst
  simpa using this

end Zc.Bridge
