import Zc.Proofs.LinkBridgeK4b
import Zc.GenFacts.LinkReply
/-! K4, reply-model level, part 3: the invariant of a run (`KI`), the duplicate guard's memory (`LastOK`), liveness of a queued
record (`KRun.live`). -/
namespace Zc.Bridge
open Zc Zc.Reply GenFacts

/-- no truncated query arrives in the history (K4's quantifier: the link model's `query` item describes one whole question with
its known answers; a query spread over several datagrams is outside it) -/
def NoTC (ks : List KEv) : Prop :=
  ∀ t addr port dataId size hasQu p seen draws,
    KEv.blk (.rx t addr port dataId size hasQu (.query p) seen draws) ∈ ks → p.truncated = false

/-- every candidate under `k` of every query of the history carries additionals satisfying `V` -/
def CandVs (k : RecId) (V : List RecId → Prop) (ks : List KEv) : Prop :=
  ∀ t addr port dataId size hasQu p seen draws,
    KEv.blk (.rx t addr port dataId size hasQu (.query p) seen draws) ∈ ks → CandV k V [p]

/-- a purge that leaves an answer in place leaves its additionals in place (`async_remove_answers` is called with *all* records of
the withdrawn service: an answer keeps additionals that are not its own only if it goes itself) -/
def PurgeKeeps (tr : List (Host × KEv × StepOut)) : Prop :=
  ∀ x ∈ tr, ∀ t W, x.2.1 = .purge t W → ∀ d : Bool, ∀ g ∈ (x.1.q d).groups, ∀ e ∈ g.answers, e.1 ∉ W → ∀ i ∈ e.2, i ∉ W

theorem NoTC.tail {k : KEv} {ks : List KEv} (h : NoTC (k :: ks)) : NoTC ks := by
  intro t addr port dataId size hasQu p seen draws hm
  exact h t addr port dataId size hasQu p seen draws (List.mem_cons_of_mem _ hm)

theorem CandVs.tail {k : RecId} {V : List RecId → Prop} {e : KEv} {ks : List KEv} (h : CandVs k V (e :: ks)) : CandVs k V ks := by
  intro t addr port dataId size hasQu p seen draws hm
  exact h t addr port dataId size hasQu p seen draws (List.mem_cons_of_mem _ hm)

theorem PurgeKeeps.tail {x : Host × KEv × StepOut} {tr : List (Host × KEv × StepOut)} (h : PurgeKeeps (x :: tr)) : PurgeKeeps tr := by
  intro y hy; exact h y (List.mem_cons_of_mem _ hy)

theorem NoTC.sub {ks ks' : List KEv} (h : NoTC ks) (hs : ∀ k ∈ ks', k ∈ ks) : NoTC ks' := by
  intro t addr port dataId size hasQu p seen draws hm
  exact h t addr port dataId size hasQu p seen draws (hs _ hm)

theorem CandVs.sub {k : RecId} {V : List RecId → Prop} {ks ks' : List KEv} (h : CandVs k V ks) (hs : ∀ e ∈ ks', e ∈ ks) :
    CandVs k V ks' := by
  intro t addr port dataId size hasQu p seen draws hm
  exact h t addr port dataId size hasQu p seen draws (hs _ hm)

theorem PurgeKeeps.sub {tr tr' : List (Host × KEv × StepOut)} (h : PurgeKeeps tr) (hs : ∀ x ∈ tr', x ∈ tr) : PurgeKeeps tr' := by
  intro y hy; exact h y (hs y hy)

/-! ### the invariant of a run -/

/-- C12's run-level invariant; nothing deferred and no truncated-query timer; every queued entry under `k` carries additionals
satisfying `V` -/
structure KI (k : RecId) (V : List RecId → Prop) (clock : Int) (h : Host) : Prop where
  inv : ∃ hO hD, HInv hO hD clock h
  noDeferred : h.lis.deferred = []
  noTimers : h.lis.timers = []
  qvO : QV k V h.outQ
  qvD : QV k V h.delayQ

theorem KI.init (k : RecId) (V : List RecId → Prop) (c : Int) : KI k V c {} :=
  ⟨⟨[], [], HInv.init c⟩, rfl, rfl, QV.init _ _, QV.init _ _⟩

theorem KI.qv {k : RecId} {V : List RecId → Prop} {clock : Int} {h : Host} (hI : KI k V clock h) (d : Bool) : QV k V (h.q d) := by
  cases d
  · exact hI.qvO
  · exact hI.qvD

theorem deferredOf_nil {l : Listener} (h : l.deferred = []) (a : Nat) : l.deferredOf a = [] := by
  simp [Listener.deferredOf, h]

theorem take_of_nil {l : Listener} (hd : l.deferred = []) (ht : l.timers = []) (msg : Option Pkt) (a : Nat) :
    (l.take msg a).1.deferred = [] ∧ (l.take msg a).1.timers = [] ∧ (l.take msg a).2 = msg.toList := by
  refine ⟨?_, ?_, ?_⟩
  · simp [Listener.take, Listener.popDeferred, Listener.cancelTimer, hd]
  · simp [Listener.take, Listener.popDeferred, Listener.cancelTimer, ht]
  · rw [take_pkts, deferredOf_nil hd]; rfl

/-- `decide_answer`, with the packet at hand identified -/
theorem decide_answer_msg {h : Host} {e : Ev} {lis : Listener} {pkts : List Pkt} {addr port : Nat}
    (hd : h.decide e = .ok (.answer lis pkts addr port)) :
    ∃ (lis1 : Listener) (msg : Option Pkt), lis1.deferred = h.lis.deferred ∧ lis1.timers = h.lis.timers ∧
      lis = (lis1.take msg addr).1 ∧ pkts = (lis1.take msg addr).2 ∧
      (∀ m, msg = some m → ∃ t po dataId size hasQu seen draws, e = .rx t addr po dataId size hasQu (.query m) seen draws) := by
  cases e with
  | rx t addr' port' dataId size hasQu kind seen draws =>
    simp only [Host.decide] at hd
    repeat' split at hd
    all_goals first
      | (cases hd; done)
      | skip
    cases hd
    exact ⟨({ h.lis with lastData := some dataId, lastTime := t, lastMsgQu := some hasQu } : Listener), some _, rfl, rfl, rfl, rfl,
      by intro m hm; cases hm; exact ⟨t, _, dataId, size, hasQu, seen, draws, rfl⟩⟩
  | tcfire t addr' seen draws =>
    simp only [Host.decide] at hd
    repeat' split at hd
    all_goals first
      | (cases hd; done)
      | skip
    cases hd
    exact ⟨h.lis, none, rfl, rfl, rfl, rfl, by intro m hm; cases hm⟩
  | qfire t d =>
    simp only [Host.decide] at hd
    repeat' split at hd
    all_goals cases hd
  | qremove t d recs =>
    simp only [Host.decide] at hd
    cases hd

/-- a block of the reply model that a history (`kstep`) accepts is accepted by `Host.step` and is not the reply model's own
withdrawal block (in these histories the purge is `KEv.purge`) -/
theorem kstep_blk {h : Host} {e : Ev} {r : StepOut} (hs : kstep h (.blk e) = .ok r) :
    h.step e = .ok r ∧ ∀ t d recs, e ≠ .qremove t d recs := by
  cases e with
  | qremove t d recs => simp [kstep] at hs
  | rx t addr port dataId size hasQu kind seen draws => exact ⟨hs, by intro _ _ _ hh; cases hh⟩
  | tcfire t addr seen draws => exact ⟨hs, by intro _ _ _ hh; cases hh⟩
  | qfire t d => exact ⟨hs, by intro _ _ _ hh; cases hh⟩

/-- one block of the reply model keeps the invariant -/
theorem KI.blk {k : RecId} {V : List RecId → Prop} {clock : Int} {h : Host} {e : Ev} {r : StepOut} (hI : KI k V clock h)
    (hc : clock ≤ e.time) (hs : h.step e = .ok r) (hnr : ∀ t d recs, e ≠ .qremove t d recs)
    (hntc : ∀ t addr port dataId size hasQu p seen draws, e = .rx t addr port dataId size hasQu (.query p) seen draws → p.truncated = false)
    (hcv : ∀ t addr port dataId size hasQu p seen draws, e = .rx t addr port dataId size hasQu (.query p) seen draws → CandV k V [p]) :
    KI k V e.time r.host := by
  obtain ⟨a, hd, hp⟩ := step_decide hs
  have hax := LoopAx.of_step hc hs
  obtain ⟨hO, hD, hH⟩ := hI.inv
  have hinv : ∃ hO hD, HInv hO hD e.time r.host := ⟨_, _, hH.step hax hd hp⟩
  cases a with
  | idle lis =>
    obtain ⟨h1, h2⟩ := decide_idle hd
    obtain ⟨hr, _⟩ := perform_idle hp
    refine ⟨hinv, ?_, ?_, ?_, ?_⟩ <;> rw [hr]
    · show lis.deferred = []; rw [h1]; exact hI.noDeferred
    · show lis.timers = []; rw [h2]; exact hI.noTimers
    · exact hI.qvO
    · exact hI.qvD
  | defer lis d =>
    exfalso
    obtain ⟨t, addr, port, dataId, size, hasQu, p, seen, draws, he, htr⟩ := decide_defer_truncated hd
    rw [hntc t addr port dataId size hasQu p seen draws he] at htr
    cases htr
  | remove d recs =>
    exfalso
    obtain ⟨t, he⟩ := decide_remove hd
    exact hnr t d recs he
  | ready d =>
    obtain ⟨t, rfl⟩ := decide_ready hd
    obtain ⟨hl, hf, ht⟩ := perform_ready hp
    cases d
    · obtain ⟨e1, e2, _⟩ := hf rfl
      refine ⟨hinv, by rw [hl]; exact hI.noDeferred, by rw [hl]; exact hI.noTimers, ?_, ?_⟩
      · rw [e1]; exact (hI.qvO.ready t).1
      · rw [e2]; exact hI.qvD
    · obtain ⟨e1, e2, _⟩ := ht rfl
      refine ⟨hinv, by rw [hl]; exact hI.noDeferred, by rw [hl]; exact hI.noTimers, ?_, ?_⟩
      · rw [e2]; exact hI.qvO
      · rw [e1]; exact (hI.qvD.ready t).1
  | answer lis pkts addr port =>
    obtain ⟨lis1, msg, h1, h2, rfl, rfl, hm⟩ := decide_answer_msg hd
    obtain ⟨t1, t2, t3⟩ := take_of_nil (by rw [h1]; exact hI.noDeferred) (by rw [h2]; exact hI.noTimers) msg addr
    obtain ⟨rest, hasm⟩ := perform_answer hp
    have hcand : CandV k V (lis1.take msg addr).2 := by
      rw [t3]
      cases msg with
      | none => intro p hp; cases hp
      | some m =>
        obtain ⟨t, po, dataId, size, hasQu, seen, draws, he⟩ := hm m rfl
        exact hcv t addr po dataId size hasQu m seen draws he
    cases hqa : asyncResponse (lis1.take msg addr).2 (Gen.Reply.ucast_source port) e.seen with
    | none =>
      obtain ⟨_, hr⟩ := assemble_none hasm hqa
      refine ⟨hinv, ?_, ?_, ?_, ?_⟩ <;> rw [hr]
      · exact t1
      · exact t2
      · exact hI.qvO
      · exact hI.qvD
    | some qa =>
      obtain ⟨first, _, _, hlis, hq1, hq2⟩ := assemble_spec hasm hqa
      obtain ⟨_, _, v3, v4⟩ := asyncResponse_val hqa hcand
      refine ⟨hinv, by rw [hlis]; exact t1, by rw [hlis]; exact t2, ?_, ?_⟩
      · by_cases hE : qa.mcastAgg.isEmpty = true
        · rw [hq1.1 hE]; exact hI.qvO
        · obtain ⟨d, _, _, heq⟩ := hq1.2 (by simpa using hE)
          rw [heq]; exact hI.qvO.add _ _ _ _ v3
      · by_cases hE : qa.mcastLast.isEmpty = true
        · rw [hq2.1 hE]; exact hI.qvD
        · obtain ⟨d, _, _, heq⟩ := hq2.2 (by simpa using hE)
          rw [heq]; exact hI.qvD.add _ _ _ _ v4

theorem _root_.Zc.Reply.QV.purge {k : RecId} {V : List RecId → Prop} {q : Queue} (h : QV k V q) (W : List RecId)
    (hk : ∀ g ∈ q.groups, ∀ e ∈ g.answers, e.1 ∉ W → ∀ i ∈ e.2, i ∉ W) : QV k V (purgeQ W q) := by
  intro g' hg' e he hek
  obtain ⟨g, hg, rfl⟩ := mem_purgeQ hg'
  obtain ⟨e0, he0, h1, h2, h3⟩ := mem_purgeDict he
  have hfil : e0.2.filter (fun a => !W.contains a) = e0.2 := by
    rw [List.filter_eq_self]
    intro i hi
    have := hk g hg e0 he0 (by rw [h1]; exact h2) i hi
    simpa using this
  rw [h3, hfil]
  exact h g hg e0 he0 (by rw [h1]; exact hek)

/-- the purge keeps the invariant -/
theorem KI.purge {k : RecId} {V : List RecId → Prop} {clock : Int} {h : Host} (hI : KI k V clock h) {t : Int} (hc : clock ≤ t)
    (hn : h.notOverdue t = true) (W : List RecId)
    (hk : ∀ d : Bool, ∀ g ∈ (h.q d).groups, ∀ e ∈ g.answers, e.1 ∉ W → ∀ i ∈ e.2, i ∉ W) : KI k V t (purgeH W h) := by
  obtain ⟨hO, hD, hH⟩ := hI.inv
  exact ⟨⟨hO, hD, hH.purge hc hn W⟩, hI.noDeferred, hI.noTimers, hI.qvO.purge W (hk false), hI.qvD.purge W (hk true)⟩

theorem kstep_purge {h : Host} {t : Int} {W : List RecId} {r : StepOut} (hs : kstep h (.purge t W) = .ok r) :
    h.notOverdue t = true ∧ r.host = purgeH W h ∧ r.outs = [] := by
  simp only [kstep] at hs
  split at hs
  · rename_i hn; cases hs; exact ⟨hn, rfl, rfl⟩
  · cases hs

/-- one block of a history keeps the invariant -/
theorem KI.kstep {k : RecId} {V : List RecId → Prop} {clock : Int} {h : Host} {e : KEv} {r : StepOut} (hI : KI k V clock h)
    (hc : clock ≤ e.time) (hs : kstep h e = .ok r) (hntc : NoTC [e]) (hcv : CandVs k V [e]) (hpk : PurgeKeeps [(h, e, r)]) :
    KI k V e.time r.host := by
  cases e with
  | blk e =>
    refine hI.blk hc (kstep_blk hs).1 (kstep_blk hs).2 ?_ ?_
    · intro t addr port dataId size hasQu p seen draws he
      exact hntc t addr port dataId size hasQu p seen draws (by rw [he]; simp)
    · intro t addr port dataId size hasQu p seen draws he
      exact hcv t addr port dataId size hasQu p seen draws (by rw [he]; simp)
  | purge t W =>
    obtain ⟨hn, hr, _⟩ := kstep_purge hs
    rw [hr]
    exact hI.purge hc hn W (hpk (h, .purge t W, r) (by simp) t W rfl)

/-- **the invariant holds at the end of every history** without truncated queries -/
theorem KRun.ki {k : RecId} {V : List RecId → Prop} {h : Host} {c : Int} {ks : List KEv} {h' : Host} {c' : Int}
    {tr : List (Host × KEv × StepOut)} (hr : KRun h c ks h' c' tr) :
    KI k V c h → NoTC ks → CandVs k V ks → PurgeKeeps tr → KI k V c' h' := by
  induction hr with
  | nil h c => intro hI _ _ _; exact hI
  | @cons h c e ks r h' c' tr hc hs _ ih =>
    intro hI hntc hcv hpk
    refine ih (hI.kstep hc hs (hntc.sub (by simp)) (hcv.sub (by simp)) (hpk.sub (by simp))) hntc.tail hcv.tail hpk.tail

/-! ### the duplicate guard's memory -/

/-- the datagram the listener remembers was processed — it passed both guards — earlier in the history, at the remembered instant,
and the remembered QU flag is the one its parser reported -/
def LastOK (past : List (Host × KEv × StepOut)) (h : Host) (clock : Int) : Prop :=
  ∀ d, h.lis.lastData = some d → h.lis.lastTime ≤ clock ∧
    ∃ x ∈ past, ∃ addr port size hasQu kind seen draws,
      x.2.1 = .blk (.rx h.lis.lastTime addr port d size hasQu kind seen draws) ∧ Fresh x.1 h.lis.lastTime d size ∧
      h.lis.lastMsgQu = some hasQu

theorem LastOK.init (c : Int) : LastOK [] {} c := by
  intro d hd; cases hd

theorem LastOK.mono {past past' : List (Host × KEv × StepOut)} {h h2 : Host} {c c2 : Int} (hl : LastOK past h c)
    (hp : ∀ x ∈ past, x ∈ past') (hc : c ≤ c2) (e1 : h2.lis.lastData = h.lis.lastData) (e2 : h2.lis.lastTime = h.lis.lastTime)
    (e3 : h2.lis.lastMsgQu = h.lis.lastMsgQu) : LastOK past' h2 c2 := by
  intro d hd
  rw [e1] at hd
  obtain ⟨h1, x, hx, rest⟩ := hl d hd
  rw [e2, e3]
  exact ⟨by omega, x, hp x hx, rest⟩

/-- the listener's memory after a block of the reply model -/
theorem step_lis {h : Host} {e : Ev} {r : StepOut} (hs : h.step e = .ok r) (_hnd : h.lis.deferred = []) (hnt : h.lis.timers = [])
    (hntc : ∀ t addr port dataId size hasQu p seen draws, e = .rx t addr port dataId size hasQu (.query p) seen draws → p.truncated = false) :
    (∃ t addr port dataId size hasQu kind seen draws, e = .rx t addr port dataId size hasQu kind seen draws ∧ Fresh h t dataId size ∧
        r.host.lis.lastData = some dataId ∧ r.host.lis.lastTime = t ∧ r.host.lis.lastMsgQu = some hasQu) ∨
      (r.host.lis.lastData = h.lis.lastData ∧ r.host.lis.lastTime = h.lis.lastTime ∧ r.host.lis.lastMsgQu = h.lis.lastMsgQu) := by
  obtain ⟨a, hd, hp⟩ := step_decide hs
  cases e with
  | rx t addr port dataId size hasQu kind seen draws =>
    by_cases hf : Fresh h t dataId size
    · left
      refine ⟨t, addr, port, dataId, size, hasQu, kind, seen, draws, rfl, hf, ?_⟩
      have hk : ∀ p, kind = .query p → p.truncated = false := by
        intro p hp'; subst hp'; exact hntc t addr port dataId size hasQu p seen draws rfl
      rcases decide_rx_fresh hf hk hd with rfl | ⟨p, rfl, _, rfl⟩
      · obtain ⟨hr, _⟩ := perform_idle hp
        rw [hr]; exact ⟨rfl, rfl, rfl⟩
      · obtain ⟨rest, hasm⟩ := perform_answer hp
        have hlis : r.host.lis = ((remember h.lis dataId t hasQu).take (some p) addr).1 := by
          cases hqa : asyncResponse ((remember h.lis dataId t hasQu).take (some p) addr).2 (Gen.Reply.ucast_source port)
              (Ev.rx t addr port dataId size hasQu (.query p) seen draws).seen with
          | none => obtain ⟨_, hr⟩ := assemble_none hasm hqa; rw [hr]
          | some qa => obtain ⟨_, _, _, hl, _⟩ := assemble_spec hasm hqa; rw [hl]
        rw [hlis]; exact ⟨rfl, rfl, rfl⟩
    · right
      rw [decide_rx_stale hf] at hd
      cases hd
      obtain ⟨hr, _⟩ := perform_idle hp
      rw [hr]; exact ⟨rfl, rfl, rfl⟩
  | tcfire t addr seen draws =>
    exfalso
    simp only [Host.decide, hnt, List.find?_nil] at hd
    cases hd
  | qfire t d =>
    right
    obtain rfl := decide_qfire hd
    obtain ⟨hl, _, _⟩ := perform_ready hp
    rw [hl]; exact ⟨rfl, rfl, rfl⟩
  | qremove t d recs =>
    right
    simp only [Host.decide] at hd
    cases hd
    obtain ⟨_, hl, _⟩ := perform_remove hp
    rw [hl]; exact ⟨rfl, rfl, rfl⟩

/-- **the listener's memory is right at the end of every history**: the remembered datagram is a block of the history -/
theorem KRun.lastOK {k : RecId} {V : List RecId → Prop} {h : Host} {c : Int} {ks : List KEv} {h' : Host} {c' : Int}
    {tr : List (Host × KEv × StepOut)} (hr : KRun h c ks h' c' tr) :
    ∀ past, KI k V c h → NoTC ks → CandVs k V ks → PurgeKeeps tr → LastOK past h c → LastOK (past ++ tr) h' c' := by
  induction hr with
  | nil h c => intro past _ _ _ _ hl; simpa using hl
  | @cons h c e ks r h' c' tr hc hs _ ih =>
    intro past hI hntc hcv hpk hl
    have hI' := hI.kstep hc hs (hntc.sub (by simp)) (hcv.sub (by simp)) (hpk.sub (by simp))
    have hl' : LastOK (past ++ [(h, e, r)]) r.host e.time := by
      cases e with
      | blk e =>
        have hn : ∀ t addr port dataId size hasQu p seen draws, e = .rx t addr port dataId size hasQu (.query p) seen draws →
            p.truncated = false := by
          intro t addr port dataId size hasQu p seen draws he
          exact hntc t addr port dataId size hasQu p seen draws (by rw [he]; simp)
        rcases step_lis (kstep_blk hs).1 hI.noDeferred hI.noTimers hn with
          ⟨t, addr, port, dataId, size, hasQu, kind, seen, draws, rfl, hf, e1, e2, e3⟩ | ⟨e1, e2, e3⟩
        · intro d hd
          rw [e1] at hd
          cases hd
          rw [e2, e3]
          exact ⟨Int.le_refl _, (h, _, r), by simp, addr, port, size, hasQu, kind, seen, draws, rfl, hf, rfl⟩
        · exact hl.mono (fun x hx => List.mem_append_left _ hx) hc e1 e2 e3
      | purge t W =>
        obtain ⟨_, hr', _⟩ := kstep_purge hs
        exact hl.mono (fun x hx => List.mem_append_left _ hx) hc (by rw [hr']; rfl) (by rw [hr']; rfl) (by rw [hr']; rfl)
    have := ih (past ++ [(h, e, r)]) hI' hntc.tail hcv.tail hpk.tail hl'
    simpa [List.append_assoc] using this

/-! ### liveness of a queued record -/

/-- **a record queued in queue `d` that the purges spare is multicast by that queue's timer callback before its group's
deadline** — in a batch whose entry under `k` carries additionals satisfying `V` — or is still queued at the end of the history -/
theorem KRun.live (d : Bool) {k : RecId} {V : List RecId → Prop} {h : Host} {c : Int} {ks : List KEv} {h' : Host} {c' : Int}
    {tr : List (Host × KEv × StepOut)} (hr : KRun h c ks h' c' tr) (D : Int) :
    KI k V c h → NoTC ks → CandVs k V ks → PurgeKeeps tr →
    (∀ y ∈ tr, ∀ t W, y.2.1 = .purge t W → t ≤ D → k ∉ W) →
    (∃ g ∈ (h.q d).groups, k ∈ g.answers.keys ∧ g.born + (qpOf d).agg + (qpOf d).addl ≤ D) →
    (∃ y ∈ tr, ∃ s b, y.2.1 = .blk (.qfire s d) ∧ Out.ofMcast b ∈ y.2.2.outs ∧ k ∈ b.keys ∧ Dict.ValOK k V b ∧ s ≤ D) ∨
    (∃ g ∈ (h'.q d).groups, k ∈ g.answers.keys ∧ g.born + (qpOf d).agg + (qpOf d).addl ≤ D) := by
  induction hr with
  | nil h c => intro _ _ _ _ _ hq; exact Or.inr hq
  | @cons h c e ks r h' c' tr hc hs _ ih =>
    intro hI hntc hcv hpk hsp ⟨g, hg, hx, hD'⟩
    have hI' := hI.kstep hc hs (hntc.sub (by simp)) (hcv.sub (by simp)) (hpk.sub (by simp))
    obtain ⟨hO, hD, hH⟩ := hI.inv
    have cont : (∃ g ∈ (r.host.q d).groups, k ∈ g.answers.keys ∧ g.born + (qpOf d).agg + (qpOf d).addl ≤ D) →
        (∃ y ∈ (h, e, r) :: tr, ∃ s b, y.2.1 = .blk (.qfire s d) ∧ Out.ofMcast b ∈ y.2.2.outs ∧ k ∈ b.keys ∧ Dict.ValOK k V b ∧ s ≤ D) ∨
        (∃ g ∈ (h'.q d).groups, k ∈ g.answers.keys ∧ g.born + (qpOf d).agg + (qpOf d).addl ≤ D) := by
      intro hq
      rcases ih hI' hntc.tail hcv.tail hpk.tail (fun y hy => hsp y (List.mem_cons_of_mem _ hy)) hq with ⟨y, hy, rest⟩ | hfin
      · exact Or.inl ⟨y, List.mem_cons_of_mem _ hy, rest⟩
      · exact Or.inr hfin
    cases e with
    | blk e =>
      obtain ⟨hs', hnr⟩ := kstep_blk hs
      obtain ⟨a, hd, hperf⟩ := step_decide hs'
      have hax := LoopAx.of_step hc hs'
      rcases step_queue_effect d hd hperf with ⟨heq, _⟩ | ⟨cc, now, dr, ans, heq, _⟩ | ⟨s, hes, heq, houts⟩ | ⟨s, recs, hes, _⟩
      rotate_right
      · exact absurd hes (hnr s d recs)
      · exact cont ⟨g, by rw [heq]; exact hg, hx, hD'⟩
      · obtain ⟨g', hg', hx', hb⟩ := Queue.add_keeps (qpOf d) (h.q d) cc now dr ans hg hx
        exact cont ⟨g', by rw [heq]; exact hg', hx', by rw [hb]; exact hD'⟩
      · have hdue : firesOK h (.qfire s d) := hes ▸ hax.firesWhenDue
        simp only [firesOK] at hdue
        have hdue' : (h.q d).timer = some s := by cases d <;> simpa [Host.q] using hdue
        obtain ⟨hle, hk⟩ := Queue.ready_keeps (hH.q d) hdue' hg hx
        rcases hk with ⟨b, hb, hxb⟩ | ⟨g', hg', hx', hbn⟩
        · refine Or.inl ⟨(h, .blk e, r), List.mem_cons_self, s, b, by rw [hes], ?_, hxb, ((hI.qv d).ready s).2 b hb, by omega⟩
          show Out.ofMcast b ∈ r.outs
          rw [houts, hb]; simp
        · exact cont ⟨g', by rw [heq]; exact hg', hx', by rw [hbn]; exact hD'⟩
    | purge t W =>
      obtain ⟨hn, hr', _⟩ := kstep_purge hs
      -- the purge runs no later than the armed timer, which is no later than the group's deadline
      have ht : t ≤ D := by
        have hq := (hH.q d)
        have hne : (h.q d).groups.map Group.sk ≠ [] := by
          intro hnil; rw [List.map_eq_nil_iff] at hnil; rw [hnil] at hg; cases hg
        obtain ⟨dd, hdd⟩ := hq.sk.nonempty_timer hne
        have hle := (hq.sk.timer_le hdd g.sk (List.mem_map_of_mem hg)).1
        obtain ⟨h1, h2, _⟩ := notOverdue_spec hn
        have : t ≤ dd := by
          cases d
          · exact h1 dd (by simpa [Host.q] using hdd)
          · exact h2 dd (by simpa [Host.q] using hdd)
        simp only [Sk.deadline, Group.sk] at hle
        omega
      have hkW := hsp (h, .purge t W, r) List.mem_cons_self t W rfl ht
      obtain ⟨g', hg', hx', hb⟩ := purgeQ_keeps (W := W) hg hx hkW
      exact cont ⟨g', by rw [hr', purgeH_q]; exact hg', hx', by rw [hb]; exact hD'⟩

end Zc.Bridge
