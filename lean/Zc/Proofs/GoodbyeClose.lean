import Zc.Proofs.Goodbye
/-! Helper lemmas for C08's statements about *runs*: the public close call as a program of blocks (`closeCall`), and the three
goodbyes of an unregister as steps of a run. -/
namespace Zc.Goodbye
open Zc Zc.Register Zc.GenFacts.Goodbye

variable (lower : String → String)

theorem run_cons (h h' : Host) (b : Block) (bs : List Block) (out : List Pkt) (hr : h.run lower (b :: bs) = some (h', out)) :
    ∃ h1 o1 o2, h.step lower b = some (h1, o1) ∧ h1.run lower bs = some (h', o2) ∧ out = o1 ++ o2 := by
  simp only [Host.run] at hr
  split at hr
  · simp at hr
  rename_i h1 o1 hs
  split at hr
  · simp at hr
  rename_i h2 o2 hr2
  simp only [Option.some.injEq, Prod.mk.injEq] at hr
  obtain ⟨rfl, rfl⟩ := hr
  exact ⟨h1, o1, o2, hs, hr2, rfl⟩

theorem run_append_elim : ∀ (bs1 bs2 : List Block) (h h' : Host) (out : List Pkt), h.run lower (bs1 ++ bs2) = some (h', out) →
    ∃ h1 o1 o2, h.run lower bs1 = some (h1, o1) ∧ h1.run lower bs2 = some (h', o2) ∧ out = o1 ++ o2 := by
  intro bs1
  induction bs1 with
  | nil => intro bs2 h h' out hr; exact ⟨h, [], out, by simp [Host.run], by simpa using hr, by simp⟩
  | cons b bs ih =>
    intro bs2 h h' out hr
    obtain ⟨h1, o1, o2, hs, hr2, rfl⟩ := run_cons lower h h' b (bs ++ bs2) out (by simpa using hr)
    obtain ⟨h2, o3, o4, hr3, hr4, rfl⟩ := ih bs2 h1 h' o2 hr2
    refine ⟨h2, o1 ++ o3, o4, ?_, hr4, by simp⟩
    simp [Host.run, hs, hr3]

/-- a block that is not part of a shutdown call leaves the close sequences and the `done` flag alone -/
theorem step_mid (h h' : Host) (b : Block) (out : List Pkt) (hb : b.isShutdown = false) (hs : h.step lower b = some (h', out)) :
    h'.closing = h.closing ∧ h'.done = h.done := by
  cases b with
  | register s oid now =>
    simp only [Host.step] at hs
    split at hs
    · simp at hs
    split at hs
    · simp at hs
    simp only [Option.some.injEq, Prod.mk.injEq] at hs
    obtain ⟨rfl, _⟩ := hs
    exact ⟨rfl, rfl⟩
  | update s oid now =>
    simp only [Host.step] at hs
    split at hs
    · simp at hs
    simp only [Option.some.injEq, Prod.mk.injEq] at hs
    obtain ⟨rfl, _⟩ := hs
    exact ⟨rfl, rfl⟩
  | unregister s oid now =>
    simp only [Host.step, Option.some.injEq, Prod.mk.injEq] at hs
    obtain ⟨rfl, _⟩ := hs
    exact ⟨rfl, rfl⟩
  | task oid ttl ad due =>
    simp only [Host.step] at hs
    split at hs
    · simp at hs
    generalize Task.step _ _ = st at hs
    obtain ⟨t', p⟩ := st
    simp only [Option.some.injEq, Prod.mk.injEq] at hs
    obtain ⟨rfl, _⟩ := hs
    exact ⟨rfl, rfl⟩
  | answer rs =>
    simp only [Host.step] at hs
    split at hs
    · simp only [Option.some.injEq, Prod.mk.injEq] at hs
      obtain ⟨rfl, _⟩ := hs
      exact ⟨rfl, rfl⟩
    · simp at hs
  | enqueue delayed now draw answers =>
    simp only [Host.step] at hs
    split at hs
    · split at hs <;>
      · simp only [Option.some.injEq, Prod.mk.injEq] at hs
        obtain ⟨rfl, _⟩ := hs
        exact ⟨rfl, rfl⟩
    · simp at hs
  | ready delayed now =>
    simp only [Host.step] at hs
    split at hs <;>
    · generalize qready lower _ now = r at hs
      obtain ⟨q, p⟩ := r
      simp only [Option.some.injEq, Prod.mk.injEq] at hs
      obtain ⟨rfl, _⟩ := hs
      exact ⟨rfl, rfl⟩
  | unregisterAll now => simp [Block.isShutdown] at hb
  | allStep due => simp [Block.isShutdown] at hb
  | close => simp [Block.isShutdown] at hb

theorem run_mid : ∀ (bs : List Block) (h h' : Host) (out : List Pkt), (∀ b ∈ bs, b.isShutdown = false) →
    h.run lower bs = some (h', out) → h'.closing = h.closing ∧ h'.done = h.done := by
  intro bs
  induction bs with
  | nil => intro h h' out _ hr; simp only [Host.run, Option.some.injEq, Prod.mk.injEq] at hr; obtain ⟨rfl, _⟩ := hr; exact ⟨rfl, rfl⟩
  | cons b bs ih =>
    intro h h' out hb hr
    obtain ⟨h1, o1, o2, hs, hr2, _⟩ := run_cons lower h h' b bs out hr
    have s1 := step_mid lower h h1 b o1 (hb b (by simp)) hs
    have s2 := ih h1 h' o2 (fun x hx => hb x (by simp [hx])) hr2
    exact ⟨s2.1.trans s1.1, s2.2.trans s1.2⟩

/-- the goodbye of a close: TTL-0 copies of every record of every registered service -/
def closeGoodbye (h : Host) : Pkt := allPkt (h.reg.flatMap (fun e => broadcastAnswers e.svc (some 0) true))

/-- the later step of an unregister-all sequence that is alone -/
theorem allStep_single (h h' : Host) (a : AllTask) (out : List Pkt) (hd : h.done = false) (hc : h.closing = [a])
    (hs : h.step lower (.allStep a.due) = some (h', out)) :
    out = [allPkt a.answers] ∧ h'.done = false ∧
    h'.closing = (if a.i + 1 < 3 then [{ a with i := a.i + 1, due := a.due + 125 }] else []) := by
  simp only [Host.step, hc, List.find?_cons, beq_self_eq_true, Option.some.injEq, Prod.mk.injEq] at hs
  obtain ⟨rfl, rfl⟩ := hs
  refine ⟨by simp [emit, send_is_noop_eq, hd], hd, ?_⟩
  simp [dropAll, Zc.GenFacts.Register.broadcast_count_eq, unregisterTime_eq]

/-- **the close call says goodbye three times.**  A close program that says goodbye first (`closeCall true true`), started on a host
that is not closed and has no other shutdown sequence in flight, with any blocks that are not shutdown blocks running in between:
the instance ends closed, and if services were registered the datagram with the TTL-0 copies of all their records left three times
(before `done` was set), in this order among everything that was sent. -/
theorem closeCall_goodbyes (h0 : Host) (hnd : h0.done = false) (hq : h0.closing = []) (now : Int) (mid1 mid2 : List Block)
    (hm1 : ∀ b ∈ mid1, b.isShutdown = false) (hm2 : ∀ b ∈ mid2, b.isShutdown = false) (h3 : Host) (out : List Pkt)
    (hrun : h0.run lower (closeCall true true h0 now mid1 mid2) = some (h3, out)) :
    h3.done = true ∧ (h0.reg ≠ [] → ∃ o1 o2, out = [closeGoodbye h0] ++ o1 ++ [closeGoodbye h0] ++ o2 ++ [closeGoodbye h0]) := by
  by_cases hemp : h0.reg = []
  · -- nothing registered: `generate_unregister_all_services` returns None, `_close` follows
    have he : h0.reg.isEmpty = true := by simp [hemp]
    simp only [closeCall, he, if_true, Bool.not_true, Bool.false_eq_true, if_false, List.cons_append, List.nil_append] at hrun
    obtain ⟨h1, o1, o2, hs1, hr1, rfl⟩ := run_cons lower _ _ _ _ _ hrun
    obtain ⟨h2, o3, o4, hs2, hr2, rfl⟩ := run_cons lower _ _ _ _ _ hr1
    simp only [Host.step, he, if_true, Option.some.injEq, Prod.mk.injEq] at hs1
    obtain ⟨rfl, rfl⟩ := hs1
    simp only [Host.step, Option.some.injEq, Prod.mk.injEq] at hs2
    obtain ⟨rfl, rfl⟩ := hs2
    simp only [Host.run, Option.some.injEq, Prod.mk.injEq] at hr2
    obtain ⟨rfl, rfl⟩ := hr2
    exact ⟨rfl, fun h => absurd hemp h⟩
  · have he : h0.reg.isEmpty = false := by simpa using hemp
    simp only [closeCall, he, Bool.false_eq_true, if_false, Bool.not_true, if_true, List.cons_append, List.nil_append, List.append_assoc] at hrun
    -- the first block: generate + first goodbye
    obtain ⟨h1, o1, r1, hs1, hr1, rfl⟩ := run_cons lower _ _ _ _ _ hrun
    simp only [Host.step, he, Bool.false_eq_true, if_false, unregister_all_purges, if_true, Option.some.injEq, Prod.mk.injEq] at hs1
    obtain ⟨rfl, rfl⟩ := hs1
    -- mid1
    obtain ⟨h2, o2, r2, hr2a, hr2b, rfl⟩ := run_append_elim lower _ _ _ _ _ hr1
    have m1 := run_mid lower mid1 _ h2 o2 hm1 hr2a
    simp only [hq, List.nil_append] at m1
    -- second goodbye
    obtain ⟨h3', o3, r3, hs3, hr3, rfl⟩ := run_cons lower _ _ _ _ _ hr2b
    have a1 := allStep_single lower h2 h3' { answers := h0.reg.flatMap (fun e => broadcastAnswers e.svc (some 0) true), i := 1, due := now + Gen.unregisterTime } o3
      (m1.2.trans hnd) m1.1 hs3
    simp only [show (1 : Nat) + 1 < 3 from by omega, if_true] at a1
    obtain ⟨rfl, hd3, hc3⟩ := a1
    -- mid2
    obtain ⟨h4, o4, r4, hr4a, hr4b, rfl⟩ := run_append_elim lower _ _ _ _ _ hr3
    have m2 := run_mid lower mid2 _ h4 o4 hm2 hr4a
    -- third goodbye
    obtain ⟨h5, o5, r5, hs5, hr5, rfl⟩ := run_cons lower _ _ _ _ _ hr4b
    have hdue : now + (Gen.unregisterTime : Int) + (Gen.unregisterTime : Int) = now + (Gen.unregisterTime : Int) + 125 := by
      simp [unregisterTime_eq]
    rw [hdue] at hs5
    have a2 := allStep_single lower h4 h5 { answers := h0.reg.flatMap (fun e => broadcastAnswers e.svc (some 0) true), i := 1 + 1, due := now + Gen.unregisterTime + 125 } o5
      (m2.2.trans hd3) (m2.1.trans hc3) hs5
    obtain ⟨rfl, _, _⟩ := a2
    -- `_close`
    obtain ⟨h6, o6, r6, hs6, hr6, rfl⟩ := run_cons lower _ _ _ _ _ hr5
    simp only [Host.step, Option.some.injEq, Prod.mk.injEq] at hs6
    obtain ⟨rfl, rfl⟩ := hs6
    simp only [Host.run, Option.some.injEq, Prod.mk.injEq] at hr6
    obtain ⟨rfl, rfl⟩ := hr6
    refine ⟨rfl, fun _ => ⟨o2, o4, ?_⟩⟩
    simp [closeGoodbye, emit, send_is_noop_eq, hnd]


/-! ### `Clean` for fewer records (the per-record form of "never again") -/

theorem clean_of_subset (W W' : List Rec) (h : Host) (hsub : ∀ w ∈ W', w ∈ W) (hc : Clean lower W h) : Clean lower W' h := by
  have hm : ∀ x, hits lower W' x = true → hits lower W x = true := by
    intro x hx
    simp only [hits, List.any_eq_true] at hx ⊢
    obtain ⟨w, hw, hb⟩ := hx
    exact ⟨w, hsub w hw, hb⟩
  have hf : ∀ x, hits lower W x = false → hits lower W' x = false := by
    intro x hx
    cases hw : hits lower W' x with
    | false => rfl
    | true => rw [hm x hw] at hx; cases hx
  have hq : ∀ q, QClean lower W q → QClean lower W' q := by
    intro q hq g hg e he
    obtain ⟨h1, h2⟩ := hq g hg e he
    exact ⟨hf _ h1, fun a ha => hf _ (h2 a ha)⟩
  have ho : ∀ s, owns lower W' s → owns lower W s := by
    rintro s ⟨x, hx, hh⟩
    exact ⟨x, hx, hm x hh⟩
  refine ⟨hq _ hc.outq, hq _ hc.delayq, ?_, ?_, hc.closing⟩
  · intro t ht
    rcases hc.tasks t ht with h0 | ⟨hn, hr⟩
    · exact Or.inl h0
    · exact Or.inr ⟨hn, fun hw => hr (ho _ hw)⟩
  · intro e he hw
    exact hc.reg e he (ho _ hw)

/-! ### the three goodbyes of an unregister as steps of a *run* -/

/-- the goodbye tasks of object `oid` -/
def isBye (oid : Nat) (t : Task) : Bool := t.oid == oid && t.ttl == some 0

/-- a block that leaves the goodbye tasks of object `oid` and the `done` flag alone: anything but `_close`, another
`async_unregister_service` of the same object, and a step of one of its goodbye tasks -/
def Block.quietFor (oid : Nat) : Block → Bool
  | .close => false
  | .unregister _ oid' _ => oid' != oid
  | .task oid' ttl _ _ => !(oid' == oid && ttl == some 0)
  | _ => true

theorem filter_dropTask_other (P : Task → Bool) (oid : Nat) (ttl : Option Nat) (ad : Bool) (due : Int)
    (hk : ∀ t : Task, (t.oid == oid && t.ttl == ttl && t.addresses == ad && t.due == due) = true → P t = false) :
    ∀ tasks : List Task, (dropTask tasks oid ttl ad due).filter P = tasks.filter P := by
  intro tasks
  induction tasks with
  | nil => simp [dropTask]
  | cons t rest ih =>
    unfold dropTask
    split
    · rename_i hm
      rw [List.filter_cons_of_neg (by simp [hk t hm])]
    · by_cases hp : P t = true
      · rw [List.filter_cons_of_pos hp, List.filter_cons_of_pos hp, ih]
      · rw [List.filter_cons_of_neg hp, List.filter_cons_of_neg hp, ih]

theorem filter_dropTask_same (P : Task → Bool) (oid : Nat) (ttl : Option Nat) (ad : Bool) (due : Int)
    (hk : ∀ t : Task, (t.oid == oid && t.ttl == ttl && t.addresses == ad && t.due == due) = true → P t = true) :
    ∀ tasks : List Task, (dropTask tasks oid ttl ad due).filter P = dropTask (tasks.filter P) oid ttl ad due := by
  intro tasks
  induction tasks with
  | nil => simp [dropTask]
  | cons t rest ih =>
    by_cases hm : (t.oid == oid && t.ttl == ttl && t.addresses == ad && t.due == due) = true
    · have hp := hk t hm
      rw [List.filter_cons_of_pos hp]
      simp only [dropTask, hm, if_true]
    · by_cases hp : P t = true
      · rw [List.filter_cons_of_pos hp]
        simp only [dropTask, hm, Bool.false_eq_true, if_false]
        rw [List.filter_cons_of_pos hp, ih]
      · rw [List.filter_cons_of_neg hp]
        simp only [dropTask, hm, Bool.false_eq_true, if_false]
        rw [List.filter_cons_of_neg hp, ih]

/-- a block that is quiet for `oid` keeps its goodbye tasks and `done` -/
theorem step_quiet (oid : Nat) (h h' : Host) (b : Block) (out : List Pkt) (hb : b.quietFor oid = true) (hs : h.step lower b = some (h', out)) :
    h'.tasks.filter (isBye oid) = h.tasks.filter (isBye oid) ∧ h'.done = h.done := by
  cases b with
  | register s o now =>
    simp only [Host.step] at hs
    split at hs
    · simp at hs
    split at hs
    · simp at hs
    simp only [Option.some.injEq, Prod.mk.injEq] at hs
    obtain ⟨rfl, _⟩ := hs
    exact ⟨by simp [isBye, announceTask], rfl⟩
  | update s o now =>
    simp only [Host.step] at hs
    split at hs
    · simp at hs
    simp only [Option.some.injEq, Prod.mk.injEq] at hs
    obtain ⟨rfl, _⟩ := hs
    exact ⟨by simp [isBye, announceTask], rfl⟩
  | unregister s o now =>
    simp only [Host.step, Option.some.injEq, Prod.mk.injEq] at hs
    obtain ⟨rfl, _⟩ := hs
    have : (o == oid) = false := by simpa [Block.quietFor] using hb
    exact ⟨by simp [isBye, this], rfl⟩
  | task o ttl ad due =>
    simp only [Host.step] at hs
    split at hs
    · simp at hs
    rename_i t hf
    have hkey : (t.oid == o && t.ttl == ttl && t.addresses == ad && t.due == due) = true := by
      have := List.find?_some hf; simpa [findTask] using this
    have hnb : ∀ x : Task, (x.oid == o && x.ttl == ttl && x.addresses == ad && x.due == due) = true → isBye oid x = false := by
      intro x hx
      simp only [Bool.and_eq_true, beq_iff_eq] at hx
      simp only [Block.quietFor, Bool.not_eq_true', Bool.and_eq_false_iff, beq_eq_false_iff_ne] at hb
      simp only [isBye, Bool.and_eq_false_iff, beq_eq_false_iff_ne]
      rcases hb with hb | hb
      · left; rw [hx.1.1.1]; exact hb
      · right; rw [hx.1.1.2]; simpa using hb
    generalize hst : t.step (registeredAs lower h.reg t.svc t.oid) = st at hs
    obtain ⟨t', p⟩ := st
    simp only [Option.some.injEq, Prod.mk.injEq] at hs
    obtain ⟨rfl, _⟩ := hs
    refine ⟨?_, rfl⟩
    cases t' with
    | none => exact filter_dropTask_other (isBye oid) o ttl ad due hnb h.tasks
    | some t'' =>
      have hc := task_step_cont t t'' _ (by rw [hst])
      have : isBye oid t'' = false := by
        have := hnb t hkey
        simpa [isBye, hc.2.1, hc.2.2] using this
      simp only [List.filter_append, List.filter_cons_of_neg (by simp [this] : ¬ isBye oid t'' = true), List.filter_nil, List.append_nil]
      exact filter_dropTask_other (isBye oid) o ttl ad due hnb h.tasks
  | answer rs =>
    simp only [Host.step] at hs
    split at hs
    · simp only [Option.some.injEq, Prod.mk.injEq] at hs
      obtain ⟨rfl, _⟩ := hs
      exact ⟨rfl, rfl⟩
    · simp at hs
  | enqueue delayed now draw answers =>
    simp only [Host.step] at hs
    split at hs
    · split at hs <;>
      · simp only [Option.some.injEq, Prod.mk.injEq] at hs
        obtain ⟨rfl, _⟩ := hs
        exact ⟨rfl, rfl⟩
    · simp at hs
  | ready delayed now =>
    simp only [Host.step] at hs
    split at hs <;>
    · generalize qready lower _ now = r at hs
      obtain ⟨q, p⟩ := r
      simp only [Option.some.injEq, Prod.mk.injEq] at hs
      obtain ⟨rfl, _⟩ := hs
      exact ⟨rfl, rfl⟩
  | unregisterAll now =>
    simp only [Host.step] at hs
    split at hs
    · simp only [Option.some.injEq, Prod.mk.injEq] at hs
      obtain ⟨rfl, _⟩ := hs
      exact ⟨rfl, rfl⟩
    · simp only [Option.some.injEq, Prod.mk.injEq] at hs
      obtain ⟨rfl, _⟩ := hs
      exact ⟨rfl, rfl⟩
  | allStep due =>
    simp only [Host.step] at hs
    split at hs
    · simp at hs
    simp only [Option.some.injEq, Prod.mk.injEq] at hs
    obtain ⟨rfl, _⟩ := hs
    exact ⟨rfl, rfl⟩
  | close => simp [Block.quietFor] at hb

theorem run_quiet (oid : Nat) : ∀ (bs : List Block) (h h' : Host) (out : List Pkt), (∀ b ∈ bs, b.quietFor oid = true) →
    h.run lower bs = some (h', out) → h'.tasks.filter (isBye oid) = h.tasks.filter (isBye oid) ∧ h'.done = h.done := by
  intro bs
  induction bs with
  | nil => intro h h' out _ hr; simp only [Host.run, Option.some.injEq, Prod.mk.injEq] at hr; obtain ⟨rfl, _⟩ := hr; exact ⟨rfl, rfl⟩
  | cons b bs ih =>
    intro h h' out hb hr
    obtain ⟨h1, o1, o2, hs, hr2, _⟩ := run_cons lower h h' b bs out hr
    have s1 := step_quiet lower oid h h1 b o1 (hb b (by simp)) hs
    have s2 := ih h1 h' o2 (fun x hx => hb x (by simp [hx])) hr2
    exact ⟨s2.1.trans s1.1, s2.2.trans s1.2⟩

/-- the step of the only goodbye task of `oid`: the goodbye datagram leaves, and the task continues (or ends after the third) -/
theorem bye_step (oid : Nat) (h h' : Host) (t : Task) (out : List Pkt) (hd : h.done = false) (hto : t.oid = oid) (htt : t.ttl = some 0)
    (hf : h.tasks.filter (isBye oid) = [t]) (hs : h.step lower (.task oid (some 0) t.addresses t.due) = some (h', out)) :
    out = [broadcastPkt t.svc (some 0) t.addresses] ∧ h'.done = false ∧
    h'.tasks.filter (isBye oid) = (if t.i + 1 < 3 then [{ t with i := t.i + 1, due := t.due + t.interval }] else []) := by
  have hkP : ∀ x : Task, (x.oid == oid && x.ttl == some 0 && x.addresses == t.addresses && x.due == t.due) = true → isBye oid x = true := by
    intro x hx
    simp only [Bool.and_eq_true] at hx
    simp [isBye, hx.1.1.1, hx.1.1.2]
  have hfind : findTask h.tasks oid (some 0) t.addresses t.due = some t := by
    have h1 : (h.tasks.filter (isBye oid)).find? (fun x => x.oid == oid && x.ttl == some 0 && x.addresses == t.addresses && x.due == t.due) = some t := by
      rw [hf]; simp [hto, htt]
    rw [List.find?_filter] at h1
    unfold findTask
    rw [← h1]
    congr 1
    funext x
    cases hx : (x.oid == oid && x.ttl == some 0 && x.addresses == t.addresses && x.due == t.due)
    · simp
    · simp [hkP x hx]
  have hdrop : (dropTask h.tasks oid (some 0) t.addresses t.due).filter (isBye oid) = [] := by
    rw [filter_dropTask_same (isBye oid) oid (some 0) t.addresses t.due hkP, hf]
    simp [dropTask, hto, htt]
  simp only [Host.step, hfind] at hs
  by_cases hlt : t.i + 1 < 3
  · have hstep : t.step (registeredAs lower h.reg t.svc t.oid) =
        (some { t with i := t.i + 1, due := t.due + t.interval }, some (broadcastPkt t.svc (some 0) t.addresses)) := by
      simp [Task.step, announce_stops_eq, htt, Zc.GenFacts.Register.broadcast_count_eq, hlt]
    rw [hstep] at hs
    simp only [Option.some.injEq, Prod.mk.injEq] at hs
    obtain ⟨rfl, rfl⟩ := hs
    refine ⟨by simp [emit, send_is_noop_eq, hd], hd, ?_⟩
    simp only [hlt, if_true, List.filter_append, hdrop, List.nil_append]
    rw [List.filter_cons_of_pos (by simp [isBye, hto, htt])]
    simp
  · have hstep : t.step (registeredAs lower h.reg t.svc t.oid) = (none, some (broadcastPkt t.svc (some 0) t.addresses)) := by
      simp [Task.step, announce_stops_eq, htt, Zc.GenFacts.Register.broadcast_count_eq, hlt]
    rw [hstep] at hs
    simp only [Option.some.injEq, Prod.mk.injEq] at hs
    obtain ⟨rfl, rfl⟩ := hs
    refine ⟨by simp [emit, send_is_noop_eq, hd], hd, ?_⟩
    simp only [hlt, if_false]
    exact hdrop

/-- the unregister block sends nothing and starts the one goodbye task of the object -/
theorem unregister_bye (h0 h1 : Host) (s : Svc) (oid : Nat) (now : Int) (out : List Pkt) (hfresh : h0.tasks.filter (isBye oid) = [])
    (hs : h0.step lower (.unregister s oid now) = some (h1, out)) :
    out = [] ∧ h1.done = h0.done ∧
    h1.tasks.filter (isBye oid) = [⟨s, oid, Gen.unregisterTime, some 0, !hostShared lower (regRemove lower h0.reg (key lower s)) s, 0, now⟩] := by
  simp only [Host.step, unregRemove_eq, Option.some.injEq, Prod.mk.injEq] at hs
  obtain ⟨rfl, rfl⟩ := hs
  refine ⟨rfl, rfl, ?_⟩
  simp only [List.filter_append, hfresh, List.nil_append]
  rw [List.filter_cons_of_pos (by simp [isBye])]
  simp [goodbye_addresses_eq]

/-! ### the machine extended by the mutation of an object under its tasks (what the library does: D27) -/

inductive XBlock where
  | blk (b : Block)
  /-- the object `oid` is renamed / rewritten while its tasks run (`async_check_service` of a re-registration of the same object) -/
  | mutate (oid : Nat) (s' : Svc)

/-- `snap`: the goodbye packet is built when `async_unregister_service` is called (`Host.mutateWith`) -/
def Host.xstep (snap : Bool) (h : Host) : XBlock → Option (Host × List Pkt)
  | .blk b => h.step lower b
  | .mutate oid s' => some (h.mutateWith snap oid s', [])

def Host.xrun (snap : Bool) (h : Host) : List XBlock → Option (Host × List Pkt)
  | [] => some (h, [])
  | b :: bs =>
    match h.xstep lower snap b with
    | none => none
    | some (h', out) =>
      match Host.xrun snap h' bs with
      | none => none
      | some (h'', out') => some (h'', out ++ out')

/-- runs of the machine are the extended runs without mutation -/
theorem xrun_blk (snap : Bool) : ∀ (bs : List Block) (h : Host), h.xrun lower snap (bs.map .blk) = h.run lower bs := by
  intro bs
  induction bs with
  | nil => intro h; rfl
  | cons b bs ih =>
    intro h
    simp only [List.map_cons, Host.xrun, Host.xstep, Host.run]
    cases h.step lower b with
    | none => rfl
    | some r =>
      obtain ⟨h', out⟩ := r
      simp only
      rw [ih]
      cases Host.run lower h' bs with
      | none => rfl
      | some r2 => rfl

theorem xrun_cons (snap : Bool) (h h' : Host) (b : XBlock) (bs : List XBlock) (out : List Pkt) (hr : h.xrun lower snap (b :: bs) = some (h', out)) :
    ∃ h1 o1 o2, h.xstep lower snap b = some (h1, o1) ∧ h1.xrun lower snap bs = some (h', o2) ∧ out = o1 ++ o2 := by
  simp only [Host.xrun] at hr
  split at hr
  · simp at hr
  rename_i h1 o1 hs
  split at hr
  · simp at hr
  rename_i h2 o2 hr2
  simp only [Option.some.injEq, Prod.mk.injEq] at hr
  obtain ⟨rfl, rfl⟩ := hr
  exact ⟨h1, o1, o2, hs, hr2, rfl⟩

theorem xrun_append_elim (snap : Bool) : ∀ (bs1 bs2 : List XBlock) (h h' : Host) (out : List Pkt), h.xrun lower snap (bs1 ++ bs2) = some (h', out) →
    ∃ h1 o1 o2, h.xrun lower snap bs1 = some (h1, o1) ∧ h1.xrun lower snap bs2 = some (h', o2) ∧ out = o1 ++ o2 := by
  intro bs1
  induction bs1 with
  | nil => intro bs2 h h' out hr; exact ⟨h, [], out, by simp [Host.xrun], by simpa using hr, by simp⟩
  | cons b bs ih =>
    intro bs2 h h' out hr
    obtain ⟨h1, o1, o2, hs, hr2, rfl⟩ := xrun_cons lower snap h h' b (bs ++ bs2) out (by simpa using hr)
    obtain ⟨h2, o3, o4, hr3, hr4, rfl⟩ := ih bs2 h1 h' o2 hr2
    refine ⟨h2, o1 ++ o3, o4, ?_, hr4, by simp⟩
    simp [Host.xrun, hs, hr3]

/-- an extended block that is quiet for `oid`: a quiet block, or any mutation -/
def XBlock.quietFor (oid : Nat) : XBlock → Bool
  | .blk b => b.quietFor oid
  | .mutate _ _ => true

/-- with the goodbye packet built at call time a mutation does not reach the goodbye tasks -/
theorem mutate_snapshot_bye (oid o : Nat) (s' : Svc) (h : Host) :
    (h.mutateWith true o s').tasks.filter (isBye oid) = h.tasks.filter (isBye oid) ∧ (h.mutateWith true o s').done = h.done := by
  refine ⟨?_, rfl⟩
  simp only [Host.mutateWith, Bool.not_true, Bool.or_false]
  induction h.tasks with
  | nil => rfl
  | cons t rest ih =>
    simp only [List.map_cons]
    by_cases hb : isBye oid t = true
    · have hn : t.ttl.isNone = false := by
        simp only [isBye, Bool.and_eq_true, beq_iff_eq] at hb
        simp [hb.2]
      simp only [hn, Bool.and_false, Bool.false_eq_true, if_false]
      rw [List.filter_cons_of_pos hb, List.filter_cons_of_pos hb, ih]
    · have hb' : isBye oid (if (t.oid == o && t.ttl.isNone) = true then { t with svc := s' } else t) = false := by
        split <;> simpa [isBye] using hb
      rw [List.filter_cons_of_neg (by rw [hb']; decide), List.filter_cons_of_neg hb, ih]

theorem xstep_quiet (oid : Nat) (h h' : Host) (b : XBlock) (out : List Pkt) (hb : b.quietFor oid = true) (hs : h.xstep lower true b = some (h', out)) :
    h'.tasks.filter (isBye oid) = h.tasks.filter (isBye oid) ∧ h'.done = h.done := by
  cases b with
  | blk b => exact step_quiet lower oid h h' b out hb hs
  | mutate o s' =>
    simp only [Host.xstep, Option.some.injEq, Prod.mk.injEq] at hs
    obtain ⟨rfl, _⟩ := hs
    exact mutate_snapshot_bye oid o s' h

theorem xrun_quiet (oid : Nat) : ∀ (bs : List XBlock) (h h' : Host) (out : List Pkt), (∀ b ∈ bs, b.quietFor oid = true) →
    h.xrun lower true bs = some (h', out) → h'.tasks.filter (isBye oid) = h.tasks.filter (isBye oid) ∧ h'.done = h.done := by
  intro bs
  induction bs with
  | nil => intro h h' out _ hr; simp only [Host.xrun, Option.some.injEq, Prod.mk.injEq] at hr; obtain ⟨rfl, _⟩ := hr; exact ⟨rfl, rfl⟩
  | cons b bs ih =>
    intro h h' out hb hr
    obtain ⟨h1, o1, o2, hs, hr2, _⟩ := xrun_cons lower true h h' b bs out hr
    have s1 := xstep_quiet lower oid h h1 b o1 (hb b (by simp)) hs
    have s2 := ih h1 h' o2 (fun x hx => hb x (by simp [hx])) hr2
    exact ⟨s2.1.trans s1.1, s2.2.trans s1.2⟩

/-- **three goodbyes in a run** — of the extended machine with the goodbye packet built at call time (`snap = true`: the D27 repair),
so also of the machine itself (`xrun_blk`).  `async_unregister_service` of `s` on a host that is not closed and on which this object
has no goodbye task running yet, then the three steps of the task it starts — due at `now`, `now + 125`, `now + 250` — with any
extended blocks in between that are quiet for the object (no `_close`, no second unregister of the same object, no foreign step of its
goodbye tasks; **any** mutation of any object, this one included): each of the three steps multicasts the goodbye datagram of `s`. -/
theorem unregister_xrun_goodbyes (h0 : Host) (hnd : h0.done = false) (s : Svc) (oid : Nat) (now : Int)
    (hfresh : h0.tasks.filter (isBye oid) = []) (mid0 mid1 mid2 : List XBlock)
    (hm0 : ∀ b ∈ mid0, b.quietFor oid = true) (hm1 : ∀ b ∈ mid1, b.quietFor oid = true) (hm2 : ∀ b ∈ mid2, b.quietFor oid = true)
    (h3 : Host) (out : List Pkt) (ad : Bool) (had : ad = !hostShared lower (regRemove lower h0.reg (key lower s)) s)
    (hrun : h0.xrun lower true (.blk (.unregister s oid now) :: (mid0 ++ .blk (.task oid (some 0) ad now) :: (mid1 ++ .blk (.task oid (some 0) ad (now + 125)) ::
        (mid2 ++ [.blk (.task oid (some 0) ad (now + 250))])))) = some (h3, out)) :
    ∃ o0 o1 o2, out = o0 ++ [broadcastPkt s (some 0) ad] ++ o1 ++ [broadcastPkt s (some 0) ad] ++ o2 ++ [broadcastPkt s (some 0) ad] := by
  subst had
  obtain ⟨h1, e1, r1, hs1, hr1, rfl⟩ := xrun_cons lower true _ _ _ _ _ hrun
  obtain ⟨rfl, hd1, hf1⟩ := unregister_bye lower h0 h1 s oid now e1 hfresh hs1
  -- mid0
  obtain ⟨h2, o0, r2, hr2a, hr2b, rfl⟩ := xrun_append_elim lower true _ _ _ _ _ hr1
  have q0 := xrun_quiet lower oid mid0 _ h2 o0 hm0 hr2a
  rw [hf1] at q0
  obtain ⟨h3a, g1, r3, hs3, hr3, rfl⟩ := xrun_cons lower true _ _ _ _ _ hr2b
  have b1 := bye_step lower oid h2 h3a ⟨s, oid, Gen.unregisterTime, some 0, !hostShared lower (regRemove lower h0.reg (key lower s)) s, 0, now⟩ g1
    (q0.2.trans (hd1.trans hnd)) rfl rfl q0.1 hs3
  simp only [show (0 : Nat) + 1 < 3 from by omega, if_true] at b1
  obtain ⟨rfl, hd3, hf3⟩ := b1
  -- mid1
  obtain ⟨h4, o1, r4, hr4a, hr4b, rfl⟩ := xrun_append_elim lower true _ _ _ _ _ hr3
  have q1 := xrun_quiet lower oid mid1 _ h4 o1 hm1 hr4a
  rw [hf3] at q1
  obtain ⟨h5, g2, r5, hs5, hr5, rfl⟩ := xrun_cons lower true _ _ _ _ _ hr4b
  have hdue1 : now + 125 = now + ((Gen.unregisterTime : Nat) : Int) := by simp [unregisterTime_eq]
  rw [hdue1] at hs5
  have b2 := bye_step lower oid h4 h5 ⟨s, oid, Gen.unregisterTime, some 0, !hostShared lower (regRemove lower h0.reg (key lower s)) s, 0 + 1, now + Gen.unregisterTime⟩ g2
    (q1.2.trans hd3) rfl rfl q1.1 hs5
  simp only [show (0 : Nat) + 1 + 1 < 3 from by omega, if_true] at b2
  obtain ⟨rfl, hd5, hf5⟩ := b2
  -- mid2
  obtain ⟨h6, o2, r6, hr6a, hr6b, rfl⟩ := xrun_append_elim lower true _ _ _ _ _ hr5
  have q2 := xrun_quiet lower oid mid2 _ h6 o2 hm2 hr6a
  rw [hf5] at q2
  obtain ⟨h7, g3, r7, hs7, hr7, rfl⟩ := xrun_cons lower true _ _ _ _ _ hr6b
  have hdue2 : now + 250 = now + ((Gen.unregisterTime : Nat) : Int) + ((Gen.unregisterTime : Nat) : Int) := by simp [unregisterTime_eq]; omega
  rw [hdue2] at hs7
  have b3 := bye_step lower oid h6 h7 ⟨s, oid, Gen.unregisterTime, some 0, !hostShared lower (regRemove lower h0.reg (key lower s)) s, 0 + 1 + 1,
      now + Gen.unregisterTime + Gen.unregisterTime⟩ g3 (q2.2.trans hd5) rfl rfl q2.1 hs7
  obtain ⟨rfl, _, _⟩ := b3
  simp only [Host.xrun, Option.some.injEq, Prod.mk.injEq] at hr7
  obtain ⟨rfl, rfl⟩ := hr7
  exact ⟨o0, o1, o2, by simp⟩

/-- the same for runs of the machine itself (no mutation) -/
theorem unregister_run_goodbyes (h0 : Host) (hnd : h0.done = false) (s : Svc) (oid : Nat) (now : Int)
    (hfresh : h0.tasks.filter (isBye oid) = []) (mid0 mid1 mid2 : List Block)
    (hm0 : ∀ b ∈ mid0, b.quietFor oid = true) (hm1 : ∀ b ∈ mid1, b.quietFor oid = true) (hm2 : ∀ b ∈ mid2, b.quietFor oid = true)
    (h3 : Host) (out : List Pkt) (ad : Bool) (had : ad = !hostShared lower (regRemove lower h0.reg (key lower s)) s)
    (hrun : h0.run lower (.unregister s oid now :: (mid0 ++ .task oid (some 0) ad now :: (mid1 ++ .task oid (some 0) ad (now + 125) ::
        (mid2 ++ [.task oid (some 0) ad (now + 250)])))) = some (h3, out)) :
    ∃ o0 o1 o2, out = o0 ++ [broadcastPkt s (some 0) ad] ++ o1 ++ [broadcastPkt s (some 0) ad] ++ o2 ++ [broadcastPkt s (some 0) ad] := by
  have hq : ∀ (m : List Block), (∀ b ∈ m, b.quietFor oid = true) → ∀ x ∈ m.map XBlock.blk, x.quietFor oid = true := by
    intro m hm x hx
    rw [List.mem_map] at hx
    obtain ⟨b, hb, rfl⟩ := hx
    exact hm b hb
  refine unregister_xrun_goodbyes lower h0 hnd s oid now hfresh (mid0.map .blk) (mid1.map .blk) (mid2.map .blk) (hq _ hm0) (hq _ hm1) (hq _ hm2) h3 out ad had ?_
  rw [← hrun, ← xrun_blk lower true]
  simp

end Zc.Goodbye
